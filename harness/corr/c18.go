//go:build c18

package main

// C18: time helpers.  Every case compiles a real `{timeformat}`, `{timeattr}`, `{time}`,
// `{buckettime}`, `{duration}` or `{durationformat}` expression with funclib.NewKeyBuilder and
// evaluates it; the Lean side answers from its own proleptic-Gregorian calendar, layout
// tokenizer/formatter/parser and duration printer/parser.  The zone is data: the harness passes
// the offset and abbreviation Go reports for the zone at the instant (`off`, `abbr`) and whether
// time.LoadLocation accepts the name (`zok`); for rare's own UTC the model ignores both.

import (
	"fmt"
	"sort"
	"strconv"
	"strings"
	"sync"
	"time"
	_ "time/tzdata" // fallback when the host has no /usr/share/zoneinfo

	"github.com/araddon/dateparse"

	"rare/pkg/expressions"
	"rare/pkg/expressions/funclib"
)

// ---------------------------------------------------------------- real code

// c18Lit writes a constant template argument.
func c18Lit(s string) string {
	bare := s != ""
	for _, c := range s {
		if !(c >= 'a' && c <= 'z' || c >= 'A' && c <= 'Z' || c >= '0' && c <= '9' || c == '_' || c == '/' || c == '+' || c == '-' || c == ':' || c == '.' || c == ',') {
			bare = false
		}
	}
	if bare {
		return s
	}
	return "\"" + strings.ReplaceAll(s, "\"", "\\\\\\\"") + "\""
}

func c18Kinds(errs *expressions.CompilerErrors) string {
	if errs == nil || len(errs.Errors) == 0 {
		return "."
	}
	parts := []string{}
	for _, e := range errs.Errors {
		parts = append(parts, errKind(e.Err))
	}
	return strings.Join(parts, ",")
}

// c18Eval compiles `{name {0} consts…}` (argc counts {0} too) and evaluates it on every input.
func c18Eval(name string, argc int, consts []string, inputs []string) (string, []string) {
	var sb strings.Builder
	sb.WriteString("{" + name)
	if argc >= 1 {
		sb.WriteString(" {0}")
	}
	for i := 0; i+2 <= argc && i < len(consts); i++ {
		sb.WriteString(" " + c18Lit(consts[i]))
	}
	for i := len(consts) + 1; i < argc; i++ { // more arguments than the function takes
		sb.WriteString(" x")
	}
	sb.WriteString("}")
	kb := funclib.NewKeyBuilder()
	compiled, errs := kb.Compile(sb.String())
	if compiled == nil {
		return "nil-compiled", nil
	}
	outs := make([]string, len(inputs))
	for i, in := range inputs {
		outs[i] = compiled.BuildKey(&expressions.KeyBuilderContextArray{Elements: []string{in}})
	}
	return c18Kinds(errs), outs
}

// c18EvalPrefix compiles `{name "<prefix>{0}" consts…}` and evaluates it on the inputs with `prefix` cut off
// (sequentially, or from 8 goroutines at once when par is set).
func c18EvalPrefix(name, prefix string, consts []string, strs []string, par bool) (string, []string) {
	var sb strings.Builder
	sb.WriteString("{" + name + " ")
	if prefix == "" {
		sb.WriteString("{0}")
	} else {
		sb.WriteString("\"" + prefix + "{0}\"")
	}
	for _, c := range consts {
		sb.WriteString(" " + c18Lit(c))
	}
	sb.WriteString("}")
	kb := funclib.NewKeyBuilder()
	compiled, errs := kb.Compile(sb.String())
	if compiled == nil {
		return "nil-compiled", nil
	}
	outs := make([]string, len(strs))
	eval := func(i int) {
		outs[i] = compiled.BuildKey(&expressions.KeyBuilderContextArray{Elements: []string{strings.TrimPrefix(strs[i], prefix)}})
	}
	if par {
		var wg sync.WaitGroup
		for g := 0; g < 8; g++ {
			wg.Add(1)
			go func(g int) {
				defer wg.Done()
				for i := g; i < len(strs); i += 8 {
					eval(i)
				}
			}(g)
		}
		wg.Wait()
	} else {
		for i := range strs {
			eval(i)
		}
	}
	return c18Kinds(errs), outs
}

// c18CountCtx counts how often a stage reads its context.
type c18CountCtx struct{ n int }

func (c *c18CountCtx) GetMatch(idx int) string  { c.n++; return "" }
func (c *c18CountCtx) GetKey(key string) string { c.n++; return "" }

// c18Keyword classifies what `{time <word>}` compiled to by observation: `now` is a constant near the
// current time that never reads the context, `live` reads it and answers the current time, `delta`
// reads it and answers the seconds since the stage was built; anything else goes to the date parser.
func c18Keyword(word string) string {
	t0 := time.Now().Unix()
	kb := funclib.NewKeyBuilder()
	compiled, _ := kb.Compile("{time " + c18Lit(word) + "}")
	if compiled == nil {
		return "nil-compiled"
	}
	ctx := &c18CountCtx{}
	out := compiled.BuildKey(ctx)
	t1 := time.Now().Unix()
	v, err := strconv.ParseInt(out, 10, 64)
	switch {
	case err != nil:
		return "ok kw=none"
	case v >= 0 && v <= t1-t0+1 && ctx.n > 0:
		return "ok kw=delta"
	case v >= t0-1 && v <= t1+1 && ctx.n > 0:
		return "ok kw=live"
	case v >= t0-1 && v <= t1+1:
		return "ok kw=now"
	}
	return "ok kw=none"
}

func c18One(name string, argc int, consts []string, input string) string {
	k, outs := c18Eval(name, argc, consts, []string{input})
	if outs == nil {
		return k
	}
	return fmt.Sprintf("ok errs=%s val=%s", k, HexS(outs[0]))
}

func c18Run(f []string) string {
	hs := func(i int) string { return string(UnHex(f[i])) }
	atoi := func(i int) int { n, _ := strconv.Atoi(f[i]); return n }
	switch f[0] {
	case "fmt": // fmt argc fmt zone zok arg off abbr
		return c18One("timeformat", atoi(1), []string{hs(2), hs(3)}, hs(5))
	case "attr": // attr argc attr zone zok arg off
		return c18One("timeattr", atoi(1), []string{hs(2), hs(3)}, hs(5))
	case "time": // time argc fmt zone zok str off abbr
		return c18One("time", atoi(1), []string{hs(2), hs(3)}, hs(5))
	case "bucket": // bucket argc bucket fmt zone zok str abbr
		return c18One("buckettime", atoi(1), []string{hs(2), hs(3), hs(4)}, hs(6))
	case "seq": // seq kind fmt zone zok strs …
		strs := UnHexListS(f[5])
		var k string
		var outs []string
		if f[1] == "bucket" {
			k, outs = c18Eval("buckettime", 4, []string{hs(12), hs(2), hs(3)}, strs)
		} else {
			k, outs = c18Eval("time", 3, []string{hs(2), hs(3)}, strs)
		}
		if outs == nil {
			return k
		}
		if k != "." {
			return fmt.Sprintf("ok errs=%s val=%s", k, HexS(outs[0]))
		}
		return fmt.Sprintf("ok errs=%s val=%s", k, HexListS(outs))
	case "seqe", "seqpar": // seqe prefix kind fmt zone zok strs … bucket
		strs := UnHexListS(f[6])
		var k string
		var outs []string
		if f[2] == "bucket" {
			k, outs = c18EvalPrefix("buckettime", hs(1), []string{hs(13), hs(3), hs(4)}, strs, f[0] == "seqpar")
		} else {
			k, outs = c18EvalPrefix("time", hs(1), []string{hs(3), hs(4)}, strs, f[0] == "seqpar")
		}
		if outs == nil {
			return k
		}
		if k != "." {
			return fmt.Sprintf("ok errs=%s val=%s", k, HexS(outs[0]))
		}
		return fmt.Sprintf("ok errs=%s val=%s", k, HexListS(outs))
	case "kw":
		return c18Keyword(hs(1))
	case "cc": // cc fn argc const1 enumok zoneok
		return c18CompileCheck(f[1], atoi(2), f[3] == "1", f[4] == "1", f[5] == "1")
	case "dur":
		return c18One("duration", 1, nil, hs(1))
	case "durf":
		return c18One("durationformat", 1, nil, hs(1))
	case "frac": // frac f unit k: the binary64 term of ParseDuration's fraction, computed by the hardware
		fv, _ := strconv.ParseUint(f[1], 10, 64)
		unit, _ := strconv.ParseUint(f[2], 10, 64)
		scale := 1.0
		for i := atoi(3); i > 0; i-- {
			scale *= 10
		}
		return fmt.Sprintf("ok %d", uint64(float64(fv)*(float64(unit)/scale)))
	case "zone": // zone zonehex table at|date n: Go's own zone arithmetic against the transition-table model
		z := c18LoadZone(hs(1))
		n, _ := strconv.ParseInt(f[4], 10, 64)
		if f[3] == "at" {
			name, off := time.Unix(n, 0).In(z.loc).Zone()
			return fmt.Sprintf("ok off=%d abbr=%s", off, HexS(name))
		}
		w := time.Unix(n, 0).UTC()
		return fmt.Sprintf("ok unix=%d", time.Date(w.Year(), w.Month(), w.Day(), w.Hour(), w.Minute(), w.Second(), 0, z.loc).Unix())
	case "ztime": // ztime fmt zone str table
		return c18One("time", 3, []string{hs(1), hs(2)}, hs(3))
	case "zh": // zh fn a1 zone table args: one compiled stage over a history (c18hist.go)
		return c18RunHist(f)
	case "zn": // zn fmt zone table zones strs: abbreviations in the text on the table + zone-list model (c18name.go)
		return c18RunName(f)
	case "cal": // reference calendar against Go's own (no rare code involved)
		days, _ := strconv.ParseInt(f[1], 10, 64)
		t := time.Unix(days*86400, 0).UTC()
		y, w := t.ISOWeek()
		back := t.Unix() / 86400
		return fmt.Sprintf("ok %d %d %d wd=%d yd=%d iso=%d-%d q=%d back=%d", t.Year(), int(t.Month()), t.Day(), int(t.Weekday()), t.YearDay(), y, w, (int(t.Month())-1)/3+1, back)
	}
	return "bad-op"
}

// ---------------------------------------------------------------- zones

type c18Zone struct {
	arg string // what the template passes
	loc *time.Location
	ok  bool
}

var c18ZoneNames = []string{
	"", "utc", "UTC", "Utc", "local", "Local", "LOCAL",
	"Etc/GMT+5", "Etc/GMT-14", "Etc/GMT+12", "Asia/Kolkata", "Asia/Kathmandu", "Asia/Tokyo",
	"America/New_York", "Europe/Berlin", "Europe/London", "Europe/Dublin", "Australia/Sydney", "Australia/Lord_Howe",
	"America/Sao_Paulo", "America/St_Johns", "Pacific/Apia", "Pacific/Chatham", "Africa/Casablanca", "Asia/Tehran",
	"America/Caracas", "Pacific/Kiritimati", "Africa/Monrovia", "Europe/Moscow", "America/Los_Angeles",
	// not accepted by LoadLocation
	"america/new_york ", "Mars/Olympus", "asdf", "+02:00", "EST5", "utc ", "Europe",
}

func c18LoadZone(arg string) c18Zone {
	switch strings.ToUpper(arg) {
	case "", "UTC":
		return c18Zone{arg, time.UTC, true}
	case "LOCAL":
		return c18Zone{arg, time.Local, true}
	}
	loc, err := time.LoadLocation(arg)
	if err != nil {
		return c18Zone{arg, time.UTC, false}
	}
	return c18Zone{arg, loc, true}
}

var c18Zones []c18Zone
var c18Transitions = map[string][]int64{}

const c18Min, c18Max = int64(0), int64(4102444800) // 1970-01-01 .. 2100-01-01

func c18Init() {
	if c18Zones != nil {
		return
	}
	for _, n := range c18ZoneNames {
		z := c18LoadZone(n)
		c18Zones = append(c18Zones, z)
		if z.ok {
			var tr []int64
			t := time.Unix(c18Min, 0).In(z.loc)
			for i := 0; i < 600; i++ {
				_, end := t.ZoneBounds()
				if end.IsZero() || end.Unix() >= c18Max || (len(tr) > 0 && end.Unix() <= tr[len(tr)-1]) {
					break // (ZoneBounds stops progressing around 2041: the list ends there)
				}
				tr = append(tr, end.Unix())
				t = end
			}
			c18Transitions[n] = tr
		}
	}
}

func c18Ok(z c18Zone) string {
	if z.ok {
		return "1"
	}
	return "0"
}

// c18CompileCheck compiles a helper with argc arguments; the second argument is a constant (a valid or an
// invalid enum value) or `{1}`; the zone argument, when there is one, is valid or not.
func c18CompileCheck(fn string, argc int, const1, enumOk, zoneOk bool) string {
	second := map[string][2]string{"buckettime": {"hours", "fortnights"}, "timeattr": {"quarter", "century"}, "time": {"RFC3339", "RFC3339"},
		"timeformat": {"RFC3339", "RFC3339"}, "duration": {"x", "x"}, "durationformat": {"x", "x"}}[fn]
	zonePos := map[string]int{"time": 3, "timeformat": 3, "buckettime": 4, "timeattr": 3}[fn]
	var sb strings.Builder
	sb.WriteString("{" + fn)
	for i := 1; i <= argc; i++ {
		switch {
		case i == 1:
			sb.WriteString(" {0}")
		case i == 2 && !const1:
			sb.WriteString(" {1}")
		case i == 2 && enumOk:
			sb.WriteString(" " + second[0])
		case i == 2:
			sb.WriteString(" " + second[1])
		case i == zonePos && zoneOk:
			sb.WriteString(" Europe/Berlin")
		case i == zonePos:
			sb.WriteString(" Mars/Olympus")
		default:
			sb.WriteString(" RFC3339")
		}
	}
	sb.WriteString("}")
	kb := funclib.NewKeyBuilder()
	compiled, errs := kb.Compile(sb.String())
	if compiled == nil {
		return "nil-compiled"
	}
	if k := c18Kinds(errs); k != "." {
		return fmt.Sprintf("ok errs=%s val=%s", k, HexS(compiled.BuildKey(&expressions.KeyBuilderContextArray{Elements: []string{"0", "0"}})))
	}
	if argc == 0 {
		return "ok errs=. val=-"
	}
	return "ok built"
}

// c18Table renders the transitions of z within +-3 years of u as `<off>:<abbr>,<from>:<off>:<abbr>,…`
// (what the zone is before the first listed transition, then each transition).
func c18Table(z c18Zone, u int64) string {
	const span = 3 * 366 * 86400
	var sb strings.Builder
	first := true
	last := int64(-1 << 62)
	for _, t := range c18Transitions[z.arg] {
		if t < u-span || t > u+span || t <= last { // (ZoneBounds repeats its last bound once it stops progressing)
			continue
		}
		last = t
		if first {
			off, abbr := c18ZoneAt(z, t-1)
			fmt.Fprintf(&sb, "%d:%s", off, HexS(abbr))
			first = false
		}
		off, abbr := c18ZoneAt(z, t)
		fmt.Fprintf(&sb, ",%d:%d:%s", t, off, HexS(abbr))
	}
	if first {
		off, abbr := c18ZoneAt(z, u)
		fmt.Fprintf(&sb, "%d:%s", off, HexS(abbr))
	}
	return sb.String()
}

// layouts without any zone information: the location argument alone decides the instant
var c18ZonelessLayouts = []string{"ANSIC", "2006-01-02 15:04:05", "2006-01-02T15:04:05", "Jan _2 2006 15:04:05", "02/01/2006 15:04", "2006-01-02", "Monday, 02-Jan-2006 15:04:05", "15:04:05 2006-01-02"}

// c18ZoneCases: the transition-table ops around the transitions of z (gaps and overlaps included).
func c18ZoneCases(r *Rand, z c18Zone, add func(string)) {
	tr := c18Transitions[z.arg]
	var u int64
	if len(tr) > 0 && r.Chance(4, 5) {
		u = Pick(r, tr) + Pick(r, []int64{-7201, -7200, -3601, -3600, -1801, -1800, -1, 0, 1, 1799, 1800, 3599, 3600, 3601, 7199, 7200, 86400, -86400}) + int64(r.Intn(3)) - 1
	} else {
		u = 3*86400 + int64(r.U64()%uint64(c18Max-6*86400))
	}
	if u < 3*86400 || u > c18Max-3*86400 || (len(tr) > 0 && u > tr[len(tr)-1]-3*86400) {
		return // the table is complete only up to the last transition ZoneBounds reports
	}
	tab := c18Table(z, u)
	switch r.Intn(3) {
	case 0:
		add(fmt.Sprintf("zone %s %s at %d", HexS(z.arg), tab, u))
	case 1: // u read as a wall clock: near a transition this hits the gap / the overlap
		off, _ := c18ZoneAt(z, u)
		w := u + int64(off)*int64(r.Intn(2))
		add(fmt.Sprintf("zone %s %s date %d", HexS(z.arg), c18Table(z, w), w))
	default:
		f := Pick(r, c18ZonelessLayouts)
		layout, named := c18Layouts[f]
		if !named {
			layout = f
		}
		t := time.Unix(u, 0).In(z.loc)
		s := t.Format(layout)
		if r.Chance(1, 3) { // the wall clock shifted back: into the gap, if u is just after a spring-forward transition
			_, o := t.Zone()
			s = time.Unix(u+int64(o)-Pick(r, []int64{1, 1800, 3600}), 0).UTC().Format(layout)
		}
		if y := t.Year(); y < 1971 || y > 2098 {
			return
		}
		add(fmt.Sprintf("ztime %s %s %s %s", HexS(f), HexS(z.arg), HexS(s), tab))
	}
}

// ---------------------------------------------------------------- generators

var c18Named = []string{"", "ANSIC", "UNIX", "RUBY", "RFC822", "RFC822Z", "RFC1123", "RFC1123Z", "RFC3339", "RFC3339N", "NGINX",
	"MONTH", "MONTHNAME", "MNTH", "DAY", "YEAR", "HOUR", "MINUTE", "SECOND", "TIMEZONE", "NTIMEZONE", "NTZ", "WEEKDAY", "WDAY"}

// named formats holding date, time and a numeric offset
var c18RoundTrip = []string{"RFC3339", "RFC3339N", "RFC1123Z", "RFC822Z", "RUBY", "NGINX", ""}

var c18Layouts = map[string]string{"": time.RFC3339, "ANSIC": time.ANSIC, "UNIX": time.UnixDate, "RUBY": time.RubyDate, "RFC822": time.RFC822,
	"RFC822Z": time.RFC822Z, "RFC1123": time.RFC1123, "RFC1123Z": time.RFC1123Z, "RFC3339": time.RFC3339, "RFC3339N": time.RFC3339Nano,
	"NGINX": "_2/Jan/2006:15:04:05 -0700", "MONTH": "01", "MONTHNAME": "January", "MNTH": "Jan", "DAY": "02", "YEAR": "2006", "HOUR": "15",
	"MINUTE": "04", "SECOND": "05", "TIMEZONE": "MST", "NTIMEZONE": "-0700", "NTZ": "-0700", "WEEKDAY": "Monday", "WDAY": "Mon"}

var c18Buckets = []string{"nanos", "n", "seconds", "s", "sec", "second", "minutes", "m", "min", "mi", "hours", "h", "hour", "days", "d", "day",
	"months", "mo", "mon", "month", "years", "y", "year", "YEAR", "Day", "", "x", "secondss", "ms", "dayz", "hr", "minute s", "mm"}

var c18Chunks = []string{"2006", "06", "01", "1", "Jan", "January", "02", "2", "_2", "15", "03", "3", "04", "4", "05", "5", "PM", "pm", "Mon", "Monday",
	"MST", "-0700", "-07:00", "-07", "Z07:00", "Z0700", "-070000", "-07:00:00", "Z07", "Z070000", "Z07:00:00", ".000", ".999", ",000", ",999999", ".000000000",
	"002", "__2", "_2006", "Janu", "Mond", "Month", "0", "7", "9", "Z", "M", "J", "_", "20", "200"}
var c18Seps = []string{" ", "-", "/", ":", "T", ", ", ".", "", "", "  ", "x", " at ", "_", "'", "(", ") ", "é"}

func c18RandCase(r *Rand, s string) string {
	switch r.Intn(4) {
	case 0:
		return strings.ToLower(s)
	case 1:
		b := []byte(s)
		for i := range b {
			if r.Bool() {
				b[i] = strings.ToLower(string(b[i]))[0]
			}
		}
		return string(b)
	}
	return s
}

func c18CustomLayout(r *Rand) string {
	var sb strings.Builder
	n := r.Range(1, 7)
	for i := 0; i < n; i++ {
		sb.WriteString(Pick(r, c18Chunks))
		sb.WriteString(Pick(r, c18Seps))
	}
	return sb.String()
}

// a sensible custom layout (distinct fields, separated), so that parsing mostly succeeds
func c18SaneLayout(r *Rand) string {
	date := Pick(r, []string{"2006-01-02", "02/01/2006", "Jan _2 2006", "Monday, January 2 2006", "06.01.02", "2006/1/2", "Mon Jan 2 2006", "02-Jan-06", "2006 002"})
	clock := Pick(r, []string{"15:04:05", "03:04:05 PM", "3:04pm", "15:04", "15.04.05", "15:04:05.000", "15:04:05.999999", "15h04", "3:4:5 PM"})
	zone := Pick(r, []string{"", "", " -0700", " Z07:00", " MST", " -07:00", "Z0700", " -07", " -07:00:00", " -0700 MST"})
	sep := Pick(r, []string{" ", "T", " at ", ", "})
	if r.Chance(1, 8) {
		return clock + sep + date + zone
	}
	return date + sep + clock + zone
}

func c18PickFormat(r *Rand) string {
	switch {
	case r.Chance(6, 10):
		return c18RandCase(r, Pick(r, c18Named))
	case r.Chance(1, 2):
		return c18SaneLayout(r)
	case r.Chance(1, 8):
		return Pick(r, []string{"rfc3339 ", "RFC", "RFC33390", "kitchen", "auto", "cache", "Auto", "CACHE", "epoch", "unix ", "%Y-%m-%d"})
	}
	return c18CustomLayout(r)
}

var c18Deltas = []int64{-86401, -86400, -3601, -3600, -61, -1, 0, 1, 59, 60, 3599, 3600, 43200, 86399, 86400, 86401}

// c18Instant draws unix seconds: dense around month/quarter/year/ISO-week/DST boundaries (taken in
// the zone's local time), plus uniform draws and a few out-of-range values.
func c18Instant(r *Rand, z c18Zone) int64 {
	k := r.Intn(100)
	year := r.Range(1970, 2099)
	if r.Chance(1, 6) {
		year = Pick(r, []int{1970, 1971, 1972, 1999, 2000, 2001, 2004, 2010, 2011, 2015, 2016, 2020, 2021, 2024, 2026, 2037, 2038, 2068, 2069, 2070, 2096, 2099})
	}
	local := func(t time.Time) int64 { // the instant at which the zone's wall clock shows t's UTC fields
		return time.Date(t.Year(), t.Month(), t.Day(), t.Hour(), t.Minute(), t.Second(), 0, z.loc).Unix()
	}
	d := Pick(r, c18Deltas)
	var u int64
	switch {
	case k < 14: // month start
		u = local(time.Date(year, time.Month(r.Range(1, 12)), 1, 0, 0, 0, 0, time.UTC)) + d
	case k < 26: // quarter start
		u = local(time.Date(year, time.Month(1+3*r.Intn(4)), 1, 0, 0, 0, 0, time.UTC)) + d
	case k < 36: // year start
		u = local(time.Date(year, 1, 1, 0, 0, 0, 0, time.UTC)) + d
	case k < 50: // ISO-week boundaries around New Year: Dec 26 .. Jan 8
		u = local(time.Date(year, 12, 26+r.Intn(14), 0, 0, 0, 0, time.UTC)) + d
	case k < 58: // end of February
		u = local(time.Date(year, 2, 27+r.Intn(4), 0, 0, 0, 0, time.UTC)) + d
	case k < 72: // DST / zone transitions of this zone
		tr := c18Transitions[z.arg]
		if len(tr) > 0 {
			u = Pick(r, tr) + d
		} else {
			u = local(time.Date(year, time.Month(r.Range(1, 12)), r.Range(1, 28), 0, 0, 0, 0, time.UTC)) + d
		}
	case k < 76: // a Monday 00:00 (week boundary) somewhere in the year
		t := time.Date(year, time.Month(r.Range(1, 12)), r.Range(1, 28), 0, 0, 0, 0, time.UTC)
		t = t.AddDate(0, 0, -((int(t.Weekday()) + 6) % 7))
		u = local(t) + d
	case k < 80:
		u = Pick(r, []int64{0, 1, 86399, 86400, 951782400, 2147483647, 2147483648, 4102444799, 4102444800, 1460653945, 1000000000, 1234567890})
	case k < 96:
		u = int64(r.U64() % uint64(c18Max))
	case k < 98: // before 1970 / after 2100, still four-digit years
		u = Pick(r, []int64{-1, -86400, -2208988800, -62135596800, -62167219200, 4102444801, 32503680000, 253402300799, 16725225600}) + int64(r.Intn(3)) - 1
	default: // years outside 0..9999 (the model declines)
		u = Pick(r, []int64{253402300800, -62167219201, 1 << 40, -(1 << 40), 1<<63 - 1, -1 << 63, 67767976233532799, 67768036191676800})
	}
	return u
}

func c18ZoneAt(z c18Zone, u int64) (int, string) {
	name, off := time.Unix(u, 0).In(z.loc).Zone()
	return off, name
}

var c18BadInts = []string{"", " ", "x", "1.5", "1e3", "0x10", "12a", " 5", "5 ", "+", "-", "--1", "9223372036854775808", "-9223372036854775809", "١", "1_000", "now"}

func c18IntArg(r *Rand, u int64) string {
	if r.Chance(1, 40) {
		return Pick(r, c18BadInts)
	}
	s := strconv.FormatInt(u, 10)
	if r.Chance(1, 30) && u >= 0 {
		s = Pick(r, []string{"+", "0", "00"}) + s
	}
	return s
}

func c18Argc(r *Rand, lo, hi int) int {
	if r.Chance(1, 50) {
		if lo-1 >= 1 && r.Bool() { // `{name}` without arguments is a key look-up, not a call
			return lo - 1
		}
		return hi + 1
	}
	if r.Chance(3, 4) {
		return hi
	}
	return r.Range(lo, hi)
}

func c18Mutate(r *Rand, s string) string {
	b := []byte(s)
	switch r.Intn(9) {
	case 0:
		return ""
	case 1:
		if len(b) > 0 {
			return string(b[:r.Intn(len(b))])
		}
	case 2:
		return s + Pick(r, []string{" ", "x", "0", ".5", ",123", " UTC", "Z"})
	case 3:
		if len(b) > 0 {
			i := r.Intn(len(b))
			b[i] = Pick(r, []byte{'0', '9', ' ', 'x', 'Z', '+', '-', ':', '.', ',', '3', '6'})
			return string(b)
		}
	case 4:
		return " " + s
	case 5:
		return strings.Replace(s, " ", "  ", 1)
	case 6:
		return strings.ToUpper(s)
	case 7:
		return strings.ToLower(s)
	case 8:
		if len(b) > 1 {
			i := r.Intn(len(b))
			return string(b[:i]) + string(b[i+1:])
		}
	}
	return s
}

// c18Gap reports that the wall clock written in s does not exist in loc (spring-forward gap, zone
// change): Go then returns "a time that is correct in one of the two zones", which no model of
// rare can predict; such inputs are not generated.
func c18Gap(layout, s string, loc *time.Location) bool {
	t0, e0 := time.Parse(layout, s)
	t1, e1 := time.ParseInLocation(layout, s, loc)
	if e0 != nil || e1 != nil {
		return false
	}
	return t0.Format("2006-01-02 15:04:05") != t1.Format("2006-01-02 15:04:05")
}

var c18HandStrings = []string{
	"14/Apr/2016:19:12:25 +0200", "14/Apr/2016:19:12:25.123 +0200", " 4/Apr/2016:19:12:25 +0200", "4/Apr/2016:19:12:25 +0200",
	"2016-02-30T00:00:00Z", "2016-02-29T00:00:00Z", "2015-02-29T00:00:00Z", "2016-04-31T00:00:00Z", "2016-13-01T00:00:00Z", "2016-00-10T00:00:00Z",
	"2016-04-14T24:00:00Z", "2016-04-14T23:60:00Z", "2016-04-14T23:59:60Z", "2016-04-14T23:59:59.999999999Z", "2016-04-14T23:59:59,5Z",
	"2016-04-14T23:59:59+24:00", "2016-04-14T23:59:59+25:00", "2016-04-14T23:59:59-00:60", "2016-04-14T23:59:59+00:61", "2016-04-14T23:59:59z",
	"2016-04-14T23:59:59", "2016-04-14t23:59:59Z", "0000-01-01T00:00:00Z", "9999-12-31T23:59:59Z", "2016-04-14T23:59:59-00:00:01",
	"Thu, 14 Apr 2016 17:12:25 UTC", "Thu, 14 Apr 2016 17:12:25 EST", "Thu, 14 Apr 2016 17:12:25 GMT+3", "Thu, 14 Apr 2016 17:12:25 +03", "Fri, 14 Apr 2016 17:12:25 UTC",
	"thu, 14 apr 2016 17:12:25 UTC", "14 Apr 16 17:12 +0000", "14 Apr 69 17:12 +0000", "14 Apr 68 17:12 +0000", "14 Apr +5 17:12 +0000", "14 Apr -5 17:12 +0000",
	"Thu Apr 14 17:12:25 2016", "Thu Apr  4 17:12:25 2016", "Thu Apr 4 17:12:25 2016", "Thu Apr   4 17:12:25 2016", "Thu Apr 14 17:12:25 CEST 2016",
	"Thu Apr 14 17:12:25 ChST 2016", "Thu Apr 14 17:12:25 WITA 2016", "Thu Apr 14 17:12:25 ABCD 2016", "Thu Apr 14 17:12:25 ABCDT 2016", "Thu Apr 14 17:12:25 ABCDEF 2016",
	"04", "4", "April", "Apr", "aPR", "May", "2016", "16", "216", "20160", "+016", "oauef888", "a", "12", "00", "60", "23", "24", "Thursday", "Thu", "Thurs",
}

func c18Gen(r *Rand, tier string) []string {
	c18Init()
	n := 5000
	if tier == "thorough" {
		n = 150000
	}
	var out []string
	add := func(s string) { out = append(out, s) }

	for i := 0; i < n; i++ {
		z := Pick(r, c18Zones)
		if r.Chance(1, 3) {
			z = c18Zones[r.Intn(30)] // the valid ones
		}
		u := c18Instant(r, z)
		off, abbr := c18ZoneAt(z, u)
		k := r.Intn(100)
		switch {
		case k < 30: // timeformat
			f := c18PickFormat(r)
			arg := c18IntArg(r, u)
			if v, err := strconv.ParseInt(arg, 10, 64); err == nil {
				off, abbr = c18ZoneAt(z, v)
			}
			add(fmt.Sprintf("fmt %d %s %s %s %s %d %s", c18Argc(r, 1, 3), HexS(f), HexS(z.arg), c18Ok(z), HexS(arg), off, HexS(abbr)))
		case k < 50: // timeattr
			a := c18RandCase(r, Pick(r, []string{"weekday", "week", "yearweek", "quarter", "weekday", "week", "yearweek", "quarter", "quarter", "month", "", "day", "quarters"}))
			arg := c18IntArg(r, u)
			if v, err := strconv.ParseInt(arg, 10, 64); err == nil {
				off, _ = c18ZoneAt(z, v)
			}
			add(fmt.Sprintf("attr %d %s %s %s %s %d", c18Argc(r, 2, 3), HexS(a), HexS(z.arg), c18Ok(z), HexS(arg), off))
		case k < 72: // time with an explicit format: what timeformat printed (round trip), or a damaged / foreign string
			f := c18PickFormat(r)
			if r.Chance(1, 2) {
				f = c18RandCase(r, Pick(r, c18RoundTrip[:6]))
			}
			layout, named := c18Layouts[strings.ToUpper(f)]
			if !named {
				layout = f
			}
			s := time.Unix(u, 0).In(z.loc).Format(layout)
			if r.Chance(1, 6) {
				s = c18Mutate(r, s)
			} else if r.Chance(1, 12) {
				s = Pick(r, c18HandStrings)
			}
			if c18Gap(layout, s, z.loc) {
				continue
			}
			argc := c18Argc(r, 1, 3)
			if argc < 2 {
				argc = 2
			}
			// the oracle: the zone at the instant Go returns
			_, outs := c18Eval("time", argc, []string{f, z.arg}, []string{s})
			o, a := 0, ""
			if len(outs) == 1 {
				if v, err := strconv.ParseInt(outs[0], 10, 64); err == nil {
					zz := z
					if argc < 3 {
						zz = c18Zones[0]
					}
					o, a = c18ZoneAt(zz, v)
				}
			}
			add(fmt.Sprintf("time %d %s %s %s %s %d %s", argc, HexS(f), HexS(z.arg), c18Ok(z), HexS(s), o, HexS(a)))
		case k < 84: // buckettime with an explicit format
			f := c18PickFormat(r)
			if r.Chance(1, 2) {
				f = c18RandCase(r, Pick(r, []string{"RFC3339", "RFC3339N", "NGINX", "RFC1123Z", "ANSIC", "RUBY", "RFC822Z", "UNIX", "RFC1123"}))
			}
			layout, named := c18Layouts[strings.ToUpper(f)]
			if !named {
				layout = f
			}
			t := time.Unix(u, 0).In(z.loc)
			if r.Chance(1, 3) {
				t = t.Add(time.Duration(Pick(r, []int64{1, 999999999, 123000000, 500000000, 120000, 100000000})))
			}
			s := t.Format(layout)
			if r.Chance(1, 8) {
				s = c18Mutate(r, s)
			} else if r.Chance(1, 12) {
				s = Pick(r, c18HandStrings)
			}
			if c18Gap(layout, s, z.loc) {
				continue
			}
			argc := c18Argc(r, 2, 4)
			if argc == 2 {
				argc = 3
			}
			// the oracle: the zone's abbreviation at the instant `{time}` returns for the same text
			_, outs := c18Eval("time", 3, []string{f, z.arg}, []string{s})
			a := ""
			if len(outs) == 1 {
				if v, err := strconv.ParseInt(outs[0], 10, 64); err == nil {
					zz := z
					if argc < 4 {
						zz = c18Zones[0]
					}
					_, a = c18ZoneAt(zz, v)
				}
			}
			add(fmt.Sprintf("bucket %d %s %s %s %s %s %s", argc, HexS(c18RandCase(r, Pick(r, c18Buckets))), HexS(f), HexS(z.arg), c18Ok(z), HexS(s), HexS(a)))
		case k < 90: // cache / auto dispatch over a sequence of inputs on ONE compiled stage
			add(c18SeqCase(r, z))
		case k < 95: // duration
			add("dur " + HexS(c18DurString(r)))
		default: // durationformat
			add("durf " + HexS(c18DurSecs(r)))
		}
	}

	// durations with a fraction (binary64 arithmetic inside time.ParseDuration) and the float term alone
	nf := 500
	if tier == "thorough" {
		nf = 40000
	}
	for i := 0; i < nf; i++ {
		add("dur " + HexS(c18DurFrac(r)))
		if i%2 == 0 {
			f, unit, k := c18FracTerm(r)
			add(fmt.Sprintf("frac %d %d %d", f, unit, k))
		}
	}

	// the cache stage behind a partly constant date expression, sequentially and from 8 goroutines
	ne := 250
	if tier == "thorough" {
		ne = 6000
	}
	for i := 0; i < ne; i++ {
		add(c18SeqPrefixCase(r, c18Zones[r.Intn(30)]))
	}
	// key-words and compile-time checks: small finite spaces, enumerated
	for _, w := range []string{"now", "NOW", "Now", "live", "LIVE", "liVe", "delta", "DELTA", "Delta", "nowx", "no", "lives", "deltas", "2020-01-01", "later", " now", "now "} {
		add("kw " + HexS(w))
	}
	for _, fn := range []string{"time", "timeformat", "duration", "durationformat", "buckettime", "timeattr"} {
		for argc := 0; argc <= 5; argc++ {
			for m := 0; m < 8; m++ {
				add(fmt.Sprintf("cc %s %d %d %d %d", fn, argc, m&1, (m>>1)&1, (m>>2)&1))
			}
		}
	}

	// zones as transition tables: lookup, time.Date resolution, {time} without zone text (no oracle)
	nz := 1500
	if tier == "thorough" {
		nz = 40000
	}
	for i := 0; i < nz; i++ {
		z := c18Zones[7+r.Intn(23)] // the named IANA zones
		if z.ok {
			c18ZoneCases(r, z, add)
		}
	}

	// histories on ONE compiled timeattr / timeformat / time stage around the zone's transitions (table model, no oracle)
	nh := 600
	if tier == "thorough" {
		nh = 30000
	}
	for i := 0; i < nh; i++ {
		z := c18Zones[7+r.Intn(23)]
		if z.ok {
			if c := c18HistCase(r, z); c != "" {
				add(c)
			}
		}
	}

	// texts with zone abbreviations, the location as table + zone list (model of Location.lookupName, no oracle)
	nn := 400
	if tier == "thorough" {
		nn = 20000
	}
	for i := 0; i < nn; i++ {
		z := c18Zones[7+r.Intn(23)]
		if z.ok {
			if c := c18NameCase(r, z); c != "" {
				add(c)
			}
		}
	}

	// numeric abbreviations read by value: zero-padded / very long hours after `GMT+` and `+` (round 4d)
	no := 400
	if tier == "thorough" {
		no = 20000
	}
	for i := 0; i < no; i++ {
		if c := c18OffsetCase(r); c != "" {
			add(c)
		}
	}

	// reference calendar against Go's calendar, no rare code involved
	nc := 1500
	if tier == "thorough" {
		nc = 60000
	}
	for i := 0; i < nc; i++ {
		if d := c18Instant(r, c18Zones[0]) / 86400; d >= -719528 && d <= 2932896 { // years 0..9999
			add(fmt.Sprintf("cal %d", d))
		}
	}
	if tier == "thorough" {
		// every day of 1970..2100 once
		for d := int64(0); d <= 47482; d++ {
			add(fmt.Sprintf("cal %d", d))
		}
		// every named format x every valid zone x quarter boundaries of some years
		for _, zn := range c18Zones {
			if !zn.ok {
				continue
			}
			for _, y := range []int{1970, 1972, 1999, 2000, 2016, 2024, 2038, 2069, 2099} {
				for m := 1; m <= 12; m++ {
					base := time.Date(y, time.Month(m), 1, 0, 0, 0, 0, zn.loc).Unix()
					for _, d := range []int64{-1, 0} {
						u := base + d
						off, abbr := c18ZoneAt(zn, u)
						for _, nm := range c18Named {
							add(fmt.Sprintf("fmt 3 %s %s 1 %s %d %s", HexS(nm), HexS(zn.arg), HexS(strconv.FormatInt(u, 10)), off, HexS(abbr)))
						}
						for _, a := range []string{"weekday", "week", "yearweek", "quarter"} {
							add(fmt.Sprintf("attr 3 %s %s 1 %s %d", HexS(a), HexS(zn.arg), HexS(strconv.FormatInt(u, 10)), off))
						}
					}
				}
			}
		}
		// every whole-second duration boundary, both directions
		for _, s := range c18DurBoundaries {
			add("durf " + HexS(strconv.FormatInt(s, 10)))
			add("dur " + HexS((time.Duration(s) * time.Second).String()))
		}
	}
	return out
}

var c18DurBoundaries = []int64{0, 1, -1, 59, 60, 61, -59, -60, -61, 119, 120, 3599, 3600, 3601, -3599, -3600, -3601, 7199, 7200, 86399, 86400, 86401,
	359999, 360000, 31536000, 9223372035, 9223372036, -9223372035, -9223372036, 1000000000, 123456789, 14400, 90, 5400}

func c18DurSecs(r *Rand) string {
	switch r.Intn(10) {
	case 0:
		return Pick(r, c18BadInts)
	case 1, 2, 3:
		return strconv.FormatInt(Pick(r, c18DurBoundaries), 10)
	case 4: // beyond the int64-nanosecond range: the product wraps
		return strconv.FormatInt(Pick(r, []int64{9223372037, -9223372037, 9223372038, 18446744074, 1 << 62, -(1 << 62), 1<<63 - 1, -1 << 63, 10000000000, 27670116110, 9223372036854775}), 10)
	case 5:
		return strconv.FormatInt(int64(r.Intn(100000)), 10)
	case 6: // the product wraps into the sub-second range: ns / µs / ms units of Duration.String
		return c18SubSecondSecs(r)
	}
	v := int64(r.U64() % 9223372036)
	if r.Bool() {
		v = -v
	}
	return strconv.FormatInt(v, 10)
}

var c18DurHand = []string{"24h", "1h30m", "90s", "1.5h", "1e3s", "", "0", "-0", "+0", "+5s", "5", "5 s", " 5s", "5s ", "1h-5m", "9223372036s", "9223372037s", "-9223372037s",
	"2562047h47m16s", "2562047h47m17s", "2562048h", "153722867m16s", "1000000000ns", "1500ms", "-1500ms", "999999999ns", "-999999999ns", "1000000µs", "1000000μs", "1000000us",
	"1µ", "1d", "1w", "1H", "1S", "h", ".s", "1.s", "1.0s", ".0s", "0.s", "1.000000000s", "0.5s", "1..s", "1s1", "1s.", "1m1", "00001s", "1h1h", "1s1m1h",
	"9223372036854775807ns", "9223372036854775808ns", "-9223372036854775808ns", "9223372036854775809ns", "92233720368547758070ns", "4611686018427387904ns4611686018427387904ns",
	"8589934592999999999ns", "2097151999999999ns", "2097152999999999ns", "0s", "0h0m0s", "-0s", "+-1s", "--1s", "1ss", "1ms1us1ns", "3600s", "60m", "1h0m0s", "-1h0m0s", "-1m30s"}

func c18DurString(r *Rand) string {
	switch r.Intn(10) {
	case 0, 1, 2:
		return Pick(r, c18DurHand)
	case 3:
		return c18Mutate(r, (time.Duration(r.Intn(1000000)) * time.Second).String())
	case 4, 5: // what durationformat prints
		s := c18DurSecs(r)
		if v, err := strconv.ParseInt(s, 10, 64); err == nil {
			return (time.Duration(v) * time.Second).String()
		}
		return s
	case 6: // several units
		var sb strings.Builder
		if r.Chance(1, 4) {
			sb.WriteString(Pick(r, []string{"-", "+"}))
		}
		for i := r.Range(1, 4); i > 0; i-- {
			sb.WriteString(strconv.Itoa(r.Intn(5000)))
			if r.Chance(1, 10) {
				sb.WriteString("." + strings.Repeat("0", r.Intn(3)))
			}
			sb.WriteString(Pick(r, []string{"h", "m", "s", "ms", "us", "ns", "µs", "s", "m", "h"}))
		}
		return sb.String()
	}
	v := int64(r.U64() % 9223372036)
	if r.Bool() {
		v = -v
	}
	return (time.Duration(v) * time.Second).String()
}

var c18DurUnits = []struct {
	name string
	ns   uint64
}{{"ns", 1}, {"us", 1e3}, {"µs", 1e3}, {"μs", 1e3}, {"ms", 1e6}, {"s", 1e9}, {"m", 6e10}, {"h", 36e11}, {"s", 1e9}, {"h", 36e11}, {"m", 6e10}}

var c18FracHand = []string{"9223372036854775808ns9223372036854775808ns", "9223372036854775808ns9223372036854775808ns1s", "-9223372036854775808ns9223372036854775808ns", "9223372036854775808ns9223372036854775807ns",
	"9223372036854775808ns1ns", "9223372036854775808.00ns9223372036854775808.999ns2055869.906h", "16777216.999999999s", "-16777216.999999999s", "16777215.999999999s", "4660h20m16.999999999s", "0.25h", "0.25000000000000h", "0.05m", "0.05000000000000m",
	"0.00000000005m", "0.00000000005000m", "9223372036.854775807s", "9223372036.854775808s", "-9223372036.854775808s", "-9223372036.854775809s", ".5h", "1.0000000000000000000000000001s",
	"0.9223372036854775807s", "0.9223372036854775808s", "0.9223372036854775809s", "0.92233720368547758080s", "0.922337203685477580799s", "0.1ns", "0.9ns", "0.5ns", "1.5ns", "0.3us", "0.0003us",
	"2562047.999999999999h", "2562047.788015215h", "2562047.7880152155h", "2562047.78801521550194h", "153722867.280912930m", "153722867.280912931m", "0.000000000000000000001h", "1.999999999s1.999999999s",
	"0.5h0.5m0.5s0.5ms0.5us0.5ns", "1.s", "1.0s", ".0s", "0.0000000000000000000000000000s", "8589934592.999999999s", "2097152.999999999s", "1.9999999999s", "4294967296.999999999s",
	"0.00750000000000h", "1.05000000000000m", "0.95000000000000h", "-0.25000000000000h", "0.000000001s", "0.0000000001s", "0.0000000009s", "0.00000000099999999999999999s"}

func c18Digits(r *Rand, n int) string {
	b := make([]byte, n)
	switch r.Intn(6) {
	case 0: // all nines
		for i := range b {
			b[i] = '9'
		}
	case 1: // a few digits, zero padded
		for i := range b {
			b[i] = '0'
		}
		for i := 0; i < len(b) && i < 1+r.Intn(4); i++ {
			b[i] = byte('0' + r.Intn(10))
		}
	case 2: // leading zeros, then digits
		z := r.Intn(n + 1)
		for i := range b {
			if i < z {
				b[i] = '0'
			} else {
				b[i] = byte('0' + r.Intn(10))
			}
		}
	default:
		for i := range b {
			b[i] = byte('0' + r.Intn(10))
		}
	}
	return string(b)
}

// c18DurFrac: duration strings whose groups carry a decimal fraction.
func c18DurFrac(r *Rand) string {
	if r.Chance(1, 6) {
		return Pick(r, c18FracHand)
	}
	var sb strings.Builder
	if r.Chance(1, 3) {
		sb.WriteString(Pick(r, []string{"-", "-", "+"}))
	}
	groups := 1
	if r.Chance(1, 4) {
		groups = r.Range(2, 3)
	}
	for g := 0; g < groups; g++ {
		u := Pick(r, c18DurUnits)
		// integer part: empty, small, around 2^21 / 2^24 / 2^33 seconds, near the int64 limit of the unit
		switch r.Intn(8) {
		case 0:
		case 1, 2:
			sb.WriteString(strconv.Itoa(r.Intn(100)))
		case 3:
			sb.WriteString(strconv.FormatUint(Pick(r, []uint64{2097151, 2097152, 16777215, 16777216, 16777217, 8589934592, 4294967296})+uint64(r.Intn(3)), 10))
		case 4:
			lim := uint64(1<<63) / u.ns
			sb.WriteString(strconv.FormatUint(lim-uint64(r.Intn(3)), 10))
		case 5:
			lim := uint64(1<<63) / u.ns
			sb.WriteString(strconv.FormatUint(r.U64()%(lim+1), 10))
		default:
			sb.WriteString(strconv.Itoa(r.Intn(100000)))
		}
		sb.WriteString(".")
		sb.WriteString(c18Digits(r, Pick(r, []int{0, 1, 1, 2, 3, 3, 6, 8, 9, 9, 10, 11, 12, 13, 14, 15, 16, 17, 18, 19, 20, 21, 25, 30})))
		sb.WriteString(u.name)
	}
	s := sb.String()
	if r.Chance(1, 25) {
		s = c18Mutate(r, s)
	}
	return s
}

// c18FracTerm: operands of the float term of a fraction: f has k digits (k <= 19, f <= 2^63).
func c18FracTerm(r *Rand) (uint64, uint64, int) {
	u := Pick(r, c18DurUnits)
	k := r.Range(1, 19)
	ds := strings.TrimLeft(c18Digits(r, k), "0")
	f, err := strconv.ParseUint(ds, 10, 64)
	if err != nil || f == 0 || f > 1<<63 {
		f = uint64(1 + r.Intn(1000))
	}
	return f, u.ns, k
}

// c18SeqCase: a `cache` or `auto` stage evaluated on several inputs in order.
func c18SeqCase(r *Rand, z c18Zone) string {
	kind := "time"
	bucket := ""
	if r.Chance(1, 3) {
		kind = "bucket"
		bucket = Pick(r, []string{"seconds", "minutes", "hours", "days", "months", "years", "nanos"})
	}
	f := Pick(r, []string{"", "cache", "CACHE", "Cache", "", "cache"})
	if kind == "time" && r.Chance(1, 4) {
		f = Pick(r, []string{"auto", "AUTO", "Auto"})
	}
	if !z.ok && r.Chance(3, 4) {
		z = c18Zones[r.Intn(30)]
	}
	layouts := []string{time.RFC3339, "_2/Jan/2006:15:04:05 -0700", time.RFC1123Z, "2006-01-02 15:04:05", "02/Jan/2006 15:04:05", "2006-01-02", time.ANSIC, time.RFC1123, "Jan 2, 2006", "01/02/2006", "2006/01/02 15:04"}
	first := Pick(r, layouts)
	n := r.Range(1, 5)
	var strs []string
	for i := 0; i < n; i++ {
		l := first
		if r.Chance(1, 4) {
			l = Pick(r, layouts)
		}
		s := time.Unix(c18Instant(r, z), 0).In(z.loc).Format(l)
		if r.Chance(1, 6) {
			s = Pick(r, []string{"", "oauef888", "a", "12", " ", "0"})
		} else if r.Chance(1, 10) {
			s = c18Mutate(r, s)
		}
		if c18Gap(l, s, z.loc) {
			s = ""
		}
		strs = append(strs, s)
	}
	// oracles
	var det, abbrs []string
	var dok, aok strings.Builder
	var offs, autos []string
	var outs []string
	if z.ok { // the instants `{time}` returns on the same sequence (same cache behaviour for both kinds)
		_, outs = c18Eval("time", 3, []string{f, z.arg}, strs)
	}
	for i, s := range strs {
		d, err := dateparse.ParseFormat(s)
		if err != nil {
			dok.WriteString("0")
			d = ""
		} else {
			dok.WriteString("1")
		}
		det = append(det, d)
		t, err := dateparse.ParseIn(s, z.loc)
		if err != nil {
			aok.WriteString("0")
			autos = append(autos, "0")
		} else {
			aok.WriteString("1")
			autos = append(autos, strconv.FormatInt(t.Unix(), 10))
		}
		o, a := 0, ""
		if i < len(outs) {
			if v, err := strconv.ParseInt(outs[i], 10, 64); err == nil {
				o, a = c18ZoneAt(z, v)
			}
		}
		offs = append(offs, strconv.Itoa(o))
		abbrs = append(abbrs, a)
	}
	return fmt.Sprintf("seq %s %s %s %s %s %s %s %s %s %s %s %s", kind, HexS(f), HexS(z.arg), c18Ok(z), HexListS(strs), HexListS(det), dok.String(),
		strings.Join(offs, ","), HexListS(abbrs), strings.Join(autos, ","), aok.String(), HexS(bucket))
}

// c18SeqPrefixCase: one cache stage whose date expression is `"<prefix>{0}"`; all texts share one layout (so the
// answers do not depend on the order of evaluation: theorem cache_order_independent), some inputs are empty (the
// text is then the prefix alone: detected, parsed, but not remembered).
func c18SeqPrefixCase(r *Rand, z c18Zone) string {
	kind := "time"
	bucket := ""
	if r.Chance(1, 3) {
		kind = "bucket"
		bucket = Pick(r, []string{"seconds", "minutes", "hours", "days", "months", "years"})
	}
	op := "seqe"
	if r.Chance(1, 2) {
		op = "seqpar"
	}
	f := Pick(r, []string{"", "cache", "CACHE"})
	layout := Pick(r, []string{"2006-01-02 15:04:05", "2006-01-02", "2006/01/02 15:04", time.RFC3339, "01/02/2006"})
	base := time.Unix(c18Instant(r, z), 0).In(z.loc)
	if base.Year() < 1971 || base.Year() > 2098 {
		base = time.Unix(1460653945, 0).In(z.loc)
	}
	full := base.Format(layout)
	if c18Gap(layout, full, z.loc) { // (a date-only layout puts the text at midnight, which some zones skip)
		base = time.Unix(1460653945, 0).In(z.loc)
		full = base.Format(layout)
	}
	cut := Pick(r, []int{0, 0, 4, 5, 7, 8})
	if cut > len(full) {
		cut = 0
	}
	prefix := full[:cut]
	n := r.Range(1, 24)
	var strs []string
	for i := 0; i < n; i++ {
		t := base.Add(time.Duration(r.Intn(20*86400)) * time.Second) // same year and month mostly; re-checked below
		s := t.Format(layout)
		if !strings.HasPrefix(s, prefix) || c18Gap(layout, s, z.loc) {
			s = full
		}
		if r.Chance(1, 6) && (op == "seqe" || prefix == "") {
			s = prefix // empty input (with a prefix its answer depends on whether a format is remembered already: not in parallel)
			// the prefix alone is a date of its own ("1986" = 1 Jan 1986 00:00, which Asia/Kathmandu skips): the per-instant
			// zone oracle of this op cannot describe a local-time gap (op ztime covers gaps with the transition table)
			if d, err := dateparse.ParseFormat(s); err == nil && c18Gap(d, s, z.loc) {
				s = full
			}
		}
		strs = append(strs, s)
	}
	var det, abbrs, offs []string
	var dok strings.Builder
	var outs []string
	if z.ok {
		_, outs = c18EvalPrefix("time", prefix, []string{f, z.arg}, strs, false)
	}
	for i, s := range strs {
		d, err := dateparse.ParseFormat(s)
		if err != nil {
			dok.WriteString("0")
			d = ""
		} else {
			dok.WriteString("1")
		}
		det = append(det, d)
		o, a := 0, ""
		if i < len(outs) {
			if v, err := strconv.ParseInt(outs[i], 10, 64); err == nil {
				o, a = c18ZoneAt(z, v)
			}
		}
		offs = append(offs, strconv.Itoa(o))
		abbrs = append(abbrs, a)
	}
	if op == "seqpar" { // order independence needs ONE detected layout (RFC3339 prints `Z` for offset 0 and `+01:00` otherwise: two layouts)
		first := ""
		for i, s := range strs {
			if s == "" {
				continue
			}
			if first == "" {
				first = det[i]
			}
			if det[i] != first || det[i] == "" {
				op = "seqe"
			}
		}
	}
	return fmt.Sprintf("%s %s %s %s %s %s %s %s %s %s %s . . %s", op, HexS(prefix), kind, HexS(f), HexS(z.arg), c18Ok(z), HexListS(strs), HexListS(det), dok.String(),
		strings.Join(offs, ","), HexListS(abbrs), HexS(bucket))
}

func c18Stats(cases []string) map[string]int {
	c18Init()
	st := map[string]int{}
	zones := map[string]bool{}
	for _, c := range cases {
		f := strings.Fields(c)
		st["op."+f[0]]++
		switch f[0] {
		case "seqe", "seqpar", "kw", "cc":
			continue
		case "zh":
			c18HistStats(f, st)
			continue
		case "zn":
			st["zn.texts"] += len(UnHexListS(f[5]))
			for _, t := range UnHexListS(f[5]) {
				c18OffStats(t, st)
			}
			continue
		case "durf":
			if v, err := strconv.ParseInt(string(UnHex(f[1])), 10, 64); err == nil {
				if d := time.Duration(v) * time.Second; d != 0 && d > -time.Second && d < time.Second {
					st["durf.sub-second"]++
				}
			}
			continue
		case "zone", "ztime":
			if f[0] == "zone" {
				st["zone-op."+f[3]]++
			}
			continue
		case "fmt", "attr", "time":
			zones[f[3]] = true
			if f[0] == "time" {
				c18OffStats(string(UnHex(f[5])), st)
			}
			if f[4] == "0" {
				st["zone.rejected"]++
			}
			z := strings.ToUpper(string(UnHex(f[3])))
			switch {
			case z == "" || z == "UTC":
				st["zone.utc"]++
			case z == "LOCAL":
				st["zone.local"]++
			case len(c18Transitions[string(UnHex(f[3]))]) > 0:
				st["zone.dst-or-changing"]++
			default:
				st["zone.fixed"]++
			}
			if _, ok := c18Layouts[strings.ToUpper(string(UnHex(f[2])))]; ok && f[0] != "attr" {
				st[f[0]+".named-format"]++
			} else if f[0] != "attr" {
				st[f[0]+".custom-layout"]++
			}
		}
		if f[0] == "fmt" || f[0] == "attr" {
			if u, err := strconv.ParseInt(string(UnHex(f[5])), 10, 64); err == nil {
				t := time.Unix(u, 0).UTC()
				if u >= c18Min && u <= c18Max {
					st["instant.1970-2100"]++
				} else {
					st["instant.outside"]++
				}
				if t.Day() == 1 || t.AddDate(0, 0, 1).Day() == 1 {
					st["instant.month-edge"]++
				}
				if (t.Month() == 12 && t.Day() >= 26) || (t.Month() == 1 && t.Day() <= 8) {
					st["instant.iso-year-edge"]++
				}
			} else {
				st["instant.not-a-number"]++
			}
		}
	}
	st["zones.distinct"] = len(zones)
	names := []string{}
	for _, z := range c18Zones {
		if z.ok && len(c18Transitions[z.arg]) > 0 {
			names = append(names, z.arg)
		}
	}
	sort.Strings(names)
	st["zones.with-transitions-on-host"] = len(names)
	return st
}

func init() {
	Register("C18", &Prop{Gen: c18Gen, Run: c18Run, Stats: c18Stats, Timeout: 10 * time.Second})
}
