//go:build c02

package main

// Op `tflush`: the time-flush path of the REAL batcher with pauses in the input and a LATE consumer.
//
//	tflush <batch> <buffer> <flushms> <pattern> <chunks> <lines>
//
// <lines> (hex list) are written, each followed by a line feed, to a reader that follows <chunks>: a
// comma-separated list of `p` (sleep 3*flushms+1 ms inside Read, i.e. longer than the flush timeout: the next
// line is time-flushed as a short batch) and numbers `k` (the next k lines arrive in ONE Read, so the lines
// after a time-flushed one are appended at once).  Pipeline: VerifOpenReaderToChan("s0", reader, batch, buffer,
// flushms) -> extractor.New(real regex <pattern>, extract `{src}|{line}|{1}|{2}`, ONE worker).  The consumer
// does not read the match channel before the reader has delivered its last byte (or, when the pipeline
// backs up before that, before the reader has made no progress for 40 ms): by then the extractor's match
// channel (capacity 5) is full, the worker is blocked, and batches wait in the batch channel while the
// batcher goes on appending lines.  Then everything is drained, held, a GC is forced, and only then are
// LineNumber, Line, Indices and Extracted of every match read – in arrival order (one reader, one worker).
//
// The model side (`Model/C02Batch`, the slice-level loop read from the source, with the timer oracle the
// chunk script suggests; its answer is proved independent of the oracle) answers the same line.

import (
	"fmt"
	"io"
	"runtime"
	"strconv"
	"strings"
	"sync/atomic"
	"time"
	"unsafe"

	"rare/pkg/extractor"
	"rare/pkg/extractor/batchers"
	"rare/pkg/matchers"
	"rare/pkg/matchers/fastregex"
)

type tfStep struct {
	pause bool
	data  []byte
}

type tfReader struct {
	steps    []tfStep
	pause    time.Duration
	progress int64
	eof      chan struct{}
	closed   bool
}

func (r *tfReader) Read(p []byte) (int, error) {
	for len(r.steps) > 0 && r.steps[0].pause {
		r.steps = r.steps[1:]
		time.Sleep(r.pause)
		atomic.AddInt64(&r.progress, 1)
	}
	if len(r.steps) == 0 {
		if !r.closed {
			r.closed = true
			close(r.eof)
		}
		return 0, io.EOF
	}
	n := copy(p, r.steps[0].data)
	if n == len(r.steps[0].data) {
		r.steps = r.steps[1:]
	} else {
		r.steps[0].data = r.steps[0].data[n:]
	}
	atomic.AddInt64(&r.progress, 1)
	return n, nil
}

func (r *tfReader) Close() error { return nil }

const tfExtract = "{src}|{line}|{1}|{2}"

// tfSteps turns <chunks> and <lines> into the reader's steps.
func tfSteps(chunks string, lines [][]byte) []tfStep {
	var steps []tfStep
	next := 0
	if chunks != "." {
		for _, tok := range strings.Split(chunks, ",") {
			if tok == "p" {
				steps = append(steps, tfStep{pause: true})
				continue
			}
			k, _ := strconv.Atoi(tok)
			var data []byte
			for ; k > 0 && next < len(lines); k-- {
				data = append(data, lines[next]...)
				data = append(data, '\n')
				next++
			}
			if len(data) > 0 {
				steps = append(steps, tfStep{data: data})
			}
		}
	}
	if next < len(lines) { // lines the script does not mention arrive in one last chunk
		var data []byte
		for ; next < len(lines); next++ {
			data = append(data, lines[next]...)
			data = append(data, '\n')
		}
		steps = append(steps, tfStep{data: data})
	}
	return steps
}

// Op `tfheap <batch> <buffer> <flushms> <chunks> <lines>`: the InputBatch values themselves, as the REAL timed loop
// sends them, all held until the channel is closed and only then looked at: does every batch have its own backing
// array (no two slices start at the same address), is every capacity the batch size, and what do the slices read
// NOW, numbered BatchStart+idx.  (How the lines were cut into batches depends on the real timer and is not part
// of the answer.)  Model side: the slice-level machine of Model/C02Batch – array ids, capacities, late read.
func c02TFHeapRun(f []string) string {
	if len(f) != 6 {
		return "bad-args"
	}
	batch, _ := strconv.Atoi(f[1])
	buffer, _ := strconv.Atoi(f[2])
	flushMs, _ := strconv.Atoi(f[3])
	lines := UnHexList(f[5])
	rd := &tfReader{pause: time.Duration(3*flushMs+1) * time.Millisecond, eof: make(chan struct{})}
	rd.steps = tfSteps(f[4], lines)
	b := batchers.VerifOpenReaderToChan("s0", rd, batch, buffer, time.Duration(flushMs)*time.Millisecond)
	var held []extractor.InputBatch
	for ib := range b.BatchChan() {
		held = append(held, ib)
	}
	runtime.GC()
	distinct, caps, srcs := 1, 1, 1
	seen := map[unsafe.Pointer]bool{}
	var rows []string
	for _, ib := range held {
		p := unsafe.Pointer(unsafe.SliceData(ib.Batch))
		if seen[p] {
			distinct = 0
		}
		seen[p] = true
		if cap(ib.Batch) != batch {
			caps = 0
		}
		if ib.Source != "s0" {
			srcs = 0
		}
		for idx, l := range ib.Batch {
			rows = append(rows, fmt.Sprintf("%d:%s", ib.BatchStart+uint64(idx), Hex(l)))
		}
	}
	body := "."
	if len(rows) > 0 {
		body = strings.Join(rows, ",")
	}
	return fmt.Sprintf("ok distinct=%d caps=%d src=%d lines=%s", distinct, caps, srcs, body)
}

func c02TFlushRun(f []string) string {
	if len(f) != 7 {
		return "bad-args"
	}
	batch, _ := strconv.Atoi(f[1])
	buffer, _ := strconv.Atoi(f[2])
	flushMs, _ := strconv.Atoi(f[3])
	pat := string(UnHex(f[4]))
	lines := UnHexList(f[6])
	re, err := fastregex.Compile(pat)
	if err != nil {
		return "bad-pattern"
	}
	rd := &tfReader{pause: time.Duration(3*flushMs+1) * time.Millisecond, eof: make(chan struct{})}
	rd.steps = tfSteps(f[5], lines)
	b := batchers.VerifOpenReaderToChan("s0", rd, batch, buffer, time.Duration(flushMs)*time.Millisecond)
	ext, err := extractor.New(b.BatchChan(), &extractor.Config{Matcher: matchers.ToFactory(re), Extract: tfExtract, Workers: 1})
	if err != nil {
		go func() {
			for range b.BatchChan() {
			}
		}()
		return "compile-error"
	}
	// late consumption: wait for the reader's end, or for a pipeline that has backed up
	last, lastChange := int64(-1), time.Now()
wait:
	for {
		select {
		case <-rd.eof:
			break wait
		default:
		}
		if p := atomic.LoadInt64(&rd.progress); p != last {
			last, lastChange = p, time.Now()
		} else if time.Since(lastChange) > 40*time.Millisecond {
			break wait
		}
		time.Sleep(500 * time.Microsecond)
	}
	time.Sleep(time.Millisecond) // let the batcher append what it has already scanned
	var held [][]extractor.Match
	for mb := range ext.ReadChan() {
		held = append(held, mb)
	}
	runtime.GC()
	var rows []string
	for _, mb := range held {
		for _, m := range mb {
			ix := make([]string, len(m.Indices))
			for i, v := range m.Indices {
				ix[i] = strconv.Itoa(v)
			}
			src := ""
			if m.Source != "s0" {
				src = "src=" + HexS(m.Source) + ":"
			}
			rows = append(rows, fmt.Sprintf("%s%d:%s:%s:%s", src, m.LineNumber, HexS(m.Line), strings.Join(ix, "."), HexS(m.Extracted)))
		}
	}
	body := "."
	if len(rows) > 0 {
		body = strings.Join(rows, ",")
	}
	return fmt.Sprintf("ok read=%d matches=%s", ext.ReadLines(), body)
}

func c02TFlushGen(r *Rand, tier string) []string {
	var out []string
	type fam struct {
		pat   string
		match func(i int) string
		miss  []string
	}
	fams := []fam{
		{`(\w+)-(\d+)`, func(i int) string { return fmt.Sprintf("%s-%d", Pick(r, []string{"a", "line", "w_9", "Zq"}), i) }, []string{"##", "", "no match here"}},
		{`(?P<k>[a-z]+)=(\d*)`, func(i int) string { return fmt.Sprintf("%s=%d rest", Pick(r, []string{"key", "n", "abc"}), i*7) }, []string{"=", "KEY 1", ""}},
		{`^([^ ]*) ?(.*)$`, func(i int) string { return fmt.Sprintf("L%d %s", i, Pick(r, []string{"", "x y", "tail"})) }, nil},
	}
	emit := func(batch, buffer, flush int, fm fam, chunks []string, lines []string) {
		cs := "."
		if len(chunks) > 0 {
			cs = strings.Join(chunks, ",")
		}
		out = append(out, fmt.Sprintf("tflush %d %d %d %s %s %s", batch, buffer, flush, HexS(fm.pat), cs, HexListS(lines)))
		if len(out)%3 != 0 {
			out = append(out, fmt.Sprintf("tfheap %d %d %d %s %s", batch, buffer, flush, cs, HexListS(lines)))
		}
	}
	nFixed, nRand := 10, 14
	if tier == "thorough" {
		nFixed, nRand = 120, 200
	}
	// (a) the worker is blocked first: 6..8 pauses each followed by ONE matching line (short time-flushed batches;
	// the match channel holds 5, the worker keeps the 6th), then pauses followed by SEVERAL lines at once: the
	// first is time-flushed as a short batch that waits in the batch channel while its successors are appended.
	for i := 0; i < nFixed; i++ {
		fm := fams[i%len(fams)]
		batch := Pick(r, []int{2, 3, 7, 1000})
		buffer := Pick(r, []int{1, 2, 4, 8})
		var chunks, lines []string
		n := 0
		for k := 0; k < 6+r.Intn(3); k++ {
			chunks = append(chunks, "p", "1")
			n++
			lines = append(lines, fm.match(n))
		}
		bursts := 1 + r.Intn(buffer)
		if bursts > 3 {
			bursts = 3
		}
		for k := 0; k < bursts; k++ {
			sz := 2 + r.Intn(4)
			chunks = append(chunks, "p", strconv.Itoa(sz))
			for j := 0; j < sz; j++ {
				n++
				lines = append(lines, fm.match(n))
			}
		}
		emit(batch, buffer, 2, fm, chunks, lines)
	}
	// (b) free scripts: pauses anywhere, chunks of 1..6 lines, lines that do not match, buffer 0, batch 1, a tail
	// the script does not mention, empty input
	for i := 0; i < nRand; i++ {
		fm := Pick(r, fams)
		batch := Pick(r, []int{1, 2, 3, 4, 7, 1000})
		buffer := Pick(r, []int{0, 1, 1, 2, 3, 8})
		var chunks, lines []string
		n := 0
		steps := r.Intn(14)
		for k := 0; k < steps; k++ {
			if r.Chance(2, 5) {
				chunks = append(chunks, "p")
				continue
			}
			sz := 1 + r.Intn(6)
			chunks = append(chunks, strconv.Itoa(sz))
			for j := 0; j < sz; j++ {
				n++
				if len(fm.miss) > 0 && r.Chance(1, 5) {
					lines = append(lines, Pick(r, fm.miss))
				} else {
					lines = append(lines, fm.match(n))
				}
			}
		}
		if r.Chance(1, 4) {
			for j := 0; j < 1+r.Intn(3); j++ {
				n++
				lines = append(lines, fm.match(n))
			}
		}
		emit(batch, buffer, Pick(r, []int{1, 2, 3}), fm, chunks, lines)
	}
	return out
}
