//go:build c16

package main

import (
	"fmt"
	"io"
	"os"
	"strings"

	"rare/cmd"
	"rare/pkg/expressions"
	"rare/pkg/extractor"

	"github.com/urfave/cli/v2"
)

// Round 4b: the view as an aggregation key, and what `rare expression` prints.
//
//	sfr <hex>                     cmd.smartFormatResult directly
//	arr <hexlist>                 expressions.MakeArray, and strings.Split of the result at ArraySeparator
//	xout <flags> <hex key> <data> <kvs>
//	                              the real `rare expression [-r] [-n] -d … -k … '{<key>}'` run IN PROCESS (cmd.GetSupportedCommands,
//	                              stdout captured): the bytes printed.  flags: `-`, `r`, `n`, `rn`.  The model answers from
//	                              the whole "Emulate special keys" block (a `-k .=x` must not replace a view), smartFormatResult
//	                              and the line feed.
//	keyeq <hex key> <nt> <ix1> <ln1> <ix2> <ln2>
//	                              real GetKey(key) on two matches of the same extractor: are the two texts equal?  The Lean
//	                              side does NOT render anything: it answers from the statement of `json_key_iff` (all shown
//	                              captures equal up to the letter case of true/false), so a disagreement is a failing input of
//	                              "usable as an aggregation key".  c=<number of control bytes in the two texts> must be 0.
func c16CaptureStdout(fn func()) string {
	ro, wo, err := os.Pipe()
	if err != nil {
		panic(err)
	}
	old := os.Stdout
	outc := make(chan []byte, 1)
	go func() { b, _ := io.ReadAll(ro); outc <- b }()
	func() {
		defer func() {
			os.Stdout = old
			wo.Close()
		}()
		os.Stdout = wo
		fn()
	}()
	o := <-outc
	ro.Close()
	return string(o)
}

func c16RunR4b(f []string) (res string, handled bool) {
	defer func() {
		if e := recover(); e != nil {
			res, handled = "panic", true
		}
	}()
	switch f[0] {
	case "sfr":
		if len(f) != 2 {
			return "bad-args", true
		}
		return "ok " + HexS(cmd.VerifSmartFormatResult(string(UnHex(f[1])))), true
	case "arr":
		if len(f) != 2 {
			return "bad-args", true
		}
		a := expressions.MakeArray(UnHexListS(f[1])...)
		return fmt.Sprintf("ok %s %s", HexS(a), HexListS(strings.Split(a, expressions.ArraySeparatorString))), true
	case "xout":
		if len(f) != 5 {
			return "bad-args", true
		}
		args := []string{"rare", "expression"}
		if strings.Contains(f[1], "r") {
			args = append(args, "-r")
		}
		if strings.Contains(f[1], "n") {
			args = append(args, "-n")
		}
		for _, d := range UnHexListS(f[3]) {
			args = append(args, "--data", d)
		}
		for _, kv := range UnHexListS(f[4]) {
			args = append(args, "-k", kv)
		}
		args = append(args, "{"+string(UnHex(f[2]))+"}")
		app := cli.NewApp()
		app.Commands = cmd.GetSupportedCommands()
		app.ExitErrHandler = func(*cli.Context, error) {}
		app.Writer = io.Discard
		app.ErrWriter = io.Discard
		var runErr error
		first := ""
		for rep := 0; rep < 4; rep++ {
			out := c16CaptureStdout(func() { runErr = app.Run(args) })
			if runErr != nil {
				return "err", true
			}
			if rep == 0 {
				first = out
			} else if out != first {
				return "nondeterministic", true
			}
		}
		return "ok " + HexS(first), true
	case "keyeq":
		if len(f) != 7 {
			return "bad-args", true
		}
		key := string(UnHex(f[1]))
		switch key {
		case ".", "#", ".#", "#.":
		default:
			return "notjson", true
		}
		nt := c16ParseNT(f[2])
		a := extractor.VerifContext(string(UnHex(f[4])), c16ParseInts(f[3]), nt).GetKey(key)
		b := extractor.VerifContext(string(UnHex(f[6])), c16ParseInts(f[5]), nt).GetKey(key)
		eq := 0
		if a == b {
			eq = 1
		}
		c := 0
		for _, t := range []string{a, b} {
			for i := 0; i < len(t); i++ {
				if t[i] < 0x20 {
					c++
				}
			}
		}
		return fmt.Sprintf("ok eq=%d c=%d", eq, c), true
	}
	return "", false
}

// ---- generators

// an argument urfave/cli hands to rare unchanged: no comma (StringSlice splits there), no white space at the ends
// (it trims), no NUL
func c16CleanArg(r *Rand) string {
	s := c16Text(r)
	if len(s) > 300 {
		s = s[:300]
	}
	s = strings.ReplaceAll(s, ",", ";")
	return strings.TrimSpace(s)
}

var c16BoolWords = []string{"true", "True", "TRUE", "tRuE", "false", "False", "FALSE", "fAlSe", "truE", "falsE"}

// a capture and a second one that is equal / equal up to the case of a boolean word / nearly equal
func c16Twin(r *Rand, s string) string {
	switch r.Intn(8) {
	case 0, 1, 2:
		return s
	case 3:
		for _, w := range c16BoolWords {
			if strings.EqualFold(w, s) && len(w) == len(s) {
				return Pick(r, c16BoolWords[:4])
			}
		}
		return strings.ToUpper(s)
	case 4:
		return s + Pick(r, []string{"0", " ", "\x00", ".0", "e"})
	case 5:
		if len(s) > 0 {
			return s[:len(s)-1]
		}
		return "0"
	case 6:
		return Pick(r, []string{"1", "1.0", "1.00", "01", "true", "TRUE", "\"true\"", "", "null", "0", "0.0", "-0"})
	default:
		return c16Text(r)
	}
}

func c16GenR4b(r *Rand, tier string) []string {
	n := 900
	if tier == "thorough" {
		n = 40000
	}
	var out []string
	seps := []string{"\x00", "\x00\x00", "a\x00", "\x00a", "a\x00b", "a\x00\x00b", "\x00a\x00", "", "a", "[a, b]", "{\"0\": \"a\\u0000b\"}"}
	for _, s := range seps {
		out = append(out, "sfr "+HexS(s))
	}
	out = append(out, "arr .", "arr -", "arr -;-", "arr "+HexListS([]string{"a\x00b", "c"}), "arr "+HexListS([]string{"", "a", ""}))
	// the emulated keys win over -k of the same name; -k of other names stay
	for _, key := range []string{".", "#", ".#", "#.", "@", "src", "line", "k", "absent"} {
		for _, fl := range []string{"-", "r", "n", "rn"} {
			out = append(out, fmt.Sprintf("xout %s %s %s %s", fl, HexS(key), HexListS([]string{"d0", "true", "007"}),
				HexListS([]string{".=x", "#=y", ".#=z", "#.=w", "@=v", "src=me", "line=9", "k=v=1", "k2"})))
		}
	}
	for i := 0; i < n; i++ {
		switch i % 6 {
		case 0:
			var sb strings.Builder
			for k := r.Intn(6); k > 0; k-- {
				sb.WriteString(Pick(r, []string{"\x00", "\x00", "a", ", ", "[", "]", "\n", c16Text(r)}))
			}
			out = append(out, "sfr "+HexS(sb.String()))
		case 1:
			var l []string
			for k := r.Intn(5); k > 0; k-- {
				l = append(l, Pick(r, []string{"", "a", "\x00", "a\x00b", c16Text(r)}))
			}
			out = append(out, "arr "+HexListS(l))
		case 2:
			if i%4 != 2 { // the in-process CLI run is the slow op (4 runs each)
				continue
			}
			var data, kvs []string
			for k := r.Intn(4); k > 0; k-- {
				data = append(data, c16CleanArg(r))
			}
			names := []string{"k", "k2", "name", ".", "#", ".#", "#.", "@", "src", "line", "0", ""}
			for k := r.Intn(5); k > 0; k-- {
				if r.Chance(1, 4) {
					kvs = append(kvs, c16CleanArg(r))
				} else {
					kvs = append(kvs, strings.TrimSpace(Pick(r, names)+"="+c16CleanArg(r)))
				}
			}
			key := Pick(r, []string{".", "#", ".#", "#.", ".", "#", ".#", "@", "src", "line", "k", "k2", "name", "absent"})
			out = append(out, fmt.Sprintf("xout %s %s %s %s", Pick(r, []string{"-", "r", "n", "rn"}), HexS(key), HexListS(data), HexListS(kvs)))
		default:
			// two matches of the same extractor: groups as consecutive pieces of the line
			ng := 1 + r.Intn(4)
			var p1, p2 []string
			for g := 0; g < ng; g++ {
				a := c16Text(r)
				if len(a) > 40 {
					a = a[:40]
				}
				if r.Chance(1, 3) {
					a = Pick(r, c16BoolWords)
				}
				p1 = append(p1, a)
				if r.Chance(1, 2) {
					p2 = append(p2, a)
				} else {
					p2 = append(p2, c16Twin(r, a))
				}
			}
			mk := func(ps []string, extra int) (string, string) {
				line := strings.Join(ps, "")
				idx := []int{0, len(line)}
				off := 0
				for _, p := range ps {
					idx = append(idx, off, off+len(p))
					off += len(p)
				}
				for e := 0; e < extra; e++ {
					idx = append(idx, -1, -1)
				}
				return c16Ints(idx), HexS(line)
			}
			var names []string
			var nums []int
			for g := 1; g <= ng; g++ {
				if r.Chance(2, 3) {
					names = append(names, fmt.Sprintf("%s%d", Pick(r, []string{"g", "a\"", "é", "0", ""}), g))
					nums = append(nums, Pick(r, []int{g, g, g, ng + 1, 0, -1, 1 << 62}))
				}
			}
			ix1, l1 := mk(p1, r.Intn(2))
			ix2, l2 := mk(p2, r.Intn(3))
			out = append(out, fmt.Sprintf("keyeq %s %s %s %s %s %s", HexS(Pick(r, []string{".", "#", ".#", "#."})), c16NT(names, nums), ix1, l1, ix2, l2))
		}
	}
	return out
}

func c16StatsR4b(cases []string, st map[string]int) {
	for _, c := range cases {
		f := strings.Fields(c)
		switch f[0] {
		case "sfr":
			if strings.Contains(string(UnHex(f[1])), "\x00") {
				st["sfr.withSeparator"]++
			} else {
				st["sfr.plain"]++
			}
		case "xout":
			st["xout.key."+string(UnHex(f[2]))]++
			for _, kv := range UnHexListS(f[4]) {
				for _, sp := range []string{".", "#", ".#", "#.", "@", "src", "line"} {
					if strings.HasPrefix(kv, sp+"=") {
						st["xout.kOverridesSpecialName"]++
					}
				}
			}
		case "keyeq":
			if f[3] == f[5] && f[4] == f[6] {
				st["keyeq.identicalMatches"]++
			} else {
				st["keyeq.differentMatches"]++
			}
		}
	}
}
