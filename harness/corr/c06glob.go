//go:build c06

package main

// C06, glob part: the REAL path/filepath (Match, Clean, Join, Glob, os.Lstat/Stat/ReadDir) and the real
// dirwalk.GlobExpand against the Lean model of them over an abstract directory tree that is sent with the case.
//
//	match <pattern> <name>                 filepath.Match
//	clean <path> / join <a> <b>            filepath.Clean / filepath.Join
//	fsop <tree> <paths>                    os.Lstat, os.Stat, sorted Readdirnames of every path (cwd = tree root)
//	glob1 <pattern> <tree>                 filepath.Glob
//	globx <recursive> <args> <tree>        dirwalk.GlobExpand (everything it sends, in order)
//
// Trees: see c06InTree (entries are created in order; parents with MkdirAll).

import (
	"fmt"
	"os"
	"path/filepath"
	"sort"
	"strings"
	"unicode/utf8"

	"rare/pkg/extractor/dirwalk"
)

func c06Kind(fi os.FileInfo, err error) string {
	if err != nil {
		return "-"
	}
	m := fi.Mode()
	switch {
	case m&os.ModeSymlink != 0:
		return "l"
	case m.IsDir():
		return "d"
	case m.IsRegular():
		return "f"
	}
	return "o"
}

func c06RunGlob(f []string) (string, bool) {
	switch f[0] {
	case "match":
		ok, err := filepath.Match(string(UnHex(f[1])), string(UnHex(f[2])))
		if err != nil {
			return "bad", true
		}
		return fmt.Sprintf("ok %v", ok), true
	case "clean":
		return "ok " + HexS(filepath.Clean(string(UnHex(f[1])))), true
	case "join":
		return "ok " + HexS(filepath.Join(string(UnHex(f[1])), string(UnHex(f[2])))), true
	case "fsop":
		var out []string
		c06InTree(f[1], func() {
			for _, p := range UnHexListS(f[2]) {
				l := c06Kind(os.Lstat(p))
				s := c06Kind(os.Stat(p))
				ls := "-"
				if d, err := os.Open(p); err == nil {
					if names, err := d.Readdirnames(-1); err == nil {
						sort.Strings(names)
						ls = HexListS(names)
					}
					d.Close()
				}
				out = append(out, l+s+":"+ls)
			}
		})
		if len(out) == 0 {
			return "ok .", true
		}
		return "ok " + strings.Join(out, ","), true
	case "glob1":
		var got []string
		var err error
		c06InTree(f[2], func() {
			got, err = filepath.Glob(string(UnHex(f[1])))
		})
		if err != nil {
			return "bad", true
		}
		return "ok " + HexListS(got), true
	case "globx":
		var got []string
		c06InTree(f[3], func() {
			for p := range dirwalk.GlobExpand(UnHexListS(f[2]), f[1] == "1") {
				got = append(got, p)
			}
		})
		return "ok " + HexListS(got), true
	}
	return "", false
}

// ---------------------------------------------------------------- patterns

var c06LitChars = []string{"a", "b", "c", "x", ".", "-", "_", "1", " ", "\n", "]", "^", "é", "ж", "€", "😀", "\xff", "\xc3", "\x80"}
var c06ClassChars = []string{"a", "b", "c", "z", "0", "9", ".", "*", "?", "[", "^", " ", "é", "ж", "€", "😀", "/", "߿", "�"}

func c06ClassChar(r *Rand) string {
	switch r.Intn(8) {
	case 0:
		return "\\" + Pick(r, []string{"]", "-", "\\", "a", "^", "€"})
	default:
		return Pick(r, c06ClassChars)
	}
}

// one well-formed class
func c06Class(r *Rand) string {
	var sb strings.Builder
	sb.WriteString("[")
	if r.Chance(1, 3) {
		sb.WriteString("^")
	}
	for i := Pick(r, []int{1, 1, 2, 3}); i > 0; i-- {
		lo := c06ClassChar(r)
		sb.WriteString(lo)
		if r.Chance(1, 2) {
			sb.WriteString("-")
			sb.WriteString(c06ClassChar(r))
		}
	}
	sb.WriteString("]")
	return sb.String()
}

var c06BadBits = []string{"[", "[]", "[^]", "[a-]", "[-a]", "[a", "[^a", "\\", "[\\", "[a-\\", "[\xff]", "[a-\xc3]", "[]a]", "[a-b-c]", "[[]]", "[\\]"}

// a pattern: mostly well formed
func c06Pattern(r *Rand, allowSlash bool) string {
	var sb strings.Builder
	for i := Pick(r, []int{0, 1, 2, 3, 4, 6, 9}); i > 0; i-- {
		switch k := r.Intn(20); {
		case k < 7:
			sb.WriteString(Pick(r, c06LitChars))
		case k < 10:
			sb.WriteString("*")
			if r.Chance(1, 6) {
				sb.WriteString("*")
			}
		case k < 12:
			sb.WriteString("?")
		case k < 15:
			sb.WriteString(c06Class(r))
		case k == 15:
			sb.WriteString("\\" + Pick(r, []string{"*", "?", "[", "\\", "a", "]", "é", "/"}))
		case k == 16 && allowSlash:
			sb.WriteString("/")
		case k == 17 && r.Chance(1, 2):
			sb.WriteString(Pick(r, c06BadBits))
		default:
			sb.WriteString(Pick(r, []string{"ab", "log", ".log", "x1"}))
		}
	}
	return sb.String()
}

// a name that has a chance to match the pattern: literals kept, operators instantiated
func c06NameFor(r *Rand, pat string) string {
	var sb strings.Builder
	for i := 0; i < len(pat); {
		c := pat[i]
		switch c {
		case '*':
			for k := Pick(r, []int{0, 0, 1, 2, 4}); k > 0; k-- {
				sb.WriteString(Pick(r, c06LitChars))
			}
			i++
		case '?':
			sb.WriteString(Pick(r, c06LitChars))
			i++
		case '\\':
			if i+1 < len(pat) {
				sb.WriteByte(pat[i+1])
			}
			i += 2
		case '[':
			j := strings.IndexByte(pat[i+1:], ']')
			if j < 0 {
				sb.WriteString("a")
				i++
				continue
			}
			body := pat[i+1 : i+1+j]
			body = strings.TrimPrefix(body, "^")
			if len(body) > 0 && r.Chance(2, 3) {
				rr, n := utf8.DecodeRuneInString(body[r.Intn(len(body)):])
				_ = n
				sb.WriteString(string(rr))
			} else {
				sb.WriteString(Pick(r, c06ClassChars))
			}
			i += j + 2
		default:
			sb.WriteByte(c)
			i++
		}
	}
	s := sb.String()
	if r.Chance(1, 4) && len(s) > 0 { // mutate
		k := r.Intn(len(s))
		switch r.Intn(3) {
		case 0:
			s = s[:k] + s[k+1:]
		case 1:
			s = s[:k] + Pick(r, c06LitChars) + s[k:]
		default:
			s = s[:k] + "/" + s[k:]
		}
	}
	return s
}

func c06GenMatch(r *Rand) string {
	pat := c06Pattern(r, r.Chance(1, 4))
	var name string
	switch r.Intn(6) {
	case 0:
		for i := r.Intn(5); i > 0; i-- {
			name += Pick(r, c06LitChars)
		}
	default:
		name = c06NameFor(r, pat)
	}
	return "match " + HexS(pat) + " " + HexS(name)
}

// every pattern over a small alphabet up to maxP bytes against every name up to maxN bytes
func c06ExhaustiveMatch(alphaP, alphaN []string, maxP, maxN int) []string {
	var pats, names []string
	var rec func(cur string, n int, alpha []string, out *[]string)
	rec = func(cur string, n int, alpha []string, out *[]string) {
		*out = append(*out, cur)
		if n == 0 {
			return
		}
		for _, a := range alpha {
			rec(cur+a, n-1, alpha, out)
		}
	}
	rec("", maxP, alphaP, &pats)
	rec("", maxN, alphaN, &names)
	var out []string
	for _, p := range pats {
		for _, n := range names {
			out = append(out, "match "+HexS(p)+" "+HexS(n))
		}
	}
	return out
}

// ---------------------------------------------------------------- paths

func c06GenPath(r *Rand) string {
	var parts []string
	for i := Pick(r, []int{0, 1, 2, 3, 5}); i > 0; i-- {
		parts = append(parts, Pick(r, []string{"", ".", "..", "a", "b.c", "é", "..."}))
	}
	p := strings.Join(parts, "/")
	if r.Chance(1, 3) {
		p = "/" + p
	}
	if r.Chance(1, 3) {
		p += "/"
	}
	return p
}

// ---------------------------------------------------------------- trees

var c06TreeFileNames = []string{"a.log", "b.log", "c.txt", "k.gz", "x[1].log", "x1.log", "we*ird", "q?.log", "qq.log", "a[.log",
	".hidden", "sp ace", "back\\slash", "[", "ab]c", "-dash", "--", "new\nline", "é.log", "жж", "€", "😀.log", "\xff\xfe", "a", "ab", "*", "?"}
var c06TreeDirNames = []string{"d1", "d2", "sub", "e[x]", "logs.d", "-d", "sp dir", "é", "d*", "a"}

type c06Tree struct {
	spec  []string
	dirs  []string // physical directories, "" = root
	files []string
	links []string
	used  map[string]bool
}

func (t *c06Tree) String() string {
	if len(t.spec) == 0 {
		return "."
	}
	return strings.Join(t.spec, ",")
}

func c06Rel(fromDir, to string) string {
	rel, err := filepath.Rel("/"+fromDir, "/"+to)
	if err != nil {
		return to
	}
	return rel
}

func c06GenTree(r *Rand) *c06Tree {
	t := &c06Tree{dirs: []string{""}, used: map[string]bool{}}
	for i := Pick(r, []int{0, 1, 2, 3, 5, 7}); i > 0; i-- {
		d := filepath.Join(Pick(r, t.dirs), Pick(r, c06TreeDirNames))
		if !t.used[d] && strings.Count(d, "/") < 3 {
			t.used[d] = true
			t.dirs = append(t.dirs, d)
			t.spec = append(t.spec, HexS(d)+":d")
		}
	}
	for i := Pick(r, []int{0, 1, 2, 3, 4, 6, 9}); i > 0; i-- {
		p := filepath.Join(Pick(r, t.dirs), Pick(r, c06TreeFileNames))
		if !t.used[p] {
			t.used[p] = true
			t.files = append(t.files, p)
			t.spec = append(t.spec, HexS(p)+":f:-")
		}
	}
	for i := Pick(r, []int{0, 0, 1, 2, 3}); i > 0; i-- {
		dir := Pick(r, t.dirs)
		p := filepath.Join(dir, Pick(r, []string{"ln1", "ln2", "ldir", "l*", "loop"}))
		if t.used[p] {
			continue
		}
		t.used[p] = true
		target := "nowhere"
		switch r.Intn(8) {
		case 0, 1:
			if len(t.files) > 0 {
				target = c06Rel(dir, Pick(r, t.files))
			}
		case 2, 3:
			if len(t.dirs) > 1 {
				target = c06Rel(dir, Pick(r, t.dirs[1:]))
				if r.Chance(1, 4) {
					target += "/"
				}
			}
		case 4:
			if len(t.links) > 0 { // a link to a link (chains and loops)
				target = c06Rel(dir, Pick(r, t.links))
			}
		case 5:
			target = filepath.Base(p) // itself
		case 6:
			target = Pick(r, []string{"nowhere/", "a.log/x", "no/such"})
			if dir != "" && r.Chance(1, 3) {
				target = "." // the directory itself (never the root: `..` after it must stay inside the tree)
			}
		}
		t.links = append(t.links, p)
		t.spec = append(t.spec, HexS(p)+":l:"+HexS(target))
	}
	return t
}

// all entries of the tree, as relative paths
func (t *c06Tree) entries() []string {
	var e []string
	e = append(e, t.dirs[1:]...)
	e = append(e, t.files...)
	e = append(e, t.links...)
	return e
}

func c06GenFsop(r *Rand) string {
	t := c06GenTree(r)
	ents := t.entries()
	var paths []string
	for i := Pick(r, []int{1, 2, 4, 8}); i > 0; i-- {
		p := "missing"
		if len(ents) > 0 && r.Chance(5, 6) {
			p = Pick(r, ents)
		}
		switch r.Intn(12) {
		case 0:
			p += "/"
		case 1:
			p += "//"
		case 2:
			p += "/."
		case 3:
			p = "./" + p
		case 4:
			if strings.Contains(p, "/") { // stays inside: one level down, one up
				p += "/.."
			}
		case 5:
			if len(ents) > 0 {
				p += "/" + filepath.Base(Pick(r, ents))
			}
		case 6:
			p = Pick(r, []string{".", "", "./", "a\x00b", "./."})
		case 7:
			p = strings.ReplaceAll(p, "/", "//")
		}
		paths = append(paths, p)
	}
	return "fsop " + t.String() + " " + HexListS(paths)
}

func c06EscapeMeta(s string) string {
	var sb strings.Builder
	for i := 0; i < len(s); i++ {
		if strings.IndexByte("*?[\\", s[i]) >= 0 {
			sb.WriteByte('\\')
		}
		sb.WriteByte(s[i])
	}
	return sb.String()
}

// a pattern made from a path of the tree, component by component
func c06PatternFromPath(r *Rand, p string) string {
	comps := strings.Split(p, "/")
	for i, c := range comps {
		switch r.Intn(9) {
		case 0:
			comps[i] = "*"
		case 1:
			if len(c) > 0 {
				k := r.Intn(len(c))
				comps[i] = c06EscapeMeta(c[:k]) + "*"
			}
		case 2:
			if len(c) > 0 {
				k := r.Intn(len(c))
				comps[i] = "*" + c06EscapeMeta(c[k:])
			}
		case 3:
			if rr, n := utf8.DecodeRuneInString(c); n > 0 && rr != utf8.RuneError {
				comps[i] = "?" + c06EscapeMeta(c[n:])
			}
		case 4:
			if rr, n := utf8.DecodeRuneInString(c); n > 0 && rr != utf8.RuneError && rr != '\\' && rr != ']' && rr != '-' && rr != '^' {
				comps[i] = "[" + string(rr) + "z]" + c06EscapeMeta(c[n:])
			}
		case 5:
			comps[i] = c06EscapeMeta(c)
		case 6:
			comps[i] = c // literally, metacharacters and all
		case 7:
			comps[i] = c06Pattern(r, false)
		default:
			comps[i] = c06EscapeMeta(c)
		}
	}
	return strings.Join(comps, "/")
}

var c06Globs2 = []string{"*", "*.log", "*/*", "*/*.log", "d?/*", "[abk].*", "[^a]*", "x[1].log", "q?.log", "nomatch*", "a[.log", "[", "ab]c",
	"we\\*ird", "we*", "*/*/*", "d1/*", "[a-", "back\\slash", "\\", "*[", ".*", "e[x]/*", "e[[]x]/*", "?", "**", "*/", "d1/", "./*", "missing",
	"d1/missing", "a.log/x", "*/sub/*", "d1//*", "*//x", "*/.", "*/..", "./d1/*", "d1/./*", "l*/*", "ldir/*", "*/ln1", "a*[", "*/a*[", "[a/b]", "a\\/b",
	"-*", "* *", "*\n*", "é*", "?.log", "??", "[€-😀]*", "d1/../*", "d1/sub/../*"}

func c06GenGlobPattern(r *Rand, t *c06Tree) string {
	ents := t.entries()
	if len(ents) > 0 && r.Chance(1, 2) {
		return c06PatternFromPath(r, Pick(r, ents))
	}
	return Pick(r, c06Globs2)
}

func c06GenGlob1(r *Rand) string {
	t := c06GenTree(r)
	return "glob1 " + HexS(c06GenGlobPattern(r, t)) + " " + t.String()
}

func c06GenGlobx(r *Rand) string {
	t := c06GenTree(r)
	var args []string
	for i := Pick(r, []int{0, 1, 1, 2, 3, 5}); i > 0; i-- {
		switch k := r.Intn(12); {
		case k < 3 && len(t.files) > 0:
			args = append(args, Pick(r, t.files))
		case k < 5 && len(t.dirs) > 1:
			args = append(args, Pick(r, t.dirs[1:])+Pick(r, []string{"", "", "/", "//", "/."}))
		case k == 5:
			args = append(args, Pick(r, []string{".", "./", "ldir", "ln1", "-", "", "loop"}))
		case k == 6 && len(args) > 0:
			args = append(args, Pick(r, args))
		case k == 7 && len(t.links) > 0:
			args = append(args, Pick(r, t.links)+Pick(r, []string{"", "", "/"}))
		case k == 8 && len(t.dirs) > 1:
			args = append(args, "./"+Pick(r, t.dirs[1:]))
		case k == 9 && r.Chance(1, 2):
			args = append(args, c06GenDetour(r, t))
		default:
			args = append(args, c06GenGlobPattern(r, t))
		}
	}
	return fmt.Sprintf("globx %d %s %s", b01(r.Chance(1, 2)), HexListS(args), t.String())
}

// a path that reaches an entry of the tree (or fails on the way) by a detour: `d/../d/x` (down, up, down again), through `.`,
// through a link to a directory, through a file or a link to a file (ENOTDIR), through a link that loops (ELOOP), with
// doubled separators; the same entry under two spellings is two mentions
func c06GenDetour(r *Rand, t *c06Tree) string {
	ents := t.entries()
	if len(ents) == 0 {
		return Pick(r, []string{"missing/../missing", "./.", "loop/x", "a.log/../a.log"})
	}
	p := Pick(r, ents)
	comps := strings.Split(p, "/")
	var out []string
	for i, c := range comps {
		out = append(out, c)
		if i == len(comps)-1 {
			break
		}
		switch r.Intn(6) {
		case 0: // down, up, down again (the part so far is a directory of the tree: `..` stays inside)
			out = append(out, "..", c)
		case 1:
			out = append(out, ".")
		case 2:
			out = append(out, "")
		}
	}
	s := strings.Join(out, "/")
	switch r.Intn(10) {
	case 0: // through the entry itself, whatever it is (file: ENOTDIR; dir: fine; link: follows it)
		s += "/" + Pick(r, []string{"x", ".", "a.log", filepath.Base(Pick(r, ents))})
	case 1:
		if len(t.links) > 0 { // through a link (to a file, a directory, nowhere, itself)
			s = Pick(r, t.links) + "/" + filepath.Base(p)
		}
	case 2:
		if strings.Contains(p, "/") {
			s += "/../" + filepath.Base(p)
		}
	case 3:
		s = "./" + s
	}
	return s
}

func c06GenGlobCases(r *Rand, tier string) []string {
	var out []string
	nMatch, nPath, nFs, nGlob1, nGlobx := 3000, 300, 250, 400, 500
	if tier == "thorough" {
		nMatch, nPath, nFs, nGlob1, nGlobx = 60000, 3000, 4000, 8000, 10000
		out = append(out, c06ExhaustiveMatch([]string{"a", "*", "?", "[", "]", "-", "^", "\\"}, []string{"a", "b", "/", "-"}, 4, 3)...)
	} else {
		out = append(out, c06ExhaustiveMatch([]string{"a", "*", "?", "[", "]", "-", "^", "\\"}, []string{"a", "-"}, 3, 2)...)
	}
	for i := 0; i < nMatch; i++ {
		out = append(out, c06GenMatch(r))
	}
	for i := 0; i < nPath; i++ {
		if r.Bool() {
			out = append(out, "clean "+HexS(c06GenPath(r)))
		} else {
			out = append(out, "join "+HexS(c06GenPath(r))+" "+HexS(Pick(r, []string{"n", "", "a.log", "..", "x/y", "/z"})))
		}
	}
	for i := 0; i < nFs; i++ {
		out = append(out, c06GenFsop(r))
	}
	for i := 0; i < nGlob1; i++ {
		out = append(out, c06GenGlob1(r))
	}
	for i := 0; i < nGlobx; i++ {
		out = append(out, c06GenGlobx(r))
	}
	return out
}

func c06GlobStats(st map[string]int, f []string) {
	switch f[0] {
	case "match":
		pat := string(UnHex(f[1]))
		name := string(UnHex(f[2]))
		if _, err := filepath.Match(pat, ""); err != nil {
			st["match:first-chunk-malformed"]++
		}
		if strings.ContainsAny(pat, "[") {
			st["match:with-class"]++
		}
		if strings.Contains(pat, "*") {
			st["match:with-star"]++
		}
		if !utf8.ValidString(name) {
			st["match:name-invalid-utf8"]++
		} else if len(name) != utf8.RuneCountInString(name) {
			st["match:name-multibyte"]++
		}
		if strings.Contains(name, "/") {
			st["match:name-with-slash"]++
		}
		if ok, _ := filepath.Match(pat, name); ok {
			st["match:matched"]++
		}
	case "glob1", "globx", "fsop":
		tree := f[len(f)-1]
		if f[0] == "fsop" {
			tree = f[1]
		}
		if strings.Contains(tree, ":l:") {
			st[f[0]+":tree-with-symlink"]++
		}
		if f[0] == "globx" && f[1] == "1" {
			st["globx:recursive"]++
		}
		if f[0] == "glob1" && strings.Contains(string(UnHex(f[1])), "/") {
			st["glob1:multi-component"]++
		}
	}
}
