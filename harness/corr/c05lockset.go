//go:build c05

package main

// C05, data-race part.
//
//   lockset <table>                        the static verdict of the lockset check on the table regenerated from
//                                          /repo is computed by the Lean driver; the implementation's side of the
//                                          correspondence is the property's claim `ok racefree`, so a table with an
//                                          offending pair is a concrete, replayable mismatch naming the two sites.
//   status <setup> <body> <reps> <readers> dynamic counterpart for the Batcher: the real status bookkeeping
//                                          (start/stopFileReading, setSourceCount, incErrors through the verif hooks)
//                                          run sequentially (every StatusString is compared with the model) and then
//                                          against concurrent StatusString readers, which must only ever see an
//                                          active-file list that existed.
//   pool <workers> <iters> <size>          dynamic counterpart for ObjectPool: an object is never handed to two
//                                          goroutines at the same time.

import (
	"fmt"
	"runtime"
	"strconv"
	"strings"
	"sync"
	"sync/atomic"

	"rare/pkg/extractor/batchers"
	"rare/pkg/slicepool"
)

var locksetTables = []string{"batcher", "extractor", "ignoreSet", "objectPool", "logger", "multitermGlobals", "aggLoop", "stageState", "stageStateFuncfile", "stdlibGlobals",
	"stageStateExpressions", "stageStateStdmath", "compiledKeyBuilder", "expressionsGlobals", "stdmathGlobals",
	"aggregation", "multiterm", "termrenderers"}

// closure tables: `stageclass <table>` = no captured variable is plainly written at evaluation time
var stageClassTables = []string{"stageState", "stageStateFuncfile", "stageStateExpressions", "stageStateStdmath"}

// statusObservable strips the time-dependent middle ("<bytes> (<rate>/s) ") of a status line.
func statusObservable(st string) string {
	prefix := ""
	if strings.HasPrefix(st, "[") {
		if i := strings.Index(st, "] "); i >= 0 {
			prefix, st = st[:i+2], st[i+2:]
		}
	}
	if i := strings.Index(st, "/s) "); i >= 0 {
		st = st[i+4:]
	}
	return prefix + st
}

func statusActivePart(obs string) string {
	if i := strings.Index(obs, "| "); i >= 0 {
		return obs[i:]
	}
	return ""
}

func applyStatusOp(b *batchers.Batcher, op string) {
	switch {
	case strings.HasPrefix(op, "+"):
		b.VerifStartFileReading(op[1:])
	case strings.HasPrefix(op, "-"):
		b.VerifStopFileReading(op[1:])
	case strings.HasPrefix(op, "#"):
		n, _ := strconv.Atoi(op[1:])
		b.VerifSetSourceCount(n)
	case op == "!":
		b.VerifIncErrors()
	}
}

func splitScript(s string) []string {
	if s == "." {
		return nil
	}
	return strings.Split(s, ",")
}

var c05StatusReads, c05StatusDistinct int

func c05Status(f []string) string {
	setup, body := splitScript(f[1]), splitScript(f[2])
	reps, _ := strconv.Atoi(f[3])
	readers, _ := strconv.Atoi(f[4])
	// sequential reference run of the real code
	b := batchers.VerifNewBatcher()
	var seq []string
	legal := map[string]bool{statusActivePart(statusObservable(b.StatusString())): true}
	afterSetup := ""
	for i, op := range append(append([]string{}, setup...), body...) {
		applyStatusOp(b, op)
		o := statusObservable(b.StatusString())
		seq = append(seq, HexS(o))
		if i >= len(setup)-1 {
			legal[statusActivePart(o)] = true
		}
		if i == len(setup)-1 {
			afterSetup = statusActivePart(o)
		}
	}
	if len(setup) == 0 {
		afterSetup = ""
	}
	cyclic := 0
	if statusActivePart(statusObservable(b.StatusString())) == afterSetup {
		cyclic = 1
	} else {
		reps = 1
	}
	// concurrent run
	b = batchers.VerifNewBatcher()
	for _, op := range setup {
		applyStatusOp(b, op)
	}
	var bad int64
	var firstBad atomic.Value
	var stop int32
	var wg sync.WaitGroup
	var reads int64
	seen := make([]map[string]bool, readers)
	for r := 0; r < readers; r++ {
		wg.Add(1)
		seen[r] = map[string]bool{}
		go func(r int) {
			defer wg.Done()
			for atomic.LoadInt32(&stop) == 0 {
				a := statusActivePart(statusObservable(b.StatusString()))
				atomic.AddInt64(&reads, 1)
				seen[r][a] = true
				if !legal[a] {
					if atomic.AddInt64(&bad, 1) == 1 {
						firstBad.Store(a)
					}
				}
			}
		}(r)
	}
	for k := 0; k < reps; k++ {
		for _, op := range body {
			applyStatusOp(b, op)
		}
		if k%64 == 0 {
			runtime.Gosched()
		}
	}
	atomic.StoreInt32(&stop, 1)
	wg.Wait()
	c05StatusReads += int(reads)
	all := map[string]bool{}
	for _, m := range seen {
		for k := range m {
			all[k] = true
		}
	}
	c05StatusDistinct += len(all)
	final := statusObservable(b.StatusString())
	seqS := strings.Join(seq, ";")
	if bad > 0 {
		fb, _ := firstBad.Load().(string)
		return fmt.Sprintf("ok seq=%s cyclic=%d bad=%d final=%s first-impossible-status=%s", seqS, cyclic, bad, HexS(final), HexS(fb))
	}
	return fmt.Sprintf("ok seq=%s cyclic=%d bad=0 final=%s", seqS, cyclic, HexS(final))
}

type pooled struct {
	owner int32
	uses  int
}

func c05Pool(f []string) string {
	workers, _ := strconv.Atoi(f[1])
	iters, _ := strconv.Atoi(f[2])
	size, _ := strconv.Atoi(f[3])
	p := slicepool.NewObjectPool[pooled](size)
	var bad, panics int64
	var firstPanic atomic.Value
	var wg sync.WaitGroup
	for w := 0; w < workers; w++ {
		wg.Add(1)
		go func() {
			defer wg.Done()
			defer func() { // a panic inside Get/Return (an index out of range on the pool's slice) is an answer, not a crash
				if e := recover(); e != nil {
					if atomic.AddInt64(&panics, 1) == 1 {
						firstPanic.Store(strings.ReplaceAll(fmt.Sprint(e), "\n", " "))
					}
				}
			}()
			var held []*pooled
			for i := 0; i < iters; i++ {
				o := p.Get()
				if !atomic.CompareAndSwapInt32(&o.owner, 0, 1) {
					atomic.AddInt64(&bad, 1) // somebody else holds this object
					continue
				}
				o.uses++ // plain write: exclusive ownership is what makes it safe
				held = append(held, o)
				if len(held) > 2 || i%3 == 0 {
					for _, h := range held {
						atomic.StoreInt32(&h.owner, 0)
						p.Return(h)
					}
					held = held[:0]
				}
			}
			for _, h := range held {
				atomic.StoreInt32(&h.owner, 0)
				p.Return(h)
			}
		}()
	}
	wg.Wait()
	if panics > 0 {
		fp, _ := firstPanic.Load().(string)
		return fmt.Sprintf("ok bad=%d panics=%d panic=%s", bad, panics, HexS(fp))
	}
	return fmt.Sprintf("ok bad=%d", bad)
}

func c05LocksetGen(r *Rand, tier string) []string {
	var out []string
	for _, t := range locksetTables {
		out = append(out, "lockset "+t)
	}
	for _, t := range stageClassTables {
		out = append(out, "stageclass "+t)
	}
	n := 6
	if tier == "thorough" {
		n = 60
	}
	names := []string{"a.log", "b.log", "c.log", "d", "e/f.gz", "x", "a.log"}
	for i := 0; i < n; i++ {
		k := r.Range(0, 5)
		var cur []string
		var setup []string
		if r.Chance(2, 3) {
			setup = append(setup, fmt.Sprintf("#%d", r.Range(0, 9)))
		}
		rotate := r.Chance(3, 4)
		for j := 0; j < k; j++ {
			nm := names[j]
			if !rotate && r.Chance(1, 4) {
				nm = Pick(r, names) // duplicates: stop removes the first equal entry only
			}
			cur = append(cur, nm)
			setup = append(setup, "+"+nm)
		}
		var body []string
		if rotate && len(cur) > 0 {
			// a rotation: every source, in list order, finishes and is opened again – brings the list back
			rounds := r.Range(1, 2)
			for q := 0; q < rounds; q++ {
				for _, nm := range append([]string{}, cur...) {
					body = append(body, "-"+nm, "+"+nm)
					if r.Chance(1, 5) {
						body = append(body, "!")
					}
				}
			}
		} else {
			for j := r.Range(0, 8); j > 0; j-- {
				switch r.Intn(5) {
				case 0, 1:
					body = append(body, "+"+Pick(r, names))
				case 2, 3:
					body = append(body, "-"+Pick(r, names))
				case 4:
					body = append(body, fmt.Sprintf("#%d", r.Range(0, 12)))
				}
			}
		}
		su, bo := ".", "."
		if len(setup) > 0 {
			su = strings.Join(setup, ",")
		}
		if len(body) > 0 {
			bo = strings.Join(body, ",")
		}
		reps := 1
		if rotate { // only a body that restores the whole list is repeated against the readers
			reps = Pick(r, []int{1, 200, 2000})
			if tier == "thorough" {
				reps = Pick(r, []int{1, 2000, 20000})
			}
		}
		out = append(out, fmt.Sprintf("status %s %s %d %d", su, bo, reps, r.Range(1, 3)))
	}
	np := 2
	if tier == "thorough" {
		np = 12
	}
	for i := 0; i < np; i++ {
		out = append(out, fmt.Sprintf("pool %d %d %d", Pick(r, []int{2, 4, 8, 12, 16}), Pick(r, []int{2000, 20000}), Pick(r, []int{0, 1, 5})))
	}
	return out
}

func c05LocksetRun(f []string) (string, bool) {
	switch f[0] {
	case "lockset":
		return "ok racefree", true
	case "stageclass":
		return "ok mutable=.", true
	case "status":
		return c05Status(f), true
	case "pool":
		return c05Pool(f), true
	}
	return "", false
}

func c05LocksetStats(st map[string]int, c string) bool {
	f := strings.Fields(c)
	switch f[0] {
	case "lockset", "stageclass":
		st["lockset.tables"]++
	case "status":
		st["status.cases"]++
		st["status.reads.total"] = c05StatusReads
		st["status.distinct_states_seen.total"] = c05StatusDistinct
		if f[1] != "." && strings.Count(f[1], "+") >= 2 {
			st["status.twoOrMoreActive"]++
		}
	case "pool":
		st["pool.cases"]++
	default:
		return false
	}
	return true
}
