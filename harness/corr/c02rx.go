//go:build c02

package main

import (
	"fmt"
	"sort"
	"strings"

	"rare/pkg/extractor"
	"rare/pkg/extractor/batchers"
	"rare/pkg/matchers"
	"rare/pkg/matchers/fastregex"
)

// rx <posix> <pattern> <line>
//
// The regex engine behind --match, through rare's wrapper: fastregex.CompileEx(pattern, posix), one instance,
// FindSubmatchIndex(line), and the wrapper's name table.  The model side parses the pattern itself and runs
// its own leftmost-first matcher (lean/Rare/Model/C02Rx*.lean); outside its fragment it answers `unmodelled`.
func c02RxRun(f []string) string {
	switch f[0] {
	case "rx":
		if len(f) != 4 {
			return "bad-args"
		}
		pat, line := string(UnHex(f[2])), UnHex(f[3])
		cre, err := fastregex.CompileEx(pat, f[1] == "1")
		if err != nil {
			return "error"
		}
		re := cre.CreateInstance()
		ix := re.FindSubmatchIndex(line)
		type ent struct {
			idx  int
			name string
		}
		var tbl []ent
		for n, i := range re.SubexpNameTable() {
			tbl = append(tbl, ent{i, n})
		}
		sort.Slice(tbl, func(a, b int) bool { return tbl[a].idx < tbl[b].idx })
		ns := "."
		if len(tbl) > 0 {
			p := make([]string, len(tbl))
			for k, e := range tbl {
				p[k] = fmt.Sprintf("%d:%s", e.idx, HexS(e.name))
			}
			ns = strings.Join(p, ",")
		}
		return "ok " + c02IntsStr(ix) + " " + ns
	case "rxkey", "rxkeyp": // rxkeyp: the same under --posix (CompilePOSIX, leftmost-longest)
		if len(f) != 4 {
			return "bad-args"
		}
		pat, line, key := string(UnHex(f[1])), UnHex(f[2]), string(UnHex(f[3]))
		re, err := fastregex.CompileEx(pat, f[0] == "rxkeyp")
		if err != nil {
			return "error"
		}
		data := append(append([]byte{}, line...), '\n')
		b := batchers.OpenReaderToChan("s0", &scriptedReader{rest: data}, 3, 1)
		ext, err := extractor.New(b.BatchChan(), &extractor.Config{Matcher: matchers.ToFactory(re), Extract: "[{" + key + "}]", Workers: 1})
		if err != nil {
			return "compile-error " + HexS(err.Error())
		}
		var got []extractor.Match
		for mb := range ext.ReadChan() {
			got = append(got, mb...)
		}
		if len(got) == 0 {
			return "ok nomatch"
		}
		if len(got) != 1 {
			return fmt.Sprintf("matches=%d", len(got))
		}
		v := got[0].Extracted
		if got[0].LineNumber != 1 || got[0].Source != "s0" || got[0].Line != string(line) {
			return "wrong-provenance"
		}
		return "ok " + HexS(v[1:len(v)-1])
	}
	return "bad-op"
}

// ---- generator: random expressions of the modelled fragment (and a few just outside it)

type c02rxGen struct {
	r      *Rand
	groups int
	names  map[string]bool
	fold   bool
	posix  bool // POSIX syntax only: no (?…), no lazy operators, no perl classes / assertions
}

var c02rxLits = []string{"a", "b", "c", "a", "b", "0", "1", " ", "=", "-", "_", "/", "A", "B", `\.`, `\-`, `\[`, `\\`, ":"}
var c02rxPosixClasses = []string{`[a-c]`, `[^a]`, `[0-9a-f]`, `.`, `[ab]`, `[^ab=]`, `[a\-c]`, `[a-]`, `[-a]`, `[A-Z]`, `[^A-Z0-9]`, `[b-b]`, `[^\n]`, `[0-9]`, `[a-z_]`}
var c02rxCounts = []string{"{2}", "{0}", "{1}", "{1,2}", "{0,2}", "{2,}", "{1,}", "{0,}", "{3,5}", "{2,3}", "{0,1}", "{3}", "{1,4}", "{10}", "{0,0}"}
var c02rxClasses = []string{`[a-c]`, `[^a]`, `[0-9a-f]`, `\d`, `\w`, `\s`, `\S`, `\D`, `\W`, `.`, `[ab]`, `[^ab=]`, `[a\-c]`, `[\d_]`, `[a-]`, `[-a]`, `[A-Z]`, `[^A-Z0-9]`, `[\w/]`, `[b-b]`}

// round 4c: hex / octal escapes, literal braces and brackets, POSIX classes, `]` first in a class (both modes) …
var c02rxLits2 = []string{`\x41`, `\x62`, `\x{63}`, `\x{0061}`, `\141`, `\075`, `\055`, `}`, `]`, `{`, `{,2}`, `a{`, `{a}`, `\a`, `\v`, `\x2`, `\8`, `\1`, `\x{110000}`, `\_`, `\ `}
var c02rxClasses2 = []string{`[[:alpha:]]`, `[[:^digit:]]`, `[[:upper:][:digit:]_]`, `[^[:space:]]`, `[[:word:]]`, `[]a]`, `[^]a]`, `[\x41-\x43]`, `[a\]]`, `[[]`, `[[a]`,
	`[[:punct:]]`, `[[:xdigit:]]`, `[[:alnum:]-]`, `[[:blank:]]`, `[[:cntrl:]]`, `[[:graph:]]`, `[[:print:]]`, `[[:lower:]]`, `[[:ascii:]]`, `[[:nope:]]`, `[a-c-e]`, `[[:^alpha:][:^digit:]]`,
	`[^[:^lower:]]`, `[\101-\103b]`, `[a-\x63]`, `[\n-\r]`}

// … negated Perl classes inside brackets, flag groups, \Q…\E (Perl syntax only)
var c02rxPerlClasses2 = []string{`[\D]`, `[\W_]`, `[^\S]`, `[\d\s]`, `[^\W\d]`, `[\Sa]`, `[\w-]`, `[\d-z]`}
var c02rxFlags = []string{`(?i)`, `(?s)`, `(?m)`, `(?U)`, `(?-i)`, `(?i-s)`, `(?ims)`, `(?-)`, `(?i-)`, `(?)`, `(?-m)`, `(?sU)`, `(?i)(?-i)`, `(?x)`}
var c02rxFlagGroups = []string{`(?i:`, `(?s:`, `(?U:`, `(?m-i:`, `(?-s:`, `(?is:`, `(?-U:`, `(?i-i:`}
var c02rxQuotes = []string{`\Qa.b\E`, `\Q*\E`, `\Q\E`, `\Qab`, `\Q(a)\E`, `\Qa\b\E`, `\Q[\E+`, `\QAb\E`}

func (g *c02rxGen) atom(depth int) string {
	switch {
	case g.r.Chance(1, 14):
		return Pick(g.r, c02rxLits2)
	case g.r.Chance(1, 12):
		return Pick(g.r, c02rxClasses2)
	case !g.posix && g.r.Chance(1, 25):
		return Pick(g.r, c02rxPerlClasses2)
	case !g.posix && g.r.Chance(1, 30):
		return Pick(g.r, c02rxQuotes)
	}
	switch {
	case depth < 3 && g.r.Chance(1, 4):
		return g.group(depth)
	case g.r.Chance(1, 3):
		if g.posix {
			return Pick(g.r, c02rxPosixClasses)
		}
		return Pick(g.r, c02rxClasses)
	}
	return Pick(g.r, c02rxLits)
}

func (g *c02rxGen) group(depth int) string {
	open := "("
	sel := g.r.Intn(6)
	if g.posix {
		sel = 5
	}
	switch sel {
	case 0:
		open = "(?:"
		if g.r.Chance(1, 3) {
			open = Pick(g.r, c02rxFlagGroups)
		}
	case 1, 2:
		nm := Pick(g.r, []string{"a", "b", "n1", "_x", "path", "id", "A", "line", "src", "x2", "k", "v"})
		if !g.names[nm] || g.r.Chance(1, 12) { // a repeated name is a compile error in Go: rarely
			g.names[nm] = true
			open = Pick(g.r, []string{"(?P<", "(?P<", "(?<"}) + nm + ">"
		}
	}
	return open + g.alt(depth+1) + ")"
}

func (g *c02rxGen) rep(depth int) string {
	a := g.atom(depth)
	if g.r.Chance(2, 5) {
		switch {
		case g.r.Chance(1, 4):
			a += Pick(g.r, c02rxCounts)
			if !g.posix && g.r.Chance(1, 4) {
				a += "?"
			}
		case g.posix:
			a += Pick(g.r, []string{"*", "+", "?"})
		default:
			a += Pick(g.r, []string{"*", "+", "?", "*", "+", "?", "*?", "+?", "??"})
		}
		if g.r.Chance(1, 40) {
			a += Pick(g.r, []string{"*", "+", "?", "{2}"}) // doubled operators: outside
		}
	}
	return a
}

func (g *c02rxGen) cat(depth int) string {
	n := 1 + g.r.Intn(3)
	if depth == 0 {
		n = 1 + g.r.Intn(4)
	}
	if depth > 0 && g.r.Chance(1, 25) {
		n = 0 // empty branch
	}
	var sb strings.Builder
	for i := 0; i < n; i++ {
		if g.r.Chance(1, 25) {
			sb.WriteString(Pick(g.r, []string{"^", "$"}))
		}
		if !g.posix && g.r.Chance(1, 12) {
			sb.WriteString(Pick(g.r, []string{`\b`, `\b`, `\B`, `\A`, `\z`}))
		}
		if !g.posix && g.r.Chance(1, 14) {
			sb.WriteString(Pick(g.r, c02rxFlags))
		}
		sb.WriteString(g.rep(depth))
	}
	return sb.String()
}

func (g *c02rxGen) alt(depth int) string {
	s := g.cat(depth)
	for g.r.Chance(1, 4) {
		s += "|" + g.cat(depth)
	}
	return s
}

func (g *c02rxGen) pattern() string {
	p := g.alt(0)
	if g.r.Chance(1, 6) {
		p = "^" + p
	}
	if g.r.Chance(1, 6) {
		p = p + "$"
	}
	if !g.posix && g.r.Chance(1, 8) {
		p = "(?i)" + p
		g.fold = true
	}
	if !g.posix && g.r.Chance(1, 12) {
		p += Pick(g.r, []string{`\b`, `\B`, `\z`})
	}
	if g.r.Chance(1, 60) {
		p += Pick(g.r, []string{`é`, `a{,2}`, `(?s).`, `[[:alpha:]]`, `\pL`, `(a*)*`, `(a|)*`, `(|a)+`, `(?m)^a`, `[]a]`, `x{`, `\Qa\E`,
			`a{2}{3}`, `(a{30}){40}`, `a{1001}`, `a{2,1}`, `x{01}`, `(a*){2,}`, `(a{500}){2}`, `((a{10}){10}){10}`, `((a{10}){10}){11}`, `(a{0}){1000}`, `\d`, `a*?`, `(?:a)`})
	}
	return p
}

// loops over bodies that can match the empty text (Go compiles x* as (x+)? then; an empty iteration ends the
// loop), over a two-letter alphabet so that they actually match
var c02rxNullBodies = []string{`a*`, `a*?`, `|a`, `a|`, `a?`, `a??`, `a?b?`, `(a*)`, `(a)*`, `(a|b*)`, `(b*|a)`, `(|a)`, `(a|)`, `a*b*`, `(a*)(b*)`,
	`(a*)*`, `(a*)+`, `(a+)?`, `^`, `$`, `\b`, `(a??)(b??)`, `()`, `(?:)`, `(a?)|(b?)`, `(a*?)(b)?`, `a{0,2}`, `(a{0,1}b{0,1}){0,2}`, `(a|(b)?)`, `((a)|b)*?`, `(?:a*|b)`, `[ab]*?`, `(?P<n>a*)`}

func c02rxNullable(r *Rand) string {
	var sb strings.Builder
	n := 1 + r.Intn(3)
	for i := 0; i < n; i++ {
		switch r.Intn(4) {
		case 0:
			sb.WriteString(Pick(r, []string{"a", "b", "c", "(a)", "[ab]", "(b|c)", "a+", "b?"}))
			continue
		}
		body := Pick(r, c02rxNullBodies)
		if r.Chance(1, 3) {
			body = Pick(r, c02rxNullBodies) + body
		}
		op := Pick(r, []string{"*", "+", "*?", "+?", "{0,}", "{1,}", "{2,}", "{2,}?", "*", "+", "{1,2}", "?"})
		open := Pick(r, []string{"(", "(", "(?:"})
		sb.WriteString(open + body + ")" + op)
	}
	if r.Chance(1, 4) {
		sb.WriteString(Pick(r, []string{"c", "$", "b", "(c)?"}))
	}
	return sb.String()
}

func c02rxLine(r *Rand) []byte {
	n := Pick(r, []int{0, 1, 2, 3, 4, 5, 6, 8, 10, 14})
	alpha := Pick(r, []string{"abc", "ab", "ab", "abcAB01 =-_/.:", "aab b", "abc01 =-", "aAbB", "ab01", "a\nb ", "abc\t\r[\\"})
	line := make([]byte, n)
	for i := range line {
		line[i] = alpha[r.Intn(len(alpha))]
	}
	if r.Chance(1, 50) && n > 0 {
		line[r.Intn(n)] = Pick(r, []byte{0x80, 0xc3, 0xff, 0x00})
	}
	return line
}

func c02RxGen(r *Rand, tier string) []string {
	n := 2500
	if tier == "thorough" {
		n = 60000
	}
	var out []string
	fixed := []struct{ pat, line string }{
		{`(\w+) (\d+)`, "abc 12"},
		{`(?P<word>\w+)( (?P<num>\d+))?`, "hello"},
		{`(a|(b))(c)?`, "xbc"},
		{`^(\w*)$`, ""},
		{`(\d+)|(\w+)`, "ab 1"},
		{`((a)(b)?)+`, "abaab"},
		{`(?:(b)|(a))*`, "ab"},
		{`(a+?)(a*)`, "aaa"},
		{`(a|ab)(c|bcd)(d*)`, "abcd"},
		{`(?i)(get|post) /(\S*)`, "GET /x y"},
		{`x*`, "aaa"},
		{`(a*)+`, "b"},
		{`(a|b)*?c`, "abc"},
		{`(a)|b`, "b"},
		{`[^a]+$`, "aab\nc"},
		{`(?:user=(\w+) )?(GET|POST) (\d+)`, "GET 200"},
		{`\[(?:(INFO)|(WARN)|(ERROR))\]`, "[WARN]"},
		{`(\d{1,3})\.(\d{1,3})\.(\d{1,3})\.(\d{1,3})`, "ip=10.0.255.1 ok"},
		{`(a|ab){2}`, "aabab"},
		{`(a*){2,3}`, "aaa"},
		{`(a|b){2,}?c`, "abbc"},
		{`\b(\w+)\b=(\d{3})\b`, "x status=404 "},
		{`\Ba\B`, "a bab"},
		{`(a{2}){2,3}`, "aaaaaaa"},
		{`(a){0}b`, "ab"},
		{`(?:(a)|b){3}`, "abb"},
		{`(|a)*`, "aa"},
		{`(|a)+`, "aa"},
		{`(a*?)+`, "aa"},
		{`(a*)*`, "b"},
		{`(a*)+`, "b"},
		{`(a|b*)*c`, "abbac"},
		{`((a*)*)*b`, "aab"},
		{`(a?b?)*`, "abba"},
		{`(a*){2,}`, "aaa"},
		{`(?:(a)|(b)|)*`, "abc"},
		{`(\b)+a`, " a"},
		{`(a??)*b`, "aab"},
	}
	for _, f := range fixed {
		out = append(out, fmt.Sprintf("rx 0 %s %s", HexS(f.pat), HexS(f.line)))
	}
	for _, f := range []struct{ pat, line string }{
		{`(a|ab)(c|bcd)(d*)`, "abcd"},
		{`(a*)(a|b)*`, "aab"},
		{`a|ab|abc`, "xabcd"},
		{`(a|ab)(bc|c)?`, "abc"},
		{`^b`, "a\nb"},
		{`a$`, "a\nb"},
		{`[^a]+`, "ab\nc"},
		{`(a+)(a+)`, "aaaa"},
		{`(a|b)*`, "abab"},
		{`(ab|a)(bc|c|b)`, "abc"},
		{`x*`, "aaa"},
		{`(a{1,2}){2}`, "aaa"},
		// POSIX syntax: a repetition of a repetition is allowed
		{`a+*b`, "caab"},
		{`a{2}{3}`, "aaaaaaa"},
		{`(a{2}){2}{2}|a`, "aaaaaaaaa"},
		{`[ab]+?c`, "abc c"},
		{`a{2}+`, "aaaaa"},
		{`[[:alpha:]]+[[:^alpha:]]`, "12ab3"},
		{`[]a]+`, "x]a]"},
	} {
		out = append(out, fmt.Sprintf("rx 1 %s %s", HexS(f.pat), HexS(f.line)))
	}
	for i := 0; i < n/5; i++ {
		pat := c02rxNullable(r)
		posix := "0"
		if !strings.Contains(pat, "?:") && !strings.Contains(pat, "?P") && !strings.Contains(pat, `\b`) && !strings.Contains(pat, "*?") && !strings.Contains(pat, "+?") &&
			!strings.Contains(pat, "??") && !strings.Contains(pat, "}?") && r.Chance(1, 3) {
			posix = "1"
		}
		for k := 0; k < 2; k++ {
			ln := Pick(r, []int{0, 1, 2, 3, 4, 5, 7})
			line := make([]byte, ln)
			alpha := Pick(r, []string{"ab", "ab", "a", "abc", "aab"})
			for j := range line {
				line[j] = alpha[r.Intn(len(alpha))]
			}
			out = append(out, fmt.Sprintf("rx %s %s %s", posix, HexS(pat), Hex(line)))
		}
	}
	for i := 0; i < n; i++ {
		g := &c02rxGen{r: r, names: map[string]bool{}}
		g.posix = r.Chance(1, 5)
		pat := g.pattern()
		posix := "0"
		if g.posix != r.Chance(1, 50) { // rarely: Perl syntax under --posix (mostly compile errors), POSIX syntax under Perl
			posix = "1"
		}
		for k := 0; k < 2; k++ {
			out = append(out, fmt.Sprintf("rx %s %s %s", posix, HexS(pat), Hex(c02rxLine(r))))
		}
		if i%4 == 0 {
			// the same expression through the real extractor: {key}
			line := c02rxLine(r)
			ok := true
			for _, c := range line {
				if c == '\n' || c == '\r' {
					ok = false
				}
			}
			if ok {
				keys := []string{"0", "1", "2", "3", "@", "nope", "9"}
				for nm := range g.names {
					keys = append(keys, nm)
				}
				sort.Strings(keys)
				op := "rxkey"
				if posix == "1" {
					op = "rxkeyp"
				}
				out = append(out, fmt.Sprintf("%s %s %s %s", op, HexS(pat), Hex(line), HexS(Pick(r, keys))))
			}
		}
	}
	return out
}

func c02RxStats(cases []string, st map[string]int) {
	for _, c := range cases {
		f := strings.Fields(c)
		if f[0] != "rx" || len(f) != 4 {
			continue
		}
		pat := string(UnHex(f[2]))
		for _, k := range []struct{ key, sub string }{{"rx.pat.group", "("}, {"rx.pat.named", "(?P<"}, {"rx.pat.alt", "|"}, {"rx.pat.star", "*"},
			{"rx.pat.plus", "+"}, {"rx.pat.lazy", "*?"}, {"rx.pat.class", "["}, {"rx.pat.fold", "(?i)"}, {"rx.pat.anchor", "^"}, {"rx.pat.count", "{"}, {"rx.pat.wordb", `\b`},
			{"rx.pat.flaggroup", "(?i:"}, {"rx.pat.flag.s", "(?s"}, {"rx.pat.flag.m", "(?m"}, {"rx.pat.flag.U", "(?U"}, {"rx.pat.posixclass", "[:"}, {"rx.pat.hex", `\x`}, {"rx.pat.quote", `\Q`}} {
			if strings.Contains(pat, k.sub) {
				st[k.key]++
			}
		}
		if f[1] == "1" {
			st["rx.posix"]++
		}
	}
}
