//go:build c09 || c08 || c10

package main

import (
	"fmt"
	"strings"

	"rare/pkg/expressions/funclib"
)

// Trees over the STANDARD function table (ops `stree` / `streex`, Lean: Rare/Spec/C09Frag.lean,
// theorem print_compile_std_fragment).
//
//	stree  <opt> <tokens> <elems> <keys>   a (tree, style) the generator believes to be in the fragment: the
//	                                       harness prints it with its own printer and compiles/evaluates the print with
//	                                       the REAL function table; the model prints it with the SPEC's printer, checks
//	                                       `fragOk`, compiles with the model registry and checks value = evalTree(stdSem)
//	streex <opt> <tokens> <elems> <keys>   the same for arbitrary trees over the standard names (wrong arities, constants
//	                                       of the wrong type, non-constant arguments where a constant is demanded …)

// argument kinds of a fragment function
const (
	fkV  = iota // any value
	fkI         // integer-typed: dynamic, or an integer constant / closed integer expression
	fkF         // float-typed: dynamic, or a numeric constant
	fkLP        // literal positive integer
	fkLI        // literal integer
	fkLD        // literal non-empty delimiter
	fkLS        // any literal
)

type c09FragFn struct {
	name     string
	fixed    []int // kinds of the leading arguments
	varKind  int   // kind of further arguments (-1: none)
	min, max int   // arity range
}

func fixedFn(name string, kinds ...int) c09FragFn {
	return c09FragFn{name, kinds, -1, len(kinds), len(kinds)}
}
func varFn(name string, kind, min, max int) c09FragFn {
	return c09FragFn{name, nil, kind, min, max}
}
func optFn(name string, min int, kinds ...int) c09FragFn {
	return c09FragFn{name, kinds, -1, min, len(kinds)}
}

var c09FragFns = []c09FragFn{
	varFn("coalesce", fkV, 1, 3), varFn("eq", fkV, 2, 3), varFn("neq", fkV, 2, 3), fixedFn("not", fkV),
	varFn("and", fkV, 1, 3), varFn("or", fkV, 1, 3), optFn("if", 2, fkV, fkV, fkV), fixedFn("unless", fkV, fkV),
	varFn("switch", fkV, 2, 5),
	varFn("sumi", fkI, 2, 4), varFn("subi", fkI, 2, 3), varFn("multi", fkI, 2, 3), varFn("divi", fkI, 2, 3),
	varFn("modi", fkI, 2, 3), varFn("maxi", fkI, 2, 3), varFn("mini", fkI, 2, 3),
	fixedFn("isint", fkV), fixedFn("bucket", fkV, fkLP), fixedFn("bucketrange", fkV, fkLP), fixedFn("clamp", fkV, fkLI, fkLI),
	fixedFn("expbucket", fkV),
	fixedFn("isnum", fkV), fixedFn("lt", fkF, fkF), fixedFn("gt", fkF, fkF), fixedFn("lte", fkF, fkF), fixedFn("gte", fkF, fkF),
	varFn("sumf", fkF, 2, 3), varFn("subf", fkF, 2, 3), varFn("multf", fkF, 2, 3), varFn("divf", fkF, 2, 3),
	fixedFn("ceil", fkV), fixedFn("floor", fkV), fixedFn("sqrt", fkV), fixedFn("hf", fkV),
	fixedFn("len", fkV), fixedFn("like", fkV, fkV), fixedFn("prefix", fkV, fkV), fixedFn("suffix", fkV, fkV),
	fixedFn("substr", fkV, fkV, fkV), fixedFn("select", fkV, fkV),
	varFn("tab", fkV, 1, 3), varFn("$", fkV, 1, 3), varFn("@", fkV, 1, 3), varFn("csv", fkV, 1, 3), fixedFn("hi", fkV),
	fixedFn("basename", fkV), fixedFn("dirname", fkV), fixedFn("extname", fkV),
	fixedFn("@len", fkV), optFn("@split", 1, fkV, fkLD), optFn("@join", 1, fkV, fkLS), fixedFn("@in", fkV, fkLS),
}

var c09FragInts = []string{"0", "1", "-1", "2", "3", "5", "7", "10", "42", "-7", "100", "007", "+3", "9223372036854775807",
	"-9223372036854775808", "4611686018427387904"}
var c09FragNums = []string{"0", "1", "-1", "2.5", "10", "3", "1e3", "-0.5", ".5", "100", "1E-2", "0.1", "9007199254740993", "1e308", "-0"}
var c09FragTexts = []string{"", "a", "abc", "a b", "a b c", "x,y", "say hi", "/usr/lib/x.tar.gz", "dir/", "é世", " ", "a\tb", "A1", "abcabc",
	"12", "-3", "3.5", "x'y", "a|b|c", "k=v"}
var c09FragDelims = []string{" ", ",", "|", "ab", "=", "é", "  "}
var c09FragKeys = []string{"src", "line", "k", "key", "num", "arr", "nokey"}

type c09FragGen struct {
	r    *Rand
	wild bool     // streex: break the rules now and then
	user []string // C10 `ftree`: funcs-file functions defined so far (callable in value positions)
}

// a call of a funcs-file function: any arguments
func (g *c09FragGen) userCall(depth int) *c09Node {
	t := &c09Node{kind: 'C', text: Pick(g.r, g.user), lead: g.ws(0), trail: g.ws(0)}
	for i, argc := 0, 1+g.r.Intn(3); i < argc; i++ {
		t.seps = append(t.seps, g.ws(1))
		t.kids = append(t.kids, g.arg(fkV, depth-1))
	}
	return t
}

func (g *c09FragGen) ws(min int) string { return c09Ws(g.r, min) }

func (g *c09FragGen) lit(text string) *c09Node {
	// literal arguments must be free of " \ { } (the documented grammar)
	for _, c := range text {
		if c09Special(c) {
			text = "x"
			break
		}
	}
	return &c09Node{kind: 'L', text: text, quote: g.r.Bool()}
}

func (g *c09FragGen) leafDyn() *c09Node {
	if g.r.Chance(2, 3) {
		return &c09Node{kind: 'G', n: uint64(g.r.Intn(6)), lead: g.ws(0), trail: g.ws(0)}
	}
	return &c09Node{kind: 'K', text: Pick(g.r, c09FragKeys), lead: g.ws(0), trail: g.ws(0)}
}

// a call of fn; `dyn`: the first argument is dynamic (so the call is, for every function of the fragment)
func (g *c09FragGen) call(fn c09FragFn, depth int, dyn bool) *c09Node {
	t := &c09Node{kind: 'C', text: fn.name, lead: g.ws(0), trail: g.ws(0)}
	argc := g.r.Range(fn.min, fn.max)
	if g.wild && g.r.Chance(1, 12) {
		argc = 1 + g.r.Intn(5)
	}
	for i := 0; i < argc; i++ {
		kind := fn.varKind
		if i < len(fn.fixed) {
			kind = fn.fixed[i]
		}
		if kind < 0 {
			kind = fkV
		}
		t.seps = append(t.seps, g.ws(1))
		var k *c09Node
		if i == 0 && dyn {
			k = g.dyn(depth - 1)
		} else {
			k = g.arg(kind, depth-1)
		}
		t.kids = append(t.kids, k)
	}
	return t
}

// certainly dynamic: a group/key reference or a call whose first argument is dynamic
func (g *c09FragGen) dyn(depth int) *c09Node {
	if depth <= 0 || g.r.Chance(1, 2) {
		return g.leafDyn()
	}
	return g.call(Pick(g.r, c09FragFns), depth, true)
}

func (g *c09FragGen) arg(kind, depth int) *c09Node {
	if g.wild && g.r.Chance(1, 10) { // the wrong kind of argument
		kind = Pick(g.r, []int{fkV, fkV, fkLS})
	}
	switch kind {
	case fkI:
		switch k := g.r.Intn(10); {
		case k < 5:
			return g.dyn(depth)
		case k < 8 || depth <= 0:
			return g.lit(Pick(g.r, c09FragInts))
		case k < 9: // closed, integer-valued
			return g.call(fixedFn("len", fkLS), depth, false)
		default:
			return g.call(varFn(Pick(g.r, []string{"sumi", "multi", "subi", "maxi"}), fkLI, 2, 3), depth, false)
		}
	case fkF:
		switch k := g.r.Intn(10); {
		case k < 5:
			return g.dyn(depth)
		case k < 9 || depth <= 0:
			return g.lit(Pick(g.r, c09FragNums))
		default:
			return g.call(fixedFn("len", fkLS), depth, false)
		}
	case fkLP:
		return g.lit(Pick(g.r, []string{"1", "2", "5", "10", "50", "1000", "9223372036854775807", "007"}))
	case fkLI:
		return g.lit(Pick(g.r, c09FragInts))
	case fkLD:
		return g.lit(Pick(g.r, c09FragDelims))
	case fkLS:
		if g.r.Chance(1, 3) {
			return g.lit(Pick(g.r, c09FragDelims))
		}
		return g.lit(Pick(g.r, c09FragTexts))
	}
	// any value
	if len(g.user) > 0 && depth > 0 && g.r.Chance(1, 3) {
		return g.userCall(depth)
	}
	switch k := g.r.Intn(10); {
	case depth <= 0 && k < 5, k < 2:
		return g.lit(Pick(g.r, append(append([]string{}, c09FragTexts...), c09FragInts...)))
	case depth <= 0 || k < 5:
		return g.leafDyn()
	default:
		return g.call(Pick(g.r, c09FragFns), depth, g.r.Bool())
	}
}

func c09FragCtx(r *Rand) (string, string) {
	pool := []string{"", "0", "1", "-5", "42", "3.25", "abc", "a b c", "x\x00y\x00z", "\x00", "a\x00", " ", "1e3", "9223372036854775807",
		"9223372036854775808", "-9223372036854775808", "/var/log/app.log.1", "x,y,\"z\"", "héllo wörld", "12345678", "NaN", "inf", "0x10", "a=b|c=d",
		"line one\nline two", "  padded  ", "x\xffy"}
	n := r.Intn(6)
	el := make([]string, n)
	for i := range el {
		el[i] = Pick(r, pool)
	}
	if r.Chance(1, 8) {
		for i := range el {
			el[i] = ""
		}
	}
	var keys []string
	for _, k := range c09FragKeys[:6] {
		if r.Chance(3, 4) {
			keys = append(keys, k, Pick(r, pool))
		}
	}
	return HexListS(el), HexListS(keys)
}

func c09FragCases(r *Rand, tier string) []string {
	n := 2500
	if tier == "thorough" {
		n = 60000
	}
	var out []string
	for i := 0; i < n; i++ {
		g := &c09FragGen{r: r}
		op := "stree"
		if i%5 == 4 {
			g.wild = true
			op = "streex"
		}
		var t *c09Node
		switch k := r.Intn(12); {
		case k == 0:
			t = g.leafDyn()
		case k == 1:
			t = &c09Node{kind: 'L', text: c09LitText(r)}
		default:
			t = g.call(Pick(r, c09FragFns), 1+r.Intn(3), r.Bool())
		}
		var toks []string
		t.tokens(&toks)
		el, ks := c09FragCtx(r)
		out = append(out, fmt.Sprintf("%s %s %s %s %s", op, c09Opt(r), strings.Join(toks, ","), el, ks))
	}
	return out
}

// c09FragRun: the harness's print of the tree through the real function table.
func c09FragRun(f []string) string {
	t, rest := c09ParseTokens(strings.Split(f[2], ","))
	if len(rest) != 0 {
		return "bad-args"
	}
	kb := funclib.NewKeyBuilderEx(f[1] == "1")
	compiled, errs := kb.Compile(t.printTop())
	if compiled == nil {
		return "nil-compiled errs=" + errsStr(errs)
	}
	val := compiled.BuildKey(mkContext(f[3], f[4]))
	return fmt.Sprintf("ok errs=%s val=%s", errsStr(errs), HexS(val))
}
