//go:build c03

package main

// Correspondence for C03, the spelling of sort names (cmd/helpers/sorting.go):
//
//	sbv <name hex>
//
// asks the REAL helpers.SortsByValue(name) and the REAL helpers.BuildSorter(name) – spark's render callback trims columns
// only when the first says "not value-ordered", with the sorter the second built.  Answer `ok <0|1> <err|sig>`; sig = what
// the built sorter answers on the row pairs (a,1)<(b,2), (b,2)<(a,1), (a,2)<(b,1), (b,1)<(a,2): `1010` name ascending,
// `0101` name descending, `1001` value ascending, `0110` value descending (the names a, b are neither numbers, dates,
// weekdays nor months, so numeric / contextual / date fall back to the name order).  The Lean side answers from
// `sortsByValue` / `builtSorter` (Model/C03Cmd.lean: C13's parseSort / lookupMode with `lowerK`) through the model's own
// closures; `sorts_by_value_agrees_with_build_sorter` proves the two columns agree (1 ⇔ a value signature) for ALL texts.

import (
	"fmt"
	"strings"

	"rare/cmd/helpers"
	"rare/pkg/aggregation/sorting"
)

func c03SbvRun(f []string) string {
	name := string(UnHex(f[1]))
	v := 0
	if helpers.SortsByValue(name) {
		v = 1
	}
	s, err := helpers.BuildSorter(name)
	if err != nil {
		return fmt.Sprintf("ok %d err", v)
	}
	bit := func(b bool) string {
		if b {
			return "1"
		}
		return "0"
	}
	a1, b2 := sorting.NameValuePair{Name: "a", Value: 1}, sorting.NameValuePair{Name: "b", Value: 2}
	a2, b1 := sorting.NameValuePair{Name: "a", Value: 2}, sorting.NameValuePair{Name: "b", Value: 1}
	return fmt.Sprintf("ok %d %s%s%s%s", v, bit(s(a1, b2)), bit(s(b2, a1)), bit(s(a2, b1)), bit(s(b1, a2)))
}

func c03FlipCase(r *Rand, s string) string {
	b := []byte(s)
	for i, c := range b {
		if c >= 'a' && c <= 'z' && r.Chance(1, 2) {
			b[i] = c - 32
		}
	}
	return string(b)
}

var c03SortNames = []string{"value", "value", "text", "numeric", "contextual", "context", "date", "", "fake", "valu", "values"}
var c03SortMods = []string{"", "", ":asc", ":desc", ":rev", ":reverse", ":up", ":", ":asc:desc", ":rev:x"}

func c03SbvCase(r *Rand) string {
	name := Pick(r, c03SortNames)
	mod := Pick(r, c03SortMods)
	switch r.Intn(4) {
	case 0: // as documented
	case 1:
		name = strings.ToUpper(name)
		if r.Bool() {
			mod = strings.ToUpper(mod)
		}
	default:
		name, mod = c03FlipCase(r, name), c03FlipCase(r, mod)
	}
	s := name + mod
	if r.Chance(1, 12) { // near misses: blanks, a non-ASCII letter that lower-cases into ASCII (C13: İ, KELVIN SIGN) or not
		s = Pick(r, []string{" " + s, s + " ", "numerİc" + mod, "conteKtual", "valuÉ" + mod, "VALUE\xff", "vаlue", "teKt", "İ"})
	}
	return "sbv " + HexS(s)
}

// every upper/lower-case spelling of `value` and `text`, bare and with every modifier
func c03SbvExhaustive(out *[]string) {
	for _, base := range []string{"value", "text"} {
		for mask := 0; mask < 1<<uint(len(base)); mask++ {
			b := []byte(base)
			for i := range b {
				if mask&(1<<uint(i)) != 0 {
					b[i] -= 32
				}
			}
			for _, mod := range []string{"", ":asc", ":DESC", ":Rev", ":reverse", ":up"} {
				*out = append(*out, "sbv "+HexS(string(b)+mod))
			}
		}
	}
}

func c03SbvStats(f []string, st map[string]int) {
	st["op.sbv"]++
	name := string(UnHex(f[1]))
	if name != strings.ToLower(name) {
		st["sbv.upperCase"]++
	}
	if strings.EqualFold(strings.SplitN(name, ":", 2)[0], "value") {
		st["sbv.valueSpelling"]++
		if !strings.HasPrefix(name, "value") {
			st["sbv.valueSpelling.notLowerCase"]++
		}
	}
}

var c03SbvCorpus = []string{
	// seeded/C03-sortsbyvalue-case: VALUE, Value:desc are the value sorter, so SortsByValue must say 1
	"sbv 56414c5545",
	"sbv 56616c75653a64657363",
	"sbv 76416c55653a524556",
	"sbv 54455854",
	"sbv 76616c75653a7570",
	// spark with an upper-case spelling of the value order: never trimmed, whatever the renders (tbl with a sort-cols field)
	"tbl 00 1 610072;610072;620072;610072 3 56414c5545",
	"tbl 00 2 610072;620072;630072;630072 1,2 56616c75653a617363",
	"tbl 00 1 610072;620072;610072 1 54657874",
}
