//go:build c07

package main

// Correspondence for C07: aggregators compute the exact fold of their sample history.
//
//	agg counter <hist>                       MatchCounter, dump after every prefix
//	agg subkey  <hist>                       SubKeyCounter, dump after every prefix
//	agg table   <delim> <ops>                TableAggregator; ops = s:<hex> | t:<neg>:<cols>:<rows>:<lo>:<hi>, comma separated
//	agg num     <keep> <rev> <hist> <qs>     MatchNumerical vs Lean's native Float (+ tolerance vs the exact Rat run)
//	agg numf / numfv ...                     MatchNumerical vs the software binary64 model (see c07numf64.go)
//	agg numerr <e> <bits>                    the proved float tolerances checked on the real aggregator (see c07numerr.go)
//	agg numh <keep> <rev> <ops> <ps>         MatchNumerical with Analyze() calls BETWEEN the samples (see c07numh.go)
//	split <delim> <s> <n>                    stringSplitter.Splitter: n calls of Next with Done after each
//	acc <opt> <rev> <ops>                    AccumulatingGroup (see c07acc.go)
//	sorted counter|subkey|table ...          counted / sorted accessors (see c07sorted.go)
//	gk <perm> <elements> / parts <key>       group keys at every arity through csv.WriteAccumulator (see c07gk.go)
//
// <hist> is a hex list of raw sample strings.  Everything that comes out of a Go map is sorted.
// Every case is executed several times so that a dependence on Go's randomised map iteration
// order (Table.Trim, ComputeMinMax, Sum) shows up as `nondet`.

import (
	"fmt"
	"math"
	"sort"
	"strconv"
	"strings"

	"rare/pkg/aggregation"
	"rare/pkg/stringSplitter"
)

func c07DumpCounter(c *aggregation.MatchCounter) string {
	items := c.Items()
	sort.Slice(items, func(i, j int) bool { return items[i].Name < items[j].Name })
	parts := make([]string, len(items))
	for i, it := range items {
		parts[i] = fmt.Sprintf("%s=%d", HexS(it.Name), it.Item.Count())
	}
	return fmt.Sprintf("e=%d t=%d n=%d [%s]", c.ParseErrors(), c.Total(), c.GroupCount(), strings.Join(parts, ","))
}

func c07DumpSubKey(c *aggregation.SubKeyCounter) string {
	items := c.Items()
	sort.Slice(items, func(i, j int) bool { return items[i].Name < items[j].Name })
	parts := make([]string, len(items))
	for i, it := range items {
		vs := make([]string, len(it.Item.Items()))
		for j, v := range it.Item.Items() {
			vs[j] = strconv.FormatInt(v, 10)
		}
		parts[i] = fmt.Sprintf("%s=%d(%s)", HexS(it.Name), it.Item.Count(), strings.Join(vs, ","))
	}
	return fmt.Sprintf("e=%d sk=%s [%s]", c.ParseErrors(), HexListS(c.SubKeys()), strings.Join(parts, ","))
}

func c07DumpTable(t *aggregation.TableAggregator) string {
	cols := t.Columns()
	sort.Strings(cols)
	cparts := make([]string, len(cols))
	for i, c := range cols {
		cparts[i] = fmt.Sprintf("%s=%d", HexS(c), t.ColTotal(c))
	}
	rows := t.Rows()
	sort.Slice(rows, func(i, j int) bool { return rows[i].Name() < rows[j].Name() })
	rparts := make([]string, len(rows))
	for i, r := range rows {
		vs := make([]string, len(cols))
		for j, c := range cols {
			vs[j] = strconv.FormatInt(r.Value(c), 10)
		}
		rparts[i] = fmt.Sprintf("%s=%d(%s)", HexS(r.Name()), r.Sum(), strings.Join(vs, ","))
	}
	mn, mx := t.ComputeMinMax()
	return fmt.Sprintf("e=%d rc=%d cc=%d sum=%d min=%d max=%d cols[%s] rows[%s]", t.ParseErrors(), t.RowCount(), t.ColumnCount(),
		t.Sum(), mn, mx, strings.Join(cparts, ","), strings.Join(rparts, ","))
}

type c07Pred struct {
	neg        bool
	cols, rows map[string]bool
	lo, hi     int64
}

func c07ParsePred(op string) c07Pred {
	f := strings.Split(op, ":")
	p := c07Pred{neg: f[1] == "1", cols: map[string]bool{}, rows: map[string]bool{}}
	for _, c := range UnHexListS(f[2]) {
		p.cols[c] = true
	}
	for _, r := range UnHexListS(f[3]) {
		p.rows[r] = true
	}
	p.lo, _ = strconv.ParseInt(f[4], 10, 64)
	p.hi, _ = strconv.ParseInt(f[5], 10, 64)
	return p
}

func (p c07Pred) eval(col, row string, val int64) bool {
	r := p.cols[col] || p.rows[row] || (p.lo <= val && val <= p.hi)
	return r != p.neg
}

func c07RunTable(delim string, ops []string) string {
	t := aggregation.NewTable(delim)
	var out []string
	for _, op := range ops {
		switch op[0] {
		case 's':
			t.Sample(string(UnHex(op[2:])))
			out = append(out, c07DumpTable(t))
		case 't':
			p := c07ParsePred(op)
			n := t.Trim(p.eval)
			out = append(out, fmt.Sprintf("trim=%d ", n)+c07DumpTable(t))
		}
	}
	return "ok " + strings.Join(out, " | ")
}

// c07Bits prints the IEEE bits; both zeros print as 0 (sort.Float64s does not order -0 / +0).
func c07Bits(f float64) string {
	if f == 0 {
		return "0"
	}
	if math.IsNaN(f) {
		return "nan"
	}
	return strconv.FormatUint(math.Float64bits(f), 10)
}

func c07RunNum(keep, rev bool, hist []string, qs []string) string {
	n := aggregation.NewNumericalAggregator(&aggregation.NumericalConfig{Reverse: rev, KeepValuesForAnalysis: keep})
	var out []string
	for _, h := range hist {
		n.Sample(h)
		out = append(out, fmt.Sprintf("n=%d e=%d mean=%s var=%s sd=%s min=%s max=%s", n.Count(), n.ParseErrors(),
			c07Bits(n.Mean()), c07Bits(n.Variance()), c07Bits(n.StdDev()), c07Bits(n.Min()), c07Bits(n.Max())))
	}
	a := n.Analyze()
	qparts := make([]string, len(qs))
	for i, q := range qs {
		p, _ := strconv.ParseFloat(q, 64)
		qparts[i] = c07Bits(a.Quantile(p))
	}
	out = append(out, fmt.Sprintf("median=%s mode=%s q[%s]", c07Bits(a.Median()), c07Bits(a.Mode()), strings.Join(qparts, ",")))
	return "ok tol=ok " + strings.Join(out, " | ")
}

func c07RunOnce(f []string) string {
	switch f[0] {
	case "acc":
		return c07AccRunOnce(f)
	case "sorted":
		return c07SortedRunOnce(f)
	case "gk", "parts":
		return c07GkRunOnce(f)
	case "split":
		n, _ := strconv.Atoi(f[3])
		sp := stringSplitter.Splitter{S: string(UnHex(f[2])), Delim: string(UnHex(f[1]))}
		var out []string
		for i := 0; i < n; i++ {
			v := sp.Next()
			d := 0
			if sp.Done() {
				d = 1
			}
			out = append(out, fmt.Sprintf("%s/%d", HexS(v), d))
		}
		return "ok " + strings.Join(out, ",")
	case "agg":
		switch f[1] {
		case "counter":
			c := aggregation.NewCounter()
			var out []string
			for _, h := range UnHexListS(f[2]) {
				c.Sample(h)
				out = append(out, c07DumpCounter(c))
			}
			return "ok " + strings.Join(out, " | ")
		case "subkey":
			c := aggregation.NewSubKeyCounter()
			var out []string
			for _, h := range UnHexListS(f[2]) {
				c.Sample(h)
				out = append(out, c07DumpSubKey(c))
			}
			return "ok " + strings.Join(out, " | ")
		case "table":
			var ops []string
			if f[3] != "." {
				ops = strings.Split(f[3], ",")
			}
			return c07RunTable(string(UnHex(f[2])), ops)
		case "numf", "numfv":
			return c07RunNumF(f)
		case "numerr":
			return c07RunNumErr(f)
		case "numh":
			return c07RunNumH(f)
		case "num":
			var qs []string
			if f[5] != "." {
				qs = strings.Split(f[5], ",")
			}
			return c07RunNum(f[2] == "1", f[3] == "1", UnHexListS(f[4]), qs)
		}
	}
	return "bad-op"
}

func c07Run(f []string) (res string) {
	defer func() {
		if e := recover(); e != nil {
			res = "panic"
		}
	}()
	first := c07RunOnce(f)
	reps := 0
	if len(f) > 1 && f[1] == "table" {
		reps = 5 // Go randomises map iteration per range statement
	}
	if f[0] == "acc" || f[0] == "sorted" || f[0] == "gk" {
		reps = 2 // the accessor ranges over a map before it sorts
	}
	for i := 0; i < reps; i++ {
		if again := c07RunOnce(f); again != first {
			return "nondet " + first + " <> " + again
		}
	}
	return first
}

// ---------------------------------------------------------------- generator

var c07TinyKeys = []string{"a", "b", "", "a\x00", "ab"}
var c07Incs = []string{"1", "-1", "0", "2", "5", "-3", "+7", "007", "9223372036854775807", "-9223372036854775808",
	"9223372036854775808", "4611686018427387904", "x", "", "1.5", " 1", "1e3", "--1", "+", "-"}

func c07Key(r *Rand) string {
	switch r.Intn(10) {
	case 0, 1, 2, 3, 4:
		return Pick(r, []string{"a", "b", "c"})
	case 5:
		return ""
	case 6:
		return Pick(r, []string{"\xff", "é", "A", "aa", "a b", "0", "10", "9"})
	default:
		n := r.Intn(4)
		b := make([]byte, n)
		for i := range b {
			if r.Chance(1, 3) {
				b[i] = byte(r.Intn(256))
				if b[i] == 0 {
					b[i] = 1
				}
			} else {
				b[i] = byte('a' + r.Intn(26))
			}
		}
		return string(b)
	}
}

// c07Element builds one raw sample with nf fields (plus occasionally extra / missing ones) joined by delim.
func c07Element(r *Rand, delim string, nkeys int) string {
	parts := []string{}
	for i := 0; i < nkeys; i++ {
		parts = append(parts, c07Key(r))
	}
	switch r.Intn(10) {
	case 0, 1, 2, 3: // increment absent
	case 4: // fewer fields
		parts = parts[:r.Intn(len(parts))+0]
		if len(parts) == 0 {
			parts = []string{c07Key(r)}
		}
	case 5: // extra trailing fields
		parts = append(parts, Pick(r, c07Incs), c07Key(r))
	default:
		parts = append(parts, Pick(r, c07Incs))
	}
	s := strings.Join(parts, delim)
	if r.Chance(1, 25) {
		s += delim
	}
	if r.Chance(1, 40) && len(delim) > 1 {
		s += delim[:1]
	}
	return s
}

func c07Hist(r *Rand, delim string, nkeys int) []string {
	n := r.Intn(9)
	if r.Chance(1, 10) {
		n = r.Range(10, 40)
	}
	h := make([]string, n)
	for i := range h {
		h[i] = c07Element(r, delim, nkeys)
	}
	return h
}

func c07PredOp(r *Rand) string {
	pick := func() string {
		n := r.Intn(3)
		l := []string{}
		for i := 0; i < n; i++ {
			l = append(l, Pick(r, []string{"a", "b", "c", "", "aa"}))
		}
		return HexListS(l)
	}
	lo, hi := int64(1), int64(0) // empty range
	switch r.Intn(5) {
	case 0:
		lo, hi = math.MinInt64, int64(r.Range(-2, 3))
	case 1:
		lo, hi = int64(r.Range(-1, 3)), math.MaxInt64
	case 2:
		lo, hi = 0, 0
	}
	neg := 0
	if r.Chance(1, 4) {
		neg = 1
	}
	return fmt.Sprintf("t:%d:%s:%s:%d:%d", neg, pick(), pick(), lo, hi)
}

var c07Delims = []string{"\x00", "\x00", "\x00", " ", ",", "ab", "::", "aa", "\x00\x00"}

func c07TableCase(r *Rand) string {
	delim := Pick(r, c07Delims)
	n := r.Intn(9)
	if r.Chance(1, 10) {
		n = r.Range(10, 30)
	}
	ops := []string{}
	for i := 0; i < n; i++ {
		if r.Chance(1, 6) {
			ops = append(ops, c07PredOp(r))
		} else {
			ops = append(ops, "s:"+HexS(c07Element(r, delim, 2)))
		}
	}
	if r.Chance(1, 2) {
		ops = append(ops, c07PredOp(r))
	}
	o := "."
	if len(ops) > 0 {
		o = strings.Join(ops, ",")
	}
	return fmt.Sprintf("agg table %s %s", HexS(delim), o)
}

func c07NumStr(r *Rand) string {
	switch r.Intn(12) {
	case 0:
		if r.Chance(1, 12) { // exponent / inf / hex / nan spellings (parsed by the model's F64.parseFloat)
			return Pick(r, []string{"1e3", "inf", "0x10", "nan"})
		}
		return Pick(r, []string{"", "z", "1,5", "1 2", "--1", ".", "+", "1.2.3", "xyz", "-", "1-", "1..2", "+-1", "1 "})
	case 1:
		return Pick(r, []string{"0", "-0", "0.0", "+0", "1", "-1", "100", "1000000", "9007199254740993", "0.1", "0.5", "-2.25", ".5", "5.", "+.5"})
	case 2: // repeated small values (mode, ties)
		return strconv.Itoa(r.Range(0, 3))
	case 3:
		return fmt.Sprintf("%d.%d", r.Range(-5, 5), r.Intn(100))
	case 4:
		return fmt.Sprintf("%d", int64(r.U64()>>uint(r.Intn(64)))-int64(r.Intn(1000)))
	case 5:
		return fmt.Sprintf("%d.%06d", r.Range(-1000000, 1000000), r.Intn(1000000))
	case 6:
		return fmt.Sprintf("0.%0*d", r.Range(1, 25), r.Intn(1000))
	default:
		return strconv.Itoa(r.Range(-20, 100))
	}
}

func c07NumCase(r *Rand) string {
	n := r.Intn(10)
	if r.Chance(1, 8) {
		n = r.Range(10, 60)
	}
	h := make([]string, n)
	for i := range h {
		h[i] = c07NumStr(r)
	}
	if n > 0 && r.Chance(1, 6) { // near-constant series (variance cancellation)
		base := r.Range(1000000, 100000000)
		for i := range h {
			h[i] = fmt.Sprintf("%d.%d", base, r.Intn(10))
		}
	}
	qs := []string{}
	for i := r.Intn(5); i > 0; i-- {
		qs = append(qs, Pick(r, []string{"0", "0.5", "0.25", "0.75", "0.9", "0.99", "1", "0.999", "0.1", "0.3", "0.7", "0.33"}))
	}
	q := "."
	if len(qs) > 0 {
		q = strings.Join(qs, ",")
	}
	keep, rev := 1, 0
	if r.Chance(1, 10) {
		keep = 0
	}
	if r.Chance(1, 4) {
		rev = 1
	}
	return fmt.Sprintf("agg num %d %d %s %s", keep, rev, HexListS(h), q)
}

func c07SplitCase(r *Rand) string {
	delim := Pick(r, []string{"\x00", ",", "ab", "aa", "::", "aba", "\x00\x00"})
	n := r.Intn(12)
	b := make([]byte, 0, n)
	for len(b) < n {
		if r.Chance(1, 3) {
			b = append(b, delim...)
		} else {
			b = append(b, Pick(r, []byte{'a', 'b', ':', ',', 0, 'x'}))
		}
	}
	return fmt.Sprintf("split %s %s %d", HexS(delim), Hex(b), r.Range(1, 8))
}

func c07Gen(r *Rand, tier string) []string {
	n := 500
	if tier == "thorough" {
		n = 30000
	}
	var out []string
	out = append(out, c07AccGen(r, tier)...)
	out = append(out, c07SortedGen(r, tier)...)
	out = append(out, c07GkGen(r, tier)...)
	out = append(out, c07NumFGen(r, tier)...)
	out = append(out, c07NumErrGen(r, tier)...)
	out = append(out, c07NumHGen(r, tier)...)
	for i := 0; i < n; i++ {
		out = append(out, "agg counter "+HexListS(c07Hist(r, "\x00", 1)))
		out = append(out, "agg subkey "+HexListS(c07Hist(r, "\x00", 2)))
		out = append(out, c07TableCase(r))
		out = append(out, c07TableCase(r))
		out = append(out, c07NumCase(r))
		if i%2 == 0 {
			out = append(out, c07SplitCase(r))
		}
	}
	// small exhaustive part (both tiers, deeper in thorough): all histories over 2 keys x 2 sub-keys
	depth, cdepth, tdepth := 3, 3, 2
	if tier == "thorough" {
		depth, cdepth, tdepth = 6, 5, 4
	}
	sym4 := []string{"a\x00x", "a\x00y", "b\x00x", "b\x00y"}
	var rec func(cur []string, alpha []string, max int, emit func([]string))
	rec = func(cur []string, alpha []string, max int, emit func([]string)) {
		emit(cur)
		if len(cur) < max {
			for _, s := range alpha {
				rec(append(append([]string{}, cur...), s), alpha, max, emit)
			}
		}
	}
	rec(nil, sym4, depth, func(h []string) {
		out = append(out, "agg subkey "+HexListS(h))
	})
	// sub-key order matters for re-indexing: sub-keys that sort before / after, with explicit increments
	rec(nil, []string{"a\x00y\x002", "b\x00x\x00-1", "a\x00x", "b\x00z\x00q"}, depth-1, func(h []string) {
		out = append(out, "agg subkey "+HexListS(h))
	})
	rec(nil, []string{"a", "b", "a\x00-1", "b\x002", "a\x00x", "b\x00"}, cdepth, func(h []string) {
		out = append(out, "agg counter "+HexListS(h))
	})
	preds := []string{"t:0:.:.:1:0", "t:1:.:.:1:0", "t:0:78:.:1:0", "t:0:.:61:1:0", "t:0:78:62:1:0", "t:0:.:.:2:9", "t:0:.:.:0:0", "t:1:79:.:1:0", "t:0:.:.:-9:1"}
	rec(nil, sym4t(sym4), tdepth, func(h []string) {
		ops := make([]string, len(h))
		for i, s := range h {
			ops[i] = "s:" + HexS(s)
		}
		o := "."
		if len(ops) > 0 {
			o = strings.Join(ops, ",")
		}
		out = append(out, "agg table 00 "+o)
		for _, p := range preds {
			if len(ops) > 0 {
				out = append(out, "agg table 00 "+o+","+p+",s:"+HexS("x\x00a"))
			}
		}
	})
	return out
}

// table samples are <col><delim><row>[<delim><inc>]
func sym4t(s []string) []string {
	return []string{"x\x00a", "y\x00a", "x\x00b", "y\x00b\x002"}
}

func c07Stats(cases []string) map[string]int {
	st := map[string]int{}
	for _, c := range cases {
		f := strings.Fields(c)
		if f[0] == "acc" {
			c07AccStats(c, st)
			continue
		}
		if f[0] == "sorted" {
			st["kind.sorted."+f[1]]++
			if f[1] == "counter" && strings.HasPrefix(f[3], "-") {
				st["sorted.negativeCount"]++
			}
			continue
		}
		if f[0] == "gk" || f[0] == "parts" {
			c07GkStats(f, st)
			continue
		}
		if f[0] == "split" {
			st["op.split"]++
			if len(UnHex(f[1])) > 1 {
				st["split.multibyteDelim"]++
			}
			continue
		}
		st["kind."+f[1]]++
		switch f[1] {
		case "counter", "subkey":
			h := UnHexListS(f[2])
			if len(h) > 9 {
				st[f[1]+".long"]++
			}
			for _, e := range h {
				p := strings.Split(e, "\x00")
				want := 2
				if f[1] == "subkey" {
					want = 3
				}
				if len(p) < want {
					st[f[1]+".sample.noIncrement"]++
				} else if _, err := strconv.ParseInt(p[want-1], 10, 64); err != nil {
					st[f[1]+".sample.badIncrement"]++
				} else {
					st[f[1]+".sample.explicitIncrement"]++
				}
				if len(p) > want {
					st[f[1]+".sample.extraFields"]++
				}
				if p[0] == "" {
					st[f[1]+".sample.emptyKey"]++
				}
			}
		case "table":
			if len(UnHex(f[2])) > 1 {
				st["table.multibyteDelim"]++
			}
			if strings.Contains(f[3], "t:") {
				st["table.withTrim"]++
			}
		case "numf", "numfv":
			c07NumFStats(f, st)
		case "numerr":
			c07NumErrStats(f, st)
		case "numh":
			c07NumHStats(f, st)
		case "num":
			if f[2] == "0" {
				st["num.noKeep"]++
			}
			if f[3] == "1" {
				st["num.reverse"]++
			}
			if strings.Contains(","+f[5]+",", ",1,") {
				st["num.quantile1"]++
			}
		}
	}
	return st
}

// c07Corpus repeats corpus/C07/*.case (past failing inputs of the defects fixed in /repo); always run first.
var c07Corpus = []string{
	"split 6162 31616232616233 5",
	"agg table 3a3a s:783a3a613a3a35,s:793a3a61,s:783a3a62",
	"agg num 1 0 31;32;33 1",
	"agg num 1 1 35;2d31;322e35;37 1,0,0.5,0.999",
	"agg table 20 s:312061,s:312062,t:0:.:62:1:0",
	"agg table 00 s:7800610039323233333732303336383534373735383037",
	"agg table 00 s:780061002d39323233333732303336383534373735383038",
	"agg table 20 s:312061,s:322062,t:0:.:.:1:9",
	"agg table 00 s:780061,s:790062,t:0:.:.:1:9223372036854775807,s:780061",
	// group keys with empty values at the first / inner / last position (seeded/C07-groupkey-leading-empty)
	"gk 12 007800;6100;0061;00",
	"gk 123 000078;610000;00;0000",
	"gk 1 -;61",
	"parts 0061",
}

func init() {
	Register("C07", &Prop{Gen: c07Gen, Run: c07Run, Stats: c07Stats, Corpus: append(append(append(append(append([]string{}, c07Corpus...), c07AccCorpus...), c07NumFCorpus...), c07NumErrCorpus...), c07NumHCorpus...)})
}
