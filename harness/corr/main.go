// Command corr is the Go side of the correspondence check between the Lean model
// (driven through lean/Driver.lean) and the real implementation in /repo.
//
//	corr gen <prop> <tier> <seed> <dir>   write <dir>/cases.txt and <dir>/impl.txt
//	corr run <prop>                       read case lines on stdin, print impl answers
//	corr props                            list registered properties
//
// Every case is one line "<prop> <op> <field>..."; every answer is one line.
package main

import (
	"bufio"
	"fmt"
	"os"
	"path/filepath"
	"sort"
	"strconv"
	"strings"
	"time"
)

// Prop is what a property registers.
type Prop struct {
	// Gen produces case lines (without the leading property id).
	Gen func(r *Rand, tier string) []string
	// Run executes the real code on one case (fields after the property id).
	Run func(fields []string) string
	// Corpus lines that always run first (past failures, known boundary inputs).
	Corpus []string
	// Timeout per case (default 5s).
	Timeout time.Duration
	// Stats, if set, is called after generation and returns distribution facts for evidence.
	Stats func(cases []string) map[string]int
}

var props = map[string]*Prop{}

// hangs counts watchdog expiries in this process.
var hangs int

func Register(id string, p *Prop) { props[id] = p }

// runSafe executes the implementation under recover and a watchdog.
func runSafe(p *Prop, fields []string) string {
	to := p.Timeout
	if to == 0 {
		to = 5 * time.Second
	}
	if ms, err := strconv.Atoi(os.Getenv("VERIF_CASE_TIMEOUT_MS")); err == nil && ms > 0 && p.Timeout == 0 {
		to = time.Duration(ms) * time.Millisecond
	}
	if hangs >= 8 {
		// the implementation under test keeps hanging: do not spend the whole budget waiting
		return "hang-skipped"
	}
	ch := make(chan string, 1)
	go func() {
		defer func() {
			if e := recover(); e != nil {
				msg := fmt.Sprint(e)
				msg = strings.ReplaceAll(msg, "\n", " ")
				ch <- "panic " + msg
			}
		}()
		ch <- p.Run(fields)
	}()
	select {
	case s := <-ch:
		return s
	case <-time.After(to):
		hangs++
		return "hang"
	}
}

func main() {
	if len(os.Args) < 2 {
		fmt.Fprintln(os.Stderr, "usage: corr gen|run|props ...")
		os.Exit(2)
	}
	switch os.Args[1] {
	case "props":
		ids := []string{}
		for id := range props {
			ids = append(ids, id)
		}
		sort.Strings(ids)
		fmt.Println(strings.Join(ids, " "))
	case "gen":
		id, tier, seedS, dir := os.Args[2], os.Args[3], os.Args[4], os.Args[5]
		p := props[id]
		if p == nil {
			fmt.Fprintln(os.Stderr, "unknown property", id)
			os.Exit(2)
		}
		seed, _ := strconv.ParseUint(seedS, 10, 64)
		// the splitmix64 state advances by the golden constant per draw, so the initial states of different
		// seeds must NOT lie on one "+golden" lattice (seed k would be seed 1 advanced by k-1 draws and the
		// streams would coincide from the first point where the generators' draw counts line up): scramble
		r := NewRand(mixSeed(seed*0xD1B54A32D192ED03+0x94D049BB133111EB) ^ hashStr(id))
		cases := append([]string{}, p.Corpus...)
		// corpus files: /verif/corpus/<id>/*.case, one case per line
		root := os.Getenv("VERIF_ROOT")
		if root == "" {
			root = "/verif"
		}
		if files, _ := filepath.Glob(filepath.Join(root, "corpus", id, "*.case")); len(files) > 0 {
			sort.Strings(files)
			for _, f := range files {
				b, _ := os.ReadFile(f)
				for _, l := range strings.Split(string(b), "\n") {
					l = strings.TrimSpace(l)
					if l != "" && !strings.HasPrefix(l, "#") {
						cases = append(cases, strings.TrimPrefix(l, id+" "))
					}
				}
			}
		}
		cases = append(cases, p.Gen(r, tier)...)
		os.MkdirAll(dir, 0o755)
		cf, _ := os.Create(filepath.Join(dir, "cases.txt"))
		inf, _ := os.Create(filepath.Join(dir, "impl.txt"))
		cw, iw := bufio.NewWriter(cf), bufio.NewWriter(inf)
		// wall-clock bound of one generation pass: an implementation that got slow or keeps spinning in
		// abandoned (hung) goroutines must not stall the check; the cases not reached are answered
		// "deadline-skipped" (counted as skipped, never as agreement)
		budget := 300
		if tier == "thorough" {
			budget = 2400
		}
		if s, err := strconv.Atoi(os.Getenv("VERIF_GEN_DEADLINE_S")); err == nil && s > 0 {
			budget = s
		}
		deadline := time.Now().Add(time.Duration(budget) * time.Second)
		for _, c := range cases {
			fmt.Fprintf(cw, "%s %s\n", id, c)
			if time.Now().After(deadline) {
				fmt.Fprintln(iw, "deadline-skipped")
				continue
			}
			fmt.Fprintln(iw, runSafe(p, strings.Fields(c)))
		}
		cw.Flush()
		iw.Flush()
		cf.Close()
		inf.Close()
		if p.Stats != nil {
			st := p.Stats(cases)
			keys := []string{}
			for k := range st {
				keys = append(keys, k)
			}
			sort.Strings(keys)
			sf, _ := os.Create(filepath.Join(dir, "stats.txt"))
			for _, k := range keys {
				fmt.Fprintf(sf, "%s %d\n", k, st[k])
			}
			sf.Close()
		}
	case "run":
		id := os.Args[2]
		p := props[id]
		if p == nil {
			fmt.Fprintln(os.Stderr, "unknown property", id)
			os.Exit(2)
		}
		sc := bufio.NewScanner(os.Stdin)
		sc.Buffer(make([]byte, 1<<20), 1<<28)
		w := bufio.NewWriter(os.Stdout)
		for sc.Scan() {
			f := strings.Fields(sc.Text())
			if len(f) > 0 && f[0] == id {
				f = f[1:]
			}
			fmt.Fprintln(w, runSafe(p, f))
			w.Flush()
		}
	default:
		fmt.Fprintln(os.Stderr, "unknown command")
		os.Exit(2)
	}
}

// mixSeed is the 64-bit finaliser of MurmurHash3: a bijection that spreads consecutive seeds over the state space.
func mixSeed(x uint64) uint64 {
	x ^= x >> 33
	x *= 0xff51afd7ed558ccd
	x ^= x >> 33
	x *= 0xc4ceb9fe1a85ec53
	x ^= x >> 33
	return x
}
