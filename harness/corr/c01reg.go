//go:build c01

package main

import (
	"os"
	"strings"
	"time"
)

func c01Run(f []string) string {
	if f[0] == "ptrace" {
		return pipeTraceRun(f)
	}
	if strings.HasPrefix(f[0], "pmut") {
		return "rejected" // the harness damaged this log itself: no run of the real code produces it
	}
	return pipeRun(f)
}

func c01Gen(r *Rand, tier string) []string {
	if os.Getenv("VERIF_C01_ONLY") == "trace" { // stress runs of the trace tie alone
		return append(pipeTraceGen(r, tier), pipeMutGen(r, tier)...)
	}
	out := pipeGen(r, tier)
	out = append(out, pipeTraceGen(r, tier)...)
	return append(out, pipeMutGen(r, tier)...)
}

func c01Stats(cases []string) map[string]int {
	var pipe []string
	st := map[string]int{}
	for _, c := range cases {
		if strings.HasPrefix(c, "ptrace ") {
			traceStats(st, c)
		} else if strings.HasPrefix(c, "pmut") {
			st["trace.damaged."+strings.Fields(c)[0]]++
		} else {
			pipe = append(pipe, c)
		}
	}
	for k, v := range pipeStats(pipe) {
		st[k] = v
	}
	return st
}

func init() {
	Register("C01", &Prop{Gen: c01Gen, Run: c01Run, Stats: c01Stats, Timeout: 60 * time.Second})
}
