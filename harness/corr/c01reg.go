//go:build c01

package main

import (
	"os"
	"strings"
	"time"
)

func c01Run(f []string) string {
	if f[0] == "ptrace" {
		return pipeTraceRun(f)
	}
	return pipeRun(f)
}

func c01Gen(r *Rand, tier string) []string {
	if os.Getenv("VERIF_C01_ONLY") == "trace" { // stress runs of the trace tie alone
		return pipeTraceGen(r, tier)
	}
	out := pipeGen(r, tier)
	return append(out, pipeTraceGen(r, tier)...)
}

func c01Stats(cases []string) map[string]int {
	var pipe []string
	st := map[string]int{}
	for _, c := range cases {
		if strings.HasPrefix(c, "ptrace ") {
			traceStats(st, c)
		} else {
			pipe = append(pipe, c)
		}
	}
	for k, v := range pipeStats(pipe) {
		st[k] = v
	}
	return st
}

func init() {
	Register("C01", &Prop{Gen: c01Gen, Run: c01Run, Stats: c01Stats, Timeout: 60 * time.Second})
}
