//go:build c01

package main

import (
	"fmt"
	"os"
	"strings"
	"time"
	"unicode/utf8"

	"rare/pkg/expressions"
)

// trim <bytes>: strings.TrimSpace byte for byte and expressions.Truthy (twice: the model reports both its
// mirror of the Go code and the `truthy` of the shared expression model).
func trimRun(f []string) string {
	s := string(UnHex(f[1]))
	t := 0
	if expressions.Truthy(s) {
		t = 1
	}
	return fmt.Sprintf("ok %s t=%d m=%d", HexS(strings.TrimSpace(s)), t, t)
}

// trimGen: strings over white space (ASCII and every multi-byte White_Space rune), look-alikes, pieces of
// their encodings, invalid bytes and letters; all strings up to a small length over a dense alphabet.
func trimGen(r *Rand, tier string) []string {
	pieces := []string{" ", "\t", "\n", "\v", "\f", "\r", "\u0085", "\u00a0", "\u1680", "\u2000", "\u2001", "\u2002", "\u2003",
		"\u2004", "\u2005", "\u2006", "\u2007", "\u2008", "\u2009", "\u200a", "\u2028", "\u2029", "\u202f", "\u205f", "\u3000",
		"\u200b", "\u180e", "\ufeff", "\u2060", "\u00a1", "\u0084", "\u167f", "\u1681", "\u1fff", "\u200c", "\u2027", "\u202a", "\u3001", "\u2fff",
		"\x80", "\x85", "\xa0", "\xc2", "\xe1", "\xe2", "\xe3", "\xe2\x80", "\xe1\x9a", "\xe3\x80", "\xc0\xa0", "\xe0\x80\xa0", "\xf0\x80\x80\xa0",
		"\xed\xa0\x80", "\xf4\x90\x80\x80", "\xff", "\xfe", "\xf0\x9f\x98\x80", "\xf0\x9f", "\x00", "\x1c", "\x1f", "\x7f",
		"a", "b", "0", "é", "\ufffd", "\xef\xbf", "\xbd"}
	n := 3000
	if tier == "thorough" {
		n = 60000
	}
	var out []string
	for i := 0; i < n; i++ {
		k := Pick(r, []int{0, 1, 1, 2, 2, 3, 3, 4, 5, 6, 9})
		var sb strings.Builder
		for j := 0; j < k; j++ {
			if r.Chance(1, 12) {
				sb.WriteByte(byte(r.Intn(256)))
			} else {
				sb.WriteString(Pick(r, pieces))
			}
		}
		out = append(out, "trim "+HexS(sb.String()))
	}
	// exhaustive: every string of length <= L over an alphabet of bytes that make up the spaces' encodings
	alpha := []byte{' ', '\t', 'a', 0x80, 0x85, 0xa0, 0xc2, 0xe2, 0xe3, 0x9a, 0xe1, 0x81, 0x9f, 0xa8}
	L := 3
	if tier == "thorough" {
		L = 4
	}
	var rec func(cur []byte)
	rec = func(cur []byte) {
		out = append(out, "trim "+Hex(cur))
		if len(cur) == L {
			return
		}
		for _, b := range alpha {
			rec(append(append([]byte{}, cur...), b))
		}
	}
	rec(nil)
	return out
}

func c01Run(f []string) string {
	if f[0] == "ptrace" {
		return pipeTraceRun(f)
	}
	if f[0] == "trim" {
		return trimRun(f)
	}
	switch f[0] {
	case "summary":
		return summaryRun(f)
	case "hui":
		return huiRun(f)
	case "flags":
		return flagsRun(f)
	case "filtern":
		return filterRun(f)
	case "pipex":
		return pipexRun(f)
	case "rdopen":
		return rdopenRun(f)
	}
	if strings.HasPrefix(f[0], "pmut") {
		return "rejected" // the harness damaged this log itself: no run of the real code produces it
	}
	return pipeRun(f)
}

func c01Gen(r *Rand, tier string) []string {
	if os.Getenv("VERIF_C01_ONLY") == "trace" { // stress runs of the trace tie alone
		return append(pipeTraceGen(r, tier), pipeMutGen(r, tier)...)
	}
	out := pipeGen(r, tier)
	out = append(out, pipeTraceGen(r, tier)...)
	out = append(out, pipeMutGen(r, tier)...)
	out = append(out, trimGen(NewRand(r.U64()), tier)...)
	out = append(out, cliGen(NewRand(r.U64()), tier)...)
	out = append(out, pipexGen(NewRand(r.U64()), tier)...)
	return append(out, rdopenGen(NewRand(r.U64()), tier)...)
}

func c01Stats(cases []string) map[string]int {
	var pipe []string
	st := map[string]int{}
	for _, c := range cases {
		if strings.HasPrefix(c, "ptrace ") {
			traceStats(st, c)
		} else if strings.HasPrefix(c, "pmut") {
			st["trace.damaged."+strings.Fields(c)[0]]++
		} else if strings.HasPrefix(c, "trim ") {
			st["trim.cases"]++
			if b := UnHex(strings.Fields(c)[1]); !utf8.Valid(b) {
				st["trim.invalid-utf8"]++
			}
		} else if strings.HasPrefix(c, "pipex ") {
			pipexStats(st, c)
		} else if strings.HasPrefix(c, "rdopen ") {
			st["rdopen.cases"]++
		} else if f0 := strings.Fields(c)[0]; f0 == "summary" || f0 == "hui" || f0 == "flags" || f0 == "filtern" {
			cliStats(st, c)
		} else {
			pipe = append(pipe, c)
		}
	}
	for k, v := range pipeStats(pipe) {
		st[k] = v
	}
	steerMu.Lock()
	for k, v := range steerCounts { // what the schedule steering of the traced runs did in this process
		st[k] += v
	}
	steerMu.Unlock()
	return st
}

func init() {
	Register("C01", &Prop{Gen: c01Gen, Run: c01Run, Stats: c01Stats, Timeout: 60 * time.Second})
}
