//go:build c01

package main

import "time"

func init() {
	Register("C01", &Prop{Gen: pipeGen, Run: pipeRun, Stats: pipeStats, Timeout: 60 * time.Second})
}
