//go:build c14

package main

// C14, the numbers of the heatmap legend DIRECTLY: termscaler.Scaler.ScaleKeys(buckets, min, max).
//
//	skeys <sc> <buckets> <min> <max>
//
// Linear scale: the answer is the key list itself, and the model answers with `scaleKeys` on the software binary64
// (`f64Arith`) – the very definition the theorems legend_linear_f64 / legend_linear_f64_span_boundary /
// legend_linear_f64_degenerate / legend_linear_f64_boundary are about.  The generator aims at the edge of the class of legend_linear_f64: spans around
// floor(2^53/5) (the widest one whose products span*i are exact), ends around +-2^53 with a small span, ranges inside
// +-2^49, degenerate and reversed ranges, the whole int64 range, other bucket counts (1 divides by float64(0)).
// Log scales: math.Pow with a fractional exponent goes through amd64's assembly Exp, which is not ported – the harness
// checks what legend_keys_shape proves (1..buckets keys, no two neighbours equal) and the model answers `ok shape`.

import (
	"fmt"
	"math"
	"strconv"
	"strings"
)

func c14RunSkeys(f []string) string {
	sc := c14Scaler(f[1])
	nb := c14I64(f[2])
	if nb < 1 || nb > 64 {
		return "bad-case buckets" // make([]int64, 0, buckets): the renderers only ever pass 6
	}
	keys := sc.ScaleKeys(nb, c14I64(f[3]), c14I64(f[4]))
	if f[1] != "linear" {
		ok := len(keys) >= 1 && int64(len(keys)) <= nb
		for i := 1; i < len(keys); i++ {
			if keys[i] == keys[i-1] {
				ok = false
			}
		}
		if ok {
			return "ok shape"
		}
		return fmt.Sprintf("ok shape-violated %v", keys)
	}
	ss := make([]string, len(keys))
	for i, k := range keys {
		ss[i] = strconv.FormatInt(k, 10)
	}
	return "ok " + strings.Join(ss, ",")
}

func c14GenSkeys(r *Rand) string {
	const p53 = int64(1) << 53
	lim := p53 / 5
	var mn, mx int64
	switch r.Intn(9) {
	case 0:
		mn, mx = c14Val(r), c14Val(r)
	case 1: // the span at the edge of the exact class
		mn = int64(r.Range(-5, 5))
		if r.Bool() {
			mn = -(lim / 2) + int64(r.Range(-5, 5))
		}
		mx = mn + lim + int64(r.Range(-6, 6))
	case 2: // ends around +-2^53, small span
		mn = p53 - int64(r.Intn(40))
		if r.Bool() {
			mn = -p53 - 3 + int64(r.Intn(40))
		}
		mx = mn + int64(r.Intn(30))
	case 3: // inside +-2^49
		mn = int64(r.U64()>>14) - (1 << 49)
		mx = int64(r.U64()>>14) - (1 << 49)
	case 4: // small
		mn = int64(r.Range(-20, 20))
		mx = mn + int64(r.Intn(12))
	case 5:
		_, mn, mx = c14F64Triple(r)
	case 6:
		_, mn, mx = c14Triple(r)
	case 7: // wide spans between 2^50 and 2^63
		mn = int64(r.Range(-3, 3))
		mx = mn + int64(r.U64()>>uint(1+r.Intn(13)))
	default:
		mn = int64(r.U64() >> uint(r.Intn(64)))
		if r.Bool() {
			mn = -mn
		}
		mx = int64(uint64(mn) + r.U64()>>uint(r.Intn(64)))
	}
	nb := 6
	if r.Chance(1, 5) {
		nb = 1 + r.Intn(10)
	}
	sc := "linear"
	if r.Chance(1, 5) {
		sc = Pick(r, c14Scalers)
	}
	return fmt.Sprintf("skeys %s %d %d %d", sc, nb, mn, mx)
}

// the witnesses of legend_linear_f64_span_boundary and legend_linear_f64_boundary, and the corners
func c14SkeysCorpus() []string {
	return []string{
		"skeys linear 6 0 1801439850948198",
		"skeys linear 6 0 1801439850948201",
		"skeys linear 6 9007199254740982 9007199254740992",
		"skeys linear 6 -9007199254740992 -9007199254740985",
		"skeys linear 6 0 10",
		"skeys linear 6 0 3",
		"skeys linear 6 3 3",
		"skeys linear 6 -7 9007199254740993",
		"skeys linear 6 0 9223372036854775295",
		"skeys linear 6 0 9223372036854775296",
		fmt.Sprintf("skeys linear 6 %d %d", int64(math.MinInt64), int64(math.MaxInt64)),
		fmt.Sprintf("skeys linear 6 %d %d", int64(math.MaxInt64), int64(math.MaxInt64)),
		// legend_linear_f64_degenerate / _boundary
		"skeys linear 6 9007199254740992 9007199254740992",
		"skeys linear 6 9007199254740991 7",
		"skeys linear 6 -9007199254740992 -9007199254740992",
		"skeys linear 6 5 -5",
		"skeys linear 1 0 10",
		"skeys linear 2 5 -5",
		"skeys log2 6 0 1024",
		"skeys log10 6 1 1000000",
	}
}
