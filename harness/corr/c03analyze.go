//go:build c03

package main

// Correspondence for C03, `rare analyze` end to end IN PROCESS (see c03reduce.go for the runner):
//
//	analyze <flags> <quantiles> <nomatch> <samples>     flags: bit 0 = --extra, bit 1 = --reverse, bit 2 = pass the -q list
//	analyze-spec <samples>                             the real aggregator's printed mean vs the SPEC's (exact mean)
//
// Every sample `s` becomes the line `v=s`; the extraction is `-m '^v=(.*)$' -e '{1}'`.  One worker and one reader,
// so the sample history is the file order and the model (`Rare.C03.analyzeRun` over the software binary64 model
// of MatchNumerical) must reproduce the printed text EXACTLY, last digit of Mean and StdDev included.

import (
	"fmt"
	"os"
	"path/filepath"
	"strconv"
	"strings"

	"rare/pkg/aggregation"
)

func c03AnalyzeRun(f []string) string {
	flags, _ := strconv.Atoi(f[1])
	qs := UnHexListS(f[2])
	nomatch, _ := strconv.Atoi(f[3])
	samples := UnHexListS(f[4])
	dir := c03TempDir()
	in := filepath.Join(dir, "an.log")
	var sb strings.Builder
	for i := 0; i < nomatch; i++ {
		sb.WriteString("nothing\n")
	}
	for _, s := range samples {
		sb.WriteString("v=" + s + "\n")
	}
	if err := os.WriteFile(in, []byte(sb.String()), 0o644); err != nil {
		return "err " + err.Error()
	}
	args := []string{"analyze", "-m", "^v=(.*)$", "-e", "{1}", "--snapshot", "--workers", "1", "--readers", "1",
		"--batch", strconv.Itoa(1 + len(samples)%4)}
	if flags&1 != 0 {
		args = append(args, "-x")
	}
	if flags&2 != 0 {
		args = append(args, "-r")
	}
	if flags&4 != 0 {
		for _, q := range qs {
			args = append(args, "-q", q)
		}
	}
	args = append(args, in)
	code, stdout, fatal := c03RunCLI(args)
	if fatal {
		return fmt.Sprintf("fatal %d", code)
	}
	lines := strings.Split(strings.TrimRight(stdout, "\n"), "\n")
	if len(lines) > 0 { // the batcher's byte / rate status
		lines = lines[:len(lines)-1]
	}
	return fmt.Sprintf("ok %d %s", code, HexS(strings.Join(lines, "\n")))
}

func c03AnalyzeSpecRun(f []string) string {
	a := aggregation.NewNumericalAggregator(&aggregation.NumericalConfig{})
	for _, s := range UnHexListS(f[1]) {
		a.Sample(s)
	}
	return "ok " + HexS(strconv.FormatFloat(a.Mean(), 'f', 4, 64))
}

// ---------------------------------------------------------------- generator

func c03Num(r *Rand, allowOdd bool) string {
	switch r.Intn(14) {
	case 0:
		if allowOdd {
			return Pick(r, []string{"nan", "NaN", "-0", "inf", "-Inf", "+Inf", "Infinity", "0x1p-2", "1_000", "1e400", "-1e400", "4.9e-324", "1e-400"})
		}
		return Pick(r, []string{"0x1p-2", "1e300", "-1e300", "4.9e-324", "1e22", "123456789012345678"})
	case 1:
		return Pick(r, []string{"x", "1,5", "--1", "1e", ".", "0x", "１"})
	case 2:
		return Pick(r, []string{"0.0001", "0.0002", "0.0003", "2", "3", "0.3", "0.25", "0.05", "0.15", "7", "2.5", "100"})
	case 3:
		return Pick(r, []string{"1000000000000.3", "1000000000000.1", "5", "1700000000123", "1700000000456", "9007199254740993"})
	case 4:
		return Pick(r, []string{"0", "0.0", "1e0", "+1", "1.", ".5", "5e-1", "1E2"})
	case 5, 6:
		return strconv.FormatFloat(float64(r.Range(-5000, 5000))/Pick(r, []float64{1, 10, 100, 1000, 8}), 'f', -1, 64)
	default:
		return strconv.Itoa(r.Range(-30, 300))
	}
}

func c03AnalyzeCase(r *Rand) string {
	flags := 0
	extra := r.Chance(1, 2)
	if extra {
		flags |= 1
	}
	if r.Chance(1, 3) {
		flags |= 2
	}
	qs := []string{}
	if r.Chance(1, 3) {
		flags |= 4
		for i, n := 0, r.Range(0, 3); i < n; i++ {
			qs = append(qs, Pick(r, []string{"50", "100", "0", "99.9", "25", "-5", "150", "1e3", "12.5", "0x10", "33.333", "nan", "inf"}))
		}
		if r.Chance(1, 15) {
			qs = append(qs, Pick(r, []string{"x", "", "1e999"})) // not a number: Fatalf
		}
	}
	n := r.Intn(9)
	if r.Chance(1, 8) {
		n = r.Range(9, 60)
	}
	pool := make([]string, r.Range(1, 6))
	for i := range pool {
		pool[i] = c03Num(r, !extra) // NaN and -0 have no unique place in Go's (unstable) sort
	}
	samples := make([]string, n)
	for i := range samples {
		if r.Chance(1, 3) {
			samples[i] = c03Num(r, !extra)
		} else {
			samples[i] = Pick(r, pool)
		}
	}
	nomatch := 0
	if r.Chance(1, 3) {
		nomatch = r.Range(1, 3)
	}
	return fmt.Sprintf("analyze %d %s %d %s", flags, HexListS(qs), nomatch, HexListS(samples))
}

// c03AnalyzeSpecCase: histories for which Welford's recurrence is exact in binary64 – one or two eighths, or any
// number of copies of one value (every step adds 0/n): the printed mean must then be the rendering of the exact
// mean.  (With three or more different samples the divisions by 3, 5, 6, 7 round, and F26 appears: e.g. eight
// eighths whose exact mean 7.28125 is a tie print 7.2813.)
func c03AnalyzeSpecCase(r *Rand) string {
	n := Pick(r, []int{1, 2, 2, 2})
	samples := make([]string, n)
	for i := range samples {
		samples[i] = strconv.FormatFloat(float64(r.Range(-800, 800))/8, 'f', -1, 64)
	}
	if r.Chance(1, 4) {
		v := c03Num(r, false)
		samples = samples[:0]
		for i, k := 0, r.Range(1, 9); i < k; i++ {
			samples = append(samples, v)
		}
	}
	return "analyze-spec " + HexListS(samples)
}

var c03AnalyzeCorpus = []string{
	// F26: the same two samples in two orders print Mean 1.0000 / 1.0001 (the model follows the code; see analyze-spec)
	"analyze 0 . 0 32;302e30303031",
	"analyze 0 . 0 302e30303031;32",
	"analyze 1 . 0 313030303030303030303030302e33;313030303030303030303030302e31;35",
	"analyze 1 . 0 35;313030303030303030303030302e31;313030303030303030303030302e33",
	// no sample at all: exit status 1, the start values of Min / Max are printed
	"analyze 1 . 2 .",
	// the spec's mean for the F26 witness in the order that agrees with the code (the other order is the known finding)
	"analyze-spec 302e30303031;32",
}
