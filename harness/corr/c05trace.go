//go:build c05

package main

// C05 trace inclusion: the REAL batcher + extractor + helpers.RunAggregationLoop with the event hooks
// recording; aggregator (a real MatchCounter behind a logging wrapper) and render callback are harness
// code and log `sample` / `render.begin` / `render.end` themselves.  See c01trace.go for the case format.

import (
	"fmt"
	"runtime"
	"strings"
	"sync/atomic"
	"time"

	"rare/cmd/helpers"
	"rare/pkg/aggregation"
	"rare/pkg/extractor"
)

type tracedCounter struct {
	*aggregation.MatchCounter
	c       traceCfg
	samples int
}

func busy(d time.Duration) {
	for t0 := time.Now(); time.Since(t0) < d; {
	}
}

func (w *tracedCounter) Sample(ele string) {
	if w.c.sampleUs > 0 {
		d := time.Duration(w.c.sampleUs) * time.Microsecond
		if w.c.spin == 1 {
			busy(d)
		} else {
			time.Sleep(d)
		}
	}
	w.MatchCounter.Sample(ele)
	w.samples++
	extractor.VerifTraceAppend("sample", ele, 0, 0)
}

// runAggTraced runs the real pipeline and the real aggregation loop with recording on.
func runAggTraced(c traceCfg) tracedResult {
	traceMu.Lock()
	defer traceMu.Unlock()
	if c.procs > 0 {
		defer runtime.GOMAXPROCS(runtime.GOMAXPROCS(c.procs))
	}
	if j := c05Jitter; j != 0 { // schedule perturbation at every trace point (hook VerifTraceSetProbe)
		extractor.VerifTraceSetProbe(jitterProbe(j))
		defer extractor.VerifTraceSetProbe(nil)
	}
	extractor.VerifTraceStart()
	b, cleanup := openBatcher(c)
	ig, _ := extractor.NewIgnoreExpressions("{1}")
	ext, err := extractor.New(b.BatchChan(), &extractor.Config{Matcher: harnessMatcher{}, Extract: "{0}", Workers: c.workers, Ignore: ig})
	if err != nil {
		extractor.VerifTraceStop()
		panic(err)
	}
	w := &tracedCounter{MatchCounter: aggregation.NewCounter(), c: c}
	renders, last := 0, int64(0)
	render := func() {
		// displayed counts first, matched total afterwards: the status line is computed inside the render
		var sum int64
		for _, it := range w.MatchCounter.Items() {
			sum += it.Item.Count()
		}
		matched := ext.MatchedLines()
		extractor.VerifTraceAppend("render.begin", "", matched, uint64(sum))
		if c.renderMs > 0 {
			time.Sleep(time.Duration(c.renderMs) * time.Millisecond)
		}
		renders++
		last = sum
		extractor.VerifTraceAppend("render.end", "", 0, 0)
	}
	if c.startMs > 0 {
		time.Sleep(time.Duration(c.startMs) * time.Millisecond)
	}
	helpers.RunAggregationLoop(ext, w, render)
	waitReadersEnded(c)
	waitEvent("t.done") // the ticker goroutine logs this after the hand-shake, possibly after the loop returned
	evs := extractor.VerifTraceStop()
	sum := fmt.Sprintf("%d.%d.%d.%d.%d", ext.ReadLines(), ext.MatchedLines(), ext.IgnoredLines(), w.samples, b.ReadErrors())
	sum += fmt.Sprintf("-%d-%d", renders, last)
	cleanup()
	return tracedResult{evs: evs, summary: sum}
}

// c05Jitter != 0: the next traced runs yield / pause at the trace points – the points that are transitions of the
// models – following a pseudo-random sequence seeded with it, so that the logs the trace machines judge come from
// interleavings the plain scheduler practically never produces (a reader parked between its last send and its exit
// block, a worker between counting and sending, main between receive and lock, the ticker between tick and lock).
var c05Jitter uint64
var c05JitterRuns int

func jitterProbe(seed uint64) func(string, string) {
	var ctr uint64
	return func(ev string, s string) {
		x := mixSeed(seed + atomic.AddUint64(&ctr, 1)*0x9e3779b97f4a7c15)
		switch {
		case x%16 == 0:
			time.Sleep(time.Duration(20+x>>8%400) * time.Microsecond)
		case x%4 == 1:
			runtime.Gosched()
		}
	}
}

func aggAnswer(summary string) string {
	p := strings.Split(summary, "-")
	if len(p) != 3 {
		return "bad-summary"
	}
	return fmt.Sprintf("ok accepted final=%s renders=%s last=%s", p[0], p[1], p[2])
}

func aggTraceCase(c traceCfg) string {
	r := runAggTraced(c)
	blob := c.cfgString() + "/" + encodeInputs(c.inputs) + "/" + r.summary + "/" + encodeTrace(r.evs, srcIndex)
	cs := "atrace " + blob
	traceAnswers[cs] = aggAnswer(r.summary)
	return cs
}

// aggTraceRun: see pipeTraceRun.  On a replay the counters (not the number of renders, which is timing)
// of a fresh run must equal the recorded ones.
func aggTraceRun(f []string) string {
	if a, ok := traceAnswers[strings.Join(f, " ")]; ok {
		return a
	}
	parts := strings.Split(f[1], "/")
	if len(parts) != 4 {
		return "bad-blob"
	}
	c := parseTraceCfg(parts[0], parts[1])
	r := runAggTraced(c)
	if strings.Split(r.summary, "-")[0] != strings.Split(parts[2], "-")[0] {
		return "DIFF rerun-counters " + r.summary + " recorded " + parts[2]
	}
	return aggAnswer(parts[2])
}

func slowScript(r *Rand, total, chunks int, sleeps []int) string {
	var steps []string
	per := total/chunks + 1
	for k := 0; k < chunks; k++ {
		st := fmt.Sprintf("%d:n", per)
		if len(sleeps) > 0 {
			st += fmt.Sprintf(":%d", Pick(r, sleeps))
		}
		steps = append(steps, st)
	}
	return strings.Join(steps, ",")
}

func aggTraceGen(r *Rand, tier string) []string {
	thorough := tier == "thorough"
	var out []string
	mk := func(c traceCfg) { out = append(out, aggTraceCase(c)) }
	base := func(lines int) traceCfg {
		c := traceCfg{mode: "r", missing: -1, script: ".", flushMs: 2, readers: 1}
		c.inputs = [][]byte{genLinesSmallKeys(r, lines)}
		c.batch = Pick(r, []int{1, 2, 7, 1000})
		c.workers = Pick(r, []int{1, 2, 4, 8})
		c.buffer = Pick(r, []int{1, 2, 4})
		c.procs = Pick(r, []int{0, 1, 2, 16})
		return c
	}
	// (c) slow Sample: ticks land after the last line was read and before the last batch was sampled; every
	// one of those renders, and the final one, must show exactly what has been sampled
	n := 2
	if thorough {
		n = 12
	}
	for i := 0; i < n; i++ {
		c := base(Pick(r, []int{14, 18}))
		c.batch, c.workers, c.buffer = 1, Pick(r, []int{1, 2}), 1
		c.sampleUs = Pick(r, []int{30000, 45000})
		mk(c)
	}
	// (a) slow / stalled readers: the 100ms ticker renders while input is still arriving
	n = 5
	if thorough {
		n = 100
	}
	for i := 0; i < n; i++ {
		c := base(Pick(r, []int{0, 1, 5, 40, 200, 600}))
		if r.Chance(2, 3) {
			c.script = slowScript(r, len(c.inputs[0]), Pick(r, []int{1, 3, 8}), []int{5, 20, 40, 120})
		}
		if r.Chance(1, 4) {
			c.sampleUs = Pick(r, []int{20, 200})
		}
		mk(c)
	}
	// files through the semaphore into the loop
	n = 2
	if thorough {
		n = 30
	}
	for i := 0; i < n; i++ {
		c := base(0)
		c.mode, c.flushMs = "f", 0
		c.inputs = nil
		for k, nin := 0, Pick(r, []int{1, 3, 9}); k < nin; k++ {
			c.inputs = append(c.inputs, genLinesSmallKeys(r, Pick(r, []int{0, 2, 30})))
		}
		c.readers = Pick(r, []int{1, 2, 4})
		mk(c)
	}
	// (b) slow render, the input ends while the periodic render is running: the final render must wait
	n = 2
	if thorough {
		n = 20
	}
	for i := 0; i < n; i++ {
		c := base(Pick(r, []int{3, 20}))
		c.batch, c.buffer, c.workers = 1, 1, Pick(r, []int{1, 2})
		c.script = fmt.Sprintf("%d:n,0:n:%d", len(c.inputs[0])+1, Pick(r, []int{103, 108, 115, 125}))
		c.renderMs = Pick(r, []int{50, 70})
		mk(c)
	}
	// (e) the same shapes under schedule perturbation at the trace points
	n = 4
	if thorough {
		n = 60
	}
	for i := 0; i < n; i++ {
		c := base(Pick(r, []int{5, 40, 120}))
		switch i % 4 {
		case 0:
			c.script = slowScript(r, len(c.inputs[0]), Pick(r, []int{1, 3, 8}), []int{5, 20, 40})
		case 1, 3: // files: the reader exit block (sema release, status bookkeeping, wg.Done) against wg.Wait / close
			c.mode, c.flushMs = "f", 0
			c.inputs = nil
			for k, nin := 0, Pick(r, []int{2, 5, 9}); k < nin; k++ {
				c.inputs = append(c.inputs, genLinesSmallKeys(r, Pick(r, []int{0, 2, 30})))
			}
			c.readers = Pick(r, []int{1, 2, 4})
		default:
			c.sampleUs = Pick(r, []int{0, 200, 2000})
		}
		c05Jitter = uint64(r.Intn(1<<30)) + 1
		c05JitterRuns++
		mk(c)
		c05Jitter = 0
	}
	// (d) back-pressure: the loop starts late (readChan full, workers parked in their send) and then drains
	// with a busy consumer, also on one P; every render's matched total must cover the displayed counts
	n = 3
	if thorough {
		n = 40
	}
	for i := 0; i < n; i++ {
		c := base(Pick(r, []int{30, 60, 120}))
		c.batch, c.buffer = Pick(r, []int{1, 2}), Pick(r, []int{1, 4})
		c.workers = Pick(r, []int{2, 4, 8})
		c.procs = Pick(r, []int{1, 1, 2, 0})
		c.startMs = 30
		c.sampleUs, c.spin = Pick(r, []int{1500, 4000}), Pick(r, []int{0, 1, 1})
		mk(c)
	}
	return out
}

// waitEvent waits (briefly) until an event of the given name is in the log.
func waitEvent(name string) {
	deadline := time.Now().Add(2 * time.Second)
	for time.Now().Before(deadline) {
		for _, e := range extractor.VerifTracePeek() {
			if e.Ev == name {
				return
			}
		}
		time.Sleep(200 * time.Microsecond)
	}
}
