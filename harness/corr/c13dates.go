//go:build c13

package main

import (
	"fmt"
	"strconv"
	"strings"
	"time"

	"github.com/araddon/dateparse"
)

// Round 4: `time.Parse` is modelled in Lean (Rare/Model/C13Date.lean over the layout tokenizer / parser of
// Rare/Model/C18.lean).  The d-ops carry the LAYOUT dateparse.ParseFormat inferred per key (still an oracle)
// and the model computes the instants itself; op `tparse` compares the modelled time.Parse with the real one.
//
//   tparse   <layout> <keys>                       per key `x` (error) | instant in ns
//   dsort    <name> <keys> <values> <perm> <dl>    like sort, <dl> = hex list: per key the layout (`-` = ParseFormat error)
//   dsortspec, dagg                                 like sortspec / agg
//   dcmpseq  <name> <keys> <values> <pairs> <dl>
//   daxioms  <name> <keys> <values> <dl>
//
// The model of time.Parse assumes time.Local = UTC without named zones (zone abbreviations other than UTC / GMT±h
// then get offset 0); the harness pins that.

func init() {
	time.Local = time.UTC
}

func c13Layouts(keys []string) string {
	if len(keys) == 0 {
		return "."
	}
	out := make([]string, len(keys))
	for i, k := range keys {
		f, err := dateparse.ParseFormat(k)
		if err != nil || f == "" {
			out[i] = "-"
		} else {
			out[i] = HexS(f)
		}
	}
	return strings.Join(out, ";")
}

func c13TParse(layout string, keys []string) string {
	if len(keys) == 0 {
		return "ok ."
	}
	cells := make([]string, len(keys))
	for i, k := range keys {
		t, err := time.Parse(layout, k)
		if err != nil {
			cells[i] = "x"
		} else {
			cells[i] = instant(t)
		}
	}
	return "ok " + strings.Join(cells, ",")
}

// ---------------------------------------------------------------- generator: keys denoting the same instant

// layouts with a zone (numeric offsets in every spelling dateparse produces, and abbreviations)
var c13ZoneLayouts = []string{
	"2006-01-02T15:04:05-0700", "2006-01-02T15:04:05-07:00", "2006-01-02 15:04:05 -0700", "2006-01-02 15:04:05-07:00",
	"02/Jan/2006:15:04:05 -0700", "Mon, 02 Jan 2006 15:04:05 -0700", "2006-01-02T15:04:05.000-0700", "2006-01-02 15:04:05 -07:00",
	"2006-01-02T15:04:05Z07:00", "2006-01-02 15:04:05 MST", "Mon, 02 Jan 2006 15:04:05 MST", "2006-01-02 15:04:05 -0700 MST",
}

// offsets in seconds: whole hours, half and quarter hours, the extremes, one with seconds (not printable by -0700)
var c13Offsets = []int{0, 0, 3600, 7200, -18000, 19800, -12600, 20700, 50400, -43200, 45900, -3600, 32400, 86340, -86340}

var c13Abbrs = []string{"UTC", "MST", "PST", "CEST", "EST", "GMT", "GMT+2", "GMT-5", "WITA", "ChST", "AEST"}

// c13ZonePool: 1-3 instants close to each other (so that wall-clock order and instant order differ), each written
// in 1-4 zones with ONE layout; sometimes a date-only key, a respelling or a stranger joins.
func c13ZonePool(r *Rand, n int) []string {
	layout := Pick(r, c13ZoneLayouts)
	base := time.Date(r.Range(1999, 2030), time.Month(r.Range(1, 12)), r.Range(1, 28), r.Intn(24), r.Intn(60), r.Intn(60), 0, time.UTC)
	if r.Chance(1, 4) {
		base = time.Date(2022, 9, 3, 10, 0, 0, 0, time.UTC)
	}
	if r.Chance(1, 10) { // around year boundaries / the epoch
		base = Pick(r, []time.Time{time.Date(1970, 1, 1, 0, 0, 0, 0, time.UTC), time.Date(2000, 1, 1, 0, 30, 0, 0, time.UTC),
			time.Date(1999, 12, 31, 23, 59, 59, 0, time.UTC), time.Date(2024, 2, 29, 12, 0, 0, 0, time.UTC), time.Date(1, 1, 1, 0, 0, 0, 0, time.UTC)})
	}
	instants := []time.Time{base}
	for k := r.Intn(3); k > 0; k-- {
		instants = append(instants, base.Add(time.Duration(Pick(r, []int{1, -1, 60, 3600, -3600, 1800, 86400, -7200, 59}))*time.Second))
	}
	seen := map[string]bool{}
	var keys []string
	add := func(k string) {
		if !seen[k] && len(keys) < n {
			seen[k] = true
			keys = append(keys, k)
		}
	}
	for tries := 0; len(keys) < n && tries < 6*n+6; tries++ {
		t := Pick(r, instants)
		if strings.Contains(layout, "MST") && !strings.Contains(layout, "-0700") {
			// abbreviations: the wall clock is kept, the name varies (offset 0 for every unknown name, GMT±h shifts)
			k := t.Format(strings.Replace(layout, "MST", "'Z'", 1))
			add(strings.Replace(k, "'Z'", Pick(r, c13Abbrs), 1))
			continue
		}
		off := Pick(r, c13Offsets)
		k := t.In(time.FixedZone("", off)).Format(layout)
		if strings.HasSuffix(layout, " MST") { // "-0700 MST": Format printed the offset again as the name
			k = k[:strings.LastIndex(k, " ")] + " " + Pick(r, c13Abbrs)
		}
		add(k)
	}
	if r.Chance(1, 5) {
		add(base.Format("2006-01-02"))
	}
	if r.Chance(1, 6) {
		add(Pick(r, append(append([]string{}, c13Words...), "2022-09-03T10:00:00", "2022-09-03T10:00:00Z")))
	}
	return keys
}

// c13Respell: other spellings of the same instant that ONE layout accepts: a fraction the layout does not mention,
// month / weekday names in another case, one- or two-digit fields of unpadded layouts.
func c13RespellPool(r *Rand, n int) []string {
	layout := Pick(r, []string{"2006-01-02 15:04:05", "2006-01-02T15:04:05", "Jan 2, 2006", "2 Jan 2006 15:04:05", "1/2/2006", "1/2/2006 15:04:05",
		"January 2, 2006", "Mon Jan 2 15:04:05 2006", "2006-1-2", "2006-01-02T15:04:05-0700", "02 Jan 2006", "Jan 2 2006 15:04:05"})
	seen := map[string]bool{}
	var keys []string
	base := time.Date(r.Range(2019, 2024), time.Month(r.Range(1, 12)), r.Range(1, 28), r.Intn(24), r.Intn(60), r.Intn(60), 0, time.UTC)
	for tries := 0; len(keys) < n && tries < 8*n+8; tries++ {
		t := base
		if r.Chance(1, 3) {
			t = base.Add(time.Duration(Pick(r, []int{1, -1, 86400, -86400, 3600})) * time.Second)
		}
		k := t.Format(layout)
		switch r.Intn(6) {
		case 0:
			if i := strings.Index(k, t.Format("15:04:05")); i >= 0 && strings.Contains(layout, "15:04:05") {
				j := i + 8
				k = k[:j] + Pick(r, []string{".0", ".00", ".000", ",0", ".000000", ".000000000", ".5", ".50", ",500"}) + k[j:]
			}
		case 1:
			k = strings.ToUpper(k)
		case 2:
			k = strings.ToLower(k)
		case 3:
			// zero-pad the fields of an unpadded layout
			k = t.Format(strings.NewReplacer("1/2/", "01/02/", "-1-2", "-01-02", "Jan 2", "Jan 02", "2 Jan", "02 Jan").Replace(layout))
		}
		if !seen[k] {
			seen[k] = true
			keys = append(keys, k)
		}
	}
	return keys
}

// ---------------------------------------------------------------- generator: ties in the other modes

// numbers that strconv.ParseFloat rounds to the same float64 (integers beyond 2^53, long fractions, exponent spellings,
// hex), signed zeros: `numeric` must break these ties by text
func c13NumTiePool(r *Rand, n int) []string {
	groups := [][]string{
		{"9007199254740992", "9007199254740993", "9007199254740992.0", "9.007199254740992e15", "0x1p53", "9007199254740992.4"},
		{"18014398509481984", "18014398509481985", "18014398509481983", "1.8014398509481984e16", "0x1p54"},
		{"1000", "1e3", "1E3", "1000.0", "+1000", "01000", "1_000", "0x3e8p0", "0x3E8P0", "1e+3", "10e2", "0.1e4"},
		{"0", "-0", "+0", "0.0", "-0.0", "0e0", "0x0p0", "-0x0p0", "1e-400", "-1e-400", "00", ".0", "0."},
		{"0.1", "0.10", "1e-1", "0.1000000000000000055511151231257827", "0.10000000000000000555", ".1", "+.1"},
		{"123456789012345678901234567890", "123456789012345678901234567891", "1.2345678901234568e29", "123456789012345677877719597056"},
		{"inf", "Inf", "+inf", "INF", "infinity", "Infinity", "+Infinity", "1e400"},
		{"-inf", "-Inf", "-INF", "-infinity", "-1e400"},
		{"255", "0xffp0", "0xFFp0", "0XFFP0", "0xff", "2.55e2", "255.", "0x1.fep7"},
		{"9223372036854775807", "9223372036854775808", "9223372036854775806", "9.223372036854775807e18", "0x1p63", "9223372036854775809"},
		{"1.7976931348623157e308", "1.7976931348623158e308", "179769313486231570000000000000000000000000000000000000000000000000000000000000000000000000000000000000000000000000000000000000000000000000000000000000000000000000000000000000000000000000000000000000000000000000000000000000000000000000000000000000000000000000000000000000000000000000000000000000000000000"},
		{"4.9e-324", "5e-324", "4.9406564584124654e-324", "3e-324", "0x1p-1074"},
	}
	seen := map[string]bool{}
	var keys []string
	g := Pick(r, groups)
	for tries := 0; len(keys) < n && tries < 8*n+8; tries++ {
		var k string
		switch r.Intn(8) {
		case 0:
			g = Pick(r, groups)
			k = Pick(r, g)
		case 1:
			k = c13NumKey(r)
		case 2:
			k = "-" + strings.TrimLeft(Pick(r, g), "+-")
		default:
			k = Pick(r, g)
		}
		if !seen[k] {
			seen[k] = true
			keys = append(keys, k)
		}
	}
	return keys
}

// mixed-case spellings of weekday / month names (ties of `contextual`: same position, text decides – the ORIGINAL text)
func c13CtxTiePool(r *Rand, n int) []string {
	tab := c13Weekdays
	if r.Bool() {
		tab = c13Months
	}
	pos := map[string][]string{"tue": {"tue", "tues", "tuesday"}, "thu": {"thu", "thur", "thurs", "thursday"}, "sep": {"sep", "sept", "september"},
		"mon": {"mon", "monday"}, "may": {"may"}, "jun": {"jun", "june"}, "fri": {"fri", "friday"}}
	seen := map[string]bool{}
	var keys []string
	for tries := 0; len(keys) < n && tries < 8*n+8; tries++ {
		w := Pick(r, tab)
		if alts, ok := pos[w]; ok && r.Bool() {
			w = Pick(r, alts)
		}
		if r.Chance(1, 3) && len(keys) > 0 { // another case spelling of a key already there
			w = strings.ToLower(keys[r.Intn(len(keys))])
			if !c13Ascii(w) {
				continue
			}
		}
		k := c13Dot(r, c13Case(r, w))
		if !seen[k] {
			seen[k] = true
			keys = append(keys, k)
		}
	}
	return keys
}

// totals for `value`: many equal totals (ties by name), extremes whose difference overflows int64
func c13TieValues(r *Rand, n int) string {
	if n == 0 {
		return "."
	}
	pool := Pick(r, [][]int64{{0, 0, 1}, {5}, {-1, 0, 1}, {9223372036854775807, -9223372036854775808, 0, -1, 1},
		{9223372036854775807, 9223372036854775806, -9223372036854775808, -9223372036854775807}, {1 << 53, 1<<53 + 1, 1<<53 - 1}, {3, 3, 3, 7}})
	out := make([]string, n)
	for i := range out {
		out[i] = strconv.FormatInt(Pick(r, pool), 10)
	}
	return strings.Join(out, ",")
}

// ---------------------------------------------------------------- lines of the d-ops

func (s c13Set) dline(op, name, extra string) string {
	dl := c13Layouts(s.keys)
	if extra == "" {
		return fmt.Sprintf("%s %s %s %s %s", op, HexS(name), HexListS(s.keys), s.values, dl)
	}
	return fmt.Sprintf("%s %s %s %s %s %s", op, HexS(name), HexListS(s.keys), s.values, extra, dl)
}

// c13TParseCases: the modelled time.Parse against the real one: every key of a pool under every layout inferred
// from any key of the pool (that is what ByDate does after taking the layout from the first key it sees) plus broken inputs.
func c13TParseCases(r *Rand, keys []string) []string {
	seen := map[string]bool{}
	var out []string
	for _, k := range keys {
		f, err := dateparse.ParseFormat(k)
		if err != nil || f == "" || seen[f] {
			continue
		}
		seen[f] = true
		ks := append([]string{}, keys...)
		// damaged variants of one key: a byte dropped / doubled / replaced, out-of-range fields
		if len(k) > 0 {
			i := r.Intn(len(k))
			ks = append(ks, k[:i]+k[i+1:], k[:i]+k[i:i+1]+k[i:], k[:i]+Pick(r, []string{"9", "0", " ", ":", "-", "+", "Z", "x", ".", ","})+k[i+1:], k+" ", " "+k, k+".5", k+"Z")
		}
		out = append(out, "tparse "+HexS(f)+" "+HexListS(ks))
	}
	return out
}
