//go:build c12

package main

// Round 4c op of C12: the DECLARATIVE specification ("replicates logic from regex", dissect.go).
//
//	lazy <ic> <pre> <keys> <lits> <lines>
//
// The pattern is given by its structure (leading literal, keys, trailing literals); the Go side
// renders the text, compiles it with the real CompileEx and matches every line with ONE instance.
// The model answer is NOT the first-occurrence scan but the BACKTRACKING matcher of
// Spec/C12Lazy.lean (`lazyDissect`: the pattern read as `lit0(.*?)lit1(.*?)lit2…`, starts and token
// lengths tried in increasing order, choices undone when the rest fails) – `dissect_eq_backtracking`
// says the two are the same function.
//
// On the Go side there is a second, independent oracle: rare's OWN regex matcher (what `--match` runs:
// fastregex.CompileEx, i.e. Go's regexp package; with -I BuildMatcherFromArguments puts `(?i)` in front)
// on exactly that regular expression, named groups `(?P<key>.*?)` where the key is a legal group name (`(?s)`, skipped tokens non-capturing, a token without trailing literal `(.*)`).
// Whenever the pair (pattern, line) is in the class where bytes and runes agree (literals valid UTF-8
// without U+FFFD; with ignore-case: ASCII literals and no KELVIN SIGN / LONG S in the line, the two
// non-ASCII runes that Unicode-fold to an ASCII letter) regexp.FindSubmatchIndex must return the very
// slice the dissect instance returns (and, when every captured key is a legal group name, the same
// name table: `-d 'k=%{v};'` and `-m 'k=(?P<v>.*?);'` are then interchangeable); a difference is an answer the model never gives.
//
// Generators aim at AMBIGUOUS lines: tiny alphabets, delimiters that occur many times, overlap each
// other and the prefix, so that a line has many readings (the stats count them) and a scan that
// commits to anything but the first occurrence – or a backtracking search that prefers anything but
// the laziest reading – gives a different slice.

import (
	"bytes"
	"fmt"
	"regexp"
	"sort"
	"strings"
	"unicode/utf8"

	"rare/pkg/matchers/dissect"
	"rare/pkg/matchers/fastregex"
)

var c12GroupName = regexp.MustCompile(`^[A-Za-z0-9_]+$`)

func c12IsSkip(key []byte) bool { return len(key) == 0 || key[0] == '?' }

// the regular expression a dissect pattern stands for; ok=false when bytes and runes may disagree
func c12Regexp(ic bool, pre []byte, keys, lits [][]byte) (re fastregex.Regexp, expr string, named bool, ok bool) {
	okLit := func(b []byte) bool {
		if !utf8.Valid(b) || bytes.ContainsRune(b, utf8.RuneError) {
			return false
		}
		if ic {
			for _, c := range b {
				if c >= 0x80 {
					return false
				}
			}
		}
		return true
	}
	if !okLit(pre) {
		return nil, "", false, false
	}
	named = true
	for i := range keys {
		if !c12IsSkip(keys[i]) && !c12GroupName.Match(keys[i]) {
			named = false
		}
	}
	var sb strings.Builder
	if ic {
		sb.WriteString("(?i)") // exactly what BuildMatcherFromArguments prepends for -I
	}
	sb.WriteString("(?s)")
	sb.WriteString(regexp.QuoteMeta(string(pre)))
	for i := range keys {
		if !okLit(lits[i]) {
			return nil, "", false, false
		}
		body := ".*?"
		if len(lits[i]) == 0 {
			body = ".*"
		}
		switch {
		case c12IsSkip(keys[i]):
			sb.WriteString("(?:" + body + ")")
		case named:
			sb.WriteString("(?P<" + string(keys[i]) + ">" + body + ")")
		default:
			sb.WriteString("(" + body + ")")
		}
		sb.WriteString(regexp.QuoteMeta(string(lits[i])))
	}
	c, err := fastregex.CompileEx(sb.String(), false)
	if err != nil {
		return nil, "", false, false
	}
	return c.CreateInstance(), sb.String(), named, true
}

func c12NameTable(m map[string]int) string {
	var names []string
	for k, v := range m {
		names = append(names, fmt.Sprintf("%s:%d", HexS(k), v))
	}
	sort.Strings(names)
	return strings.Join(names, ",")
}

func c12LineComparable(ic bool, l []byte) bool {
	if !ic {
		return true
	}
	return !bytes.Contains(l, []byte("\u212a")) && !bytes.Contains(l, []byte("\u017f"))
}

func c12Lazy(ic bool, pre []byte, keys, lits [][]byte, lines [][]byte) string {
	pat := c12Render(pre, keys, lits)
	d, err := dissect.CompileEx(pat, ic)
	if err != nil {
		return "err " + c12ErrClass(err)
	}
	re, expr, named, cmp := c12Regexp(ic, pre, keys, lits)
	if cmp && named {
		if a, b := c12NameTable(d.SubexpNameTable()), c12NameTable(re.SubexpNameTable()); a != b {
			return fmt.Sprintf("impl-regexp-names-differ dissect=%s regexp=%s re=%s", a, b, HexS(expr))
		}
	}
	inst := d.CreateInstance()
	var held [][]int
	for i, l := range lines {
		r := inst.FindSubmatchIndex(l)
		held = append(held, r)
		if cmp && c12LineComparable(ic, l) {
			if want := c12Ints(re.FindSubmatchIndex(l)); want != c12Ints(r) {
				return fmt.Sprintf("impl-regexp-differs line=%d dissect=%s regexp=%s re=%s", i, c12Ints(r), want, HexS(expr))
			}
		}
	}
	rs := make([]string, len(held))
	for i, r := range held {
		rs[i] = c12Ints(r)
	}
	out := "."
	if len(rs) > 0 {
		out = strings.Join(rs, "|")
	}
	return "ok r=" + out
}

func c12RunLazy(f []string) (string, bool) {
	if f[0] != "lazy" {
		return "", false
	}
	if len(f) != 6 {
		return "bad-args", true
	}
	keys, lits := UnHexList(f[3]), UnHexList(f[4])
	if len(keys) != len(lits) {
		return "bad-args", true
	}
	return c12safe(func() string { return c12Lazy(f[1] == "1", UnHex(f[2]), keys, lits, UnHexList(f[5])) }), true
}

// ---------------------------------------------------------------- generator

var c12LazyLits = []string{"a", "b", "ab", "ba", "aa", "=", "aba", "a=", "=a", "bb", "A", "aB", "é", "-", "--", "é="}
var c12LazyKeys = []string{"x", "y", "z", "w", "", "?s", "?"}

func c12GenLazyPat(r *Rand) c12Pat {
	var p c12Pat
	if r.Chance(2, 3) {
		p.pre = Pick(r, c12LazyLits)
	}
	nt := r.Intn(5)
	for i := 0; i < nt; i++ {
		k := c12LazyKeys[i]
		if r.Chance(1, 4) {
			k = Pick(r, c12LazyKeys[4:])
		}
		lit := Pick(r, c12LazyLits)
		switch {
		case p.pre != "" && r.Chance(1, 5):
			lit = p.pre
		case i > 0 && r.Chance(1, 4):
			lit = p.lits[i-1]
		}
		if i == nt-1 && r.Chance(1, 3) {
			lit = ""
		}
		p.keys = append(p.keys, k)
		p.lits = append(p.lits, lit)
	}
	return p
}

// a line over the bytes of the pattern's literals: many occurrences of every delimiter
func c12GenLazyLine(r *Rand, p c12Pat, ic bool) []byte {
	alpha := []string{"a", "b", "="}
	alpha = append(alpha, p.pre)
	alpha = append(alpha, p.lits...)
	if r.Chance(1, 6) {
		alpha = append(alpha, "x", "é", "\xc3", "K", "\u212a", "\u017f", "S")
	}
	var sb strings.Builder
	junk := func(max int) {
		for i, n := 0, r.Intn(max+1); i < n; i++ {
			sb.WriteString(Pick(r, alpha))
		}
	}
	if r.Chance(3, 5) {
		// laid out after the pattern: junk, leading literal, (text, delimiter)*, junk – text and junk
		// are made of the delimiters themselves, so the laid-out reading is rarely the only one
		junk(2)
		sb.WriteString(p.pre)
		for i := range p.lits {
			junk(3)
			if r.Chance(1, 15) {
				continue
			}
			sb.WriteString(p.lits[i])
		}
		junk(2)
	} else {
		n := r.Intn(14)
		if r.Chance(1, 10) {
			n = 14 + r.Intn(20)
		}
		for i := 0; i < n; i++ {
			sb.WriteString(Pick(r, alpha))
		}
	}
	s := sb.String()
	if ic {
		s = c12FlipCase(r, s)
	}
	b := []byte(s)
	if len(b) > 0 && r.Chance(1, 8) {
		b = b[:r.Intn(len(b))]
	}
	if len(b) > 48 {
		b = b[:48]
	}
	return b
}

func c12LazyCase(ic bool, p c12Pat, lines [][]byte) string {
	icS := "0"
	if ic {
		icS = "1"
	}
	return fmt.Sprintf("lazy %s %s %s %s %s", icS, HexS(p.pre), HexListS(p.keys), HexListS(p.lits), HexList(lines))
}

func c12GenLazy(r *Rand, tier string) []string {
	n := 700
	if tier == "thorough" {
		n = 12000
	}
	var out []string
	for i := 0; i < n; i++ {
		ic := r.Chance(1, 3)
		p := c12GenLazyPat(r)
		nl := 1 + r.Intn(6)
		var lines [][]byte
		for j := 0; j < nl; j++ {
			lines = append(lines, c12GenLazyLine(r, p, ic))
		}
		out = append(out, c12LazyCase(ic, p, lines))
	}
	if tier == "thorough" {
		// exhaustive: every line over {a,b} up to length 9 (and {a,b,=} up to 6) for patterns whose
		// literals overlap each other
		pats := []c12Pat{
			{"a", []string{"x"}, []string{"a"}},
			{"ab", []string{"x"}, []string{"ba"}},
			{"", []string{"x", "y"}, []string{"ab", "b"}},
			{"a", []string{"x", "", "y"}, []string{"b", "a", ""}},
			{"aa", []string{"x", "y"}, []string{"a", "aa"}},
			{"", []string{"x", "y", "z"}, []string{"a", "a", "b"}},
			{"b", []string{"?s", "y"}, []string{"ab", "ba"}},
		}
		for _, alpha := range []struct {
			a   []byte
			max int
		}{{[]byte("ab"), 9}, {[]byte("ab="), 6}, {[]byte("aAb"), 6}} {
			var all [][]byte
			var rec func(cur []byte)
			rec = func(cur []byte) {
				all = append(all, append([]byte{}, cur...))
				if len(cur) < alpha.max {
					for _, c := range alpha.a {
						rec(append(cur, c))
					}
				}
			}
			rec(nil)
			for _, p := range pats {
				for k := 0; k < len(all); k += 50 {
					hi := k + 50
					if hi > len(all) {
						hi = len(all)
					}
					out = append(out, c12LazyCase(false, p, all[k:hi]))
					if bytes.Contains(alpha.a, []byte("A")) {
						out = append(out, c12LazyCase(true, p, all[k:hi]))
					}
				}
			}
		}
	}
	return out
}

// number of readings of a line (capped): how ambiguous the generated lines are
func c12CountReadings(pre []byte, lits [][]byte, line []byte, cap int) int {
	cnt := 0
	var rec func(t, pos int)
	rec = func(t, pos int) {
		if cnt >= cap {
			return
		}
		if t == len(lits) {
			cnt++
			return
		}
		if len(lits[t]) == 0 {
			rec(t+1, len(line))
			return
		}
		for n := 0; pos+n+len(lits[t]) <= len(line); n++ {
			if bytes.HasPrefix(line[pos+n:], lits[t]) {
				rec(t+1, pos+n+len(lits[t]))
			}
		}
	}
	for s := 0; s+len(pre) <= len(line); s++ {
		if bytes.HasPrefix(line[s:], pre) {
			rec(0, s+len(pre))
		}
	}
	return cnt
}

func c12StatsLazy(f []string, st map[string]int) bool {
	if f[0] != "lazy" {
		return false
	}
	st["op.lazy"]++
	ic := f[1] == "1"
	pre, keys, lits, lines := UnHex(f[2]), UnHexList(f[3]), UnHexList(f[4]), UnHexList(f[5])
	if len(keys) != len(lits) {
		return true
	}
	if _, err := dissect.CompileEx(c12Render(pre, keys, lits), ic); err != nil {
		st["lazy.compileError"]++
		return true
	}
	_, _, named, cmp := c12Regexp(ic, pre, keys, lits)
	if cmp && named {
		st["lazy.nameTableCompared"]++
	}
	fold := func(b []byte) []byte {
		if !ic {
			return b
		}
		o := append([]byte{}, b...)
		for i, c := range o {
			if c >= 'A' && c <= 'Z' {
				o[i] = c + 32
			}
		}
		return o
	}
	fl := make([][]byte, len(lits))
	for i := range lits {
		fl[i] = fold(lits[i])
	}
	for _, l := range lines {
		st["lazy.lines"]++
		if cmp && c12LineComparable(ic, l) {
			st["lazy.regexpCompared"]++
		}
		switch k := c12CountReadings(fold(pre), fl, fold(l), 50); {
		case k == 0:
			st["lazy.readings0"]++
		case k == 1:
			st["lazy.readings1"]++
		case k < 10:
			st["lazy.readings2to9"]++
		default:
			st["lazy.readings10plus"]++
		}
	}
	return true
}

func c12CorpusLazy() []string {
	lz := func(ic bool, pre string, keys, lits []string, lines ...string) string {
		var ls [][]byte
		for _, l := range lines {
			ls = append(ls, []byte(l))
		}
		return c12LazyCase(ic, c12Pat{pre, keys, lits}, ls)
	}
	return []string{
		// three readings, the least one is the answer
		lz(false, "k=", []string{"v"}, []string{";"}, "k=1;k=2;x", "xk=;", "k=", ""),
		// the second token would be extended by a backtracking matcher – to the same answer
		lz(false, "", []string{"a", "b"}, []string{"-", ":"}, "1-2-3:4", "1-2-3", "-:", ":-"),
		// literals that would have to overlap: no reading
		lz(false, "ab", []string{"v"}, []string{"ba"}, "aba", "abba", "ababa", "abab"),
		// skipped tokens, token to the end of the line, ignore-case
		lz(true, "A", []string{"x", "", "y"}, []string{"b", "a", ""}, "aBa", "AbBaAb", "ab", "ba", "Kab\u212a"),
		lz(false, "é=", []string{"x", "?s"}, []string{"é", "="}, "é=1é2=3", "\xc3é=é=", "é=\xa9="),
		lz(false, "", nil, nil, "", "abc"), lz(false, "ab", nil, nil, "xxab", "a"),
	}
}
