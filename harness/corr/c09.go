//go:build c09 || c08 || c10

package main

import (
	"errors"
	"fmt"
	"strconv"
	"strings"
	"unicode"
	"unicode/utf8"

	"rare/pkg/expressions"
)

// ---------------------------------------------------------------- probe registry (mirrors Rare.C09.testRegistry)

var c09ProbeNames = []string{"a", "f", "g", "cat", "a1", "1a", "é+", "-"}

func c09Probe(name string) expressions.KeyBuilderFunction {
	return func(args []expressions.KeyBuilderStage) (expressions.KeyBuilderStage, error) {
		return func(ctx expressions.KeyBuilderContext) string {
			var sb strings.Builder
			sb.WriteString(name)
			sb.WriteByte('(')
			for _, a := range args {
				v := a(ctx)
				sb.WriteString(strconv.Itoa(len(v)))
				sb.WriteByte(':')
				sb.WriteString(v)
			}
			sb.WriteByte(')')
			return sb.String()
		}, nil
	}
}

func c09Builder(opt bool) *expressions.KeyBuilder {
	kb := expressions.NewKeyBuilderEx(opt)
	for _, n := range c09ProbeNames {
		kb.Func(n, c09Probe(n))
	}
	kb.Func("bad", func(args []expressions.KeyBuilderStage) (expressions.KeyBuilderStage, error) {
		return func(expressions.KeyBuilderContext) string { return "<ARGN>" }, errors.New("invalid number of arguments")
	})
	kb.Func("nil", func(args []expressions.KeyBuilderStage) (expressions.KeyBuilderStage, error) {
		return nil, errors.New("invalid number of arguments")
	})
	return kb
}

func c09Eval(opt bool, template, elems, keys string) string {
	compiled, errs := c09Builder(opt).Compile(template)
	if compiled == nil {
		return "nil-compiled errs=" + errsStr(errs)
	}
	val := compiled.BuildKey(mkContext(elems, keys))
	return fmt.Sprintf("ok errs=%s val=%s", errsStr(errs), HexS(val))
}

// ---------------------------------------------------------------- trees and styles (the harness's own printer)

type c09Node struct {
	kind        byte // L G K C
	text        string
	n           uint64
	quote       bool
	lead, trail string
	seps        []string
	kids        []*c09Node
}

// white-space words of the tree tokens: one letter per rune, a…y = index into c09SpaceRunes ("" -> "-")
func c09WsWord(s string) string {
	if s == "" {
		return "-"
	}
	var sb strings.Builder
	for _, c := range s {
		sb.WriteByte(byte('a' + c09WsIndex(c)))
	}
	return sb.String()
}

func c09UnWs(s string) string {
	if s == "-" {
		return ""
	}
	var sb strings.Builder
	for _, c := range s {
		sb.WriteRune(c09SpaceRunes[int(c-'a')%len(c09SpaceRunes)])
	}
	return sb.String()
}

func (t *c09Node) tokens(out *[]string) {
	switch t.kind {
	case 'L':
		q := "0"
		if t.quote {
			q = "1"
		}
		*out = append(*out, "L:"+HexS(t.text)+":"+q)
	case 'G':
		*out = append(*out, fmt.Sprintf("G:%d:%s:%s", t.n, c09WsWord(t.lead), c09WsWord(t.trail)))
	case 'K':
		*out = append(*out, fmt.Sprintf("K:%s:%s:%s", HexS(t.text), c09WsWord(t.lead), c09WsWord(t.trail)))
	case 'C':
		*out = append(*out, fmt.Sprintf("C:%s:%d:%s:%s", HexS(t.text), len(t.kids), c09WsWord(t.lead), c09WsWord(t.trail)))
		for i, k := range t.kids {
			*out = append(*out, "S:"+c09WsWord(t.seps[i]))
			k.tokens(out)
		}
	}
}

func c09ParseTokens(toks []string) (*c09Node, []string) {
	p := strings.Split(toks[0], ":")
	rest := toks[1:]
	switch p[0] {
	case "L":
		return &c09Node{kind: 'L', text: string(UnHex(p[1])), quote: p[2] == "1"}, rest
	case "G":
		n, _ := strconv.ParseUint(p[1], 10, 64)
		return &c09Node{kind: 'G', n: n, lead: c09UnWs(p[2]), trail: c09UnWs(p[3])}, rest
	case "K":
		return &c09Node{kind: 'K', text: string(UnHex(p[1])), lead: c09UnWs(p[2]), trail: c09UnWs(p[3])}, rest
	case "C":
		argc, _ := strconv.Atoi(p[2])
		t := &c09Node{kind: 'C', text: string(UnHex(p[1])), lead: c09UnWs(p[3]), trail: c09UnWs(p[4])}
		for i := 0; i < argc; i++ {
			sp := strings.Split(rest[0], ":")
			t.seps = append(t.seps, c09UnWs(sp[1]))
			var k *c09Node
			k, rest = c09ParseTokens(rest[1:])
			t.kids = append(t.kids, k)
		}
		return t, rest
	}
	panic("bad tree token " + toks[0])
}

func c09Special(r rune) bool { return r == '"' || r == '\\' || r == '{' || r == '}' }

func c09Bare(s string) bool {
	if s == "" {
		return false
	}
	for _, r := range s {
		if c09Special(r) || unicode.IsSpace(r) {
			return false
		}
	}
	return true
}

func (t *c09Node) printArg() string {
	switch t.kind {
	case 'L':
		if t.quote || !c09Bare(t.text) {
			return `"` + t.text + `"`
		}
		return t.text
	case 'G':
		return "{" + t.lead + strconv.FormatUint(t.n, 10) + t.trail + "}"
	case 'K':
		return "{" + t.lead + t.text + t.trail + "}"
	}
	var sb strings.Builder
	sb.WriteString("{" + t.lead + t.text)
	for i, k := range t.kids {
		sb.WriteString(t.seps[i])
		sb.WriteString(k.printArg())
	}
	sb.WriteString(t.trail + "}")
	return sb.String()
}

func c09Escape(s string) string {
	var sb strings.Builder
	for _, r := range []rune(s) {
		switch r {
		case '\\', '{', '}':
			sb.WriteRune('\\')
			sb.WriteRune(r)
		case '\n':
			sb.WriteString(`\n`)
		case '\t':
			sb.WriteString(`\t`)
		case '\r':
			sb.WriteString(`\r`)
		default:
			sb.WriteRune(r)
		}
	}
	return sb.String()
}

func (t *c09Node) printTop() string {
	if t.kind == 'L' {
		return c09Escape(t.text)
	}
	return t.printArg()
}

// the harness's own reading of the tree (what the documentation promises)
func (t *c09Node) eval(ctx *expressions.KeyBuilderContextArray) string {
	switch t.kind {
	case 'L':
		return t.text
	case 'G':
		if t.n < uint64(len(ctx.Elements)) {
			return ctx.Elements[t.n]
		}
		return ""
	case 'K':
		return ctx.Keys[t.text]
	}
	var sb strings.Builder
	sb.WriteString(t.text + "(")
	for _, k := range t.kids {
		v := k.eval(ctx)
		sb.WriteString(strconv.Itoa(len(v)) + ":" + v)
	}
	sb.WriteString(")")
	return sb.String()
}

// ---------------------------------------------------------------- Run

func c09Run(f []string) string {
	if len(f) == 0 {
		return "bad-op"
	}
	switch f[0] {
	case "expr":
		if a, ok := exprRun(f); ok {
			if strings.HasPrefix(a, "panic") {
				return "panic"
			}
			return a
		}
	case "tpl":
		return c09Eval(f[1] == "1", string(UnHex(f[2])), f[3], f[4])
	case "xtpl": // standard registry, raw template bytes
		a, _ := exprRun([]string{"expr", f[1], f[2], f[3], f[4]})
		if strings.HasPrefix(a, "panic") {
			return "panic"
		}
		return a
	case "runes":
		return c09RunesAnswer(string(UnHex(f[1])))
	case "seps": // which runes of a plane separate two arguments for the real splitter
		plane, _ := strconv.Atoi(f[1])
		var out []string
		for c := plane * 0x10000; c < (plane+1)*0x10000; c++ {
			if c >= 0xD800 && c <= 0xDFFF {
				continue
			}
			args := expressions.VerifSplitTokenizedArguments("a" + string(rune(c)) + "b")
			if len(args) == 2 && args[0] == "a" && args[1] == "b" {
				out = append(out, strconv.Itoa(c))
			}
		}
		if len(out) == 0 {
			return "ok ."
		}
		return "ok " + strings.Join(out, ",")
	case "enc":
		var rs []rune
		if f[1] != "." {
			for _, p := range strings.Split(f[1], ",") {
				n, _ := strconv.ParseInt(p, 10, 64)
				rs = append(rs, rune(n))
			}
		}
		return "ok " + HexS(string(rs))
	case "lit":
		text := string(UnHex(f[2]))
		tpl := c09Escape(text)
		ans := c09Eval(f[1] == "1", tpl, ".", ".")
		if ans != "ok errs=. val="+HexS(string([]rune(text))) { // the property itself, checked on the real code
			return "spec-violation impl " + ans
		}
		return ans + " tpl=" + HexS(tpl)
	case "split":
		return "ok " + HexListS(expressions.VerifSplitTokenizedArguments(string(UnHex(f[1]))))
	case "stree", "streex":
		a := c09FragRun(f)
		if strings.HasPrefix(a, "panic") {
			return "panic"
		}
		return a
	case "tree":
		t, rest := c09ParseTokens(strings.Split(f[2], ","))
		if len(rest) != 0 {
			return "bad-args"
		}
		tpl := t.printTop()
		ans := c09Eval(f[1] == "1", tpl, f[3], f[4])
		spec := HexS(t.eval(mkContext(f[3], f[4])))
		if ans != "ok errs=. val="+spec { // the property itself, checked on the real code
			return "spec-violation impl " + ans + " tpl=" + HexS(tpl) + " spec=" + spec
		}
		return ans + " tpl=" + HexS(tpl) + " spec=" + spec
	}
	if a, ok := c09R4Run(f); ok {
		return a
	}
	if a, ok := c09R4bRun(f); ok {
		return a
	}
	if a, ok := c09R4cRun(f); ok {
		return a
	}
	return "bad-op"
}

// ---------------------------------------------------------------- generators

var c09Runes = []rune{'a', 'b', 'z', '0', '1', '9', '-', '+', '_', '.', ':', '%', '$', '@', '\'', 'é', 'ß', '世', '😀',
	0x0301, 0xFFFD, 0x00AD, 0x200B /* zero width space: not White_Space */, 0x1, 0x7f, 0x0}
var c09Spaces = []rune{' ', ' ', '\t', '\n', '\r', '\v', '\f', 0x85, 0xA0, 0x1680, 0x2000, 0x200A, 0x2028, 0x2029, 0x202F, 0x205F, 0x3000}
var c09Specials = []rune{'{', '}', '"', '\\'}

func c09AnyRune(r *Rand) rune {
	for {
		var c rune
		switch r.Intn(6) {
		case 0:
			c = rune(r.Intn(0x80))
		case 1:
			c = rune(r.Intn(0x800))
		case 2:
			c = rune(r.Intn(0x10000))
		case 3:
			c = rune(r.Intn(0x110000))
		default:
			c = Pick(r, c09Runes)
		}
		if c >= 0xD800 && c <= 0xDFFF {
			continue
		}
		return c
	}
}

func c09Ws(r *Rand, min int) string {
	n := min
	if r.Chance(1, 3) {
		n += r.Intn(4)
	}
	var sb strings.Builder
	for i := 0; i < n; i++ {
		switch k := r.Intn(12); {
		case k < 6:
			sb.WriteByte(' ')
		case k < 9:
			sb.WriteByte('\t')
		default: // any of the 25 White_Space runes
			sb.WriteRune(Pick(r, c09SpaceRunes))
		}
	}
	return sb.String()
}

// text free of " \ { } ; may contain white space and be empty
func c09Plain(r *Rand) string {
	n := r.Intn(5)
	if r.Chance(1, 8) {
		n = r.Intn(20)
	}
	var sb strings.Builder
	for i := 0; i < n; i++ {
		var c rune
		switch {
		case r.Chance(1, 6):
			c = Pick(r, c09Spaces)
		case r.Chance(1, 6):
			c = c09AnyRune(r)
		default:
			c = Pick(r, c09Runes)
		}
		if c09Special(c) {
			c = 'x'
		}
		sb.WriteRune(c)
	}
	return sb.String()
}

func c09Token(r *Rand) string {
	for {
		n := 1 + r.Intn(4)
		var sb strings.Builder
		for i := 0; i < n; i++ {
			c := Pick(r, c09Runes)
			if r.Chance(1, 8) {
				c = c09AnyRune(r)
			}
			if c09Special(c) || unicode.IsSpace(c) {
				c = 'k'
			}
			sb.WriteRune(c)
		}
		s := sb.String()
		if _, err := strconv.Atoi(s); err != nil {
			return s
		}
	}
}

var c09KeyPool = []string{"k", "key", "a", "f", "src", "line", "+", "-", "1a", "--1", "0x10", "1_000", "٣", "1.0", "1e3",
	"99999999999999999999", "-9223372036854775809", "é"}

func c09Tree(r *Rand, depth int) *c09Node {
	k := r.Intn(10)
	if depth <= 0 && k >= 6 {
		k = r.Intn(6)
	}
	switch {
	case k < 3:
		return &c09Node{kind: 'L', text: c09Plain(r), quote: r.Bool()}
	case k < 5:
		n := uint64(r.Intn(6))
		if r.Chance(1, 10) {
			n = Pick(r, []uint64{9223372036854775807, 9223372036854775806, 4294967296, 10, 99, 100, 1000000})
		}
		return &c09Node{kind: 'G', n: n, lead: c09Ws(r, 0), trail: c09Ws(r, 0)}
	case k < 6:
		key := Pick(r, c09KeyPool)
		if r.Chance(1, 3) {
			key = c09Token(r)
		}
		return &c09Node{kind: 'K', text: key, lead: c09Ws(r, 0), trail: c09Ws(r, 0)}
	}
	t := &c09Node{kind: 'C', text: Pick(r, c09ProbeNames), lead: c09Ws(r, 0), trail: c09Ws(r, 0)}
	argc := 1 + r.Intn(3)
	if r.Chance(1, 10) {
		argc = 1 + r.Intn(7)
	}
	for i := 0; i < argc; i++ {
		t.seps = append(t.seps, c09Ws(r, 1))
		t.kids = append(t.kids, c09Tree(r, depth-1))
	}
	return t
}

// a deep, narrow tree: one child per level recurses, the others are leaves
func c09DeepTree(r *Rand, depth int) *c09Node {
	if depth <= 0 {
		return c09Tree(r, 0)
	}
	t := &c09Node{kind: 'C', text: Pick(r, c09ProbeNames), lead: c09Ws(r, 0), trail: c09Ws(r, 0)}
	argc := 1 + r.Intn(3)
	deep := r.Intn(argc)
	for i := 0; i < argc; i++ {
		t.seps = append(t.seps, c09Ws(r, 1))
		if i == deep {
			t.kids = append(t.kids, c09DeepTree(r, depth-1))
		} else {
			t.kids = append(t.kids, c09Tree(r, 0))
		}
	}
	return t
}

func c09Ctx(r *Rand) (string, string) {
	ne := r.Intn(7)
	elems := make([]string, ne)
	for i := range elems {
		elems[i] = fmt.Sprintf("e%d", i)
		if r.Chance(1, 4) {
			elems[i] = c09Plain(r)
		}
		if r.Chance(1, 8) {
			elems[i] = "{0} \\ \"q\""
		}
	}
	var keys []string
	for _, k := range c09KeyPool {
		if r.Chance(2, 3) {
			keys = append(keys, k, "<"+k+">")
		}
	}
	return HexListS(elems), HexListS(keys)
}

func c09Opt(r *Rand) string {
	if r.Bool() {
		return "1"
	}
	return "0"
}

func c09TreeCase(r *Rand) (string, string) {
	t := c09Tree(r, 1+r.Intn(4))
	if r.Chance(1, 8) {
		t = c09DeepTree(r, 4+r.Intn(12))
	}
	if r.Chance(1, 12) { // top-level literal: anything goes
		t = &c09Node{kind: 'L', text: c09LitText(r)}
	}
	var toks []string
	t.tokens(&toks)
	el, ks := c09Ctx(r)
	return fmt.Sprintf("tree %s %s %s %s", c09Opt(r), strings.Join(toks, ","), el, ks), t.printTop()
}

// valid UTF-8 text over all of Unicode with many specials
func c09LitText(r *Rand) string {
	n := r.Intn(12)
	if r.Chance(1, 10) {
		n = r.Intn(60)
	}
	var sb strings.Builder
	for i := 0; i < n; i++ {
		switch r.Intn(5) {
		case 0:
			sb.WriteRune(Pick(r, c09Specials))
		case 1:
			sb.WriteRune(Pick(r, []rune{'\n', '\t', '\r', 'n', 't', 'r', ' ', '\\'}))
		case 2:
			sb.WriteRune(c09AnyRune(r))
		default:
			sb.WriteRune(Pick(r, c09Runes))
		}
	}
	return sb.String()
}

func c09Corrupt(r *Rand, s string) string {
	b := []byte(s)
	k := 1 + r.Intn(3)
	for i := 0; i < k; i++ {
		bad := Pick(r, []byte{0x80, 0xBF, 0xC0, 0xC1, 0xC2, 0xE0, 0xED, 0xF0, 0xF4, 0xF5, 0xFF, 0xA0, 0x9F, 0x90, 0x8F})
		pos := r.Intn(len(b) + 1)
		if r.Bool() && len(b) > 0 {
			b[r.Intn(len(b))] = bad
		} else {
			b = append(b[:pos], append([]byte{bad}, b[pos:]...)...)
		}
	}
	return string(b)
}

// malformed mutations of a well-formed template
func c09Mutate(r *Rand, s string) string {
	rs := []rune(s)
	k := 1 + r.Intn(3)
	for i := 0; i < k; i++ {
		ins := Pick(r, []rune{'{', '}', '"', '\\', ' ', '\t', '{', '}', 'x', '1'})
		switch r.Intn(6) {
		case 0: // insert
			p := r.Intn(len(rs) + 1)
			rs = append(rs[:p], append([]rune{ins}, rs[p:]...)...)
		case 1: // delete
			if len(rs) > 0 {
				p := r.Intn(len(rs))
				rs = append(rs[:p], rs[p+1:]...)
			}
		case 2: // replace
			if len(rs) > 0 {
				rs[r.Intn(len(rs))] = ins
			}
		case 3: // truncate
			if len(rs) > 0 {
				rs = rs[:r.Intn(len(rs))]
			}
		case 4: // trailing backslash / unbalanced tail
			rs = append(rs, Pick(r, []rune{'\\', '{', '}', '"'}))
		case 5: // duplicate a slice
			if len(rs) > 1 {
				a := r.Intn(len(rs))
				b := a + r.Intn(len(rs)-a)
				rs = append(rs[:b], append(append([]rune{}, rs[a:b]...), rs[b:]...)...)
			}
		}
	}
	return string(rs)
}

var c09Alphabet = []rune{'{', '}', '"', '\\', ' ', 'a', '1'}

func c09SoupRunes(r *Rand) []rune {
	al := c09Alphabet
	if r.Chance(1, 3) {
		al = append(append(append([]rune{}, c09Alphabet...), c09Spaces...), 'é', 'f', 'n', 't', '-', 'b', 'd')
	}
	n := r.Intn(14)
	rs := make([]rune, n)
	for i := range rs {
		rs[i] = Pick(r, al)
	}
	return rs
}

var c09StdSnippets = []string{"{coalesce {0} b}", "{and {0} {1}}", "{or {k} x}", "{not {0}}", "{eq {0} {0}}", "{neq a b}",
	"{if {0} yes no}", "{unless {0} no}", "{coalesce}", "{nosuchfn 1 2}", "{eq a}", "{sumi 1 2}", "{if {eq {0} e0} \"t t\" f}",
	"{switch {0} e0 A e1 B}", "{select \"a b c\" 1}", "{isint 5}"}

const c09E = "6530;6531" // e0;e1
const c09K = "61;4b41;31;4b31" // a=KA 1=K1

func c09Gen(r *Rand, tier string) []string {
	n := 2600
	exprBudget := 130 // `expr` cases are also replayed by C08/C10: keep their number as it was
	if tier == "thorough" {
		n = 30000
		exprBudget = 5000
	}
	var out []string
	tpl := func(o, t, el, ks string) { out = append(out, fmt.Sprintf("tpl %s %s %s %s", o, HexS(t), el, ks)) }
	// documented examples and boundary inputs first
	for _, t := range []string{"", "abc", `abc\`, `\`, `{`, `}`, `{}`, `{   }`, "{\t}", `{0}`, `{ 0 }`, `{a}`, `{a b}`, `{nofn b}`, `{{0}}`, `{{0} b}`,
		`{a ""}`, `{a "" ""}`, `{a "b c" d}`, `{a {a "b c"} d}`, `{a "{0}"}`, `{a "\"" }`, `{a \" }`, `{a b\ c}`, `{a {0}{1}}`, `{a x{0}y}`,
		`\{0\}`, `a\nb\tc\rd\\e\x`, `{a b} {`, `{a {`, `{a "}`, `{a "}"}`, `{a }}`, `{bad 1}`, `{nil 1}`, `{a {bad 1} {nil 2} {}}`, `{a {nofn 1}}`,
		`{"a" b}`, `{"a"}`, `{""}`, `{"" a}`, `{+5}`, `{-0}`, `{007}`, `{9223372036854775808}`, `{a b}}`, `{a\ b}`, `{a\{b}`, "{a\u3000b}", "{a\u200bb}"} {
		for _, o := range []string{"0", "1"} {
			tpl(o, t, c09E, c09K)
		}
	}
	for _, t := range []string{"", "a", " a ", "a b", `a "b c" d`, `""`, `a "" b`, `"a"b`, `a"b"`, `{a b} c`, `x{a b}y z`, `"{" }`, `a\ b c`, `a\`, `} {`, `{"a b"} c`,
		"a\u3000b", "a\u0085b", "a\u200bb", `{ " } " }`, `"a b`, `{a b`} {
		out = append(out, "split "+HexS(t))
	}
	// systematic families: escapes x backslash count x depth x position, adjacent quotes, empty and
	// unterminated statements at every depth, deep nesting, every white-space kind and look-alike
	for _, t := range c09Systematic(tier) {
		if tier == "thorough" {
			tpl("0", t, c09E, c09K)
			tpl("1", t, c09E, c09K)
		} else {
			tpl(c09Opt(r), t, c09E, c09K)
		}
	}
	for _, t := range c09SystematicSplit() {
		out = append(out, "split "+HexS(t))
	}
	// which runes separate arguments: the whole of Unicode through the real splitter, plane by plane
	for plane := 0; plane <= 16; plane++ {
		out = append(out, fmt.Sprintf("seps %d", plane))
	}
	// UTF-8: Go's decoder against the model's, on boundary sequences and malformed streams; the same byte
	// strings as templates, literal texts and splitter inputs
	for _, s := range c09Utf8Samples(r, n/4) {
		out = append(out, "runes "+HexS(s))
		switch r.Intn(4) {
		case 0:
			tpl(c09Opt(r), s, c09E, c09K)
		case 1:
			tpl(c09Opt(r), "{a "+s+" x}", c09E, c09K)
		case 2:
			out = append(out, fmt.Sprintf("lit %s %s", c09Opt(r), HexS(s)))
		default:
			out = append(out, "split "+HexS("a "+s+" b"))
		}
	}
	for i := 0; i < n/20+8; i++ { // string([]rune{…}) for arbitrary values
		var ps []string
		for k := r.Intn(6); k > 0; k-- {
			v := Pick(r, []int{0, 0x7f, 0x80, 0x7ff, 0x800, 0xd7ff, 0xd800, 0xdbff, 0xdc00, 0xdfff, 0xe000, 0xfffd, 0xffff, 0x10000, 0x10ffff, 0x110000, 0x7fffffff})
			if r.Bool() {
				v = r.Intn(0x120000)
			}
			ps = append(ps, strconv.Itoa(v))
		}
		if len(ps) == 0 {
			out = append(out, "enc .")
		} else {
			out = append(out, "enc "+strings.Join(ps, ","))
		}
	}
	// escapes surviving to the argument level: an argument is a template of its own, so text meant literally
	// inside an argument is escaped once per pass (outer scanner, argument splitter, argument compile)
	for i := 0; i < n/8+8; i++ {
		var lit []byte
		for k := r.Range(1, 5); k > 0; k-- {
			lit = append(lit, Pick(r, []byte("a\\n t{}\"\n\t")))
		}
		nested := c09Pass1(c09Pass2(c09Escape(string(lit))))
		el, ks := c09Ctx(r)
		tpl(c09Opt(r), "{a "+nested+" x}", el, ks)
		if r.Chance(1, 2) { // one level less / more than needed: still must agree with the model
			tpl(c09Opt(r), "{a "+c09Pass2(c09Escape(string(lit)))+"}", el, ks)
			tpl(c09Opt(r), "{a {a "+c09Pass1(nested)+"}}", el, ks)
		}
	}
	for i := 0; i < n; i++ {
		c, printed := c09TreeCase(r)
		out = append(out, c)
		el, ks := c09Ctx(r)
		// the same print through the plain op, then a malformed mutation of it
		if r.Chance(1, 4) {
			tpl(c09Opt(r), printed, el, ks)
		}
		m := c09Mutate(r, printed)
		tpl(c09Opt(r), m, el, ks)
		if r.Chance(1, 3) {
			tpl(c09Opt(r), c09Corrupt(r, m), el, ks)
		}
		// concatenations: text, statements, text
		if r.Chance(1, 3) {
			_, p2 := c09TreeCase(r)
			tpl(c09Opt(r), c09Escape(c09LitText(r))+printed+c09Plain(r)+p2, el, ks)
		}
		// grammar-driven templates: escapes, quotes, adjacency, nesting, Unicode white space at every level;
		// well formed, and with unterminated statements / quotes and stray specials
		g := c09G{r: r}
		tpl(c09Opt(r), g.template(r.Intn(4)), el, ks)
		tpl(c09Opt(r), c09G{r: r, broken: true}.template(r.Intn(4)), el, ks)
		if r.Chance(1, 6) {
			tpl(c09Opt(r), g.template(4+r.Intn(5)), el, ks)
		}
		if r.Chance(1, 8) {
			tpl(c09Opt(r), c09Corrupt(r, g.template(r.Intn(3))), el, ks)
		}
		// literal round trip: valid text, and invalid UTF-8
		lt := c09LitText(r)
		out = append(out, fmt.Sprintf("lit %s %s", c09Opt(r), HexS(lt)))
		if r.Chance(1, 3) {
			out = append(out, fmt.Sprintf("lit %s %s", c09Opt(r), HexS(c09Corrupt(r, lt+"x"))))
		}
		// token soup
		soup := string(c09SoupRunes(r))
		tpl(c09Opt(r), soup, c09E, c09K)
		// splitter: soup, printed argument lists, grammar argument lists, mutated, corrupted
		out = append(out, "split "+HexS(string(c09SoupRunes(r))))
		if len(printed) > 2 && printed[0] == '{' {
			inner := printed[1 : len(printed)-1]
			out = append(out, "split "+HexS(inner))
			out = append(out, "split "+HexS(c09Mutate(r, inner)))
			if r.Chance(1, 4) {
				out = append(out, "split "+HexS(c09Corrupt(r, inner)))
			}
		}
		{
			st := c09G{r: r, broken: r.Chance(1, 4)}.stmt(r.Intn(3))
			out = append(out, "split "+HexS(strings.TrimSuffix(strings.TrimPrefix(st, "{"), "}")))
		}
		// standard registry: through the shared op (valid UTF-8 only; replayed by C08/C10) and with raw bytes
		if r.Chance(1, 6) {
			t := Pick(r, c09StdSnippets)
			if r.Bool() {
				t = c09Mutate(r, t)
			}
			if exprBudget > 0 {
				exprBudget--
				out = append(out, ExprCase(r.Bool(), t, []string{"e0", "", "e2"}, []string{"k", "v"}))
			}
			if r.Bool() {
				t = c09Corrupt(r, t)
			}
			if r.Bool() {
				t = strings.ReplaceAll(t, " ", string(Pick(r, c09SpaceRunes)))
			}
			out = append(out, fmt.Sprintf("xtpl %s %s %s %s", c09Opt(r), HexS(t), "6530;-;6532", "6b;76"))
		}
	}
	if tier == "thorough" {
		// exhaustive: every template over { } " \ space a 1 up to length 7 (both optimiser settings up to length 5),
		// and every splitter input over the same alphabet up to length 7
		var rec func(cur []rune)
		rec = func(cur []rune) {
			h := HexS(string(cur))
			out = append(out, fmt.Sprintf("tpl 0 %s %s %s", h, c09E, c09K))
			if len(cur) <= 5 {
				out = append(out, fmt.Sprintf("tpl 1 %s %s %s", h, c09E, c09K))
			}
			out = append(out, "split "+h)
			if len(cur) < 7 {
				for _, c := range c09Alphabet {
					rec(append(append([]rune{}, cur...), c))
				}
			}
		}
		rec(nil)
		// the same over an alphabet with a Unicode separator, a newline, an escape letter and a multi-byte rune,
		// up to length 6 (optimiser on: the other sweep covers it off)
		alpha2 := []rune{'{', '}', '"', '\\', ' ', 'n', 0xA0, '\n', 'é'}
		var rec2 func(cur []rune)
		rec2 = func(cur []rune) {
			h := HexS(string(cur))
			out = append(out, fmt.Sprintf("tpl 1 %s %s %s", h, c09E, c09K))
			out = append(out, "split "+h)
			if len(cur) < 6 {
				for _, c := range alpha2 {
					rec2(append(append([]rune{}, cur...), c))
				}
			}
		}
		rec2(nil)
		// exhaustive UTF-8: every byte string of length <= 2, every string of length 3 / 4 over the boundary bytes
		bnd := []byte{0x00, 0x41, 0x7f, 0x80, 0x8f, 0x90, 0x9f, 0xa0, 0xbf, 0xc0, 0xc1, 0xc2, 0xdf, 0xe0, 0xe1, 0xec, 0xed, 0xee, 0xef, 0xf0, 0xf1, 0xf3, 0xf4, 0xf5, 0xf7, 0xf8, 0xff}
		for a := 0; a < 256; a++ {
			out = append(out, "runes "+Hex([]byte{byte(a)}))
			for b := 0; b < 256; b++ {
				out = append(out, "runes "+Hex([]byte{byte(a), byte(b)}))
			}
		}
		for _, a := range bnd {
			for _, b := range bnd {
				for _, c := range bnd {
					out = append(out, "runes "+Hex([]byte{a, b, c}))
					if a >= 0xe0 {
						for _, d := range bnd {
							out = append(out, "runes "+Hex([]byte{a, b, c, d}))
						}
					}
				}
			}
		}
	}
	// trees over the standard function table (print_compile_std_fragment)
	out = append(out, c09FragCases(r, tier)...)
	// round 4: recording context (which look-up, which index) and errors.go as the user sees it
	out = append(out, c09R4Gen(r, tier)...)
	// round 4b: the exact list of syntax errors (kind, index, text, order) against the declarative `synErrs`
	out = append(out, c09R4bGen(r, tier)...)
	// round 4c: the world-relative fragment (format, binders, time helpers) against the tree semantics with binders
	out = append(out, c09R4cGen(r, tier)...)
	return out
}

func c09Stats(cases []string) map[string]int {
	st := map[string]int{}
	for _, c := range cases {
		f := strings.Fields(c)
		st["op."+f[0]]++
		switch f[0] {
		case "look":
			t := string(UnHex(f[2]))
			if len(t) > 2 && t[0] == '{' && !strings.ContainsAny(t[1:len(t)-1], "{} \t\"") {
				st["look.loneWord"]++
				if _, err := strconv.Atoi(t[1 : len(t)-1]); err == nil {
					st["look.loneWord.integer"]++
				}
			}
		case "cerr":
			t := string(UnHex(f[2]))
			if strings.Count(t, "{") != strings.Count(t, "}") {
				st["cerr.unbalancedBraces"]++
			}
		case "serr":
			t := string(UnHex(f[2]))
			if d := c09MaxDepth(t); d >= 2 {
				st["serr.nested"]++
			}
			if strings.Count(t, "{") != strings.Count(t, "}") {
				st["serr.unbalancedBraces"]++
			}
			if strings.Contains(t, "\\") {
				st["serr.hasBackslash"]++
			}
			if strings.Count(t, "{}")+strings.Count(t, "nofn") >= 2 {
				st["serr.severalDefects"]++
			}
		case "tpl":
			t := string(UnHex(f[2]))
			if strings.ContainsAny(t, "\\") {
				st["tpl.hasBackslash"]++
			}
			if strings.Contains(t, `"`) {
				st["tpl.hasQuote"]++
			}
			if strings.Count(t, "{") != strings.Count(t, "}") {
				st["tpl.unbalancedBraces"]++
			}
			if strings.HasSuffix(t, `\`) {
				st["tpl.trailingBackslash"]++
			}
			if string([]rune(t)) != t {
				st["tpl.invalidUtf8"]++
			}
			if d := c09MaxDepth(t); d >= 4 {
				st["tpl.depth>=4"]++
			}
			if strings.Contains(t, `""`) {
				st["tpl.adjacentQuotes"]++
			}
			for _, c := range t {
				if c > 0x7f && unicode.IsSpace(c) {
					st["tpl.unicodeSpace"]++
					break
				}
			}
		case "runes":
			t := string(UnHex(f[1]))
			if !utf8.ValidString(t) {
				st["runes.invalidUtf8"]++
			}
		case "split":
			t := string(UnHex(f[1]))
			if !utf8.ValidString(t) {
				st["split.invalidUtf8"]++
			}
			if strings.ContainsAny(t, "\\") {
				st["split.hasBackslash"]++
			}
		case "lit":
			t := string(UnHex(f[2]))
			if string([]rune(t)) != t {
				st["lit.invalidUtf8"]++
			}
			if strings.ContainsAny(t, "{}\\") {
				st["lit.needsEscape"]++
			}
		case "stree", "streex":
			st[f[0]+".nodes"] += strings.Count(f[2], ",") + 1
			for _, tok := range strings.Split(f[2], ",") {
				if strings.HasPrefix(tok, "C:") {
					st["stree.fn."+string(UnHex(strings.Split(tok, ":")[1]))]++
				}
			}
		case "wtree", "wtreex":
			st[f[0]+".nodes"] += strings.Count(f[2], ",") + 1
			for _, tok := range strings.Split(f[2], ",") {
				if strings.HasPrefix(tok, "C:") {
					st["wtree.fn."+string(UnHex(strings.Split(tok, ":")[1]))]++
				}
			}
		case "tree":
			st["tree.nodes"] += strings.Count(f[2], ",") + 1
			if strings.Contains(f[2], "C:") {
				st["tree.withCall"]++
			}
		}
	}
	return st
}

func c09MaxDepth(t string) int {
	d, m := 0, 0
	for _, c := range t {
		switch c {
		case '{':
			d++
			if d > m {
				m = d
			}
		case '}':
			if d > 0 {
				d--
			}
		}
	}
	return m
}

func init() {
	Register("C09", &Prop{Gen: c09Gen, Run: c09Run, Stats: c09Stats})
}

// c09Pass2 protects a text against the argument splitter (which drops one backslash level and splits
// at white space / quotes / braces).
func c09Pass2(s string) string {
	var sb strings.Builder
	for _, c := range s {
		switch c {
		case '\\', '"', '{', '}', ' ', '\t', '\n', '\r':
			sb.WriteByte('\\')
		}
		sb.WriteRune(c)
	}
	return sb.String()
}

// c09Pass1 protects a text against the outer scanner inside a statement (backslash escapes, brace depth).
func c09Pass1(s string) string {
	var sb strings.Builder
	for _, c := range s {
		switch c {
		case '\\', '{', '}':
			sb.WriteByte('\\')
		}
		sb.WriteRune(c)
	}
	return sb.String()
}
