//go:build c11 || c08 || c10

package main

import (
	"fmt"
	"os"
	"path/filepath"
	"rare/pkg/expressions"
	"rare/pkg/expressions/funclib"
	"strconv"
	"strings"
	"unicode/utf8"
)

// C11: scalar helper functions.  Every case is the shared `expr` op: a template `{helper a1 … an}`
// whose arguments are constants or match groups, compiled with opt=0 and opt=1.

type c11Kind int

const (
	kInt c11Kind = iota
	kSmallPos
	kFloat
	kStr
	kTruth
	kPath
	kTable
	kPrefix
	kCount
	kPrec
	kUint
	kPow10
	kIdx
)

type c11Helper struct {
	name  string
	min   int // smallest accepted arity
	max   int // largest accepted arity (-1 = unbounded)
	kinds []c11Kind
	rest  c11Kind
}

var c11Helpers = []c11Helper{
	{"sumi", 2, -1, nil, kInt}, {"subi", 2, -1, nil, kInt}, {"multi", 2, -1, nil, kInt},
	{"divi", 2, -1, nil, kInt}, {"modi", 2, -1, nil, kInt}, {"maxi", 2, -1, nil, kInt}, {"mini", 2, -1, nil, kInt},
	{"isint", 1, 1, nil, kInt}, {"isnum", 1, 1, nil, kFloat},
	{"bucket", 2, 2, []c11Kind{kInt, kSmallPos}, kInt}, {"bucketrange", 2, 2, []c11Kind{kInt, kSmallPos}, kInt},
	{"clamp", 3, 3, nil, kInt}, {"expbucket", 1, 1, []c11Kind{kPow10}, kInt},
	{"lt", 2, 2, nil, kFloat}, {"gt", 2, 2, nil, kFloat}, {"lte", 2, 2, nil, kFloat}, {"gte", 2, 2, nil, kFloat},
	{"sumf", 2, -1, nil, kFloat}, {"subf", 2, -1, nil, kFloat}, {"multf", 2, -1, nil, kFloat}, {"divf", 2, -1, nil, kFloat},
	{"pow", 2, -1, nil, kFloat},
	{"ceil", 1, 1, nil, kFloat}, {"floor", 1, 1, nil, kFloat}, {"log10", 1, 1, nil, kFloat}, {"log2", 1, 1, nil, kFloat},
	{"ln", 1, 1, nil, kFloat}, {"sqrt", 1, 1, nil, kFloat}, {"round", 1, 2, []c11Kind{kFloat, kPrec}, kInt},
	{"hf", 1, 1, nil, kFloat}, {"percent", 1, 4, []c11Kind{kFloat, kPrec, kFloat, kFloat}, kFloat},
	{"coalesce", 0, -1, nil, kTruth}, {"eq", 2, -1, nil, kTruth}, {"neq", 2, -1, nil, kTruth}, {"not", 1, 1, nil, kTruth},
	{"and", 0, -1, nil, kTruth}, {"or", 0, -1, nil, kTruth}, {"if", 2, 3, nil, kTruth}, {"unless", 2, 2, nil, kTruth},
	{"switch", 2, -1, nil, kTruth},
	{"len", 1, 1, nil, kStr}, {"like", 2, 2, nil, kStr}, {"prefix", 2, 2, nil, kStr}, {"suffix", 2, 2, nil, kStr},
	{"upper", 1, 1, nil, kStr}, {"lower", 1, 1, nil, kStr},
	{"substr", 3, 3, []c11Kind{kStr, kIdx, kIdx}, kInt}, {"select", 2, 2, []c11Kind{kStr, kIdx}, kInt},
	{"tab", 0, -1, nil, kStr}, {"$", 0, -1, nil, kStr}, {"@", 0, -1, nil, kStr}, {"csv", 0, -1, nil, kStr},
	{"hi", 1, 1, nil, kInt},
	{"bytesize", 1, 2, []c11Kind{kUint, kPrec}, kInt}, {"bytesizesi", 1, 2, []c11Kind{kUint, kPrec}, kInt},
	{"downscale", 1, 2, []c11Kind{kUint, kPrec}, kInt},
	{"lookup", 2, 3, []c11Kind{kStr, kTable, kPrefix}, kStr}, {"haskey", 2, 3, []c11Kind{kStr, kTable, kPrefix}, kStr},
	{"repeat", 2, 2, []c11Kind{kStr, kCount}, kInt},
	{"basename", 1, 1, nil, kPath}, {"dirname", 1, 1, nil, kPath}, {"extname", 1, 1, nil, kPath},
	{"format", 1, -1, []c11Kind{kStr}, kStr},
}

var c11Ints = []string{
	"0", "1", "-1", "2", "3", "5", "7", "10", "50", "99", "100", "-100", "-50", "-99", "-101", "-150", "999", "1000", "1001",
	"-1000", "123456", "1234567", "-1234567", "12", "123", "1234", "12345",
	"9223372036854775807", "-9223372036854775808", "9223372036854775808", "-9223372036854775809",
	"9223372036854775806", "-9223372036854775807", "4611686018427387904", "3037000500", "-3037000500",
	"+5", "-0", "+0", "007", "-007", "", " ", " 5", "5 ", "abc", "1.5", "1e3", "0x10", "5\x00", "\xff", "١",
	"1_000", "--1", "+", "-", "+-1", "12a", "\t7", "7\n", "00", "18446744073709551615", "18446744073709551616",
}

var c11Floats = []string{
	"0", "1", "-1", "2", "10", "100", "1000", "-1000", "0.5", "1.5", "-2.25", "0.1", "0.10", ".5", "5.", "-.5", "+.5", "+5", "-0",
	"007", "0.0", "-0.0", "3.14159", "2.5", "999.999", "1000.0", "123456789012345", "1234567890123456", "0.30000000000000004",
	"0.1000000000000000055511151231257827", "1.0000000000000001", "9007199254740993", "9223372036854775807",
	"1e3", "1E3", "1e-3", "1e400", "inf", "-inf", "+Inf", "nan", "NaN", "infinity", "0x1p-2", "0x10", "1_0", ".", "-.", "+", "-", "",
	" ", " 1", "1 ", "abc", "1..2", "1.2.3", "1,5", "5x", "e5", "1e", "\xff", "1\x00", "--1", "i", "n", "12ab", "١",
}

var c11Strs = []string{
	"", "a", "abc", "abcdef", "hello world", "a b c", "a  b", " a b ", "say \"hi\" now", "\"q w\" e", "a,b", "a,\"b\"", "line\nbreak",
	"tab\there", "\x00", "a\x00b\x00c", "\xff\xfe", "a\xffb", "héllo", "ÀÉ", "ABC def", "MiXeD 123", " ", "  x  ", "a\rb", "\"", "\"\"",
	",", "日本語", "x", "ab", "bc", "b", "cd", "def", "{0}", "a\\b", "{", "}", "zıſ", "\r\n", "a\"b\"c d", "one two three four",
	"\"one two\" three", "a\tb\nc", "%s-%d", "%v", "%", " ", "q r",
}

var c11Truth = []string{"", " ", "1", "0", "abc", "\t", "\n ", " ", "  ", " x ", "\x00", "false", "a", "b", "\xc2", "\u0085", "　"}

var c11Paths = []string{
	"", "/", "a", "a/b", "/a/b", "/a/b.txt", "a/b/c.tar.gz", "a/", "a//b", "./a", "../a", "/a/./b", ".", "..", ".hidden", "a.b/c", "/.x",
	"//", "a/b/", "x.", "/a", "a/b/c/d", "/usr/lib/x.so.1", "a/../b", "a/./", "///a", "a/b//", "noext", "a\\b", "a\x00/b.c", "hé/l.é",
	"a/.", "a/..", "a/b/..", "/..", ".a/b", "a b/c d.e f",
	"a/b/../c/x", "../../a/b", "/../a/x", "a/../../b/x", "/a/b/../../../c/d", "./../x/y", "a/./b/./c", "..//x", "a//b//c/",
	"../..", "/../..", "a/../x", "x/../../", ".../a", "..a/b", "a/..b/c", "a/b/../../x", "a/b/../../../x", "/./x", "/a/../x",
	"../a/../../b/c", "a/b/c/../../../../d/e", "./", "./.", "../", "..//", "/a//../b/", "\xff/../x/y", "a/\x00/../b",
}

var c11Tables = []string{
	"a 1\nb 2\nc", "#c\na 1\na 2", "k v extra\nx y", "a\t1\r\nb  2\r\n", "", "\n\n", "# a 1\nb 2", "a 1\n b 2", "abc def",
	"a 1\nb 2\na 3\n", "  a   1  \n\n b\n", "a\r\nb 2\r", "x", "#x", "# #\n## 1", "a 1 \x00\nb\x002 3", "\xffk v", "a 1\n#a 2\n//a 3", "abc 1\nab 2\na 3",
	"a\u00a0b 1", "k\u2003v", "\u3000k v\u3000", "a\xc2b 1", "a\xe2\x80 b", "k\u0085v\nz\u20281", "\xe2\x80\xa8 k v", "k\u200bv w",
	"k\u1680v\u205fw", "\xe2\xc2\x85k v", "a\u202fb\nq\xe3\x80r s", "é 1\nü\u00a02", "k\u2028v", "k\xe2\x80\x8bv x",
}

var c11Prefixes = []string{"", "#", "//", "a", "# ", "b", "\x00"}

var c11Counts = []string{"0", "1", "2", "3", "10", "-1", "-5", "100", "", "x", "1.5", "-9223372036854775808", "+2", "007",
	"1048576", "1048577", "524288", "524289", "349525", "349526", "1000000000000000000", "9223372036854775807", "4", "7"}

var c11Precs = []string{"0", "1", "2", "3", "-1", "-2", "10", "", "x", "1.5", "+1", "0", "1", "2",
	"1023", "1024", "1025", "50000000000", "9223372036854775807", "-9223372036854775808"}

var c11Uints = []string{
	"0", "1", "999", "1000", "1001", "1023", "1024", "1025", "1500", "2048", "1000000", "1048576", "1073741824", "1000000000", "5000000",
	"999999", "1048575", "-1", "-1000", "-1024", "-999", "-2000000", "+5", "007", "", "abc", "1.5", "9223372036854775807", "9223372036854775808",
	"18446744073709551615", "18446744073709551616", "-9223372036854775808", "1000000000000", "1099511627776", "1125899906842624",
	"9007199254740992", "9007199254740993", "3000000000000000", "123456789",
}

var c11Idx = []string{"0", "1", "2", "3", "4", "5", "6", "-1", "-2", "-3", "-6", "-7", "100", "-100", "9223372036854775807", "-9223372036854775808",
	"9223372036854775806", "", "x", "1.5", "+1", "-0", "007", " 1"}

func c11Pow10() []string {
	out := []string{"0", "-1", "-10", "1", "5", "9", "abc", "", "-9223372036854775808", "9223372036854775807"}
	p := int64(1)
	for k := 0; k < 19; k++ {
		out = append(out, strconv.FormatInt(p, 10), strconv.FormatInt(p-1, 10), strconv.FormatInt(p+1, 10))
		if k < 18 {
			out = append(out, strconv.FormatInt(p*5, 10))
			p *= 10
		}
	}
	return out
}

var c11Pow10s = c11Pow10()

func c11RandInt(r *Rand) string {
	mag := r.Intn(20)
	v := int64(r.U64() >> uint(63-3*mag%64))
	if mag == 0 {
		v = int64(r.Intn(2000))
	}
	if r.Bool() {
		v = -v
	}
	return strconv.FormatInt(v, 10)
}

func c11RandDec(r *Rand) string {
	s := strconv.Itoa(r.Intn(2000))
	if r.Bool() {
		s += "." + strconv.Itoa(r.Intn(1000))
	}
	if r.Chance(1, 3) {
		s = "-" + s
	}
	return s
}

// c11Respell re-spells an integer the way strconv.Atoi still accepts it: leading zeros (fixed-width fields),
// an explicit plus sign.  The value is unchanged, the text (and its length) is not.
func c11Respell(r *Rand, s string) string {
	if _, err := strconv.Atoi(s); err != nil || s == "" {
		return s
	}
	sign, digits := "", s
	if s[0] == '-' || s[0] == '+' {
		sign, digits = s[:1], s[1:]
	}
	switch r.Intn(4) {
	case 0:
		if sign == "" {
			return "+" + digits
		}
	case 1:
		return sign + "0" + digits
	case 2:
		return sign + strings.Repeat("0", r.Range(2, 4)) + digits
	case 3:
		if len(digits) < 20 {
			return sign + strings.Repeat("0", 20-len(digits)) + digits // 20 characters: longer than any int64
		}
	}
	return s
}

func c11Value(r *Rand, k c11Kind, prev []string) string {
	v := c11ValueRaw(r, k, prev)
	switch k {
	case kInt, kPow10, kUint, kIdx, kSmallPos:
		if r.Chance(1, 6) {
			return c11Respell(r, v)
		}
	}
	return v
}

func c11ValueRaw(r *Rand, k c11Kind, prev []string) string {
	switch k {
	case kInt:
		if r.Chance(1, 4) {
			return c11RandInt(r)
		}
		return Pick(r, c11Ints)
	case kSmallPos:
		if r.Chance(1, 5) {
			return Pick(r, c11Ints)
		}
		return Pick(r, []string{"1", "2", "3", "5", "10", "50", "100", "1000", "7", "9223372036854775807", "0", "-1", "-50"})
	case kFloat:
		if r.Chance(1, 4) {
			return c11RandDec(r)
		}
		if r.Chance(1, 6) {
			return Pick(r, c11Ints)
		}
		return Pick(r, c11Floats)
	case kStr:
		if len(prev) > 0 && prev[0] != "" && r.Chance(1, 3) {
			// a piece of the first argument (for like / prefix / suffix)
			s := prev[0]
			a := r.Intn(len(s) + 1)
			b := a + r.Intn(len(s)-a+1)
			switch r.Intn(3) {
			case 0:
				return s[:b]
			case 1:
				return s[a:]
			}
			return s[a:b]
		}
		return Pick(r, c11Strs)
	case kTruth:
		return Pick(r, c11Truth)
	case kPath:
		return Pick(r, c11Paths)
	case kTable:
		return Pick(r, c11Tables)
	case kPrefix:
		return Pick(r, c11Prefixes)
	case kCount:
		return Pick(r, c11Counts)
	case kPrec:
		return Pick(r, c11Precs)
	case kUint:
		if r.Chance(1, 5) {
			return c11RandInt(r)
		}
		return Pick(r, c11Uints)
	case kPow10:
		return Pick(r, c11Pow10s)
	case kIdx:
		return Pick(r, c11Idx)
	}
	return ""
}

// c11Const renders a constant argument, or ok=false when the value cannot be written as one
// (template escapes are C09's subject; non-UTF-8 cannot survive []rune(template)).
func c11Const(v string, quote bool) (string, bool) {
	if !utf8.ValidString(v) || strings.ContainsAny(v, "\\{}") {
		return "", false
	}
	needQuote := quote || v == ""
	for _, c := range v {
		if c == '"' || c == ' ' || c == '\t' || c == '\n' || c == '\r' || c == '\v' || c == '\f' || c > 0x7f {
			needQuote = true
		}
	}
	if !needQuote {
		return v, true
	}
	// three unescape levels: Compile, splitTokenizedArguments, Compile of the argument
	return "\"" + strings.ReplaceAll(v, "\"", "\\\\\\\"") + "\"", true
}

type c11Arg struct {
	val   string
	mode  int // 0 const, 1 group, 2 key
	quote bool
}

// c11Case builds the case line for helper name applied to args.
func c11Case(opt bool, name string, args []c11Arg) string {
	var sb strings.Builder
	sb.WriteString("{" + name)
	var elems, keys []string
	for i, a := range args {
		sb.WriteString(" ")
		mode := a.mode
		var lit string
		if mode == 0 {
			var ok bool
			lit, ok = c11Const(a.val, a.quote)
			if !ok {
				mode = 1
			}
		}
		switch mode {
		case 0:
			sb.WriteString(lit)
		case 1:
			for len(elems) < i {
				elems = append(elems, "pad")
			}
			// group index = position in elems
			sb.WriteString(fmt.Sprintf("{%d}", len(elems)))
			elems = append(elems, a.val)
		case 2:
			k := fmt.Sprintf("k%d", i)
			sb.WriteString("{" + k + "}")
			keys = append(keys, k, a.val)
		}
	}
	sb.WriteString("}")
	return ExprCase(opt, sb.String(), elems, keys)
}

func c11Both(out []string, name string, args []c11Arg) []string {
	return append(out, c11Case(false, name, args), c11Case(true, name, args))
}

func c11Mode(r *Rand) int {
	switch r.Intn(10) {
	case 0:
		return 2
	case 1, 2, 3, 4:
		return 1
	}
	return 0
}

func c11GenHelper(r *Rand, h c11Helper) []c11Arg {
	// arity: mostly valid, sometimes one below / above
	hi := h.max
	if hi < 0 {
		hi = h.min + 2
	}
	n := r.Range(h.min, hi)
	if r.Chance(1, 8) {
		n = r.Range(0, hi+1)
	}
	args := make([]c11Arg, n)
	vals := []string{}
	for i := 0; i < n; i++ {
		k := h.rest
		if i < len(h.kinds) {
			k = h.kinds[i]
		}
		// (not for precisions and repeat counts: their pools hold the boundary values of the caps
		// maxPrecision / maxRepeatBytes; a precision supplied by a match group is rejected as <CONST>)
		if k != kPrec && k != kCount && r.Chance(1, 25) { // a value of a foreign kind
			k = c11Kind(r.Intn(int(kIdx) + 1))
		}
		v := c11Value(r, k, vals)
		vals = append(vals, v)
		args[i] = c11Arg{val: v, mode: c11Mode(r), quote: r.Chance(1, 4)}
	}
	return args
}

func c11Gen(r *Rand, tier string) []string {
	per := 28
	if tier == "thorough" {
		per = 3000
	}
	var out []string
	// csv: every character that forces quoting, alone and combined, as group values (mode 1) and constants
	for _, v := range []string{"a\rb", "\r", "x\r", "\r\n", "a\"b", "\"", ",", "a,b", "a\nb", "\n", "plain", "", " ", "a\r,b"} {
		out = append(out, c11Case(true, "csv", []c11Arg{{val: v, mode: 1}}))
		out = append(out, c11Case(false, "csv", []c11Arg{{val: "k", mode: 1}, {val: v, mode: 1}}))
		out = append(out, c11Case(true, "csv", []c11Arg{{val: v, mode: 1}, {val: v, mode: 1}, {val: "z", mode: 1}}))
	}
	for _, h := range c11Helpers {
		n := per
		if h.name == "format" {
			n = per / 4
		}
		for i := 0; i < n; i++ {
			out = c11Both(out, h.name, c11GenHelper(r, h))
		}
	}
	// spellings, always: the unary integer helpers on non-canonical spellings of small and large values
	for _, v := range []string{"+5", "007", "0123", "+100", "00000000000000000001", "-007", "+0", "00", "0999", "+1000", "01000",
		"+9223372036854775807", "09223372036854775807", "-09223372036854775808"} {
		for _, name := range []string{"expbucket", "hi", "isint", "downscale", "bytesize", "bytesizesi"} {
			out = c11Both(out, name, []c11Arg{{val: v, mode: 1}})
		}
		out = c11Both(out, "bucket", []c11Arg{{val: v, mode: 1}, {val: "010"}})
		out = c11Both(out, "clamp", []c11Arg{{val: v, mode: 1}, {val: "+1"}, {val: "0100"}})
		out = c11Both(out, "substr", []c11Arg{{val: "abcdef", mode: 1}, {val: v, mode: 1}, {val: "+2"}})
	}
	// boundary grid, always: integer helpers on all pairs of the extreme values, constants and groups
	ext := []string{"0", "1", "-1", "2", "-2", "10", "9223372036854775807", "-9223372036854775808", "9223372036854775806", "-9223372036854775807"}
	for _, name := range []string{"sumi", "subi", "multi", "divi", "modi", "maxi", "mini"} {
		for _, a := range ext {
			for _, b := range ext {
				m := r.Intn(2)
				out = c11Both(out, name, []c11Arg{{val: a, mode: m}, {val: b, mode: 1 - m}})
			}
		}
	}
	out = append(out, c11ArityGrid(r)...)
	out = append(out, c11PercentGrid(r)...)
	out = append(out, c11CompareGrid(r)...)
	if tier == "thorough" {
		out = append(out, c11Exhaustive(r)...)
		out = append(out, c11LookupCases(r, 20000, true)...)
	} else {
		out = append(out, c11LookupCases(r, 300, false)...)
	}
	return out
}

func c11Exhaustive(r *Rand) []string {
	var out []string
	itoa := strconv.Itoa
	// bucket / bucketrange around zero
	for v := -26; v <= 26; v++ {
		for s := 1; s <= 6; s++ {
			for _, name := range []string{"bucket", "bucketrange"} {
				out = c11Both(out, name, []c11Arg{{val: itoa(v), mode: (v + s) & 1}, {val: itoa(s)}})
			}
		}
	}
	for _, v := range []string{"9223372036854775807", "-9223372036854775808", "9223372036854775800", "-9223372036854775800", "-9223372036854775807"} {
		for _, s := range []string{"1", "2", "7", "10", "1000", "9223372036854775807", "4611686018427387904"} {
			for _, name := range []string{"bucket", "bucketrange"} {
				out = c11Both(out, name, []c11Arg{{val: v, mode: 1}, {val: s}})
			}
		}
	}
	// clamp grid
	for v := -4; v <= 4; v++ {
		for lo := -3; lo <= 3; lo++ {
			for hi := -3; hi <= 3; hi++ {
				out = c11Both(out, "clamp", []c11Arg{{val: itoa(v), mode: 1}, {val: itoa(lo)}, {val: itoa(hi)}})
			}
		}
	}
	// substr on a fixed string
	for left := -8; left <= 8; left++ {
		for ln := -2; ln <= 8; ln++ {
			out = c11Both(out, "substr", []c11Arg{{val: "abcde", mode: left & 1}, {val: itoa(left), mode: ln & 1}, {val: itoa(ln)}})
		}
	}
	// hi: every digit count, both signs, around powers of ten
	for _, p := range c11Pow10s {
		out = c11Both(out, "hi", []c11Arg{{val: p, mode: 1}})
		out = c11Both(out, "hi", []c11Arg{{val: "-" + p, mode: 1}})
		out = c11Both(out, "expbucket", []c11Arg{{val: p, mode: 1}})
		out = c11Both(out, "expbucket", []c11Arg{{val: c11Respell(r, p), mode: 1}})
		out = c11Both(out, "hi", []c11Arg{{val: c11Respell(r, p), mode: 1}})
		out = c11Both(out, "downscale", []c11Arg{{val: c11Respell(r, p), mode: 1}})
		out = c11Both(out, "downscale", []c11Arg{{val: p, mode: 1}})
		out = c11Both(out, "bytesizesi", []c11Arg{{val: p, mode: 1}, {val: "1"}})
	}
	for k := 0; k < 64; k++ {
		out = c11Both(out, "bytesize", []c11Arg{{val: strconv.FormatUint(uint64(1)<<uint(k), 10), mode: 1}, {val: itoa(k % 3)}})
		out = c11Both(out, "hi", []c11Arg{{val: strconv.FormatUint(uint64(1)<<uint(k), 10), mode: 1}})
	}
	for v := -1100; v <= 1100; v += 7 {
		out = c11Both(out, "hi", []c11Arg{{val: itoa(v), mode: 1}})
	}
	// select: all strings over {a, b, space, quote} up to length 5, indices -1..3 (groups only)
	alpha := []byte{'a', 'b', ' ', '"'}
	var rec func(cur []byte)
	rec = func(cur []byte) {
		for idx := -1; idx <= 3; idx++ {
			out = append(out, c11Case(idx&1 == 0, "select", []c11Arg{{val: string(cur), mode: 1}, {val: itoa(idx)}}))
		}
		if len(cur) < 5 {
			for _, c := range alpha {
				rec(append(append([]byte{}, cur...), c))
			}
		}
	}
	rec(nil)
	// csv: all strings over {a , " \n \r} up to length 3, as first of two items
	alpha2 := []byte{'a', ',', '"', '\n', '\r'}
	var rec2 func(cur []byte)
	rec2 = func(cur []byte) {
		out = append(out, c11Case(len(cur)&1 == 0, "csv", []c11Arg{{val: string(cur), mode: 1}, {val: "x,y", mode: 1}}))
		out = append(out, c11Case(len(cur)&1 == 1, "csv", []c11Arg{{val: string(cur), mode: 1}}))
		if len(cur) < 3 {
			for _, c := range alpha2 {
				rec2(append(append([]byte{}, cur...), c))
			}
		}
	}
	rec2(nil)
	// comparisons on a decimal grid
	decs := []string{"0", "-0", "0.0", "1", "1.0", "01", "1.5", "1.50", "-1.5", "2", "10", "9.99", "-10", "0.1", "0.10", ".1", "100", "1e2"}
	for _, a := range decs {
		for _, b := range decs {
			for _, name := range []string{"lt", "gt", "lte", "gte"} {
				out = append(out, c11Case(len(a)&1 == 0, name, []c11Arg{{val: a, mode: len(b) & 1}, {val: b, mode: 1}}))
			}
		}
	}
	return out
}

func c11Run(f []string) (res string) {
	defer func() {
		if e := recover(); e != nil {
			res = "panic"
		}
	}()
	if len(f) == 5 && f[0] == "lookupfile" {
		return c11LookupFile(f)
	}
	for _, run := range c11ExtraRun {
		if s, ok := run(f); ok {
			return s
		}
	}
	if s, ok := exprRun(f); ok {
		return s
	}
	return "bad-op"
}

// c11LookupFile evaluates {lookup|haskey {0} {load FILE} [prefix]} on the real code with FILE
// holding the table text (so the text can be arbitrary bytes and as long as the scanner's limits).
func c11LookupFile(f []string) string {
	dir := os.Getenv("VERIF_WORK")
	if dir == "" {
		dir = "/verif/work/tmp"
	}
	os.MkdirAll(dir, 0o755)
	path := filepath.Join(dir, fmt.Sprintf("c11-lookup-%d.txt", os.Getpid()))
	if err := os.WriteFile(path, UnHex(f[3]), 0o644); err != nil {
		return "harness-error " + err.Error()
	}
	defer os.Remove(path)
	t := "{" + f[1] + " {0} {load " + path + "}"
	if f[4] != "." {
		t += " \"" + string(UnHex(f[4])) + "\""
	}
	t += "}"
	kb := funclib.NewKeyBuilderEx(true)
	compiled, _ := kb.Compile(t)
	if compiled == nil {
		return "nil-compiled"
	}
	val := compiled.BuildKey(&expressions.KeyBuilderContextArray{Elements: []string{string(UnHex(f[2]))}})
	return "ok val=" + HexS(val)
}

// c11LookupCases: tables with arbitrary bytes, and lines around bufio.MaxScanTokenSize.
func c11LookupCases(r *Rand, n int, big bool) []string {
	var out []string
	alpha := []string{"a", "b", "k", "v", " ", " ", "\t", "\n", "\n", "\r", "#", "/", "\x00", "\xff", "\xc2", "\x85", "\xa0",
		"\xe2", "\x80", "\xa8", "\x81", "\x9f", "\xe3", "\u00a0", "\u2003", "\u3000", "{", "}", "\\", "\"", "\v", "\f", "é"}
	prefixes := []string{".", ".", HexS("#"), HexS("//"), HexS("a"), HexS("# ")}
	for i := 0; i < n; i++ {
		var sb strings.Builder
		for j := r.Intn(30); j > 0; j-- {
			sb.WriteString(Pick(r, alpha))
		}
		content := sb.String()
		fields := strings.Fields(content)
		key := Pick(r, []string{"a", "k", "b", "", "v"})
		if len(fields) > 0 && r.Chance(2, 3) {
			key = Pick(r, fields)
		}
		out = append(out, fmt.Sprintf("lookupfile %s %s %s %s", Pick(r, []string{"lookup", "haskey"}), HexS(key), HexS(content), Pick(r, prefixes)))
	}
	if big {
		for _, ln := range []int{65534, 65535, 65536, 65537} {
			line := "k " + strings.Repeat("x", ln-2)
			for _, content := range []string{
				"a 1\n" + line + "\nz 9\n", "a 1\n" + line, line + "\nz 9", "a 1\n" + line[:ln-1] + "\r\nz 9",
				strings.Repeat("q 1\n", 20000) + line + "\nz 9\n",
			} {
				for _, key := range []string{"k", "z", "a"} {
					out = append(out, fmt.Sprintf("lookupfile %s %s %s .", Pick(r, []string{"lookup", "haskey"}), HexS(key), HexS(content)))
				}
			}
		}
	}
	return out
}

func c11Stats(cases []string) map[string]int {
	st := map[string]int{}
	for _, g := range c11ExtraStats {
		g(cases, st)
	}
	for _, c := range cases {
		f := strings.Fields(c)
		if len(f) != 5 || f[0] == "f64" {
			continue
		}
		if f[0] == "lookupfile" {
			st["op.lookupfile"]++
			if len(f[3]) > 100000 {
				st["op.lookupfile.longLine"]++
			}
			continue
		}
		st["opt."+f[1]]++
		t := string(UnHex(f[2]))
		name := strings.TrimPrefix(strings.Fields(t + " ")[0], "{")
		name = strings.TrimSuffix(name, "}")
		st["helper."+name]++
		if f[3] != "." {
			st["args.withGroups"]++
		} else {
			st["args.constOnly"]++
		}
		if f[4] != "." {
			st["args.withKeys"]++
		}
	}
	return st
}

// Hooks for further C11 case families living in files with the build tag `c11` only
// (c11Gen itself is also the expression generator of C08 and C10 and must stay `expr`-only).
var c11ExtraGen []func(r *Rand, tier string) []string
var c11ExtraRun []func(f []string) (string, bool)
var c11ExtraStats []func(cases []string, st map[string]int)

func c11GenAll(r *Rand, tier string) []string {
	out := c11Gen(r, tier)
	for _, g := range c11ExtraGen {
		out = append(out, g(r, tier)...)
	}
	return out
}

func init() {
	Register("C11", &Prop{Gen: c11GenAll, Run: c11Run, Stats: c11Stats})
}
