//go:build c20

package main

import (
	"bytes"
	"fmt"
	"os"
	"strconv"
	"strings"
	"sync"
	"unicode/utf8"

	"rare/pkg/multiterm"
)

// ---------------------------------------------------------------- stdout capture

var c20mu sync.Mutex

// c20Capture runs fn with os.Stdout replaced by a pipe and returns everything written to it.
func c20Capture(fn func()) []byte {
	c20mu.Lock()
	defer c20mu.Unlock()
	r, w, err := os.Pipe()
	if err != nil {
		panic(err)
	}
	old := os.Stdout
	done := make(chan []byte, 1)
	go func() {
		// bounded in memory: an implementation that prints for ever (a looping goTo) must not fill the
		// harness; everything beyond the cap is drained and dropped (the truncated answer mismatches)
		const capBytes = 8 << 20
		var b []byte
		buf := make([]byte, 64<<10)
		for {
			n, err := r.Read(buf)
			if n > 0 && len(b) < capBytes {
				b = append(b, buf[:n]...)
			}
			if err != nil {
				break
			}
		}
		done <- b
	}()
	func() {
		defer func() {
			os.Stdout = old
			w.Close()
		}()
		os.Stdout = w
		fn()
	}()
	b := <-done
	r.Close()
	return b
}

// ---------------------------------------------------------------- Go copy of the reference terminal (Rare.C20.Scr)

// c20Width is the Go copy of Rare.C20.eaWidth (cells occupied by a rune).
func c20Width(r rune) int {
	switch {
	case r < 32 || (r >= 127 && r < 160):
		return 0
	case (r >= 0x300 && r <= 0x36F) || (r >= 0x200B && r <= 0x200F) || (r >= 0xFE00 && r <= 0xFE0F):
		return 0
	case (r >= 0x1100 && r <= 0x115F) || (r >= 0x2E80 && r <= 0x303E) || (r >= 0x3041 && r <= 0x4DBF) ||
		(r >= 0x4E00 && r <= 0xA4CF) || (r >= 0xAC00 && r <= 0xD7A3) || (r >= 0xF900 && r <= 0xFAFF) ||
		(r >= 0xFE30 && r <= 0xFE6F) || (r >= 0xFF00 && r <= 0xFF60) || (r >= 0xFFE0 && r <= 0xFFE6) ||
		(r >= 0x1F300 && r <= 0x1F64F) || (r >= 0x1F900 && r <= 0x1F9FF) || (r >= 0x20000 && r <= 0x3FFFD):
		return 2
	}
	return 1
}

type vt struct {
	w, h     int
	onlcr    bool
	rows     [][]rune
	row, col int
	vis      bool
	ps       int // 0 ground, 1 esc, 2 csi
	params   []rune
}

func newVT(w, h int, onlcr bool) *vt {
	if w < 0 {
		w = 0
	}
	return &vt{w: w, h: h, onlcr: onlcr, rows: make([][]rune, h), vis: true}
}

func (t *vt) getRow(i int) []rune {
	if i < len(t.rows) {
		return t.rows[i]
	}
	return nil
}

func (t *vt) setRow(i int, v []rune) {
	for i >= len(t.rows) {
		t.rows = append(t.rows, nil)
	}
	t.rows[i] = v
}

func (t *vt) down() {
	if t.row+1 < t.h {
		t.row++
		return
	}
	n := make([][]rune, len(t.rows))
	for j := range n {
		if j+1 < t.h && j+1 < len(t.rows) {
			n[j] = t.rows[j+1]
		}
	}
	t.rows = n
}

func writeAt(cells []rune, c int, r rune) []rune {
	var out []rune
	if c <= len(cells) {
		out = append(out, cells[:c]...)
	} else {
		out = append(out, cells...)
		for len(out) < c {
			out = append(out, ' ')
		}
	}
	out = append(out, r)
	if c+1 < len(cells) {
		out = append(out, cells[c+1:]...)
	}
	return out
}

func (t *vt) put(r rune) {
	w := c20Width(r)
	if w == 0 {
		return
	}
	if t.col+w > t.w {
		t.down()
		t.col = 0
	}
	cells := writeAt(t.getRow(t.row), t.col, r)
	if w == 1 {
		t.setRow(t.row, cells)
		t.col++
	} else {
		t.setRow(t.row, writeAt(cells, t.col+1, 0))
		t.col += 2
	}
}

func parseNum(p []rune) (int, bool) {
	if len(p) == 0 {
		return 0, false
	}
	n := 0
	for _, d := range p {
		if d < '0' || d > '9' {
			return 0, false
		}
		n = n*10 + int(d-'0')
		if n > 1<<40 {
			n = 1 << 40
		}
	}
	return n, true
}

func (t *vt) dispatch(final rune) {
	p := string(t.params)
	switch final {
	case 'A':
		n, ok := 1, true
		if len(t.params) > 0 {
			n, ok = parseNum(t.params)
		}
		if !ok {
			return
		}
		if n == 0 {
			n = 1
		}
		if n > t.row {
			n = t.row
		}
		t.row -= n
	case 'K':
		if p == "" || p == "0" {
			cells := t.getRow(t.row)
			if t.col < len(cells) {
				t.setRow(t.row, append([]rune{}, cells[:t.col]...))
			}
		}
	case 'l':
		if p == "?25" {
			t.vis = false
		}
	case 'h':
		if p == "?25" {
			t.vis = true
		}
	}
}

func (t *vt) c0(r rune) {
	switch r {
	case 10, 11, 12:
		t.down()
		if t.onlcr {
			t.col = 0
		}
	case 13:
		t.col = 0
	case 8:
		if t.col > 0 {
			t.col--
		}
	case 9:
		if t.col+1 < t.w {
			n := (t.col/8 + 1) * 8
			if n > t.w-1 {
				n = t.w - 1
			}
			t.col = n
		}
	}
}

func (t *vt) step(r rune) {
	switch {
	case r == 27:
		t.ps = 1
		return
	case r == 24 || r == 26:
		t.ps = 0
		return
	case r < 32:
		t.c0(r)
		return
	}
	switch t.ps {
	case 0:
		if r != 127 {
			t.put(r)
		}
	case 1:
		switch {
		case r >= 127:
		case r == '[':
			t.ps = 2
			t.params = nil
		default:
			t.ps = 0
		}
	case 2:
		switch {
		case r <= 0x3f:
			t.params = append(t.params, r)
		case r <= 0x7e:
			t.ps = 0
			t.dispatch(r)
		}
	}
}

func (t *vt) feed(b []byte) {
	for _, r := range []rune(string(b)) {
		t.step(r)
	}
}

func (t *vt) rowsOut(n int) string {
	out := make([][]byte, n)
	for i := 0; i < n; i++ {
		out[i] = []byte(string(t.getRow(i)))
	}
	return HexList(out)
}

// ---------------------------------------------------------------- history parsing

type c20Item struct {
	close bool
	line  int
	text  string
}

func c20ParseHist(s string) []c20Item {
	if s == "." {
		return nil
	}
	var out []c20Item
	for _, p := range strings.Split(s, ",") {
		if p == "c" {
			out = append(out, c20Item{close: true})
			continue
		}
		kv := strings.SplitN(p, ":", 2)
		n, err := strconv.Atoi(kv[0])
		if err != nil {
			panic("bad history item " + p)
		}
		out = append(out, c20Item{line: n, text: string(UnHex(kv[1]))})
	}
	return out
}

func c20MaxLine(h []c20Item) int {
	m := 0
	for _, it := range h {
		if !it.close && it.line > m {
			m = it.line
		}
	}
	return m
}

func b01(b bool) string {
	if b {
		return "1"
	}
	return "0"
}

func visibleRunes(rs []rune) []rune {
	var out []rune
	in := false
	for _, r := range rs {
		if in {
			if r == 'm' {
				in = false
			}
		} else if r == 27 {
			in = true
		} else {
			out = append(out, r)
		}
	}
	return out
}

// ---------------------------------------------------------------- running the real code

// c20Init: the package state of linetrim.go right after its init() ran in this process, before any hook touched it.
// The harness' stdout is a file or a pipe, never a terminal, so this is the "not a TTY" branch of init()
// (trimming off, 24 x 80); the TTY branch is reached by extra/C20.py through a pseudo-terminal.
var c20Init = fmt.Sprintf("ok %s %d %d", b01(multiterm.AutoTrim), multiterm.TermRows(), multiterm.TermCols())

func c20Run(f []string) string {
	switch f[0] {
	case "vt":
		width, _ := strconv.Atoi(f[1])
		height, _ := strconv.Atoi(f[2])
		row0, _ := strconv.Atoi(f[3])
		t := newVT(width, height, f[4] == "1")
		t.row = row0
		t.feed(UnHex(f[5]))
		return fmt.Sprintf("ok rows=%s row=%d col=%d vis=%s", t.rowsOut(height), t.row, t.col, b01(t.vis))
	case "init":
		return c20Init
	case "size":
		rows, _ := strconv.Atoi(f[1])
		cols, _ := strconv.Atoi(f[2])
		multiterm.VerifSetTermSize(rows, cols)
		return fmt.Sprintf("ok %d %d", multiterm.TermRows(), multiterm.TermCols())
	case "term", "termx", "termh", "termf", "termspec":
		width, _ := strconv.Atoi(f[1])
		trim := f[2] == "1"
		clear, hide := true, true
		hs := f[3]
		height, row0 := -1, 0
		if f[0] == "termx" {
			clear, hide = f[3] == "1", f[4] == "1"
			hs = f[5]
		}
		if f[0] == "termh" || f[0] == "termspec" {
			height, _ = strconv.Atoi(f[2])
			row0, _ = strconv.Atoi(f[3])
			trim = f[4] == "1"
			hs = f[5]
		}
		h := c20ParseHist(hs)
		multiterm.VerifSetTermSize(24, width)
		multiterm.VerifSetAutoTrim(trim)
		out := c20Capture(func() {
			tw := multiterm.New()
			tw.ClearLine, tw.HideCursor = clear, hide
			for _, it := range h {
				if it.close {
					tw.Close()
				} else if f[0] == "termf" {
					tw.WriteForLinef(it.line, "%s", it.text)
				} else {
					tw.WriteForLine(it.line, it.text)
				}
			}
			tw.Close()
		})
		if height < 0 {
			height = c20MaxLine(h) + 3
		}
		t := newVT(width, height, false)
		t.row = row0
		t.feed(out)
		if f[0] == "termspec" {
			return fmt.Sprintf("ok rows=%s row=%d vis=%s", t.rowsOut(height), t.row, b01(t.vis))
		}
		return fmt.Sprintf("ok b=%s rows=%s row=%d vis=%s", Hex(out), t.rowsOut(height), t.row, b01(t.vis))
	case "same":
		// the live writer and the buffered writer on the same history: do they leave the same screen?
		width, _ := strconv.Atoi(f[1])
		h := c20ParseHist(f[3])
		multiterm.VerifSetTermSize(24, width)
		multiterm.VerifSetAutoTrim(f[2] == "1")
		panicked := false
		buf := c20Capture(func() {
			defer func() {
				if recover() != nil {
					panicked = true
				}
			}()
			b := multiterm.NewBufferedTerm()
			for _, it := range h {
				if it.close {
					b.Close()
				} else {
					b.WriteForLine(it.line, it.text)
				}
			}
			b.Close()
		})
		if panicked {
			return "panic"
		}
		live := c20Capture(func() {
			tw := multiterm.New()
			for _, it := range h {
				if it.close {
					tw.Close()
				} else {
					tw.WriteForLine(it.line, it.text)
				}
			}
			tw.Close()
		})
		height := c20MaxLine(h) + 3
		t1, t2 := newVT(width, height, true), newVT(width, height, true)
		t1.feed(live)
		t2.feed(buf)
		same := t1.rowsOut(height) == t2.rowsOut(height) && t1.row == t2.row && t1.col == t2.col && t1.vis == t2.vis
		return fmt.Sprintf("ok same=%s live=%d,%d,%s buf=%d,%d,%s", b01(same), t1.row, t1.col, b01(t1.vis), t2.row, t2.col, b01(t2.vis))
	case "trim":
		width, _ := strconv.Atoi(f[1])
		multiterm.VerifSetTermSize(24, width)
		multiterm.VerifSetAutoTrim(f[2] == "1")
		var buf bytes.Buffer
		multiterm.WriteLineNoWrap(&buf, string(UnHex(f[3])))
		rs := []rune(buf.String())
		inEsc := false
		for _, r := range rs {
			if inEsc {
				inEsc = r != 'm'
			} else {
				inEsc = r == 27
			}
		}
		cells := 0
		for _, r := range visibleRunes(rs) {
			cells += c20Width(r)
		}
		return fmt.Sprintf("ok %s v=%d e=%s c=%d", Hex(buf.Bytes()), len(visibleRunes(rs)), b01(inEsc), cells)
	case "vterm", "vtermf":
		h := c20ParseHist(f[1])
		v := multiterm.NewVirtualTerm()
		vpanic := false
		func() {
			defer func() {
				if recover() != nil {
					vpanic = true
				}
			}()
			c20VtermRun(v, h, f[0] == "vtermf")
		}()
		if vpanic {
			return "panic" // predicted by the model: write after Close, or negative line index
		}
		n := v.LineCount()
		lines := make([]string, n)
		for i := range lines {
			lines[i] = v.Get(i)
		}
		return fmt.Sprintf("ok n=%d closed=%s lines=%s g=%s,%s,%s", n, b01(v.IsClosed()), HexListS(lines),
			HexS(v.Get(-1)), HexS(v.Get(n)), HexS(v.Get(0)))
	case "bterm":
		width, _ := strconv.Atoi(f[1])
		h := c20ParseHist(f[3])
		multiterm.VerifSetTermSize(24, width)
		multiterm.VerifSetAutoTrim(f[2] == "1")
		n := 0
		panicked := false
		out := c20Capture(func() {
			defer func() {
				if recover() != nil {
					panicked = true
				}
			}()
			b := multiterm.NewBufferedTerm()
			for _, it := range h {
				if it.close {
					b.Close()
				} else {
					b.WriteForLine(it.line, it.text)
				}
			}
			b.Close()
			n = b.LineCount()
		})
		if panicked {
			return "panic"
		}
		t := newVT(width, n+2, true)
		t.feed(out)
		return fmt.Sprintf("ok b=%s rows=%s row=%d", Hex(out), t.rowsOut(n+1), t.row)
	case "cli":
		return c20RunOut(f)
	}
	return "bad-op"
}

func c20VtermRun(v *multiterm.VirtualTerm, h []c20Item, viaF bool) {
	for _, it := range h {
		if it.close {
			v.Close()
		} else if viaF {
			v.WriteForLinef(it.line, "%s", it.text)
		} else {
			v.WriteForLine(it.line, it.text)
		}
	}
}

// c20Stream builds an arbitrary terminal byte stream for the `vt` op: printable runes of every width class,
// C0 controls, complete / garbled / aborted / restarted escape sequences, invalid UTF-8.
func c20Stream(r *Rand, n int) string {
	var sb strings.Builder
	csi := []string{"\x1b[A", "\x1b[1A", "\x1b[2A", "\x1b[0A", "\x1b[10A", "\x1b[K", "\x1b[0K", "\x1b[1K", "\x1b[2K", "\x1b[?25l", "\x1b[?25h",
		"\x1b[?7l", "\x1b[25l", "\x1b[31m", "\x1b[0m", "\x1b[1;32m", "\x1b[m", "\x1b[3", "\x1b[", "\x1b", "\x1b[1;1H", "\x1b[2J", "\x1b[1B", "\x1b[;A", "\x1b[1;2A", "\x1b[ A"}
	c0 := []string{"\n", "\n", "\r", "\r", "\b", "\t", "\x0b", "\x0c", "\x18", "\x1a", "\x07", "\x00", "\x7f"}
	for i := 0; i < n; i++ {
		switch k := r.Intn(20); {
		case k < 9:
			sb.WriteByte(byte('a' + r.Intn(26)))
		case k < 10:
			sb.WriteByte(' ')
		case k < 12:
			sb.WriteString(Pick(r, c20Multi))
		case k < 13:
			sb.WriteString(Pick(r, c20Wide))
		case k < 15:
			sb.WriteString(Pick(r, c0))
		case k < 18:
			sb.WriteString(Pick(r, csi))
		case k < 19:
			sb.WriteString(Pick(r, c20Bad))
		default:
			sb.WriteString(Pick(r, []string{"\xff", "\xc3", "\xe4\xb8", "\xf0\x9f\x98", "\xed\xa0\x80", "\xc0\xaf"}))
		}
	}
	return sb.String()
}

// ---------------------------------------------------------------- generators

var c20Sgr = []string{"\x1b[31m", "\x1b[0m", "\x1b[1;32m", "\x1b[38;5;200m", "\x1b[m", "\x1b[4m"}
var c20Multi = []string{"é", "ß", "€", "𝄞", "\u00a0", "\ufffd", "ж", "→"}
var c20Wide = []string{"世", "界", "😀", "한", "Ａ", "e\u0301", "\u0085", "\u200b"}
var c20Bad = []string{"\x1b", "\x1b[", "\x1b[31", "\n", "\r", "\x1b[2K", "\x1b[1A", "\xff", "\xc3", "\xe4\xb8", "\xf0\x9f\x98", "\xed\xa0\x80", "\xc0\xaf", "\x7f", "\t", "\x1bm", "\x1bxm", "m",
	"\b", "\x0b", "\x0c", "\x18", "\x1a", "\x07", "\x00", "\x1b[3\n1m", "\x1b[3\x1b[1m", "\x1b(B", "\x1b[?25h", "\x1b[10A", "\x1b[3é1m"}

// c20Tails: unterminated colour sequences (allowed at the very end of a text of the class)
var c20Tails = []string{"\x1b", "\x1b[", "\x1b[31", "\x1b[1;3", "\x1b[38:5:"}

// c20Text builds a text of about `vis` visible runes; well-formed unless bad.
func c20Text(r *Rand, vis int, bad bool) string {
	var sb strings.Builder
	open := false
	wide := r.Chance(1, 8) // wide / zero-width runes: outside the class of the refinement theorems
	invalid := !bad && r.Chance(1, 10)
	for i := 0; i < vis; i++ {
		if r.Chance(1, 6) {
			sb.WriteString(Pick(r, c20Sgr))
			open = !open
		}
		if bad && r.Chance(1, 4) {
			sb.WriteString(Pick(r, c20Bad))
		}
		switch {
		case wide && r.Chance(1, 4):
			sb.WriteString(Pick(r, c20Wide))
		case invalid && r.Chance(1, 4):
			sb.WriteString(Pick(r, []string{"\xff", "\xc3", "\xe4\xb8", "\xf0\x9f\x98", "\xed\xa0\x80", "\xc0\xaf", "\x80"}))
		case r.Chance(1, 5):
			sb.WriteString(Pick(r, c20Multi))
		case r.Chance(1, 8):
			sb.WriteByte(' ')
		case r.Chance(1, 12):
			sb.WriteByte('m')
		default:
			sb.WriteByte(byte('a' + r.Intn(26)))
		}
	}
	if open || r.Chance(1, 5) {
		sb.WriteString("\x1b[0m")
	}
	if bad && r.Chance(1, 3) {
		sb.WriteString(Pick(r, c20Bad))
	}
	if !bad && r.Chance(1, 12) {
		sb.WriteString(Pick(r, c20Tails))
	}
	return sb.String()
}

// c20HistH: a history for a screen of `height` rows: lines climb beyond the bottom row; updates
// mostly go to lines that are still on the screen (reachable), sometimes to one that scrolled off.
func c20HistH(r *Rand, width, height int, trim bool) string {
	n := 1 + r.Intn(14)
	maxSoFar := 0
	var items []string
	for i := 0; i < n; i++ {
		var line int
		switch {
		case r.Chance(1, 3):
			line = maxSoFar + r.Intn(3)
		case r.Chance(1, 12):
			line = r.Intn(maxSoFar + 1) // anywhere, possibly scrolled off
		default:
			lo := maxSoFar - (height - 1)
			if lo < 0 {
				lo = 0
			}
			line = lo + r.Intn(maxSoFar-lo+1)
		}
		if line > maxSoFar {
			maxSoFar = line
		}
		vis := r.Intn(width + 3)
		if !trim && vis > width {
			vis = width
		}
		items = append(items, fmt.Sprintf("%d:%s", line, HexS(c20Text(r, vis, r.Chance(1, 25)))))
	}
	return strings.Join(items, ",")
}

func c20Hist(r *Rand, width int, trim bool, bad bool, allowClose bool) string {
	n := r.Intn(10)
	if r.Chance(1, 6) {
		n = r.Intn(25)
	}
	if n == 0 {
		return "."
	}
	maxL := Pick(r, []int{0, 1, 2, 3, 5, 12})
	var items []string
	for i := 0; i < n; i++ {
		if allowClose && r.Chance(1, 30) {
			items = append(items, "c")
			continue
		}
		line := r.Intn(maxL + 1)
		if bad && r.Chance(1, 15) {
			line = -r.Intn(3) - 1
		}
		// visible length around the width (growing / shrinking between updates), sometimes empty
		vis := width + r.Range(-3, 3)
		switch {
		case r.Chance(1, 4):
			vis = r.Intn(width + 1)
		case r.Chance(1, 10):
			vis = 0
		case r.Chance(1, 10):
			vis = width * 2
		}
		if !trim && !bad && vis > width {
			vis = width - r.Intn(2)
		}
		if vis < 0 {
			vis = 0
		}
		if vis > 60 {
			vis = 60
		}
		items = append(items, fmt.Sprintf("%d:%s", line, HexS(c20Text(r, vis, bad))))
	}
	return strings.Join(items, ",")
}

func c20Gen(r *Rand, tier string) []string {
	n := 2500
	if tier == "thorough" {
		n = 120000
	}
	out := []string{"init"}
	widths := []int{1, 2, 3, 4, 5, 8, 10, 20, 40, 80}
	for i := 0; i < n; i++ {
		width := Pick(r, widths)
		trim := r.Chance(2, 3)
		bad := r.Chance(1, 8)
		if bad && r.Chance(1, 6) {
			width = Pick(r, []int{0, -1, 1})
		}
		tb := 0
		if trim {
			tb = 1
		}
		switch k := r.Intn(28); {
		case k >= 27:
			if r.Chance(1, 8) {
				out = append(out, fmt.Sprintf("size %d %d", r.Range(-1, 300), r.Range(-1, 400)))
			} else if r.Chance(1, 2) {
				out = append(out, fmt.Sprintf("termf %d %d %s", width, tb, c20Hist(r, width, trim, bad, false)))
			} else {
				out = append(out, fmt.Sprintf("vtermf %s", c20Hist(r, width, true, bad, true)))
			}
		case k >= 24:
			if width < 0 {
				width = 0
			}
			height := Pick(r, []int{1, 2, 3, 4, 5, 8})
			out = append(out, fmt.Sprintf("vt %d %d %d %d %s", width, height, r.Intn(height), r.Intn(2), HexS(c20Stream(r, r.Intn(40)))))
		case k >= 20:
			height := Pick(r, []int{1, 2, 3, 4, 5, 8})
			row0 := r.Intn(height)
			if r.Chance(1, 3) {
				row0 = height - 1
			}
			out = append(out, fmt.Sprintf("termh %d %d %d %d %s", width, height, row0, tb, c20HistH(r, width, height, trim)))
		case k < 10:
			out = append(out, fmt.Sprintf("term %d %d %s", width, tb, c20Hist(r, width, trim, bad, false)))
		case k < 12:
			out = append(out, fmt.Sprintf("termx %d %d %d %d %s", width, tb, r.Intn(2), r.Intn(2), c20Hist(r, width, trim, bad, bad)))
		case k < 15:
			vis := width + r.Range(-2, 4)
			if r.Chance(1, 5) {
				vis = r.Intn(2*width + 2)
			}
			if vis < 0 {
				vis = 0
			}
			if vis > 100 {
				vis = 100
			}
			out = append(out, fmt.Sprintf("trim %d %d %s", width, tb, HexS(c20Text(r, vis, bad || r.Chance(1, 4)))))
		case k < 17:
			out = append(out, fmt.Sprintf("vterm %s", c20Hist(r, width, true, bad, true)))
		default:
			if r.Chance(1, 3) {
				out = append(out, fmt.Sprintf("same %d %d %s", width, tb, c20Hist(r, width, trim, bad, false)))
			} else {
				out = append(out, fmt.Sprintf("bterm %d %d %s", width, tb, c20Hist(r, width, trim, bad, bad && r.Chance(1, 2))))
			}
		}
	}
	out = append(out, c20GenOut(r, tier)...)
	if tier == "thorough" {
		// exhaustive: WriteLineNoWrap on every string over {a, ESC, m, [, é} up to length 5, widths 0..3 (6 for width 2)
		alpha := []string{"a", "\x1b", "m", "[", "é"}
		var rec func(cur string, depth int)
		rec = func(cur string, depth int) {
			for _, w := range []int{0, 1, 2, 3} {
				if depth <= 5 || w == 2 {
					out = append(out, fmt.Sprintf("trim %d 1 %s", w, HexS(cur)))
				}
			}
			if depth < 6 {
				for _, a := range alpha {
					rec(cur+a, depth+1)
				}
			}
		}
		rec("", 0)
		// exhaustive: every history of up to 3 updates over lines {0,1,3} and six texts, width 3, trim on and off
		texts := []string{"", "a", "abc", "abcd", "\x1b[31mab\x1b[0mcd", "é世x"}
		lines := []int{0, 1, 3}
		var hrec func(items []string)
		hrec = func(items []string) {
			hs := "."
			if len(items) > 0 {
				hs = strings.Join(items, ",")
			}
			out = append(out, "term 3 1 "+hs, "term 3 0 "+hs, "bterm 3 1 "+hs, "termh 3 3 1 1 "+hs, "termh 3 2 0 1 "+hs, "same 3 1 "+hs)
			if len(items) < 3 {
				for _, l := range lines {
					for _, t := range texts {
						hrec(append(append([]string{}, items...), fmt.Sprintf("%d:%s", l, HexS(t))))
					}
				}
			}
		}
		hrec(nil)
	}
	return out
}

func c20Stats(cases []string) map[string]int {
	st := map[string]int{}
	for _, c := range cases {
		f := strings.Fields(c)
		st["op."+f[0]]++
		hs := ""
		switch f[0] {
		case "vt":
			b := UnHex(f[5])
			if bytes.Contains(b, []byte("\x1b[")) {
				st["vt.withCsi"]++
			}
			if bytes.Contains(b, []byte("\n")) {
				st["vt.withLf"]++
			}
			if !utf8.Valid(b) {
				st["vt.invalidUtf8"]++
			}
			continue
		case "size", "termspec", "init":
			continue
		case "cli":
			st["cli.stdout."+f[4]]++
			if f[1] == "1" {
				st["cli.noout"]++
			}
			if f[2] == "2d" {
				st["cli.csvDash"]++
			} else if f[2] != "-" {
				st["cli.csvOther"]++
			}
			if f[3] == "1" {
				st["cli.snapshot"]++
			}
			continue
		case "vtermf":
			hs = f[1]
		case "term", "bterm", "termf", "same":
			hs = f[3]
			st[f[0]+".trim"+f[2]]++
		case "termh":
			hs = f[5]
			hh, _ := strconv.Atoi(f[2])
			r0, _ := strconv.Atoi(f[3])
			if r0+c20MaxLine(c20ParseHist(hs))+2 > hh {
				st["termh.scrolls"]++
			}
		case "termx":
			hs = f[5]
		case "vterm":
			hs = f[1]
		case "trim":
			t := string(UnHex(f[3]))
			w, _ := strconv.Atoi(f[1])
			if strings.Contains(t, "\x1b[") {
				st["trim.withSgr"]++
			}
			if len(visibleRunes([]rune(t))) > w {
				st["trim.longerThanWidth"]++
			}
			if len(t) != len([]rune(t)) {
				st["trim.multibyte"]++
			}
			continue
		}
		h := c20ParseHist(hs)
		st["hist.len."+strconv.Itoa(min(len(h), 10)/3*3)+"+"]++
		seen := map[int]int{}
		maxSeen := -1
		w, _ := strconv.Atoi(f[1])
		for _, it := range h {
			if it.close {
				st["hist.closeInside"]++
				continue
			}
			if it.line < 0 {
				st["hist.negativeLine"]++
			}
			if prev, ok := seen[it.line]; ok {
				st["hist.repeatLine"]++
				v := len(visibleRunes([]rune(it.text)))
				if v < prev {
					st["hist.shrinkingText"]++
				} else if v > prev {
					st["hist.growingText"]++
				}
			}
			if it.line > maxSeen+1 {
				st["hist.gap"]++
			}
			if it.line < maxSeen {
				st["hist.jumpUp"]++
			}
			if it.line > maxSeen {
				maxSeen = it.line
			}
			v := len(visibleRunes([]rune(it.text)))
			seen[it.line] = v
			if f[0] != "vterm" && v > w {
				st["text.widerThanTerm"]++
			}
			if f[0] != "vterm" && v == w {
				st["text.exactlyWidth"]++
			}
			if strings.Contains(it.text, "\x1b[") {
				st["text.withSgr"]++
			}
			if len(it.text) != len([]rune(it.text)) {
				st["text.multibyte"]++
			}
			if strings.ContainsAny(it.text, "\n\r") {
				st["text.withNewline"]++
			}
			if strings.ContainsAny(it.text, "\t\b\x0b\x0c") {
				st["text.withTabBs"]++
			}
			for _, r := range it.text {
				if c20Width(r) == 2 {
					st["text.wideRune"]++
					break
				}
			}
			if !utf8.ValidString(it.text) {
				st["text.invalidUtf8"]++
			}
		}
	}
	return st
}

func init() {
	Register("C20", &Prop{Gen: c20Gen, Run: c20Run, Stats: c20Stats})
}
