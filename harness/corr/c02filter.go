//go:build c02

package main

import (
	"bytes"
	"fmt"
	"io"
	"os"
	"path/filepath"
	"strconv"
	"strings"
	"sync"
	"unicode/utf8"

	"rare/cmd"
	"rare/pkg/color"
	"rare/pkg/matchers/dissect"
	"rare/pkg/matchers/fastregex"

	"github.com/urfave/cli/v2"
)

// The default output of `rare filter` through the REAL command (cmd.filterFunction, reached through the
// exported command table), in-process: the one-line input is a real file, stdout is a pipe.

var c02mu sync.Mutex

func c02Capture(fn func()) []byte {
	c02mu.Lock()
	defer c02mu.Unlock()
	r, w, err := os.Pipe()
	if err != nil {
		panic(err)
	}
	devnull, _ := os.OpenFile(os.DevNull, os.O_WRONLY, 0)
	oldOut, oldErr := os.Stdout, os.Stderr
	done := make(chan []byte, 1)
	go func() {
		b, _ := io.ReadAll(r)
		done <- b
	}()
	func() {
		defer func() {
			os.Stdout, os.Stderr = oldOut, oldErr
			w.Close()
			if devnull != nil {
				devnull.Close()
			}
		}()
		os.Stdout = w
		if devnull != nil {
			os.Stderr = devnull
		}
		fn()
	}()
	b := <-done
	r.Close()
	return b
}

// c02Indices: what the real matcher returns for the line (nil = no match)
func c02Indices(kind, pat string, line []byte) ([]int, bool) {
	switch kind {
	case "m":
		re, err := fastregex.CompileEx(pat, false)
		if err != nil {
			return nil, false
		}
		return re.CreateInstance().FindSubmatchIndex(line), true
	case "d":
		d, err := dissect.CompileEx(pat, false)
		if err != nil {
			return nil, false
		}
		return append([]int{}, d.CreateInstance().FindSubmatchIndex(line)...), true
	}
	return nil, false
}

func c02IntsStr(ix []int) string {
	if len(ix) == 0 {
		return "."
	}
	p := make([]string, len(ix))
	for i, v := range ix {
		p[i] = strconv.Itoa(v)
	}
	return strings.Join(p, ",")
}

var c02tmp string

func c02FilterRun(f []string) string {
	switch f[0] {
	case "filt":
		// filt <enabled> <m|d> <pattern> <line> <indices>
		if len(f) != 6 {
			return "bad-args"
		}
		kind, pat, line := f[2], string(UnHex(f[3])), UnHex(f[4])
		ix, ok := c02Indices(kind, pat, line)
		if !ok || c02IntsStr(ix) != f[5] || bytes.ContainsAny(line, "\n") {
			return "bad-case"
		}
		if c02tmp == "" {
			d, err := os.MkdirTemp("", "c02filt")
			if err != nil {
				return "bad-env"
			}
			c02tmp = d
		}
		path := filepath.Join(c02tmp, "in.txt")
		if err := os.WriteFile(path, append(append([]byte{}, line...), '\n'), 0o644); err != nil {
			return "bad-env"
		}
		flag := "-m"
		if kind == "d" {
			flag = "-d"
		}
		app := cli.NewApp()
		app.Commands = cmd.GetSupportedCommands()
		app.ExitErrHandler = func(*cli.Context, error) {}
		var runErr interface{}
		out := c02Capture(func() {
			defer func() { runErr = recover() }()
			color.Enabled = f[1] == "1"
			app.Run([]string{"rare", "filter", flag, pat, path})
		})
		color.Enabled = true
		if runErr != nil {
			return "panic"
		}
		return "ok " + Hex(out)
	case "filtl":
		// filtl <enabled> <-l> <num> <K|-> <m|d> <pattern> <lines> <indices;…>
		if len(f) != 9 {
			return "bad-args"
		}
		kind, pat := f[5], string(UnHex(f[6]))
		lines := UnHexList(f[7])
		var ixs []string
		var data []byte
		for _, l := range lines {
			ix, ok := c02Indices(kind, pat, l)
			if !ok || bytes.ContainsAny(l, "\n") {
				return "bad-case"
			}
			ixs = append(ixs, c02IntsStr(ix))
			data = append(append(data, l...), '\n')
		}
		if strings.Join(ixs, ";") != f[8] || len(lines) == 0 {
			return "bad-case"
		}
		if c02tmp == "" {
			d, err := os.MkdirTemp("", "c02filt")
			if err != nil {
				return "bad-env"
			}
			c02tmp = d
		}
		path := filepath.Join(c02tmp, "inl.txt")
		if err := os.WriteFile(path, data, 0o644); err != nil {
			return "bad-env"
		}
		args := []string{"rare", "filter"}
		if f[2] == "1" {
			args = append(args, "-l")
		}
		if f[3] != "0" {
			args = append(args, "-n", f[3])
		}
		if f[4] != "-" {
			args = append(args, "-e", "{src}:{line}:{"+f[4]+"}")
		}
		if kind == "d" {
			args = append(args, "-d", pat, path)
		} else {
			args = append(args, "-m", pat, path)
		}
		app := cli.NewApp()
		app.Commands = cmd.GetSupportedCommands()
		app.ExitErrHandler = func(*cli.Context, error) {}
		var runErr interface{}
		out := c02Capture(func() {
			defer func() { runErr = recover() }()
			color.Enabled = f[1] == "1"
			app.Run(args)
		})
		color.Enabled = true
		if runErr != nil {
			return "panic"
		}
		return "ok " + Hex(bytes.ReplaceAll(out, []byte(path), []byte("IN")))
	case "idx":
		// idx <m|d> <pattern> <line>: the real matcher's index list (used by extra/C02.py to build `filt` cases)
		if len(f) != 4 {
			return "bad-args"
		}
		ix, ok := c02Indices(f[1], string(UnHex(f[2])), UnHex(f[3]))
		if !ok {
			return "bad-pattern"
		}
		return "ok " + c02IntsStr(ix)
	case "vis":
		b := string(UnHex(f[1]))
		if !utf8.ValidString(b) {
			return "bad-case"
		}
		color.Enabled = true
		return fmt.Sprintf("ok %d", color.StrLen(b))
	}
	return "bad-op"
}

var c02Patterns = []string{
	`(\w+) (\d+)`, `(?P<word>\w+)( (?P<num>\d+))?`, `(a|(b))(c)?`, `^(\w*)$`, `(\d+)|(\w+)`, `((a)(b)?)+`, `(?:(b)|(a))*`,
	`\w+`, `.*`, `(.*)`, `()`, `(a)|b`, `(\S+)\s+(\S+)\s*(\S*)`, `((\w)(\w))(\w)?`, `(?i)(ERROR|warn) (.*)`, `(\x1b\[[0-9;]*m)(\w+)`,
	`(é+)|(\w)`, `^(?P<a>[^ ]*) (?P<b>[^ ]*)`, `x*`, `(m+)`, `(\[)(\d+)(m)`,
}

var c02Dissects = []string{`%{a} %{b}`, `%{a} %{?skip} %{c}`, `[%{lvl}] %{msg}`, `%{} %{x}`, `%{a}:%{b}:%{c}`, `pre %{x}`}

func c02FilterGen(r *Rand, tier string) []string {
	n := 260
	if tier == "thorough" {
		n = 6000
	}
	words := []string{"abc", "12", "b", "ab", "hello", "7", "", "c", "zzz", "ERROR", "warn", "é", "éé1", "m", "mm", "[31m", "x y",
		"\x1b[1m", "\x1b[0m", "\x1b[31m", "\x1b[38;5;196m", "\x1b", "\x1b[", "日本", "a:b", "[ok]", "pre", "\t"}
	var out []string
	for i := 0; i < n; i++ {
		var sb strings.Builder
		for k := r.Intn(5); k >= 0; k-- {
			sb.WriteString(Pick(r, words))
			if k > 0 {
				sb.WriteString(Pick(r, []string{" ", " ", "", ":"}))
			}
		}
		line := sb.String()
		kind, pat := "m", Pick(r, c02Patterns)
		if r.Chance(1, 5) {
			kind, pat = "d", Pick(r, c02Dissects)
		}
		ix, ok := c02Indices(kind, pat, []byte(line))
		if !ok {
			continue
		}
		if (len(ix) < 2 || ix[1] == ix[0]) && r.Chance(4, 5) {
			i-- // mostly lines that are printed; some that do not match / match the empty text
			continue
		}
		en := "1"
		if r.Chance(1, 6) {
			en = "0"
		}
		out = append(out, fmt.Sprintf("filt %s %s %s %s %s", en, kind, HexS(pat), HexS(line), c02IntsStr(ix)))
		if r.Chance(1, 3) {
			// the coloured output of WrapIndices (and plain lines with escape sequences) through StrLen
			color.Enabled = true
			col := line
			if len(ix) >= 2 {
				col = color.WrapIndices(line, ix)
			}
			out = append(out, "vis "+HexS(col))
		}
	}
	// the whole output loop: several lines, --line prefix, --num limit, --extract branch
	nl := 120
	if tier == "thorough" {
		nl = 3000
	}
	for i := 0; i < nl; i++ {
		kind, pat := "m", Pick(r, c02Patterns)
		if r.Chance(1, 5) {
			kind, pat = "d", Pick(r, c02Dissects)
		}
		cnt := 1 + r.Intn(7)
		var lines [][]byte
		var ixs []string
		ok := true
		for k := 0; k < cnt; k++ {
			var sb strings.Builder
			for w := r.Intn(4); w >= 0; w-- {
				sb.WriteString(Pick(r, words))
				if w > 0 {
					sb.WriteString(Pick(r, []string{" ", " ", "", ":"}))
				}
			}
			l := []byte(sb.String())
			ix, good := c02Indices(kind, pat, l)
			if !good {
				ok = false
				break
			}
			lines = append(lines, l)
			ixs = append(ixs, c02IntsStr(ix))
		}
		if !ok {
			continue
		}
		en := Pick(r, []string{"1", "1", "0"})
		wl := Pick(r, []string{"1", "1", "0"})
		num := Pick(r, []string{"0", "0", "1", "2", "3", "100", "-1"})
		k := Pick(r, []string{"-", "-", "0", "1", "2", "7"})
		out = append(out, fmt.Sprintf("filtl %s %s %s %s %s %s %s %s", en, wl, num, k, kind, HexS(pat), HexList(lines), strings.Join(ixs, ";")))
	}
	return out
}

func c02FilterStats(cases []string, st map[string]int) {
	for _, c := range cases {
		f := strings.Fields(c)
		if f[0] != "filt" || len(f) != 6 {
			continue
		}
		st["filt.kind."+f[2]]++
		st["filt.enabled."+f[1]]++
		line := UnHex(f[4])
		if bytes.Contains(line, []byte{0x1b}) {
			st["filt.lineHasEsc"]++
		}
		if f[5] == "." {
			st["filt.nomatch"]++
			continue
		}
		ix := parseInts(f[5])
		st[fmt.Sprintf("filt.groups=%d", len(ix)/2-1)]++
		for k := 2; k+1 < len(ix); k += 2 {
			if ix[k] < 0 {
				st["filt.absentGroup"]++
				break
			}
		}
		for k := 4; k+1 < len(ix); k += 2 {
			if ix[k] >= 0 && ix[k-2] >= 0 && ix[k] < ix[k-1] {
				st["filt.overlapOrOutOfOrder"]++
				break
			}
		}
	}
}
