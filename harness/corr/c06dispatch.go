//go:build c06

package main

// C06, flag plumbing: the REAL helpers.BuildBatcherFromArguments, run inside a urfave/cli command built with
// helpers.AdaptCommandForExtractor (the real flag definitions and aliases), against the Lean model `dispatch`
// (lean/Rare/Model/C06Dispatch.lean).
//
//	dispatch <follow reopen tail poll gunzip recursive as 6 bits> <readers> <batch> <batch-buffer> <args> <tree> <files> <stdin>
//
// Answers: `usage <message up to ", is ">` when the code ended the process through logger.Fatal* (logger.OsExit is
// replaced by a panic that the op recovers; the exit code must be 2), else
// `ok closed=<batch channel closed> errs=<ReadErrors> warn=<follow-stdin|follow-gunzip|.> out=<sorted source:line-number:line>`.
// Which reader was built is visible in the behaviour: the file reader and the stdin reader close the channel at the end of
// the input, the tailing reader never does; with -z the file reader decompresses and the tailing reader does not; --tail
// skips what is there.  Standard input is a file put in place of os.Stdin.

import (
	"fmt"
	"os"
	"path/filepath"
	"sort"
	"strings"
	"time"

	"rare/cmd/helpers"
	"rare/pkg/logger"

	"github.com/urfave/cli/v2"
)

type c06ExitPanic struct{ code int }

func c06RunDispatch(f []string) (string, bool) {
	if f[0] != "dispatch" {
		return "", false
	}
	bits := f[1]
	names := []string{"--follow", "--reopen", "--tail", "--poll", "--gunzip", "--recursive"}
	short := []string{"-f", "-F", "-t", "", "-z", "-R"}
	argv := []string{"rare", "t"}
	for i, n := range names {
		if bits[i] == '1' {
			if short[i] != "" && (len(f[5])+i)%2 == 0 { // aliases as well
				argv = append(argv, short[i])
			} else {
				argv = append(argv, n)
			}
		}
	}
	argv = append(argv, "--readers", f[2], "--batch", f[3], "--batch-buffer", f[4])
	argv = append(argv, UnHexListS(f[5])...)
	stdin := UnHex(f[8])

	var ans string
	c06InTree(f[6], func() {
		// standard input and standard error of this op
		inPath := filepath.Join(c06WorkDir(), fmt.Sprintf("c06-stdin-%d", os.Getpid()))
		errPath := filepath.Join(c06WorkDir(), fmt.Sprintf("c06-stderr-%d", os.Getpid()))
		os.WriteFile(inPath, stdin, 0o644)
		inF, _ := os.Open(inPath)
		errF, _ := os.Create(errPath)
		oldIn, oldErr, oldExit := os.Stdin, os.Stderr, logger.OsExit
		os.Stdin, os.Stderr = inF, errF
		logger.OsExit = func(code int) { panic(c06ExitPanic{code}) }
		exit := -1
		var rows []string
		closed, errs := false, 0
		func() {
			defer func() {
				if e := recover(); e != nil {
					if x, ok := e.(c06ExitPanic); ok {
						exit = x.code
						return
					}
					panic(e)
				}
			}()
			app := cli.NewApp()
			app.ExitErrHandler = func(*cli.Context, error) {}
			app.Commands = []*cli.Command{helpers.AdaptCommandForExtractor(cli.Command{
				Name: "t",
				Action: func(c *cli.Context) error {
					b := helpers.BuildBatcherFromArguments(c)
					quiet := 350 * time.Millisecond
					timer := time.NewTimer(quiet)
				loop:
					for {
						select {
						case ib, ok := <-b.BatchChan():
							if !ok {
								closed = true
								break loop
							}
							for i, l := range ib.Batch {
								rows = append(rows, HexS(fmt.Sprintf("%s:%d:%s", ib.Source, ib.BatchStart+uint64(i), string(l))))
							}
							if !timer.Stop() {
								select {
								case <-timer.C:
								default:
								}
							}
							timer.Reset(quiet)
						case <-timer.C:
							break loop
						}
					}
					errs = b.ReadErrors()
					return nil
				},
			})}
			app.Run(argv)
		}()
		logger.ImmediateLogs() // the buffered [Log] lines go to the file that stands for stderr
		logger.DeferLogs()
		os.Stdin, os.Stderr, logger.OsExit = oldIn, oldErr, oldExit
		inF.Close()
		errF.Close()
		logs, _ := os.ReadFile(errPath)
		os.Remove(inPath)
		os.Remove(errPath)
		if exit >= 0 {
			msg := ""
			for _, l := range strings.Split(string(logs), "\n") {
				if strings.HasPrefix(l, "[Log] ") {
					msg = strings.TrimPrefix(l, "[Log] ")
				}
			}
			if i := strings.Index(msg, ", is "); i >= 0 {
				msg = msg[:i]
			}
			if exit != helpers.ExitCodeInvalidUsage {
				ans = fmt.Sprintf("usage-with-exit-%d %s", exit, HexS(msg))
				return
			}
			ans = "usage " + HexS(msg)
			return
		}
		warn := "."
		if strings.Contains(string(logs), "Cannot follow a stdin stream") {
			warn = "follow-stdin"
		}
		if strings.Contains(string(logs), "Cannot combine -f and -z") {
			warn = "follow-gunzip"
		}
		sort.Strings(rows)
		out := "."
		if len(rows) > 0 {
			out = strings.Join(rows, ";")
		}
		ans = fmt.Sprintf("ok closed=%d errs=%d warn=%s out=%s", b01(closed), errs, warn, out)
	})
	return ans, true
}

// the fixed tree of the dispatch cases: a plain file, a gzip file, a directory with a file
func c06DispatchTree() (tree, files string) {
	type ent struct {
		path string
		data []byte
	}
	ents := []ent{
		{"p.log", []byte("P1\nP2\n")},
		{"z.gz", c06Gzip([]byte("Z1\nZ2 zz\n"), 6, "")},
		{"d/q.log", []byte("Q1\n")},
	}
	spec := []string{HexS("d") + ":d"}
	var fl []string
	fl = append(fl, HexS("d")+":1:1:-:0:0:-:0")
	for _, e := range ents {
		spec = append(spec, HexS(e.path)+":f:"+Hex(e.data))
		fl = append(fl, fmt.Sprintf("%s:1:0:%s:0:0:-:0", HexS(e.path), Hex(e.data)))
	}
	return strings.Join(spec, ","), strings.Join(fl, ",")
}

func c06DispatchCase(bits string, readers, batch, bb int, args []string) string {
	tree, files := c06DispatchTree()
	return fmt.Sprintf("dispatch %s %d %d %d %s %s %s %s", bits, readers, batch, bb, HexListS(args), tree, files, Hex([]byte("S1\nS2\n")))
}

func c06DispatchGenCases(r *Rand, tier string) []string {
	var out []string
	argSets := [][]string{{}, {"-"}, {"p.log"}, {"z.gz"}, {"p.log", "z.gz"}, {"*.log"}, {"d"}, {"missing.log", "p.log"}, {"p.log", "-"}, {"-", "p.log"}}
	// every flag combination without the follow flags (fast: the channel closes), over the argument sets
	for m := 0; m < 64; m++ {
		bits := fmt.Sprintf("%06b", m)
		if bits[0] == '1' || bits[1] == '1' {
			continue
		}
		for i, a := range argSets {
			if tier != "thorough" && (m+i)%3 != 0 && (bits[2] == '1' || bits[3] == '1') {
				continue
			}
			out = append(out, c06DispatchCase(bits, Pick(r, []int{1, 3}), Pick(r, []int{1, 2, 1000}), Pick(r, []int{0, 2}), a))
		}
	}
	// the numeric usage checks and their precedence
	for _, v := range [][3]int{{0, 1000, 2}, {3, 0, 2}, {3, 1000, -1}, {0, 0, -1}, {0, 1000, -1}, {-5, -5, 2}, {1, 1, 0}} {
		for _, bits := range []string{"000000", "000100", "001000", "000010", "100010"} {
			out = append(out, c06DispatchCase(bits, v[0], v[1], v[2], Pick(r, argSets)))
		}
	}
	// follow mode on standard input (closes) – every combination
	for m := 0; m < 64; m++ {
		bits := fmt.Sprintf("%06b", m)
		if bits[0] == '1' || bits[1] == '1' {
			out = append(out, c06DispatchCase(bits, 3, 1, 2, Pick(r, [][]string{{}, {"-"}, {"-", "p.log"}})))
		}
	}
	// follow mode on files (the channel stays open: each case waits out a quiet period) – a few per run
	n := 6
	if tier == "thorough" {
		n = 20
	}
	for i := 0; i < n; i++ {
		bits := []byte(fmt.Sprintf("%06b", r.Intn(64)))
		if r.Bool() {
			bits[0] = '1'
		} else {
			bits[1] = '1'
		}
		a := Pick(r, [][]string{{"p.log"}, {"z.gz"}, {"p.log", "z.gz"}, {"*.log"}, {"d"}})
		if a[0] == "d" {
			bits[5] = '1' // a directory is followed only through -R
		}
		bits[3] = '1' // --poll: no inotify watches left behind by the goroutines this op cannot stop
		out = append(out, c06DispatchCase(string(bits), 3, 1, 2, a))
	}
	return out
}

func c06DispatchStats(st map[string]int, f []string) {
	if f[0] != "dispatch" {
		return
	}
	b := f[1]
	follow := b[0] == '1' || b[1] == '1'
	args := UnHexListS(f[5])
	stdin := len(args) == 0 || args[0] == "-"
	switch {
	case follow && stdin:
		st["dispatch:follow+stdin"]++
	case follow:
		st["dispatch:follow+files"]++
	case stdin:
		st["dispatch:stdin"]++
	default:
		st["dispatch:files"]++
	}
	if b[4] == '1' && follow {
		st["dispatch:follow+gunzip"]++
	}
	if b[4] == '1' && stdin {
		st["dispatch:gunzip+stdin"]++
	}
	if (b[2] == '1' || b[3] == '1') && !follow {
		st["dispatch:tail-or-poll-without-follow"]++
	}
}
