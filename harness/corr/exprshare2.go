//go:build c08 || c10

package main

func init() { exprGens = append(exprGens, c09Gen, c17GenCases, c19Gen_) }
