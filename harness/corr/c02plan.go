//go:build c02

package main

import (
	"flag"
	"fmt"
	"regexp"
	"strings"

	"rare/cmd/helpers"
	"rare/pkg/matchers/dissect"

	"github.com/urfave/cli/v2"
)

// plan <matchSet> <dissectSet> <posix> <ignoreCase> <matchExpr> <dissectExpr> <line> <candidates>
//
// The real helpers.BuildMatcherFromArguments on a cli.Context carrying exactly these flags; the answer is
// what the matcher it built returns for the line (`error` when it refuses).  The candidates are the
// answers of the engines themselves, computed by the generator without going through rare's flag code
// (regexp.Compile(e), regexp.Compile("(?i)"+e), regexp.CompilePOSIX(e), regexp.CompilePOSIX("(?i)"+e),
// dissect.CompileEx(d, false), dissect.CompileEx(d, true)); the model only selects among them.
func c02PlanRun(f []string) string {
	if len(f) != 9 {
		return "bad-args"
	}
	set := flag.NewFlagSet("plan", flag.ContinueOnError)
	set.String("match", "", "")
	set.String("dissect", "", "")
	set.Bool("posix", false, "")
	set.Bool("ignore-case", false, "")
	var args []string
	if f[1] == "1" {
		args = append(args, "--match", string(UnHex(f[5])))
	}
	if f[2] == "1" {
		args = append(args, "--dissect", string(UnHex(f[6])))
	}
	if f[3] == "1" {
		args = append(args, "--posix")
	}
	if f[4] == "1" {
		args = append(args, "--ignore-case")
	}
	if err := set.Parse(args); err != nil {
		return "bad-case"
	}
	c := cli.NewContext(cli.NewApp(), set, nil)
	fac, err := helpers.BuildMatcherFromArguments(c)
	if err != nil {
		return "error"
	}
	return "ok " + c02IntsStr(fac.CreateInstance().FindSubmatchIndex(UnHex(f[7])))
}

func c02Cand(ix []int, err error) string {
	if err != nil {
		return "E"
	}
	return c02IntsStr(ix)
}

func c02PlanGen(r *Rand, tier string) []string {
	n := 150
	if tier == "thorough" {
		n = 4000
	}
	pats := []string{`(\w+) (\d+)`, `hello (\w+)`, `ERROR|warn`, `(a|ab)(c|bcd)(d*)`, `a|ab`, `[a-z]+ ([0-9]+)`, `(HELLO) (.*)`, `x*`, `(`, `\d+`,
		`(?P<w>[a-z]+)`, `(?i)abc`, `é+`, `K`, `[[:alpha:]]+ ([[:digit:]]+)`, `a{2,}`, ``}
	diss := []string{`%{a} %{b}`, `Hello %{x}`, `[%{lvl}] %{msg}`, `%{a}:%{a}`, `%{a`, `pre %{x} END`, `%{}`, ``}
	lines := []string{"hello world", "Hello World 12", "HELLO 7", "abcd", "ABCD", "ab", "error here", "ERROR x", "warn 1", "é É", "k K K",
		"pre y end", "pre y END", "[ok] fine", "a:b", "abc 12", "", "aaa"}
	var out []string
	for i := 0; i < n; i++ {
		me, de, line := Pick(r, pats), Pick(r, diss), []byte(Pick(r, lines))
		ms, ds := r.Chance(3, 5), r.Chance(1, 4)
		posix, ic := r.Chance(1, 3), r.Chance(1, 2)
		var cands []string
		for _, e := range []string{me, "(?i)" + me} {
			re, err := regexp.Compile(e)
			var ix []int
			if err == nil {
				ix = re.FindSubmatchIndex(line)
			}
			cands = append(cands, c02Cand(ix, err))
		}
		for _, e := range []string{me, "(?i)" + me} {
			re, err := regexp.CompilePOSIX(e)
			var ix []int
			if err == nil {
				ix = re.FindSubmatchIndex(line)
			}
			cands = append(cands, c02Cand(ix, err))
		}
		for _, icd := range []bool{false, true} {
			d, err := dissect.CompileEx(de, icd)
			var ix []int
			if err == nil {
				ix = append([]int{}, d.CreateInstance().FindSubmatchIndex(line)...)
			}
			cands = append(cands, c02Cand(ix, err))
		}
		b := func(x bool) string {
			if x {
				return "1"
			}
			return "0"
		}
		out = append(out, fmt.Sprintf("plan %s %s %s %s %s %s %s %s", b(ms), b(ds), b(posix), b(ic), HexS(me), HexS(de), Hex(line), strings.Join(cands, ";")))
	}
	return out
}
