//go:build c19 || c08 || c10

package main

import (
	"errors"
	"fmt"
	"math"
	"strconv"
	"strings"

	"rare/pkg/expressions/stdmath"
)

// C19 — math formulas (`{! …}`, pkg/expressions/stdmath).
//
//	math <formula hex> <matches: bits,… | .> <keys: namehex=bits,… | .>
//	    stdmath.Compile(formula).Eval(ctx) on the real code; answer `ok <float64 bits>` / `ok nan` /
//	    `err <kind>`; compared with the Lean model.
//	ref  <formula hex> <matches> <keys>
//	    the same evaluation compared, inside the harness, with an independent recursive-descent
//	    evaluator written from docs/usage/math.md ("common order of operations"); answers `ok agree`
//	    or `differ impl=… ref=…` (the model side answers the constant `ok agree`).
//	expr …   the shared expression op, used for `{! …}` templates (kfMath: static arguments,
//	    binding of [n]/names to capture text, error counting, FormatFloat).

type c19Ctx struct {
	m []float64
	k map[string]float64
}

func (c *c19Ctx) GetMatch(i int) float64 {
	if i >= 0 && i < len(c.m) {
		return c.m[i]
	}
	return 0
}
func (c *c19Ctx) GetKey(s string) float64 { return c.k[s] }

func c19Bits(v float64) string {
	if math.IsNaN(v) {
		return "nan"
	}
	return fmt.Sprintf("%016x", math.Float64bits(v))
}

func c19ParseBits(s string) float64 {
	n, err := strconv.ParseUint(s, 16, 64)
	if err != nil || len(s) != 16 {
		panic("bad bits field " + s)
	}
	return math.Float64frombits(n)
}

func c19ParseBinding(ms, ks string) *c19Ctx {
	ctx := &c19Ctx{k: map[string]float64{}}
	if ms != "." {
		for _, p := range strings.Split(ms, ",") {
			ctx.m = append(ctx.m, c19ParseBits(p))
		}
	}
	if ks != "." {
		parts := strings.Split(ks, ",")
		for i := len(parts) - 1; i >= 0; i-- { // first occurrence wins, as in the model
			kv := strings.SplitN(parts[i], "=", 2)
			ctx.k[string(UnHex(kv[0]))] = c19ParseBits(kv[1])
		}
	}
	return ctx
}

func c19ErrKind(err error) string {
	switch {
	case errors.Is(err, stdmath.ErrTokenizerOverclosed):
		return "overclosed"
	case errors.Is(err, stdmath.ErrTokenizerUnclosed):
		return "unclosed"
	case errors.Is(err, stdmath.ErrTokenizerNumeric):
		return "numeric"
	case errors.Is(err, stdmath.ErrUnexpectedEnd):
		return "end"
	case errors.Is(err, stdmath.ErrExpectedExpression):
		return "expr"
	case errors.Is(err, stdmath.ErrUnknownOperation):
		return "unknownop"
	case errors.Is(err, stdmath.ErrExpectedOperation):
		return "op"
	}
	return "other:" + err.Error()
}

// c19Impl: (value, "" ) or (0, "err kind")
func c19Impl(formula string, ctx *c19Ctx) (float64, string) {
	e, err := stdmath.Compile(formula)
	if err != nil {
		return 0, "err " + c19ErrKind(err)
	}
	return e.Eval(ctx), ""
}

// ---------------------------------------------------------------- independent evaluator
//
// Classic recursive descent, one function level per documented precedence class, evaluating on
// the fly.  Written from docs/usage/math.md and the property text, not from parser.go:
//   or/and  <  comparisons  <  + -  <  & |  <  * / % (and implied multiplication)  <  << >>  <  ^
// equal levels associate to the left; unary operators and functions apply to the next atom;
// a literal or group directly followed by a group multiplies.  Blanks are insignificant inside
// words and between tokens (but do not glue two operator characters together).

var c19RefLevels = [][]string{
	{"&&", "||"},
	{"==", "<=", ">=", "<", ">"},
	{"+", "-"},
	{"&", "|"},
	{"*", "/", "%"},
	{"<<", ">>"},
	{"^"},
}

var c19RefFuncs = map[string]func(float64) float64{
	"abs": math.Abs, "sin": math.Sin, "asin": math.Asin, "cos": math.Cos, "acos": math.Acos, "tan": math.Tan,
	"atan": math.Atan, "sqrt": math.Sqrt, "floor": math.Floor, "ceil": math.Ceil, "round": math.Round,
	"exp": math.Exp, "exp2": math.Exp2, "log": math.Log, "log10": math.Log10, "log2": math.Log2,
}

type c19Ref struct {
	s   string
	pos int
	ctx *c19Ctx
}

type c19Reject struct{ why string }

func (p *c19Ref) fail(why string) { panic(c19Reject{why}) }

func c19b2f(b bool) float64 {
	if b {
		return 1
	}
	return 0
}

func c19RefApply(op string, l, r float64) float64 {
	switch op {
	case "+":
		return l + r
	case "-":
		return l - r
	case "*":
		return l * r
	case "/":
		return l / r
	case "^":
		return math.Pow(l, r)
	case "%":
		if int64(r) == 0 {
			return math.NaN()
		}
		return float64(int64(l) % int64(r))
	case "<<":
		if int64(r) < 0 {
			return math.NaN()
		}
		return float64(int64(l) << uint64(int64(r)))
	case ">>":
		if int64(r) < 0 {
			return math.NaN()
		}
		return float64(int64(l) >> uint64(int64(r)))
	case "&":
		return float64(int64(l) & int64(r))
	case "|":
		return float64(int64(l) | int64(r))
	case "<":
		return c19b2f(l < r)
	case "<=":
		return c19b2f(l <= r)
	case ">":
		return c19b2f(l > r)
	case ">=":
		return c19b2f(l >= r)
	case "==":
		return c19b2f(l == r)
	case "&&":
		return c19b2f(l != 0 && r != 0)
	case "||":
		return c19b2f(l != 0 || r != 0)
	}
	panic("ref: unknown op " + op)
}

// peekOp returns the longest operator of the given level at the cursor.
func (p *c19Ref) peekAnyOp() string {
	best := ""
	for _, lvl := range c19RefLevels {
		for _, op := range lvl {
			if strings.HasPrefix(p.s[p.pos:], op) && len(op) > len(best) {
				best = op
			}
		}
	}
	return best
}

func c19In(l []string, s string) bool {
	for _, x := range l {
		if x == s {
			return true
		}
	}
	return false
}

func (p *c19Ref) level(i int) float64 {
	if i == len(c19RefLevels) {
		return p.atom(false)
	}
	left := p.level(i + 1)
	for {
		p.ws()
		if p.pos >= len(p.s) {
			break
		}
		op := p.peekAnyOp()
		if op != "" && c19In(c19RefLevels[i], op) {
			p.pos += len(op)
			right := p.level(i + 1)
			left = c19RefApply(op, left, right)
			continue
		}
		if op == "" && p.s[p.pos] == '(' && c19In(c19RefLevels[i], "*") { // implied multiplication
			right := p.level(i + 1)
			left = c19RefApply("*", left, right)
			continue
		}
		break
	}
	return left
}

func c19IsOpChar(c byte) bool { return strings.IndexByte("+-*/^%<>&|=", c) >= 0 }

func (p *c19Ref) ws() {
	for p.pos < len(p.s) && p.s[p.pos] == ' ' {
		p.pos++
	}
}

func (p *c19Ref) atom(afterUnary bool) float64 {
	p.ws()
	if p.pos >= len(p.s) {
		p.fail("operand expected at end")
	}
	c := p.s[p.pos]
	switch {
	case c == '(':
		v := p.group()
		return v
	case c == ')':
		p.fail("operand expected, found )")
	case c == '-' || c == '!':
		if afterUnary {
			// only the function form `!( … )` may follow another prefix operator
			q := p.pos + 1
			for q < len(p.s) && p.s[q] == ' ' {
				q++
			}
			if !(c == '!' && q < len(p.s) && p.s[q] == '(') {
				p.fail("stacked prefix operator")
			}
		}
		p.pos++
		v := p.atom(true)
		if c == '-' {
			return -v
		}
		return c19b2f(v == 0)
	}
	// a run of characters up to the next operator or parenthesis
	word := ""
	for p.pos < len(p.s) && p.s[p.pos] != '(' && p.s[p.pos] != ')' && (p.s[p.pos] == ' ' || p.peekAnyOp() == "") {
		if p.s[p.pos] != ' ' { // blanks inside a word are insignificant
			word += string(p.s[p.pos])
		}
		p.pos++
	}
	if word == "" {
		p.fail("operand expected")
	}
	if p.pos < len(p.s) && p.s[p.pos] == '(' {
		if f, ok := c19RefFuncs[word]; ok {
			return f(p.group())
		}
	}
	return p.literal(word)
}

func (p *c19Ref) group() float64 {
	p.pos++ // (
	v := p.level(0)
	p.ws()
	if p.pos >= len(p.s) || p.s[p.pos] != ')' {
		p.fail("missing )")
	}
	p.pos++
	return v
}

func (p *c19Ref) literal(w string) float64 {
	if len(w) >= 2 && w[0] == '[' && w[len(w)-1] == ']' {
		inner := w[1 : len(w)-1]
		if n, err := strconv.Atoi(inner); err == nil {
			return p.ctx.GetMatch(n)
		}
		return p.ctx.GetKey(inner)
	}
	if v, err := strconv.ParseInt(w, 0, 64); err == nil {
		return float64(v)
	}
	if v, err := strconv.ParseFloat(w, 64); err == nil {
		return v
	}
	ok := len(w) > 0
	for i := 0; i < len(w); i++ {
		ch := w[i] | 0x20
		if !(ch >= 'a' && ch <= 'z') && !(i > 0 && w[i] >= '0' && w[i] <= '9') {
			ok = false
		}
	}
	if !ok {
		p.fail("not a number or a variable: " + w)
	}
	return p.ctx.GetKey(w)
}

// c19RefEval: (value, "") or (0, reason for rejecting the formula)
func c19RefEval(formula string, ctx *c19Ctx) (v float64, rejected string) {
	defer func() {
		if e := recover(); e != nil {
			if r, ok := e.(c19Reject); ok {
				rejected = r.why
				return
			}
			panic(e)
		}
	}()
	p := &c19Ref{s: formula, ctx: ctx}
	v = p.level(0)
	p.ws()
	if p.pos != len(p.s) {
		p.fail("trailing text")
	}
	return v, ""
}

// set by c19gram.go (build tag c19 only): grammar / literal / implied-multiplication / metamorphic ops
var c19Extra func(f []string) (string, bool)
var c19ExtraGen func(r *Rand, tier string) []string

func c19Run(f []string) string {
	if c19Extra != nil {
		if s, ok := c19Extra(f); ok {
			return s
		}
	}
	switch f[0] {
	case "math":
		ctx := c19ParseBinding(f[2], f[3])
		v, e := c19Impl(string(UnHex(f[1])), ctx)
		if e != "" {
			return e
		}
		return "ok " + c19Bits(v)
	case "ref":
		formula := string(UnHex(f[1]))
		ctx := c19ParseBinding(f[2], f[3])
		v, e := c19Impl(formula, ctx)
		rv, rej := c19RefEval(formula, ctx)
		switch {
		case e != "" && rej != "":
			return "ok agree"
		case e == "" && rej == "" && c19Bits(v) == c19Bits(rv):
			return "ok agree"
		case e != "":
			return fmt.Sprintf("differ impl=%s ref=%s", strings.ReplaceAll(e, " ", "_"), c19Bits(rv))
		case rej != "":
			return fmt.Sprintf("differ impl=%s ref=rejected(%s)", c19Bits(v), strings.ReplaceAll(rej, " ", "_"))
		}
		return fmt.Sprintf("differ impl=%s ref=%s", c19Bits(v), c19Bits(rv))
	}
	if s, ok := exprRun(f); ok {
		return s
	}
	return "bad-op"
}

// ---------------------------------------------------------------- generator

var c19BinOps = []string{"+", "-", "*", "/", "^", "%", "<<", ">>", "&", "|", "<", "<=", ">", ">=", "==", "&&", "||"}
var c19Funcs = []string{"abs", "sqrt", "floor", "ceil", "round", "sin", "cos", "tan", "asin", "acos", "atan", "exp", "exp2", "log", "log10", "log2"}
var c19ExactFuncs = []string{"abs", "sqrt", "floor", "ceil", "round", "log", "log10", "log2", "sin", "cos", "tan", "asin", "acos", "atan", "exp2"} // the functions the model computes (all but exp)
var c19Names = []string{"x", "y", "abc", "n1", "Val", "e", "sin"}
var c19Lits = []string{"0", "1", "2", "3", "4", "7", "10", "64", "63", "100", "0.5", "2.5", ".25", "5.", "1e3", "1E2", "0.001",
	"0x10", "0XfF", "0b101", "0B11", "0o17", "017", "08", "9223372036854775807", "9223372036854775808", "18446744073709551616",
	"123456789.125", "1e308", "0.1", "0.3", "1e22", "4503599627370497.5"}
var c19Values = []float64{0, math.Copysign(0, -1), 1, -1, 2, 3, -3, 0.5, -2.5, 1e-3, 7, 63, 64, 65, -64, 1e15, 9007199254740992, 9007199254740993,
	9223372036854775807, -9223372036854775808, 1e19, 1e300, -1e300, 5e-324, 1.0 / 3.0, math.Inf(1), math.Inf(-1), math.NaN(), 0.1, 100, 255, -255}

type c19Gen struct {
	r     *Rand
	exact bool // avoid libm functions so the model can answer
}

func (g *c19Gen) sp() string {
	if g.r.Chance(1, 3) {
		return " "
	}
	return ""
}

func (g *c19Gen) literal() string {
	switch g.r.Intn(10) {
	case 0, 1, 2:
		return Pick(g.r, c19Lits)
	case 3, 4:
		return strconv.Itoa(g.r.Intn(20))
	case 5:
		return fmt.Sprintf("[%d]", g.r.Intn(4))
	case 6:
		return "[" + Pick(g.r, c19Names) + "]"
	case 7, 8:
		return Pick(g.r, c19Names)
	}
	return strconv.FormatFloat(float64(g.r.Intn(1000))/8, 'f', -1, 64)
}

func (g *c19Gen) term(depth int) string {
	k := g.r.Intn(14)
	if depth <= 0 && k >= 6 {
		k = g.r.Intn(6)
	}
	switch {
	case k < 6:
		return g.literal()
	case k < 8:
		return "(" + g.sp() + g.expr(depth-1) + g.sp() + ")"
	case k == 8:
		return Pick(g.r, []string{"-", "-", "!"}) + g.sp() + g.term(depth-1)
	case k == 9:
		fn := Pick(g.r, c19ExactFuncs)
		if !g.exact && g.r.Chance(1, 2) {
			fn = Pick(g.r, c19Funcs)
		}
		return fn + "(" + g.expr(depth-1) + ")"
	case k == 10:
		return g.literal() + g.sp() + "(" + g.expr(depth-1) + ")" // implied multiplication
	case k == 11:
		return "(" + g.expr(depth-1) + ")" + g.sp() + "(" + g.expr(depth-1) + ")"
	case k == 12:
		return "-" + "(" + g.expr(depth-1) + ")"
	}
	return g.literal()
}

func (g *c19Gen) expr(depth int) string {
	n := 1 + g.r.Intn(4)
	if g.r.Chance(1, 6) {
		n += g.r.Intn(4)
	}
	var sb strings.Builder
	sb.WriteString(g.term(depth))
	for i := 1; i < n; i++ {
		op := Pick(g.r, c19BinOps)
		if g.r.Chance(1, 2) {
			op = Pick(g.r, []string{"+", "-", "*", "/", "^", "<", "&&"})
		}
		sb.WriteString(g.sp() + op + g.sp() + g.term(depth))
	}
	return sb.String()
}

func c19Binding(r *Rand) (ms []float64, ks map[string]float64) {
	n := r.Intn(5)
	for i := 0; i < n; i++ {
		ms = append(ms, c19Value(r))
	}
	ks = map[string]float64{}
	for _, nm := range c19Names {
		if r.Chance(3, 4) {
			ks[nm] = c19Value(r)
		}
	}
	return
}

func c19Value(r *Rand) float64 {
	switch r.Intn(6) {
	case 0:
		return float64(r.Range(-10, 10))
	case 1:
		return float64(r.Range(-4000, 4000)) / 16
	}
	return Pick(r, c19Values)
}

func c19BindingFields(ms []float64, ks map[string]float64) (string, string) {
	m := "."
	if len(ms) > 0 {
		parts := make([]string, len(ms))
		for i, v := range ms {
			parts[i] = fmt.Sprintf("%016x", math.Float64bits(v))
		}
		m = strings.Join(parts, ",")
	}
	k := "."
	if len(ks) > 0 {
		var parts []string
		for _, nm := range c19Names { // deterministic order
			if v, ok := ks[nm]; ok {
				parts = append(parts, fmt.Sprintf("%s=%016x", HexS(nm), math.Float64bits(v)))
			}
		}
		k = strings.Join(parts, ",")
	}
	return m, k
}

func c19Malformed(r *Rand, g *c19Gen) string {
	switch r.Intn(5) {
	case 0: // character soup
		alpha := "12.x[]()+-*/^%<>=&|! abs_e0bx"
		n := r.Intn(9)
		b := make([]byte, n)
		for i := range b {
			b[i] = alpha[r.Intn(len(alpha))]
		}
		return string(b)
	case 1: // delete a character of a valid formula
		f := g.expr(2)
		if len(f) > 0 {
			i := r.Intn(len(f))
			return f[:i] + f[i+1:]
		}
		return f
	case 2: // insert a character
		f := g.expr(2)
		i := r.Intn(len(f) + 1)
		return f[:i] + string("()+-*!^ 2x"[r.Intn(10)]) + f[i:]
	case 3: // dangling operators
		return g.expr(1) + Pick(r, []string{"+", "-", " - ", "*-", "!", "+!", "^", "(", ")", " sin", "abs("})
	}
	// random token sequence
	toks := []string{"1", "2.5", "x", "[0]", "+", "-", "*", "^", "<", "&&", "(", ")", "abs", "!", "%", "<<", "0x", "1e", "[", "]", "_"}
	n := r.Intn(7)
	parts := make([]string, n)
	for i := range parts {
		parts[i] = Pick(r, toks)
	}
	return strings.Join(parts, Pick(r, []string{"", " "}))
}

func c19ExprCase(r *Rand, formula string, ms []float64, ks map[string]float64) string {
	elems := make([]string, len(ms))
	for i, v := range ms {
		elems[i] = strconv.FormatFloat(v, 'g', -1, 64)
	}
	if len(elems) > 0 && r.Chance(1, 8) {
		elems[r.Intn(len(elems))] = Pick(r, []string{"", "abc", "1x", " 1", "1e", "--1", "0x10", "1_0"})
	}
	var keys []string
	for _, nm := range c19Names {
		if v, ok := ks[nm]; ok {
			val := strconv.FormatFloat(v, Pick(r, []byte{'g', 'f', 'e'}), -1, 64)
			if r.Chance(1, 16) {
				val = Pick(r, []string{"", "zz", "1.2.3"})
			}
			keys = append(keys, nm, val)
		}
	}
	tmpl := "{! " + formula + "}"
	switch r.Intn(8) {
	case 0:
		tmpl = "{! \"" + formula + "\"}"
	case 1:
		tmpl = "a{! " + formula + "}b"
	case 2:
		tmpl = "{! " + formula + " {0}}" // non-constant argument
	}
	return ExprCase(r.Bool(), tmpl, elems, keys)
}

var c19Corpus = []string{
	// F11: integer modulo by zero, at compile time through the simplifier probe and at run time
	"math " + HexS("5 % x") + " . " + HexS("x") + "=0000000000000000",
	"math " + HexS("5 % 0") + " . .",
	"math " + HexS("[0] % [1]") + " 4014000000000000,0000000000000000 .",
	"math " + HexS("5 % 0.5") + " . .",
	// negative shift counts
	"math " + HexS("1 << [1]") + " 0000000000000000,bff0000000000000 .",
	"math " + HexS("1 >> [1]") + " 0000000000000000,bff0000000000000 .",
	"math " + HexS("1 << -1") + " . .",
	// F12: dangling unary operator
	"math " + HexS("-") + " . .",
	"math " + HexS("2 + -") + " . .",
	"math " + HexS("!") + " . .",
	"math " + HexS("abs(-)") + " . .",
	// documented examples and the unary-minus quirk
	"math " + HexS("-2^2") + " . .",
	"math " + HexS("2^3^2") + " . .",
	"math " + HexS("2(1+1)") + " . .",
	"math " + HexS("1 + 2 * 3 ^ 2 < 20 && 1") + " . .",
}

func c19Gen_(r *Rand, tier string) []string {
	n := 2500
	if tier == "thorough" {
		n = 60000
	}
	var out []string
	out = append(out, ExprCase(true, "{! 5 % x}", nil, nil), ExprCase(false, "{! 5 % x}", nil, []string{"x", "0"}),
		ExprCase(true, "{! -}", nil, nil), ExprCase(true, "{! 2 + -}", nil, nil),
		ExprCase(true, "{! [0] % [1]}", []string{"5", "0"}, nil), ExprCase(true, "{! 1 << [1]}", []string{"0", "-1"}, nil),
		ExprCase(true, "{! 2(1+1) }", nil, nil), ExprCase(true, "{! [x] * 4}", nil, []string{"x", "4"}))
	for i := 0; i < n; i++ {
		g := &c19Gen{r: r, exact: !r.Chance(1, 5)}
		ms, ks := c19Binding(r)
		mf, kf := c19BindingFields(ms, ks)
		if r.Chance(1, 5) {
			f := c19Malformed(r, g)
			out = append(out, fmt.Sprintf("math %s %s %s", HexS(f), mf, kf))
			if r.Chance(1, 4) {
				out = append(out, c19ExprCase(r, f, ms, ks))
			}
			continue
		}
		f := g.expr(r.Intn(4))
		out = append(out, fmt.Sprintf("math %s %s %s", HexS(f), mf, kf))
		out = append(out, fmt.Sprintf("ref %s %s %s", HexS(f), mf, kf))
		if r.Chance(1, 3) {
			out = append(out, c19ExprCase(r, f, ms, ks))
		}
	}
	if c19ExtraGen != nil {
		out = append(out, c19ExtraGen(r, tier)...)
	}
	if tier == "thorough" {
		// exhaustive: every token sequence up to length 5 over a small alphabet (x=3, [0]=-2.5),
		// up to length 4 over a larger one, with and without separating blanks for the short ones
		small := []string{"2", "x", "+", "*", "^", "-", "<", "(", ")", "!"}
		large := []string{"1", "2.5", "x", "[0]", "+", "-", "*", "/", "^", "%", "<<", "<", "==", "&&", "|", "(", ")", "abs", "!", "0x1"}
		mf, kf := "c004000000000000", HexS("x")+"=4008000000000000"
		var rec func(alpha []string, cur []string, max int)
		rec = func(alpha []string, cur []string, max int) {
			if len(cur) > 0 {
				f := strings.Join(cur, " ")
				out = append(out, fmt.Sprintf("math %s %s %s", HexS(f), mf, kf))
				out = append(out, fmt.Sprintf("ref %s %s %s", HexS(f), mf, kf))
				if len(cur) <= 3 {
					out = append(out, fmt.Sprintf("math %s %s %s", HexS(strings.Join(cur, "")), mf, kf))
				}
			}
			if len(cur) < max {
				for _, t := range alpha {
					rec(alpha, append(append([]string{}, cur...), t), max)
				}
			}
		}
		rec(small, nil, 5)
		rec(large, nil, 4)
	}
	return out
}

func c19Stats(cases []string) map[string]int {
	st := map[string]int{}
	for _, c := range cases {
		f := strings.Fields(c)
		st["op."+f[0]]++
		if f[0] == "khist" { // one stage, several contexts: how many, and how many bring a text ParseFloat rejects
			st["khist.contexts"] += (len(f) - 3) / 2
			for _, fld := range f[3:] {
				for _, t := range UnHexListS(fld) {
					if _, err := strconv.ParseFloat(t, 64); err != nil {
						st["khist.text-not-a-float"]++
					}
				}
			}
		}
		if f[0] == "meta" && (strings.Contains(f[4], "=7ff") || strings.Contains(f[4], "=fff")) {
			st["meta.inf-or-nan-constant-or-binding"]++
		}
		if f[0] != "math" {
			continue
		}
		s := string(UnHex(f[1]))
		for _, op := range c19BinOps {
			if strings.Contains(s, op) {
				st["formula.op "+op]++
			}
		}
		if strings.Contains(s, "(") {
			st["formula.group"]++
		}
		if strings.Contains(strings.ReplaceAll(s, " ", ""), "()") {
			st["formula.empty-group"]++
		}
		if strings.Contains(s, ")(") || strings.Contains(s, ") (") {
			st["formula.group-times-group"]++
		}
		if strings.Contains(s, "[") {
			st["formula.boxed-variable"]++
		}
		if strings.Contains(s, "0x") || strings.Contains(s, "0b") || strings.Contains(s, "0X") || strings.Contains(s, "0B") {
			st["formula.hex-or-binary-literal"]++
		}
		for _, fn := range c19Funcs {
			if strings.Contains(s, fn+"(") {
				st["formula.function"]++
				break
			}
		}
		func() {
			defer func() { recover() }()
			if _, err := stdmath.Compile(s); err != nil {
				st["formula.rejected"]++
			}
		}()
		if strings.Contains(f[2], "7ff") || strings.Contains(f[2], "fff") || strings.Contains(f[3], "=7ff") || strings.Contains(f[3], "=fff") {
			st["binding.inf-or-nan"]++
		}
	}
	return st
}

func init() {
	Register("C19", &Prop{Gen: c19Gen_, Run: c19Run, Stats: c19Stats, Corpus: c19Corpus})
}
