//go:build c07

package main

// Correspondence for C07: MatchNumerical as a STATE MACHINE – histories in which Analyze() is called BETWEEN the samples
// (what `rare analyze --extra` does on every refresh), lean/Rare/Model/C07NumHist.lean.
//
//	agg numh <keep> <rev> <ops> <ps>
//
// <ops>: ';'-joined calls on ONE aggregator, in order:
//
//	<16 hex digits>   Samplef(float64 from the bit pattern)
//	s<hex>            Sample(string) (hex of the raw element, "s-" for the empty string)
//	a                 Analyze(), then the accessors of the returned StatisticalAnalysis are read at once
//
// <ps>: quantile arguments as bit patterns (','-joined, "." for none).
//
// Answer: after every sample the moment dump of `agg numfv` (bit patterns); after every Analyze()
// `A median=… mode=… q[…] ranks[…]` where ranks is the WHOLE view read through the public accessor
// (Quantile((i+0.5)/n) for i < n, n capped at 64).  Both zeros print alike, every NaN as "nan".
// Analyze() sorts s.values in place, the later samples are appended to the sorted slice and the next Analyze() must sort
// again: the dump after the k-th Analyze() is the order statistics of ALL samples kept so far
// (`num_f64_analyze_any_schedule`), whatever was analysed before.

import (
	"fmt"
	"math"
	"strconv"
	"strings"

	"rare/pkg/aggregation"
)

const c07NumHRanks = 64

func c07NumHView(n *aggregation.MatchNumerical, kept int, ps []float64) string {
	a := n.Analyze()
	qparts := make([]string, len(ps))
	for i, p := range ps {
		qparts[i] = c07ShowZ(a.Quantile(p))
	}
	m := kept
	if m > c07NumHRanks {
		m = c07NumHRanks
	}
	ranks := make([]string, m)
	for i := 0; i < m; i++ {
		ranks[i] = c07ShowZ(a.Quantile((float64(i) + 0.5) / float64(kept)))
	}
	return fmt.Sprintf("A median=%s mode=%s q[%s] ranks[%s]", c07ShowZ(a.Median()), c07ShowZ(a.Mode()), strings.Join(qparts, ","), strings.Join(ranks, ","))
}

func c07RunNumH(f []string) string {
	keep := f[2] == "1"
	n := aggregation.NewNumericalAggregator(&aggregation.NumericalConfig{Reverse: f[3] == "1", KeepValuesForAnalysis: keep})
	var ps []float64
	if f[5] != "." {
		for _, q := range strings.Split(f[5], ",") {
			b, err := strconv.ParseUint(q, 16, 64)
			if err != nil || len(q) != 16 {
				return "bad-args"
			}
			ps = append(ps, math.Float64frombits(b))
		}
	}
	var out []string
	kept := 0
	if f[4] != "." {
		for _, op := range strings.Split(f[4], ";") {
			switch {
			case op == "a":
				out = append(out, c07NumHView(n, kept, ps))
			case strings.HasPrefix(op, "s"):
				before := n.Count()
				n.Sample(string(UnHex(op[1:])))
				if keep && n.Count() > before {
					kept++
				}
				out = append(out, c07NumFState(n))
			default:
				b, err := strconv.ParseUint(op, 16, 64)
				if err != nil || len(op) != 16 {
					return "bad-args"
				}
				n.Samplef(math.Float64frombits(b))
				if keep {
					kept++
				}
				out = append(out, c07NumFState(n))
			}
		}
	}
	return "ok " + strings.Join(out, " | ")
}

// ---------------------------------------------------------------- generator

func c07HBits(v float64) string { return fmt.Sprintf("%016x", math.Float64bits(v)) }

func c07NumHOps(r *Rand, n int, val func() string) []string {
	var ops []string
	for i := 0; i < n; i++ {
		switch {
		case r.Chance(1, 4):
			ops = append(ops, "a")
		case r.Chance(1, 10):
			e := c07FNumStr(r)
			if e == "" {
				ops = append(ops, "s-")
			} else {
				ops = append(ops, "s"+HexS(e))
			}
		default:
			ops = append(ops, val())
		}
	}
	return ops
}

func c07NumHCase(r *Rand) string {
	n := r.Intn(14)
	if r.Chance(1, 10) {
		n = r.Range(14, 40)
	}
	var ops []string
	switch r.Intn(8) {
	case 0: // ascending arrivals with refreshes in between (a stored "already sorted" state would be kept …)
		x := float64(r.Range(-5, 5))
		ops = c07NumHOps(r, n, func() string { x += float64(r.Intn(3)); return c07HBits(x) })
	case 1: // descending arrivals
		x := float64(r.Range(-5, 5))
		ops = c07NumHOps(r, n, func() string { x -= float64(r.Intn(3)); return c07HBits(x) })
	case 2: // a sorted prefix, a refresh, then values inside / below / above the range
		for i := r.Intn(5); i >= 0; i-- {
			ops = append(ops, c07HBits(float64(r.Range(0, 9))))
		}
		ops = append(ops, "a")
		ops = append(ops, c07NumHOps(r, n, func() string { return c07HBits(float64(r.Range(-3, 12))) })...)
	case 3: // few distinct values (modes, ties), zeros of both signs, NaN
		pool := []string{c07HBits(1), c07HBits(2), c07HBits(2), c07HBits(3), "0000000000000000", "8000000000000000", "7ff8000000000001", c07HBits(-1)}
		ops = c07NumHOps(r, n, func() string { return Pick(r, pool) })
	case 4: // any double
		ops = c07NumHOps(r, n, func() string { return fmt.Sprintf("%016x", c07FBitsVal(r)) })
	default:
		ops = c07NumHOps(r, n, func() string { return c07HBits(float64(r.Range(-20, 20)) / float64(r.Range(1, 4))) })
	}
	if r.Chance(4, 5) {
		ops = append(ops, "a")
	}
	if r.Chance(1, 6) {
		ops = append(ops, "a") // Analyze() twice in a row
	}
	ps := []string{}
	for i := r.Intn(4); i > 0; i-- {
		if r.Chance(3, 4) {
			ps = append(ps, c07HBits(float64(r.Intn(101))/100))
		} else {
			ps = append(ps, fmt.Sprintf("%016x", c07FBitsVal(r)))
		}
	}
	p, o := ".", "."
	if len(ps) > 0 {
		p = strings.Join(ps, ",")
	}
	if len(ops) > 0 {
		o = strings.Join(ops, ";")
	}
	keep, rev := 1, 0
	if r.Chance(1, 12) {
		keep = 0
	}
	if r.Chance(1, 2) {
		rev = 1
	}
	return fmt.Sprintf("agg numh %d %d %s %s", keep, rev, o, p)
}

func c07NumHGen(r *Rand, tier string) []string {
	n, depth, nl := 500, 4, 2
	if tier == "thorough" {
		n, depth, nl = 20000, 6, 20
	}
	var out []string
	for i := 0; i < n; i++ {
		out = append(out, c07NumHCase(r))
	}
	// exhaustive: every history over {Samplef 1, Samplef 2, Samplef 3, Analyze} up to `depth` calls, both orders,
	// each followed by a final Analyze() – every prefix is observed (moments after each sample, the view after each Analyze)
	alpha := []string{c07HBits(1), c07HBits(2), c07HBits(3), "a"}
	half := c07HBits(0.5) + "," + c07HBits(0.9)
	var rec func(cur []string)
	rec = func(cur []string) {
		if len(cur) > 0 {
			o := strings.Join(cur, ";") + ";a"
			out = append(out, "agg numh 1 0 "+o+" "+half, "agg numh 1 1 "+o+" "+half)
		}
		if len(cur) < depth {
			for _, s := range alpha {
				rec(append(append([]string{}, cur...), s))
			}
		}
	}
	rec(nil)
	// … and over {NaN, -0, +0, 1, Analyze} up to depth-1 calls: NaN sorts first (last with Reverse), the zeros are one value
	alpha = []string{"7ff8000000000001", "8000000000000000", "0000000000000000", c07HBits(1), "a"}
	depth--
	rec(nil)
	// long histories with a refresh every few dozen samples
	for i := 0; i < nl; i++ {
		m := r.Range(150, 400)
		var ops []string
		fam := r.Intn(3)
		x := float64(r.Range(-1000, 1000))
		for j := 0; j < m; j++ {
			switch fam {
			case 0:
				x += float64(r.Intn(4)) / 4
			case 1:
				x = float64(r.Range(-50, 50)) / 10
			default:
				x -= float64(r.Intn(4)) / 4
			}
			ops = append(ops, c07HBits(x))
			if r.Chance(1, 40) {
				ops = append(ops, "a")
			}
		}
		ops = append(ops, "a")
		out = append(out, fmt.Sprintf("agg numh 1 %d %s %s", i%2, strings.Join(ops, ";"), half))
	}
	return out
}

// c07NumHCorpus: repeats corpus/C07/analyze_between_samples.case.
var c07NumHCorpus = []string{
	// Reverse, refresh after 1,2 (stored 2,1), then 3: the stored slice 2,1,3 must be sorted again – median 2, mode 3, ranks 3,2,1
	// (seeded/C07-analyze-ordered-flag keeps a stale "ordered" flag because 3 >= 1 and answers median 1, mode 2)
	"agg numh 1 1 3ff0000000000000;4000000000000000;a;4008000000000000;a 3fe0000000000000,3feccccccccccccd",
	// the demo history of the seed: 5,3,1,4 | refresh | 2,2
	"agg numh 1 1 4014000000000000;4008000000000000;3ff0000000000000;4010000000000000;a;4000000000000000;4000000000000000;a 3fe0000000000000,3feccccccccccccd,3fefae147ae147ae",
	// refresh on the EMPTY aggregator first (the first tick of the refresh loop), then ascending arrivals, Reverse
	"agg numh 1 1 a;3ff0000000000000;4000000000000000;4008000000000000;a 3fe0000000000000",
	// ascending mode, descending arrivals after a refresh; NaN and both zeros around a refresh
	"agg numh 1 0 4008000000000000;a;4000000000000000;a;3ff0000000000000;a 3fe0000000000000",
	"agg numh 1 0 7ff8000000000001;3ff0000000000000;a;8000000000000000;7ff8000000000001;a;0000000000000000;a 0000000000000000,3fe0000000000000",
	"agg numh 1 1 7ff8000000000001;3ff0000000000000;a;8000000000000000;7ff8000000000001;a;0000000000000000;a 0000000000000000,3fe0000000000000",
	// nothing kept: every view is empty (Median/Mode/Quantile answer 0), the moments still move; Sample(string) with a parse error
	"agg numh 0 1 3ff0000000000000;a;s78;4000000000000000;s312e35;a 3fe0000000000000",
}

func c07NumHStats(f []string, st map[string]int) {
	if f[2] == "0" {
		st["numh.noKeep"]++
	}
	if f[3] == "1" {
		st["numh.reverse"]++
	}
	if f[4] == "." {
		st["numh.empty"]++
		return
	}
	ops := strings.Split(f[4], ";")
	na, between, first := 0, false, true
	seenSample := false
	for i, op := range ops {
		if op == "a" {
			na++
			if first && !seenSample {
				st["numh.analyzeOnEmpty"]++
			}
			first = false
			if i > 0 && ops[i-1] == "a" {
				st["numh.analyzeTwiceInARow"]++
			}
			for _, later := range ops[i+1:] {
				if later != "a" {
					between = true
				}
			}
		} else {
			seenSample = true
			if strings.HasPrefix(op, "s") {
				st["numh.sampleString"]++
			}
		}
	}
	st["numh.analyzeCalls"] += na
	if between {
		st["numh.analyzeBetweenSamples"]++
	}
	if len(ops) > 100 {
		st["numh.long"]++
	}
}
