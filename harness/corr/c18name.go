//go:build c18

package main

// C18, round 4c: abbreviations in the text.  `time.ParseInLocation` resolves a zone abbreviation of the
// text with `Location.lookupName`, which walks the unexported zone list of the location (`l.zone`, in
// tzfile order).  The op `zn` hands that list (read by reflection – reading unexported fields is allowed)
// and the transition table to the model, which then answers `{time <text> <fmt> <zone>}` without any
// oracle: abbreviations in force, abbreviations of the other season, historical ones (EWT, LMT),
// abbreviations the location does not know (fabricated zone, offset NOT applied – also for GMT+3).

import (
	"fmt"
	"reflect"
	"strconv"
	"strings"
	"time"
)

// c18ZoneList renders `l.zone` as `<name>:<off>,…` ("." when empty).
func c18ZoneList(loc *time.Location) string {
	v := reflect.ValueOf(loc).Elem().FieldByName("zone")
	if !v.IsValid() || v.Len() == 0 {
		return "."
	}
	parts := make([]string, v.Len())
	for i := 0; i < v.Len(); i++ {
		z := v.Index(i)
		parts[i] = fmt.Sprintf("%s:%d", HexS(z.FieldByName("name").String()), z.FieldByName("offset").Int())
	}
	return strings.Join(parts, ",")
}

func c18RunName(f []string) string { // zn fmt zone table zones strs
	hs := func(i int) string { return string(UnHex(f[i])) }
	z := c18LoadZone(hs(2))
	if !z.ok || z.loc == time.UTC || z.loc == time.Local {
		return "bad-case zone"
	}
	if c18ZoneList(z.loc) != f[4] {
		return "bad-case zones"
	}
	k, outs := c18Eval("time", 3, []string{hs(1), hs(2)}, UnHexListS(f[5]))
	if outs == nil {
		return k
	}
	for _, a := range outs {
		if u, err := strconv.ParseInt(a, 10, 64); err == nil {
			wo, wa := c18ZoneAt(z, u)
			if o, ab, ok := c18TabLookup(f[3], u); !ok || o != wo || ab != wa {
				return "bad-case table"
			}
		}
	}
	if k != "." {
		return fmt.Sprintf("ok errs=%s val=%s", k, HexS(outs[0]))
	}
	return fmt.Sprintf("ok errs=%s val=%s", k, HexListS(outs))
}

var c18AbbrLayouts = []string{"UNIX", "RFC822", "RFC1123", "Monday, 02-Jan-06 15:04:05 MST", "2006-01-02 15:04:05 MST", "MST 2006-01-02 15:04", "Jan _2 15:04:05 MST 2006", "02/01/2006 15:04:05 MST"}

var c18ForeignAbbrs = []string{"CEST", "CET", "EST", "EDT", "PST", "GMT", "BST", "IST", "MSK", "AEDT", "AEST", "JST", "UTC", "GMT+3", "GMT-11", "GMT+0", "GMT+23", "ABC", "ABCDT", "WITA", "ChST", "est", "+03", "-03", "+0545", "LMT", "EWT", "NZDT", "MSD", "Z"}

// c18NameCase: one `zn` case for the IANA zone z ("" when the instant does not fit the table).
func c18NameCase(r *Rand, z c18Zone) string {
	tr := c18Transitions[z.arg]
	var base int64
	if len(tr) > 0 && r.Chance(2, 3) {
		base = Pick(r, tr)
	} else {
		base = c18Instant(r, z)
	}
	if base < 400*86400 || base > c18Max-400*86400 || (len(tr) > 0 && base > tr[len(tr)-1]-400*86400) {
		return ""
	}
	f := Pick(r, c18AbbrLayouts)
	layout, named := c18Layouts[f]
	if !named {
		layout = f
	}
	var own []string
	zl := reflect.ValueOf(z.loc).Elem().FieldByName("zone")
	for i := 0; i < zl.Len(); i++ {
		own = append(own, zl.Index(i).FieldByName("name").String())
	}
	n := r.Range(1, 6)
	strs := make([]string, n)
	for i := range strs {
		u := base + Pick(r, []int64{-7201, -7200, -3601, -3600, -1801, -1, 0, 1, 1799, 1800, 3599, 3600, 3601, 7199, 7200, 86400, -86400, 40 * 86400, -40 * 86400}) + int64(r.Intn(3)) - 1
		t := time.Unix(u, 0).In(z.loc)
		s := t.Format(layout)
		name, _ := t.Zone()
		switch r.Intn(6) {
		case 0, 1: // the abbreviation in force
		case 2, 3: // another abbreviation of this location (other season, historical)
			if len(own) > 0 {
				s = strings.Replace(s, name, Pick(r, own), 1)
			}
		case 4: // one the location may not know
			if r.Chance(1, 3) {
				s = strings.Replace(s, name, c18NumAbbr(r), 1) // zero-padded / very long numeric abbreviations (round 4d)
			} else {
				s = strings.Replace(s, name, Pick(r, c18ForeignAbbrs), 1)
			}
		default:
			if r.Chance(1, 3) {
				s = c18Mutate(r, s)
			}
		}
		if pt, err := time.ParseInLocation(layout, s, z.loc); err == nil && (pt.Unix() < base-300*86400 || pt.Unix() > base+300*86400) {
			s = t.Format(layout) // a changed year digit leaves the table
		}
		strs[i] = s
	}
	c := fmt.Sprintf("zn %s %s %s %s %s", HexS(f), HexS(z.arg), c18Table(z, base), c18ZoneList(z.loc), HexListS(strs))
	if strings.HasPrefix(c18RunName(strings.Fields(c)), "bad-case") {
		return "" // an instant outside the table (a two-digit year after 2068 reads as 19xx, …)
	}
	return c
}
