//go:build c19

package main

import (
	"fmt"
	"os"
	"path/filepath"
	"regexp"
	"strconv"
	"strings"
	"sync"

	"rare/pkg/expressions/funclib"
	"rare/pkg/expressions/stdmath"
)

// C19, round 4 (Lean side: Drv/C19.lean):
//
//	khist <opt> <template hex> <elems 1> <keys 1> <elems 2> <keys 2> …
//	    ONE compiled `{! …}` stage evaluated on several contexts in order – the pooled
//	    keyBuilderContextWrapper (its `errors` counter and `sub` pointer) is what survives from one
//	    evaluation to the next – and then the same contexts again from 8 goroutines at once through the same
//	    stage (the pool holds 5 objects, so it also has to grow).  The model has no state
//	    (`kfmath_history_independent`, `kfmath_concurrent_independent`): it predicts every value of the
//	    sequence from its context alone; a concurrent answer that differs from the sequential one is reported
//	    as CONCURRENT-DIFF.
//	docop <b|u> <operator hex>
//	    an operator listed in the tables of docs/usage/math.md must be an operator: `2 <op> 3` (binary), `<op>2` /
//	    `<op>(2)` (unary) compiles.  The model side answers the SPECIFICATION's constant `ok accept`
//	    (`docs_operators_are_the_tables` is the proof-side tie), so a documented operator the code rejects is a
//	    failing input.
//	docex <formula hex> <expected hex> <keys>
//	    an example of docs/usage/math.md (`{! formula} => expected` under the documented binding): the real
//	    code's output must be the documented one; the model answers the same way.
func c19HistRun(f []string) (string, bool) {
	switch f[0] {
	case "khist":
		if len(f) < 5 || len(f)%2 != 1 {
			return "bad-args", true
		}
		kb := funclib.NewKeyBuilderEx(f[1] == "1")
		compiled, errs := kb.Compile(string(UnHex(f[2])))
		if compiled == nil {
			return "nil-compiled errs=" + errsStr(errs), true
		}
		n := (len(f) - 3) / 2
		vals := make([]string, n)
		for i := 0; i < n; i++ {
			vals[i] = HexS(compiled.BuildKey(mkContext(f[3+2*i], f[4+2*i])))
		}
		// the same contexts, concurrently, through the same stage
		const workers, rounds = 8, 6
		var wg sync.WaitGroup
		var mu sync.Mutex
		diff := ""
		for w := 0; w < workers; w++ {
			wg.Add(1)
			go func(w int) {
				defer wg.Done()
				defer func() {
					if p := recover(); p != nil {
						mu.Lock()
						diff = fmt.Sprintf("panic:%v", p)
						mu.Unlock()
					}
				}()
				for k := 0; k < rounds*n; k++ {
					i := (k*7 + w*3) % n
					got := HexS(compiled.BuildKey(mkContext(f[3+2*i], f[4+2*i])))
					if got != vals[i] {
						mu.Lock()
						diff = fmt.Sprintf("ctx=%d seq=%s conc=%s", i, vals[i], got)
						mu.Unlock()
						return
					}
				}
			}(w)
		}
		wg.Wait()
		if diff != "" {
			return "CONCURRENT-DIFF " + strings.ReplaceAll(diff, " ", "_"), true
		}
		return fmt.Sprintf("ok errs=%s vals=%s", errsStr(errs), strings.Join(vals, ",")), true
	case "docop":
		if len(f) != 3 {
			return "bad-args", true
		}
		op := string(UnHex(f[2]))
		formula := "2 " + op + " 3"
		if f[1] == "u" {
			formula = op + "(2)"
			if len(op) == 1 {
				formula = op + "2"
			}
		}
		if _, err := stdmath.Compile(formula); err != nil {
			return "ok reject", true
		}
		return "ok accept", true
	case "docex":
		if len(f) != 4 {
			return "bad-args", true
		}
		kb := funclib.NewKeyBuilderEx(true)
		compiled, errs := kb.Compile("{! " + string(UnHex(f[1])) + "}")
		if compiled == nil {
			return "doc-example-does-not-compile errs=" + errsStr(errs), true
		}
		got := compiled.BuildKey(mkContext(".", f[3]))
		if got != string(UnHex(f[2])) {
			return fmt.Sprintf("doc-example-differs got=%s documented=%s", HexS(got), f[2]), true
		}
		return "ok " + HexS(got), true
	}
	return "", false
}

var c19HistBad = []string{"", "abc", "1x", " 1", "1e", "--1", "0x10", "1_0_", "1e999", "0b1", ".", "+"}
var c19HistGood = []string{"0", "1", "-1", "2.5", "1e3", "-0", "inf", "NaN", "010", "1_0", "0x1p4", "+7", "9007199254740993", "1e-320", ".5", "5."}

// docs/usage/math.md of the tree under test: `{! f} => v` lines and the `If `x=4`` binding.
func c19DocCases() []string {
	repo := os.Getenv("VERIF_REPO")
	if repo == "" {
		repo = "/repo"
	}
	raw, err := os.ReadFile(filepath.Join(repo, "docs/usage/math.md"))
	if err != nil {
		return nil
	}
	exRe := regexp.MustCompile(`^\{!\s*(.*?)\s*\}\s*=>\s*(\S+)\s*$`)
	bindRe := regexp.MustCompile("If `([A-Za-z][A-Za-z0-9]*)=([^`]*)`")
	var out []string
	keys := "."
	section := ""
	span := regexp.MustCompile("`([^`]*)`")
	for _, line := range strings.Split(string(raw), "\n") {
		t := strings.TrimSpace(line)
		if strings.HasPrefix(t, "#") {
			section = strings.TrimSpace(strings.TrimLeft(t, "#"))
		}
		if strings.HasPrefix(t, "|") && !strings.HasPrefix(t, "|--") && !strings.HasPrefix(t, "| Type") && (section == "Binary" || section == "Unary") {
			for _, sp := range span.FindAllStringSubmatch(t, -1) {
				for _, op := range strings.Fields(sp[1]) {
					out = append(out, fmt.Sprintf("docop %s %s", strings.ToLower(section[:1]), HexS(op)))
				}
			}
		}
		if m := bindRe.FindStringSubmatch(t); m != nil {
			keys = HexListS([]string{m[1], m[2]})
		}
		if m := exRe.FindStringSubmatch(t); m != nil {
			out = append(out, fmt.Sprintf("docex %s %s %s", HexS(m[1]), HexS(m[2]), keys))
		}
	}
	return out
}

// spellings of numeric constants, special values and every literal syntax included
var c19MetaConsts = []string{"0", "1", "2", "3", "0.5", ".25", "5.", "1E2", "1e308", "inf", "Inf", "INFINITY", "nan", "NaN",
	"0x1p4", "0x1.8p1", "9007199254740993", "9223372036854775807", "9223372036854775808", "1_000", "0x10", "0XfF", "010", "0o17", "0b101",
	"4503599627370497.5", "0.1", "0.2", "1e22", "1_0.5", "64", "63"}

// value of a constant as compileToken reads it: ParseInt(s, 0, 64), else ParseFloat(s, 64)
func c19ConstValue(s string) float64 {
	if v, err := strconv.ParseInt(s, 0, 64); err == nil {
		return float64(v)
	}
	v, _ := strconv.ParseFloat(s, 64)
	return v
}

// A random formula twice: with numeric constants, and with every constant replaced by a variable of its own
// (`k0`, `k1`, …) that the binding gives the constant's value – any operator, unary operators, functions,
// groups, implied multiplication, constants in every literal syntax, NaN and ±Inf among constants and bindings.
func c19MetaPair(r *Rand) (f1, f2 string, names []string, vals []float64) {
	g := &c19Gen{r: r, exact: true}
	vars := []string{"x", "y", "[0]", "[x]", "abc"}
	names = []string{"x", "y", "abc"}
	vals = []float64{Pick(r, c19EdgeValues), Pick(r, c19EdgeValues), c19Value(r)}
	var consts []string
	var leaf func() string
	leaf = func() string {
		if r.Chance(3, 5) {
			consts = append(consts, Pick(r, c19MetaConsts))
			return fmt.Sprintf("\x02%d\x02", len(consts)-1)
		}
		return Pick(r, vars)
	}
	var expr func(d int) string
	term := func(d int) string {
		switch r.Intn(9) {
		case 0:
			return "(" + g.sp() + expr(d-1) + g.sp() + ")"
		case 1:
			return Pick(r, []string{"-", "!"}) + leaf()
		case 2:
			return Pick(r, c19ExactFuncs) + "(" + expr(d-1) + ")"
		case 3:
			return leaf() + "(" + expr(d-1) + ")"
		case 4:
			return "(" + expr(d-1) + ")(" + expr(d-1) + ")"
		}
		return leaf()
	}
	expr = func(d int) string {
		if d <= 0 {
			return leaf()
		}
		s := term(d)
		for i, n := 0, r.Intn(4); i < n; i++ {
			s += g.sp() + Pick(r, c19BinOps) + g.sp() + term(d)
		}
		return s
	}
	t := expr(r.Range(1, 3))
	f1, f2 = t, t
	for i, c := range consts {
		mark := fmt.Sprintf("\x02%d\x02", i)
		nm := fmt.Sprintf("k%d", i)
		f1 = strings.ReplaceAll(f1, mark, c)
		f2 = strings.ReplaceAll(f2, mark, Pick(r, []string{nm, "[" + nm + "]"}))
		names = append(names, nm)
		vals = append(vals, c19ConstValue(c))
	}
	return
}

func c19HistGen(r *Rand, tier string) []string {
	out := c19DocCases()
	nm := 600
	if tier == "thorough" {
		nm = 15000
	}
	for i := 0; i < nm; i++ {
		f1, f2, names, vals := c19MetaPair(r)
		mf, _ := c19BindingFields([]float64{vals[0], Pick(r, c19EdgeValues)}, nil)
		kf := c19KeyFields(names, vals)
		out = append(out, fmt.Sprintf("meta %s %s %s %s", HexS(f1), HexS(f2), mf, kf))
		if i%3 == 0 {
			out = append(out, fmt.Sprintf("ref %s %s %s", HexS(f1), mf, kf))
		}
	}
	n := 250
	if tier == "thorough" {
		n = 4000
	}
	text := func(bad int) string { // a capture text: mostly a float spelling, sometimes not
		if r.Chance(bad, 10) {
			return Pick(r, c19HistBad)
		}
		if r.Chance(1, 2) {
			return Pick(r, c19HistGood)
		}
		return strconv.FormatFloat(c19Value(r), Pick(r, []byte{'g', 'f', 'e'}), -1, 64)
	}
	for i := 0; i < n; i++ {
		g := &c19Gen{r: r, exact: true}
		formula := g.expr(r.Intn(3))
		if r.Chance(1, 3) { // make sure variables occur
			formula = Pick(r, []string{"[0]", "[1]", "x", "[x]", "y"}) + Pick(r, []string{" + ", " * ", " < ", " && ", " % ", " ^ "}) + "(" + formula + ")"
		}
		tmpl := "{! " + formula + "}"
		if r.Chance(1, 6) {
			tmpl = "{! " + formula + "}|{! [0] + [1]}" // two stages, two pools
		}
		parts := []string{"khist", Pick(r, []string{"0", "1"}), HexS(tmpl)}
		bad := r.Intn(5)
		for k, m := 0, r.Range(2, 7); k < m; k++ {
			var elems []string
			for e, ne := 0, r.Intn(4); e < ne; e++ {
				elems = append(elems, text(bad))
			}
			var keys []string
			for _, nm := range c19Names {
				if r.Chance(1, 2) {
					keys = append(keys, nm, text(bad))
				}
			}
			parts = append(parts, HexListS(elems), HexListS(keys))
		}
		out = append(out, strings.Join(parts, " "))
	}
	return out
}
