//go:build c01 || c02 || c03 || c05

package main

import (
	"runtime"
	"sync"
	"sync/atomic"
	"time"
)

// steerRunMu: one steered run at a time (the probe is process-global).
var steerRunMu sync.Mutex

// ---- schedule steering (hook VerifTraceSetProbe, /repo 17b7a1a): every trace point - the points that are the
// transitions of the model - first calls the probe on the goroutine that reached it.  A steerSpec parks the first
// `holds` goroutines that reach the point `at` until ANOTHER goroutine reaches the point `until` (or `wait` has
// passed), and, with seed != 0, yields / pauses at random points like C05's jitterProbe.  The logs the trace machine
// judges then come from interleavings the plain scheduler practically never produces: a worker sitting on its batch
// while another worker delivers a later one (the path of theorem two_workers_reorder_counterexample), a worker
// parked between counting and sending, a reader parked on a full batch while another reader sends, a lagging
// consumer, the closer parked while the workers drain.
type steerSpec struct {
	seed      uint64
	at, until string
	holds     int32
	wait      time.Duration
}

var steerPairs = [][2]string{
	{"w.recv", "w.sent"}, {"w.recv", "w.sent"}, {"w.send", "w.recv"}, {"w.count", "line.m"}, {"flush", "sent"},
	{"sent", "w.recv"}, {"w.sent", "c.recv"}, {"c.recv", "w.send"}, {"sema.acq", "flush"}, {"src.close", "rd.start"},
	{"c.close", "w.recv"}, {"w.exit", "w.exit"}, {"line.i", "line.m"}, {"flush.eof", "w.sent"}, {"rd.start", "src.open"},
}

// steerCounts: what the steering did in this process (merged into the statistics of the generated cases).
var steerCounts = map[string]int{}
var steerMu sync.Mutex

func (sp *steerSpec) probe() func(string, string) {
	var ctr, untilCnt uint64
	var holds int32
	return func(ev string, s string) {
		if ev == sp.until {
			atomic.AddUint64(&untilCnt, 1)
		}
		if ev == sp.at && sp.holds > 0 && atomic.AddInt32(&holds, 1) <= sp.holds {
			c0 := atomic.LoadUint64(&untilCnt)
			dl := time.Now().Add(sp.wait)
			released := false
			for time.Now().Before(dl) {
				if atomic.LoadUint64(&untilCnt) != c0 {
					released = true
					break
				}
				time.Sleep(20 * time.Microsecond)
			}
			steerMu.Lock()
			if released {
				steerCounts["trace.steer.hold.released"]++
			} else {
				steerCounts["trace.steer.hold.timeout"]++
			}
			steerMu.Unlock()
			return
		}
		if sp.seed == 0 {
			return
		}
		x := mixSeed(sp.seed + atomic.AddUint64(&ctr, 1)*0x9e3779b97f4a7c15)
		switch {
		case x%16 == 0:
			time.Sleep(time.Duration(20+(x>>8)%300) * time.Microsecond)
		case x%4 == 1:
			runtime.Gosched()
		}
	}
}

func genSteer(r *Rand) *steerSpec {
	switch r.Intn(4) {
	case 0:
		return nil // the plain scheduler
	case 1:
		return &steerSpec{seed: r.U64() | 1}
	}
	p := Pick(r, steerPairs)
	sp := &steerSpec{at: p[0], until: p[1], holds: int32(Pick(r, []int{1, 1, 2, 4})), wait: time.Duration(Pick(r, []int{300, 1500, 4000})) * time.Microsecond}
	if r.Chance(1, 2) {
		sp.seed = r.U64() | 1
	}
	return sp
}
