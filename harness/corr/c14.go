//go:build c14

package main

// C14: renderers never crash and draw quantities proportionally within bounds.
//
// Every op runs the REAL code of pkg/multiterm/{termscaler,termunicode,termrenderers} and
// pkg/color into the real multiterm.VirtualTerm; the Lean model (lean/Rare/Model/C14.lean)
// predicts the same lines.  Ops (fields after the property id):
//
//	scname <hex>                                           termscaler.ScalerByName (the --scale flag)
//	skeys  <sc> <buckets> <min> <max>                      Scaler.ScaleKeys, the legend numbers (c14keys.go)
//	scale  <sc> <val> <min> <max>                          Scale bits + Bucket/LengthVal for the palette sizes
//	barw   <uni> <maxLen> <sc> <val> <min> <max>           termunicode.BarWrite(Scale(..), maxLen)
//	stack  <col> <uni> <maxVal> <maxLen> <vals>            termunicode.BarWriteStacked
//	cell   <col> <uni> <sc> <val> <min> <max>              HeatWrite + SparkWrite of Scale(..)
//	strlen <col> <hex>                                     color.StrLen
//	fmtseq <fmt> <v:min:max,...>                           one termformat formatter called on the triples in order
//	hdr    <col> <ncols> <names>                           Heatmap.WriteHeader
//	tablew <col> <maxCols> <maxRows> <script>              TableWriter.WriteRow / WriteFooter sequence (+ one footer);
//	                                                       steps "/"-separated: <row>:<cells> or F<idx>:<hex line>
//	render histo <col> <uni> <sc> <fmt> <bar> <pct> <maxLines> <keys> <phases>
//	render histo2 <col> <uni> <sc> <fmt> <bar> <pct> <maxLines> <atLeast> <all> <keys> <phases>   (--atleast, --all)
//	render reduce <col> <nrows> <ncols> <gnames> <gexprs> <dnames> <dexprs> <pool> <phases>       (cmd/reduce.go table path)
//	render bars  <col> <uni> <sc> <fmt> <stacked> <barSize> <keys> <subkeys> <phases>
//	render table <col> <fmt> <rowTot> <colTot> <nrows> <ncols> <rowkeys> <colkeys> <phases>
//	render heat  <col> <uni> <sc> <fmt> <nrows> <ncols> <fix> <fmin> <fmax> <rowkeys> <colkeys> <phases>
//	render spark <col> <uni> <sc> <fmt> <nrows> <ncols> <trunc> <rowkeys> <colkeys> <phases>
//
// <fmt> is raw | hi | x<hex of a --format expression> (termformat.FromExpression, a fresh one per case; the
// model evaluates the expression with the shared expression model and answers `unmodelled` for helpers
// outside it).
//
// A sample history is a list of phases ("|"), each a list of samples (","), each "i:inc" or
// "i:j:inc" (indices into the key lists, which hold distinct keys).  After every phase the renderer
// is driven exactly as cmd/*.go drives it; the answer is the final content of the VirtualTerm.
// Keys are ordered by their index in the key list (a sorter built from the list), sub-keys of the
// bar graph alphabetically by the aggregator itself (the generator emits them in that order).

import (
	"fmt"
	"math"
	"regexp"
	"sort"
	"strconv"
	"strings"
	"unicode"

	"rare/pkg/aggregation"
	"rare/pkg/aggregation/sorting"
	"rare/pkg/color"
	"rare/pkg/expressions/funclib"
	"rare/pkg/multiterm"
	"rare/pkg/multiterm/termformat"
	"rare/pkg/multiterm/termrenderers"
	"rare/pkg/multiterm/termscaler"
	"rare/pkg/multiterm/termunicode"
)

func c14Bool(s string) bool { return s == "1" }

func c14I64(s string) int64 {
	v, err := strconv.ParseInt(s, 10, 64)
	if err != nil {
		panic("bad int field " + s)
	}
	return v
}

func c14Scaler(s string) termscaler.Scaler {
	sc, ok := termscaler.ScalerByName(s)
	if !ok {
		panic("bad scaler " + s)
	}
	return sc
}

// raw | hi | x<hex of a --format expression> (a FRESH termformat.FromExpression formatter per case)
func c14Formatter(s string) termformat.Formatter {
	switch {
	case s == "raw":
		return termformat.Passthru
	case s == "hi":
		return termformat.Default
	case strings.HasPrefix(s, "x"):
		f, err := termformat.FromExpression(string(UnHex(s[1:])))
		if err != nil {
			panic(c14CompileError{})
		}
		return f
	}
	panic("bad formatter " + s)
}

type c14CompileError struct{}

func c14Globals(col, uni string) {
	color.Enabled = c14Bool(col)
	termunicode.UnicodeEnabled = c14Bool(uni)
}

func c14IdxSorter(keys []string) sorting.NameValueSorter {
	idx := map[string]int{}
	for i, k := range keys {
		idx[k] = i
	}
	return func(a, b sorting.NameValuePair) bool { return idx[a.Name] < idx[b.Name] }
}

// phases: "|"-separated, each "." or ","-separated samples of ":"-separated integers
func c14Phases(s string) [][][]int64 {
	var out [][][]int64
	for _, ph := range strings.Split(s, "|") {
		var samples [][]int64
		if ph != "." {
			for _, sm := range strings.Split(ph, ",") {
				var nums []int64
				for _, n := range strings.Split(sm, ":") {
					nums = append(nums, c14I64(n))
				}
				samples = append(samples, nums)
			}
		}
		out = append(out, samples)
	}
	return out
}

func c14Lines(vt *multiterm.VirtualTerm) string {
	lines := make([]string, vt.LineCount())
	for i := range lines {
		lines[i] = vt.Get(i)
	}
	return "ok " + HexListS(lines)
}

var c14PctRe = regexp.MustCompile(`\[[ 0-9.eE+\-NaInf]*%\]`)

type c14Sink struct{ sb strings.Builder }

func (s *c14Sink) WriteString(x string) (int, error) { return s.sb.WriteString(x) }

const c14Sep = "\x00"

func c14Run(f []string) (ans string) {
	defer func() {
		if r := recover(); r != nil {
			if _, ok := r.(c14CompileError); ok {
				ans = "compile-error"
				return
			}
			panic(r)
		}
	}()
	switch f[0] {
	case "fmtseq":
		// <fmt> <v:min:max,...>: one formatter, the calls in order
		fm := c14Formatter(f[1])
		var outs []string
		for _, t := range strings.Split(f[2], ",") {
			p := strings.Split(t, ":")
			outs = append(outs, fm(c14I64(p[0]), c14I64(p[1]), c14I64(p[2])))
		}
		return "ok " + HexListS(outs)
	case "scname":
		// <hex name>: termscaler.ScalerByName; the scaler is told by what it computes (a Scaler holds two closures)
		sc, ok := termscaler.ScalerByName(string(UnHex(f[1])))
		u := sc.Scale(10, 1, 100)
		switch {
		case !ok && u == 0:
			return "ok none"
		case ok && u == 9.0/99.0:
			return "ok linear"
		case ok && u == 0.5:
			return "ok log10"
		case ok && u == math.Log2(10)/7:
			return "ok log2"
		}
		return fmt.Sprintf("ok unknown %v %v", ok, u)
	case "scale":
		sc := c14Scaler(f[1])
		u := sc.Scale(c14I64(f[2]), c14I64(f[3]), c14I64(f[4]))
		return fmt.Sprintf("ok %d b16=%d b10=%d b9=%d b4=%d l50=%d l450=%d", math.Float64bits(u),
			termscaler.Bucket(16, u), termscaler.Bucket(10, u), termscaler.Bucket(9, u), termscaler.Bucket(4, u),
			termscaler.LengthVal(50, u), termscaler.LengthVal(450, u))
	case "scalego":
		// the same Scale as `scale`; the model answers with the all-kernel arithmetic `goArith` (Go's math.Log2/Log10
		// ported to the software binary64, Model/C14Log.lean) – the definitions the theorems log2_pow2_exact … are about
		sc := c14Scaler(f[1])
		u := sc.Scale(c14I64(f[2]), c14I64(f[3]), c14I64(f[4]))
		return fmt.Sprintf("ok %d b16=%d", math.Float64bits(u), termscaler.Bucket(16, u))
	case "log":
		// <ln|log2|log10> <bit pattern, decimal>: math.Log / Log2 / Log10 of that float, bit for bit
		bits, _ := strconv.ParseUint(f[2], 10, 64)
		x := math.Float64frombits(bits)
		var y float64
		switch f[1] {
		case "ln":
			y = math.Log(x)
		case "log2":
			y = math.Log2(x)
		default:
			y = math.Log10(x)
		}
		if math.IsNaN(y) {
			return "ok nan"
		}
		return fmt.Sprintf("ok %d", math.Float64bits(y))
	case "barw":
		c14Globals("0", f[1])
		maxLen, _ := strconv.Atoi(f[2])
		sc := c14Scaler(f[3])
		var w c14Sink
		termunicode.BarWrite(&w, sc.Scale(c14I64(f[4]), c14I64(f[5]), c14I64(f[6])), maxLen)
		return "ok " + HexS(w.sb.String())
	case "stack":
		c14Globals(f[1], f[2])
		var vals []int64
		if f[5] != "." {
			for _, v := range strings.Split(f[5], ",") {
				vals = append(vals, c14I64(v))
			}
		}
		var w c14Sink
		termunicode.BarWriteStacked(&w, c14I64(f[3]), c14I64(f[4]), vals...)
		return "ok " + HexS(w.sb.String())
	case "cell":
		c14Globals(f[1], f[2])
		sc := c14Scaler(f[3])
		u := sc.Scale(c14I64(f[4]), c14I64(f[5]), c14I64(f[6]))
		var h, s c14Sink
		termunicode.HeatWrite(&h, u)
		termunicode.SparkWrite(&s, u)
		return "ok " + HexS(h.sb.String()) + " " + HexS(s.sb.String())
	case "strlen":
		c14Globals(f[1], "1")
		return fmt.Sprintf("ok %d", color.StrLen(string(UnHex(f[2]))))
	case "hdr":
		c14Globals(f[1], "1")
		n, _ := strconv.Atoi(f[2])
		vt := multiterm.NewVirtualTerm()
		hm := termrenderers.NewHeatmap(vt, 1, n)
		cc := hm.WriteHeader(UnHexListS(f[3])...)
		return fmt.Sprintf("ok %d %s", cc, HexS(vt.Get(1)))
	case "tablew":
		c14Globals(f[1], "1")
		maxCols, _ := strconv.Atoi(f[2])
		maxRows, _ := strconv.Atoi(f[3])
		vt := multiterm.NewVirtualTerm()
		tw := termrenderers.NewTable(vt, maxCols, maxRows)
		if f[4] != "." {
			for _, st := range strings.Split(f[4], "/") {
				p := strings.SplitN(st, ":", 2)
				if strings.HasPrefix(p[0], "F") {
					idx, _ := strconv.Atoi(p[0][1:])
					tw.WriteFooter(idx, string(UnHex(p[1])))
					continue
				}
				rn, _ := strconv.Atoi(p[0])
				tw.WriteRow(rn, UnHexListS(p[1])...)
			}
		}
		tw.WriteFooter(0, "F")
		return c14Lines(vt)
	case "histow":
		// col uni sc fmt bar pct maxLines script: any sequence of WriteForLine / UpdateTotal calls on one HistoWriter
		// (script steps `<line>:<hex key>:<val>` or `T:<total>`); a line at or beyond len(items) is ignored (4855857; a panic of the real code answers `panic`)
		c14Globals(f[1], f[2])
		maxLines, _ := strconv.Atoi(f[7])
		vt := multiterm.NewVirtualTerm()
		w := termrenderers.NewHistogram(vt, maxLines)
		w.ShowBar = c14Bool(f[5])
		w.ShowPercentage = c14Bool(f[6])
		w.Scaler = c14Scaler(f[3])
		w.Formatter = c14Formatter(f[4])
		panicked := false
		func() {
			defer func() {
				if r := recover(); r != nil {
					if _, ok := r.(c14CompileError); ok {
						panic(r)
					}
					panicked = true
				}
			}()
			if f[8] != "." {
				for _, st := range strings.Split(f[8], "/") {
					p := strings.Split(st, ":")
					if p[0] == "T" {
						w.UpdateTotal(c14I64(p[1]))
						continue
					}
					n, _ := strconv.Atoi(p[0])
					w.WriteForLine(n, string(UnHex(p[1])), c14I64(p[2]))
				}
			}
			w.WriteFooter(0, "F")
		}()
		if panicked {
			return "panic"
		}
		lines := make([]string, vt.LineCount())
		for i := range lines {
			lines[i] = c14PctRe.ReplaceAllString(vt.Get(i), "[P%]")
		}
		return "ok " + HexListS(lines)
	case "render":
		return c14Render(f[1:])
	case "rcli":
		return c14RunRcli(f)
	case "skeys":
		return c14RunSkeys(f)
	}
	return "bad-op"
}

func c14Render(f []string) string {
	switch f[0] {
	case "histo", "histo2":
		// histo:  col uni sc fmt bar pct maxLines keys phases
		// histo2: col uni sc fmt bar pct maxLines atLeast all keys phases
		c14Globals(f[1], f[2])
		maxLines, _ := strconv.Atoi(f[7])
		atLeast, all := int64(0), false
		rest := f[8:]
		if f[0] == "histo2" {
			atLeast, all = c14I64(f[8]), c14Bool(f[9])
			rest = f[10:]
		}
		keys := UnHexListS(rest[0])
		vt := multiterm.NewVirtualTerm()
		w := termrenderers.NewHistogram(vt, maxLines)
		w.ShowBar = c14Bool(f[5])
		w.ShowPercentage = c14Bool(f[6])
		w.Scaler = c14Scaler(f[3])
		w.Formatter = c14Formatter(f[4])
		counter := aggregation.NewCounter()
		sorter := c14IdxSorter(keys)
		// cmd/histo.go writeHistoOutput
		writeHistoOutput := func(writer *termrenderers.HistoWriter, count int) {
			items := counter.ItemsSortedBy(count, sorter)
			line := 0
			writer.UpdateTotal(counter.Total())
			for _, match := range items {
				count := match.Item.Count()
				if count >= atLeast {
					writer.WriteForLine(line, match.Name, count)
					line++
				}
			}
		}
		for _, ph := range c14Phases(rest[1]) {
			for _, sm := range ph {
				counter.Sample(keys[sm[0]] + c14Sep + strconv.FormatInt(sm[1], 10))
			}
			writeHistoOutput(w, maxLines)
			w.WriteFooter(0, "F")
		}
		lines := make([]string, vt.LineCount())
		for i := range lines {
			lines[i] = vt.Get(i)
		}
		if all {
			// cmd/histo.go --all: a second writer with one line per group into a fresh VirtualTerm
			vterm := multiterm.NewVirtualTerm()
			vWriter := termrenderers.NewHistogram(vterm, counter.GroupCount())
			writeHistoOutput(vWriter, counter.GroupCount())
			lines = append(lines, "~~")
			for i := 0; i < vterm.LineCount(); i++ {
				lines = append(lines, vterm.Get(i))
			}
		}
		for i := range lines {
			lines[i] = c14PctRe.ReplaceAllString(lines[i], "[P%]")
		}
		return "ok " + HexListS(lines)
	case "reduce":
		// col nrows ncols gnames gexprs dnames dexprs pool phases
		c14Globals(f[1], "1")
		rowCount, _ := strconv.Atoi(f[2])
		colCount, _ := strconv.Atoi(f[3])
		gnames, gexprs := UnHexListS(f[4]), UnHexListS(f[5])
		dnames, dexprs := UnHexListS(f[6]), UnHexListS(f[7])
		pool := UnHexListS(f[8])
		aggr := aggregation.NewAccumulatingGroup(funclib.NewKeyBuilder())
		for i := range gnames {
			if err := aggr.AddGroupExpr(gnames[i], gexprs[i]); err != nil {
				return "bad-args " + err.Error()
			}
		}
		for i := range dnames {
			if err := aggr.AddDataExpr(dnames[i], dexprs[i], "i"); err != nil {
				return "bad-args " + err.Error()
			}
		}
		sorter := sorting.NameSorter(sorting.ByName)
		vt := multiterm.NewVirtualTerm()
		// ---- cmd/reduce.go, table output path
		table := termrenderers.NewTable(vt, colCount, rowCount)
		{
			rowBuf := make([]string, aggr.ColCount())
			for i, groupCol := range aggr.GroupCols() {
				rowBuf[i] = color.Wrap(color.Underline+color.BrightYellow, groupCol)
			}
			for i, dataCol := range aggr.DataCols() {
				rowBuf[aggr.GroupColCount()+i] = color.Wrap(color.Underline+color.BrightBlue, dataCol)
			}
			table.WriteRow(0, rowBuf...)
		}
		for _, ph := range c14Phases(f[9]) {
			for _, sm := range ph {
				parts := make([]string, len(sm))
				for i, x := range sm {
					parts[i] = pool[x]
				}
				aggr.Sample(strings.Join(parts, "\x00"))
			}
			for i, group := range aggr.Groups(sorter) {
				rowBuf := make([]string, aggr.ColCount())
				data := aggr.Data(group)
				for idx, item := range group.Parts() {
					if idx >= aggr.GroupColCount() {
						break
					}
					rowBuf[idx] = color.Wrap(color.BrightWhite, item)
				}
				copy(rowBuf[aggr.GroupColCount():], data)
				table.WriteRow(i+1, rowBuf...)
			}
			table.WriteFooter(0, "F0")
			table.WriteFooter(1, "F1")
		}
		return c14Lines(vt)
	case "bars":
		// col uni sc fmt stacked barSize keys subkeys phases
		c14Globals(f[1], f[2])
		keys := UnHexListS(f[7])
		subs := UnHexListS(f[8])
		vt := multiterm.NewVirtualTerm()
		w := termrenderers.NewBarGraph(vt)
		w.Stacked = c14Bool(f[5])
		w.BarSize, _ = strconv.Atoi(f[6])
		w.Scaler = c14Scaler(f[3])
		w.Formatter = c14Formatter(f[4])
		counter := aggregation.NewSubKeyCounter()
		sorter := c14IdxSorter(keys)
		for _, ph := range c14Phases(f[9]) {
			for _, sm := range ph {
				counter.Sample(keys[sm[0]] + c14Sep + subs[sm[1]] + c14Sep + strconv.FormatInt(sm[2], 10))
			}
			// cmd/bargraph.go
			line := 0
			w.SetKeys(counter.SubKeys()...)
			for _, row := range counter.ItemsSorted(sorter) {
				w.WriteBar(line, row.Name, row.Item.Items()...)
				line++
			}
			w.WriteFooter(0, "F")
		}
		return c14Lines(vt)
	case "table":
		// col fmt rowTot colTot nrows ncols rowkeys colkeys phases
		c14Globals(f[1], "1")
		nrows, _ := strconv.Atoi(f[5])
		ncols, _ := strconv.Atoi(f[6])
		rkeys, ckeys := UnHexListS(f[7]), UnHexListS(f[8])
		vt := multiterm.NewVirtualTerm()
		w := termrenderers.NewDataTable(vt, ncols, nrows)
		w.ShowRowTotals = c14Bool(f[3])
		w.ShowColTotals = c14Bool(f[4])
		w.SetFormatter(c14Formatter(f[2]))
		counter := aggregation.NewTable(c14Sep)
		rs, cs := c14IdxSorter(rkeys), c14IdxSorter(ckeys)
		for _, ph := range c14Phases(f[9]) {
			for _, sm := range ph {
				counter.Sample(ckeys[sm[1]] + c14Sep + rkeys[sm[0]] + c14Sep + strconv.FormatInt(sm[2], 10))
			}
			w.WriteTable(counter, rs, cs)
			w.WriteFooter(0, "F")
		}
		return c14Lines(vt)
	case "heat":
		// col uni sc fmt nrows ncols fix fmin fmax rowkeys colkeys phases
		c14Globals(f[1], f[2])
		nrows, _ := strconv.Atoi(f[5])
		ncols, _ := strconv.Atoi(f[6])
		fix, _ := strconv.Atoi(f[7])
		rkeys, ckeys := UnHexListS(f[10]), UnHexListS(f[11])
		vt := multiterm.NewVirtualTerm()
		// cmd/heatmap.go, in its order
		w := termrenderers.NewHeatmap(vt, nrows, ncols)
		w.FixedMin = fix&1 != 0
		w.FixedMax = fix&2 != 0
		if w.FixedMin || w.FixedMax {
			w.UpdateMinMax(c14I64(f[8]), c14I64(f[9]))
		}
		w.Scaler = c14Scaler(f[3])
		w.Formatter = c14Formatter(f[4])
		counter := aggregation.NewTable(c14Sep)
		rs, cs := c14IdxSorter(rkeys), c14IdxSorter(ckeys)
		for _, ph := range c14Phases(f[12]) {
			for _, sm := range ph {
				counter.Sample(ckeys[sm[1]] + c14Sep + rkeys[sm[0]] + c14Sep + strconv.FormatInt(sm[2], 10))
			}
			w.WriteTable(counter, rs, cs)
			w.WriteFooter(0, "F")
		}
		lines := make([]string, vt.LineCount())
		for i := range lines {
			lines[i] = vt.Get(i)
		}
		if f[3] != "linear" && len(lines) > 0 {
			// the legend of a log scale goes through math.Pow/Exp (assembly on amd64): not modelled
			lines[0] = "~"
		}
		return "ok " + HexListS(lines)
	case "spark":
		// col uni sc fmt nrows ncols trunc rowkeys colkeys phases
		c14Globals(f[1], f[2])
		nrows, _ := strconv.Atoi(f[5])
		ncols, _ := strconv.Atoi(f[6])
		trunc := c14Bool(f[7])
		rkeys, ckeys := UnHexListS(f[8]), UnHexListS(f[9])
		vt := multiterm.NewVirtualTerm()
		w := termrenderers.NewSpark(vt, nrows, ncols)
		w.Scaler = c14Scaler(f[3])
		w.Formatter = c14Formatter(f[4])
		counter := aggregation.NewTable(c14Sep)
		rs, cs := c14IdxSorter(rkeys), c14IdxSorter(ckeys)
		for _, ph := range c14Phases(f[10]) {
			for _, sm := range ph {
				counter.Sample(ckeys[sm[1]] + c14Sep + rkeys[sm[0]] + c14Sep + strconv.FormatInt(sm[2], 10))
			}
			// cmd/spark.go
			if trunc {
				if keepCols := counter.OrderedColumns(cs); len(keepCols) > ncols {
					keepCols = keepCols[len(keepCols)-ncols:]
					keepLookup := make(map[string]struct{})
					for _, item := range keepCols {
						keepLookup[item] = struct{}{}
					}
					counter.Trim(func(col, row string, val int64) bool {
						_, ok := keepLookup[col]
						return !ok
					})
				}
			}
			w.WriteTable(counter, rs, cs)
			w.WriteFooter(0, "F")
		}
		return c14Lines(vt)
	}
	return "bad-op"
}

// ---------------------------------------------------------------- generation

var c14Scalers = []string{"linear", "log2", "log10"}

var c14BoundaryVals = []int64{
	0, 1, -1, 2, 3, 5, 7, 9, 10, 11, 15, 16, 17, 49, 50, 51, 99, 100, 101, 255, 256, 999, 1000, 1001, 1023, 1024, 1025,
	65535, 65536, 1000000, 1 << 31, 1<<31 - 1, 1 << 32, 1<<53 - 1, 1 << 53, 1<<53 + 1, 1 << 62, 1<<62 + 1<<61,
	math.MaxInt64, math.MaxInt64 - 1, math.MinInt64, math.MinInt64 + 1, -2, -10, -100, -1000, -(1 << 53), -(1 << 62), -3 * (1 << 61),
}

func c14Val(r *Rand) int64 {
	switch r.Intn(10) {
	case 0, 1:
		return Pick(r, c14BoundaryVals)
	case 2:
		return int64(r.U64()) // anything
	case 3:
		return -int64(r.Intn(50))
	case 4:
		return int64(r.Intn(100000))
	case 5:
		return 0
	default:
		return int64(r.Intn(30))
	}
}

func c14Triple(r *Rand) (int64, int64, int64) {
	mn, mx := c14Val(r), c14Val(r)
	if r.Chance(4, 5) && mn > mx {
		mn, mx = mx, mn
	}
	if r.Chance(1, 10) {
		mx = mn
	}
	var v int64
	switch r.Intn(6) {
	case 0:
		v = mn
	case 1:
		v = mx
	case 2:
		v = c14Val(r)
	default:
		// inside the range (span computed in uint64 to avoid overflow)
		if mx > mn {
			span := uint64(mx) - uint64(mn)
			if span == math.MaxUint64 {
				v = int64(r.U64())
			} else {
				v = int64(uint64(mn) + r.U64()%(span+1))
			}
		} else {
			v = mn
		}
	}
	if r.Chance(1, 8) {
		v += int64(r.Range(-1, 1))
	}
	return v, mn, mx
}

var c14KeyPool = []string{
	"", "a", "b", "bb", "ccc", "key", "x y", "0", "42", "-7", "m", "mmm", "Total", "..", "日本", "héllo", "日本語のキー", "\xff", "a\xffb", "\xe6\x97",
	"\x1b[31mred\x1b[0m", "\x1b[1", "\x1b", "\x1bm", "pre\x1b[32;1mgrn", "m\x1b[0mm", "tab\there", "trailing ", " lead",
	strings.Repeat("L", 23), strings.Repeat("w", 61), strings.Repeat("é", 17), "2024-01-01", "2024-01-02", "10.0.0.1", "GET", "POST", "/index.html",
}

// n distinct keys
func c14Keys(r *Rand, n int) []string {
	seen := map[string]bool{}
	var out []string
	for len(out) < n {
		var k string
		switch r.Intn(8) {
		case 0:
			k = fmt.Sprintf("k%d", r.Intn(40))
		case 1:
			k = strings.Repeat(Pick(r, []string{"a", "é", "日", "\x1b[1m", "z"}), r.Intn(6)) + fmt.Sprint(r.Intn(9))
		case 2:
			k = string(rune('a' + r.Intn(26)))
		default:
			k = Pick(r, c14KeyPool)
		}
		if !seen[k] {
			seen[k] = true
			out = append(out, k)
		}
	}
	return out
}

func c14Inc(r *Rand, mode int) int64 {
	switch mode {
	case 0: // small positive counts
		return int64(1 + r.Intn(9))
	case 1: // all equal
		return 5
	case 2: // all zero
		return 0
	case 3: // mixed signs
		return int64(r.Range(-20, 20))
	case 4: // huge
		return Pick(r, []int64{1 << 62, 1 << 61, math.MaxInt64, math.MinInt64, -(1 << 62), -3 * (1 << 61), 1 << 53, 1<<53 + 1, 1, 0, -1})
	case 5: // negative only
		return -int64(r.Intn(30))
	default:
		return c14Val(r)
	}
}

// history over nk (x ns) keys
func c14History(r *Rand, nk, ns int, dims int) string {
	if nk == 0 || (dims == 2 && ns == 0) {
		return "."
	}
	mode := r.Intn(8)
	nph := 1 + r.Intn(3)
	var phases []string
	for p := 0; p < nph; p++ {
		n := r.Intn(2*nk + 3)
		if r.Chance(1, 6) {
			n = 0
		}
		var sm []string
		for i := 0; i < n; i++ {
			if dims == 1 {
				sm = append(sm, fmt.Sprintf("%d:%d", r.Intn(nk), c14Inc(r, mode)))
			} else {
				sm = append(sm, fmt.Sprintf("%d:%d:%d", r.Intn(nk), r.Intn(ns), c14Inc(r, mode)))
			}
		}
		if len(sm) == 0 {
			phases = append(phases, ".")
		} else {
			phases = append(phases, strings.Join(sm, ","))
		}
	}
	return strings.Join(phases, "|")
}

func c14B(r *Rand) string {
	if r.Bool() {
		return "1"
	}
	return "0"
}

func c14Limit(r *Rand) int {
	switch r.Intn(6) {
	case 0:
		return 0
	case 1:
		return 1
	case 2:
		return r.Intn(4)
	case 3:
		return 20 + r.Intn(60)
	default:
		return 2 + r.Intn(9)
	}
}

var c14GroupExprs = []string{"{1}", "{1}", "{2}", "{1}\x00{2}", "{0}", "lit", "", "{3}x", "é{1}", "{2}\x00"}
var c14DataExprs = []string{"{2}", "{3}", "{.}{2}", "{.}", "{1}", "{0}", "x", "", "{.}+{4}", "\x1b[1m{2}"}
var c14NamePool = []string{"g", "k", "name", "", "日本", "héllo", "\x1b[31mred\x1b[0m", "\x1b[1", "a b", "n", "sum", "v", "Total", strings.Repeat("w", 30)}

func c14Distinct(r *Rand, pool []string, n int) []string {
	if n > len(pool) {
		n = len(pool)
	}
	seen := map[string]bool{}
	var out []string
	for len(out) < n {
		k := Pick(r, pool)
		if !seen[k] {
			seen[k] = true
			out = append(out, k)
		}
	}
	return out
}

// cmd/reduce.go table path: group / data expressions of the template language the driver evaluates
func c14GenReduce(r *Rand) string {
	ng, nd := r.Intn(4), r.Intn(4)
	gnames, dnames := c14Distinct(r, c14NamePool, ng), c14Distinct(r, c14NamePool, nd)
	gexprs, dexprs := make([]string, ng), make([]string, nd)
	for i := range gexprs {
		gexprs[i] = Pick(r, c14GroupExprs)
		if r.Chance(1, 2) {
			gexprs[i] = fmt.Sprintf("{%d}", i+1)
		}
	}
	for i := range dexprs {
		dexprs[i] = Pick(r, c14DataExprs)
	}
	np := 1 + r.Intn(8)
	pool := c14Keys(r, np)
	if r.Chance(1, 6) {
		pool[r.Intn(np)] = Pick(r, []string{"a\x00b", "\x00", "x\x00", "\x00\x00y"})
	}
	nph := 1 + r.Intn(3)
	var phases []string
	for p := 0; p < nph; p++ {
		n := r.Intn(9)
		var sm []string
		for i := 0; i < n; i++ {
			k := r.Intn(5)
			if r.Chance(1, 2) {
				k = ng + 1 + r.Intn(2)
			}
			if k == 0 {
				k = 1
			}
			idx := make([]string, k)
			for j := range idx {
				idx[j] = fmt.Sprint(r.Intn(np))
			}
			sm = append(sm, strings.Join(idx, ":"))
		}
		if len(sm) == 0 {
			phases = append(phases, ".")
		} else {
			phases = append(phases, strings.Join(sm, ","))
		}
	}
	return fmt.Sprintf("render reduce %s %d %d %s %s %s %s %s %s", c14B(r), c14Limit(r), c14Limit(r), HexListS(gnames), HexListS(gexprs),
		HexListS(dnames), HexListS(dexprs), HexListS(pool), strings.Join(phases, "|"))
}

// --format expressions: mostly inside the shared expression model and reading the range ({1}/{2}/{min}/{max})
var c14FormatExprs = []string{"{0}/{2}", "{0} of {2}", "{subi {2} {0}}", "{1}..{2}:{0}", "{min}<{val}<{max}", "{sumi {0} {1}}",
	"{value}", "{0}", "[{1},{2}]", "{multi {0} 10}", "{2}", "{subi {0} {1}}/{subi {2} {1}}", "sumi", "{3}{undef}|{0}|{max}",
	"{percent {0} 2 {1} {2}}", "bytesize", "{0"}

func c14Fmt(r *Rand) string {
	switch r.Intn(5) {
	case 0:
		return "raw"
	case 1:
		return "hi"
	default:
		return "x" + HexS(Pick(r, c14FormatExprs))
	}
}

// a formatter called on triples where the same value recurs under a changing range
func c14GenFmtSeq(r *Rand) string {
	n := 1 + r.Intn(8)
	var ts []string
	v, mn, mx := c14Val(r), int64(0), c14Val(r)
	for i := 0; i < n; i++ {
		switch r.Intn(4) {
		case 0:
			v = c14Val(r)
		case 1:
			mn = c14Val(r)
		default:
			mx = c14Val(r)
		}
		ts = append(ts, fmt.Sprintf("%d:%d:%d", v, mn, mx))
	}
	return fmt.Sprintf("fmtseq %s %s", c14Fmt(r), strings.Join(ts, ","))
}

func c14GenRender(r *Rand) string {
	col, uni := c14B(r), c14B(r)
	sc := Pick(r, c14Scalers)
	fm := c14Fmt(r)
	switch r.Intn(8) {
	case 6:
		return c14GenReduce(r)
	case 7:
		nk := r.Intn(9)
		keys := c14Keys(r, nk)
		return fmt.Sprintf("render histo2 %s %s %s %s %s %s %d %d %s %s %s", col, uni, sc, fm, c14B(r), c14B(r), c14Limit(r),
			Pick(r, []int64{0, 1, 2, 3, 6, -5, 1000, 0}), c14B(r), HexListS(keys), c14History(r, nk, 0, 1))
	case 0:
		nk := r.Intn(9)
		keys := c14Keys(r, nk)
		return fmt.Sprintf("render histo %s %s %s %s %s %s %d %s %s", col, uni, sc, fm, c14B(r), c14B(r), c14Limit(r), HexListS(keys), c14History(r, nk, 0, 1))
	case 1:
		nk, ns := r.Intn(7), 1+r.Intn(4)
		if r.Chance(1, 10) {
			ns = 13 + r.Intn(6) // more sub-keys than colours / ascii digits
		}
		keys, subs := c14Keys(r, nk), c14Keys(r, ns)
		sort.Strings(subs)
		bs := Pick(r, []int{50, 50, 50, 10, 1, 0, 7})
		return fmt.Sprintf("render bars %s %s %s %s %s %d %s %s %s", col, uni, sc, fm, c14B(r), bs, HexListS(keys), HexListS(subs), c14History(r, nk, ns, 2))
	case 2:
		nr, nc := r.Intn(7), r.Intn(7)
		return fmt.Sprintf("render table %s %s %s %s %d %d %s %s %s", col, fm, c14B(r), c14B(r), c14Limit(r), c14Limit(r), HexListS(c14Keys(r, nr)), HexListS(c14Keys(r, nc)), c14History(r, nr, nc, 2))
	case 3, 4:
		nr, nc := r.Intn(7), r.Intn(12)
		if r.Chance(1, 5) {
			nc = 10 + r.Intn(40)
		}
		fix := 0
		if r.Chance(1, 4) {
			fix = 1 + r.Intn(3)
		}
		return fmt.Sprintf("render heat %s %s %s %s %d %d %d %d %d %s %s %s", col, uni, sc, fm, c14Limit(r), c14Limit(r), fix, c14Val(r), c14Val(r), HexListS(c14Keys(r, nr)), HexListS(c14Keys(r, nc)), c14History(r, nr, nc, 2))
	default:
		nr, nc := r.Intn(7), r.Intn(12)
		return fmt.Sprintf("render spark %s %s %s %s %d %d %s %s %s %s", col, uni, sc, fm, c14Limit(r), c14Limit(r), c14B(r), HexListS(c14Keys(r, nr)), HexListS(c14Keys(r, nc)), c14History(r, nr, nc, 2))
	}
}

// any sequence of WriteForLine / UpdateTotal calls: lines in any order, rewritten, beyond the histogram, zero and
// negative values, keys that widen the key column, values that raise the running maximum
func c14GenHistoW(r *Rand) string {
	maxLines := r.Intn(6)
	n := r.Intn(8)
	mode := r.Intn(7)
	keys := c14Keys(r, 1+r.Intn(5))
	var steps []string
	for i := 0; i < n; i++ {
		if r.Chance(1, 6) {
			steps = append(steps, fmt.Sprintf("T:%d", c14Inc(r, mode)))
			continue
		}
		line := r.Intn(maxLines + 1)
		switch {
		case r.Chance(1, 12):
			line = maxLines + 1 + r.Intn(3) // ignored
		case r.Chance(1, 10):
			line = maxLines // exactly len(items): ignored (indexed out of range before 4855857)
		case line == maxLines:
			line = r.Intn(maxLines + 1)
			if line == maxLines {
				line = maxLines + 1
			}
		}
		v := c14Inc(r, mode)
		if r.Chance(1, 4) {
			v = c14Val(r)
		}
		steps = append(steps, fmt.Sprintf("%d:%s:%d", line, HexS(Pick(r, keys)), v))
	}
	sc := "."
	if len(steps) > 0 {
		sc = strings.Join(steps, "/")
	}
	return fmt.Sprintf("histow %s %s %s %s %s %s %d %s", c14B(r), c14B(r), Pick(r, c14Scalers), c14Fmt(r), c14B(r), c14B(r), maxLines, sc)
}

// triples where the float rounding matters: huge ends (2^52 … 2^63), tiny spans, values at and next to the ends
func c14F64Triple(r *Rand) (int64, int64, int64) {
	k := uint(52 + r.Intn(12))
	var base int64
	if k >= 63 {
		base = math.MaxInt64 - int64(r.Intn(5))
	} else {
		base = int64(1)<<k + int64(r.Range(-3, 3))
	}
	if r.Chance(1, 4) {
		base = -base
	}
	var span uint64
	switch r.Intn(5) {
	case 0:
		span = 0
	case 1:
		span = uint64(r.Intn(4))
	case 2:
		span = uint64(1) << uint(r.Intn(12))
	case 3:
		span = uint64(1)<<uint(40+r.Intn(23)) + uint64(r.Intn(3))
	default:
		span = r.U64() >> uint(r.Intn(20))
	}
	mn := base
	mx := int64(uint64(mn) + span)
	if mx < mn { // wrapped: use the top of the range
		mx = math.MaxInt64
	}
	var v int64
	switch r.Intn(6) {
	case 0:
		v = mn
	case 1:
		v = mx
	case 2:
		v = int64(uint64(mn) + span/2)
	case 3:
		v = mx - int64(r.Intn(3))
	case 4:
		v = mn + int64(r.Intn(3))
	default:
		if span == math.MaxUint64 {
			v = int64(r.U64())
		} else {
			v = int64(uint64(mn) + r.U64()%(span+1))
		}
	}
	if r.Chance(1, 10) {
		v += int64(r.Range(-1, 1))
	}
	return v, mn, mx
}

func c14GenSmall(r *Rand) string {
	switch r.Intn(11) {
	case 9:
		return c14GenHistoW(r)
	case 10:
		v, mn, mx := c14F64Triple(r)
		if r.Chance(1, 3) {
			return fmt.Sprintf("cell %s %s %s %d %d %d", c14B(r), c14B(r), Pick(r, c14Scalers), v, mn, mx)
		}
		return fmt.Sprintf("scale %s %d %d %d", Pick(r, c14Scalers), v, mn, mx)
	case 8:
		return c14GenFmtSeq(r)
	case 0, 1:
		v, mn, mx := c14Triple(r)
		return fmt.Sprintf("scale %s %d %d %d", Pick(r, c14Scalers), v, mn, mx)
	case 2:
		v, mn, mx := c14Triple(r)
		return fmt.Sprintf("barw %s %d %s %d %d %d", c14B(r), Pick(r, []int{50, 10, 1, 0, 3, -2, 200}), Pick(r, c14Scalers), v, mn, mx)
	case 3:
		n := r.Intn(6)
		vals := make([]string, n)
		mode := r.Intn(7)
		for i := range vals {
			vals[i] = fmt.Sprint(c14Inc(r, mode))
		}
		vs := "."
		if n > 0 {
			vs = strings.Join(vals, ",")
		}
		mv := c14Val(r)
		if r.Chance(1, 5) {
			mv = 0
		}
		return fmt.Sprintf("stack %s %s %d %d %s", c14B(r), c14B(r), mv, Pick(r, []int64{50, 10, 1, 0, -3, 7, 300}), vs)
	case 4:
		v, mn, mx := c14Triple(r)
		return fmt.Sprintf("cell %s %s %s %d %d %d", c14B(r), c14B(r), Pick(r, c14Scalers), v, mn, mx)
	case 5:
		k := c14Keys(r, 1)[0]
		if r.Chance(1, 3) {
			b := make([]byte, r.Intn(12))
			for i := range b {
				b[i] = Pick(r, []byte{0x1b, 'm', 'a', '[', '3', 0xc3, 0xa9, 0xe6, 0x97, 0xa5, 0xff, ' '})
			}
			k = string(b)
		}
		return fmt.Sprintf("strlen %s %s", c14B(r), HexS(k))
	case 6:
		n := r.Intn(9)
		if r.Chance(1, 4) {
			n = 8 + r.Intn(30)
		}
		lim := c14Limit(r)
		if r.Chance(1, 3) {
			lim = n + r.Range(-2, 2)
			if lim < 0 {
				lim = 0
			}
		}
		return fmt.Sprintf("hdr %s %d %s", c14B(r), lim, HexListS(c14Keys(r, n)))
	default:
		maxCols, maxRows := r.Intn(5), r.Intn(6)
		n := r.Intn(7)
		var steps []string
		for i := 0; i < n; i++ {
			nc := r.Intn(6)
			cells := make([]string, nc)
			for j := range cells {
				cells[j] = Pick(r, c14KeyPool)
			}
			if r.Chance(1, 6) {
				steps = append(steps, fmt.Sprintf("F%d:%s", r.Intn(3), HexS(Pick(r, c14KeyPool))))
				continue
			}
			steps = append(steps, fmt.Sprintf("%d:%s", r.Intn(maxRows+2), HexListS(cells)))
		}
		s := "."
		if n > 0 {
			s = strings.Join(steps, "/")
		}
		return fmt.Sprintf("tablew %s %d %d %s", c14B(r), maxCols, maxRows, s)
	}
}

// names for ScalerByName: the accepted ones in random case, with İ (U+0130 lowers to i) and the Kelvin sign (lowers to k),
// prefixes / extensions, blanks, invalid UTF-8, other words
func c14GenScName(r *Rand) string {
	base := Pick(r, []string{"linear", "lin", "", "log10", "log", "log2", "log1", "ln", "linea", "linearr", "log 2", " log2", "none", "null", "exp"})
	rs := []rune(base)
	for i := range rs {
		switch {
		case r.Chance(1, 3):
			rs[i] = unicode.ToUpper(rs[i])
		case rs[i] == 'i' && r.Chance(1, 4):
			rs[i] = 0x130
		case r.Chance(1, 40):
			rs[i] = Pick(r, []rune{0x212A, 0x131, 0x17F, 'k', 0xff4c, 0x3bb})
		}
	}
	s := string(rs)
	if r.Chance(1, 15) {
		b := []byte(s)
		b = append(b, Pick(r, []byte{0xff, 0xc3, 0x80, 0}))
		s = string(b)
	}
	return "scname " + HexS(s)
}

func c14Gen(r *Rand, tier string) []string {
	nSmall, nRender := 2500, 2500
	if tier == "thorough" {
		nSmall, nRender = 150000, 150000
	}
	var out []string
	for _, n := range []string{"linear", "lin", "", "log10", "log", "log2", "LINEAR", "Log2", "L\u0130N", "lo\u212a", "log\xff"} {
		if u, err := strconv.Unquote(`"` + n + `"`); err == nil {
			out = append(out, "scname "+HexS(u))
		}
	}
	for i := 0; i < nSmall/20; i++ {
		out = append(out, c14GenScName(r))
	}
	for i := 0; i < nSmall; i++ {
		out = append(out, c14GenSmall(r))
	}
	for i := 0; i < nRender; i++ {
		out = append(out, c14GenRender(r))
	}
	// `rare reduce` in process (c14cli.go): a quarter of the cases feed stdin in phases 170 ms apart (several frames)
	nCli := nRender / 60
	if tier == "thorough" {
		nCli = 1000
	}
	for i := 0; i < nCli; i++ {
		out = append(out, c14GenRcli(r))
	}
	// Go's logarithms against their port to the software binary64 (Model/C14Log.lean): every power of two and of ten an
	// int64 holds (the tables of log2_pow2_exact / log10_pow10_exact) and their neighbours, float64(int64) of random
	// values, random bit patterns (subnormals, specials, negatives); the scaler with the all-kernel arithmetic
	{
		var xs []uint64
		for k := 0; k < 64; k++ {
			p := math.Float64bits(math.Ldexp(1, k))
			xs = append(xs, p, p+1, p-1)
		}
		for k, p := 0, 1.0; k < 19; k, p = k+1, p*10 {
			xs = append(xs, math.Float64bits(p), math.Float64bits(p)+1, math.Float64bits(p)-1)
		}
		xs = append(xs, 0, 1<<63, 1<<52, 0x7ff0000000000000, 0xfff0000000000000, 0x7ff8000000000001, 0x7fefffffffffffff,
			math.Float64bits(0.5), math.Float64bits(math.Sqrt2/2), math.Float64bits(math.Sqrt2), math.Float64bits(3), math.Float64bits(-1))
		nr := 300
		if tier == "thorough" {
			nr = 20000
		}
		for i := 0; i < nr; i++ {
			switch r.Intn(3) {
			case 0:
				xs = append(xs, r.U64())
			case 1:
				xs = append(xs, math.Float64bits(float64(int64(r.U64()>>uint(r.Intn(63))))))
			default:
				xs = append(xs, math.Float64bits(math.Ldexp(1+float64(r.Intn(1<<20))/float64(1<<20), r.Range(-1022, 1023))))
			}
		}
		for _, x := range xs {
			if x&(0x7ff<<52) == 0 && x<<12 != 0 {
				// subnormals are outside the scalers' domain (float64 of an int64), and amd64's log_amd64.s reads their
				// exponent field as 2^-1023 (math.Log(5e-324) = -709.09 instead of -744.44): not compared
				continue
			}
			for _, fn := range []string{"ln", "log2", "log10"} {
				out = append(out, fmt.Sprintf("log %s %d", fn, x))
			}
		}
		for k := 0; k <= 62; k++ {
			out = append(out, fmt.Sprintf("scalego log2 %d %d %d", int64(1)<<uint(k), r.Intn(2), int64(1)<<62))
		}
		for k, p := 0, int64(1); k <= 18; k, p = k+1, p*10 {
			out = append(out, fmt.Sprintf("scalego log10 %d 1 1000000000000000000", p), fmt.Sprintf("scalego log10 %d 1 %d", p, p))
		}
		for i := 0; i < nr; i++ {
			v, mn, mx := c14Triple(r)
			if r.Bool() {
				v, mn, mx = c14F64Triple(r)
			}
			out = append(out, fmt.Sprintf("scalego %s %d %d %d", Pick(r, c14Scalers), v, mn, mx))
		}
	}
	// scaler laws on boundary triples
	grid := []int64{math.MinInt64, math.MinInt64 + 1, -(1 << 53) - 1, -1000, -2, -1, 0, 1, 2, 3, 9, 10, 11, 100, 1000, 1024, 1<<53 - 1, 1 << 53, 1<<53 + 1, 1 << 62, math.MaxInt64 - 1, math.MaxInt64}
	if tier != "thorough" {
		grid = []int64{math.MinInt64, -1, 0, 1, 2, 10, 100, 1 << 53, math.MaxInt64}
	}
	for _, sc := range c14Scalers {
		for _, mn := range grid {
			for _, mx := range grid {
				for _, v := range grid {
					out = append(out, fmt.Sprintf("scale %s %d %d %d", sc, v, mn, mx))
				}
			}
		}
	}
	if tier == "thorough" {
		// exhaustive: every value of small ranges, every palette
		for _, sc := range c14Scalers {
			for mx := int64(0); mx <= 40; mx++ {
				for v := int64(-1); v <= mx+1; v++ {
					out = append(out, fmt.Sprintf("cell 0 0 %s %d 0 %d", sc, v, mx))
					out = append(out, fmt.Sprintf("cell 1 1 %s %d 0 %d", sc, v, mx))
					out = append(out, fmt.Sprintf("barw 1 50 %s %d 0 %d", sc, v, mx))
				}
			}
		}
		// exhaustive: stacked bars of two segments
		for mv := int64(-1); mv <= 12; mv++ {
			for a := int64(-2); a <= 12; a++ {
				for b := int64(-2); b <= 12; b++ {
					out = append(out, fmt.Sprintf("stack 0 0 %d 7 %d,%d", mv, a, b))
				}
			}
		}
		// exhaustive: headers of up to 4 names of length 0..3 for every column limit
		names := []string{"", "a", "bb", "ccc"}
		var rec func(cur []string)
		rec = func(cur []string) {
			for lim := 0; lim <= len(cur)+1; lim++ {
				out = append(out, fmt.Sprintf("hdr 0 %d %s", lim, HexListS(cur)))
			}
			if len(cur) < 4 {
				for _, n := range names {
					rec(append(append([]string{}, cur...), n))
				}
			}
		}
		rec(nil)
		// exhaustive: WriteRow scripts of up to three steps over a small alphabet of rows and cell lists
		// (empty row, narrow, wide, ragged, coloured, beyond maxRows), every table size, colour on and off
		rowCells := []string{".", HexListS([]string{"a"}), HexListS([]string{"bb", "c"}), HexListS([]string{"\x1b[1mxyz\x1b[0m", "", "dd"})}
		var recT func(steps []string)
		recT = func(steps []string) {
			if len(steps) > 0 {
				for _, col := range []string{"0", "1"} {
					for mc := 0; mc <= 2; mc++ {
						for mr := 1; mr <= 3; mr++ {
							out = append(out, fmt.Sprintf("tablew %s %d %d %s", col, mc, mr, strings.Join(steps, "/")))
						}
					}
				}
			}
			if len(steps) < 3 {
				for rn := 0; rn <= 2; rn++ {
					for _, cs := range rowCells {
						recT(append(append([]string{}, steps...), fmt.Sprintf("%d:%s", rn, cs)))
					}
				}
			}
		}
		recT(nil)
		// exhaustive: WriteForLine / UpdateTotal scripts of up to three steps on a histogram of two lines: both lines, the
		// line == len(items) (ignored since 4855857), a line beyond, a short and a column-widening key, values 0 / 3 / 7, a total
		var hsteps []string
		for line := 0; line <= 3; line++ {
			for _, k := range []string{"a", "seventeen-chars-k"} {
				for _, v := range []int{0, 3, 7} {
					hsteps = append(hsteps, fmt.Sprintf("%d:%s:%d", line, HexS(k), v))
				}
			}
		}
		hsteps = append(hsteps, "T:5")
		var recH func(steps []string)
		recH = func(steps []string) {
			if len(steps) > 0 {
				for _, uni := range []string{"0", "1"} {
					out = append(out, fmt.Sprintf("histow 0 %s linear raw 1 1 2 %s", uni, strings.Join(steps, "/")))
				}
			}
			if len(steps) < 3 {
				for _, st := range hsteps {
					recH(append(append([]string{}, steps...), st))
				}
			}
		}
		recH(nil)
	}
	// the legend numbers directly (c14keys.go); appended last so that the random stream of the cases above is unchanged
	nKeys := 400
	if tier == "thorough" {
		nKeys = 20000
	}
	for i := 0; i < nKeys; i++ {
		out = append(out, c14GenSkeys(r))
	}
	return out
}

func c14Stats(cases []string) map[string]int {
	st := map[string]int{}
	for _, c := range cases {
		f := strings.Fields(c)
		op := f[0]
		if op == "render" {
			op = "render." + f[1]
			hist := f[len(f)-1]
			if hist == "." {
				st["history.empty"]++
			}
			if strings.Contains(hist, "|") {
				st["history.multiPhase"]++
			}
			if strings.Contains(hist, ":-") {
				st["history.negativeIncrement"]++
			}
			if strings.Contains(hist, ":0,") || strings.HasSuffix(hist, ":0") {
				st["history.zeroIncrement"]++
			}
			if strings.Contains(hist, "4611686018427387904") || strings.Contains(hist, "9223372036854775807") || strings.Contains(hist, "9223372036854775808") {
				st["history.huge"]++
			}
			for _, kf := range f[2:] {
				if strings.Contains(kf, "1b") && strings.Contains(kf, ";") {
					st["keys.withEscape(approx)"]++
					break
				}
			}
			for _, kf := range f[len(f)-3 : len(f)-1] {
				if strings.HasPrefix(kf, "-;") || strings.Contains(kf, ";-;") || strings.HasSuffix(kf, ";-") || kf == "-" {
					st["keys.empty"]++
					break
				}
			}
			if f[2] == "1" {
				st["render.colour"]++
			}
			for _, s := range c14Scalers[1:] {
				if len(f) > 4 && (f[3] == s || f[4] == s) {
					st["render.logScale"]++
				}
			}
		}
		if op == "scale" || op == "cell" || op == "barw" {
			// float rounding territory: an end of the range at or above 2^53 in magnitude
			for _, x := range f[len(f)-2:] {
				if v, err := strconv.ParseInt(x, 10, 64); err == nil && (v >= 1<<53 || v <= -(1<<53)) {
					st["scale.hugeEnd(>=2^53)"]++
					break
				}
			}
			if f[len(f)-2] == f[len(f)-1] {
				st["scale.degenerateRange"]++
			}
		}
		if op == "histow" {
			if strings.Contains(c, ":0/") || strings.HasSuffix(c, ":0") || strings.Contains(c, ":-") {
				st["histow.nonPositiveValue"]++
			}
		}
		st["op."+op]++
	}
	return st
}

func c14Corpus() []string {
	return append([]string{
		// F21a: stacked bars, every value zero (running maximum 0) -> integer divide by zero (fixed b2c2a9f)
		"render bars 0 1 linear hi 1 50 61 78 0:0:0",
		"stack 0 0 0 50 0",
		"stack 1 1 0 50 0,0",
		// huge values: val*maxLen overflowed int64 (fixed 7206d40); before the fix the second one wrote ~2^62 runes
		"stack 0 0 4611686018427387904 50 4611686018427387904",
		"stack 0 0 1 50 -6917529027641081856",
		"render bars 0 0 linear raw 1 50 61;62 78 0:0:4611686018427387904,1:0:2305843009213693952",
		// stacked bar with negative values wider than BarSize (fixed 0b7fa09)
		"render bars 0 0 linear raw 1 50 61 78;79;7a 0:0:10,0:1:10,0:2:-15",
		// F21b: heatmap, empty first column key -> WriteHeader never returned (fixed b1ca348)
		"hdr 0 10 -",
		"hdr 1 10 -;61",
		"render heat 0 1 linear hi 5 10 0 0 0 61 - 0:0:1",
		// F21c: spark with no displayed columns -> index out of range (fixed 9780d5d)
		"render spark 0 1 linear hi 5 0 0 61 62 0:0:1",
		// sparkline header measured the column names in bytes (fixed c54b92c)
		"render spark 0 1 linear hi 5 20 0 72 e697a5e69cac31;e697a5e69cac32;e697a5e69cac33;e697a5e69cac34;e697a5e69cac35;e697a5e69cac36;e697a5e69cac37;e697a5e69cac38 0:0:1,0:1:2,0:2:3,0:3:4,0:4:5,0:5:6,0:6:7,0:7:8",
		// reduce table: a group key with more parts than group columns (fixed 73473fc; the real CLI is run by extra/C14.py)
		"render reduce 0 5 5 6b 7b307d . . 61;62 0:1",
		"render reduce 1 5 5 6b 7b307d 6e 7b2e7d7b327d 61;62 0:1:0,1:1:0",
		// formatter purity: the same value under another range (seeded change C14-format-memo)
		"fmtseq x7b73756269207b327d207b307d7d 21:0:23,21:0:92882",
		"render bars 0 0 linear x7b307d206f66207b327d 0 50 61616161;62626262 - 0:0:5,1:0:9",
		"render table 0 x7b307d2f7b327d 0 0 4 4 7231;7232;7233 6331;6332 0:0:1,1:1:2|2:0:7",
	}, append(c14RcliCorpus(), c14SkeysCorpus()...)...)
}

func init() {
	Register("C14", &Prop{Gen: c14Gen, Run: c14Run, Stats: c14Stats, Corpus: c14Corpus()})
}
