//go:build c15

package main

// C15 – the prologue of the per-file goroutine of batchers.TailFilesToChan (lean/Rare/Model/C15Open.lean):
//
//	r, err := followreader.New(filename, reopen, poll);  if err != nil { incErrors; return }
//	if tail { if err := r.Drain(); err != nil { incErrors } }          // NO return: the file is followed anyway
//	out.startFileReading(filename); out.syncReaderToBatcherWithTimeFlush(…)
//
//	prologue <notify|poll> <reopen 0|1> <tail 0|1> <regular|fifo|absent|nodir> <content lines> <extra lines>
//
// The real TailFilesToChan runs on ONE path that is
//
//	regular  a regular file holding the content lines
//	fifo     a named pipe (the harness holds it open read-write, so os.Open does not block and Read never reports
//	         EOF) with the content lines already written into it: Seek fails with ESPIPE -> the Drain error path
//	absent   no file (the directory exists)
//	nodir    the directory does not exist either (watcher.Add fails: "unable to start notify")
//
// After the goroutine has settled (file listed as active, or batch channel closed) the error count is read; if the
// channel is still open the extra lines are appended (regular) / written into the pipe (fifo) / written as a new
// file at the path, creating the directory first (absent, nodir).  Answer:
//
//	ok closed=<0|1> errors=<n> following=<0|1> lines=<hex list of the lines delivered>
//
// (following = listed as an active file and the channel still open when the extra lines are written).
//	directory  the path is a directory (os.Open and Seek succeed, every Read fails with a non-EOF error: the follow
//	           reader returns it, the scanner's OnError counts it, the loop ends)

import (
	"fmt"
	"os"
	"path/filepath"
	"strings"
	"syscall"
	"time"

	"rare/pkg/extractor/batchers"
)

func c15Prologue(f []string) string {
	if len(f) < 7 {
		return "bad-op"
	}
	poll, reopen, tail, state := f[1] == "poll", f[2] == "1", f[3] == "1", f[4]
	content, extra := UnHexListS(f[5]), UnHexListS(f[6])
	join := func(ls []string) []byte {
		var sb strings.Builder
		for _, l := range ls {
			sb.WriteString(l)
			sb.WriteByte('\n')
		}
		return []byte(sb.String())
	}
	dir, err := c15WireDir()
	if err != nil {
		return "harness-error " + err.Error()
	}
	defer os.RemoveAll(dir)
	path := filepath.Join(dir, "followed.log")
	var pipe *os.File
	switch state {
	case "regular":
		os.WriteFile(path, join(content), 0o644)
	case "fifo":
		if err := syscall.Mkfifo(path, 0o644); err != nil {
			return "harness-error mkfifo " + err.Error()
		}
		pipe, err = os.OpenFile(path, os.O_RDWR, 0)
		if err != nil {
			return "harness-error open fifo " + err.Error()
		}
		defer pipe.Close()
		pipe.Write(join(content))
	case "absent":
	case "directory":
		os.Mkdir(path, 0o755)
		os.WriteFile(filepath.Join(path, "inner.log"), join(content), 0o644)
	case "nodir":
		path = filepath.Join(dir, "missing", "followed.log")
	default:
		return "bad-op"
	}

	names := make(chan string, 1)
	names <- path
	close(names)
	b := batchers.TailFilesToChan(names, 1, 4, reopen, poll, tail)
	sink := c15Collect(b)
	if !c15Until(3*time.Second, func() bool { return b.ActiveFileCount() == 1 || sink.isClosed() }) {
		return "harness-error follower did not settle"
	}
	started := 0
	if b.ActiveFileCount() == 1 {
		started = 1
	}
	// the channel is closed right after the goroutine returned: give a failed New the time to get there
	closed := 0
	wait := 40 * time.Millisecond
	if state == "directory" {
		wait = time.Second // every Read fails: the goroutine is on its way out
	}
	if started == 0 || c15Until(wait, sink.isClosed) {
		if c15Until(time.Second, sink.isClosed) {
			closed = 1
			started = 0
		}
	}
	errors := b.ReadErrors()
	if closed == 0 {
		time.Sleep(15 * time.Millisecond)
		switch state {
		case "regular":
			if fh, err := os.OpenFile(path, os.O_WRONLY|os.O_APPEND, 0); err == nil {
				fh.Write(join(extra))
				fh.Close()
			}
		case "fifo":
			pipe.Write(join(extra))
		case "directory":
			os.WriteFile(filepath.Join(path, "inner.log"), join(extra), 0o644)
		default:
			os.MkdirAll(filepath.Dir(path), 0o755)
			os.WriteFile(path, join(extra), 0o644)
		}
		if len(extra) > 0 {
			c15Until(4*time.Second, func() bool { return sink.has(extra[len(extra)-1]) })
		}
		time.Sleep(40 * time.Millisecond)
		errors = b.ReadErrors()
	}
	sink.mu.Lock()
	lines := append([]string(nil), sink.lines...)
	sink.mu.Unlock()
	// let a plain follower end by itself (re-open followers stay behind: TailFilesToChan never closes its readers)
	if pipe != nil {
		pipe.Close()
	}
	os.RemoveAll(path)
	c15Counters["prologue."+state]++
	return fmt.Sprintf("ok closed=%d errors=%d following=%d lines=%s", closed, errors, started, HexListS(lines))
}

func c15PrologueCase(r *Rand, poll, reopen, tail bool, state string) string {
	mk := func(tag string, n int) []string {
		out := []string{}
		for i := 0; i < n; i++ {
			out = append(out, fmt.Sprintf("%s%d-%s", tag, i, strings.Repeat("x", r.Intn(6))))
		}
		return out
	}
	content := mk("c", r.Intn(4))
	if state == "absent" || state == "nodir" {
		content = nil
	}
	extra := mk("e", 1+r.Intn(3))
	b := func(v bool) int {
		if v {
			return 1
		}
		return 0
	}
	mode := "notify"
	if poll {
		mode = "poll"
	}
	return fmt.Sprintf("prologue %s %d %d %s %s %s", mode, b(reopen), b(tail), state, HexListS(content), HexListS(extra))
}

func c15PrologueGenAll(r *Rand, tier string) []string {
	var out []string
	states := []string{"regular", "fifo", "absent", "nodir", "directory"}
	if tier == "thorough" {
		for _, st := range states {
			for m := 0; m < 8; m++ {
				out = append(out, c15PrologueCase(r, m&1 != 0, m&2 != 0, m&4 != 0, st))
			}
		}
		return out
	}
	// quick: every fifo combination with --tail (the Drain error path), one without; the failing New of both readers;
	// a sample of the rest
	for m := 0; m < 4; m++ {
		out = append(out, c15PrologueCase(r, m&1 != 0, m&2 != 0, true, "fifo"))
	}
	out = append(out, c15PrologueCase(r, r.Bool(), r.Bool(), false, "fifo"))
	out = append(out, c15PrologueCase(r, false, true, r.Bool(), "nodir"))
	out = append(out, c15PrologueCase(r, true, true, r.Bool(), "nodir"))
	out = append(out, c15PrologueCase(r, r.Bool(), false, r.Bool(), "nodir"))
	out = append(out, c15PrologueCase(r, r.Bool(), false, r.Bool(), "absent"))
	out = append(out, c15PrologueCase(r, false, true, r.Bool(), "absent"))
	out = append(out, c15PrologueCase(r, r.Bool(), r.Bool(), true, "regular"))
	out = append(out, c15PrologueCase(r, r.Bool(), r.Bool(), false, "regular"))
	out = append(out, c15PrologueCase(r, false, r.Bool(), r.Bool(), "directory"))
	out = append(out, c15PrologueCase(r, true, r.Bool(), r.Bool(), "directory"))
	return out
}
