//go:build c02

package main

// Round 4d, op `ctxhist`: ONE expression context over a HISTORY of matches, capture values.
//
//	ctxhist <posix> <maxbatch> <pattern> <keys hexlist> <seq>
//	    keys: the expression is `{k1}|{k2}|…` (decimal group numbers, group names, @, src, line, an unknown name)
//	    seq:  `+`-joined items `<hex source>/<line number>/<hex line>` in the order the single worker gets them
//	          (`.` = none)
//
// The extractor keeps one SliceSpaceExpressionContext per worker goroutine and re-points it at every matched line
// (processLineSync); every source goes through the same workers and line numbers restart at 1 per source.  All other
// C02 ops build a fresh extractor per line or feed one source with ascending numbers, so state a context method
// carried from one match to the next (a memo keyed by the line number, a lazily filled field) was invisible to them.
//
// The REAL pipeline runs: extractor.New with Workers = 1 over a channel of InputBatch (consecutive items of one
// source with consecutive line numbers share a batch, at most <maxbatch> lines), the real regex matcher
// (fastregex.CompileEx, matchers.ToFactory), the real processLineSync / BuildKey / GetKey / GetMatch / array.  All
// matches are held until the channel closes, then read.
// answer: ok read=<lines read> matches=<`+`-joined `<hex source>/<number>/<hex line>/<indices>/<hex Extracted>`>.
// The model answers from a context-free function of each item (`captureOf`, Model/C02Hist.lean) and the model regex.

import (
	"fmt"
	"runtime"
	"strconv"
	"strings"
	"time"

	"rare/pkg/extractor"
	"rare/pkg/matchers"
	"rare/pkg/matchers/fastregex"
)

type c02HistItem struct {
	src  string
	num  uint64
	line string
}

func c02ParseHist(s string) ([]c02HistItem, bool) {
	if s == "." {
		return nil, true
	}
	var out []c02HistItem
	for _, it := range strings.Split(s, "+") {
		p := strings.Split(it, "/")
		if len(p) != 3 {
			return nil, false
		}
		n, err := strconv.ParseUint(p[1], 10, 64)
		if err != nil {
			return nil, false
		}
		out = append(out, c02HistItem{src: string(UnHex(p[0])), num: n, line: string(UnHex(p[2]))})
	}
	return out, true
}

func c02HistRun(f []string) string {
	if len(f) != 6 {
		return "bad-args"
	}
	maxBatch, _ := strconv.Atoi(f[2])
	if maxBatch < 1 {
		return "bad-args"
	}
	keys := UnHexListS(f[4])
	if len(keys) == 0 {
		return "bad-args"
	}
	var tpl []string
	for _, k := range keys {
		if strings.ContainsAny(k, "{}\\ \"'") || k == "" {
			return "bad-args"
		}
		tpl = append(tpl, "{"+k+"}")
	}
	items, ok := c02ParseHist(f[5])
	if !ok {
		return "bad-args"
	}
	re, err := fastregex.CompileEx(string(UnHex(f[3])), f[1] != "0")
	if err != nil {
		return "bad-pattern"
	}
	in := make(chan extractor.InputBatch, len(items)+1)
	for i := 0; i < len(items); {
		b := extractor.InputBatch{Source: items[i].src, BatchStart: items[i].num}
		j := i
		for j < len(items) && j-i < maxBatch && items[j].src == items[i].src && items[j].num == items[i].num+uint64(j-i) {
			b.Batch = append(b.Batch, extractor.BString(items[j].line))
			j++
		}
		in <- b
		i = j
	}
	close(in)
	ex, err := extractor.New(in, &extractor.Config{Matcher: matchers.ToFactory(re), Extract: strings.Join(tpl, "|"), Workers: 1})
	if err != nil {
		return "compile-error " + HexS(err.Error())
	}
	var held [][]extractor.Match
	timeout := time.After(20 * time.Second)
loop:
	for {
		select {
		case mb, more := <-ex.ReadChan():
			if !more {
				break loop
			}
			held = append(held, mb)
		case <-timeout:
			return "hang"
		}
	}
	runtime.GC()
	var rows []string
	for _, mb := range held {
		for _, m := range mb {
			ix := make([]string, len(m.Indices))
			for i, v := range m.Indices {
				ix[i] = strconv.Itoa(v)
			}
			rows = append(rows, fmt.Sprintf("%s/%d/%s/%s/%s", HexS(m.Source), m.LineNumber, HexS(m.Line), strings.Join(ix, "."), HexS(m.Extracted)))
		}
	}
	body := "."
	if len(rows) > 0 {
		body = strings.Join(rows, "+")
	}
	return fmt.Sprintf("ok read=%d matches=%s", ex.ReadLines(), body)
}

// ---- generator

type c02HistFam struct {
	posix bool
	pat   string
	names []string
	hit   func(r *Rand) string
	miss  []string
}

func c02HistFams() []c02HistFam {
	word := []string{"alpha", "beta", "x", "y_2", "Zq", "k9", "gamma"}
	return []c02HistFam{
		{false, `(\w+)=(\d+)`, nil, func(r *Rand) string {
			return fmt.Sprintf("%s%s=%d%s", Pick(r, []string{"", "", "# "}), Pick(r, word), r.Intn(50), Pick(r, []string{"", "", " tail"}))
		}, []string{"noise", "", "=", "a = 1"}},
		{false, `(?P<k>[a-z]+)=(?P<v>\d*)( \w+)?`, []string{"k", "v"}, func(r *Rand) string {
			return fmt.Sprintf("%s=%s%s", Pick(r, []string{"key", "n", "abc", "q"}), Pick(r, []string{"", "7", "42", "007"}), Pick(r, []string{"", " rest", " r2 more"}))
		}, []string{"KEY 1", "", "="}},
		{false, `^(a|(b))(c)?(.*)$`, nil, func(r *Rand) string {
			return Pick(r, []string{"a", "b", "ac", "bc", "bcd", "a tail", "accc"})
		}, []string{"", "x", "ca"}},
		{false, `(?P<ip>\d+\.\d+) (?P<m>[A-Z]+) (\S+)`, []string{"ip", "m"}, func(r *Rand) string {
			return fmt.Sprintf("%d.%d %s /p/%s", r.Intn(256), r.Intn(256), Pick(r, []string{"GET", "PUT", "POST"}), Pick(r, word))
		}, []string{"1.2 get /x", "-", "GET /x"}},
		{true, `([a-z]+)=([0-9]+)`, nil, func(r *Rand) string {
			return fmt.Sprintf("%s=%d", Pick(r, []string{"alpha", "beta", "x", "zz"}), r.Intn(1000))
		}, []string{"NOISE", "", "a="}},
	}
}

func c02HistGenOne(r *Rand) string {
	fams := c02HistFams()
	fm := fams[r.Intn(len(fams))]
	pool := append([]string{"@", "@", "0", "1", "2", "3", "src", "line", "absent", "01", "-1"}, fm.names...)
	var keys []string
	nk := 1 + r.Intn(4)
	for k := 0; k < nk; k++ {
		keys = append(keys, Pick(r, pool))
	}
	if r.Chance(3, 4) {
		keys[r.Intn(len(keys))] = "@"
	}
	// the shapes that matter: several sources whose line numbers restart at 1; the same number again and again;
	// the same match twice; unmatched lines between two matches; one source in ascending batches (control)
	srcs := []string{"a.log", "b.log", "dir/c.log", "-", "<stdin>", "a.log"}
	nsrc := 2 + r.Intn(4)
	mode := r.Intn(6)
	n := 2 + r.Intn(9)
	var items []string
	next := map[string]uint64{}
	prev := ""
	cur := srcs[r.Intn(nsrc)]
	for i := 0; i < n; i++ {
		src := cur
		var num uint64
		switch mode {
		case 0: // every item is line 1 of some source (one-line files)
			src = srcs[i%len(srcs)]
			if r.Chance(1, 3) {
				src = fmt.Sprintf("f%d", i)
			}
			num = 1
		case 1, 2: // line numbers restart per source; runs of one source (batches), then another source
			if r.Chance(1, 3) {
				cur = srcs[r.Intn(nsrc)]
				src = cur
			}
			next[src]++
			num = next[src]
		case 3: // one constant line number whatever the source
			src = srcs[r.Intn(nsrc)]
			num = 7
		case 4: // arbitrary numbers, repeats likely
			src = srcs[r.Intn(nsrc)]
			num = uint64(Pick(r, []int{0, 1, 1, 2, 3, 1 << 40}))
		default: // one source, ascending (the ordinary single-file run)
			src = "a.log"
			num = uint64(i + 1)
		}
		var line string
		switch {
		case r.Chance(1, 8) && prev != "":
			line = prev // the very same line again
		case len(fm.miss) > 0 && r.Chance(1, 5):
			line = Pick(r, fm.miss)
		default:
			line = fm.hit(r)
			prev = line
		}
		items = append(items, fmt.Sprintf("%s/%d/%s", HexS(src), num, HexS(line)))
	}
	px := "0"
	if fm.posix {
		px = "1"
	}
	return fmt.Sprintf("ctxhist %s %d %s %s %s", px, Pick(r, []int{1, 2, 3, 1000, 1000}), HexS(fm.pat), HexListS(keys), strings.Join(items, "+"))
}

func c02HistItems(items ...[3]string) string {
	var out []string
	for _, it := range items {
		out = append(out, fmt.Sprintf("%s/%s/%s", HexS(it[0]), it[1], HexS(it[2])))
	}
	return strings.Join(out, "+")
}

func c02HistGen(r *Rand, tier string) []string {
	kv := HexS(`(\w+)=(\d+)`)
	out := []string{
		// two one-line files through one worker: both matches are "line 1"
		"ctxhist 0 1000 " + kv + " " + HexListS([]string{"src", "line", "@"}) + " " + c02HistItems([3]string{"a.log", "1", "alpha=1"}, [3]string{"b.log", "1", "beta=2"}),
		// larger batches: the last matching line of a.log and the first matching line of b.log carry the same number
		"ctxhist 0 1000 " + kv + " " + HexListS([]string{"src", "line", "@"}) + " " + c02HistItems([3]string{"a.log", "1", "x=10"}, [3]string{"a.log", "2", "noise"},
			[3]string{"a.log", "3", "y=20"}, [3]string{"a.log", "4", "noise"}, [3]string{"b.log", "1", "noise"}, [3]string{"b.log", "2", "noise"}, [3]string{"b.log", "3", "z=30"}, [3]string{"b.log", "4", "w=40"}),
		// control: one source, any batching
		"ctxhist 0 2 " + kv + " " + HexListS([]string{"@", "0", "1", "2"}) + " " + c02HistItems([3]string{"a.log", "1", "x=10"}, [3]string{"a.log", "2", "y=20"}, [3]string{"a.log", "3", "z=30"}),
		// the same match again later; a named group, {0}, an unknown name
		"ctxhist 0 1 " + HexS(`(?P<k>[a-z]+)=(?P<v>\d*)`) + " " + HexListS([]string{"k", "@", "v", "nope"}) + " " + c02HistItems([3]string{"a", "1", "k=1"}, [3]string{"b", "1", "q="}, [3]string{"c", "1", "K"}, [3]string{"a", "1", "k=1"}),
		"ctxhist 1 3 " + HexS(`([a-z]+)=([0-9]+)`) + " " + HexListS([]string{"@"}) + " " + c02HistItems([3]string{"a", "7", "x=1"}, [3]string{"b", "7", "y=2"}, [3]string{"c", "7", "z=3"}),
		"ctxhist 0 1 " + kv + " " + HexListS([]string{"@"}) + " .",
	}
	n := 260
	if tier == "thorough" {
		n = 6000
	}
	for i := 0; i < n; i++ {
		out = append(out, c02HistGenOne(r))
	}
	return out
}

func c02HistStats(cases []string, st map[string]int) {
	for _, c := range cases {
		f := strings.Fields(c)
		if f[0] != "ctxhist" || len(f) != 6 {
			continue
		}
		items, ok := c02ParseHist(f[5])
		if !ok {
			continue
		}
		keys := UnHexListS(f[4])
		hasArr := false
		for _, k := range keys {
			if k == "@" {
				hasArr = true
			}
		}
		if hasArr {
			st["ctxhist.key.@"]++
		}
		srcs := map[string]bool{}
		sameNumOtherSrc := false
		for i, it := range items {
			srcs[it.src] = true
			if i > 0 && items[i-1].num == it.num && items[i-1].src != it.src {
				sameNumOtherSrc = true
			}
		}
		if len(srcs) > 1 {
			st["ctxhist.sources.2+"]++
		} else {
			st["ctxhist.sources.0-1"]++
		}
		if sameNumOtherSrc {
			st["ctxhist.sameLineNumberInNextSource"]++
			if hasArr {
				st["ctxhist.sameLineNumberInNextSource.with@"]++
			}
		}
		if f[1] != "0" {
			st["ctxhist.posix"]++
		}
	}
}
