//go:build c05

package main

// C05 trace inclusion on the SIGNAL path: the event log of a real run of helpers.RunAggregationLoop that is ended by
// SIGINT (or, control group, by the end of a finite input) is checked to be a path of the signal transition system
// (Model/C05Signal.lean) by the machine of Model/C05SignalTrace.lean (`ms` = hook m.signal = SStep.signal).
//
//   strace <workers>.<batch>.<when>.<renderMs>.<gapUs>.<finite> <summary> <trace>
//
//     <when> = s<n> (SIGINT raised inside the n-th Sample), r<k> (inside the k-th render), n (no signal; then
//     <finite> batches are sent and the channel is closed).  <summary> = signalled.samples.lastRenderTotal as the
//     harness saw them; the model answers what the accepted path ends with.  Only the loop's share of the log is
//     kept (the extractor's workers log too; C01's machine checks them in `atrace`, where the pipeline ends).

import (
	"fmt"
	"os"
	"os/signal"
	"strconv"
	"strings"
	"sync/atomic"
	"syscall"
	"time"

	"rare/cmd/helpers"
	"rare/pkg/aggregation"
	"rare/pkg/extractor"
)

var c05AggKinds = map[string]bool{"mr": true, "ml": true, "sa": true, "mu": true, "me": true, "md": true, "td": true, "mt": true,
	"mf": true, "mg": true, "tt": true, "tl": true, "tr": true, "rb": true, "rn": true, "ms": true}

type sigTraceCfg struct {
	workers, batch     int
	when               string
	renderMs, gapUs, n int
}

func (c sigTraceCfg) String() string {
	return fmt.Sprintf("%d.%d.%s.%d.%d.%d", c.workers, c.batch, c.when, c.renderMs, c.gapUs, c.n)
}

func parseSigTraceCfg(s string) (sigTraceCfg, bool) {
	p := strings.Split(s, ".")
	if len(p) != 6 {
		return sigTraceCfg{}, false
	}
	atoi := func(s string) int { n, _ := strconv.Atoi(s); return n }
	c := sigTraceCfg{workers: atoi(p[0]), batch: atoi(p[1]), when: p[2], renderMs: atoi(p[3]), gapUs: atoi(p[4]), n: atoi(p[5])}
	return c, c.workers >= 1 && c.batch >= 1 && len(c.when) >= 1
}

type sigTracedCounter struct {
	*aggregation.MatchCounter
	n, after int64
}

func (w *sigTracedCounter) Sample(ele string) {
	n := atomic.AddInt64(&w.n, 1)
	if n == w.after {
		syscall.Kill(os.Getpid(), syscall.SIGINT)
		time.Sleep(300 * time.Microsecond) // let the runtime deliver it while main is still inside the batch
	}
	w.MatchCounter.Sample(ele)
	extractor.VerifTraceAppend("sample", ele, 0, 0)
}

// runSigTraced: summary "signalled.samples.last" and the loop's share of the event log; ok=false: the loop did not return.
func runSigTraced(c sigTraceCfg) (string, []extractor.VerifEvent, bool) {
	traceMu.Lock()
	defer traceMu.Unlock()
	c05SigOnce.Do(func() { signal.Notify(c05SigSink, os.Interrupt) })
	after, afterRender := 0, 0
	switch c.when[0] {
	case 's':
		after, _ = strconv.Atoi(c.when[1:])
	case 'r':
		afterRender, _ = strconv.Atoi(c.when[1:])
	}
	extractor.VerifTraceStart()
	ch := make(chan extractor.InputBatch, 2)
	ext, err := extractor.New(ch, &extractor.Config{Matcher: fieldMatcher{}, Extract: "{word}", Workers: c.workers})
	if err != nil {
		extractor.VerifTraceStop()
		panic(err)
	}
	var stop int32
	go func() {
		ln := uint64(1)
		keys := []string{"a", "b", "cc", "dd"}
		for sent := 0; atomic.LoadInt32(&stop) == 0 && (c.when != "n" || sent < c.n); {
			var cur []extractor.BString
			for i := 0; i < c.batch; i++ {
				cur = append(cur, extractor.BString(keys[int(ln)%len(keys)]+" 1 2 2020-01-01"))
				ln++
			}
			select {
			case ch <- extractor.InputBatch{Batch: cur, Source: "s", BatchStart: ln - uint64(c.batch)}:
				sent++
			case <-time.After(20 * time.Millisecond):
				ln -= uint64(c.batch)
			}
			if c.gapUs > 0 {
				time.Sleep(time.Duration(c.gapUs) * time.Microsecond)
			}
		}
		close(ch)
	}()
	w := &sigTracedCounter{MatchCounter: aggregation.NewCounter(), after: int64(after)}
	var renders, last int64
	var returned int32
	render := func() {
		var sum int64
		for _, it := range w.MatchCounter.Items() {
			sum += it.Item.Count()
		}
		matched := ext.MatchedLines()
		extractor.VerifTraceAppend("render.begin", "", matched, uint64(sum))
		if afterRender > 0 && atomic.LoadInt64(&renders)+1 == int64(afterRender) && atomic.LoadInt32(&returned) == 0 {
			syscall.Kill(os.Getpid(), syscall.SIGINT)
		}
		if c.renderMs > 0 {
			time.Sleep(time.Duration(c.renderMs) * time.Millisecond)
		}
		atomic.AddInt64(&renders, 1)
		atomic.StoreInt64(&last, sum)
		extractor.VerifTraceAppend("render.end", "", 0, 0)
	}
	done := make(chan struct{})
	go func() {
		helpers.RunAggregationLoop(ext, w, render)
		atomic.StoreInt32(&returned, 1)
		close(done)
	}()
	ok := true
	select {
	case <-done:
	case <-time.After(20 * time.Second):
		ok = false
	}
	if ok {
		waitEvent("t.done")
	}
	all := extractor.VerifTraceStop()
	samples, lastTotal := atomic.LoadInt64(&w.n), atomic.LoadInt64(&last)
	atomic.StoreInt32(&stop, 1)
	// Wait until the rest of the pipeline has ended (readChan is closed once every worker has returned): a worker that
	// exits later would log its `w.exit` into the trace of the NEXT case (seen under load: an atrace log with the worker
	// exits of this case's extractor, "4 worker goroutines logged, 2 configured").
	drained := make(chan struct{})
	go func() {
		for range ext.ReadChan() {
		}
		close(drained)
	}()
	select {
	case <-drained:
	case <-time.After(3 * time.Second):
	}
	var evs []extractor.VerifEvent
	signalled := 0
	for _, e := range all {
		if c05AggKinds[traceKinds[e.Ev]] {
			evs = append(evs, e)
			if e.Ev == "m.signal" {
				signalled = 1
			}
		}
	}
	return fmt.Sprintf("%d.%d.%d", signalled, samples, lastTotal), evs, ok
}

func sigTraceAnswer(summary string) string {
	p := strings.Split(summary, ".")
	if len(p) != 3 {
		return "bad-summary"
	}
	return fmt.Sprintf("ok accepted signalled=%s sampled=%s last=%s", p[0], p[1], p[2])
}

var c05SigTraceEvents int

func sigTraceCase(c sigTraceCfg) string {
	summary, evs, ok := runSigTraced(c)
	cs := fmt.Sprintf("strace %s %s %s", c.String(), summary, encodeTrace(evs, srcIndex))
	if !ok {
		traceAnswers[cs] = "hang: RunAggregationLoop did not return after SIGINT"
	} else {
		traceAnswers[cs] = sigTraceAnswer(summary)
	}
	c05SigTraceEvents += len(evs)
	return cs
}

// c05SigTraceRun: the recorded answer; on a replay the real loop is run again with the same configuration (it must
// return, and a run with a signal must log one) and the recorded log is what the model judges.
func c05SigTraceRun(f []string) string {
	if a, ok := traceAnswers[strings.Join(f, " ")]; ok {
		return a
	}
	if len(f) < 4 {
		return "bad-args"
	}
	c, ok := parseSigTraceCfg(f[1])
	if !ok {
		return "bad-args cfg"
	}
	summary, _, ret := runSigTraced(c)
	if !ret {
		return "hang: RunAggregationLoop did not return after SIGINT"
	}
	if strings.Split(summary, ".")[0] != strings.Split(f[2], ".")[0] {
		return "DIFF rerun-signalled " + summary + " recorded " + f[2]
	}
	return sigTraceAnswer(f[2])
}

func c05SigTraceGen(r *Rand, tier string) []string {
	n := 3
	if tier == "thorough" {
		n = 24
	}
	var out []string
	for i := 0; i < n; i++ {
		c := sigTraceCfg{workers: Pick(r, []int{1, 2, 4}), batch: Pick(r, []int{1, 3, 7}), renderMs: Pick(r, []int{0, 5, 60, 130})}
		switch i % 3 {
		case 0: // Ctrl-C while main holds the mutex, inside a Sample
			c.when = fmt.Sprintf("s%d", Pick(r, []int{1, 2, 10, 60, 200}))
			c.gapUs = Pick(r, []int{0, 200, 1000})
		case 1: // Ctrl-C while a periodic render runs (the ticker holds the mutex; main in its select or waiting for the lock)
			c.when = fmt.Sprintf("r%d", Pick(r, []int{1, 1, 2}))
			c.gapUs = Pick(r, []int{1500, 4000, 30000})
		default: // control group: no signal, the input ends
			c.when, c.n = "n", Pick(r, []int{0, 1, 5, 40})
			c.gapUs = Pick(r, []int{0, 3000, 30000})
		}
		out = append(out, sigTraceCase(c))
	}
	return out
}
