//go:build c18

package main

// C18, round 4d: numeric zone abbreviations read by VALUE.  Go's `parseSignedOffset` hands the digits
// after `GMT+` / `+` to `leadingInt`, whose overflow test is on the value (x > 1<<63/10 before the
// multiplication, x > 1<<63 after it): zero-padded hours of any length are accepted
// (`GMT+0000000000000000000007` is ONE abbreviation), 19 digits above 2^63 are not, and the hour must be
// at most 23.  This family writes such abbreviations into texts for the `time` op (UTC: no oracle – the zone
// list of time.UTC is empty; named zones: the old oracle), into `zn` cases (table + zone list, no oracle)
// and feeds `{durationformat n}` with the n whose nanosecond product wraps into the sub-second range.

import (
	"fmt"
	"regexp"
	"strconv"
	"strings"
	"time"
)

var c18OffRe = regexp.MustCompile(`(GMT)?[+-]([0-9]+)`)

// c18OffStats counts the numeric abbreviations of a text by shape.
func c18OffStats(text string, st map[string]int) {
	for _, m := range c18OffRe.FindAllStringSubmatch(text, -1) {
		if m[1] == "" && len(m[2]) < 6 {
			continue // numeric offsets of the ordinary layouts
		}
		st["numabbr.total"]++
		if len(m[2]) > 19 {
			st["numabbr.more-than-19-digits"]++
		}
		if strings.HasPrefix(m[2], "0") && len(m[2]) > 2 {
			st["numabbr.zero-padded"]++
		}
		v, err := strconv.ParseUint(m[2], 10, 64)
		switch {
		case err != nil || v > 1<<63:
			st["numabbr.value-overflows"]++
		case v > 23:
			st["numabbr.hour-above-23"]++
		default:
			st["numabbr.hour-ok"]++
		}
	}
}

var c18OffValues = []string{"0", "1", "3", "7", "9", "10", "11", "12", "14", "19", "20", "22", "23", "24", "25", "29", "30", "99", "100", "230", "2300",
	"9223372036854775807", "9223372036854775808", "9223372036854775809", "922337203685477580", "922337203685477581", "9223372036854775799", "9223372036854775810",
	"18446744073709551616", "18446744073709551623", "92233720368547758080", "10000000000000000000", "99999999999999999999"}

// c18NumAbbr: `[GMT]±0…0<value>`.
func c18NumAbbr(r *Rand) string {
	var sb strings.Builder
	if r.Chance(2, 3) {
		sb.WriteString("GMT")
	}
	sb.WriteString(Pick(r, []string{"+", "-"}))
	switch r.Intn(6) {
	case 0: // no padding
	case 1, 2: // around the 19/20 digit mark of the old model
		sb.WriteString(strings.Repeat("0", r.Range(15, 23)))
	case 3:
		sb.WriteString(strings.Repeat("0", r.Range(1, 4)))
	case 4:
		sb.WriteString(strings.Repeat("0", r.Range(24, 70)))
	default:
		sb.WriteString(strings.Repeat("0", r.Intn(20)))
	}
	switch r.Intn(8) {
	case 0:
		sb.WriteString(Pick(r, c18OffValues))
	case 1:
		sb.WriteString(c18Digits(r, r.Range(17, 21)))
	case 2:
		if r.Bool() {
			sb.WriteString("") // sign + zeros only (value 0), or a bare sign
		} else {
			sb.WriteString(strconv.Itoa(r.Intn(24)) + Pick(r, []string{"x", ":00", ".5", "h", " "}))
		}
	default:
		sb.WriteString(strconv.Itoa(r.Intn(27)))
	}
	return sb.String()
}

// c18OffsetCase: a `time` case whose text carries a numeric abbreviation.
func c18OffsetCase(r *Rand) string {
	z := c18Zones[r.Intn(30)]
	if r.Chance(1, 2) {
		z = c18Zones[r.Intn(4)] // rare's UTC: answered without oracle
	}
	u := c18Instant(r, z)
	f := Pick(r, c18AbbrLayouts)
	layout, named := c18Layouts[f]
	if !named {
		layout = f
	}
	t := time.Unix(u, 0).In(z.loc)
	name, _ := t.Zone()
	s := strings.Replace(t.Format(layout), name, c18NumAbbr(r), 1)
	if r.Chance(1, 12) {
		s = c18Mutate(r, s)
	}
	if c18Gap(layout, s, z.loc) {
		return ""
	}
	_, outs := c18Eval("time", 3, []string{f, z.arg}, []string{s})
	o, a := 0, ""
	if len(outs) == 1 {
		if v, err := strconv.ParseInt(outs[0], 10, 64); err == nil {
			o, a = c18ZoneAt(z, v)
		}
	}
	return fmt.Sprintf("time 3 %s %s %s %s %d %s", HexS(f), HexS(z.arg), c18Ok(z), HexS(s), o, HexS(a))
}

// c18SubSecondSecs: an n with n·10^9 ≡ 512·j (mod 2^64), |512·j| < 10^9 – the only way `{durationformat n}`
// reaches the sub-second branch of Duration.String (ns / µs / ms units).  10^9 = 2^9·5^9, so n ≡ j·(5^9)^-1 (mod 2^55).
func c18SubSecondSecs(r *Rand) string {
	var j int64
	switch r.Intn(5) {
	case 0:
		j = int64(r.Intn(4)) // 0, 512ns, 1.024µs, 1.536µs
	case 1:
		j = Pick(r, []int64{1, 2, 1953, 1954, 1953124, 1953125, 1953126, 125, 15625, 1953125 / 5, 390625, 78125})
	case 2:
		j = int64(r.Intn(1954)) // below 1 ms
	default:
		j = int64(r.Intn(1953130))
	}
	if r.Bool() {
		j = -j
	}
	n := uint64(j) * c18Inv5p9 // mod 2^64; only the low 55 bits matter
	n &= 1<<55 - 1
	n |= uint64(r.Intn(512)) << 55 // any of the 512 representatives in int64
	return strconv.FormatInt(int64(n), 10)
}

// (5^9)^-1 mod 2^64 by Newton iteration.
var c18Inv5p9 = func() uint64 {
	a := uint64(1953125)
	x := a // a·a ≡ 1 mod 8 for odd a
	for i := 0; i < 6; i++ {
		x *= 2 - a*x
	}
	return x
}()
