//go:build c11 || c08

package main

import (
	"fmt"
	"strings"

	"rare/pkg/expressions"
	"rare/pkg/expressions/funclib"
)

// `fmt` op of C08 / C11: {format …} = fmt.Sprintf on string operands.
//
//	fmt <format hex> <operands hexlist>
//
// The real side compiles `{format {0} {1} … {n}}` with funclib.NewKeyBuilder (kfFormat) and evaluates it on
// the elements [format, operands…]; the model is lean/Rare/Model/Expr/Funcs/Format.lean (`sprintf`).

var fmtCompiled = map[int]*expressions.CompiledKeyBuilder{}

func fmtKB(n int) *expressions.CompiledKeyBuilder {
	if kb, ok := fmtCompiled[n]; ok {
		return kb
	}
	var sb strings.Builder
	sb.WriteString("{format")
	for i := 0; i <= n; i++ {
		fmt.Fprintf(&sb, " {%d}", i)
	}
	sb.WriteString("}")
	kb, _ := funclib.NewKeyBuilderEx(false).Compile(sb.String())
	fmtCompiled[n] = kb
	return kb
}

func fmtRun(f []string) (string, bool) {
	if len(f) != 3 || f[0] != "fmt" {
		return "", false
	}
	ops := UnHexListS(f[2])
	kb := fmtKB(len(ops))
	if kb == nil {
		return "nil-compiled", true
	}
	elems := append([]string{string(UnHex(f[1]))}, ops...)
	return "ok val=" + HexS(kb.BuildKey(&expressions.KeyBuilderContextArray{Elements: elems})), true
}

func fmtCase(format string, ops []string) string {
	return fmt.Sprintf("fmt %s %s", HexS(format), HexListS(ops))
}

// operands: ASCII, empty, multi-byte runes, invalid UTF-8, quotes / control characters / back-quote /
// U+FEFF / DEL (for %q and %#q), digits, long
var fmtOperands = []string{"abc", "", "a", "hello world", "é", "日本語", "a\xffb", "\xff", "\xc3", "\xe2\x82", "a\"b", "a\\b", "tab\there", "nl\nx", "\x00", "\x7f", "\x1b[0m",
	"a`b", "\ufeffx", "\ufffd", "\U0001F600", "é\xffü", "12", "-5", "3.5", " ", "%s", "%!d(string=x)", strings.Repeat("x", 40), "\u00ad", "\u2028", "\u0378", "\a\b\f\r\v"}

var fmtVerbs = []string{"s", "v", "q", "x", "X", "d", "T", "p", "w", "%", "!", "Z", "é", "\xff", "c", "t", "U", "e", "b", "o", "O", "S", "\xe2\x82", "日", ""}
var fmtFlagSets = []string{"", "-", "+", "#", "0", " ", "-0", "0-", "+#", "# ", "#+ ", "-#", "+-# 0", "00", "--", " 0"}
var fmtWidths = []string{"", "", "", "1", "5", "12", "*", "03", "40", "[1]*", "[2]*", "[5]*"}
var fmtPrecs = []string{"", "", "", ".", ".0", ".1", ".2", ".10", ".*", ".[1]*", ".[2]3", ".[9]*", ".-1"}
var fmtIndexes = []string{"", "", "", "", "[1]", "[2]", "[3]", "[0]", "[9]", "[x]", "[1", "[]", "[-1]", "[1000001]", "[10000010]", "[ 1]", "[1][2]"}

func fmtVerbSpec(r *Rand) string {
	var sb strings.Builder
	sb.WriteString("%")
	sb.WriteString(Pick(r, fmtFlagSets))
	if r.Chance(1, 3) {
		sb.WriteString(Pick(r, fmtIndexes))
	}
	sb.WriteString(Pick(r, fmtWidths))
	sb.WriteString(Pick(r, fmtPrecs))
	if r.Chance(1, 3) {
		sb.WriteString(Pick(r, fmtIndexes))
	}
	sb.WriteString(Pick(r, fmtVerbs))
	return sb.String()
}

var fmtSoup = []string{"%", "%", "%%", "s", "q", "x", "v", "d", "[1]", "[2]", "[", "]", "*", ".", "5", "0", "1", "-", "+", "#", " ", "abc", "é", "\xff", "X", "T", "w", "10", "3", ".2", "%s", "%5s", "%-5s|", "%q", "% x", "%#q", "%+q", "%x"}

func fmtOps(r *Rand) []string {
	n := r.Intn(4)
	if r.Chance(1, 10) {
		n = r.Range(4, 6)
	}
	ops := make([]string, n)
	for i := range ops {
		ops[i] = Pick(r, fmtOperands)
	}
	return ops
}

// fmtGenCases: systematic single-verb formats (flags x index x width x precision x index x verb), verb soup,
// and the numeric boundaries of parsenum / tooLarge.
func fmtGenCases(r *Rand, tier string) []string {
	n := 1500
	if tier == "thorough" {
		n = 60000
	}
	var out []string
	// hand-picked
	for _, c := range []struct {
		f string
		a []string
	}{
		{"%s", []string{"abc"}}, {"%s", nil}, {"plain", nil}, {"plain", []string{"x", "y"}}, {"", nil}, {"", []string{"x"}}, {"%", nil}, {"%", []string{"x"}}, {"100%%", nil}, {"%5%", nil},
		{"%s %s", []string{"a"}}, {"%[2]s %[1]s", []string{"a", "b"}}, {"%[3]s", []string{"a", "b"}}, {"%[1]*s", []string{"a", "b"}}, {"%*s", []string{"a", "b"}}, {"%.*s", []string{"a", "b"}},
		{"%*s", nil}, {"%.*s", nil}, {"%[1]2s", []string{"a"}}, {"%[1].2s", []string{"a"}}, {"%.[1]s", []string{"a"}}, {"%.s|", []string{"abc"}}, {"%.", []string{"abc"}}, {"%.5", []string{"abc"}},
		{"%T %v %#v %+v", []string{"a", "b", "c", "d"}}, {"%#w|%+w|%w", []string{"a\"", "b", "c"}}, {"%-05s|%05s|%-5q|%05q", []string{"a", "b", "c", "d"}}, {"%3s|%-3s|", []string{"日本語x", "é"}},
		{"%.2s|%.2q|%.2x|%.0s|", []string{"héllo", "héllo", "héllo", "abc"}}, {"%q|%+q|%#q|%#+q", []string{"é\n", "é\n", "é`", "a`b"}}, {"%x|%X|% x|%# x|%#X|% X", []string{"hi", "hi", "hi", "hi", "hi", "\xff\x00"}},
		{"%10.1x|%-10x|%010x|%5x|%-5x|", []string{"hi", "hi", "hi", "", ""}}, {"%d|%5d|%-5d|%.1d|%05d", []string{"12", "12", "12", "12", "12"}}, {"%!|%z|%\xff|%é", []string{"a", "b", "c", "d"}},
		{"%1000000s", []string{"a"}}, {"%1000001s|", []string{"a"}}, {"%10000010s|", []string{"a"}}, {"%.1000001s|", []string{"a"}}, {"%.10000010s|", []string{"a"}}, {"%[1000000]s", []string{"a"}},
		{"%[1]s%[1]s%s", []string{"a", "b"}}, {"%s%[1]s", []string{"a", "b"}}, {"%[2]*[1]s", []string{"a", "b"}}, {"%[1]s %s %s", []string{"a", "b"}}, {"%-*s|", []string{"5", "x"}}, {"%s", []string{"%s"}},
	} {
		out = append(out, fmtCase(c.f, c.a))
	}
	for i := 0; i < n; i++ {
		var sb strings.Builder
		switch r.Intn(5) {
		case 0, 1: // one verb specification, some text around it
			if r.Bool() {
				sb.WriteString(Pick(r, []string{"a", "x=", "[", "é "}))
			}
			sb.WriteString(fmtVerbSpec(r))
			if r.Bool() {
				sb.WriteString(Pick(r, []string{"|", " ", "]", "%%", "%"}))
			}
		case 2: // several
			for k := r.Range(2, 4); k > 0; k-- {
				sb.WriteString(fmtVerbSpec(r))
				sb.WriteString(Pick(r, []string{"", "|", " ", ","}))
			}
		default: // soup
			for k := r.Range(1, 9); k > 0; k-- {
				sb.WriteString(Pick(r, fmtSoup))
			}
		}
		out = append(out, fmtCase(sb.String(), fmtOps(r)))
	}
	if tier == "thorough" {
		// exhaustive: flags x width x precision x verb on a fixed operand pair
		for _, fl := range fmtFlagSets {
			for _, w := range []string{"", "3", "*"} {
				for _, p := range []string{"", ".", ".1", ".*"} {
					for _, v := range fmtVerbs {
						out = append(out, fmtCase("%"+fl+w+p+v+"|", []string{"héllo\n", "a`b"}))
					}
				}
			}
		}
		for _, op := range fmtOperands {
			for _, spec := range []string{"%s", "%q", "%+q", "%#q", "%#+q", "%x", "% X", "%#x", "%v", "%#v", "%d", "%3s", "%-3s", "%.1s", "%.1q", "%.1x", "%5.2q"} {
				out = append(out, fmtCase(spec+"|", []string{op}))
			}
		}
	}
	return out
}

func fmtStats(cases []string, st map[string]int) {
	for _, c := range cases {
		f := strings.Fields(c)
		if len(f) != 3 || f[0] != "fmt" {
			continue
		}
		st["op.fmt"]++
		format := string(UnHex(f[1]))
		st[fmt.Sprintf("fmt.operands.%d", len(UnHexListS(f[2])))]++
		st["fmt.verbs"] += strings.Count(format, "%")
		if strings.Contains(format, "[") {
			st["fmt.with-index"]++
		}
		if strings.Contains(format, "*") {
			st["fmt.with-star"]++
		}
	}
}

func init() {
	c11ExtraGen = append(c11ExtraGen, fmtGenCases)
	c11ExtraRun = append(c11ExtraRun, fmtRun)
	c11ExtraStats = append(c11ExtraStats, fmtStats)
}
