//go:build c17

package main

import (
	"fmt"
	"strings"

	"rare/pkg/expressions/funclib"
)

// C17, op `heapm <poolsize> <opt> <skeleton> <elems> <keys>`: a template given by its helper skeleton in prefix
// notation (M @map, F @filter, R @reduce, O @for, L @len, S<n> the n-th leaf of c17HmLeaves; Lean: Drv/C17.lean
// `Sk`, `hmLeaves`, same order).  The Lean side runs the heap machine of Model/C17Heap.lean (real Get / overwrite /
// Eval / Return on objects, look-ups by pointer chasing, a heap full of garbage) – here the real BuildKey runs.
// <poolsize> only concerns the machine (the real pool is whatever the process has made of it by now).

var c17HmLeaves = []string{"{0}", "{1}", "{arr}", "{k}", "{0}{k}", "{0}{d}{1}", "{neq {0} {k}}", "{neq {1} 3}", "{neq {1} 2}", "{0}a", "x", "",
	"{eq {0} b}", "{-1}", "{1}{0}", "{if {eq {1} 1} b {0}}"}

func init() {
	c17HeapRun = func(f []string) (string, bool) {
		if f[0] != "heapm" {
			return "", false
		}
		if len(f) != 6 {
			return "bad-args", true
		}
		toks := strings.Split(f[3], ",")
		t, rest, ok := c17SkArg(toks)
		if !ok || len(rest) != 0 {
			return "bad-args", true
		}
		kb := funclib.NewKeyBuilderEx(f[2] == "1")
		compiled, errs := kb.Compile(t)
		if compiled == nil || (errs != nil && len(errs.Errors) > 0) {
			return "compile-error " + errsStr(errs), true
		}
		return "ok " + HexS(compiled.BuildKey(mkContext(f[4], f[5]))), true
	}
	c17HeapGen = c17HeapGenCases
}

// the skeleton spelled as one template argument
func c17SkArg(toks []string) (string, []string, bool) {
	if len(toks) == 0 {
		return "", nil, false
	}
	tok, rest := toks[0], toks[1:]
	arity := map[string]int{"M": 2, "F": 2, "R": 2, "O": 3, "L": 1}
	name := map[string]string{"M": "@map", "F": "@filter", "R": "@reduce", "O": "@for", "L": "@len"}
	if n, ok := arity[tok]; ok {
		out := "{" + name[tok]
		for i := 0; i < n; i++ {
			var a string
			a, rest, ok = c17SkArg(rest)
			if !ok {
				return "", nil, false
			}
			out += " " + a
		}
		return out + "}", rest, true
	}
	if strings.HasPrefix(tok, "S") {
		var n int
		if _, err := fmt.Sscanf(tok[1:], "%d", &n); err != nil || n < 0 || n >= len(c17HmLeaves) {
			return "", nil, false
		}
		return "\"" + c17HmLeaves[n] + "\"", rest, true
	}
	return "", nil, false
}

type c17Hm struct{ r *Rand }

func (g *c17Hm) leaf(ns ...int) string { return fmt.Sprintf("S%d", Pick(g.r, ns)) }

// an array-valued position
func (g *c17Hm) arr(d int) string {
	if d <= 0 || g.r.Chance(1, 3) {
		return g.leaf(0, 0, 2, 2, 1, 3)
	}
	switch g.r.Intn(4) {
	case 0:
		return "M," + g.arr(d-1) + "," + g.fn(d-1)
	case 1:
		return "F," + g.arr(d-1) + "," + g.pred(d-1)
	case 2:
		return g.forSk(d - 1)
	default:
		return "M," + g.arr(d-1) + "," + g.arr(d-1) // the sub-expression makes arrays: flattening
	}
}

// a sub-expression ({0}/{1} bound by the enclosing helper)
func (g *c17Hm) fn(d int) string {
	if d <= 0 || g.r.Chance(1, 3) {
		return g.leaf(4, 4, 5, 9, 3, 13, 14, 0, 15)
	}
	switch g.r.Intn(5) {
	case 0:
		return "M," + g.arr(d-1) + "," + g.fn(d-1)
	case 1:
		return "R," + g.arr(d-1) + "," + g.fn(d-1)
	case 2:
		return "L," + g.arr(d-1)
	case 3:
		return g.forSk(d - 1)
	default:
		return "F," + g.arr(d-1) + "," + g.pred(d-1)
	}
}

func (g *c17Hm) pred(d int) string {
	if d <= 0 || g.r.Chance(1, 2) {
		return g.leaf(6, 6, 12, 0, 1, 11)
	}
	if g.r.Bool() {
		return "L,F," + g.arr(d-1) + "," + g.pred(d-1) // truthy: the length (never empty)
	}
	return "R," + g.arr(d-1) + "," + g.leaf(6, 12, 5)
}

// always bounded by the round index
func (g *c17Hm) forSk(d int) string {
	next := g.leaf(9, 4, 14, 15)
	if d > 0 && g.r.Chance(1, 3) {
		next = "R," + g.arr(d-1) + "," + g.leaf(5, 14)
	}
	return "O," + g.leaf(3, 0, 10, 11) + "," + g.leaf(7, 8) + "," + next
}

// small contexts: the machine's heap is a chain of closures in the Lean model (one layer per store and per scheduling
// point), so the cost of a case grows with the SQUARE of its number of steps – arrays of at most 4 elements and
// nesting of at most 4 helpers keep a case in the milliseconds
func (g *c17Hm) context() ([]string, []string) {
	r := g.r
	words := []string{"a", "b", "ab", "", "x y", "é", "10", "-3", "k", " "}
	list := func() string {
		n := r.Intn(5)
		parts := make([]string, n)
		for i := range parts {
			parts[i] = Pick(r, words)
		}
		return strings.Join(parts, "\x00")
	}
	elems := []string{list(), Pick(r, words), Pick(r, []string{"0", "1", "2", "-1"})}
	if r.Chance(1, 8) {
		elems = elems[:r.Intn(3)]
	}
	keys := []string{}
	if r.Chance(7, 8) {
		keys = append(keys, "k", Pick(r, words))
	}
	if r.Chance(7, 8) {
		keys = append(keys, "arr", list())
	}
	if r.Chance(3, 4) {
		keys = append(keys, "d", Pick(r, []string{"-", ",", "", "é"}))
	}
	return elems, keys
}

func c17HeapGenCases(r *Rand, tier string) []string {
	n := 150
	if tier == "thorough" {
		n = 1500
	}
	g := &c17Hm{r: r}
	var out []string
	for i := 0; i < n; i++ {
		d := r.Range(1, 3)
		var sk string
		switch r.Intn(5) {
		case 0:
			sk = g.arr(d)
		case 1:
			sk = "R," + g.arr(d) + "," + g.fn(d-1)
		case 2:
			sk = "L," + g.arr(d)
		case 3:
			sk = "M," + g.arr(1) + "," + g.fn(d) // deep in the sub-expression: long parent chains
		default:
			sk = "F," + g.arr(d-1) + "," + g.pred(d)
		}
		if strings.HasPrefix(sk, "S") { // a bare leaf is not a statement (its quotes would be literal text at top level)
			sk = "L," + sk
		}
		if strings.Count(sk, "M")+strings.Count(sk, "F")+strings.Count(sk, "R")+strings.Count(sk, "O") > 5 {
			i--
			continue
		}
		elems, keys := g.context()
		line := ExprCase(r.Bool(), "x", elems, keys) // "expr <opt> <tmpl> <elems> <keys>"
		f := strings.Fields(line)
		out = append(out, fmt.Sprintf("heapm %d %s %s %s %s", Pick(r, []int{0, 0, 1, 2, 5}), f[1], sk, f[3], f[4]))
	}
	// fixed: three levels, every helper kind, an empty pool (every Get allocates)
	for _, sk := range []string{"M,S0,M,S2,S4", "M,S0,M,S2,M,S0,S5", "F,M,S0,S4,S6", "R,M,S2,S4,S5", "M,S0,O,S0,S8,S4", "O,S3,S7,R,S2,S14",
		"M,S2,F,S0,L,F,S2,S6", "L,M,S0,M,S2,S0"} {
		out = append(out, fmt.Sprintf("heapm 0 0 %s %s %s", sk, HexListS([]string{"a\x00b\x00\x00c", "x", "-3"}), HexListS([]string{"k", "b", "arr", "p\x00q", "d", "-"})))
	}
	return out
}
