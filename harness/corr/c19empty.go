//go:build c19

package main

import (
	"fmt"
)

// C19, "malformed formulas are rejected at compile time": EMPTY and BLANK-ONLY parenthesis pairs.
//
// A pair `()` / `( )` is a group token with empty text; Compile("") fails (ErrUnexpectedEnd), so a
// formula that contains one is malformed wherever it stands – also when the text would be a valid
// formula with the pair removed (`2()`, `()2`, `abs()x`, `-()3`, `1+()2`, `x( )`, `2(x())`).  The
// random generators practically never produced such a pair next to tokens that are otherwise fine
// (4 of 8 098 formulas of a quick round had one, all broken for another reason too), so a tokenizer
// that silently drops empty groups went unnoticed (seeded change C19-empty-group-dropped).
//
// Systematic part (every quick run): for every small valid formula of c19EmptyBase and EVERY byte
// position of it (also inside literals, names and nested groups, before/after unary operators,
// functions, groups, implied multiplications) one case per variant of the empty pair, as `gram`
// (accept/reject against the grammar of Spec/C19Grammar.lean) and as `math` (error kind or value
// against the model).  Random part: the same insertion into generated formulas.

var c19EmptyBase = []string{
	"2", "x", "[0]", "[x]", "2.5", "0x1F", "-2", "!x", "abs(x)", "sqrt(4)", "sin(x)", "(2)", "((2))", "(x)", "-(x)", "!(x)",
	"2+3", "x*y", "2^x", "x<3", "a&&b", "1<<2", "2+3*4", "x-1-2", "2(x)", "2(x+1)", "(2)(3)", "(x)(y)(2)", "x(2)^2", "abs(x)(2)",
	"-abs(-x)", "2 + x", " 2", "2 ", "(2+x)*3", "2*(x+1)", "((x)+1)", "1+(2*(3+x))", "abs(floor(x))", "2(3(x))", "[0]+[x]*n1", "x==y||!z", "1e3/x", "7%x",
}

var c19EmptyPairs = []string{"()", "( )", "(  )"}

// the documented witnesses of the seeded change and their neighbours (corpus as well)
var c19EmptyWitness = []string{"2()", "()2", "abs()x", "x( )", "2()+1", "-()3", "1+()2", "()", "1+()", "2(())", "(())", "2()()", "()()2", "( )x", "x ( ) ",
	"sin()(x)", "sin(x)()", "abs()", "abs( )", "2(x())", "2(()x)", "(()2)", "((2)())", "!()x", "-()", "2*()3", "2()*3", "[0]()", "()[0]", "2 ()", "() 2", "x()y", "1()0", "ab()s(x)"}

func c19EmptyInsertions(f string, pairs []string) []string {
	var out []string
	for p := 0; p <= len(f); p++ {
		for _, e := range pairs {
			out = append(out, f[:p]+e+f[p:])
		}
	}
	return out
}

func c19EmptyGen(r *Rand, tier string) []string {
	mf, kf := "c004000000000000,4008000000000000", HexS("x")+"=4008000000000000,"+HexS("y")+"=4000000000000000,"+HexS("n1")+"=3ff0000000000000"
	var out []string
	add := func(f string) {
		out = append(out, "gram "+HexS(f), fmt.Sprintf("math %s %s %s", HexS(f), mf, kf))
	}
	for _, w := range c19EmptyWitness {
		add(w)
	}
	out = append(out, ExprCase(true, "{! 2()}", nil, nil), ExprCase(true, "{! abs()x}", nil, []string{"x", "3"}), ExprCase(false, "{! [0]( )+1}", []string{"2"}, nil))
	for _, f := range c19EmptyBase {
		for _, g := range c19EmptyInsertions(f, c19EmptyPairs[:2]) {
			add(g)
		}
	}
	// random: generated formulas (valid, and sometimes two pairs), one random position each
	n := 150
	if tier == "thorough" {
		n = 6000
	}
	for i := 0; i < n; i++ {
		g := &c19Gen{r: r, exact: true}
		f := g.expr(r.Intn(3))
		p := r.Intn(len(f) + 1)
		f = f[:p] + Pick(r, c19EmptyPairs) + f[p:]
		if r.Chance(1, 5) {
			q := r.Intn(len(f) + 1)
			f = f[:q] + Pick(r, c19EmptyPairs) + f[q:]
		}
		add(f)
		if i%5 == 0 {
			out = append(out, fmt.Sprintf("ref %s %s %s", HexS(f), mf, kf))
		}
	}
	if tier == "thorough" {
		// the third variant, and pairs of insertions into the small formulas
		for _, f := range c19EmptyBase {
			for _, g := range c19EmptyInsertions(f, c19EmptyPairs[2:]) {
				add(g)
			}
			if len(f) <= 6 {
				for _, g := range c19EmptyInsertions(f, c19EmptyPairs[:1]) {
					for _, h := range c19EmptyInsertions(g, c19EmptyPairs[:1]) {
						add(h)
					}
				}
			}
		}
	}
	return out
}
