//go:build c17

package main

import (
	"bufio"
	"bytes"
	"fmt"
	"io"
	"os"
	"os/exec"
	"runtime/debug"
	"strconv"
	"strings"
	"sync"
	"time"

	"rare/pkg/expressions"
	"rare/pkg/expressions/funclib"
	"rare/pkg/slicepool"
)

// C17, the pooled sub-contexts (pkg/slicepool/objpool.go + subContextPool of funcsRange.go).
//
// Ops:
//   pool <size> <script>      drive the REAL slicepool.ObjectPool: script = comma-separated `g` (Get) and `r<k>`
//                             (Return the object handed out by the k-th Get, any order); the answer names the
//                             object every Get handed out (objects numbered by first appearance)
//   overlap <opt> <template> <script> <elems_1> <keys_1> … <elems_W> <keys_W>
//                             ONE compiled expression, W workers each with its own context; `s<i>` starts worker i
//                             (it parks at its first look-up of the key `tag`), `f<i>` lets it finish: evaluations
//                             overlap in exactly the scripted order (non-LIFO hand-back of pooled objects included);
//                             answer = the W `expr` answers, which the model computes one by one (the pool is
//                             invisible: Props/C17 `pool_exclusive`, `pooled_eval_fresh`)
//   (deep nestings of pool-backed helpers are plain `expr` cases: c17DeepTemplate)
//
// Isolation: a pooled object that is handed out twice can make a context its own parent; the real code then
// recurses until the Go runtime kills the PROCESS (fatal error: stack overflow – not a panic, cannot be
// recovered).  Every C17 case therefore runs in a child process (`corr run C17`, one long-lived child, restarted
// after a crash or a hang); a crash is the ANSWER of that case (`crash stack-overflow`), so the failing input is
// reported like any other mismatch.

var c17IsChild = os.Getenv("VERIF_C17_CHILD") == "1"

func init() {
	if c17IsChild {
		// a runaway recursion dies after 64 MB of stack instead of 1 GB: quick and cheap
		debug.SetMaxStack(64 << 20)
	}
	c17PoolRun = c17PoolOps
	c17PoolGen = c17PoolCases
	c17Isolate = c17RunIsolated
}

type c17Proc struct {
	cmd  *exec.Cmd
	in   io.WriteCloser
	out  *bufio.Reader
	errb *bytes.Buffer
}

var (
	c17proc   *c17Proc
	c17procMu sync.Mutex
)

func c17StartProc() *c17Proc {
	cmd := exec.Command(os.Args[0], "run", "C17")
	cmd.Env = append(os.Environ(), "VERIF_C17_CHILD=1")
	in, err := cmd.StdinPipe()
	if err != nil {
		return nil
	}
	out, err := cmd.StdoutPipe()
	if err != nil {
		return nil
	}
	errb := &bytes.Buffer{}
	cmd.Stderr = errb
	if cmd.Start() != nil {
		return nil
	}
	return &c17Proc{cmd: cmd, in: in, out: bufio.NewReaderSize(out, 1<<20), errb: errb}
}

func (p *c17Proc) kill() {
	p.in.Close()
	p.cmd.Process.Kill()
	p.cmd.Wait()
}

func c17CrashKind(stderr string) string {
	switch {
	case strings.Contains(stderr, "stack overflow") || strings.Contains(stderr, "goroutine stack exceeds"):
		return "stack-overflow"
	case strings.Contains(stderr, "concurrent map"):
		return "concurrent-map-access"
	case strings.Contains(stderr, "out of memory"):
		return "out-of-memory"
	case strings.Contains(stderr, "all goroutines are asleep"):
		return "deadlock"
	}
	return "other"
}

func c17RunIsolated(f []string) string {
	if c17IsChild || os.Getenv("VERIF_C17_NOISOLATE") == "1" {
		return c17Run(f)
	}
	c17procMu.Lock()
	defer c17procMu.Unlock()
	if c17proc == nil {
		c17proc = c17StartProc()
		if c17proc == nil {
			return c17Run(f) // cannot fork: run in-process
		}
	}
	p := c17proc
	to := 4 * time.Second
	if ms, err := strconv.Atoi(os.Getenv("VERIF_CASE_TIMEOUT_MS")); err == nil && ms > 600 {
		to = time.Duration(ms-500) * time.Millisecond
	}
	type res struct {
		s   string
		err error
	}
	ch := make(chan res, 1)
	go func() {
		if _, err := io.WriteString(p.in, "C17 "+strings.Join(f, " ")+"\n"); err != nil {
			ch <- res{"", err}
			return
		}
		s, err := p.out.ReadString('\n')
		ch <- res{s, err}
	}()
	select {
	case r := <-ch:
		if r.err == nil {
			return strings.TrimRight(r.s, "\n")
		}
		// the child died while working on this case
		p.in.Close()
		p.cmd.Wait()
		c17proc = nil
		return "crash " + c17CrashKind(p.errb.String())
	case <-time.After(to):
		p.kill()
		c17proc = nil
		return "hang"
	}
}

// ---------------------------------------------------------------- pool op

func c17PoolOps(f []string) (string, bool) {
	switch f[0] {
	case "pool":
		if len(f) != 3 {
			return "bad-args", true
		}
		size, _ := strconv.Atoi(f[1])
		type obj struct{ v int }
		p := slicepool.NewObjectPool[obj](size)
		ids := map[*obj]int{}
		var got []*obj
		var out []string
		for _, ev := range strings.Split(f[2], ",") {
			switch {
			case ev == "g":
				o := p.Get()
				if _, ok := ids[o]; !ok {
					ids[o] = len(ids)
				}
				got = append(got, o)
				out = append(out, strconv.Itoa(ids[o]))
			case strings.HasPrefix(ev, "r"):
				k, err := strconv.Atoi(ev[1:])
				if err != nil || k < 0 || k >= len(got) {
					return "bad-args", true
				}
				p.Return(got[k])
			case ev == "":
			default:
				return "bad-args", true
			}
		}
		if len(out) == 0 {
			return "ok .", true
		}
		return "ok " + strings.Join(out, ","), true
	case "overlap":
		return c17Overlap(f), true
	}
	return "", false
}

// a context whose first look-up of the key `tag` parks until released
type c17Gate struct {
	base    *expressions.KeyBuilderContextArray
	entered chan struct{}
	release chan struct{}
	once    sync.Once
}

func (g *c17Gate) GetMatch(idx int) string { return g.base.GetMatch(idx) }
func (g *c17Gate) GetKey(key string) string {
	if key == "tag" {
		g.once.Do(func() {
			close(g.entered)
			<-g.release
		})
	}
	return g.base.GetKey(key)
}

func c17Overlap(f []string) string {
	if len(f) < 6 || (len(f)-4)%2 != 0 {
		return "bad-args"
	}
	W := (len(f) - 4) / 2
	kb := funclib.NewKeyBuilderEx(f[1] == "1")
	compiled, errs := kb.Compile(string(UnHex(f[2])))
	if compiled == nil {
		return "nil-compiled errs=" + errsStr(errs)
	}
	gates := make([]*c17Gate, W)
	done := make([]chan string, W)
	started := make([]bool, W)
	finished := make([]bool, W)
	results := make([]string, W)
	for i := range gates {
		gates[i] = &c17Gate{base: mkContext(f[4+2*i], f[5+2*i]), entered: make(chan struct{}), release: make(chan struct{})}
		done[i] = make(chan string, 1)
	}
	wait := 3 * time.Second
	for _, ev := range strings.Split(f[3], ",") {
		if len(ev) < 2 {
			return "bad-args"
		}
		i, err := strconv.Atoi(ev[1:])
		if err != nil || i < 0 || i >= W {
			return "bad-args"
		}
		switch ev[0] {
		case 's':
			if started[i] {
				return "bad-args"
			}
			started[i] = true
			go func(i int) {
				defer func() {
					if e := recover(); e != nil {
						done[i] <- "panic"
					}
				}()
				done[i] <- compiled.BuildKey(gates[i])
			}(i)
			// until it parks (or finishes without ever looking at {tag})
			select {
			case <-gates[i].entered:
			case r := <-done[i]:
				results[i], finished[i] = r, true
			case <-time.After(wait):
				return "hang"
			}
		case 'f':
			if !started[i] {
				return "bad-args"
			}
			if finished[i] {
				continue
			}
			close(gates[i].release)
			select {
			case r := <-done[i]:
				results[i], finished[i] = r, true
			case <-time.After(wait):
				return "hang"
			}
		default:
			return "bad-args"
		}
	}
	parts := make([]string, W)
	for i := range parts {
		if !finished[i] {
			return "bad-args"
		}
		if results[i] == "panic" {
			parts[i] = "panic"
		} else {
			parts[i] = fmt.Sprintf("ok errs=%s val=%s", errsStr(errs), HexS(results[i]))
		}
	}
	return "ok " + strings.Join(parts, " | ")
}

// ---------------------------------------------------------------- generators

// A nesting of `depth` pool-backed helpers, every level working on >= 2 elements, the innermost body reading
// {0}, {1} and keys of the ENCLOSING match.  Level k sees as {0} one element of the list built by level k-1.
func c17DeepTemplate(r *Rand, depth int) string {
	body := Pick(r, []string{"\"{0}{k}\"", "\"<{0}{1}{d}>\"", "{0}", "\"{0}-{tag}\"", "{if {0} \"{0}{k}\" z}"})
	for lvl := depth; lvl >= 1; lvl-- {
		tagc := string(rune('a' + lvl%26))
		// the list this level iterates over: >= 2 elements derived from the enclosing {0}
		var list string
		if lvl == 1 {
			list = Pick(r, []string{"{0}", "{arr}", "{@ p q}", "{@split {1} ,}"})
		} else {
			list = Pick(r, []string{
				"{@ \"{0}" + tagc + "\" \"{0}" + strings.ToUpper(tagc) + "\"}",
				"{@ {0} " + tagc + "}",
				"{@ {0} \"\" " + tagc + "}",
				"{@split \"{0}," + tagc + "\" ,}",
			})
		}
		kind := r.Intn(7)
		if kind == 4 && lvl < depth-1 {
			// @reduce feeds its body its own previous RESULT ({0} = accumulator): above the two innermost levels every
			// enclosing fan-out multiplies the accumulator in every round (fan-out^depth per round; the real code and
			// the model both need minutes, the watchdog answers `hang`) - the geometric-growth family of C08's known finding
			kind = 1
		}
		if kind == 5 && lvl != depth {
			// @for applies its body to its own previous RESULT: anywhere but innermost the value would grow
			// with every round of every enclosing level (the real code needs minutes for such a template)
			kind = 0
		}
		switch kind {
		case 0, 1, 2:
			body = "{@map " + list + " " + body + "}"
		case 3:
			body = "{@filter " + list + " {or {0} " + body + "}}"
			// a filter's body is only a condition: keep the nesting going through a map of its result
			body = "{@map " + body + " \"[{0}]\"}"
			lvl-- // two pool levels used
		case 4: // {0} = accumulator, {1} = element
			body = "{@reduce " + list + " " + body + "}"
		case 5:
			body = "{@for " + Pick(r, []string{"{0}", tagc}) + " {neq {1} " + strconv.Itoa(r.Range(2, 3)) + "} " + body + "}"
		default:
			body = "{@join {@map " + list + " " + body + "} +}"
		}
	}
	return body
}

func c17ValidPoolScript(r *Rand, n int) string {
	var ev []string
	var held []int
	gets := 0
	for i := 0; i < n; i++ {
		if len(held) > 0 && r.Chance(2, 5) {
			j := r.Intn(len(held)) // ANY held object, not the most recent one
			ev = append(ev, "r"+strconv.Itoa(held[j]))
			held = append(held[:j], held[j+1:]...)
		} else {
			ev = append(ev, "g")
			held = append(held, gets)
			gets++
		}
	}
	return strings.Join(ev, ",")
}

func c17OverlapScript(r *Rand, W int) string {
	// every worker starts and finishes once; starts in index order, finishes in random order, interleaved
	var ev []string
	startedN := 0
	var open []int
	for startedN < W || len(open) > 0 {
		if startedN < W && (len(open) == 0 || r.Chance(3, 5)) {
			ev = append(ev, "s"+strconv.Itoa(startedN))
			open = append(open, startedN)
			startedN++
		} else {
			j := r.Intn(len(open))
			ev = append(ev, "f"+strconv.Itoa(open[j]))
			open = append(open[:j], open[j+1:]...)
		}
	}
	return strings.Join(ev, ",")
}

func c17PoolCases(r *Rand, tier string) []string {
	nDeep, nPool, nOver := 120, 150, 60
	if tier == "thorough" {
		nDeep, nPool, nOver = 2500, 4000, 800
	}
	g := &c17Gen{r: r}
	var out []string
	// fixed openers: the shapes of the two documented failure modes
	out = append(out,
		"pool 2 g,g,r0,g",
		"pool 5 g,g,g,r0,g,r1,g,g",
		"pool 0 g,g,r1,r0,g,g,g",
		fmt.Sprintf("overlap 0 %s s0,s1,f0,s2,f2,f1 %s %s %s %s %s %s", HexS("{@map {@split {0} \",\"} \"{0}-{tag}\"}"),
			HexListS([]string{"a1,a2,a3"}), HexListS([]string{"tag", "A"}),
			HexListS([]string{"b1,b2,b3"}), HexListS([]string{"tag", "B"}),
			HexListS([]string{"c1,c2,c3"}), HexListS([]string{"tag", "C"})),
	)
	for d := 6; d <= 8; d++ {
		t := "{@map {0} \"{0}{k}\"}"
		for l := 1; l < d; l++ {
			t = "{@map {@ {0} " + string(rune('a'+l)) + "} " + t + "}"
		}
		out = append(out, ExprCase(d%2 == 0, t, []string{"m\x00n"}, []string{"k", "K"}))
	}
	for i := 0; i < nDeep; i++ {
		t := c17DeepTemplate(r, r.Range(6, 8))
		elems := []string{strings.Join([]string{g.word(), g.word()}, "\x00"), "x,y", "3"}
		keys := []string{"k", g.word(), "arr", "u\x00v", "d", Pick(r, c17Words), "tag", "T"}
		out = append(out, ExprCase(i%2 == 1, t, elems, keys))
	}
	for i := 0; i < nPool; i++ {
		out = append(out, fmt.Sprintf("pool %d %s", Pick(r, []int{0, 1, 2, 5, 5, 5, 7}), c17ValidPoolScript(r, r.Range(1, 24))))
	}
	for i := 0; i < nOver; i++ {
		W := r.Range(2, 4)
		var t string
		switch r.Intn(6) {
		case 0:
			t = "{@map {@split {0} \",\"} \"{0}-{tag}\"}"
		case 1:
			t = "{@filter {0} {neq {0} {tag}}}"
		case 2:
			t = "{@reduce {0} \"{0}{tag}{1}\"}"
		case 3:
			t = "{@for {tag} {neq {1} 3} \"{0}{tag}\"}"
		case 4:
			t = "{@map {0} {@map {@ {0} {tag}} \"{0}{k}{tag}\"}}"
		default:
			t = "{@map {0} {@reduce {@ {0} x {tag}} \"{0}.{1}\"}}"
		}
		line := fmt.Sprintf("overlap %d %s %s", i%2, HexS(t), c17OverlapScript(r, W))
		for w := 0; w < W; w++ {
			tag := string(rune('A' + w))
			list := []string{strings.ToLower(tag) + "1", strings.ToLower(tag) + "2", strings.ToLower(tag) + "3"}
			sep := "\x00"
			if strings.Contains(t, "@split") {
				sep = ","
			}
			line += " " + HexListS([]string{strings.Join(list, sep)}) + " " + HexListS([]string{"tag", tag, "k", "k" + tag})
		}
		out = append(out, line)
	}
	return out
}
