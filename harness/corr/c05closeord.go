//go:build c05

package main

// C05, close-after-WaitGroup with a FORCED schedule (hook: extractor.VerifTraceSetProbe).
//
//   closeord <present> <missing> <readers> <holdMs> [<dirs>]
//
//     The real batchers.OpenFilesToChan (<readers> >= 1) over <present> small files and <missing> names that do not
//     exist and <dirs> names of directories (the open works, the first read fails: the OnError callback of the sync
//     loop) – or, <readers> = 0, the real batchers.TailFilesToChan following <present> LIVE files (notify mode, no
//     re-open): the files are appended to while they are followed and then removed, which ends a plain follow.
//
//     The probe holds every reader goroutine at the entry of stopFileReading ("src.close") until the spawning
//     goroutine has reached Batcher.close ("c.close") or <holdMs> ms have passed.  In the source the exit block is
//     `stopFileReading; wg.Done()`, so nobody can reach c.close while a reader is held: every hold times out and at
//     c.close the status is complete.  With the order before /repo 7025f4b (`wg.Done(); stopFileReading`) the held
//     readers have all called wg.Done(), wg.Wait() returns, and at c.close the status still lists them: lag = number
//     of readers held (the run of Props close_status_lag_all_readers; deterministic, no search).
//
//     Observed ON the spawner goroutine at c.close, i.e. right before close(s.c) (lag, readCount/sourceCount,
//     read errors, read bytes) and again by the consumer after the channel was drained.
//     Model: Model/C05Close.lean; Props close_status_complete, close_bytes_complete.

import (
	"fmt"
	"os"
	"path/filepath"
	"strconv"
	"strings"
	"sync"
	"sync/atomic"
	"time"

	"rare/pkg/extractor"
	"rare/pkg/extractor/batchers"
	"rare/pkg/logger"
)

var c05ProbeMu sync.Mutex
var c05CloseOrdHeld int

func c05CloseOrd(f []string) string {
	if len(f) < 5 {
		return "bad-args"
	}
	present, _ := strconv.Atoi(f[1])
	missing, _ := strconv.Atoi(f[2])
	readers, _ := strconv.Atoi(f[3])
	holdMs, _ := strconv.Atoi(f[4])
	dirs := 0 // names that are directories: the open works, the first read fails (the OnError callback: incErrors + log)
	if len(f) > 5 {
		dirs, _ = strconv.Atoi(f[5])
	}
	if present < 0 || missing < 0 || dirs < 0 || present+missing+dirs < 1 || readers < 0 || holdMs < 0 {
		return "bad-args"
	}
	dir, err := os.MkdirTemp(os.Getenv("VERIF_WORK"), "c05ord")
	if err != nil {
		dir, err = os.MkdirTemp("", "c05ord")
		if err != nil {
			panic(err)
		}
	}
	defer os.RemoveAll(dir)
	var names, live []string
	var total uint64
	for i := 0; i < present; i++ {
		p := filepath.Join(dir, fmt.Sprintf("f%02d", i))
		body := strings.Repeat("line\n", 1+i%4)
		os.WriteFile(p, []byte(body), 0o644)
		total += uint64(len(body))
		names = append(names, p)
		live = append(live, p)
	}
	for i := 0; i < missing; i++ {
		names = append(names, filepath.Join(dir, fmt.Sprintf("missing%02d", i)))
	}
	for i := 0; i < dirs; i++ {
		p := filepath.Join(dir, fmt.Sprintf("dir%02d", i))
		os.Mkdir(p, 0o755)
		names = append(names, p)
	}
	for i := range names { // missing names in between
		j := (i*5 + 2) % len(names)
		names[i], names[j] = names[j], names[i]
	}

	c05ProbeMu.Lock()
	defer c05ProbeMu.Unlock()
	var bp atomic.Pointer[batchers.Batcher]
	closeSeen := make(chan struct{})
	var held, timedOut int32
	var lagAtClose, errsAtClose int
	var statusAtClose string
	var bytesAtClose uint64
	hold := time.Duration(holdMs) * time.Millisecond
	extractor.VerifTraceSetProbe(func(ev string, s string) {
		switch ev {
		case "src.close":
			atomic.AddInt32(&held, 1)
			select {
			case <-closeSeen:
			case <-time.After(hold):
				atomic.AddInt32(&timedOut, 1)
			}
		case "c.close":
			var b *batchers.Batcher
			for b = bp.Load(); b == nil; b = bp.Load() {
				time.Sleep(50 * time.Microsecond)
			}
			lagAtClose = b.ActiveFileCount()
			statusAtClose = b.StatusString()
			errsAtClose = b.ReadErrors()
			bytesAtClose = b.ReadBytes()
			close(closeSeen)
		}
	})
	defer extractor.VerifTraceSetProbe(nil)

	ch := make(chan string, len(names))
	for _, n := range names {
		ch <- n
	}
	close(ch)
	lines, ahead := 0, 0
	var b *batchers.Batcher
	logger.DeferLogs() // the missing names are reported through the logger: keep them off the harness' stderr
	defer func() {
		captureStderr(func() {}) // flush what was deferred into a pipe nobody looks at
	}()
	if readers == 0 {
		b = batchers.TailFilesToChan(ch, 10, 2, false, false, present%2 == 0) // even: --tail (Drain: start at the end of the file)
		bp.Store(b)
		drained := make(chan struct{})
		var got int64
		go func() {
			for batch := range b.BatchChan() {
				atomic.AddInt64(&got, int64(len(batch.Batch)))
			}
			close(drained)
		}()
		// the files are live: wait until every one of them is being followed, append, wait for the lines, remove
		waitFor := func(cond func() bool) bool {
			for t0 := time.Now(); time.Since(t0) < 5*time.Second; time.Sleep(200 * time.Microsecond) {
				if cond() {
					return true
				}
			}
			return false
		}
		if !waitFor(func() bool { return b.ActiveFileCount() == present && b.ReadErrors() == missing+dirs }) {
			return "ok never-followed"
		}
		for _, p := range live {
			fh, err := os.OpenFile(p, os.O_APPEND|os.O_WRONLY, 0o644)
			if err == nil {
				fh.WriteString("more\n")
				fh.Close()
				total += 5
			}
		}
		want := int64(0)
		for i := 0; i < present; i++ {
			want += int64(1 + i%4 + 1)
		}
		// the time flush only looks at the clock when a line arrives: the lines stay in the reader's batch until the
		// file ends – so delivery cannot be awaited here; give the followers a moment, then remove the files
		time.Sleep(15 * time.Millisecond)
		for _, p := range live {
			os.Remove(p)
		}
		select {
		case <-drained:
		case <-time.After(10 * time.Second):
			return "ok follow-did-not-end"
		}
		lines = int(atomic.LoadInt64(&got))
		if int64(lines) > want {
			lines = -1
		}
	} else {
		// unbuffered batch channel: a send completes exactly when this loop receives, so every incReadBytes executed so
		// far belongs to a batch already counted here (Props close_running_status_bounds: readBytes <= sentBytes)
		b = batchers.OpenFilesToChan(ch, false, readers, 10, 0)
		bp.Store(b)
		for batch := range b.BatchChan() {
			lines += len(batch.Batch)
			if b.ReadBytes() > uint64(5*lines) { // every line of every file is 5 bytes ("line\n")
				ahead = 1
			}
		}
	}
	after := b.ActiveFileCount()
	wantStatus := func(st string) int {
		if present+missing+dirs > 1 && readers != 0 { // TailFilesToChan never sets a source count: no [n/m] in follow mode
			if strings.HasPrefix(st, fmt.Sprintf("[%d/%d] ", present+dirs, present+missing+dirs)) && !strings.Contains(st, "|") {
				return 1
			}
			return 0
		}
		if !strings.Contains(st, "|") && !strings.HasPrefix(st, "[") {
			return 1
		}
		return 0
	}
	b2i := func(x bool) int {
		if x {
			return 1
		}
		return 0
	}
	c05CloseOrdHeld += int(atomic.LoadInt32(&held))
	bytesOK := bytesAtClose == b.ReadBytes()
	if readers != 0 { // every byte of every file (follow mode: what was appended right before the removal may be cut off)
		bytesOK = bytesOK && bytesAtClose == total
	}
	return fmt.Sprintf("ok lag=%d after=%d status=%d status_after=%d errors=%d bytes=%d ahead=%d held=%d",
		lagAtClose, after, wantStatus(statusAtClose), wantStatus(b.StatusString()), errsAtClose, b2i(bytesOK), ahead, atomic.LoadInt32(&held))
}

func c05CloseOrdGen(r *Rand, tier string) []string {
	n := 2
	if tier == "thorough" {
		n = 12
	}
	out := []string{"closeord 6 0 3 8", "closeord 3 0 0 8", fmt.Sprintf("closeord %d %d %d 3 %d", Pick(r, []int{0, 2, 5}), Pick(r, []int{0, 1}), Pick(r, []int{1, 3}), Pick(r, []int{1, 2})),
		fmt.Sprintf("closeord %d 0 0 3 1", Pick(r, []int{1, 2}))}
	for i := 0; i < n; i++ {
		out = append(out, fmt.Sprintf("closeord %d %d %d %d", Pick(r, []int{1, 2, 5, 12}), Pick(r, []int{0, 0, 1, 3}),
			Pick(r, []int{1, 2, 3, 8}), Pick(r, []int{0, 2, 6})))
	}
	out = append(out, fmt.Sprintf("closeord %d 0 0 %d", Pick(r, []int{1, 2, 4}), Pick(r, []int{2, 6})))
	return out
}
