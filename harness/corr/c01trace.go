//go:build c01 || c05

package main

// Trace inclusion (C01/C05): the REAL batcher + extractor (+ RunAggregationLoop for C05) run with the
// `verif` event hooks recording, and the whole event log travels to the Lean driver as ONE case line.
// The driver checks that the log is – up to the reorderings that the non-atomicity of "log, then act" /
// "act, then log" allows – a path of the transition system from its initial to a terminal state
// (lean/Rare/Model/PipelineTrace.lean, AggLoopTrace.lean) and answers with the counters of the terminal
// state; the implementation's answer is its own counters.
//
// Case line:   <op> <blob>      blob = cfg/inputs/summary/trace[/cls]   (one field, no `;` `,` so that the
//                               generic shrinker of `check` leaves it alone: a trace with events removed
//                               is rejected for a reason of the shrinker's own making)
//   cfg     = mode.batch.workers.readers.buffer.flushms.missing.procs.delay[.more]   (decimal, mode f|r)
//   inputs  = hex_hex_…  (`-` empty input, `.` no input)
//   summary = read.matched.ignored.consumed.errors   (the implementation's own counters of that run)
//   trace   = ev_ev_…    ev = g.kind.src.a.b  (g = goroutine number in order of first appearance,
//                               src = source index or x, a b decimal)
//   cls     = matcher.ignores.extract   (classification configuration, see clsSpec in c01.go; absent = the
//                               fixed configuration harnessMatcher / ignore {1} / extract {0})

import (
	"fmt"
	"os"
	"path/filepath"
	"runtime"
	"strconv"
	"strings"
	"sync"
	"time"

	"rare/pkg/extractor"
	"rare/pkg/extractor/batchers"
)

var traceKinds = map[string]string{
	"sema.acq": "aq", "rd.start": "rs", "src.open": "so", "src.err": "se", "sync.begin": "sb",
	"flush": "fl", "flush.eof": "fe", "sent": "st", "sync.end": "sn", "sema.rel": "rl",
	"src.close": "sc", "rd.end": "re", "c.wait": "cw", "c.close": "cc",
	"w.start": "ws", "w.recv": "wr", "line.m": "lm", "line.i": "li", "line.u": "lu",
	"w.count": "wc", "w.send": "wd", "w.sent": "wt", "w.exit": "wx", "rc.close": "rc",
	"c.recv": "cr", "c.done": "cd",
	// aggregation loop
	"t.done": "td", "t.tick": "tt", "t.locked": "tl", "t.rendered": "tr",
	"m.signal": "ms", "m.eof": "me", "m.recv": "mr", "m.locked": "ml", "m.unlock": "mu",
	"m.done.send": "md", "m.done.sent": "mt", "m.final.begin": "mf", "m.final.end": "mg",
	"sample": "sa", "render.begin": "rb", "render.end": "rn",
}

type traceCfg struct {
	mode                            string // f = files, r = scripted reader
	batch, workers, readers, buffer int
	flushMs                         int
	missing                         int // files mode: index at which a non-existent file name is inserted (-1 none)
	procs                           int
	delay                           int // consumer sleeps every `delay` batches (0 = never)
	script                          string
	inputs                          [][]byte
	// C05 (aggregation loop) only
	renderMs int // the render callback sleeps this long
	sampleUs int // every Sample takes this long …
	spin     int // … 0: sleeping, 1: spinning without yielding the processor
	startMs  int // the loop is started this long after the extractor (workers fill readChan and park)
	// C01: classification configuration (nil = fixed legacy configuration)
	cls *clsSpec
	// schedule steering of THIS run (not part of the case line: the counters a replay compares do not depend on it)
	steer *steerSpec
}

// blobTail is the optional fifth part of the blob.
func (c traceCfg) blobTail() string {
	if c.cls == nil {
		return ""
	}
	return "/" + strings.Join(c.cls.fields(), ".")
}

func (c traceCfg) cfgString() string {
	sc := "0"
	if c.script != "." {
		sc = strings.NewReplacer(",", "+", ":", "-").Replace(c.script)
	}
	return fmt.Sprintf("%s.%d.%d.%d.%d.%d.%d.%d.%d.%s.%d.%d.%d.%d", c.mode, c.batch, c.workers, c.readers, c.buffer, c.flushMs, c.missing+1, c.procs, c.delay, sc,
		c.renderMs, c.sampleUs, c.spin, c.startMs)
}

func parseTraceCfg(s string, ins string) traceCfg {
	f := strings.Split(s, ".")
	atoi := func(s string) int { n, _ := strconv.Atoi(s); return n }
	c := traceCfg{mode: f[0], batch: atoi(f[1]), workers: atoi(f[2]), readers: atoi(f[3]), buffer: atoi(f[4]),
		flushMs: atoi(f[5]), missing: atoi(f[6]) - 1, procs: atoi(f[7]), delay: atoi(f[8])}
	c.script = "."
	if len(f) > 9 && f[9] != "0" {
		c.script = strings.NewReplacer("+", ",", "-", ":").Replace(f[9])
	}
	if len(f) > 13 {
		c.renderMs, c.sampleUs, c.spin, c.startMs = atoi(f[10]), atoi(f[11]), atoi(f[12]), atoi(f[13])
	}
	if ins != "." {
		for _, h := range strings.Split(ins, "_") {
			c.inputs = append(c.inputs, UnHex(h))
		}
	}
	return c
}

func encodeInputs(ins [][]byte) string {
	if len(ins) == 0 {
		return "."
	}
	parts := make([]string, len(ins))
	for i, b := range ins {
		parts[i] = Hex(b)
	}
	return strings.Join(parts, "_")
}

// encodeTrace renders the event log; goroutine ids become small numbers in order of first appearance.
func encodeTrace(evs []extractor.VerifEvent, srcIdx func(string) int) string {
	gs := map[uint64]int{}
	var sb strings.Builder
	for i, e := range evs {
		g, ok := gs[e.G]
		if !ok {
			g = len(gs)
			gs[e.G] = g
		}
		k, ok := traceKinds[e.Ev]
		if !ok {
			k = "zz"
		}
		src := "x"
		if e.S != "" {
			if k == "sa" {
				src = HexS(e.S)
			} else {
				src = strconv.Itoa(srcIdx(e.S))
			}
		}
		if i > 0 {
			sb.WriteByte('_')
		}
		fmt.Fprintf(&sb, "%d.%s.%s.%d.%d", g, k, src, e.A, e.B)
	}
	if sb.Len() == 0 {
		return "."
	}
	return sb.String()
}

var traceMu sync.Mutex // one traced run at a time (the log is process-global)

type tracedResult struct {
	evs     []extractor.VerifEvent
	summary string
}

// openBatcher starts the real batcher for the configuration; returns it and a cleanup function.
func openBatcher(c traceCfg) (*batchers.Batcher, func()) {
	switch c.mode {
	case "r":
		var data []byte
		if len(c.inputs) > 0 {
			data = append([]byte{}, c.inputs[0]...)
		}
		rd := &scriptedReader{rest: data, script: parseScript(c.script)}
		if c.flushMs > 0 {
			return batchers.VerifOpenReaderToChan("s0", rd, c.batch, c.buffer, time.Duration(c.flushMs)*time.Millisecond), func() {}
		}
		return batchers.OpenReaderToChan("s0", rd, c.batch, c.buffer), func() {}
	default:
		pipeSeq++
		dir := filepath.Join(workDir(), fmt.Sprintf("trace-%d-%d", os.Getpid(), pipeSeq))
		os.MkdirAll(dir, 0o755)
		n := len(c.inputs)
		names := make(chan string, n+2)
		restore := func() {}
		if c.cls != nil {
			restore = inDir(dir) // relative names f0000…: {src} is the name the model knows
		}
		for i, in := range c.inputs {
			p := filepath.Join(dir, fmt.Sprintf("f%04d", i))
			if i != c.missing {
				os.WriteFile(p, in, 0o644)
			}
			if c.cls != nil {
				p = srcName(c.mode, i)
			}
			names <- p
		}
		close(names)
		return batchers.OpenFilesToChan(names, false, c.readers, c.batch, c.buffer), func() { restore(); os.RemoveAll(dir) }
	}
}

// waitReadersEnded gives the reader goroutines (which log rd.end after wg.Done, i.e. possibly after the
// consumer has finished; src.close comes before wg.Done since /repo 7025f4b and the trace machine demands it
// before c.wait) a moment to finish logging, so that no event leaks into the next run.
func waitReadersEnded(c traceCfg) {
	if c.mode != "f" {
		return
	}
	deadline := time.Now().Add(2 * time.Second)
	for time.Now().Before(deadline) {
		n := 0
		for _, e := range extractor.VerifTracePeek() {
			if e.Ev == "rd.end" {
				n++
			}
		}
		if n >= len(c.inputs) {
			return
		}
		time.Sleep(200 * time.Microsecond)
	}
}

// runPipeTraced runs the real batcher + extractor with recording on; the harness is the consumer.
func runPipeTraced(c traceCfg) tracedResult {
	traceMu.Lock()
	defer traceMu.Unlock()
	if c.procs > 0 {
		defer runtime.GOMAXPROCS(runtime.GOMAXPROCS(c.procs))
	}
	if c.steer != nil {
		extractor.VerifTraceSetProbe(c.steer.probe())
		defer extractor.VerifTraceSetProbe(nil)
	}
	extractor.VerifTraceStart()
	b, cleanup := openBatcher(c)
	ecfg, err := extractorConfig(c.cls, c.workers)
	var ext *extractor.Extractor
	if err == nil {
		ext, err = extractor.New(b.BatchChan(), ecfg)
	}
	if err != nil {
		extractor.VerifTraceStop()
		panic(err)
	}
	consumed, nb := 0, 0
	for mb := range ext.ReadChan() {
		extractor.VerifTraceAppend("c.recv", mb[0].Source, mb[0].LineNumber, uint64(len(mb)))
		consumed += len(mb)
		nb++
		if c.delay > 0 && nb%c.delay == 0 && nb < 300 {
			time.Sleep(150 * time.Microsecond)
		}
	}
	extractor.VerifTraceAppend("c.done", "", 0, 0)
	waitReadersEnded(c)
	evs := extractor.VerifTraceStop()
	sum := fmt.Sprintf("%d.%d.%d.%d.%d", ext.ReadLines(), ext.MatchedLines(), ext.IgnoredLines(), consumed, b.ReadErrors())
	cleanup()
	return tracedResult{evs: evs, summary: sum}
}

var traceAnswers = map[string]string{}

func pipeTraceCase(c traceCfg) string {
	r := runPipeTraced(c)
	if c.steer != nil {
		steerMu.Lock()
		switch {
		case c.steer.holds > 0 && c.steer.seed != 0:
			steerCounts["trace.steer.hold+jitter"]++
		case c.steer.holds > 0:
			steerCounts["trace.steer.hold"]++
		default:
			steerCounts["trace.steer.jitter"]++
		}
		steerMu.Unlock()
	}
	blob := c.cfgString() + "/" + encodeInputs(c.inputs) + "/" + r.summary + "/" + encodeTrace(r.evs, srcIndex) + c.blobTail()
	cs := "ptrace " + blob
	traceAnswers[cs] = "ok accepted final=" + r.summary
	return cs
}

// pipeTraceRun: the implementation's answer for a recorded trace is its recorded counter summary.  When the
// case was not produced by this process (a replay) the real code is run again on the same configuration
// and its (schedule-independent) counters must equal the recorded ones.
func pipeTraceRun(f []string) string {
	if a, ok := traceAnswers[strings.Join(f, " ")]; ok {
		return a
	}
	parts := strings.Split(f[1], "/")
	if len(parts) != 4 && len(parts) != 5 {
		return "bad-blob"
	}
	c := parseTraceCfg(parts[0], parts[1])
	if len(parts) == 5 {
		if q := strings.Split(parts[4], "."); len(q) == 3 {
			c.cls = parseClsSpec(q[0], q[1], q[2])
		} else {
			return "bad-blob"
		}
	}
	r := runPipeTraced(c)
	if r.summary != parts[2] {
		return "DIFF rerun-counters " + r.summary + " recorded " + parts[2]
	}
	return "ok accepted final=" + parts[2]
}

func genTraceCfg(r *Rand, big bool) traceCfg {
	c := traceCfg{mode: "f", missing: -1, script: "."}
	if r.Chance(2, 5) {
		c.mode = "r"
	}
	nin := 1
	if c.mode == "f" {
		nin = Pick(r, []int{0, 1, 2, 3, 5, 9, 24})
	}
	bigAt := -1
	if big && nin > 0 && r.Chance(1, 6) {
		bigAt = r.Intn(nin) // at most one long source per case: the whole log travels in one line
	}
	for k := 0; k < nin; k++ {
		ln := Pick(r, []int{0, 1, 2, 3, 7, 20, 60})
		if nin >= 9 {
			ln = Pick(r, []int{0, 1, 2, 3, 5})
		}
		if k == bigAt {
			ln = Pick(r, []int{400, 1200})
		}
		c.inputs = append(c.inputs, genLines(r, ln))
	}
	if c.mode == "f" && nin > 0 && r.Chance(1, 5) {
		c.missing = r.Intn(nin)
		c.inputs[c.missing] = nil
	}
	c.batch = Pick(r, []int{1, 1, 2, 3, 7, 1000})
	c.workers = Pick(r, []int{1, 1, 2, 3, 4, 8})
	c.readers = Pick(r, []int{1, 1, 2, 3, 4})
	c.buffer = Pick(r, []int{1, 1, 2, 3, 4, 0})
	if c.mode == "r" {
		var steps []string
		total := 0
		if len(c.inputs) > 0 {
			total = len(c.inputs[0])
		}
		if r.Chance(1, 2) {
			c.flushMs = 1
		}
		for pos := 0; pos < total && len(steps) < 40; {
			w := Pick(r, []int{0, 1, 2, 3, 5, 8, 13, 50})
			st := fmt.Sprintf("%d:n", w)
			if c.flushMs > 0 && r.Chance(1, 6) {
				st += ":3"
			}
			steps = append(steps, st)
			pos += w
		}
		if len(steps) > 0 {
			c.script = strings.Join(steps, ",")
		}
	}
	c.procs = Pick(r, []int{0, 1, 2, 4, 16})
	c.delay = Pick(r, []int{0, 0, 1, 3})
	return c
}

// genTraceCfgCls: a trace configuration with a generated classification configuration (C01 only).
func genTraceCfgCls(r *Rand, big bool, i int) traceCfg {
	c := genTraceCfg(r, big)
	if i%6 != 4 { // one case in six keeps the legacy fixed configuration
		mode := "files"
		if c.mode == "r" {
			mode = "reader"
		}
		c.cls = genClsSpec(r, mode, len(c.inputs))
	}
	return c
}

func pipeTraceGen(r *Rand, tier string) []string {
	n := 60
	if tier == "thorough" {
		n = 1200
	}
	out := make([]string, 0, n)
	for i := 0; i < n; i++ {
		c := genTraceCfgCls(r, tier == "thorough" || i%20 == 3, i)
		c.steer = genSteer(r)
		out = append(out, pipeTraceCase(c))
	}
	return append(out, forcedReorderCases(r, tier)...)
}

// forcedReorderCases: the REAL code driven along the path of theorem two_workers_reorder_counterexample - one source,
// batches of one line, two workers; the worker that received the first batch is parked at `w.recv` until the other
// worker has delivered a later batch (`w.sent`), so the consumer receives a later line first.  The log must be a
// path of the model (ptrace), and the statistics count how often the overtaking was realised (c.recv out of order).
func forcedReorderCases(r *Rand, tier string) []string {
	n := 4
	if tier == "thorough" {
		n = 40
	}
	var out []string
	for i := 0; i < n; i++ {
		c := traceCfg{mode: "f", missing: -1, script: ".", batch: 1, workers: Pick(r, []int{2, 2, 3}), readers: 1, buffer: Pick(r, []int{1, 2, 0}),
			procs: Pick(r, []int{0, 2, 4})}
		lines := Pick(r, []int{2, 2, 3, 5})
		var in []byte
		for k := 0; k < lines; k++ {
			in = append(in, []byte(Pick(r, []string{"a", "bb", "q", "m"})+"\n")...)
		}
		c.inputs = [][]byte{in}
		if i%2 == 1 {
			c.cls = &clsSpec{matcher: "h", nilIgnore: true, extract: "{src}:{line}:{0}"}
		}
		c.steer = &steerSpec{at: "w.recv", until: "w.sent", holds: 1, wait: 200 * time.Millisecond}
		cs := pipeTraceCase(c)
		steerCounts["trace.reorder.forced"]++
		if traceReordered(cs) {
			steerCounts["trace.reorder.forced.realised"]++
		}
		out = append(out, cs)
	}
	return out
}

// traceReordered: does the consumer of this logged run receive a line of a source before an earlier line of it?
func traceReordered(cs string) bool {
	f := strings.Fields(cs)
	parts := strings.Split(f[1], "/")
	if len(parts) < 4 {
		return false
	}
	last := map[string]int{}
	for _, e := range strings.Split(parts[3], "_") {
		q := strings.Split(e, ".")
		if len(q) != 5 || q[1] != "cr" {
			continue
		}
		a, _ := strconv.Atoi(q[3])
		if l, ok := last[q[2]]; ok && a < l {
			return true
		}
		last[q[2]] = a
	}
	return false
}

// traceStats adds distribution facts of one trace case to st.
func traceStats(st map[string]int, c string) {
	f := strings.Fields(c)
	parts := strings.Split(f[1], "/")
	if len(parts) != 4 && len(parts) != 5 {
		return
	}
	if len(parts) == 5 {
		if q := strings.Split(parts[4], "."); len(q) == 3 {
			clsStats(st, "trace.cls.", parseClsSpec(q[0], q[1], q[2]))
		}
	} else {
		st["trace.cls.legacy"]++
	}
	cfg := strings.Split(parts[0], ".")
	st["trace.cases"]++
	if traceReordered(c) {
		st["trace.reordered"]++ // later line of a source consumed before an earlier one (needs >= 2 workers)
		if cfg[2] == "1" {
			st["trace.reordered.ONE-WORKER"]++ // never: pipeline_single_worker_order
		}
	}
	st["trace.mode."+cfg[0]]++
	st["trace.batch."+cfg[1]]++
	st["trace.workers."+cfg[2]]++
	st["trace.readers."+cfg[3]]++
	st["trace.buffer."+cfg[4]]++
	if cfg[5] != "0" {
		st["trace.timeflush"]++
	}
	if cfg[6] != "0" {
		st["trace.missingfile"]++
	}
	n := 0
	if parts[3] != "." {
		n = strings.Count(parts[3], "_") + 1
	}
	st["trace.events"] += n
	if n > st["trace.maxevents"] {
		st["trace.maxevents"] = n
	}
	if parts[1] != "." {
		st["trace.inputs."+strconv.Itoa(strings.Count(parts[1], "_")+1)]++
	} else {
		st["trace.inputs.0"]++
	}
}

// ---- sensitivity of the trace check: real logs damaged in ways no run can produce must be rejected

// mutateTrace returns a damaged copy of evs (nil when the log has no event the mutation needs).
func mutateTrace(r *Rand, kind int, evs []extractor.VerifEvent) []extractor.VerifEvent {
	idx := func(pred func(e extractor.VerifEvent) bool) []int {
		var out []int
		for i, e := range evs {
			if pred(e) {
				out = append(out, i)
			}
		}
		return out
	}
	isLine := func(e extractor.VerifEvent) bool { return strings.HasPrefix(e.Ev, "line.") }
	cp := append([]extractor.VerifEvent(nil), evs...)
	switch kind {
	case 1: // a line is logged with another class than the one the code computes for its text
		c := idx(isLine)
		if len(c) == 0 {
			return nil
		}
		i := Pick(r, c)
		cp[i].Ev = map[string]string{"line.m": "line.u", "line.i": "line.m", "line.u": "line.i"}[cp[i].Ev]
	case 2: // a worker processes a batch it never received
		c := idx(func(e extractor.VerifEvent) bool { return e.Ev == "w.recv" })
		if len(c) == 0 {
			return nil
		}
		i := Pick(r, c)
		cp = append(cp[:i], cp[i+1:]...)
	case 3: // a line is processed twice
		c := idx(isLine)
		if len(c) == 0 {
			return nil
		}
		i := Pick(r, c)
		cp = append(cp[:i+1], append([]extractor.VerifEvent{cp[i]}, cp[i+1:]...)...)
	case 4: // the batch channel is never closed, yet the workers exit
		c := idx(func(e extractor.VerifEvent) bool { return e.Ev == "c.close" })
		if len(c) == 0 {
			return nil
		}
		cp = append(cp[:c[0]], cp[c[0]+1:]...)
	case 5: // the consumer sees the end of the stream before anything else happened
		c := idx(func(e extractor.VerifEvent) bool { return e.Ev == "c.done" })
		if len(c) == 0 || len(cp) < 3 {
			return nil
		}
		e := cp[c[0]]
		cp = append(cp[:c[0]], cp[c[0]+1:]...)
		cp = append([]extractor.VerifEvent{e}, cp...)
	case 6: // a worker classifies the first line of a batch before receiving the batch
		var c []int
		for i, e := range evs {
			if e.Ev != "w.recv" {
				continue
			}
			for j := i + 1; j < len(evs); j++ {
				if evs[j].G == e.G {
					if isLine(evs[j]) {
						c = append(c, i)
					}
					break
				}
			}
		}
		if len(c) == 0 {
			return nil
		}
		i := Pick(r, c)
		for j := i + 1; j < len(cp); j++ {
			if cp[j].G == cp[i].G {
				cp[i], cp[j] = cp[j], cp[i]
				break
			}
		}
	}
	return cp
}

func pipeMutGen(r *Rand, tier string) []string {
	n := 18
	if tier == "thorough" {
		n = 240
	}
	var out []string
	for i := 0; i < n; i++ {
		c := genTraceCfgCls(r, false, i/6)
		res := runPipeTraced(c)
		kind := 1 + i%6
		m := mutateTrace(r, kind, res.evs)
		if m == nil {
			continue
		}
		out = append(out, fmt.Sprintf("pmut%d %s/%s/%s/%s%s", kind, c.cfgString(), encodeInputs(c.inputs), res.summary, encodeTrace(m, srcIndex), c.blobTail()))
	}
	return out
}
