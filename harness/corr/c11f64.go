//go:build c11

package main

import (
	"fmt"
	"math"
	"math/big"
	"strconv"
	"strings"
)

// C11 / F64: the software binary64 model of lean/Rare/Base/F64*.lean against the hardware.
//
//	f64 bin <a> <b>        a, b: 16 hex digits of a float64 pattern
//	      -> ok add= sub= mul= div= lt= le= eq=
//	f64 un <a>             -> ok sqrt= floor= ceil= trunc= round= neg= abs= i64= ifloor= iceil=
//	f64 ofint <int64>      -> ok bits=
//	f64 parse <hex text>   -> ok bits=… | err           (strconv.ParseFloat(s, 64))
//	f64 fmt <a> <prec>     -> ok s=<hex>                (strconv.FormatFloat(x, 'f', prec, 64))
//
// NaN results are printed as `nan` (payloads are not modelled).

func f64Hex(x float64) string {
	if x != x {
		return "nan"
	}
	return fmt.Sprintf("%016x", math.Float64bits(x))
}

func f64From(s string) float64 {
	u, err := strconv.ParseUint(s, 16, 64)
	if err != nil {
		panic("bad f64 field " + s)
	}
	return math.Float64frombits(u)
}

func b01(b bool) string {
	if b {
		return "1"
	}
	return "0"
}

//go:noinline
func f64Add(a, b float64) float64 { return a + b }

//go:noinline
func f64Sub(a, b float64) float64 { return a - b }

//go:noinline
func f64Mul(a, b float64) float64 { return a * b }

//go:noinline
func f64Div(a, b float64) float64 { return a / b }

//go:noinline
func f64ToInt(a float64) int64 { return int64(a) }

//go:noinline
func f64OfInt(a int64) float64 { return float64(a) }

func c11F64Run(f []string) (string, bool) {
	if len(f) < 2 || f[0] != "f64" {
		return "", false
	}
	switch {
	case f[1] == "bin" && len(f) == 4:
		a, b := f64From(f[2]), f64From(f[3])
		return fmt.Sprintf("ok add=%s sub=%s mul=%s div=%s lt=%s le=%s eq=%s",
			f64Hex(f64Add(a, b)), f64Hex(f64Sub(a, b)), f64Hex(f64Mul(a, b)), f64Hex(f64Div(a, b)),
			b01(a < b), b01(a <= b), b01(a == b)), true
	case f[1] == "un" && len(f) == 3:
		a := f64From(f[2])
		return fmt.Sprintf("ok sqrt=%s floor=%s ceil=%s trunc=%s round=%s neg=%s abs=%s i64=%d ifloor=%d iceil=%d",
			f64Hex(math.Sqrt(a)), f64Hex(math.Floor(a)), f64Hex(math.Ceil(a)), f64Hex(math.Trunc(a)), f64Hex(math.Round(a)),
			f64Hex(-a), f64Hex(math.Abs(a)), f64ToInt(a), f64ToInt(math.Floor(a)), f64ToInt(math.Ceil(a))), true
	case f[1] == "ofint" && len(f) == 3:
		n, err := strconv.ParseInt(f[2], 10, 64)
		if err != nil {
			return "bad-args", true
		}
		return "ok bits=" + f64Hex(f64OfInt(n)), true
	case f[1] == "parse" && len(f) == 3:
		v, err := strconv.ParseFloat(string(UnHex(f[2])), 64)
		if err != nil {
			return "err", true
		}
		return "ok bits=" + f64Hex(v), true
	case f[1] == "fmt" && len(f) == 4:
		a := f64From(f[2])
		p, err := strconv.Atoi(f[3])
		if err != nil || p > 2000 {
			return "bad-args", true
		}
		return "ok s=" + HexS(strconv.FormatFloat(a, 'f', p, 64)), true
	}
	return "bad-op", true
}

// ---------------------------------------------------------------- generators

var f64Specials = []uint64{
	0x0000000000000000, 0x8000000000000000, // ±0
	0x7FF0000000000000, 0xFFF0000000000000, // ±Inf
	0x7FF8000000000001, 0xFFF8000000000000, 0x7FF0000000000001, 0x7FFFFFFFFFFFFFFF, // NaNs
	0x3FF0000000000000, 0xBFF0000000000000, 0x4000000000000000, 0x3FE0000000000000, // 1 -1 2 0.5
	0x7FEFFFFFFFFFFFFF, 0xFFEFFFFFFFFFFFFF, // ±max
	0x0010000000000000, 0x8010000000000000, 0x0010000000000001, // min normal
	0x000FFFFFFFFFFFFF, 0x800FFFFFFFFFFFFF, 0x0000000000000001, 0x8000000000000001, 0x0000000000000002, 0x0000000000000003, // subnormals
	0x4340000000000000, 0x433FFFFFFFFFFFFF, 0x4340000000000001, 0xC340000000000000, // 2^53, 2^53-1, 2^53+2
	0x4330000000000000, 0x4330000000000001, 0x432FFFFFFFFFFFFF, // 2^52, 2^52+1, 2^52-0.5
	0x43E0000000000000, 0xC3E0000000000000, 0x43DFFFFFFFFFFFFF, 0xC3E0000000000001, 0x43F0000000000000, // ±2^63, pred, 2^64
	0x3FDFFFFFFFFFFFFF, 0xBFDFFFFFFFFFFFFF, 0x3FE0000000000001, // 0.49999999999999994, 0.5000000000000001
	0x3FB999999999999A, 0x3FC999999999999A, 0x3FD3333333333333, // 0.1 0.2 0.3
	0x444B1AE4D6E2EF50, 0x44B52D02C7E14AF6, // 1e22 1e23
	0x408F400000000000, 0xC08F400000000000, 0x408F3FFFFFFFFFFF, 0x408F3FFFFEB074A7, // 1000 -1000 pred(1000) 999.99996
	0x4059000000000000, 0x4024000000000000, 0x3FF8000000000000, 0x4004000000000000, 0xC004000000000000, // 100 10 1.5 2.5 -2.5
	0x7FE0000000000000, 0x0020000000000000, 0x3CA0000000000000, 0x3CB0000000000000, // 2^1023, 2^-1021, 2^-53, 2^-52
	0x1FF0000000000000, 0x2000000000000000, 0x5FF0000000000000, 0x5FE0000000000000, // around sqrt(min), sqrt(max)
}

var f64DecStrings = []string{
	"0.1", "0.2", "0.3", "1e22", "1e23", "5e-324", "4.9e-324", "2.4703282292062327e-324", "2.4703282292062328e-324",
	"2.2250738585072014e-308", "2.2250738585072011e-308", "1.7976931348623157e308", "1.7976931348623158e308",
	"1.797693134862315807e308", "1.797693134862315808e308", "1e308", "1e309", "-1e309", "1e-400", "-1e-400",
	"9007199254740993", "9007199254740992", "9007199254740991", "9007199254740994", "18014398509481985",
	"1.00000000000000011102230246251565404236316680908203125", "1.00000000000000011102230246251565404236316680908203124",
	"1.00000000000000011102230246251565404236316680908203126", "1.00000000000000033306690738754696212708950042724609375",
	"0.500000000000000166533453693773481063544750213623046875", "123456789012345678901234567890", "0.000001", "1e-7",
	"3.141592653589793", "2.718281828459045", "999.99996", "999.999949999", "999.99995", "0.00005", "0.00015", "0.00025",
	"100", "1e2", "1E2", "1e+2", "1e-2", "1.e2", ".1e2", "1e0", "1e00000000000000001", "1e99999", "1e-99999", "0e99999",
	"0.0000000000000000000000000000000000000000000000000000000000000000000001e70", "100000000000000000000000000000000000000000e-40",
}

var f64OddStrings = []string{
	"", "+", "-", ".", "+.", "-.", "e", "e5", "1e", "1e+", "1e-", "1e+x", "1ex", "1.2.3", "1..2", "--1", "+-1", "1-", "1+1", " 1", "1 ",
	"inf", "Inf", "INF", "+inf", "-inf", "infinity", "Infinity", "-INFINITY", "+Infinity", "infinit", "infinityx", "infx", "in", "i", "+i", "-in", "+infi",
	"nan", "NaN", "NAN", "+nan", "-nan", "nanx", "na", "n",
	"0x1p0", "0X1P0", "0x1p-2", "0x10", "0x", "0x1", "0x.p0", "0x.8p1", "0x1.8p1", "0x1.p1", "0xAp0", "0xap+3", "0xfp-1", "0xgp0", "0x1pf",
	"0x1p-1074", "0x1p-1075", "0x1.8p-1075", "0x1.0000000000001p-1075", "0x1p-1076", "0x1p1023", "0x1p1024", "-0x1p1024",
	"0x1.fffffffffffffp1023", "0x1.fffffffffffff8p1023", "0x1.fffffffffffff7fffp1023", "0x1.00000000000008p0", "0x1.00000000000018p0",
	"0x1.000000000000080000000001p0", "0x1.0000000000000800000000000p0", "0x0p0", "-0x0p0", "0x0.0p99999", "0x00001p0", "0x1p99999", "0x1p-99999",
	"0x123456789abcdef01234p0", "0x.00000000000000000000001p100", "+0x1p0", "0x1e1", "0x1e1p1", "0x1p1_0", "0x_1p0", "0x1_0p0", "0x1__0p0", "0x1_p0", "0x1p_1",
	"1_0", "1_000", "1_000.5", "1__0", "_1", "1_", "1_.5", "1._5", "1e1_0", "1e_1", "1_e1", "0_1", "0b1", "0o7", "0b1_0", "0x1_0", "+1_0", "1_0e5",
	"1,5", "5x", "12ab", "1\x00", "\xff", "١", "1e5.5", "1.5e", "1p3", "1f", "0.1.", ".e1", "0.e1", "00.5", "-0", "+0", "-0.0", "007", "1.0000",
}

func f64RandBits(r *Rand) uint64 {
	switch r.Intn(12) {
	case 0, 1:
		return r.U64()
	case 2:
		return Pick(r, f64Specials)
	case 3: // small integers and halves
		v := float64(r.Range(-2000, 2000))
		if r.Chance(1, 3) {
			v += 0.5
		}
		if r.Chance(1, 6) {
			v += 0.25
		}
		return math.Float64bits(v)
	case 4: // integers around 2^53 / random 53-bit integers / around 2^63
		switch r.Intn(4) {
		case 0:
			return math.Float64bits(float64(int64(1)<<53 + int64(r.Range(-40, 40))))
		case 1:
			return math.Float64bits(float64(int64(r.U64() >> uint(11+r.Intn(40)))))
		case 2:
			return math.Float64bits(-float64(int64(r.U64() >> uint(11+r.Intn(12)))))
		}
		return math.Float64bits(float64(int64(r.U64()>>1)) * []float64{1, -1, 2, 0.5}[r.Intn(4)])
	case 5: // subnormals
		m := r.U64() & (1<<52 - 1)
		if r.Bool() {
			m >>= uint(r.Intn(52))
		}
		return m | uint64(r.Intn(2))<<63
	case 6: // boundary exponents with boundary fractions
		e := Pick(r, []uint64{0, 1, 2, 3, 1021, 1022, 1023, 1024, 1074, 1075, 1076, 2044, 2045, 2046, 2047})
		m := Pick(r, []uint64{0, 1, 2, 1<<52 - 1, 1<<52 - 2, 1 << 51, r.U64() & (1<<52 - 1)})
		return uint64(r.Intn(2))<<63 | e<<52 | m
	case 7: // sparse significands (exact operations and ties are likely)
		bitsN := r.Range(1, 27)
		m := (r.U64() | 1<<63) >> uint(64-bitsN) << uint(53-bitsN) & (1<<52 - 1)
		e := uint64(r.Range(1, 2046))
		if r.Chance(2, 3) {
			e = uint64(r.Range(1023-60, 1023+60))
		}
		return uint64(r.Intn(2))<<63 | e<<52 | m
	case 8: // parsed decimals
		v, _ := strconv.ParseFloat(Pick(r, f64DecStrings), 64)
		return math.Float64bits(v)
	case 9: // random decimal with few digits
		v, _ := strconv.ParseFloat(f64RandDecimal(r), 64)
		return math.Float64bits(v)
	case 10: // moderate magnitudes
		return uint64(r.Intn(2))<<63 | uint64(r.Range(1023-12, 1023+64))<<52 | r.U64()&(1<<52-1)
	}
	return r.U64()
}

func f64RandDecimal(r *Rand) string {
	var sb strings.Builder
	if r.Chance(1, 3) {
		sb.WriteString("-")
	}
	nd := r.Range(1, 6)
	if r.Chance(1, 5) {
		nd = r.Range(15, 40)
	}
	for i := 0; i < nd; i++ {
		sb.WriteByte(byte('0' + r.Intn(10)))
	}
	if r.Chance(1, 2) {
		sb.WriteString(".")
		for i := r.Range(0, 8); i > 0; i-- {
			sb.WriteByte(byte('0' + r.Intn(10)))
		}
	}
	if r.Chance(1, 3) {
		sb.WriteString(Pick(r, []string{"e", "E"}))
		sb.WriteString(Pick(r, []string{"", "+", "-"}))
		if r.Chance(1, 4) {
			sb.WriteString(strconv.Itoa(r.Range(290, 345)))
		} else {
			sb.WriteString(strconv.Itoa(r.Range(0, 30)))
		}
	}
	return sb.String()
}

func f64Ulp(b uint64) uint64 { // pattern of one ulp of the finite value b (as a float of its own)
	e := b >> 52 & 0x7FF
	if e <= 53 {
		if e <= 1 {
			return 1
		}
		return 1 << (e - 1)
	}
	return (e - 52) << 52
}

// f64Pair: mostly independent operands, sometimes related ones (cancellation, ties, neighbours).
func f64Pair(r *Rand) (uint64, uint64) {
	a := f64RandBits(r)
	switch r.Intn(10) {
	case 0: // neighbour / same
		d := uint64(r.Range(0, 3))
		if r.Bool() {
			return a, a + d
		}
		return a, a - d
	case 1: // opposite sign, same or neighbouring magnitude
		return a, (a ^ 1<<63) + uint64(r.Range(0, 2))
	case 2: // half an ulp and its neighbours: ties in addition
		if a>>52&0x7FF < 2046 && a>>52&0x7FF > 2 {
			u := f64Ulp(a)
			h := u - 1<<52 // half an ulp (normal range)
			if u>>52 == 0 {
				h = u >> 1
			}
			h += uint64(r.Range(0, 2)) - 1
			return a, h | uint64(r.Intn(2))<<63
		}
	case 3: // same fraction, other exponent
		return a, a&^(0x7FF<<52) | uint64(r.Range(0, 2047))<<52
	case 4: // powers of two (exact scaling, subnormal ties in division)
		return a, uint64(r.Intn(2))<<63 | uint64(r.Range(1023-1080, 1023+1030)&0x7FF)<<52
	case 5: // small integer divisor / factor
		return a, math.Float64bits(float64(r.Range(-12, 12)))
	}
	return a, f64RandBits(r)
}

func f64ParseInput(r *Rand) string {
	switch r.Intn(10) {
	case 0:
		return Pick(r, f64DecStrings)
	case 1:
		return Pick(r, f64OddStrings)
	case 2:
		return Pick(r, c11Floats)
	case 3, 4:
		return f64RandDecimal(r)
	case 5: // the shortest rendering of some float, possibly nudged in its last digit
		x := math.Float64frombits(f64RandBits(r))
		s := strconv.FormatFloat(x, Pick(r, []byte{'f', 'e', 'g'}), -1, 64)
		if r.Chance(1, 3) && len(s) > 0 {
			b := []byte(s)
			i := r.Intn(len(b))
			if b[i] >= '0' && b[i] <= '9' {
				b[i] = byte('0' + r.Intn(10))
			}
			s = string(b)
		}
		return s
	case 6: // 17+ digits: near-halfway decimal expansions of a midpoint between two floats
		bits := f64RandBits(r) &^ (1 << 63)
		if bits>>52 >= 2046 || bits == 0 {
			bits = 0x3FF0000000000000 + uint64(r.Intn(1000))
		}
		lo, hi := math.Float64frombits(bits), math.Float64frombits(bits+1)
		// exact midpoint through big decimal rendering of (lo+hi)/2 is not a float; use %.*e of both and average textually is awkward:
		// render lo with many digits instead (exact binary expansions are finite).
		s := strconv.FormatFloat(lo, 'e', r.Range(17, 60), 64)
		if r.Chance(1, 4) {
			s = strconv.FormatFloat(hi, 'f', r.Range(0, 30), 64)
		}
		return s
	case 7: // hex floats
		x := math.Float64frombits(f64RandBits(r))
		s := strconv.FormatFloat(x, 'x', Pick(r, []int{-1, -1, 0, 3, 13, 14, 20}), 64)
		if r.Chance(1, 3) { // longer mantissa: sticky digits
			if i := strings.IndexByte(s, 'p'); i > 0 && strings.Contains(s, ".") {
				s = s[:i] + Pick(r, []string{"8", "7fff", "80000000001", "0000000000000000001", "8000000000000000000"}) + s[i:]
			}
		}
		return s
	case 8: // exact midpoints between adjacent floats, to the digit (and one digit off)
		return f64Midpoint(r)
	}
	// mutated specials
	s := Pick(r, f64OddStrings)
	if len(s) > 0 && r.Bool() {
		i := r.Intn(len(s))
		s = s[:i] + Pick(r, []string{"_", "e", "p", ".", "0", "x", "+", "-", "1"}) + s[i:]
	}
	return s
}

// f64Midpoint renders the exact midpoint between a float and its successor as a decimal string
// (binary fractions have finite decimal expansions), optionally nudged by one unit in the last place.
func f64Midpoint(r *Rand) string {
	bits := f64RandBits(r) &^ (1 << 63)
	if bits>>52 >= 2046 {
		bits = uint64(r.Range(0, 2045))<<52 | r.U64()&(1<<52-1)
	}
	// value = m * 2^e; midpoint = (2m+1) * 2^(e-1)
	e := int(bits >> 52)
	m := bits & (1<<52 - 1)
	if e == 0 {
		e = 1
	} else {
		m |= 1 << 52
	}
	exp2 := e - 1075 - 1
	num := new2Big(2*m + 1)
	s := bigScale2(num, exp2)
	switch r.Intn(4) {
	case 0:
		return s + "1"
	case 1:
		// drop the last digit and keep the rest: just below
		if len(s) > 2 && s[len(s)-1] != '.' {
			return s[:len(s)-1] + "4"
		}
	}
	return s
}

func new2Big(m uint64) *big.Int { return new(big.Int).SetUint64(m) }

// bigScale2 renders num * 2^exp2 exactly in decimal.
func bigScale2(num *big.Int, exp2 int) string {
	if exp2 >= 0 {
		return new(big.Int).Lsh(num, uint(exp2)).String()
	}
	k := -exp2
	// num / 2^k = num * 5^k / 10^k
	p := new(big.Int).Exp(big.NewInt(5), big.NewInt(int64(k)), nil)
	ds := p.Mul(p, num).String()
	if len(ds) <= k {
		ds = strings.Repeat("0", k-len(ds)+1) + ds
	}
	return ds[:len(ds)-k] + "." + ds[len(ds)-k:]
}

func f64GenCases(r *Rand, tier string) []string {
	n := 1500
	if tier == "thorough" {
		n = 120000
	}
	var out []string
	hx := func(b uint64) string { return fmt.Sprintf("%016x", b) }
	// all pairs of a core of specials, always
	core := f64Specials[:24]
	for _, a := range core {
		for _, b := range core {
			out = append(out, "f64 bin "+hx(a)+" "+hx(b))
		}
	}
	for _, a := range f64Specials {
		out = append(out, "f64 un "+hx(a))
		for _, p := range []int{-1, 0, 1, 4} {
			out = append(out, fmt.Sprintf("f64 fmt %s %d", hx(a), p))
		}
	}
	for _, s := range f64DecStrings {
		out = append(out, "f64 parse "+HexS(s))
	}
	for _, s := range f64OddStrings {
		out = append(out, "f64 parse "+HexS(s))
	}
	for i := 0; i < n; i++ {
		a, b := f64Pair(r)
		out = append(out, "f64 bin "+hx(a)+" "+hx(b))
	}
	for i := 0; i < n/2; i++ {
		a := f64RandBits(r)
		if r.Chance(1, 5) { // perfect squares and their neighbours
			k := float64(r.U64() >> uint(11+r.Intn(50)))
			a = math.Float64bits(k*k) + uint64(r.Range(0, 2)) - 1
		}
		out = append(out, "f64 un "+hx(a))
	}
	for i := 0; i < n/4; i++ {
		v := int64(r.U64())
		switch r.Intn(4) {
		case 0:
			v >>= uint(r.Intn(64))
		case 1:
			v = int64(1)<<uint(r.Range(50, 62)) + int64(r.Range(-3, 3))
			if r.Bool() {
				v = -v
			}
		case 2:
			v = Pick(r, []int64{0, 1, -1, math.MaxInt64, math.MinInt64, math.MaxInt64 - 1, math.MinInt64 + 1, 1<<53 + 1, -(1<<53 + 1), 1<<54 + 2, 1<<54 + 6})
		}
		out = append(out, fmt.Sprintf("f64 ofint %d", v))
	}
	for i := 0; i < n/2; i++ {
		out = append(out, "f64 parse "+HexS(f64ParseInput(r)))
	}
	precs := []int{-1, -1, -1, 0, 0, 1, 1, 2, 3, 4, 4, 5, 10, 17, 20, 30}
	for i := 0; i < n/2; i++ {
		a := f64RandBits(r)
		p := Pick(r, precs)
		if r.Chance(1, 40) {
			p = Pick(r, []int{100, 400, 1024, 1100, -2, -100})
		}
		if r.Chance(1, 4) { // decimal ties: k / 2^j with few fraction bits
			a = math.Float64bits(float64(r.Range(-4000, 4000)) / float64(int(1)<<uint(r.Range(1, 6))))
		}
		out = append(out, fmt.Sprintf("f64 fmt %s %d", hx(a), p))
	}
	return out
}

// ---------------------------------------------------------------- float helpers through the expr op

// f64ArgText: a textual float argument for the float-valued helpers (mostly accepted by ParseFloat).
func f64ArgText(r *Rand) string {
	switch r.Intn(12) {
	case 0:
		return Pick(r, f64DecStrings)
	case 1:
		return Pick(r, f64OddStrings)
	case 2:
		return Pick(r, c11Floats)
	case 3, 4:
		return f64RandDecimal(r)
	case 5: // rendering of an arbitrary float
		x := math.Float64frombits(f64RandBits(r))
		return strconv.FormatFloat(x, Pick(r, []byte{'f', 'e', 'g', 'x'}), -1, 64)
	case 6: // integers, also beyond 2^53
		return c11RandInt(r)
	case 7: // around the comma threshold of hf and the unit steps
		base := Pick(r, []float64{1000, -1000, 999.5, 1e6, 1024, 1048576, 1e3 - 1e-5, 999.99995, 0.5, 2.5, 0.125, 1e15, 1e21, 1e22})
		x := math.Float64frombits(math.Float64bits(base) + uint64(r.Range(0, 4)) - 2)
		return strconv.FormatFloat(x, 'f', -1, 64)
	case 8: // k/2^j: exact decimal ties for round / percent / hf
		return strconv.FormatFloat(float64(r.Range(-40000, 40000))/float64(int(1)<<uint(r.Range(1, 7))), 'f', -1, 64)
	}
	return strconv.Itoa(r.Range(-3000, 3000))
}

var f64Precs = []string{"0", "1", "2", "3", "4", "6", "10", "17", "20", "-1", "-3", "40", "1024", "1025", "x", ""}

func f64ExprCases(r *Rand, tier string) []string {
	n := 40
	if tier == "thorough" {
		n = 2500
	}
	var out []string
	arg := func(v string) c11Arg { return c11Arg{val: v, mode: c11Mode(r), quote: r.Chance(1, 5)} }
	for i := 0; i < n; i++ {
		for _, name := range []string{"sumf", "subf", "multf", "divf"} {
			k := r.Range(2, 4)
			args := make([]c11Arg, k)
			for j := range args {
				args[j] = arg(f64ArgText(r))
			}
			out = c11Both(out, name, args)
		}
		for _, name := range []string{"lt", "gt", "lte", "gte"} {
			a := f64ArgText(r)
			b := f64ArgText(r)
			if r.Chance(1, 4) { // the same value in another spelling
				if v, err := strconv.ParseFloat(a, 64); err == nil {
					b = strconv.FormatFloat(v, Pick(r, []byte{'e', 'g', 'x', 'f'}), Pick(r, []int{-1, 17, 20}), 64)
				}
			}
			out = c11Both(out, name, []c11Arg{arg(a), arg(b)})
		}
		for _, name := range []string{"ceil", "floor", "sqrt", "hf", "isnum"} {
			out = c11Both(out, name, []c11Arg{arg(f64ArgText(r))})
		}
		out = c11Both(out, "round", []c11Arg{arg(f64ArgText(r)), {val: Pick(r, f64Precs)}})
		out = c11Both(out, "round", []c11Arg{arg(f64ArgText(r))})
		switch r.Intn(3) {
		case 0:
			out = c11Both(out, "percent", []c11Arg{arg(f64ArgText(r)), {val: Pick(r, f64Precs)}})
		case 1:
			out = c11Both(out, "percent", []c11Arg{arg(f64ArgText(r)), {val: Pick(r, f64Precs)}, arg(f64ArgText(r))})
		default:
			out = c11Both(out, "percent", []c11Arg{arg(f64ArgText(r)), {val: Pick(r, f64Precs)}, arg(f64ArgText(r)), arg(f64ArgText(r))})
		}
		// unit scalers: every magnitude, both signs, around the steps and beyond 2^53
		var v int64
		switch r.Intn(5) {
		case 0:
			v = int64(r.U64() >> uint(r.Intn(64)))
		case 1:
			p := int64(1)
			for j := r.Intn(7); j > 0; j-- {
				p *= Pick(r, []int64{1000, 1024})
			}
			v = p*int64(r.Range(1, 1100)) + int64(r.Range(-2, 2))
		case 2:
			v = int64(1)<<uint(r.Range(9, 62)) + int64(r.Range(-2, 2))
		case 3:
			v = Pick(r, []int64{999, 1000, 1023, 1024, 999999, 1000000, 999950, 999949, 1048575, 1023999, 1 << 53, 1<<53 + 1, math.MaxInt64, math.MinInt64, -1000, -1024, -999})
		default:
			v = int64(r.Range(-5000, 5000))
		}
		if r.Chance(1, 4) {
			v = -v
		}
		vs := strconv.FormatInt(v, 10)
		if r.Chance(1, 10) {
			vs = strconv.FormatUint(r.U64(), 10)
		}
		name := Pick(r, []string{"bytesize", "bytesizesi", "downscale"})
		if r.Bool() {
			out = c11Both(out, name, []c11Arg{arg(vs), {val: Pick(r, f64Precs)}})
		} else {
			out = c11Both(out, name, []c11Arg{arg(vs)})
		}
	}
	return out
}

func c11F64Stats(cases []string, st map[string]int) {
	for _, c := range cases {
		f := strings.Fields(c)
		if len(f) < 3 || f[0] != "f64" {
			continue
		}
		st["f64."+f[1]]++
		switch f[1] {
		case "bin", "un", "fmt":
			x := f64From(f[2])
			b := math.Float64bits(x) &^ (1 << 63)
			switch {
			case x != x:
				st["f64.operand.nan"]++
			case math.IsInf(x, 0):
				st["f64.operand.inf"]++
			case b == 0:
				st["f64.operand.zero"]++
			case b>>52 == 0:
				st["f64.operand.subnormal"]++
			case x == math.Trunc(x):
				st["f64.operand.integer"]++
			default:
				st["f64.operand.fraction"]++
			}
		case "parse":
			if _, err := strconv.ParseFloat(string(UnHex(f[2])), 64); err != nil {
				st["f64.parse.rejected"]++
			} else {
				st["f64.parse.accepted"]++
			}
		}
	}
}

func init() {
	c11ExtraGen = append(c11ExtraGen, f64GenCases, f64ExprCases)
	c11ExtraRun = append(c11ExtraRun, c11F64Run)
	c11ExtraStats = append(c11ExtraStats, c11F64Stats)
}
