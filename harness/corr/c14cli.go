//go:build c14

package main

// C14, `rare reduce` (table output) end to end IN PROCESS: the REAL command function (cmd/reduce.go through
// urfave/cli: real batcher on stdin, real extractor, real AccumulatingGroup, real sorter, the real render
// callback with its row buffer, real TableWriter, the real snapshot terminal) – nothing of cmd/reduce.go is
// copied into the harness, unlike `render reduce`.
//
//	rcli <flags> <nrows> <ncols> <gnames> <gexprs> <dnames> <dexprs> <sort> <pool> <phases>
//
// flags: bit 0 = --sort-reverse, bit 1 = colour on.  sort = hex of --sort (`-` = none).  pool = the words; a
// sample `i:j:k` is the input line `w_i;w_j;w_k` (matched by `^([^;]*);([^;]*);([^;]*)$`, default extraction
// `{@}` = the three words joined by NUL).  The phases are written to the command's stdin with a pause longer
// than the 100 ms refresh between them (`--batch 1 --workers 1`: every line is handed over at once, in input order), so the render callback
// normally runs once per phase – SEVERAL FRAMES into the same table – before the final one.  The generator keeps the
// answer independent of how many intermediate frames really happened (cell widths never shrink, every row fits):
// it is the snapshot after the last frame, the two status lines replaced by F0 / F1.
//
// Group values, sort keys: words that are neither numbers nor weekday / month names, so the contextual sorter is
// the byte order (the sorters themselves are C13's business).  The empty word is in the pool on purpose: the
// empty group key has NO parts (`GroupKey.Parts()`), its row must show an empty label wherever it is written.

import (
	"bytes"
	"fmt"
	"io"
	"os"
	"strconv"
	"strings"
	"sync"
	"time"

	"rare/cmd"
	"rare/pkg/color"
	"rare/pkg/logger"

	"github.com/urfave/cli/v2"
)

type c14Exit struct{ code int }

var c14CLIMu sync.Mutex

// c14RunCLI runs `rare <args>` in process; stdin is fed phase by phase with `pause` between phases
func c14RunCLI(args []string, colour bool, stdinPhases []string, pause time.Duration) (code int, stdout string, fatal bool) {
	c14CLIMu.Lock()
	defer c14CLIMu.Unlock()
	color.Enabled = colour
	oldExit := logger.OsExit
	logger.OsExit = func(c int) { panic(c14Exit{c}) }
	oldOut, oldIn := os.Stdout, os.Stdin
	r, w, err := os.Pipe()
	if err != nil {
		panic(err)
	}
	inR, inW, err := os.Pipe()
	if err != nil {
		panic(err)
	}
	os.Stdout = w
	os.Stdin = inR
	done := make(chan string)
	go func() {
		var b bytes.Buffer
		io.Copy(&b, r)
		done <- b.String()
	}()
	go func() {
		for i, ph := range stdinPhases {
			if i > 0 {
				time.Sleep(pause)
			}
			io.WriteString(inW, ph)
		}
		inW.Close()
	}()
	restore := func() {
		w.Close()
		os.Stdout, os.Stdin = oldOut, oldIn
		stdout = <-done
		r.Close()
		inR.Close()
		logger.OsExit = oldExit
	}
	defer func() {
		if e := recover(); e != nil {
			restore()
			if ex, ok := e.(c14Exit); ok {
				code, fatal = ex.code, true
				return
			}
			panic(e)
		}
	}()
	app := cli.NewApp()
	app.Commands = cmd.GetSupportedCommands()
	app.ExitErrHandler = func(c *cli.Context, err error) {}
	app.Writer = io.Discard
	app.ErrWriter = io.Discard
	err = app.Run(append([]string{"rare"}, args...))
	restore()
	if err == nil {
		return 0, stdout, false
	}
	if ec, ok := err.(cli.ExitCoder); ok {
		return ec.ExitCode(), stdout, false
	}
	return -1, stdout + "\nERR " + err.Error(), false
}

const c14CLIPause = 170 * time.Millisecond

func c14RunRcli(f []string) string {
	// flags nrows ncols gnames gexprs dnames dexprs sort pool phases
	if len(f) != 11 {
		return "bad-args"
	}
	flags, _ := strconv.Atoi(f[1])
	gnames, gexprs := UnHexListS(f[4]), UnHexListS(f[5])
	dnames, dexprs := UnHexListS(f[6]), UnHexListS(f[7])
	pool := UnHexListS(f[9])
	args := []string{"reduce", "--snapshot", "--table", "--initial", "i", "--batch", "1", "--workers", "1", "-m", `^([^;]*);([^;]*);([^;]*)$`,
		"--rows", f[2], "--cols", f[3]}
	for i := range gnames {
		args = append(args, "-g", gnames[i]+"="+gexprs[i])
	}
	for i := range dnames {
		args = append(args, "-a", dnames[i]+"="+dexprs[i])
	}
	if flags&1 != 0 {
		args = append(args, "--sort-reverse")
	}
	if f[8] != "-" {
		args = append(args, "--sort", string(UnHex(f[8])))
	}
	var phases []string
	for _, ph := range c14Phases(f[10]) {
		var sb strings.Builder
		for _, sm := range ph {
			if len(sm) != 3 {
				return "bad-args"
			}
			fmt.Fprintf(&sb, "%s;%s;%s\n", pool[sm[0]], pool[sm[1]], pool[sm[2]])
		}
		phases = append(phases, sb.String())
	}
	code, out, fatal := c14RunCLI(args, flags&2 != 0, phases, c14CLIPause)
	if fatal {
		return fmt.Sprintf("fatal %d", code)
	}
	lines := strings.Split(strings.TrimSuffix(out, "\n"), "\n")
	if n := len(lines); n >= 2 { // the two status lines: match summary and the batcher's byte / rate line
		lines[n-2], lines[n-1] = "F0", "F1"
	}
	return "ok " + HexListS(lines)
}

// ---------------------------------------------------------------- generator

var c14CLIWords = []string{"ka", "kb", "kc", "zz", "ab", "abc", "héllo", "日本", "k d", strings.Repeat("w", 23), "X", "alpha", "beta"}
var c14CLINames = []string{"g", "k", "name", "日本", "héllo", "n", "sum", "v", "Total", "a b"}
var c14CLIGroupExprs = []string{"{1}", "{1}", "{2}", "{0}", "lit", "{1}{2}", "{2}-{1}", "é{1}", "{3}x", "{1}\x00{2}"}
var c14CLIDataGrow = []string{"{.}{3}", "{.}", "x", "{.}+{2}", "{.}{1}"}
var c14CLIDataAny = []string{"{3}", "{2}", "{0}", "{3}{3}", "{.}{3}", "{.}", "x"}

func c14GenRcli(r *Rand) string {
	ng := 1
	if r.Chance(1, 2) {
		ng = r.Intn(4)
	}
	nd := r.Intn(4)
	gnames, dnames := c14Distinct(r, c14CLINames, ng), c14Distinct(r, c14CLINames, nd)
	nph := 1
	if r.Chance(1, 4) {
		nph = 2 + r.Intn(2)
	}
	gexprs, dexprs := make([]string, ng), make([]string, nd)
	for i := range gexprs {
		gexprs[i] = Pick(r, c14CLIGroupExprs)
		if r.Chance(1, 2) {
			gexprs[i] = fmt.Sprintf("{%d}", i+1)
		}
	}
	for i := range dexprs {
		if nph > 1 {
			dexprs[i] = Pick(r, c14CLIDataGrow) // widths never shrink: the answer does not depend on which frames were drawn
		} else {
			dexprs[i] = Pick(r, c14CLIDataAny)
		}
	}
	np := 2 + r.Intn(5)
	pool := c14Distinct(r, c14CLIWords, np)
	if r.Chance(2, 3) {
		pool[r.Intn(len(pool))] = "" // the empty group value
	}
	var phases []string
	for p := 0; p < nph; p++ {
		n := 1 + r.Intn(5)
		var sm []string
		for i := 0; i < n; i++ {
			sm = append(sm, fmt.Sprintf("%d:%d:%d", r.Intn(len(pool)), r.Intn(len(pool)), r.Intn(len(pool))))
		}
		phases = append(phases, strings.Join(sm, ","))
	}
	nrows, ncols := Pick(r, []int{0, 1, 2, 3, 20, 20}), Pick(r, []int{0, 1, 2, 10, 10})
	if nph > 1 {
		nrows = 20 // every group keeps its row in every frame
	}
	flags := 0
	if r.Chance(1, 2) {
		flags |= 1
	}
	if r.Chance(1, 3) {
		flags |= 2
	}
	sortE := "-"
	if r.Chance(2, 5) {
		cands := []string{"{0}", "{1}", "{.}", "x", "{0}{1}"}
		for _, n := range dnames {
			if n == "n" || n == "v" || n == "k" || n == "g" {
				cands = append(cands, "{"+n+"}", "{"+n+"}")
			}
		}
		sortE = HexS(Pick(r, cands))
	}
	return fmt.Sprintf("rcli %d %d %d %s %s %s %s %s %s %s", flags, nrows, ncols, HexListS(gnames), HexListS(gexprs),
		HexListS(dnames), HexListS(dexprs), sortE, HexListS(pool), strings.Join(phases, "|"))
}

// the witnesses of the seeded change C14-reduce-rowbuf-hoisted (one row buffer for all rows and frames): the row of the
// empty group value is written after another row (--sort-reverse), or first in a LATER frame
func c14RcliCorpus() []string {
	return []string{
		// alpha;1 / ;5 / beta;2 / alpha;10 with --sort-reverse: rows beta, alpha, <empty>
		"rcli 1 20 10 677270 7b317d 746f74616c 7b2e7d7b327d - 616c706861;31;-;35;62657461;32;3130 0:1:2,2:3:2,4:5:2,0:6:2",
		// two frames, default order: frame 1 draws alpha, frame 2 starts with the empty group
		"rcli 0 20 10 677270 7b317d 746f74616c 7b2e7d7b327d - 616c706861;31;-;35 0:1:2|2:3:2",
		// colour on, --sort by the first part of the key, two frames: the empty group arrives second and sorts first
		"rcli 2 20 10 67 7b317d 6e 7b2e7d7b337d 7b307d 6b61;-;7a7a 0:0:2,2:2:0|1:1:0,2:0:2",
	}
}
