//go:build c11

package main

import (
	"fmt"
	"math"
	"strconv"
	"strings"
	"unicode"
	"unicode/utf8"

	"rare/pkg/expressions"
	"rare/pkg/expressions/funclib"
)

// C11 round 4: direct ops for helpers the expression op reaches only through template syntax.
//
//	case <upper|lower> <value hex>   {upper {0}} / {lower {0}} on ANY byte string (all runes of unicode.CaseRanges and
//	                                 their neighbours, every plane, invalid / truncated / overlong UTF-8, surrogates)
//	path <base|dir|ext> <value hex>  {basename {0}} / {dirname {0}} / {extname {0}}
//	rt64 <bits>                      ParseFloat(FormatFloat(x,'f',-1,64)) -> ok s=<hex> back=<bits>
//
// The real side always goes through the compiled helper (funclib.NewKeyBuilderEx), never through strings.* directly.

var r4Compiled = map[string]*expressions.CompiledKeyBuilder{}

func r4Eval(helper, v string) string {
	kb, ok := r4Compiled[helper]
	if !ok {
		kb, _ = funclib.NewKeyBuilderEx(false).Compile("{" + helper + " {0}}")
		r4Compiled[helper] = kb
	}
	if kb == nil {
		return "nil-compiled"
	}
	return "ok val=" + HexS(kb.BuildKey(&expressions.KeyBuilderContextArray{Elements: []string{v}}))
}

func r4Run(f []string) (string, bool) {
	switch {
	case len(f) == 3 && f[0] == "case" && (f[1] == "upper" || f[1] == "lower"):
		return r4Eval(f[1], string(UnHex(f[2]))), true
	case len(f) == 3 && f[0] == "path":
		name := map[string]string{"base": "basename", "dir": "dirname", "ext": "extname"}[f[1]]
		if name == "" {
			return "bad-args", true
		}
		return r4Eval(name, string(UnHex(f[2]))), true
	case len(f) == 2 && f[0] == "rt64":
		u, err := strconv.ParseUint(f[1], 16, 64)
		if err != nil {
			return "bad-args", true
		}
		s := strconv.FormatFloat(math.Float64frombits(u), 'f', -1, 64)
		back, err := strconv.ParseFloat(s, 64)
		if err != nil {
			return "ok s=" + HexS(s) + " back=err", true
		}
		return "ok s=" + HexS(s) + " back=" + f64Hex(back), true
	}
	return "", false
}

// byte fragments that exercise the UTF-8 decoder of `range s`
var r4Frags = []string{
	"a", "Z", "z", "A", "0", " ", "\x00", "\x7f", "\x80", "\xbf", "\xc0", "\xc1", "\xc2", "\xc3", "\xdf", "\xe0", "\xe0\x80", "\xe0\x9f\xbf", "\xe0\xa0\x80",
	"\xed\x9f\xbf", "\xed\xa0\x80", "\xed\xbf\xbf", "\xee\x80\x80", "\xef\xbf\xbd", "\xef\xbf\xbf", "\xf0", "\xf0\x8f\xbf\xbf", "\xf0\x90\x80\x80",
	"\xf0\x90\x90\x80", "\xf0\x90\x90\xa8", "\xf4\x8f\xbf\xbf", "\xf4\x90\x80\x80", "\xf5", "\xf8\x88\x80\x80\x80", "\xff", "\xfe", "\xc3\xa9", "\xc3", "\xa9",
	"\xe2\x84", "\xe2\x84\xaa", "\xc4\xb0", "\xc4\xb1", "\xc5\xbf", "\xc3\x9f", "\xe1\xba\x9e", "\xc7\x85", "\xc7\x84", "\xc7\x86", "\xc8\xba", "\xe2\xb1\xa5",
	"\xce\xa3", "\xcf\x82", "\xcf\x83", "\xef\xac\x81", "\xf0\x9e\xa4\x80", "\xf0\x9e\xa4\xa2", "\xe1\x83\x90", "\xe1\xb2\x90", "\xea\xad\xb0", "\xe1\x8e\xa0",
	"\xf0\x90", "\xf0\x90\x90", "\xe2", "\xe2\x82", "日", "é", "É", "ÿ", "Ÿ", "µ", "Μ",
}

func r4CaseCases(r *Rand, tier string) []string {
	var out []string
	add := func(s string) {
		out = append(out, "case upper "+HexS(s), "case lower "+HexS(s))
	}
	for _, f := range r4Frags {
		add(f)
	}
	add("")
	// every rune of every case range, its two neighbours on each side, alone (non-ASCII path) and between ASCII
	seen := map[rune]bool{}
	for _, cr := range unicode.CaseRanges {
		for x := int64(cr.Lo) - 2; x <= int64(cr.Hi)+2; x++ {
			c := rune(x)
			if c < 0 || seen[c] {
				continue
			}
			seen[c] = true
			if tier == "thorough" || r.Chance(1, 4) || cr.Hi-cr.Lo < 3 {
				add(string(c))
			}
			if tier == "thorough" && r.Chance(1, 3) {
				add("aZ" + string(c) + "bY")
			}
		}
	}
	// all code points, 48 per string (thorough: every plane; quick: a sample of blocks)
	step := rune(48)
	for lo := rune(0); lo <= unicode.MaxRune; lo += step {
		if tier != "thorough" && !(lo < 0x600 || r.Chance(1, 300)) {
			continue
		}
		var sb strings.Builder
		for c := lo; c < lo+step && c <= unicode.MaxRune; c++ {
			if c >= 0xD800 && c < 0xE000 {
				sb.WriteString("\xed" + string([]byte{byte(0xa0 + (c>>6)&0x1f), byte(0x80 + c&0x3f)})) // the raw surrogate bytes
				continue
			}
			sb.WriteRune(c)
		}
		add(sb.String())
	}
	// random mixtures of fragments
	n := 400
	if tier == "thorough" {
		n = 30000
	}
	for i := 0; i < n; i++ {
		var sb strings.Builder
		for j := r.Range(1, 7); j > 0; j-- {
			sb.WriteString(Pick(r, r4Frags))
		}
		add(sb.String())
	}
	// the same through the expression op, nested and as constants (valid UTF-8 only can be written in a template)
	for i := 0; i < n/8; i++ {
		v := Pick(r, r4Frags) + Pick(r, r4Frags)
		name := Pick(r, []string{"upper", "lower"})
		out = append(out, c11Case(r.Bool(), name, []c11Arg{{val: v, mode: r.Intn(2)}}))
		if utf8.ValidString(v) && !strings.ContainsAny(v, "\\{}\"\x00") {
			out = append(out, ExprCase(r.Bool(), "{len {"+name+" \""+v+"\"}}|{eq {upper {lower {0}}} {upper {0}}}", []string{v}, nil))
		}
	}
	return out
}

var r4PathAlpha = []string{"a", "b", ".", "/", "/", "..", " ", "é", "\x00", "\xff", "\\", ".x", "c.d", "//", "/.", "./"}

func r4PathCases(r *Rand, tier string) []string {
	var out []string
	add := func(s string) {
		out = append(out, "path base "+HexS(s), "path dir "+HexS(s), "path ext "+HexS(s))
	}
	for _, p := range c11Paths {
		add(p)
	}
	// exhaustive over {a . /}
	maxLen := 5
	if tier == "thorough" {
		maxLen = 8
	}
	var rec func(cur []byte)
	rec = func(cur []byte) {
		add(string(cur))
		if len(cur) < maxLen {
			for _, c := range []byte{'a', '.', '/'} {
				rec(append(append([]byte{}, cur...), c))
			}
		}
	}
	rec(nil)
	n := 300
	if tier == "thorough" {
		n = 20000
	}
	for i := 0; i < n; i++ {
		var sb strings.Builder
		for j := r.Range(0, 9); j > 0; j-- {
			sb.WriteString(Pick(r, r4PathAlpha))
		}
		add(sb.String())
	}
	return out
}

func r4RtCases(r *Rand, tier string) []string {
	var out []string
	for _, b := range f64Specials {
		out = append(out, fmt.Sprintf("rt64 %016x", b))
	}
	n := 150
	if tier == "thorough" {
		n = 6000
	}
	for i := 0; i < n; i++ {
		out = append(out, fmt.Sprintf("rt64 %016x", f64RandBits(r)))
	}
	// neighbours of powers of two and of ten (where the shortest interval is asymmetric / digits change length)
	for e := -1074; e <= 1023; e += 1 + r.Intn(40) {
		b := math.Float64bits(math.Ldexp(1, e))
		for _, d := range []uint64{0, 1, ^uint64(0)} {
			out = append(out, fmt.Sprintf("rt64 %016x", b+d))
		}
	}
	for e := -323; e <= 308; e += 1 + r.Intn(25) {
		v, _ := strconv.ParseFloat("1e"+strconv.Itoa(e), 64)
		b := math.Float64bits(v)
		for _, d := range []uint64{0, 1, ^uint64(0)} {
			out = append(out, fmt.Sprintf("rt64 %016x", b+d))
		}
	}
	return out
}

func r4Gen(r *Rand, tier string) []string {
	out := r4CaseCases(r, tier)
	out = append(out, r4PathCases(r, tier)...)
	out = append(out, r4RtCases(r, tier)...)
	return out
}

func r4Stats(cases []string, st map[string]int) {
	for _, c := range cases {
		f := strings.Fields(c)
		if len(f) == 0 {
			continue
		}
		switch f[0] {
		case "case":
			st["op.case."+f[1]]++
			b := UnHex(f[2])
			if !utf8.Valid(b) {
				st["op.case.invalidUtf8"]++
			}
			ascii := true
			for _, x := range b {
				if x >= 0x80 {
					ascii = false
				}
			}
			if !ascii {
				st["op.case.nonAscii"]++
			}
		case "path":
			st["op.path."+f[1]]++
		case "rt64":
			st["op.rt64"]++
		}
	}
}

func init() {
	c11ExtraGen = append(c11ExtraGen, r4Gen)
	c11ExtraRun = append(c11ExtraRun, r4Run)
	c11ExtraStats = append(c11ExtraStats, r4Stats)
}
