//go:build c06

package main

// C06, gzip header part: the REAL compress/gzip header parser (gzip.NewReader) against the Lean model of
// readHeader (lean/Rare/Model/C06Gzip.lean) on generated headers.
//
//	gzhdr <content>        gzip.NewReader(bytes.NewReader(content)): `ok <offset where the compressed data starts>`
//	                       or `err eof|ueof|header`
//
// The same generated headers (followed by a real DEFLATE stream and trailer) also go through the real
// rare code in the `open` op (openFileToReader with -z): kind "gzip-hdr" of c06File.

import (
	"bytes"
	"compress/gzip"
	"encoding/binary"
	"fmt"
	"hash/crc32"
	"io"
	"strings"
)

func c06RunGzip(f []string) (string, bool) {
	if f[0] != "gzhdr" {
		return "", false
	}
	data := UnHex(f[1])
	rd := bytes.NewReader(data) // an io.ByteReader: gzip reads exactly what it needs
	z, err := gzip.NewReader(rd)
	if err == nil {
		_ = z
		return fmt.Sprintf("ok %d", len(data)-rd.Len()), true
	}
	switch err {
	case io.EOF:
		return "err eof", true
	case io.ErrUnexpectedEOF:
		return "err ueof", true
	case gzip.ErrHeader:
		return "err header", true
	}
	return "err other:" + HexS(err.Error()), true
}

// c06GzHeader builds a gzip member header by hand.  kind: what was done to it.
func c06GzHeader(r *Rand) (hdr []byte, kind string) {
	flg := byte(0)
	switch r.Intn(6) {
	case 0:
		flg = byte(r.Intn(256)) // every combination, reserved bits and FTEXT included
	case 1:
		flg = byte(r.Intn(32))
	case 2:
		flg = Pick(r, []byte{0x20, 0x40, 0x80, 0xe0, 0x01, 0xff}) // reserved bits / FTEXT alone
	default:
		for _, b := range []byte{2, 4, 8, 16} {
			if r.Chance(1, 3) {
				flg |= b
			}
		}
	}
	h := []byte{0x1f, 0x8b, 8, flg, byte(r.Intn(256)), byte(r.Intn(256)), byte(r.Intn(256)), byte(r.Intn(256)),
		Pick(r, []byte{0, 2, 4, 0xff}), Pick(r, []byte{0, 3, 255, 11})}
	kind = "plainhdr"
	str := func() []byte {
		n := Pick(r, []int{0, 1, 3, 8, 8, 40, 510, 511, 512, 513, 700})
		b := make([]byte, n)
		for i := range b {
			b[i] = Pick(r, []byte{'a', 'z', '.', ' ', 0xe9, 0xff, 1, '/'})
		}
		return b
	}
	if flg&4 != 0 {
		n := Pick(r, []int{0, 0, 1, 2, 5, 12, 255, 256, 300, 5000})
		ex := make([]byte, n)
		for i := range ex {
			ex[i] = byte(r.Intn(256))
		}
		h = binary.LittleEndian.AppendUint16(h, uint16(n))
		h = append(h, ex...)
		kind += "+extra"
	}
	if flg&8 != 0 {
		h = append(h, str()...)
		h = append(h, 0)
		kind += "+name"
	}
	if flg&16 != 0 {
		h = append(h, str()...)
		h = append(h, 0)
		kind += "+comment"
	}
	if flg&2 != 0 {
		crc := crc32.ChecksumIEEE(h)
		h = binary.LittleEndian.AppendUint16(h, uint16(crc))
		kind += "+hcrc"
	}
	if flg&0xe0 != 0 {
		kind += "+reserved"
	}
	return h, kind
}

// c06GzDamage damages a header (or leaves it alone): kinds of damage gzip.NewReader must tell apart.
func c06GzDamage(r *Rand, h []byte) ([]byte, string) {
	h = append([]byte{}, h...)
	switch r.Intn(12) {
	case 0: // cut anywhere inside the header
		return h[:r.Intn(len(h)+1)], "cut"
	case 1: // cut inside the fixed part
		k := r.Intn(11)
		if k > len(h) {
			k = len(h)
		}
		return h[:k], "cut10"
	case 2: // magic / method
		h[r.Intn(3)] ^= Pick(r, []byte{1, 0x80, 0xff, 0x10})
		return h, "magic"
	case 3: // any bit
		h[r.Intn(len(h))] ^= 1 << uint(r.Intn(8))
		return h, "bitflip"
	case 4: // last byte (the header CRC when there is one)
		h[len(h)-1] ^= Pick(r, []byte{1, 0x80})
		return h, "lastbyte"
	case 5: // a NUL removed: the string runs into what follows
		if i := bytes.LastIndexByte(h[10:], 0); i >= 0 {
			return append(h[:10+i], h[10+i+1:]...), "nul-removed"
		}
	}
	return h, "intact"
}

func c06GenGzhdr(r *Rand) string {
	h, _ := c06GzHeader(r)
	h, _ = c06GzDamage(r, h)
	if r.Chance(2, 3) { // something after the header
		h = append(h, Pick(r, []string{"\x03\x00\x00\x00\x00\x00\x00\x00\x00\x00", "\x00", "garbage", "\x4b\x04\x00"})...)
	}
	if r.Chance(1, 30) {
		h = []byte(Pick(r, []string{"", "\x1f", "\x1f\x8b", "\x1f\x8b\x08", "plain text\n", "\x1f\x8b\x08\x00\x00\x00\x00\x00\x00", "\x1f\x9d\x90"}))
	}
	return "gzhdr " + Hex(h)
}

// c06GzipWithHeader: a complete gzip member with a hand-made header in front of a real DEFLATE stream + trailer.
func c06GzipWithHeader(r *Rand, data []byte) ([]byte, string) {
	z := c06Gzip(data, Pick(r, []int{0, 1, 6}), "")
	h, kind := c06GzHeader(r)
	dmg := "intact"
	if r.Chance(1, 3) {
		h, dmg = c06GzDamage(r, h)
	}
	return append(h, z[10:]...), "gzip-hdr:" + strings.ReplaceAll(kind, "plainhdr", "h") + ":" + dmg
}

func c06GzipGenCases(r *Rand, tier string) []string {
	n := 1500
	if tier == "thorough" {
		n = 40000
	}
	var out []string
	// every FLG value once, intact, followed by an empty stored block
	for flg := 0; flg < 256; flg++ {
		h := []byte{0x1f, 0x8b, 8, byte(flg), 0, 0, 0, 0, 0, 3}
		if flg&4 != 0 {
			h = append(h, 2, 0, 'e', 'x')
		}
		if flg&8 != 0 {
			h = append(h, 'n', 0)
		}
		if flg&16 != 0 {
			h = append(h, 'c', 0)
		}
		if flg&2 != 0 {
			h = binary.LittleEndian.AppendUint16(h, uint16(crc32.ChecksumIEEE(h)))
		}
		out = append(out, "gzhdr "+Hex(append(h, 3, 0, 0, 0, 0, 0, 0, 0, 0, 0)))
	}
	for i := 0; i < n; i++ {
		out = append(out, c06GenGzhdr(r))
	}
	return out
}

func c06GzipStats(st map[string]int, f []string) {
	if f[0] != "gzhdr" {
		return
	}
	data := UnHex(f[1])
	if len(data) >= 4 && data[0] == 0x1f && data[1] == 0x8b && data[2] == 8 {
		st["gzhdr:magic-ok"]++
		flg := data[3]
		for _, b := range []struct {
			m byte
			n string
		}{{2, "fhcrc"}, {4, "fextra"}, {8, "fname"}, {16, "fcomment"}, {0xe0, "reserved-bits"}} {
			if flg&b.m != 0 {
				st["gzhdr:"+b.n]++
			}
		}
	}
	if _, err := gzip.NewReader(bytes.NewReader(data)); err == nil {
		st["gzhdr:accepted"]++
	} else {
		st["gzhdr:rejected:"+strings.ReplaceAll(err.Error(), " ", "-")]++
	}
}
