//go:build c03

package main

// Correspondence for C03, the table aggregator under the spark command's render callback:
//
//	tbl <delim> <ncols> <samples> <renders> [<sort-cols hex>]
//
// drives the REAL aggregation.TableAggregator through an interleaving of Sample calls and the trim step of
// cmd/spark.go's render callback (OrderedColumns(colSorter) -> keep the last <ncols> -> Trim(predicate)), exactly
// as a run of `rare spark --sort-cols text --cols <ncols>` does when its 100 ms renders fall after the sample
// counts listed in <renders> (`,`-joined, ascending, a count may repeat; `.` = none).  A final render (the one
// RunAggregationLoop always performs) follows the last sample, then csv.WriteTable.  Answer:
// `ok <csv hex> <RowCount> <ColumnCount> <Sum> <min> <max> <parseErrors>`.
// The Lean side folds `Table.sample` / `sparkTrim` over the same script (Model/C07 table, Model/C03 sparkTrim).
// With the optional fifth field the WHOLE `if` statement of the render callback is replayed for that `--sort-cols` text:
// guard `!noTruncate && !helpers.SortsByValue(sortCols)` with the real SortsByValue, colSorter = the real
// BuildSorter(sortCols) – a value-ordered spelling (`value`, `VALUE:asc` …) never trims, whatever the renders.
// Oracle for: state after Sample*/Trim*/Sample* = model fold with the same Trim calls (a row emptied by a Trim and
// sampled again right afterwards is a fresh row), and the final export = export of the trimmed sequential table.

import (
	"fmt"
	"strconv"
	"strings"

	"rare/cmd/helpers"
	"rare/pkg/aggregation"
	"rare/pkg/csv"
)

// c03SparkTrim is the `if` statement of cmd/spark.go's render callback with noTruncate = false (Gen/C03 `sparkTrimGuard`,
// `sparkTrimBody` pin its text; `sparkTrimGuardE` / `sortsByValueFn` are evaluated in `sorts_by_value_from_source`).
func c03SparkTrim(counter *aggregation.TableAggregator, numCols int, sortCols string) {
	colSorter, err := helpers.BuildSorter(sortCols)
	if err != nil {
		panic(err)
	}
	noTruncate := false
	if !noTruncate && !helpers.SortsByValue(sortCols) {
		if keepCols := counter.OrderedColumns(colSorter); len(keepCols) > numCols {
			keepCols = keepCols[len(keepCols)-numCols:]
			keepLookup := make(map[string]struct{})
			for _, item := range keepCols {
				keepLookup[item] = struct{}{}
			}
			counter.Trim(func(col, row string, val int64) bool {
				_, ok := keepLookup[col]
				return !ok
			})
		}
	}
}

func c03ParseRenders(s string) []int {
	if s == "." {
		return nil
	}
	var out []int
	for _, p := range strings.Split(s, ",") {
		n, _ := strconv.Atoi(p)
		out = append(out, n)
	}
	return out
}

func c03TblRun(f []string) string {
	delim := string(UnHex(f[1]))
	ncols, _ := strconv.Atoi(f[2])
	samples := UnHexListS(f[3])
	renders := c03ParseRenders(f[4])
	sortCols := "text"
	if len(f) > 5 {
		sortCols = string(UnHex(f[5]))
		if _, err := helpers.BuildSorter(sortCols); err != nil {
			return "fatal 2"
		}
	}
	a := aggregation.NewTable(delim)
	ri := 0
	for i := 0; i <= len(samples); i++ {
		for ri < len(renders) && renders[ri] <= i {
			c03SparkTrim(a, ncols, sortCols)
			ri++
		}
		if i < len(samples) {
			a.Sample(samples[i])
		}
	}
	c03SparkTrim(a, ncols, sortCols)
	res := c03Write(func(w csv.CSV) error { return csv.WriteTable(w, a) })
	if !strings.HasPrefix(res, "ok ") {
		return res
	}
	mn, mx := a.ComputeMinMax()
	return fmt.Sprintf("%s %d %d %d %d %d %d", res, a.RowCount(), a.ColumnCount(), a.Sum(), mn, mx, a.ParseErrors())
}

// c03TblCase: few rows, more columns than --cols, dense renders; samples come in runs of one row key (the lines of one
// source/time bucket arrive together), and a run is often cut by a render right after a sample in an OLD column.
func c03TblCase(r *Rand) string {
	delim := Pick(r, []string{"\x00", "\x00", "\x00", ",", "::"})
	ncols := Pick(r, []int{0, 1, 1, 1, 2, 2, 3})
	colNames := []string{"a", "b", "c", "d", "e", "f"}
	if r.Chance(1, 5) {
		colNames = []string{"10", "9", "", "é", "b,", "\"", "z"}
	} else if r.Chance(1, 5) { // numeric column names (time buckets): `--sort-cols numeric` ranks 9 < 10 < 1e2, text ranks "10" < "1e2" < "9"
		colNames = []string{"10", "9", "1e2", "-1", "1.0", "1", "x"}
	}
	nc := r.Range(1, len(colNames))
	rows := []string{"w", "x", "", "y z"}[:r.Range(1, 4)]
	n := r.Intn(12)
	if r.Chance(1, 8) {
		n = r.Range(12, 40)
	}
	samples := make([]string, 0, n)
	var renders []string
	row := Pick(r, rows)
	for i := 0; i < n; i++ {
		if r.Chance(1, 3) {
			row = Pick(r, rows)
		}
		col := colNames[r.Intn(nc)]
		if r.Chance(1, 3) { // time moves on: later samples tend to land in later columns
			col = colNames[(i*nc/(n+1)+r.Intn(2))%nc]
		}
		p := []string{col, row}
		switch r.Intn(10) {
		case 0:
			p = append(p, c03Inc(r))
		case 1:
			p = p[:1]
		case 2:
			p = append(p, strconv.Itoa(r.Range(-2, 5)))
		}
		samples = append(samples, strings.Join(p, delim))
		if r.Chance(2, 5) {
			renders = append(renders, strconv.Itoa(i+1))
			if r.Chance(1, 10) {
				renders = append(renders, strconv.Itoa(i+1))
			}
		}
	}
	rs := "."
	if len(renders) > 0 {
		rs = strings.Join(renders, ",")
	}
	if r.Chance(1, 3) { // the whole guard: value-ordered spellings never trim; text / numeric spellings trim by THEIR order
		sc := Pick(r, []string{"value", "VALUE", "Value:asc", "vALUE:DESC", "value:rev", "VALUE:Reverse", "text", "TEXT", "Text:ASC", "text:asc",
			"numeric", "numeric", "NUMERIC", "Numeric:desc", "numeric:rev", "text:desc", "TEXT:Reverse", "text:rev", "numeric:asc"})
		return fmt.Sprintf("tbl %s %d %s %s %s", HexS(delim), ncols, HexListS(samples), rs, HexS(sc))
	}
	return fmt.Sprintf("tbl %s %d %s %s", HexS(delim), ncols, HexListS(samples), rs)
}

// every script over 2 rows x 3 columns of length <= maxLen with a render after every subset of positions (small
// exhaustive family: all interleavings Sample*/Trim*/Sample* up to that size, --cols 1)
func c03TblExhaustive(maxLen int, out *[]string) {
	cells := []string{"a\x00w", "b\x00w", "c\x00w", "a\x00x", "b\x00x"}
	var rec func(cur []string)
	rec = func(cur []string) {
		if len(cur) > 0 {
			for mask := 0; mask < 1<<uint(len(cur)-1); mask++ {
				var rs []string
				for i := 0; i < len(cur)-1; i++ {
					if mask&(1<<uint(i)) != 0 {
						rs = append(rs, strconv.Itoa(i+1))
					}
				}
				s := "."
				if len(rs) > 0 {
					s = strings.Join(rs, ",")
				}
				*out = append(*out, fmt.Sprintf("tbl 00 1 %s %s", HexListS(cur), s))
			}
		}
		if len(cur) < maxLen {
			for _, c := range cells {
				rec(append(append([]string{}, cur...), c))
			}
		}
	}
	rec(nil)
}

func c03TblStats(f []string, st map[string]int) {
	st["op.tbl"]++
	samples := UnHexListS(f[3])
	renders := c03ParseRenders(f[4])
	st["tbl.samples"] += len(samples)
	st["tbl.renders"] += len(renders)
	if len(renders) == 0 {
		st["tbl.noIntermediateRender"]++
	}
	delim := string(UnHex(f[1]))
	rowOf := func(s string) string {
		p := strings.Split(s, delim)
		if len(p) > 1 {
			return p[1]
		}
		return ""
	}
	for _, k := range renders {
		if k >= 1 && k < len(samples) && rowOf(samples[k-1]) == rowOf(samples[k]) {
			st["tbl.renderBetweenSamplesOfOneRow"]++
		}
	}
	if f[2] == "0" {
		st["tbl.cols0"]++
	}
	if len(f) > 5 {
		st["tbl.sortCols"]++
		sc := string(UnHex(f[5]))
		if lc := strings.ToLower(sc); strings.HasPrefix(lc, "numeric") {
			st["tbl.sortCols.numeric"]++
		} else if strings.HasSuffix(lc, ":desc") || strings.HasSuffix(lc, ":rev") || strings.HasSuffix(lc, ":reverse") {
			st["tbl.sortCols.reversed"]++
		}
		if helpers.SortsByValue(strings.ToLower(sc)) {
			st["tbl.sortCols.value"]++
			if sc != strings.ToLower(sc) {
				st["tbl.sortCols.value.upperCase"]++
			}
		}
	}
}

var c03TblCorpus = []string{
	// --sort-cols numeric keeps column 10 (9 < 10), text keeps column 9 ("10" < "9"), text:desc keeps 10; render after the 2nd sample
	"tbl 00 1 31300072;390072;31300072 2 6e756d65726963",
	"tbl 00 1 31300072;390072;31300072 2 74657874",
	"tbl 00 1 31300072;390072;31300072 2 746578743a64657363",
	"tbl 00 1 390072;31300072;390072 1,2 4e554d455249433a726576",
	// Sample(b x); Sample(a w); render (--cols 1: column a goes, row w with it); Sample(b w): w is a fresh row
	"tbl 00 1 620078;610077;620077 2",
	"tbl 00 1 620078;610077;620077;620077 2,3",
	"tbl 00 0 610077;610077 1",
	"tbl 00 2 610077;620077;630077;610077 3",
	"tbl 00 1 . .",
}
