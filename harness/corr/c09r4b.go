//go:build c09 || c08 || c10

package main

import (
	"errors"
	"fmt"
	"strings"

	"rare/pkg/expressions"
)

// Round 4b of C09.
//
//	serr <opt> <template>          WHICH syntax errors Compile records: kind, index, context text, in order (the
//	                               DetailedErrors whose Err is one of the three sentinels; builder errors dropped).
//	                               The model side does not compile: it answers with the declarative error list
//	                               `synErrs` (Spec/C09Pos.lean; theorem syntax_errors_exact).
//	kbapi <name> <template>        the rest of the KeyBuilder API: NewKeyBuilder() (optimiser on by default), Funcs(map),
//	                               HasFunc(name), DetailedError.Unwrap() of every recorded error.

func c09SynKind(err error) string {
	switch {
	case errors.Is(err, expressions.ErrorUnterminated):
		return "unterminated"
	case errors.Is(err, expressions.ErrorEmptyStatement):
		return "empty"
	case errors.Is(err, expressions.ErrorMissingFunction):
		return "missing"
	}
	return ""
}

func c09R4bRun(f []string) (string, bool) {
	switch f[0] {
	case "serr":
		if len(f) != 3 {
			return "bad-args", true
		}
		compiled, errs := c09Builder(f[1] == "1").Compile(string(UnHex(f[2])))
		if compiled == nil {
			return "nil-compiled", true
		}
		parts := []string{}
		if errs != nil {
			for _, e := range errs.Errors {
				if k := c09SynKind(e); k != "" {
					parts = append(parts, fmt.Sprintf("%s@%d:%s", k, e.Index, HexS(e.Context)))
				}
			}
		}
		if len(parts) == 0 {
			return "ok .", true
		}
		return "ok " + strings.Join(parts, ","), true
	case "kbapi":
		if len(f) != 3 {
			return "bad-args", true
		}
		kb := expressions.NewKeyBuilder()
		m := map[string]expressions.KeyBuilderFunction{}
		for _, n := range c09ProbeNames {
			m[n] = c09Probe(n)
		}
		kb.Funcs(m)
		name := string(UnHex(f[1]))
		has := 0
		if kb.HasFunc(name) {
			has = 1
		}
		compiled, errs := kb.Compile(string(UnHex(f[2])))
		if compiled == nil {
			return "nil-compiled", true
		}
		un := []string{}
		if errs != nil {
			for _, e := range errs.Errors {
				u := e.Unwrap()
				switch u {
				case expressions.ErrorUnterminated:
					un = append(un, "unterminated")
				case expressions.ErrorEmptyStatement:
					un = append(un, "empty")
				case expressions.ErrorMissingFunction:
					un = append(un, "missing")
				default:
					un = append(un, "other")
				}
			}
		}
		us := "."
		if len(un) > 0 {
			us = strings.Join(un, ",")
		}
		return fmt.Sprintf("ok has=%d n=%d unwrap=%s", has, compiled.StageCount(), us), true
	}
	return "", false
}

func c09R4bGen(r *Rand, tier string) []string {
	var out []string
	serr := func(o, t string) { out = append(out, fmt.Sprintf("serr %s %s", o, HexS(t))) }
	api := func(n, t string) { out = append(out, fmt.Sprintf("kbapi %s %s", HexS(n), HexS(t))) }
	// positions: several statements, nested levels (the inherited index is inner index + start of the enclosing
	// top-level statement), escapes before/inside statements (indices count runes of the raw text), multi-byte
	// runes and invalid bytes (one rune each), `}` outside statements, open statement after closed ones
	fixed := []string{"", "abc", "{}", "ab{}", "ab{}cd{}", "ab{f x {}}", "ab{f x {} {}}", "ab{f {} x}", "ab{f xx {f yyy {}}}", "ab{f xx {f yyy {nofn 1}}}c{}",
		"{f {}}{f {}}", "xy{f {}}z{f {}}", "{f \"{}\"}", "{f \"{} {}\"}", "{f \" {}\"}", "{f \"ab{}\"}", "{f \"ab{nofn x}cd{\"}", "{f {f {f {f {}}}}}", "a{f b{f c{f d{}}}}",
		"\\{{}", "\\\\{}", "a\\nb{}", "{nofn a\\{b}", "{nofn a\\}b}", "{nofn \\\"a b\\\"}", "{f \\{}", "{f a\\ b}", "{f {nofn a\\\\ b}}", "{\\}", "{\\", "\\", "{a\\",
		"é{}", "éé{f é {}}", "😀{nofn 😀}", "\xff{}", "\xff\xfe{f \xff {}}", "{nofn \xff\xfe}", "}{}", "}}{", "a}b{c", "{a}}{}", "{}}{}{", "{f x}{", "{f {}}{", "{f {}{", "{f {} {",
		"{nofn {} {}}", "{nofn {", "{f {nofn {}}}", "{f {nofn {}} {}}", "{bad {}}", "{nil {}}", "{bad {nofn x} {}}", "{f {bad {}} {nil {nofn y}}}", "{f \"\" {}}", "{f \"\"}", "{\"\" x}",
		"{ }", "{\t}", "{ }", "{　 }", "{ f  x  {}  }", "{\nf\nx\n{ }\n}", "{f {1} {}}", "{f {k} {{}}}", "{{}}", "{{} }", "{{} {}}", "{f {{}} x}",
		"{f x", "{f {x}", "{f {x", "ab{f {x", "{{{", "{}{}{", "{f \"}\"}", "{f \"{\"}", "{f \"}\" {}}", "{f }} x}", "{f x}}", "{f \"a\\\"b\" {}}"}
	for _, t := range fixed {
		serr("0", t)
		serr("1", t)
	}
	for _, n := range append(append([]string{}, c09ProbeNames...), "bad", "nil", "", "nofn", "A", "f ", "cat\x00") {
		api(n, Pick(r, fixed))
	}
	n := 500
	if tier == "thorough" {
		n = 8000
	}
	for i := 0; i < n; i++ {
		_, printed := c09TreeCase(r)
		m := c09Mutate(r, printed)
		serr(c09Opt(r), m)
		serr(c09Opt(r), c09Escape(c09LitText(r))+m+c09Plain(r)+c09Mutate(r, printed))
		if r.Chance(1, 2) {
			serr(c09Opt(r), c09G{r: r, broken: true}.template(r.Intn(4)))
		}
		if r.Chance(1, 2) {
			serr(c09Opt(r), c09Corrupt(r, m))
		}
		// several broken statements next to and inside each other
		var sb strings.Builder
		for k := r.Range(1, 5); k > 0; k-- {
			sb.WriteString(Pick(r, []string{"", "a", "é", "\\{", "\\\\", "}", " ", "😀"}))
			inner := Pick(r, []string{"{}", "{ }", "{nofn x}", "{f {}}", "{f x {nofn y}}", "{f \"{}\"}", "{f \" {\"}", "{k}", "{0}", "{f {f {}} {}}", "{bad {}}", "{nil 1}", "{"})
			if r.Chance(1, 3) {
				inner = "{f " + Pick(r, []string{"x ", "\"\" ", "{1} ", ""}) + inner + Pick(r, []string{"", " y", " {}"}) + "}"
			}
			sb.WriteString(inner)
		}
		serr(c09Opt(r), sb.String())
		if r.Chance(1, 5) {
			api(Pick(r, []string{"a", "f", "nofn", "é+", "-", ""}), m)
		}
	}
	return out
}
