//go:build c03

package main

// Correspondence for C03, `rare reduce` end to end IN PROCESS: the real command (cmd.GetSupportedCommands) is run
// through urfave/cli on a generated log file – real batcher, real extractor (regexp), real AccumulatingGroup, real
// render callback into a BufferedTerm, real csv.WriteAccumulator, real DetermineErrorState – and compared with the
// Lean model `Rare.C03.reduceRun` (Model/C03Reduce.lean).
//
//	reduce <flags> <initial> <sort> <groups> <accums> <nomatch> <elements>
//
// flags: bit 0 = --table, bit 1 = --sort-reverse, bit 2 = pass --initial; <sort> hex template (`-` = no --sort);
// groups/accums: hex lists of `[name[:initial]=]expr` arguments; nomatch: number of lines that do not match;
// elements: hex list of `p1 NUL p2 NUL p3` (the {@} of a matching line `p1|p2|p3`).
// Answer: `ok <exit> <csv hex> <snapshot hex>`; the snapshot text is compared with runs of spaces squashed (the
// table layout is C14's business, and column widths remember intermediate renders: finding F25), the byte/rate
// status line is dropped.  One worker and one reader: the generated accumulators include order-sensitive ones.

import (
	"bytes"
	"fmt"
	"io"
	"os"
	"path/filepath"
	"strconv"
	"strings"

	"rare/cmd"
	"rare/pkg/color"
	"rare/pkg/humanize"
	"rare/pkg/logger"

	"github.com/urfave/cli/v2"
)

type c03Exit struct{ code int }

var c03Dir string

func c03TempDir() string {
	if c03Dir == "" {
		d, err := os.MkdirTemp("", "c03corr")
		if err != nil {
			panic(err)
		}
		c03Dir = d
	}
	return c03Dir
}

// c03Squash: every run of spaces becomes one space, trailing spaces go.
func c03Squash(s string) string {
	lines := strings.Split(s, "\n")
	for i, l := range lines {
		lines[i] = strings.Join(strings.FieldsFunc(l, func(r rune) bool { return r == ' ' }), " ")
	}
	return strings.Join(lines, "\n")
}

// c03RunCLI runs `rare --nocolor --noformat <args>` in process; returns exit code, captured stdout.
func c03RunCLI(args []string) (code int, stdout string, fatal bool) {
	color.Enabled = false
	humanize.Enabled = false
	oldExit := logger.OsExit
	logger.OsExit = func(c int) { panic(c03Exit{c}) }
	oldOut := os.Stdout
	r, w, err := os.Pipe()
	if err != nil {
		panic(err)
	}
	os.Stdout = w
	done := make(chan string)
	go func() {
		var b bytes.Buffer
		io.Copy(&b, r)
		done <- b.String()
	}()
	restore := func() {
		w.Close()
		os.Stdout = oldOut
		stdout = <-done
		r.Close()
		logger.OsExit = oldExit
		humanize.Enabled = true
	}
	defer func() {
		if e := recover(); e != nil {
			restore()
			if ex, ok := e.(c03Exit); ok {
				code, fatal = ex.code, true
				return
			}
			panic(e)
		}
	}()
	app := cli.NewApp()
	app.Commands = cmd.GetSupportedCommands()
	app.ExitErrHandler = func(c *cli.Context, err error) {}
	app.Writer = io.Discard
	app.ErrWriter = io.Discard
	err = app.Run(append([]string{"rare"}, args...))
	restore()
	if err == nil {
		return 0, stdout, false
	}
	if ec, ok := err.(cli.ExitCoder); ok {
		return ec.ExitCode(), stdout, false
	}
	return -1, stdout + "\nERR " + err.Error(), false
}

const c03Match = `^([^|]*)\|([^|]*)\|(.*)$`

func c03ReduceRun(f []string) string {
	return c03ReduceRunEx(f, nil, [][]string{UnHexListS(f[7])})
}

// reducec <W,R,B,K> <flags> <initial> <sort> <groups> <accums> <nomatch> <files>: the same command on 1-4 files with FREE
// --workers/--readers/--batch/--batch-buffer; the generated accumulators are order-insensitive ones (the class of
// reduce_commutative_accumulators), so every schedule has to land on the sequential reference of the concatenated elements.
func c03ReduceCRun(f []string) string {
	tune := strings.Split(f[1], ",")
	if len(tune) != 4 {
		return "bad-args"
	}
	return c03ReduceRunEx(f[1:], tune, c03DecRows(f[8]))
}

func c03ReduceRunEx(f []string, tune []string, files [][]string) string {
	flags, _ := strconv.Atoi(f[1])
	initial := string(UnHex(f[2]))
	groups := UnHexListS(f[4])
	accums := UnHexListS(f[5])
	nomatch, _ := strconv.Atoi(f[6])
	dir := c03TempDir()
	old, _ := filepath.Glob(filepath.Join(dir, "in*.log"))
	for _, o := range old {
		os.Remove(o)
	}
	out := filepath.Join(dir, "out.csv")
	var paths []string
	total := 0
	for i, elements := range files {
		var sb strings.Builder
		if i == 0 {
			for j := 0; j < nomatch; j++ {
				sb.WriteString("no bars here\n")
			}
		}
		for _, e := range elements {
			sb.WriteString(strings.ReplaceAll(e, "\x00", "|"))
			sb.WriteByte('\n')
		}
		total += len(elements)
		in := filepath.Join(dir, fmt.Sprintf("in%d.log", i))
		if err := os.WriteFile(in, []byte(sb.String()), 0o644); err != nil {
			return "err " + err.Error()
		}
		paths = append(paths, in)
	}
	os.Remove(out)
	args := []string{"reduce", "-m", c03Match, "--snapshot", "--csv", out}
	if tune == nil {
		args = append(args, "--workers", "1", "--readers", "1", "--batch", strconv.Itoa(1+total%3))
	} else {
		args = append(args, "--workers", tune[0], "--readers", tune[1], "--batch", tune[2], "--batch-buffer", tune[3])
	}
	for _, g := range groups {
		args = append(args, "-g", g)
	}
	for _, a := range accums {
		args = append(args, "-a", a)
	}
	if flags&1 != 0 {
		args = append(args, "--table")
	}
	if flags&2 != 0 {
		args = append(args, "--sort-reverse")
	}
	if flags&4 != 0 {
		args = append(args, "--initial", initial)
	}
	if f[3] != "-" {
		args = append(args, "--sort", string(UnHex(f[3])))
	}
	args = append(args, paths...)
	code, stdout, fatal := c03RunCLI(args)
	if fatal {
		return fmt.Sprintf("fatal %d", code)
	}
	csvText, _ := os.ReadFile(out)
	lines := strings.Split(strings.TrimRight(stdout, "\n"), "\n")
	if len(lines) > 0 { // the batcher's byte / rate status
		lines = lines[:len(lines)-1]
	}
	return fmt.Sprintf("ok %d %s %s", code, Hex(csvText), HexS(c03Squash(strings.Join(lines, "\n"))))
}

// ---------------------------------------------------------------- generator

func c03Part(r *Rand) string {
	switch r.Intn(12) {
	case 0:
		return ""
	case 1:
		return Pick(r, []string{"x", "abc", "1.5", "+", "-", "é", "日本", "a b", " ", ",", "\"", "a,b", "\"q\"", "\\.", "\r", "mon", "fri"})
	case 2:
		return Pick(r, []string{"9223372036854775807", "-9223372036854775808", "9223372036854775808", "007", "+5", "-0"})
	case 3, 4, 5:
		return Pick(r, []string{"a", "b", "c", "k1", "k2"})
	default:
		return strconv.Itoa(r.Range(-20, 120))
	}
}

var c03AccExprs = []string{"{sumi {.} {3}}", "{sumi {.} 1}", "{maxi {.} {3}}", "{mini {.} {2}}", "{2}", "{.}{3}.", "{sumi {.} {n}}",
	"{multi {.} 2}", "{3}", "{0}", "{@}", "{.}", "x", "{subi {.} {3}}", "{sumi {3} {.}}", "{if {eq {2} a} {sumi {.} 1} {.}}", "{.}-", "{maxi {.} {2}}", "{sumi {.} {3}}"}

func c03ReduceCase(r *Rand) string {
	flags := 0
	if r.Chance(1, 4) {
		flags |= 1
	}
	if r.Chance(1, 4) {
		flags |= 2
	}
	initial := "0"
	if r.Chance(1, 4) {
		flags |= 4
		initial = Pick(r, []string{"", "5", "-3", "x", "10"})
	}
	sortT := "-"
	if r.Chance(1, 3) {
		sortT = HexS(Pick(r, []string{"{n}", "{0}", "{1}", "{.}", "{t}", "{nosuch}", "{sumi {n} {0}}", "{2}"}))
	}
	ng := Pick(r, []int{0, 0, 1, 1, 1, 2, 3})
	var groups []string
	for i := 0; i < ng; i++ {
		e := Pick(r, []string{"{1}", "{2}", "{1}", "{3}", "{1}-{2}", "{0}", "k"})
		switch r.Intn(4) {
		case 0:
			groups = append(groups, e)
		case 1:
			groups = append(groups, "=" + e)
		default:
			if r.Chance(1, 6) {
				groups = append(groups, fmt.Sprintf("g%d=%s", r.Intn(2), e)) // sometimes a duplicate name: Fatalf
			} else {
				groups = append(groups, fmt.Sprintf("g%d=%s", i, e))
			}
		}
	}
	na := r.Range(0, 4)
	var accums []string
	names := []string{"n", "t", "mx", "last", "n", "a=b", ""}
	for i := 0; i < na; i++ {
		e := Pick(r, c03AccExprs)
		name := Pick(r, names)
		if !r.Chance(1, 8) && name != "" { // mostly distinct names; a duplicate is a Fatalf
			name += strconv.Itoa(i)
		}
		switch r.Intn(5) {
		case 0:
			accums = append(accums, e)
		case 1:
			accums = append(accums, name+":"+Pick(r, []string{"", "0", "7", "-1", "z"})+"="+e)
		default:
			accums = append(accums, name+"="+e)
		}
	}
	if r.Chance(1, 25) {
		accums = append(accums, "bad={sumi {.}") // does not compile: Fatalf, exit status 2
	}
	n := r.Intn(10)
	if r.Chance(1, 8) {
		n = r.Range(10, 40)
	}
	keys := []string{c03Part(r), c03Part(r), "a", "b"}
	els := make([]string, n)
	for i := range els {
		p1 := Pick(r, keys)
		p3 := strings.ReplaceAll(c03Part(r), "|", "/")
		if strings.HasSuffix(p3, "\r") { // a CR at the end of the line belongs to the line terminator (C04)
			p3 += "."
		}
		els[i] = strings.ReplaceAll(p1, "|", "/") + "\x00" + strings.ReplaceAll(c03Part(r), "|", "/") + "\x00" + p3
	}
	nomatch := 0
	if r.Chance(1, 3) {
		nomatch = r.Range(1, 3)
	}
	return fmt.Sprintf("reduce %d %s %s %s %s %d %s", flags, HexS(initial), sortT, HexListS(groups), HexListS(accums), nomatch, HexListS(els))
}

// order-insensitive accumulators over integer parts: sums, counts, extrema, repeated subtraction / doubling
var c03CommExprs = []string{"{sumi {.} {3}}", "{sumi {.} 1}", "{maxi {.} {3}}", "{mini {.} {3}}", "{subi {.} {3}}", "{multi {.} 2}",
	"{sumi {.} {2}}", "{maxi {.} {2}}", "{sumi {3} {.}}", "{.}", "x"}

// order-sensitive accumulators: the last value, concatenations, a difference that depends on the order, a conditional on the
// previous state
var c03OrdExprs = []string{"{2}", "{3}", "{.}{3}.", "{.}-", "{subi {3} {.}}", "{if {eq {.} 0} {2} {.}}", "{sumi {multi {.} 2} {3}}", "{1}:{2}"}

func c03ReduceCCase(r *Rand) string {
	flags := 0
	if r.Chance(1, 4) {
		flags |= 1
	}
	if r.Chance(1, 4) {
		flags |= 2
	}
	initial := "0"
	if r.Chance(1, 4) {
		flags |= 4
		initial = Pick(r, []string{"5", "-3", "10", "9223372036854775807"})
	}
	sortT := "-"
	if r.Chance(1, 3) {
		sortT = HexS(Pick(r, []string{"{n0}", "{0}", "{1}", "{t1}", "{nosuch}", "{sumi {n0} {0}}"}))
	}
	ng := Pick(r, []int{0, 1, 1, 1, 2})
	var groups []string
	for i := 0; i < ng; i++ {
		groups = append(groups, fmt.Sprintf("g%d=%s", i, Pick(r, []string{"{1}", "{1}", "{1}-x", "{0}", "k"})))
	}
	na := r.Range(1, 4)
	var accums []string
	names := []string{"n", "t", "mx", "mn"}
	for i := 0; i < na; i++ {
		name := Pick(r, names) + strconv.Itoa(i)
		if r.Chance(1, 4) {
			name += ":" + Pick(r, []string{"0", "7", "-1", "100"})
		}
		accums = append(accums, name+"="+Pick(r, c03CommExprs))
	}
	// every fourth case: order-SENSITIVE accumulators (last value, concatenation, first-wins conditionals) with ONE reader and
	// ONE worker over the several files - the batches then reach the aggregator in argument order, line by line (FIFO), whatever
	// --batch / --batch-buffer: the reference is the sequential run over the files concatenated in argument order
	ordered := r.Chance(1, 4)
	if ordered {
		accums = accums[:0]
		for i := 0; i < na; i++ {
			accums = append(accums, Pick(r, names)+strconv.Itoa(i)+"="+Pick(r, c03OrdExprs))
		}
	}
	n := r.Intn(12)
	if r.Chance(1, 6) {
		n = r.Range(12, 80)
	}
	keys := []string{"a", "b", "c", "k1", "", "é", "a b", "10", "9"}[:r.Range(1, 9)]
	ints := func() string {
		if r.Chance(1, 10) {
			return Pick(r, []string{"9223372036854775807", "-9223372036854775808", "0", "-0", "007", "+5"})
		}
		return strconv.Itoa(r.Range(-20, 120))
	}
	els := make([]string, n)
	for i := range els {
		els[i] = Pick(r, keys) + "\x00" + ints() + "\x00" + ints()
	}
	nf := Pick(r, []int{1, 2, 2, 3, 4})
	files := make([][]string, nf)
	for i := range files {
		files[i] = []string{}
	}
	for i, e := range els {
		k := r.Intn(nf)
		if r.Chance(1, 2) {
			k = i * nf / (len(els) + 1)
		}
		files[k] = append(files[k], e)
	}
	nomatch := 0
	if r.Chance(1, 3) {
		nomatch = r.Range(1, 3)
	}
	tune := fmt.Sprintf("%d,%d,%d,%d", Pick(r, []int{1, 2, 3, 4}), Pick(r, []int{1, 2, 3}), Pick(r, []int{1, 1, 2, 3, 7, 1000}), Pick(r, []int{0, 1, 2, 1000}))
	if ordered {
		tune = fmt.Sprintf("1,1,%d,%d", Pick(r, []int{1, 1, 2, 3, 7, 1000}), Pick(r, []int{0, 1, 2, 1000}))
	}
	return fmt.Sprintf("reducec %s %d %s %s %s %s %d %s", tune, flags, HexS(initial), sortT, HexListS(groups), HexListS(accums), nomatch, c03EncFiles(files))
}

func c03ReduceStats(f []string, st map[string]int) {
	st["op.reduce"]++
	flags, _ := strconv.Atoi(f[1])
	if flags&1 != 0 {
		st["reduce.table"]++
	}
	if flags&2 != 0 {
		st["reduce.sortReverse"]++
	}
	if f[3] != "-" {
		st["reduce.sortExpr"]++
	}
	st[fmt.Sprintf("reduce.groups.%d", len(UnHexListS(f[4])))]++
	st["reduce.samples"] += len(UnHexListS(f[7]))
	if len(UnHexListS(f[7])) == 0 {
		st["reduce.noSamples"]++
	}
}

var c03ReduceCorpus = []string{
	// one reader, one worker, three files, last={2} and a concatenation: argument order (a: 5,9,-2 -> last -2, `5.9.-2.`)
	"reducec 1,1,2,1 0 30 - 67303d7b317d 6c6173743d7b327d;633d7b2e7d7b327d2e 1 6100350031;6200370031|6100390031|61002d320031;6200310031",
	// three files, four workers, two readers: sum / max / count per key = the sequential reference
	"reducec 4,2,1,0 0 30 - 67303d7b317d 74303d7b73756d69207b2e7d207b337d7d;6d78313d7b6d617869207b2e7d207b337d7d;6e323d7b73756d69207b2e7d20317d 1 6100310035;6200310037|6100310039;610031002d32|6200310031",
	// no group, no accumulator: no columns at all (the guard of reduce_csv_roundtrip)
	"reduce 0 30 - . . 0 6100780031",
	// the empty group key after a named one (6a022dd), equal sort keys (f1f38db)
	"reduce 0 30 7b6e7d 6b3d7b317d 6e3d7b73756d69207b2e7d20317d 0 6100780031;0078003100;6200780031",
	// a group value with more parts than group columns ({0} of {@}): 73473fc
	"reduce 1 30 - 7b307d 6e3d7b73756d69207b2e7d20317d 1 6100620031;6100630032",
}
