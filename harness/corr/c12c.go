//go:build c12

package main

// Round 4b op of C12: the quantifier "forall sequences of lines matched by ONE instance".
//
//	hist <ic> <pattern> <lines>
//
// One instance matches the whole history (results kept without copying, rendered after the last call,
// exactly like `dissect`).  On the Go side the SAME history is also run
//   - by a second instance that is handed every line in ONE re-used buffer (as a reader that recycles
//     its read buffer does; FindSubmatchIndex casts the slice to a string without copying), and
//   - line by line on a FRESH instance each,
// and all three must agree: the answer for a line is a function of the pattern and the line alone
// (`history_independent` in Props/C12.lean).  A disagreement is reported with the line number, so a
// failing case names the step of the history at which the instance's past leaked into its answer.
//
// The generator builds histories in which later lines keep the LAYOUT of an earlier line (same length,
// every literal at the same column) but carry an extra, EARLIER occurrence of one literal ("decoy"):
// whatever an instance might remember about earlier lines (a column, an offset between delimiters, a
// whole result) is then valid evidence for a wrong answer.

import (
	"bytes"
	"fmt"
	"strconv"
	"strings"

	"rare/pkg/matchers/dissect"
)

func c12Hist(ic bool, pat string, lines [][]byte) string {
	single := c12Match(ic, pat, lines, 1)
	if !strings.HasPrefix(single, "ok") || strings.Contains(single, " a=0 ") {
		// compile error – or a returned slice changed after its return (a recycled pool slice): that
		// is the pool clause, reported by the plain answer, not a dependence on history
		return single
	}
	want := []string{}
	if rs := single[strings.Index(single, " r=")+3:]; rs != "." {
		want = strings.Split(rs, "|")
	}
	d, _ := dissect.CompileEx(pat, ic)
	max := 0
	for _, l := range lines {
		if len(l) > max {
			max = len(l)
		}
	}
	buf := make([]byte, max)
	reused := d.CreateInstance()
	for i, l := range lines {
		fresh := c12Ints(d.CreateInstance().FindSubmatchIndex(l))
		if fresh != want[i] {
			return fmt.Sprintf("impl-history-dependent line=%d fresh-instance=%s same-instance=%s", i, fresh, want[i])
		}
		for j := range buf {
			buf[j] = 0
		}
		copy(buf, l)
		if got := c12Ints(reused.FindSubmatchIndex(buf[:len(l)])); got != want[i] {
			return fmt.Sprintf("impl-buffer-dependent line=%d reused-buffer=%s own-slice=%s", i, got, want[i])
		}
	}
	return single
}

func c12RunHist(f []string) (string, bool) {
	if res, ok := c12RunLazy(f); ok {
		return res, true
	}
	if f[0] == "hist" {
		return c12safe(func() string { return c12Hist(f[1] == "1", string(UnHex(f[2])), UnHexList(f[3])) }), true
	}
	return "", false
}

var c12HistLits = []string{"=", ";", " ", "id=", "a", "ab", "aa", "aba", "b", ":", "A", "k=", "é", "--", "] ", "Ab", "%", "=="}

// one laid-out line: `lead pre v1 lit1 v2 lit2 …`; cols[t] = column of literal t (0 = the prefix)
func c12HistLayout(r *Rand, p c12Pat, noisy bool) ([]byte, []int) {
	val := func(max int) []byte {
		n := r.Intn(max + 1)
		b := make([]byte, n)
		for i := range b {
			if noisy && r.Chance(1, 5) {
				b[i] = Pick(r, []byte("=;a bA:"))
			} else {
				b[i] = Pick(r, []byte("xyz019_XY"))
			}
		}
		return b
	}
	var line []byte
	var cols []int
	if r.Chance(3, 4) {
		line = append(line, val(10)...)
	}
	if r.Chance(1, 8) {
		// longer than bytealg.MaxBruteForce: the real strings.Index takes its IndexByte-skip loop (and,
		// with a noisy lead, the cut-over to the assembly routine) instead of the brute-force arm
		line = append(line, val(60+r.Intn(120))...)
	}
	cols = append(cols, len(line))
	line = append(line, p.pre...)
	for i := range p.keys {
		line = append(line, val(8)...)
		cols = append(cols, len(line))
		line = append(line, p.lits[i]...)
	}
	if r.Chance(1, 3) {
		line = append(line, val(4)...)
	}
	return line, cols
}

func c12GenHist(r *Rand) string {
	var p c12Pat
	if r.Chance(5, 6) {
		p.pre = Pick(r, c12HistLits)
		if r.Chance(1, 5) {
			p.pre += Pick(r, c12HistLits)
		}
	}
	nt := 1 + r.Intn(3)
	if p.pre != "" && r.Chance(1, 8) {
		nt = 0
	}
	for i := 0; i < nt; i++ {
		p.keys = append(p.keys, Pick(r, []string{"x" + strconv.Itoa(i), "x" + strconv.Itoa(i), "", "?s"}))
		lit := Pick(r, c12HistLits)
		if i == nt-1 && r.Chance(1, 3) {
			lit = ""
		}
		p.lits = append(p.lits, lit)
	}
	p.pre = strings.ReplaceAll(p.pre, "%{", "%")
	ic := r.Bool()
	noisy := r.Chance(1, 4)
	lits := append([]string{p.pre}, p.lits...)
	base, cols := c12HistLayout(r, p, noisy)
	lines := [][]byte{base}
	nvar := 1 + r.Intn(5)
	for v := 0; v < nvar; v++ {
		if r.Chance(1, 5) {
			base, cols = c12HistLayout(r, p, noisy) // a new layout: whatever was remembered is stale now
			lines = append(lines, base)
		}
		b := append([]byte{}, base...)
		t := r.Intn(len(cols))
		if p.pre != "" && r.Bool() {
			t = 0
		}
		lit, c := lits[t], cols[t]
		if lit != "" && c > 0 {
			d := r.Intn(c)
			if d+len(lit) > c && c >= len(lit) && r.Chance(3, 4) {
				d = r.Intn(c - len(lit) + 1) // decoy entirely before the occurrence that stays at column c
			}
			copy(b[d:], lit)
		}
		if ic && r.Bool() {
			b = []byte(c12FlipCase(r, string(b)))
		}
		lines = append(lines, b)
		switch {
		case r.Chance(1, 3):
			lines = append(lines, base)
		case r.Chance(1, 8):
			lines = append(lines, b[:r.Intn(len(b)+1)]) // shorter than the remembered column
		case r.Chance(1, 10):
			lines = append(lines, nil)
		}
	}
	if r.Chance(1, 6) {
		for i := len(lines) - 1; i > 0; i-- {
			j := r.Intn(i + 1)
			lines[i], lines[j] = lines[j], lines[i]
		}
	}
	icS := "0"
	if ic {
		icS = "1"
	}
	return fmt.Sprintf("hist %s %s %s", icS, HexS(p.render()), HexList(lines))
}

func c12GenHistAll(r *Rand, tier string) []string {
	n := 600
	if tier == "thorough" {
		n = 15000
	}
	var out []string
	for i := 0; i < n; i++ {
		out = append(out, c12GenHist(r))
	}
	out = append(out, c12GenLazy(r, tier)...)
	if tier == "thorough" {
		// exhaustive: every ordered PAIR of lines over {a,b,=} up to length 5 for three small patterns:
		// the second line is matched by an instance that has seen exactly the first
		var all [][]byte
		var rec func(cur []byte)
		rec = func(cur []byte) {
			all = append(all, append([]byte{}, cur...))
			if len(cur) < 5 {
				for _, c := range []byte{'a', 'b', '='} {
					rec(append(cur, c))
				}
			}
		}
		rec(nil)
		for _, pt := range []string{"a=%{x}b", "ab%{x}=", "b%{x}a%{y}"} {
			for i, l1 := range all {
				// all second lines for one first line in ONE case would let the instance's memory move on;
				// instead alternate first, second_k, first, second_k+1 … in chunks
				if i%7 != 0 {
					continue
				}
				var seq [][]byte
				for k, l2 := range all {
					seq = append(seq, l1, l2)
					if len(seq) >= 60 || k == len(all)-1 {
						out = append(out, fmt.Sprintf("hist 0 %s %s", HexS(pt), HexList(seq)))
						seq = nil
					}
				}
			}
		}
	}
	return out
}

// does line i have the (folded) prefix at the column where line i-1's match started, although its own
// match starts earlier?  (the trigger of a "probe the previous column first" shortcut)
func c12StatsHist(f []string, st map[string]int) bool {
	if c12StatsLazy(f, st) {
		return true
	}
	if f[0] != "hist" {
		return false
	}
	st["op.hist"]++
	ic := f[1] == "1"
	pat := string(UnHex(f[2]))
	lines := UnHexList(f[3])
	st["hist.lines"] += len(lines)
	d, err := dissect.CompileEx(pat, ic)
	if err != nil {
		st["hist.compileError"]++
		return true
	}
	pre := pat
	if k := strings.Index(pat, "%{"); k >= 0 {
		pre = pat[:k]
	}
	fold := func(b []byte) []byte {
		if ic {
			return bytes.ToLower(b)
		}
		return b
	}
	prev := -1
	trig, changed := false, false
	seen := map[string]string{}
	for _, l := range lines {
		r := d.CreateInstance().FindSubmatchIndex(l)
		key := strconv.Itoa(len(l))
		if r == nil {
			st["hist.unmatched"]++
		} else {
			st["hist.matched"]++
			if prev > 0 && r[0] < prev && prev+len(pre) <= len(l) && bytes.Equal(fold(l[prev:prev+len(pre)]), fold([]byte(pre))) {
				trig = true
			}
			prev = r[0]
		}
		// two lines of the same length with different answers (same layout, different result)
		if old, ok := seen[key]; ok && old != c12Ints(r) {
			changed = true
		}
		seen[key] = c12Ints(r)
	}
	if trig {
		st["hist.earlierPrefixAtPreviousColumn"]++
	}
	if changed {
		st["hist.sameLengthDifferentAnswer"]++
	}
	return true
}

func c12CorpusHist() []string {
	h := func(ic int, pat string, lines ...string) string {
		return fmt.Sprintf("hist %d %s %s", ic, HexS(pat), HexListS(lines))
	}
	return append(c12CorpusLazy(), []string{
		// the prefix found at column 5, then a line with the prefix at column 0 AND at column 5
		h(0, "id=%{v};", "xxxxxid=1;", "id=2;id=3;"),
		h(1, "ID=%{v};", "xxxxxid=1;", "Id=2;iD=3;", "xxxxxID=4;", "id=5;Id=6;"),
		// a later start turns a match into a non-match: the delimiter only precedes the later occurrence
		h(0, "a%{v}b", "..a1b", "aba"),
		// the same for a delimiter column
		h(0, "%{k}=%{v};", "key=1;", "k=y=1;", "key=1;", "=ey=1;"),
		h(0, "[%{t}] %{m}", "xx[12] a", "[][12] a", "", "xx[12] a", "[x[12] a"),
		// ignore-case: the FIRST occurrence in any case, not the first in the pattern's case
		fmt.Sprintf("dissect 1 %s %s 1", HexS("user=%{u} msg=%{m}"), HexListS([]string{"USER=bob MSG=hello user=x msg=y"})),
		h(1, "user=%{u} msg=%{m}", "user=a msg=b", "USER=bob MSG=hello user=x msg=y", "user=a msg=b"),
	}...)
}
