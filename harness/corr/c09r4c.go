//go:build c09 || c08 || c10

package main

import (
	"fmt"
	"strings"

	"rare/pkg/expressions/funclib"
)

// Round 4c of C09: the WORLD-RELATIVE fragment (Lean: Rare/Spec/C09FragW.lean, theorem
// print_compile_std_fragment_world).
//
//	wtree  <opt> <tokens> <elems> <keys>   a (tree, style) over the 65 value-level names AND `format`, the binders
//	                                       `@map @filter @reduce @for`, `duration durationformat timeformat timeattr`
//	                                       (UTC) that the generator believes to be in the widened fragment.  Real side:
//	                                       the harness's print compiled and evaluated with the real function table.
//	                                       Model side: the SPEC's print compiled with the model registry of the world,
//	                                       `fragOkW` checked, value compared with the tree semantics WITH BINDERS `evalW`
//	                                       (a body's `{0}` / `{1}` are the element / accumulator of the enclosing helper).
//	aerr  <opt> <template>                 EVERY error Compile records with the probe registry (`bad` / `nil` are builders
//	                                       that fail), kind@index:context in order.  Model side: no compile – the declarative
//	                                       list `allErrs` under the arity signature `testSig` (theorem all_errors_exact_arity).
//	aerrs <opt> <template>                 the same with the REAL standard function table, templates over the 33 names whose
//	                                       builders fail on the argument count only (`arityNames`); other names: `unmodelled`.
//	wtreex <opt> <tokens> <elems> <keys>   the same for trees that break the side conditions (non-literal initial value,
//	                                       named zones, non-ASCII layouts, wrong arities): compile + evaluate only.

var c09Formats = []string{"%s", "%5s|%-5s|", "%q", "%x", "%X", "%v %v", "%[2]s %[1]s", "%d", "%.2s", "%05s", "%%", "%", "%!", "%*s",
	"%T", "% x", "%#q", "%+q", "%s %s %s", "no verbs", "%[3]s", "%-08q", "%.1q", "é%3sé", "%#x", "%# X", "%.3x", "%6.2q|", "%[1]s%[1]s",
	"%s%", "%[x]s", "%[0]s", "%-5%|", "%c", "%3c|", "%.0s|", "%10.3s|", "%U", "%e", "%t", "%08.3s"}
var c09Durations = []string{"1h30m", "90s", "1.5h", "-2m", "abc", "", "1d", "100ms", "1h2m3s4ms", "0", "1h", "+5s", "2562047h", "9999999h", ".5m",
	"1us", "1µs", "3600", "1 h"}
var c09Seconds = []string{"0", "59", "60", "3600", "3661", "86400", "-5", "abc", "", "9223372036", "9223372037", "-9223372036", "1000000",
	"9223372036854775807", "1.5"}
var c09Unix = []string{"0", "1", "-1", "1000000000", "1700000000", "1709210096", "951782400", "253402300799", "-62135596800", "abc", "",
	"1.5", "9223372036854775807", "-9223372036854775808", "4102444800", "1234567890", "68256000", "-86401"}
var c09Layouts = []string{"RFC3339", "rfc3339", "ANSIC", "DAY", "hour", "MNTH", "2006-01-02", "15:04:05.000", "Jan _2", "Monday", "", "Z07:00 MST",
	"RFC1123", "unix", "UNIXDATE", "kitchen", "year", "month", "MINUTE", "second", "2006-002", "Mon Jan 2 3:04PM", "06/1/2 03h", "-0700 Z0700", "x"}
var c09Attrs = []string{"weekday", "WEEK", "YearWeek", "quarter", "Quarter", "week"}
var c09UtcNames = []string{"", "utc", "UTC", "Utc", "uTc"}

type c09WGen struct {
	g *c09FragGen
}

func (w c09WGen) node(name string) *c09Node {
	return &c09Node{kind: 'C', text: name, lead: w.g.ws(0), trail: w.g.ws(0)}
}

func (w c09WGen) add(t *c09Node, k *c09Node) {
	t.seps = append(t.seps, w.g.ws(1))
	t.kids = append(t.kids, k)
}

// a value: an ordinary fragment tree, or (depth permitting) a widened call
func (w c09WGen) val(depth int) *c09Node {
	if depth > 0 && w.g.r.Chance(1, 3) {
		return w.call(depth)
	}
	return w.g.arg(fkV, depth)
}

// an array-valued expression
func (w c09WGen) arr(depth int) *c09Node {
	r := w.g.r
	switch k := r.Intn(8); {
	case k < 2:
		return w.g.leafDyn()
	case k < 4:
		t := w.node("@split")
		w.add(t, w.val(depth-1))
		w.add(t, w.g.lit(Pick(r, c09FragDelims)))
		return t
	case k < 5:
		t := w.node("@")
		for i, n := 0, 1+r.Intn(4); i < n; i++ {
			w.add(t, w.val(depth-1))
		}
		return t
	case k < 6 && depth > 0:
		return w.call(depth)
	}
	return w.g.lit(Pick(r, []string{"", "a", "1", "x y z", "3 1 2"}))
}

// a bounded loop condition for `@for`: `{1}` (the round) below a small constant, and whatever else
func (w c09WGen) cond(depth int) *c09Node {
	r := w.g.r
	lt := w.node("lt")
	w.add(lt, &c09Node{kind: 'G', n: 1, lead: w.g.ws(0), trail: w.g.ws(0)})
	w.add(lt, w.g.lit(Pick(r, []string{"0", "1", "2", "3", "5", "8"})))
	if r.Chance(1, 2) {
		return lt
	}
	and := w.node("and")
	w.add(and, lt)
	w.add(and, w.val(depth-1))
	return and
}

func (w c09WGen) call(depth int) *c09Node {
	r := w.g.r
	wild := w.g.wild
	switch r.Intn(9) {
	case 0:
		t := w.node("format")
		if r.Chance(1, 6) {
			w.add(t, w.g.leafDyn())
		} else {
			w.add(t, w.g.lit(Pick(r, c09Formats)))
		}
		for i, n := 0, r.Intn(4); i < n; i++ {
			w.add(t, w.val(depth-1))
		}
		return t
	case 1:
		t := w.node("@map")
		w.add(t, w.arr(depth-1))
		w.add(t, w.val(depth-1))
		if wild && r.Chance(1, 4) {
			w.add(t, w.val(0))
		}
		return t
	case 2:
		t := w.node("@filter")
		w.add(t, w.arr(depth-1))
		w.add(t, w.val(depth-1))
		return t
	case 3:
		t := w.node("@reduce")
		w.add(t, w.arr(depth-1))
		w.add(t, w.val(depth-1))
		switch k := r.Intn(4); {
		case k == 0:
			w.add(t, w.g.lit(Pick(r, []string{"", "0", "1", "x", "10", " "})))
		case k == 1 && wild:
			w.add(t, w.g.leafDyn()) // a dynamic initial value is silently read as ""
		}
		return t
	case 4:
		t := w.node("@for")
		w.add(t, w.val(depth-1))
		w.add(t, w.cond(depth-1))
		w.add(t, w.val(depth-1))
		return t
	case 5:
		t := w.node("duration")
		if r.Chance(1, 3) {
			w.add(t, w.g.leafDyn())
		} else {
			w.add(t, w.g.lit(Pick(r, c09Durations)))
		}
		return t
	case 6:
		t := w.node("durationformat")
		if r.Chance(1, 3) {
			w.add(t, w.val(depth-1))
		} else {
			w.add(t, w.g.lit(Pick(r, c09Seconds)))
		}
		return t
	case 7:
		t := w.node("timeformat")
		if r.Chance(1, 3) {
			w.add(t, w.val(depth-1))
		} else {
			w.add(t, w.g.lit(Pick(r, c09Unix)))
		}
		if r.Chance(3, 4) {
			lay := Pick(r, c09Layouts)
			if wild && r.Chance(1, 4) {
				lay = "é 2006"
			}
			if wild && r.Chance(1, 6) {
				w.add(t, w.g.leafDyn())
			} else {
				w.add(t, w.g.lit(lay))
			}
			if r.Chance(1, 2) {
				tz := Pick(r, c09UtcNames)
				if wild && r.Chance(1, 2) {
					tz = Pick(r, []string{"Local", "America/New_York", "Nowhere/Land", "utç"})
				}
				w.add(t, w.g.lit(tz))
			}
		}
		return t
	}
	t := w.node("timeattr")
	if r.Chance(1, 3) {
		w.add(t, w.val(depth-1))
	} else {
		w.add(t, w.g.lit(Pick(r, c09Unix)))
	}
	attr := Pick(r, c09Attrs)
	if wild && r.Chance(1, 3) {
		attr = Pick(r, []string{"nope", "", "wéek"})
	}
	if wild && r.Chance(1, 6) {
		w.add(t, w.g.leafDyn())
	} else {
		w.add(t, w.g.lit(attr))
	}
	if r.Chance(1, 3) {
		tz := Pick(r, c09UtcNames)
		if wild && r.Chance(1, 2) {
			tz = Pick(r, []string{"Local", "Europe/Berlin", "Nowhere/Land"})
		}
		w.add(t, w.g.lit(tz))
	}
	return t
}

// the widened call below an ordinary function of the fragment
func (w c09WGen) wrapped(depth int) *c09Node {
	r := w.g.r
	name := Pick(r, []string{"len", "coalesce", "$", "eq", "if", "@len", "@join", "upper", "tab", "csv", "not"})
	t := w.node(name)
	switch name {
	case "eq":
		w.add(t, w.call(depth))
		w.add(t, w.val(depth-1))
	case "if":
		w.add(t, w.val(depth-1))
		w.add(t, w.call(depth))
		w.add(t, w.call(depth))
	case "upper":
		// `upper` demands a literal ASCII argument in the fragment: a widened call is outside (wtreex only)
		if w.g.wild {
			w.add(t, w.call(depth))
		} else {
			w.add(t, w.g.lit("abc"))
		}
	case "$", "csv", "coalesce", "tab":
		w.add(t, w.val(depth-1))
		w.add(t, w.call(depth))
	default:
		w.add(t, w.call(depth))
	}
	return t
}

func c09R4cGen(r *Rand, tier string) []string {
	n := 1500
	if tier == "thorough" {
		n = 40000
	}
	var out []string
	emit := func(op string, t *c09Node) {
		var toks []string
		t.tokens(&toks)
		el, ks := c09FragCtx(r)
		out = append(out, fmt.Sprintf("%s %s %s %s %s", op, c09Opt(r), strings.Join(toks, ","), el, ks))
	}
	// fixed shapes: shadowing (the body's {0} is the element, not the caller's group 0), nested binders, keys and
	// negative indices from the enclosing context, empty arrays, the initial-value rule of @reduce
	lit := func(s string) *c09Node { return &c09Node{kind: 'L', text: s} }
	grp := func(n uint64) *c09Node { return &c09Node{kind: 'G', n: n} }
	key := func(k string) *c09Node { return &c09Node{kind: 'K', text: k} }
	call := func(name string, kids ...*c09Node) *c09Node {
		t := &c09Node{kind: 'C', text: name}
		for _, k := range kids {
			t.seps = append(t.seps, " ")
			t.kids = append(t.kids, k)
		}
		return t
	}
	fixed := []*c09Node{
		call("@map", grp(0), call("sumi", grp(0), lit("1"))),
		call("@map", grp(0), call("$", grp(0), grp(1), grp(2), key("k"))),
		call("@map", call("@split", grp(1), lit(",")), call("@map", call("@split", grp(0), lit(" ")), call("len", grp(0)))),
		call("@filter", grp(0), call("gt", grp(0), lit("1"))),
		call("@filter", grp(0), call("@in", grp(0), lit("a"))),
		call("@reduce", grp(0), call("sumi", grp(0), grp(1))),
		call("@reduce", grp(0), call("sumi", grp(0), grp(1)), lit("10")),
		call("@reduce", grp(0), call("$", grp(1), grp(0)), lit("")),
		call("@reduce", call("@map", grp(0), call("len", grp(0))), call("maxi", grp(0), grp(1))),
		call("@for", lit("1"), call("lt", grp(1), lit("5")), call("multi", grp(0), lit("2"))),
		call("@for", grp(0), call("and", call("lt", grp(1), lit("3")), grp(0)), call("substr", grp(0), lit("1"), lit("100"))),
		call("@for", lit(""), call("lt", grp(1), lit("2")), lit("")),
		call("@len", call("@for", lit("x"), call("lt", grp(1), lit("8")), call("$", grp(0), grp(1)))),
		call("format", lit("%s=%q [%5s]"), grp(0), grp(1), key("k")),
		call("format", lit("%[2]s-%[1]s-%[3]s"), grp(0), grp(1)),
		call("format", key("k"), grp(0)),
		call("@map", grp(0), call("format", lit("<%3s>"), grp(0))),
		call("duration", grp(0)), call("durationformat", grp(0)), call("durationformat", call("duration", lit("1h1m1s"))),
		call("timeformat", grp(0)), call("timeformat", grp(0), lit("DAY")), call("timeformat", lit("1700000000"), lit("2006-01-02 15:04:05 Mon MST"), lit("utc")),
		call("timeattr", grp(0), lit("weekday")), call("timeattr", lit("1700000000"), lit("yearweek"), lit("UTC")),
		call("@map", call("@", lit("0"), lit("86400"), lit("1700000000")), call("timeformat", grp(0), lit("2006-01-02"))),
		call("@map", call("@", lit("0"), lit("86400"), lit("1700000000")), call("timeattr", grp(0), lit("quarter"))),
	}
	for _, t := range fixed {
		for k := 0; k < 3; k++ {
			emit("wtree", t)
		}
	}
	out = append(out, c09AerrGen(r, tier)...)
	for i := 0; i < n; i++ {
		g := &c09FragGen{r: r}
		op := "wtree"
		if i%6 == 5 {
			g.wild = true
			op = "wtreex"
		}
		w := c09WGen{g}
		depth := 1 + r.Intn(3)
		if r.Chance(1, 4) {
			emit(op, w.wrapped(depth))
		} else {
			emit(op, w.call(depth))
		}
	}
	return out
}

var c09ArityNames = []string{"coalesce", "and", "or", "eq", "neq", "switch", "not", "unless", "len", "isint", "expbucket", "isnum", "ceil", "floor",
	"sqrt", "hf", "hi", "basename", "dirname", "extname", "@len", "like", "prefix", "suffix", "select", "@map", "@filter", "substr", "tab", "$", "@", "csv"}

// a statement over `names` with a random number of arguments (so arities are wrong now and then), nested
func c09ArityStmt(r *Rand, names []string, depth int) string {
	var sb strings.Builder
	sb.WriteString("{")
	sb.WriteString(Pick(r, []string{"", "", "", " ", "\t"}))
	sb.WriteString(Pick(r, names))
	for i, n := 0, r.Intn(5); i < n; i++ {
		sb.WriteString(Pick(r, []string{" ", " ", "  ", "\t", "\n"}))
		switch k := r.Intn(10); {
		case k < 3 && depth > 0:
			sb.WriteString(c09ArityStmt(r, names, depth-1))
		case k < 4:
			sb.WriteString(Pick(r, []string{"{}", "{ }", "{0}", "{k}", "{nofn 1 2}", "\"{}\"", "\"a {nofn x} b\"", "{", "\"\""}))
		case k < 5:
			sb.WriteString("\"" + Pick(r, []string{"a b", "", "x", "1 2 3"}) + "\"")
		default:
			sb.WriteString(Pick(r, []string{"a", "1", "x", "-3", "é", "2.5", "k=v"}))
		}
	}
	sb.WriteString(Pick(r, []string{"", "", " "}))
	sb.WriteString("}")
	return sb.String()
}

func c09AerrGen(r *Rand, tier string) []string {
	var out []string
	probe := append(append([]string{}, c09ProbeNames...), "bad", "nil", "bad", "nil", "nofn")
	std := append(append([]string{}, c09ArityNames...), "nofn", "NOT", "sumi", "bucket", "format")
	fixedP := []string{"ab{f {bad y {}} {nil 1}}", "{bad}", "{bad x}", "{nil x}{bad y}", "{f {nil {bad {}}}}", "{bad {nofn x}}", "{nofn {bad x}}", "{bad \"{nil x}\"}",
		"{bad {nil 1} {", "{f x}{bad", "é{bad é {nil 😀}}", "\\{{bad x}", "{bad {}}}{nil 1}"}
	fixedS := []string{"{not a b}{eq x}{switch {len a b} 1 2 3}{nofn 1 2}{", "{not}", "{not a}", "{len a b}", "{if a}", "{eq a}", "{eq a b c d}", "{switch a}",
		"{switch a b}", "{unless a}", "{substr a 1}", "{substr a 1 2}", "{@map a}", "{@map a b c}", "{@filter a}", "{@for a b}", "{coalesce {not a b} {hi}}",
		"{$ {@ {tab {csv {len a b}}}}}", "{like {prefix a} {suffix a b c}}", "ab{select a}cd{select a 1 2}", "{sumi a}", "{basename a b}{dirname}{extname a b c}",
		"{isint a b}{isnum a b}{ceil a b}{floor a b}{sqrt a b}{hf a b}{hi a b}{expbucket a b}{@len a b}"}
	for _, t := range fixedP {
		out = append(out, "aerr 0 "+HexS(t), "aerr 1 "+HexS(t))
	}
	for _, t := range fixedS {
		out = append(out, "aerrs 0 "+HexS(t), "aerrs 1 "+HexS(t))
	}
	n := 600
	if tier == "thorough" {
		n = 12000
	}
	for i := 0; i < n; i++ {
		var sb strings.Builder
		names, op := probe, "aerr"
		if i%2 == 1 {
			names, op = std, "aerrs"
		}
		for k := r.Range(1, 3); k > 0; k-- {
			sb.WriteString(Pick(r, []string{"", "a", "é", "\\{", "}", " "}))
			sb.WriteString(c09ArityStmt(r, names, 2))
		}
		if r.Chance(1, 8) {
			sb.WriteString(Pick(r, []string{"{", "{bad x", "{not a"}))
		}
		out = append(out, fmt.Sprintf("%s %s %s", op, c09Opt(r), HexS(sb.String())))
	}
	return out
}

func c09R4cRun(f []string) (string, bool) {
	switch f[0] {
	case "aerr", "aerrs":
		if len(f) != 3 {
			return "bad-args", true
		}
		kb := c09Builder(f[1] == "1")
		if f[0] == "aerrs" {
			kb = funclib.NewKeyBuilderEx(f[1] == "1")
		}
		compiled, errs := kb.Compile(string(UnHex(f[2])))
		if compiled == nil {
			return "nil-compiled", true
		}
		return "ok " + errsStr(errs), true
	case "wtree", "wtreex":
		if len(f) != 5 {
			return "bad-args", true
		}
		a := c09FragRun(f)
		if strings.HasPrefix(a, "panic") {
			return "panic", true
		}
		return a, true
	}
	return "", false
}
