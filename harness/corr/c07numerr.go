//go:build c07

package main

// Correspondence for C07: the PROVED floating-point tolerances checked on the real aggregator.
//
//	agg numerr <e> <bits>    samples (float64 bit patterns, ';'-joined) of magnitude <= 2^e, -538 <= e <= 480
//	                         (e < 0: data of small scale, the tolerance scales with it - num_f64_error_check_scaled_true)
//
// The real MatchNumerical is fed the samples; Mean() and Variance() are compared, in exact rational arithmetic
// (math/big), with the exact mean / sample variance of the sample values:
//
//	|Mean() - mean|         <= (n+11)/2 * u * M + (n+3) * eta                     (num_f64_mean_error)
//	|Variance() - variance| <= G/(n-1) + 16*u*M^2 + eta,                          (num_f64_variance_error)
//	                           G = (15n(n+1)/2 + 55n) * u * M^2 + 2n*eta
//
// with M = 2^e, u = 2^-53, eta = 2^-1075.  The answer is "ok n=<n> mean=<0|1> var=<0|1>"; the model evaluates the same
// check on its own float run (lean/Rare/Model/C07NumErr.lean) and theorem num_f64_error_check_true says it is 1 1
// for every list of the class, so a 0 from the real code is a violation of the proved tolerance.  Outside the class
// (non-finite sample, magnitude above 2^e, e > 480, no sample) the model answers "unmodelled".

import (
	"fmt"
	"math"
	"math/big"
	"strconv"
	"strings"

	"rare/pkg/aggregation"
)

func c07Pow2(e int) *big.Rat {
	if e >= 0 {
		return new(big.Rat).SetInt(new(big.Int).Lsh(big.NewInt(1), uint(e)))
	}
	return new(big.Rat).SetFrac(big.NewInt(1), new(big.Int).Lsh(big.NewInt(1), uint(-e)))
}

func c07Within(got float64, exact, bound *big.Rat) int {
	if math.IsNaN(got) || math.IsInf(got, 0) {
		return 0
	}
	g := new(big.Rat).SetFloat64(got)
	d := new(big.Rat).Sub(g, exact)
	d.Abs(d)
	if d.Cmp(bound) <= 0 {
		return 1
	}
	return 0
}

func c07RunNumErr(f []string) string {
	e, err := strconv.Atoi(f[2])
	if err != nil || e < -1074 {
		return "bad-args"
	}
	var vals []float64
	if f[3] != "." {
		for _, h := range strings.Split(f[3], ";") {
			b, err := strconv.ParseUint(h, 16, 64)
			if err != nil || len(h) != 16 {
				return "bad-args"
			}
			vals = append(vals, math.Float64frombits(b))
		}
	}
	agg := aggregation.NewNumericalAggregator(&aggregation.NumericalConfig{})
	for _, v := range vals {
		agg.Samplef(v)
	}
	n := int64(len(vals))
	if n == 0 {
		return "ok n=0 mean=1 var=1"
	}
	sum := new(big.Rat)
	for _, v := range vals {
		if math.IsNaN(v) || math.IsInf(v, 0) {
			return "ok outside-the-class"
		}
		sum.Add(sum, new(big.Rat).SetFloat64(v))
	}
	nr := new(big.Rat).SetInt64(n)
	mean := new(big.Rat).Quo(sum, nr)
	m2 := new(big.Rat)
	for _, v := range vals {
		d := new(big.Rat).Sub(new(big.Rat).SetFloat64(v), mean)
		m2.Add(m2, d.Mul(d, d))
	}
	M := c07Pow2(e)
	u := c07Pow2(-53)
	eta := c07Pow2(-1075)
	Mu := new(big.Rat).Mul(M, u)
	MMu := new(big.Rat).Mul(M, Mu)
	// (n+11)/2 * M*u + (n+3)*eta
	rb := new(big.Rat).Mul(new(big.Rat).SetFrac64(n+11, 2), Mu)
	rb.Add(rb, new(big.Rat).Mul(new(big.Rat).SetInt64(n+3), eta))
	meanOK := c07Within(agg.Mean(), mean, rb)
	varOK := 1
	if n >= 2 {
		// G = (15n(n+1)/2 + 55n) * M*M*u + 2n*eta
		c := new(big.Rat).SetFrac64(15*n*(n+1), 2)
		c.Add(c, new(big.Rat).SetInt64(55*n))
		G := new(big.Rat).Mul(c, MMu)
		G.Add(G, new(big.Rat).Mul(new(big.Rat).SetInt64(2*n), eta))
		tb := new(big.Rat).Quo(G, new(big.Rat).SetInt64(n-1))
		tb.Add(tb, new(big.Rat).Mul(new(big.Rat).SetInt64(16), MMu))
		tb.Add(tb, eta)
		variance := new(big.Rat).Quo(m2, new(big.Rat).SetInt64(n-1))
		varOK = c07Within(agg.Variance(), variance, tb)
	}
	return fmt.Sprintf("ok n=%d mean=%d var=%d", n, meanOK, varOK)
}

// ---------------------------------------------------------------- generator

func c07NumErrVals(r *Rand, e, n int) []float64 {
	vals := make([]float64, n)
	lim := math.Ldexp(1, e)
	switch r.Intn(7) {
	case 0: // near-constant series with a large offset: the cancellation case
		base := lim * (0.5 + float64(r.Intn(400))/1000)
		for i := range vals {
			vals[i] = base + math.Ldexp(float64(r.Intn(1024)), e-40)
		}
	case 1: // the magnitude boundary itself and its neighbours
		for i := range vals {
			switch r.Intn(4) {
			case 0:
				vals[i] = lim
			case 1:
				vals[i] = -lim
			case 2:
				vals[i] = math.Nextafter(lim, 0)
			default:
				vals[i] = -math.Nextafter(lim, 0)
			}
		}
	case 2: // alternating signs of full magnitude: worst case for the mean recurrence
		for i := range vals {
			vals[i] = lim * (1 - float64(r.Intn(1000))/4000)
			if i%2 == 1 {
				vals[i] = -vals[i]
			}
		}
	case 3: // tiny values (subnormal results of the division) next to ordinary ones
		for i := range vals {
			if r.Chance(1, 2) {
				vals[i] = math.Ldexp(float64(r.Range(-9, 9)), r.Range(-1074, -1040))
			} else {
				vals[i] = lim * float64(r.Range(-1000, 1000)) / 1000
			}
		}
	case 4: // decimal fractions
		for i := range vals {
			vals[i] = lim * float64(r.Range(-1000000, 1000000)) / 1000000 * 0.999
		}
	case 5: // small integers scaled
		for i := range vals {
			vals[i] = math.Ldexp(float64(r.Range(-8, 8)), e-3)
		}
	default: // any mantissa, exponent up to e
		for i := range vals {
			v := math.Ldexp(1+float64(r.U64()>>12)/float64(uint64(1)<<52), e-1-r.Intn(30))
			if r.Bool() {
				v = -v
			}
			vals[i] = v
		}
	}
	for i, v := range vals { // stay inside the class whatever the rounding above did
		if math.IsNaN(v) || math.Abs(v) > lim {
			vals[i] = lim
		}
	}
	return vals
}

func c07NumErrCase(r *Rand, long bool) string {
	e := 0
	switch r.Intn(9) {
	case 0:
		e = 0
	case 1:
		e = 480
	case 2:
		e = r.Range(1, 479)
	case 3: // small scales: readings well below 1 (the tolerance is u*M, u*M^2)
		e = -r.Range(1, 40)
	case 4:
		e = -r.Range(41, 537)
	case 5:
		e = Pick(r, []int{-538, -537, -1, -10})
	default:
		e = r.Range(1, 64)
	}
	n := r.Range(1, 12)
	if r.Chance(1, 6) {
		n = r.Range(13, 60)
	}
	if long {
		n = r.Range(150, 400)
	}
	vals := c07NumErrVals(r, e, n)
	h := make([]string, len(vals))
	for i, v := range vals {
		h[i] = fmt.Sprintf("%016x", math.Float64bits(v))
	}
	return fmt.Sprintf("agg numerr %d %s", e, strings.Join(h, ";"))
}

func c07NumErrGen(r *Rand, tier string) []string {
	n, nl := 300, 8
	if tier == "thorough" {
		n, nl = 5000, 100
	}
	var out []string
	for i := 0; i < n; i++ {
		out = append(out, c07NumErrCase(r, false))
	}
	for i := 0; i < nl; i++ {
		out = append(out, c07NumErrCase(r, true))
	}
	return out
}

var c07NumErrCorpus = []string{
	// the cancellation witness of seeded/C07-variance-sumsq as floats: 1000000000.1 .. .4 (e = 30)
	"agg numerr 30 41cdcd6500066666;41cdcd65000ccccd;41cdcd6500133333;41cdcd650019999a",
	// one sample; two samples at the boundary with opposite signs
	"agg numerr 0 3ff0000000000000",
	"agg numerr 480 5df0000000000000;ddf0000000000000",
	// small scale: 0.0001, 0.0002, 0.0003 within 2^-10; the smallest scale of the class; below it: outside
	"agg numerr -10 3f1a36e2eb1c432d;3f2a36e2eb1c432d;3f33a92a30553261",
	"agg numerr -538 1e50000000000000;9e50000000000000;1e4c000000000000",
	"agg numerr -539 1e40000000000000",
	// outside the class: a NaN, a magnitude above 2^e
	"agg numerr 3 7ff8000000000001;3ff0000000000000",
	"agg numerr 0 4000000000000000",
}

func c07NumErrStats(f []string, st map[string]int) {
	e, _ := strconv.Atoi(f[2])
	switch {
	case e < -40:
		st["numerr.e<-40"]++
	case e < 0:
		st["numerr.-40<=e<0"]++
	case e == 0:
		st["numerr.e=0"]++
	case e == 480:
		st["numerr.e=480"]++
	case e > 64:
		st["numerr.e>64"]++
	default:
		st["numerr.e<=64"]++
	}
	n := 0
	if f[3] != "." {
		n = strings.Count(f[3], ";") + 1
	}
	switch {
	case n >= 150:
		st["numerr.long(150..400)"]++
	case n >= 13:
		st["numerr.medium(13..60)"]++
	default:
		st["numerr.short"]++
	}
}
