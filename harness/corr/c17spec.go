//go:build c17

package main

import (
	"fmt"
	"strconv"
	"strings"

	"rare/pkg/expressions"
	"rare/pkg/expressions/funclib"
	"rare/pkg/stringSplitter"
)

// C17, specification-level ops (the Lean side answers from Spec/C17*.lean only, see Drv/C17.lean):
//
//   atoi <text>                          strconv.Atoi
//   wf <opt> <template> <elems> <keys>   the value of the template read as a list (strings.Split on NUL)
//   spec split|join|len|select|slice|range|in …   the real helper on operands handed in through {0}

func init() {
	c17Extra = c17SpecRun
	c17ExtraGen = c17SpecGen
}

func c17ListView(v string) string {
	return fmt.Sprintf("n=%d seps=%d elems=%s", len(strings.Split(v, "\x00")), strings.Count(v, "\x00"), HexListS(strings.Split(v, "\x00")))
}

// evaluate a template on elements; returns (value, ok)
func c17Eval(template string, elems []string) (string, string) {
	kb := funclib.NewKeyBuilderEx(false)
	compiled, errs := kb.Compile(template)
	if compiled == nil || (errs != nil && len(errs.Errors) > 0) {
		return "", "compile-error " + errsStr(errs)
	}
	return compiled.BuildKey(mkContext(HexListS(elems), ".")), ""
}

func c17SpecRun(f []string) (string, bool) {
	switch f[0] {
	case "atoi":
		v, err := strconv.Atoi(string(UnHex(f[1])))
		if err != nil {
			return "err", true
		}
		return fmt.Sprintf("ok %d", v), true
	case "wf":
		s, ok := exprRun(append([]string{"expr"}, f[1:]...))
		if !ok {
			return "bad-args", true
		}
		s = canonPanic(s)
		if !strings.HasPrefix(s, "ok ") {
			return s, true
		}
		i := strings.Index(s, " val=")
		return "ok " + c17ListView(string(UnHex(s[i+5:]))), true
	case "spec":
		return c17Spec(f[1:]), true
	case "mkarray": // expressions.MakeArray(values...) against `pack`
		if len(f) != 2 {
			return "bad-args", true
		}
		return "ok " + HexS(expressions.MakeArray(UnHexListS(f[1])...)), true
	case "splitterok": // drain with NextOk, then one more Next on the finished splitter
		if len(f) != 3 {
			return "bad-args", true
		}
		sp := stringSplitter.Splitter{S: string(UnHex(f[1])), Delim: string(UnHex(f[2]))}
		var out []string
		for i, limit := 0, len(sp.S)+3; ; i++ {
			if i > limit {
				return "hang", true
			}
			v, ok := sp.NextOk()
			if !ok {
				break
			}
			out = append(out, v)
		}
		after := sp.Next()
		return fmt.Sprintf("ok %s after=%s done=%v", HexListS(out), HexS(after), sp.Done()), true
	}
	return "", false
}

func c17Spec(f []string) string {
	quote := func(hex string) string { return "\"" + string(UnHex(hex)) + "\"" }
	var v, bad string
	switch {
	case f[0] == "split" && len(f) == 3:
		v, bad = c17Eval("{@split {0} "+quote(f[2])+"}", []string{string(UnHex(f[1]))})
		if bad == "" {
			return "ok " + c17ListView(v)
		}
	case f[0] == "join" && len(f) == 3:
		v, bad = c17Eval("{@join {0} "+quote(f[2])+"}", []string{string(UnHex(f[1]))})
		if bad == "" {
			return "ok " + HexS(v)
		}
	case f[0] == "len" && len(f) == 2:
		v, bad = c17Eval("{@len {0}}", []string{string(UnHex(f[1]))})
		if bad == "" {
			return "ok " + v
		}
	case f[0] == "select" && len(f) == 3:
		v, bad = c17Eval("{@select {0} "+f[2]+"}", []string{string(UnHex(f[1]))})
		if bad == "" {
			return "ok " + HexS(v)
		}
	case f[0] == "slice" && len(f) == 4:
		t := "{@slice {0} " + f[2]
		if f[3] != "-" {
			t += " " + f[3]
		}
		v, bad = c17Eval(t+"}", []string{string(UnHex(f[1]))})
		if bad == "" {
			return "ok " + c17ListView(v)
		}
	case f[0] == "range" && len(f) == 4:
		v, bad = c17Eval("{@range "+f[1]+" "+f[2]+" "+f[3]+"}", nil)
		if bad == "" {
			switch v {
			case "<VALUE>":
				return "ok value"
			case "<INF>":
				return "ok inf"
			}
			return "ok " + c17ListView(v)
		}
	case f[0] == "in" && len(f) == 3:
		// the array must be a constant: spell it as {@ w0 w1 …} (the generator only uses quotable words)
		words := strings.Split(string(UnHex(f[2])), "\x00")
		parts := []string{"{@"}
		for _, w := range words {
			parts = append(parts, "\""+w+"\"")
		}
		v, bad = c17Eval("{@in {0} "+strings.Join(parts, " ")+"}}", []string{string(UnHex(f[1]))})
		if bad == "" {
			if v == "" {
				return "ok 0"
			}
			return "ok " + v
		}
	case f[0] == "words" && len(f) == 3:
		// {select s i}: word selection (NUL is one of its delimiters); the Lean side answers from Spec/C17Sel.lean
		v, bad = c17Eval("{select {0} "+f[2]+"}", []string{string(UnHex(f[1]))})
		if bad == "" {
			return "ok " + HexS(v)
		}
	case f[0] == "reduce" && len(f) == 4:
		id, err := strconv.Atoi(f[2])
		if err != nil || id < 0 || id >= len(c17Reducers) {
			return "bad-args"
		}
		t := "{@reduce {0} " + c17Reducers[id]
		switch f[3] {
		case "-":
		case "e":
			t += " \"\""
		default:
			t += " " + quote(f[3])
		}
		v, bad = c17Eval(t+"}", []string{string(UnHex(f[1]))})
		if bad == "" {
			return "ok " + HexS(v)
		}
	default:
		return "bad-op"
	}
	return bad
}

// reducers of `spec reduce` (Lean: Drv/C17.lean redFn, same order)
var c17Reducers = []string{"\"{0}-{1}\"", "{1}", "{0}", "{if {eq {0} x} {1}}", "{if {1} {0}}", "\"{1}{0}\"", "\"\"",
	"{coalesce {0} {1}}", "{if {neq {0} {1}} \"{0}{1}\"}", "{unless {0} {1}}"}

// lists for @reduce: empty elements in every position (first, several in a row, all), blanks (not truthy), "x"
func c17ReduceList(r *Rand) []string {
	n := r.Range(1, 6)
	out := make([]string, n)
	for i := range out {
		out[i] = Pick(r, []string{"", "", "", "x", "x", "a", "b", " ", "ab", "é", "-"})
	}
	switch r.Intn(6) {
	case 0:
		out[0] = ""
	case 1:
		out[0] = ""
		if n > 1 {
			out[1] = ""
		}
	case 2:
		out[0] = "x"
	}
	return out
}

// words and delimiters that can be written between double quotes in a template unchanged
var c17Safe = []string{"a", "b", "ab", "aa", "x", ",", ";", "::", "|", "--", "é", "世", "€x", "aba", "abab", ",,", "1", "-3", ".", "a,", "世é", "=", "b,a"}

func c17SpecGen(r *Rand, tier string) []string {
	g := &c17Gen{r: r}
	n := 120
	if tier == "thorough" {
		n = 4000
	}
	var out []string
	arr := func() string { return HexS(strings.Join(g.list(), "\x00")) }
	bigInt := func() string {
		switch r.Intn(6) {
		case 0:
			return Pick(r, []string{"9223372036854775807", "-9223372036854775808", "9223372036854775806", "-9223372036854775807", "4611686018427387904"})
		case 1:
			return strconv.Itoa(r.Range(-40, 40))
		default:
			return strconv.Itoa(r.Range(-8, 8))
		}
	}
	for i := 0; i < n; i++ {
		// strconv.Atoi: signs, leading zeros, limits, junk
		var t string
		switch r.Intn(8) {
		case 0:
			t = Pick(r, []string{"", "+", "-", "+-1", "--1", "0", "-0", "+0", "007", "-007", "1_000", "0x10", "1e3", " 1", "1 ", "1.0", "٣", "１"})
		case 1:
			t = Pick(r, []string{"9223372036854775807", "9223372036854775808", "-9223372036854775808", "-9223372036854775809", "+9223372036854775807", "18446744073709551616", "99999999999999999999999", "-99999999999999999999999", "00000000000000000000000000000000000001"})
		case 2:
			b := make([]byte, r.Intn(4))
			for j := range b {
				b[j] = byte(r.Intn(256))
			}
			t = string(b)
		default:
			t = Pick(r, []string{"", "", "+", "-"})
			for j, m := 0, r.Range(1, 20); j < m; j++ {
				t += string(rune('0' + r.Intn(10)))
			}
			if r.Chance(1, 10) {
				t += Pick(r, []string{"a", "-", "+", " ", "\x00"})
			}
		}
		out = append(out, "atoi "+HexS(t))
		// the helpers on operands from the context, answers from the specification functions
		switch r.Intn(8) {
		case 0:
			d := Pick(r, c17Safe)
			parts := g.list()
			if r.Chance(1, 4) { // pieces that overlap the delimiter
				for j := range parts {
					parts[j] += d[:r.Intn(len(d)+1)]
				}
			}
			out = append(out, fmt.Sprintf("spec split %s %s", HexS(strings.Join(parts, d)), HexS(d)))
		case 1:
			out = append(out, fmt.Sprintf("spec join %s %s", arr(), HexS(Pick(r, c17Safe))))
		case 2:
			out = append(out, "spec len "+arr())
		case 3:
			out = append(out, fmt.Sprintf("spec select %s %s", arr(), bigInt()))
		case 4, 5:
			ln := "-"
			if r.Bool() {
				ln = bigInt()
			}
			out = append(out, fmt.Sprintf("spec slice %s %s %s", arr(), bigInt(), ln))
		case 6:
			a, b, c := r.Range(-30, 30), r.Range(-30, 30), r.Range(-4, 4)
			if r.Chance(1, 8) { // near the limits, few terms
				base := int64(9223372036854775807) - int64(r.Intn(30))
				out = append(out, fmt.Sprintf("spec range %d 9223372036854775807 %d", base, r.Range(1, 9)))
				out = append(out, fmt.Sprintf("spec range %d -9223372036854775808 %d", -base-1+int64(r.Intn(3)), -r.Range(1, 9)))
			}
			out = append(out, fmt.Sprintf("spec range %d %d %d", a, b, c))
		default:
			words := []string{Pick(r, c17Safe), Pick(r, c17Safe)}
			for r.Chance(1, 2) {
				words = append(words, Pick(r, append(c17Safe, "")))
			}
			v := Pick(r, append(words, "", "zz"))
			out = append(out, fmt.Sprintf("spec in %s %s", HexS(v), HexS(strings.Join(words, "\x00"))))
		}
		// @reduce: the initial-value rule on lists with empty elements and reducers that return ""
		if i%3 == 0 {
			init := Pick(r, []string{"-", "-", "-", "e", HexS("x"), HexS("a"), HexS(" "), HexS("-")})
			out = append(out, fmt.Sprintf("spec reduce %s %d %s", HexS(strings.Join(c17ReduceList(r), "\x00")), r.Intn(len(c17Reducers)), init))
			// the same family through the model (and nested: the reduced value feeds another helper)
			red := Pick(r, c17Reducers)
			t := "{@reduce {0} " + red + Pick(r, []string{"", "", " \"\"", " x", " {k}", " \" \""}) + "}"
			if r.Chance(1, 4) {
				t = "{@reduce {@map {0} {if {eq {0} a} \"\" {0}}} " + red + "}"
			}
			out = append(out, ExprCase(r.Bool(), t, []string{strings.Join(c17ReduceList(r), "\x00"), "x"}, []string{"k", Pick(r, []string{"", "x", "q"})}))
		}
		// any generated template, read as a list
		if i%2 == 0 {
			elems, keys := g.context()
			t := g.template()
			if !strings.Contains(t, "@for") && !strings.Contains(t, "92233720368547758") && !strings.Contains(t, "4611686018427387904") {
				out = append(out, "wf"+ExprCase(r.Bool(), t, elems, keys)[4:])
			}
		}
	}
	// more terms than MAX_ITERATIONS: the closed form says <INF> without iterating
	out = append(out, "spec range 0 1000001 1", "spec range 7 1000008 1", "spec range 5 -9223372036854775808 -3")
	out = append(out, c17WordsGen(r, g, tier)...)
	return out
}

// {select} (word selection) next to {@select}, and the kfJoin family tab / $ / @:
//   spec words <s> <i>     the real {select {0} i} against `selectWord` of Spec/C17Sel.lean (quote-free s)
//   expr …                 {select}/{tab} pointed at arrays, through the model of funcsStrings.go
func c17WordsGen(r *Rand, g *c17Gen, tier string) []string {
	n := 150
	if tier == "thorough" {
		n = 5000
	}
	var out []string
	alpha := []string{"a", "b", "ab", " ", " ", "\t", "\n", "\x00", "\x00", "é", "世", "x1", "-"}
	idx := func() string {
		if r.Chance(1, 10) {
			return Pick(r, []string{"9223372036854775807", "-9223372036854775808", "99", "-1"})
		}
		return strconv.Itoa(r.Range(-2, 7))
	}
	for i := 0; i < n; i++ {
		var s string
		switch r.Intn(4) {
		case 0: // an array as the generator makes them (empty elements, elements with blanks)
			s = strings.Join(g.list(), "\x00")
		case 1: // plain elements only: here {select} and {@select} agree for i >= 0
			m := r.Range(1, 6)
			parts := make([]string, m)
			for j := range parts {
				parts[j] = Pick(r, []string{"a", "b", "ab", "é", "世", "10", "-3", "x,y"})
			}
			s = strings.Join(parts, Pick(r, []string{"\x00", " ", "\t", "\n"}))
		default: // delimiter runs, leading and trailing delimiters
			for j, m := 0, r.Intn(9); j < m; j++ {
				s += Pick(r, alpha)
			}
		}
		if r.Chance(1, 12) {
			s = Pick(r, []string{"\"", "\"a b\"", "a\"b c\"d", "\"a\x00b\" c"}) + s // quotes: model only (`unmodelled quoted` at spec level)
		}
		out = append(out, fmt.Sprintf("spec words %s %s", HexS(s), idx()))
		// the same string through both selections and the model of funcsStrings.go
		switch r.Intn(6) {
		case 0:
			out = append(out, ExprCase(r.Bool(), "{select {0} "+idx()+"}", []string{s}, nil))
		case 1:
			out = append(out, ExprCase(r.Bool(), "{select {0} {1}}", []string{s, idx()}, nil))
		case 2:
			k := idx()
			out = append(out, ExprCase(r.Bool(), "{eq {select {0} "+k+"} {@select {0} "+k+"}}", []string{s}, nil))
		case 3:
			out = append(out, ExprCase(r.Bool(), "{select {tab {0} {1} "+g.lit()+"} "+idx()+"}", []string{g.word(), g.word()}, nil))
		case 4:
			out = append(out, ExprCase(r.Bool(), "{@select {@split {tab {0} {1} "+g.lit()+"} \"\t\"} "+idx()+"}", []string{g.word(), g.word()}, nil))
		default:
			parts := []string{Pick(r, []string{"{tab", "{$", "{@"})}
			for j, m := 0, r.Intn(5); j < m; j++ {
				parts = append(parts, Pick(r, []string{"{0}", "{1}", g.lit(), "{@ a b}", "{tab x y}"}))
			}
			out = append(out, ExprCase(r.Bool(), strings.Join(parts, " ")+"}", []string{g.word(), strings.Join(g.list(), "\x00")}, nil))
		}
	}
	// MakeArray and Splitter.NextOk (no helper calls them; the commands and other packages do)
	for i := 0; i < n/3; i++ {
		out = append(out, "mkarray "+HexListS(g.list()))
		dl := strings.Trim(Pick(r, c17Delims), "\"")
		parts := g.list()
		if r.Chance(1, 4) {
			for j := range parts {
				parts[j] += dl[:r.Intn(len(dl)+1)]
			}
		}
		out = append(out, fmt.Sprintf("splitterok %s %s", HexS(strings.Join(parts, dl)), HexS(dl)))
	}
	out = append(out, "mkarray .", "mkarray -", "mkarray -;-", "splitterok - 61", "splitterok 61 61", "splitterok 6161 6161")
	if tier == "thorough" {
		// every string over {a, blank, NUL, quote} up to length 5 x every index -1..5 (quotes: through the model)
		var strs []string
		var rec func(cur string)
		rec = func(cur string) {
			strs = append(strs, cur)
			if len(cur) < 5 {
				for _, c := range []string{"a", " ", "\x00", "\""} {
					rec(cur + c)
				}
			}
		}
		rec("")
		for si, s := range strs {
			for k := -1; k <= 5; k++ {
				if strings.Contains(s, "\"") {
					out = append(out, ExprCase(si%2 == 0, fmt.Sprintf("{select {0} %d}", k), []string{s}, nil))
				} else {
					out = append(out, fmt.Sprintf("spec words %s %d", HexS(s), k))
				}
			}
		}
	}
	return out
}
