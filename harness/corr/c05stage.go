//go:build c05

package main

// C05, "state shared by all workers evaluating one compiled expression": the search for a failing SCHEDULE.
//
//   stages <mode> <workers> <rounds> <batch> <exprhex> <lines hexlist>
//
//     One compiled expression over pooled stages ({@map}, {@reduce}, {@filter}, {@for}, {! math}, funcs-file
//     functions, {time} with its cached format, joined argument stages) is evaluated by <workers> goroutines at the
//     same time, on many small inputs, and EVERY value a worker computes is compared with the value the same
//     compiled expression gave sequentially (one goroutine, before the workers start).  A wrong key, a panic
//     (recovered per goroutine in mode d) or – when the harness is built with -race, as the extra step does – a race
//     report is the replay.
//       mode d: the workers are goroutines of the harness calling CompiledKeyBuilder.BuildKey on the extractor's own
//               context type (extractor.VerifContext);
//       mode x: the real extractor (extractor.New, asyncWorker, readChan) with <workers> workers is fed <rounds>
//               passes over the lines in batches of <batch> lines; its matches are compared, by line number, with
//               those of a 1-worker extractor.  (A worker panic kills the process: the extra step runs every case in
//               a process of its own; the correspondence generator only emits mode d.)
//     Model answer: `ok bad=0 panics=0` – every worker sees the sequential values (Props/C05: lockset_stage_state,
//     lockset_stage_classes: no captured variable is written at evaluation time except through a pool / atomics).
//
//   stagecases <tier> <seed>      lists generated `stages` cases (both modes), '|'-separated: the extra step feeds
//                                 them to the race-instrumented harness.

import (
	"fmt"
	"os"
	"runtime"
	"strconv"
	"strings"
	"sync"
	"sync/atomic"

	"rare/pkg/expressions"
	"rare/pkg/expressions/funcfile"
	"rare/pkg/expressions/funclib"
	"rare/pkg/extractor"
	"rare/pkg/matchers"
)

// fieldMatcher: group k = the k-th space-separated field; names word/a/b/day.  Stateless.
type fieldMatcher struct{}

func (fieldMatcher) CreateInstance() matchers.Matcher { return fieldMatcher{} }
func (fieldMatcher) SubexpNameTable() map[string]int {
	return map[string]int{"word": 1, "a": 2, "b": 3, "day": 4}
}
func (fieldMatcher) FindSubmatchIndex(b []byte) []int {
	out := []int{0, len(b)}
	start := 0
	for i := 0; i <= len(b) && len(out) < 10; i++ {
		if i == len(b) || b[i] == ' ' {
			out = append(out, start, i)
			start = i + 1
		}
	}
	for len(out) < 10 {
		out = append(out, -1, -1)
	}
	return out
}

const c05Funcs = `# functions of the harness (a funcs file as --funcs loads it)
c05dbl {multi {0} 2}
c05join {0}~{1}~{@map {@split "{0} {1}" " "} "<{0}>"}
c05day {time {0}}
`

var c05FuncsOnce sync.Once

func c05LoadFuncs() {
	c05FuncsOnce.Do(func() {
		fns, err := funcfile.LoadDefinitions(funclib.NewKeyBuilder(), strings.NewReader(c05Funcs), "c05funcs")
		if err != nil {
			panic(err)
		}
		funclib.AddFunctions(fns)
	})
}

// stageExprs: every one goes through at least one piece of state shared by the workers.
var stageExprs = []string{
	`{@map {@split {0} " "} "{0}/{word}"}`,
	`r:{@reduce {@split "{a} {b} {a} 1" " "} "{sumi {0} {1}}"}`,
	`f:{@filter {@split {0} " "} "{gt {0} 3}"}`,
	`{@for {a} {lt {0} 40} {sumi {0} {b}}}`,
	`{! [2]*2+[3]}`,
	`{c05dbl {a}}-{c05join {word} {b}}`,
	`{c05day {day}}`,
	`{time {day}}|{buckettime {day} month}`,
	`{upper "{word}-{a}"}:{substr "{a}{b}{word}" 0 4}`,
	`{! a*2+b}`,
	`{@map {@split {0} " "} "{c05dbl {! a+1}}{0}{@reduce {@split {a}.{b} .} {sumi {0} {1}}}"}`,
	`{@join {@map {@filter {@split {0} " "} "{not {eq {0} {word}}}"} "{c05join {0} {word}}"} ,}`,
}

func stageLines(r *Rand, n int) [][]byte {
	words := []string{"alpha", "bravo", "charlie", "delta", "echo", "fox", "golf", "h", "india", "juliet"}
	out := make([][]byte, n)
	for i := range out {
		out[i] = []byte(fmt.Sprintf("%s%d %d %d 2020-%02d-%02d", Pick(r, words), i, r.Range(0, 30), r.Range(1, 9), r.Range(1, 12), r.Range(1, 28)))
	}
	return out
}

func c05StageCases(r *Rand, tier string, modes []string) []string {
	n := len(stageExprs) // quick: every expression once, short
	if tier == "thorough" {
		n = 2*len(stageExprs) + 2
	}
	if tier == "search" {
		n = 2 * len(stageExprs)
	}
	var out []string
	for i := 0; i < n; i++ {
		mode := Pick(r, modes)
		expr := stageExprs[i%len(stageExprs)]
		if i >= len(stageExprs) {
			expr = Pick(r, stageExprs)
		}
		workers := Pick(r, []int{8, 12, 16, 24})
		nl := Pick(r, []int{7, 40})
		rounds := Pick(r, []int{60, 300})
		if mode == "x" {
			rounds = Pick(r, []int{100, 600})
		}
		if tier == "quick" {
			nl = 7
			rounds = Pick(r, []int{10, 40})
		}
		batch := Pick(r, []int{1, 1, 2, 5})
		out = append(out, fmt.Sprintf("stages %s %d %d %d %s %s", mode, workers, rounds, batch, HexS(expr), HexList(stageLines(r, nl))))
	}
	return out
}

var c05StageEvals int64

func c05Stages(f []string) string {
	if len(f) < 7 {
		return "bad-args"
	}
	c05LoadFuncs()
	mode := f[1]
	workers, _ := strconv.Atoi(f[2])
	rounds, _ := strconv.Atoi(f[3])
	batch, _ := strconv.Atoi(f[4])
	expr := string(UnHex(f[5]))
	lines := UnHexList(f[6])
	if workers < 1 || rounds < 1 || batch < 1 || len(lines) == 0 {
		return "bad-args"
	}
	if mode == "x" {
		return c05StagesExtractor(workers, rounds, batch, expr, lines)
	}
	kb, errs := funclib.NewKeyBuilder().Compile(expr)
	if errs != nil {
		return "bad-args compile: " + strings.ReplaceAll(errs.Error(), "\n", " ")
	}
	m := fieldMatcher{}
	ctxOf := func(i int) expressions.KeyBuilderContext {
		return extractor.VerifContext(string(lines[i]), m.FindSubmatchIndex(lines[i]), m.SubexpNameTable())
	}
	want := make([]string, len(lines))
	for i := range lines {
		want[i] = kb.BuildKey(ctxOf(i))
	}
	if os.Getenv("VERIF_C05_STAGE_DEBUG") != "" {
		fmt.Fprintf(os.Stderr, "%s -> %q\n", expr, want)
	}
	var bad, panics int64
	var first, firstPanic atomic.Value
	var wg sync.WaitGroup
	start := make(chan struct{})
	for w := 0; w < workers; w++ {
		wg.Add(1)
		go func(w int) {
			defer wg.Done()
			defer func() {
				if e := recover(); e != nil {
					if atomic.AddInt64(&panics, 1) == 1 {
						firstPanic.Store(strings.ReplaceAll(fmt.Sprint(e), "\n", " "))
					}
				}
			}()
			// every worker has its own contexts (as every extractor worker has): the only shared object is kb
			ctxs := make([]expressions.KeyBuilderContext, len(lines))
			for i := range lines {
				ctxs[i] = ctxOf(i)
			}
			<-start
			for k := 0; k < rounds; k++ {
				for j := range lines {
					i := (j + w*3 + k) % len(lines)
					got := kb.BuildKey(ctxs[i])
					if got != want[i] {
						if atomic.AddInt64(&bad, 1) == 1 {
							first.Store(fmt.Sprintf("%s:%s:%s", Hex(lines[i]), HexS(got), HexS(want[i])))
						}
					}
				}
				if k%16 == 0 {
					runtime.Gosched()
				}
			}
		}(w)
	}
	close(start)
	wg.Wait()
	atomic.AddInt64(&c05StageEvals, int64(workers*rounds*len(lines)))
	return stageAnswer(bad, panics, first, firstPanic)
}

func stageAnswer(bad, panics int64, first, firstPanic atomic.Value) string {
	ans := fmt.Sprintf("ok bad=%d panics=%d", bad, panics)
	if s, _ := first.Load().(string); s != "" {
		ans += " first-wrong(line:got:sequential)=" + s
	}
	if s, _ := firstPanic.Load().(string); s != "" {
		ans += " panic=" + HexS(s)
	}
	return ans
}

// runExtractor feeds `rounds` passes over the lines to a real extractor and returns line number -> extracted key.
func runExtractor(workers, rounds, batch int, expr string, lines [][]byte, check func(ln uint64, key string)) (matched uint64, err error) {
	ch := make(chan extractor.InputBatch, 4)
	ext, err := extractor.New(ch, &extractor.Config{Matcher: fieldMatcher{}, Extract: expr, Workers: workers})
	if err != nil {
		return 0, err
	}
	go func() {
		ln := uint64(1)
		var cur []extractor.BString
		start := ln
		for k := 0; k < rounds; k++ {
			for _, l := range lines {
				cur = append(cur, extractor.BString(l))
				ln++
				if len(cur) == batch {
					ch <- extractor.InputBatch{Batch: cur, Source: "s", BatchStart: start}
					cur, start = nil, ln
				}
			}
		}
		if len(cur) > 0 {
			ch <- extractor.InputBatch{Batch: cur, Source: "s", BatchStart: start}
		}
		close(ch)
	}()
	for ms := range ext.ReadChan() {
		for _, mt := range ms {
			check(mt.LineNumber, mt.Extracted)
		}
	}
	return ext.MatchedLines(), nil
}

func c05StagesExtractor(workers, rounds, batch int, expr string, lines [][]byte) string {
	// sequential values: one pass, one worker; line number ln (1-based) holds lines[(ln-1) % len]
	want := make([]string, len(lines))
	if _, err := runExtractor(1, 1, 1, expr, lines, func(ln uint64, key string) { want[int(ln-1)%len(lines)] = key }); err != nil {
		return "bad-args compile: " + strings.ReplaceAll(err.Error(), "\n", " ")
	}
	wantMatched := 0
	for _, k := range want {
		if k != "" {
			wantMatched++
		}
	}
	var bad int64
	var first, none atomic.Value
	seen := 0
	matched, _ := runExtractor(workers, rounds, batch, expr, lines, func(ln uint64, key string) {
		seen++
		i := int(ln-1) % len(lines)
		if key != want[i] {
			bad++
			if bad == 1 {
				first.Store(fmt.Sprintf("%s:%s:%s", Hex(lines[i]), HexS(key), HexS(want[i])))
			}
		}
	})
	if seen != wantMatched*rounds || matched != uint64(seen) {
		bad++
		if bad == 1 {
			first.Store(fmt.Sprintf("matches:%d:%d", seen, wantMatched*rounds))
		}
	}
	atomic.AddInt64(&c05StageEvals, int64(rounds*len(lines)))
	return stageAnswer(bad, 0, first, none)
}

func c05StageRun(f []string) (string, bool) {
	switch f[0] {
	case "stages":
		return c05Stages(f), true
	case "stagecases":
		if len(f) < 3 {
			return "bad-args", true
		}
		seed, _ := strconv.ParseUint(f[2], 10, 64)
		return "ok " + strings.Join(c05StageCases(NewRand(mixSeed(seed)^0xC05), f[1], []string{"d", "x"}), "|"), true
	}
	return "", false
}
