//go:build c09 || c08 || c10

package main

import (
	"errors"
	"fmt"
	"strconv"
	"strings"

	"rare/pkg/expressions"
)

// Round 4 of C09: two ops that observe what `tpl` cannot.
//
//	look <opt> <template>   evaluate against a RECORDING context: every GetMatch(i) / GetKey(k) the compiled
//	                        expression performs, in order, with the exact index / key.  The array context of
//	                        `tpl` answers "" for every index it does not have, so {9223372036854775807} (a group)
//	                        and {9223372036854775808} (a key) look the same there; here they do not.
//	wfck <opt> <template>   does Compile report a syntax error (errors.Is for the three sentinels)?  The model side does
//	                        not compile: it answers with the decision procedure of the declarative grammar WellFormed.
//	cerr <opt> <template>   errors.go as a user sees it: StageCount(), errors.Is for the three sentinels,
//	                        Unwrap(), and the full Error() text.

type c09RecCtx struct {
	log []string
}

func (c *c09RecCtx) GetMatch(idx int) string {
	c.log = append(c.log, "m"+strconv.Itoa(idx))
	return "<" + strconv.Itoa(idx) + ">"
}

func (c *c09RecCtx) GetKey(key string) string {
	c.log = append(c.log, "k"+HexS(key))
	return "[" + key + "]"
}

func c09R4Run(f []string) (string, bool) {
	switch f[0] {
	case "look":
		if len(f) != 3 {
			return "bad-args", true
		}
		compiled, errs := c09Builder(f[1] == "1").Compile(string(UnHex(f[2])))
		if compiled == nil {
			return "nil-compiled errs=" + errsStr(errs), true
		}
		ctx := &c09RecCtx{}
		val := compiled.BuildKey(ctx)
		log := "."
		if len(ctx.log) > 0 {
			log = strings.Join(ctx.log, ",")
		}
		return fmt.Sprintf("ok errs=%s val=%s log=%s", errsStr(errs), HexS(val), log), true
	case "wfck":
		if len(f) != 3 {
			return "bad-args", true
		}
		compiled, errs := c09Builder(f[1] == "1").Compile(string(UnHex(f[2])))
		if compiled == nil {
			return "nil-compiled", true
		}
		syn := 0
		if errs != nil {
			var err error = errs
			if errors.Is(err, expressions.ErrorUnterminated) || errors.Is(err, expressions.ErrorEmptyStatement) || errors.Is(err, expressions.ErrorMissingFunction) {
				syn = 1
			}
		}
		return fmt.Sprintf("ok syn=%d", syn), true
	case "cerr":
		if len(f) != 3 {
			return "bad-args", true
		}
		compiled, errs := c09Builder(f[1] == "1").Compile(string(UnHex(f[2])))
		if compiled == nil {
			return "nil-compiled", true
		}
		b := func(x bool) string {
			if x {
				return "1"
			}
			return "0"
		}
		is, first, msg := "000", "-", "nil"
		if errs != nil {
			var err error = errs
			is = b(errors.Is(err, expressions.ErrorUnterminated)) + b(errors.Is(err, expressions.ErrorEmptyStatement)) + b(errors.Is(err, expressions.ErrorMissingFunction))
			if u := errors.Unwrap(err); u != nil {
				first = HexS(u.Error())
			}
			msg = HexS(err.Error())
		}
		return fmt.Sprintf("ok n=%d is=%s first=%s msg=%s", compiled.StageCount(), is, first, msg), true
	}
	return "", false
}

// lone words: everything that could or could not be an integer for strconv.Atoi
var c09LoneWords = []string{
	"0", "1", "9", "10", "007", "00", "000000000000000000000000000001", "+1", "-1", "+0", "-0", "+007", "-007",
	"9223372036854775807", "9223372036854775808", "-9223372036854775808", "-9223372036854775809", "+9223372036854775807",
	"+9223372036854775808", "18446744073709551615", "18446744073709551616", "99999999999999999999999999",
	"0009223372036854775807", "-0009223372036854775808", "4294967296", "2147483648", "-2147483649",
	"1e3", "1E3", "0x10", "0X10", "0b1", "0o7", "010", "08", "09", "1_0", "1_000", "_1", "1_", "0_1", "1.0", "1.", ".1", "1,0",
	"+", "-", "++1", "--1", "+-1", "-+1", "1+", "1-", "1-1", "+ 1", "0x", "x0", "1a", "a1", "١", "٣٤", "１２", "²", "½", "1 ",
	"1​", "−1", "＋1", "१२", "src", "line", "@", ".", "#", "a", "-a", "+a", "é", "\U0001d7cf", "0\x00", "\x001", "1\x7f",
	"inf", "NaN", "nil", "true", "0e0", "0.0", "-0.0", "'1'", "1'", "(1)", "1:", "1;2", "1=1", "1%", "$1", "#1", "1#", "1/2", "1*2",
}

func c09R4Gen(r *Rand, tier string) []string {
	var out []string
	look := func(o, t string) { out = append(out, fmt.Sprintf("look %s %s", o, HexS(t))) }
	cerr := func(o, t string) {
		out = append(out, fmt.Sprintf("cerr %s %s", o, HexS(t)))
		out = append(out, fmt.Sprintf("wfck %s %s", o, HexS(t)))
	}
	opts := []string{"0", "1"}
	for i, w := range c09LoneWords {
		o := opts[i%2]
		look(o, "{"+w+"}")
		if strings.ContainsAny(w, "\"\\{}") {
			continue
		}
		switch i % 5 {
		case 0:
			look(opts[(i+1)%2], "{ "+w+"\t}")
		case 1:
			look(opts[(i+1)%2], "{\""+w+"\"}")
		case 2:
			look(opts[(i+1)%2], "{a "+w+" {"+w+"}}")
		case 3:
			look(opts[(i+1)%2], "x{"+w+"}y{ \""+w+"\" }")
		default:
			look(opts[(i+1)%2], "{a {"+w+"} \"{"+w+"}\" {{"+w+"}}}")
		}
	}
	for _, t := range []string{"", "abc", "{}", "{\"\"}", "{\"\" }", "{ \"\"}", "{\"\"\"\"}", "{\"a b\"}", "{\"1\"}", "{\" 1\"}", "{\"1 \"}", "{{0}}", "{{0} }", "{a {0} {1} {k} {0}}",
		"{a {g {1} {k}} {0}}", "{0}{1}{2}", "{k}{k}", "{-1}{-2}", "{a {b}}", "{bad {0}}", "{nil {0}}", "{nofn {0}}", "{a {0}", "{1\\ }", "{\\1}", "{1\\n}", "{\\-1}", "{+\\1}"} {
		look("0", t)
		look("1", t)
	}
	// errors.go: none, one, several; nested (inherited) ones; every kind; builder errors; contexts with
	// back-quotes, newlines, multi-byte and invalid UTF-8; offsets
	for _, t := range []string{"", "abc", "{0}", "{a b}", "{", "{}", "{nofn b}", "{bad 1}", "{nil 1}", "a{", "ab{}", "abc{nofn x}", "{}{}", "{}{", "{nofn x}{}{", "{a {}}", "{a {nofn x}}", "{a {b}",
		"{a \"{\"}", "{a {bad 1} {nil 2} {} {nofn 1 2} \"{\"}", "{a {a {a {}}}}", "xx{a yy{a zz{}}}", "{a x{}y{nofn q}z}", "é{}", "😀😀{nofn é}", "{nofn `}", "{nofn \"a\nb\"}", "{ \n }",
		"\xff{}", "{nofn \xff}", "\xff\xfe{", "{\xc3}", "a\\{b{}", "{a}}{", "{bad}", "{nil}", "{bad 1}{bad 2}", "{nil 1}x{nil 2}", "{a {bad 1}}", "{a {nil 1} b}", "x{0}y{1}z", "{a b}{a c}", "x{a b}",
		"{0}{a b}", "{a b}{0}", "{a {0}}x", "\\{", "{\t\n}", "{a b} {", "{a {} {} {}}", "{nofn {}}", "{nofn {", "{a \"}\"}", "{a }}"} {
		cerr("0", t)
		cerr("1", t)
	}
	n := 400
	if tier == "thorough" {
		n = 6000
	}
	for i := 0; i < n; i++ {
		_, printed := c09TreeCase(r)
		look(c09Opt(r), printed)
		m := c09Mutate(r, printed)
		if r.Chance(1, 2) {
			look(c09Opt(r), m)
		}
		cerr(c09Opt(r), m)
		if r.Chance(1, 3) {
			cerr(c09Opt(r), c09Escape(c09LitText(r))+m+c09Plain(r)+c09Mutate(r, printed))
		}
		if r.Chance(1, 3) {
			cerr(c09Opt(r), c09G{r: r, broken: true}.template(r.Intn(4)))
		}
		if r.Chance(1, 4) {
			cerr(c09Opt(r), c09Corrupt(r, m))
		}
		// random lone words: digit strings of random length with optional sign / junk
		var w strings.Builder
		if r.Chance(1, 3) {
			w.WriteString(Pick(r, []string{"+", "-", "", "0", "00"}))
		}
		for k := r.Range(1, 22); k > 0; k-- {
			w.WriteByte(byte('0' + r.Intn(10)))
		}
		if r.Chance(1, 6) {
			w.WriteString(Pick(r, []string{"_", "e1", "x", ".", "٠", " "}))
		}
		if r.Chance(1, 4) {
			look(c09Opt(r), "{"+Pick(r, []string{"922337203685477580", "-922337203685477580", "1844674407370955161"})+strconv.Itoa(r.Intn(10))+"}")
		}
		look(c09Opt(r), "{"+w.String()+"}")
	}
	return out
}
