//go:build c15

package main

// C15 – follow mode.  One case = one history executed on a REAL file (under $VERIF_WORK, default
// /verif/work/tmp) that is followed through the real followreader.New(...).
//
//	follow <notify|poll> <reopen 0|1> <tail 0|1> <history>
//
// history = comma separated steps
//
//	i<hex>   (first) the file exists with this content when following starts;  n  it does not exist
//	S        (second, optional) the consumer does not call Read until the first `r`
//	B<n>     size of the consumer's buffer (default 64)         A<n>  ReadAttempts of the poller (default 2)
//	a<hex>   append bytes to the file at the path (no-op if there is none)
//	p<ms>    pause
//	w        wait until the delivered stream ends with the bytes appended last ("drain")
//	d        remove-after-drain: `w`, then remove the file; plain follow: then wait for EOF
//	x        remove the file right now
//	c        create a new empty file at the path (no-op if one exists)
//	H<hex>   append and hold: the consumer is parked (outside Read) as soon as it has delivered these bytes
//	r        release the consumer
//	L<hex>   (consumer parked, i.e. after H) release the consumer and append these bytes so that they land in the
//	         LAST PollDelay sleep of the poller's attempt loop – after the last empty read, before the os.Stat
//	         size/offset comparison (PollDelay is scaled to 20ms for this: the append is issued ReadAttempts x
//	         PollDelay - PollDelay/2 after the release); notify reader: release, then append
//	t<n>     truncate the file at the path to n bytes, in place (copytruncate rotation; no-op if there is none or it is
//	         not longer than n); the bytes appended last are no longer waited for
//	m        rename the file at the path away (`mv f f.1`: logrotate's default rotation); no-op if there is none
//	o<hex>   atomic replace: a new file with this content is renamed ONTO the path (no-op if there is no file there);
//	         with re-open the content counts as "appended last" (`w`, `d` and the end of the history wait for it),
//	         without re-open it is not followed and not awaited.  Op `followspec` is `follow` with the model answering
//	         what the property asks for (a replace counts as removal + re-creation); the two agree since /repo f4a9570
//	         (before: the known finding "atomic replace" of known_findings/C15.json)
//	q<hex>   append without expecting delivery (the steps `w`, `d` and the end of the history do not wait for these bytes)
//
// Answer: ok <delivered hex> eof=<0|1> drainerr=<0|1>.  All waits are bounded; a wait that expires
// just lets the history go on (the final stream is then compared as it is).
//
// Observation point (b), the batches of batchers.TailFilesToChan: op `tailb`, see c15tail.go.

import (
	"bytes"
	"fmt"
	"io"
	"os"
	"path/filepath"
	"strconv"
	"strings"
	"sync"
	"time"

	"rare/pkg/followreader"
)

type c15Run struct {
	mu        sync.Mutex
	cond      *sync.Cond
	delivered []byte
	eof       bool
	readErr   string
	hold      bool   // park the consumer when the stream ends with holdOn
	holdOn    []byte // nil: park unconditionally (S)
	parked    bool
	stop      bool
}

func (c *c15Run) waitFor(pred func() bool, max time.Duration) bool {
	deadline := time.Now().Add(max)
	c.mu.Lock()
	defer c.mu.Unlock()
	for !pred() {
		left := time.Until(deadline)
		if left <= 0 {
			return false
		}
		t := time.AfterFunc(left, func() { c.mu.Lock(); c.cond.Broadcast(); c.mu.Unlock() })
		c.cond.Wait()
		t.Stop()
	}
	return true
}

var c15Counters = map[string]int{}
var c15Renames int

func c15Follow(f []string) string {
	mode, reopen, tail := f[1], f[2] == "1", f[3] == "1"
	steps := strings.Split(f[4], ",")
	root := os.Getenv("VERIF_WORK")
	if root == "" {
		root = "/verif/work/tmp"
	}
	os.MkdirAll(root, 0o755)
	dir, err := os.MkdirTemp(root, "c15-")
	if err != nil {
		return "harness-error " + err.Error()
	}
	defer os.RemoveAll(dir)
	path := filepath.Join(dir, "followed.log")

	bufSize, attempts := 64, 2
	startHeld := false
	for _, st := range steps {
		switch {
		case st == "S":
			startHeld = true
		case strings.HasPrefix(st, "B"):
			bufSize, _ = strconv.Atoi(st[1:])
		case strings.HasPrefix(st, "A"):
			attempts, _ = strconv.Atoi(st[1:])
		}
	}
	if bufSize < 1 {
		bufSize = 1
	}
	if len(steps) > 0 && strings.HasPrefix(steps[0], "i") {
		if err := os.WriteFile(path, UnHex(steps[0][1:]), 0o644); err != nil {
			return "harness-error " + err.Error()
		}
	}
	poll := mode == "poll"
	r, err := followreader.New(path, reopen, poll)
	if err != nil {
		return "ok - eof=0 drainerr=0 newerr=1"
	}
	pollDelay := time.Millisecond
	var pr *followreader.PollingFollowReader
	if poll {
		pr = r.(*followreader.PollingFollowReader)
		pr.PollDelay = pollDelay
		pr.ReadAttempts = attempts
	}
	drainErr := 0
	if tail {
		if err := r.Drain(); err != nil {
			drainErr = 1
		}
	}

	c := &c15Run{}
	c.cond = sync.NewCond(&c.mu)
	if startHeld {
		c.hold, c.holdOn = true, nil
	}
	readerDone := make(chan struct{})
	go func() {
		defer close(readerDone)
		defer func() { recover() }()
		buf := make([]byte, bufSize)
		for {
			c.mu.Lock()
			for !c.stop && c.hold && (c.holdOn == nil || bytes.HasSuffix(c.delivered, c.holdOn)) {
				c.parked = true
				c.cond.Broadcast()
				c.cond.Wait()
			}
			c.parked = false
			stop := c.stop
			c.mu.Unlock()
			if stop {
				return
			}
			n, err := r.Read(buf)
			c.mu.Lock()
			if n > 0 {
				c.delivered = append(c.delivered, buf[:n]...)
			}
			if err != nil {
				if err == io.EOF {
					c.eof = true
				} else if !c.stop {
					c.readErr = err.Error()
				}
				c.cond.Broadcast()
				c.mu.Unlock()
				return
			}
			c.cond.Broadcast()
			c.mu.Unlock()
		}
	}()

	const maxWait = 1500 * time.Millisecond
	var last []byte // bytes appended last (to a file that existed)
	exists := func() bool { _, err := os.Lstat(path); return err == nil }
	appendBytes := func(b []byte) {
		fh, err := os.OpenFile(path, os.O_WRONLY|os.O_APPEND, 0)
		if err != nil {
			return
		}
		if len(b) > 0 {
			fh.Write(b)
			last = b
		}
		fh.Close()
	}
	drain := func() {
		if last == nil {
			return
		}
		want := last
		if !c.waitFor(func() bool { return c.eof || bytes.HasSuffix(c.delivered, want) }, maxWait) {
			c15Counters["wait.expired"]++
		}
	}
	for i, st := range steps {
		if st == "" || (i == 0 && (st == "n" || st[0] == 'i')) {
			continue
		}
		arg := st[1:]
		switch st[0] {
		case 'a':
			appendBytes(UnHex(arg))
		case 'q':
			appendBytes(UnHex(arg))
			last = nil
		case 'o':
			last = nil
			if exists() {
				tmp := path + ".tmp"
				b := UnHex(arg)
				if os.WriteFile(tmp, b, 0o644) == nil && os.Rename(tmp, path) == nil {
					c15Counters["history.replace_by_rename"]++
					if reopen && len(b) > 0 {
						last = b
					}
				}
			}
		case 'm':
			if exists() {
				c15Renames++
				os.Rename(path, fmt.Sprintf("%s.%d", path, c15Renames))
				c15Counters["history.rename_away"]++
			}
		case 't':
			n, _ := strconv.Atoi(arg)
			if st, err := os.Stat(path); err == nil && st.Size() > int64(n) {
				os.Truncate(path, int64(n))
				c15Counters["history.truncate"]++
			}
			last = nil
		case 'p':
			ms, _ := strconv.Atoi(arg)
			time.Sleep(time.Duration(ms) * time.Millisecond)
		case 'w':
			drain()
		case 'd':
			drain()
			if exists() {
				os.Remove(path)
				if !reopen {
					if !c.waitFor(func() bool { return c.eof }, maxWait) {
						c15Counters["wait.expired"]++
					}
				}
			}
		case 'x':
			os.Remove(path)
		case 'c':
			if fh, err := os.OpenFile(path, os.O_WRONLY|os.O_CREATE|os.O_EXCL, 0o644); err == nil {
				fh.Close()
			}
		case 'H':
			b := UnHex(arg)
			c.mu.Lock()
			alreadyHeld := c.hold
			if !alreadyHeld && len(b) > 0 && exists() {
				c.hold, c.holdOn = true, b
			}
			c.mu.Unlock()
			appendBytes(b)
			if !alreadyHeld && len(b) > 0 {
				if !c.waitFor(func() bool { return c.parked || c.eof }, maxWait) {
					c15Counters["wait.expired"]++
				}
			}
		case 'r':
			c.mu.Lock()
			c.hold, c.holdOn = false, nil
			c.cond.Broadcast()
			c.mu.Unlock()
		case 'L':
			c.mu.Lock()
			timed := pr != nil && c.hold && c.parked
			if timed {
				// the reader goroutine is parked outside Read (it waits on c.cond): the field is not in use
				pollDelay = 20 * time.Millisecond
				pr.PollDelay = pollDelay
			}
			c.hold, c.holdOn = false, nil
			c.cond.Broadcast()
			c.mu.Unlock()
			if timed {
				time.Sleep(time.Duration(attempts)*pollDelay - pollDelay/2)
				c15Counters["poll.append_in_last_sleep"]++
			}
			appendBytes(UnHex(arg))
		}
	}
	// end of history: release, let the follower catch up, then a grace period in which a duplicate would show up
	c.mu.Lock()
	c.hold, c.holdOn = false, nil
	c.cond.Broadcast()
	c.mu.Unlock()
	grace := 25 * time.Millisecond
	if poll {
		grace = time.Duration(8*(attempts+2)) * pollDelay
		if pollDelay > time.Millisecond { // an `L` step scaled the delay: two full cycles are enough
			grace = time.Duration(2*(attempts+1)) * pollDelay
		}
	}
	if last != nil {
		want := last
		if !c.waitFor(func() bool { return c.eof || bytes.HasSuffix(c.delivered, want) }, maxWait) {
			c15Counters["final.expired"]++
		}
	} else {
		time.Sleep(2 * grace)
	}
	c.waitFor(func() bool { return c.eof }, grace)

	c.mu.Lock()
	out := append([]byte{}, c.delivered...)
	eof := 0
	if c.eof {
		eof = 1
	}
	rerr := c.readErr
	c.stop = true
	c.cond.Broadcast()
	c.mu.Unlock()
	if pr != nil {
		pr.PollDelay = time.Hour // the abandoned Read must not keep spinning
	}
	r.Close()
	if rerr != "" {
		return "readerr " + rerr
	}
	return fmt.Sprintf("ok %s eof=%d drainerr=%d", Hex(out), eof, drainErr)
}

func c15RunCase(f []string) string {
	if f[0] == "tailb" && len(f) >= 2 {
		return c15TailReplay(f)
	}
	if (f[0] == "ttrace" || f[0] == "tmut") && len(f) >= 2 {
		return c15TraceReplay(f)
	}
	if f[0] == "new" {
		return c15New(f)
	}
	if f[0] == "cli" {
		return c15Cli(f)
	}
	if f[0] == "api" {
		return c15Api(f)
	}
	if f[0] == "prologue" {
		return c15Prologue(f)
	}
	if (f[0] != "follow" && f[0] != "followspec") || len(f) < 5 {
		return "bad-op"
	}
	return c15Follow(f)
}

// ---------------------------------------------------------------- generator

type c15Gen struct {
	r     *Rand
	k     int
	steps []string
}

var c15Alpha = []byte{'a', 'b', 'z', ' ', '\n', '\n', 0x00, 0xff, 0xc3, 0xa9, '\r', '"'}

func (g *c15Gen) chunk(min, max int) []byte {
	g.k++
	b := []byte(fmt.Sprintf("%03d:", g.k%1000))
	n := g.r.Range(min, max)
	for i := 0; i < n; i++ {
		b = append(b, Pick(g.r, c15Alpha))
	}
	return b
}

// short first chunk of a re-created file (4 bytes: shorter than anything the previous file can have held)
func (g *c15Gen) short() []byte {
	g.k++
	return []byte(fmt.Sprintf("%03d!", g.k%1000))
}

func (g *c15Gen) add(s string) { g.steps = append(g.steps, s) }

func (g *c15Gen) appends(n int) {
	for i := 0; i < n; i++ {
		max := 12
		if g.r.Chance(1, 12) {
			max = 3000
		}
		g.add("a" + Hex(g.chunk(3, max)))
		if g.r.Chance(1, 3) {
			g.add(fmt.Sprintf("p%d", g.r.Range(0, 6)))
		}
		if g.r.Chance(1, 5) {
			g.add("w")
		}
	}
}

func c15GenCase(r *Rand) string {
	g := &c15Gen{r: r}
	mode := Pick(r, []string{"notify", "poll"})
	reopen := r.Bool()
	tail := r.Chance(1, 3)
	absent := reopen && r.Chance(1, 6)
	if absent {
		g.add("n")
	} else if r.Chance(1, 4) {
		g.add("i-")
	} else {
		g.add("i" + Hex(g.chunk(3, 40)))
	}
	shape := r.Intn(10)
	if absent && shape == 9 {
		g.add("S")
	}
	if r.Chance(1, 2) {
		g.add(fmt.Sprintf("B%d", Pick(r, []int{1, 2, 3, 7, 16, 64, 4096})))
	}
	if mode == "poll" && r.Chance(1, 2) {
		g.add(fmt.Sprintf("A%d", Pick(r, []int{1, 2, 3, 5})))
	}
	if absent {
		g.add("c")
		if mode == "notify" && r.Chance(1, 2) { // a delete signal older than the file that gets opened
			g.add("x")
			g.add("c")
		}
		if r.Chance(1, 2) {
			g.add(fmt.Sprintf("p%d", r.Range(0, 10)))
		}
		g.add("a" + Hex(g.short()))
		if g.steps[1] == "S" {
			g.add(fmt.Sprintf("p%d", r.Range(10, 30)))
			g.add("r")
		}
		g.add("w")
		g.appends(r.Range(1, 3))
	}
	// in-place phase
	g.appends(r.Range(0, 6))
	switch {
	case shape < 4: // in place only
		g.appends(r.Range(1, 6))
		if mode == "poll" && r.Chance(2, 3) {
			// timing class: the file is quiet for ReadAttempts empty polls and the next append lands in the last
			// PollDelay sleep, before the size comparison (re-open: Stat sees a grown file -> re-open route)
			g.add("H" + Hex(g.chunk(3, 12)))
			g.add("L" + Hex(g.chunk(3, 12)))
			if r.Bool() {
				g.add("w")
				g.appends(r.Range(1, 2))
			}
		}
	case shape < 7: // rotations with the drain discipline
		rot := 1
		if reopen {
			rot = r.Range(1, 3)
		}
		for i := 0; i < rot; i++ {
			if len(g.steps) > 0 && !strings.HasPrefix(g.steps[len(g.steps)-1], "a") {
				g.add("a" + Hex(g.chunk(3, 12))) // the generation being removed has a regular chunk
			}
			g.add("d")
			if !reopen {
				if r.Bool() { // a file created after the stream ended is not followed
					g.add("c")
					g.add("a" + Hex(g.chunk(3, 12)))
					g.add("p10")
				}
				break
			}
			if r.Chance(1, 3) {
				g.add(fmt.Sprintf("p%d", r.Range(0, 12)))
			}
			g.add("c")
			if r.Chance(1, 3) {
				g.add(fmt.Sprintf("p%d", r.Range(0, 12)))
			}
			g.add("a" + Hex(g.short()))
			g.add("w")
			g.appends(r.Range(1, 4))
		}
	default: // a window in which the consumer is busy (parked outside Read), last episode
		g.add("H" + Hex(g.chunk(3, 12)))
		win := r.Intn(5)
		switch win {
		case 0: // appends only: signals coalesce
			for i, n := 0, r.Range(1, 5); i < n; i++ {
				g.add("a" + Hex(g.chunk(3, 12)))
			}
		case 1: // rotation; new file shorter than the old one
			g.add("x")
			g.add("c")
			g.add("a" + Hex(g.short()))
		case 2: // rotation; new file as long as / longer than the old one (outside the polling proviso)
			g.add("x")
			g.add("c")
			g.add("a" + Hex(g.chunk(60, 90)))
			g.add("a" + Hex(g.chunk(60, 3200)))
		case 3: // bytes appended right before the removal, then rotation
			g.add("a" + Hex(g.chunk(3, 12)))
			g.add("x")
			if r.Bool() {
				g.add("c")
				g.add("a" + Hex(g.short()))
			}
		case 4: // two rotations
			g.add("x")
			g.add("c")
			g.add("a" + Hex(g.short()))
			g.add("x")
			g.add("c")
			g.add("a" + Hex(g.short()))
		}
		g.add(fmt.Sprintf("p%d", r.Range(5, 30)))
		g.add("r")
		if mode == "notify" && reopen && win != 3 && r.Bool() {
			g.appends(r.Range(1, 3))
		}
	}
	ro, tl := 0, 0
	if reopen {
		ro = 1
	}
	if tail {
		tl = 1
	}
	return fmt.Sprintf("follow %s %d %d %s", mode, ro, tl, strings.Join(g.steps, ","))
}

// Rotation by rename (`mv f f.1`, then a new file at the path).  Re-open follow: like remove + create (notify: the
// Rename event raises the delete signal; poll: Stat finds another / no file).  Plain notify follow keeps the renamed
// file open, does not end and does not follow the new file; plain polling follow ends when Stat finds no file.
func c15GenRenameCase(r *Rand) string {
	g := &c15Gen{r: r}
	mode := Pick(r, []string{"notify", "poll"})
	reopen := r.Chance(2, 3)
	tail := r.Chance(1, 4)
	if r.Chance(1, 4) {
		g.add("i-")
	} else {
		g.add("i" + Hex(g.chunk(3, 40)))
	}
	if r.Chance(1, 2) {
		g.add(fmt.Sprintf("B%d", Pick(r, []int{1, 2, 3, 7, 16, 64, 4096})))
	}
	if mode == "poll" && r.Chance(1, 2) {
		g.add(fmt.Sprintf("A%d", Pick(r, []int{1, 2, 3, 5})))
	}
	g.appends(r.Range(0, 3))
	rot := 1
	if reopen {
		rot = r.Range(1, 3)
	}
	for i := 0; i < rot; i++ {
		windowed := r.Chance(1, 3) || (mode == "poll" && !reopen)
		if windowed { // the rotation happens while the consumer is busy
			g.add("H" + Hex(g.chunk(12, 24)))
			g.add("m")
			if reopen || r.Bool() {
				g.add("c")
				g.add("q" + Hex(g.short()))
			}
			g.add(fmt.Sprintf("p%d", r.Range(5, 30)))
			g.add("r")
			if reopen {
				g.add("a" + Hex(g.short()))
				g.add("w")
			}
		} else {
			g.add("a" + Hex(g.chunk(12, 24)))
			g.add("w")
			g.add("m")
			if r.Chance(1, 3) {
				g.add(fmt.Sprintf("p%d", r.Range(0, 12)))
			}
			g.add("c")
			if reopen {
				g.add("a" + Hex(g.short()))
				g.add("w")
			} else { // plain notify: the new file is not followed
				g.add("q" + Hex(g.chunk(3, 12)))
				g.add("p20")
			}
		}
		if reopen {
			g.appends(r.Range(0, 3))
		}
	}
	if !reopen && mode == "notify" && r.Bool() {
		g.add("x") // the file now at the path is removed: a Remove event of the followed name ends plain follow
		g.add("p30")
	}
	ro, tl := 0, 0
	if reopen {
		ro = 1
	}
	if tail {
		tl = 1
	}
	return fmt.Sprintf("follow %s %d %d %s", mode, ro, tl, strings.Join(g.steps, ","))
}

// Rotations of every kind in one history, above all the atomic replace (`o`: a new file renamed ONTO the path – one
// Create event, no Remove; followed by -F since /repo f4a9570): replace, rename away + create, remove + create, mixed,
// with the consumer caught up or busy (window), twice inside one window (the first replacement is never opened),
// with an empty replacement, and – notify – with a replacement longer than everything delivered so far.  Polling
// re-open follow: every new file is shorter than the old offset when the poller looks (the proviso of the property).
// Plain follow keeps the descriptor it has (notify: does not end until a Remove event of the followed name; poll: until
// Stat finds no file).
func c15GenReplaceCase(r *Rand) string {
	g := &c15Gen{r: r}
	mode := Pick(r, []string{"notify", "notify", "poll"})
	reopen := r.Chance(3, 4)
	tail := r.Chance(1, 4)
	if r.Chance(1, 4) {
		g.add("i-")
	} else {
		g.add("i" + Hex(g.chunk(3, 40)))
	}
	if r.Chance(1, 2) {
		g.add(fmt.Sprintf("B%d", Pick(r, []int{1, 2, 3, 7, 16, 64, 4096})))
	}
	if mode == "poll" && r.Chance(1, 2) {
		g.add(fmt.Sprintf("A%d", Pick(r, []int{1, 2, 3, 5})))
	}
	g.appends(r.Range(0, 2))
	content := func() []byte {
		if mode == "notify" && r.Chance(1, 3) {
			return g.chunk(20, 60) // longer than the old offset may be: no proviso for the notify reader
		}
		if reopen && r.Chance(1, 8) {
			return nil // an empty replacement
		}
		return g.short()
	}
	hexOrDash := func(b []byte) string {
		if len(b) == 0 {
			return "-"
		}
		return Hex(b)
	}
	rot := 1
	if reopen {
		rot = r.Range(1, 4)
	}
	for i := 0; i < rot; i++ {
		kind := Pick(r, []string{"o", "o", "o", "m", "x"})
		if !reopen {
			kind = "o"
		}
		c15Counters["gen.rotation."+kind+"."+mode]++
		windowed := r.Chance(1, 3) || (mode == "poll" && !reopen)
		if windowed { // the rotation happens while the consumer is busy
			g.add("H" + Hex(g.chunk(12, 24)))
		} else {
			g.add("a" + Hex(g.chunk(12, 24)))
			g.add("w")
		}
		switch kind {
		case "o":
			g.add("o" + hexOrDash(content()))
			if windowed && reopen && r.Chance(1, 3) {
				g.add("o" + hexOrDash(g.short())) // replaced again before the reader looked
			}
		case "m":
			g.add("m")
			g.add("c")
		case "x":
			g.add("x")
			g.add("c")
		}
		if windowed {
			if r.Bool() {
				g.add("q" + Hex(g.short()))
			}
			g.add(fmt.Sprintf("p%d", r.Range(5, 30)))
			g.add("r")
		} else if r.Chance(1, 3) {
			g.add(fmt.Sprintf("p%d", r.Range(0, 12)))
		}
		if reopen {
			g.add("a" + Hex(g.short()))
			g.add("w")
			g.appends(r.Range(0, 2))
		} else { // plain follow: what is written to the new file is not followed
			g.add("q" + Hex(g.chunk(3, 12)))
			g.add("p20")
		}
	}
	if !reopen && r.Bool() {
		g.add("x") // the file now at the path is removed: Remove event / failing Stat ends plain follow
		g.add("p30")
	}
	ro, tl := 0, 0
	if reopen {
		ro = 1
	}
	if tail {
		tl = 1
	}
	return fmt.Sprintf("follow %s %d %d %s", mode, ro, tl, strings.Join(g.steps, ","))
}

// exactly n bytes
func (g *c15Gen) exact(n int) []byte {
	g.k++
	b := []byte(fmt.Sprintf("%03d:", g.k%1000))
	for len(b) < n {
		b = append(b, Pick(g.r, c15Alpha))
	}
	return b[:n]
}

// In-place truncation (copytruncate rotation): outside the property, the behaviour of both readers is in the model
// (Rare.Model.C15Trunc).  The reader has delivered everything (offset P = size) when the file is truncated to n bytes;
// classes: 0 the new generation stays below P, 1 grows back to exactly P, 2 grows past P, 3 partial truncation (n > 0).
// Everything that could race with the poller's size comparison happens while the consumer is parked (H ... r), or
// leaves the file shorter than P until the restart has been observed (`a<short>,w`).
func c15GenTruncCase(r *Rand) string {
	g := &c15Gen{r: r}
	mode := Pick(r, []string{"notify", "poll"})
	reopen := r.Bool()
	tail := r.Chance(1, 3)
	size := 0
	app := func(kind string, b []byte) { g.add(kind + Hex(b)); size += len(b) }
	if r.Chance(1, 4) {
		g.add("i-")
	} else {
		b := g.chunk(3, 40)
		g.add("i" + Hex(b))
		size = len(b)
	}
	if r.Chance(1, 2) {
		g.add(fmt.Sprintf("B%d", Pick(r, []int{1, 2, 3, 7, 16, 64, 4096})))
	}
	if mode == "poll" && r.Chance(1, 2) {
		g.add(fmt.Sprintf("A%d", Pick(r, []int{1, 2, 3, 5})))
	}
	for i, n := 0, r.Intn(3); i < n; i++ {
		app("a", g.chunk(3, 12))
	}
	restarts := mode == "poll" && reopen // the reader that takes a shorter file for a new one
	cls := r.Intn(4)
	windowed := r.Bool() || (restarts && (cls == 1 || cls == 2))
	if windowed {
		app("H", g.chunk(12, 24))
	} else {
		app("a", g.chunk(12, 24))
		g.add("w")
	}
	P := size // >= 16
	n := 0
	if cls == 3 {
		n = r.Range(1, P-12)
	}
	g.add(fmt.Sprintf("t%d", n))
	size = n
	c15Counters[fmt.Sprintf("gen.truncate.class%d.%s.reopen%v", cls, mode, reopen)]++
	if !windowed && r.Bool() {
		g.add(fmt.Sprintf("p%d", r.Range(0, 10)))
	}
	switch cls {
	case 0, 3:
		if windowed || !restarts {
			if cls == 0 || r.Bool() {
				app("q", g.short())
			}
		}
	case 1:
		if r.Bool() && P-size > 8 {
			app("q", g.exact(4))
		}
		app("q", g.exact(P-size))
	case 2:
		if r.Bool() {
			app("q", g.exact(P-size))
			app("q", g.exact(r.Range(1, 20)))
		} else {
			app("q", g.exact(P-size+r.Range(1, 20)))
		}
	}
	if windowed {
		g.add(fmt.Sprintf("p%d", r.Range(5, 30)))
		g.add("r")
	}
	caughtUp := size >= P
	if restarts && size < P {
		// wait until the restart has been seen: a short chunk that keeps the file below the old offset
		app("a", g.short())
		g.add("w")
		caughtUp = true
	}
	if !caughtUp && r.Bool() { // still blind: cross the old offset now, the part beyond it is delivered
		g.add(fmt.Sprintf("p%d", r.Range(5, 20)))
		app("q", g.exact(P-size+r.Range(1, 20)))
		g.add("p20")
		caughtUp = true
	}
	if caughtUp && r.Chance(2, 3) {
		for i, k := 0, r.Range(1, 2); i < k; i++ {
			app("a", g.chunk(3, 12))
			if r.Bool() {
				g.add("w")
			}
		}
	}
	ro, tl := 0, 0
	if reopen {
		ro = 1
	}
	if tail {
		tl = 1
	}
	return fmt.Sprintf("follow %s %d %d %s", mode, ro, tl, strings.Join(g.steps, ","))
}

func c15GenAll(r *Rand, tier string) []string {
	if v, err := strconv.Atoi(os.Getenv("VERIF_C15_ONLY_TRUNC")); err == nil && v > 0 { // by hand: only truncation histories
		var out []string
		for i := 0; i < v; i++ {
			out = append(out, c15GenTruncCase(r))
			out = append(out, c15GenRenameCase(r))
			out = append(out, c15GenReplaceCase(r))
		}
		return out
	}
	n := 40
	if tier == "thorough" {
		n = 600
	}
	out := make([]string, 0, n)
	for i := 0; i < n; i++ {
		out = append(out, c15GenCase(r))
	}
	nt := 12
	if tier == "thorough" {
		nt = 160
	}
	for i := 0; i < nt; i++ {
		out = append(out, c15GenTruncCase(r))
	}
	for i := 0; i < nt; i++ {
		out = append(out, c15GenRenameCase(r))
	}
	for i := 0; i < nt+nt/2; i++ {
		out = append(out, c15GenReplaceCase(r))
	}
	// the wiring: followreader.New and the command line (c15wire.go)
	out = append(out, c15WireGenAll(r, tier)...)
	// the prologue of the per-file goroutine of TailFilesToChan on regular files, pipes, missing files / directories (c15open.go)
	out = append(out, c15PrologueGenAll(r, tier)...)
	// observation point (b): the real code runs HERE, the observed batch lengths become part of the case
	out = append(out, c15TailGenAll(r, tier)...)
	// trace inclusion: event logs of real TailFilesToChan / VerifOpenReaderToChan runs (c15trace.go)
	out = append(out, c15TraceGenAll(r, tier)...)
	return out
}

func c15Stats(cases []string) map[string]int {
	st := map[string]int{}
	for k, v := range c15Counters {
		st[k] = v
	}
	for _, c := range cases {
		f := strings.Fields(c)
		if len(f) >= 2 && f[0] == "tailb" {
			c15TailStats(st, c)
			continue
		}
		if len(f) >= 2 && (f[0] == "ttrace" || f[0] == "tmut") {
			c15TraceStats(st, c)
			continue
		}
		if len(f) >= 2 && (f[0] == "new" || f[0] == "cli" || f[0] == "api" || f[0] == "prologue") {
			st["wiring."+f[0]]++
			continue
		}
		if len(f) < 5 {
			continue
		}
		st["mode."+f[1]]++
		st["reopen."+f[2]]++
		st["tail."+f[3]]++
		h := "," + f[4] + ","
		if strings.Contains(h, ",d,") {
			st["history.remove_after_drain"]++
		}
		if strings.Contains(h, ",H") {
			st["history.busy_consumer_window"]++
		}
		if strings.Contains(h, ",L") {
			st["history.append_in_last_poll_sleep."+f[1]]++
		}
		if strings.Contains(h, ",x,") {
			st["history.remove_while_busy"]++
		}
		if strings.HasPrefix(f[4], "n") {
			st["history.absent_at_start"]++
		}
		if strings.Contains(h, ",m,") {
			st["history.rename_rotation."+f[1]+".reopen"+f[2]]++
		}
		if strings.Contains(h, ",o") {
			st["history.atomic_replace."+f[1]+".reopen"+f[2]]++
		}
		if strings.Contains(h, ",t") {
			st["history.truncate_in_place."+f[1]+".reopen"+f[2]]++
		}
		st["steps.total"] += strings.Count(f[4], ",") + 1
	}
	return st
}

func init() {
	Register("C15", &Prop{Gen: c15GenAll, Run: c15RunCase, Stats: c15Stats, Timeout: 30 * time.Second})
}
