//go:build c10 || c08

package main

import (
	"fmt"
	"strings"

	"rare/pkg/expressions/funcfile"
	"rare/pkg/expressions/funclib"
)

// Nested funcs-file functions (C10, theorems call_nested_eq_body / call_inline_compose / loader_registry /
// loader_rejects_unknown_callee; seeded change C10-nested-userfn-unwrap).
//
//	ftree <opt> <defs> <tokens> <elems> <keys>   definitions given as (tree, style) pairs (`namehex/tokens|…`) and a call
//	                                            tree: the harness prints a definitions file and the call with its own
//	                                            printer, loads the file with the real LoadDefinitions and evaluates the
//	                                            call; the model prints with the SPEC's printer, checks the fragment
//	                                            conditions and value = evalTree under semDefs (call = inlined body).

var c10UserNames = []string{"fa", "fb", "fc", "dbl", "w2", "é1", "f-x", "my.fn"}

// the loader reads LINES: no line feed inside a definition (every other white-space rune is fine)
func c10NoNewline(t *c09Node) {
	fix := func(s string) string { return strings.ReplaceAll(s, "\n", " ") }
	t.lead, t.trail = fix(t.lead), fix(t.trail)
	for i := range t.seps {
		t.seps[i] = fix(t.seps[i])
	}
	for _, k := range t.kids {
		c10NoNewline(k)
	}
}

func c10FtreeCase(r *Rand) string {
	g := &c09FragGen{r: r}
	nd := 1 + r.Intn(4)
	var defs []string
	for i := 0; i < nd; i++ {
		name := Pick(r, c10UserNames)
		var body *c09Node
		switch k := r.Intn(10); {
		case k == 0:
			body = g.leafDyn()
		case k == 1:
			body = &c09Node{kind: 'L', text: Pick(r, []string{"lit", "a b", "x-y", "é世", "[{0}]", "50%"})}
		case k < 5 && len(g.user) > 0: // a call of an earlier function forwarding parameters: the nesting under test
			body = g.userCall(1 + r.Intn(2))
		default:
			body = g.call(Pick(r, c09FragFns), 1+r.Intn(2), r.Bool())
		}
		c10NoNewline(body)
		var toks []string
		body.tokens(&toks)
		defs = append(defs, HexS(name)+"/"+strings.Join(toks, ","))
		g.user = append(g.user, name)
	}
	var call *c09Node
	if r.Chance(3, 4) {
		call = g.userCall(1 + r.Intn(2))
	} else {
		call = g.call(Pick(r, c09FragFns), 1+r.Intn(2), r.Bool())
	}
	var toks []string
	call.tokens(&toks)
	el, ks := c09FragCtx(r)
	return fmt.Sprintf("ftree %s %s %s %s %s", c09Opt(r), strings.Join(defs, "|"), strings.Join(toks, ","), el, ks)
}

func c10FtreeRun(f []string) string {
	var file strings.Builder
	if f[2] != "." {
		for _, d := range strings.Split(f[2], "|") {
			p := strings.SplitN(d, "/", 2)
			body, rest := c09ParseTokens(strings.Split(p[1], ","))
			if len(rest) != 0 {
				return "bad-args"
			}
			file.WriteString(string(UnHex(p[0])) + " " + body.printTop() + "\n")
		}
	}
	call, rest := c09ParseTokens(strings.Split(f[3], ","))
	if len(rest) != 0 {
		return "bad-args"
	}
	cmplr := funclib.NewKeyBuilder()
	fns, _ := funcfile.LoadDefinitions(cmplr, strings.NewReader(file.String()), "defs")
	kb := funclib.NewKeyBuilderEx(f[1] == "1")
	kb.Funcs(fns)
	compiled, errs := kb.Compile(call.printTop())
	if compiled == nil {
		return "nil-compiled errs=" + errsStr(errs)
	}
	val := compiled.BuildKey(mkContext(f[4], f[5]))
	return fmt.Sprintf("ok errs=%s val=%s", errsStr(errs), HexS(val))
}

// outside braces an atom is literal text: a quoted constant is its content
func c10AtomOutside(a string) string {
	if strings.HasPrefix(a, "\"") {
		return strings.Trim(a, "\"")
	}
	return a
}

// random comment / blank / continuation layout of a definitions file (one definition per entry)
func c10Layout(r *Rand, lines []string) string {
	var file strings.Builder
	for _, line := range lines {
		if r.Chance(1, 3) {
			file.WriteString("# a comment line\n")
		}
		if r.Chance(1, 4) {
			file.WriteString("\n  \t\n")
		}
		nm := line[:strings.Index(line, " ")]
		if i := strings.Index(line[len(nm)+1:], " "); i >= 0 && r.Chance(1, 3) { // split at a space into a continuation
			idx := i + len(nm) + 1
			file.WriteString(line[:idx+1] + "\\" + Pick(r, []string{"", " # why", "\r"}) + "\n")
			if r.Chance(1, 3) {
				file.WriteString("   # interleaved comment\n")
			}
			file.WriteString(Pick(r, []string{"", "   ", "\t"}) + line[idx+1:])
		} else {
			file.WriteString(line)
		}
		if r.Chance(1, 3) {
			file.WriteString("  # trailing comment")
		}
		file.WriteString(Pick(r, []string{"\n", "\n", "\r\n"}))
	}
	return file.String()
}

type c10NestFam struct {
	defs    []string                // definitions, in file order
	call    func(a []string) string // the call site for atoms a[0..]
	inlined func(a []string) string // the same, every funcs-file call inlined by hand
	nargs   int
}

var c10NestFams = []c10NestFam{
	{[]string{"double {sumi {0} {0}}", "quad {double {double {0}}}"},
		func(a []string) string { return "{quad " + a[0] + "}" },
		func(a []string) string {
			return "{sumi {sumi " + a[0] + " " + a[0] + "} {sumi " + a[0] + " " + a[0] + "}}"
		}, 1},
	{[]string{"wrap [{0}|{1}]", "swapwrap {wrap {1} {0}}"},
		func(a []string) string { return "{swapwrap " + a[0] + " " + a[1] + "}" },
		func(a []string) string { return "[" + c10AtomOutside(a[1]) + "|" + c10AtomOutside(a[0]) + "]" }, 2},
	{[]string{"k3 {0}-{1}-{2}", "k2 {k3 {0} {1}}", "k1 {k2 {0}}"}, // missing arguments: empty at every level
		func(a []string) string { return "{k1 " + a[0] + " " + a[1] + "}" },
		func(a []string) string { return c10AtomOutside(a[0]) + "--" }, 2},
	{[]string{"showsrc {src}:{0}", "lvl2 {showsrc {0}}", "lvl3 {lvl2 {1}}"}, // named keys: the outermost caller's
		func(a []string) string { return "{lvl3 " + a[0] + " " + a[1] + "}" },
		func(a []string) string { return "{src}:" + c10AtomOutside(a[1]) }, 2},
	{[]string{"a1 <{0}>", "a2 {a1 {0}}{a1 {1}}", "a3 {a2 {1} {0}}", "a4 {a3 {0} x}"},
		func(a []string) string { return "{a4 " + a[0] + "}" },
		func(a []string) string { return "<x><" + c10AtomOutside(a[0]) + ">" }, 1},
	{[]string{"pick {if {0} {1} {2}}", "pick2 {pick {1} {0} {pick {0} yes no}}"}, // lazy arguments through two levels
		func(a []string) string { return "{pick2 " + a[0] + " " + a[1] + "}" },
		func(a []string) string {
			return "{if " + a[1] + " " + a[0] + " {if " + a[0] + " yes no}}"
		}, 2},
	{[]string{"inc {sumi {0} 1}", "inc3 {inc {inc {inc {0}}}}", "len3 {inc3 {len {0}}}"},
		func(a []string) string { return "{len3 " + a[0] + "}" },
		func(a []string) string { return "{sumi {sumi {sumi {len " + a[0] + "} 1} 1} 1}" }, 1},
	{[]string{"f A{0}", "f {f {0}}B", "g {f {0}}C"}, // redefinition: the second f calls the FIRST; g calls the second
		func(a []string) string { return "{g " + a[0] + "}" },
		func(a []string) string { return "A" + c10AtomOutside(a[0]) + "BC" }, 1},
}

// definitions files the loader must partly reject: forward references, recursion, bad names
var c10RejectFiles = [][2]string{
	{"f {g {0}}\ng {0}!\n", "{f a}"}, {"f {g {0}}\ng {0}!\n", "{g a}"}, // forward reference: f is not added, g is
	{"f {f {0}}\n", "{f a}"},                          // recursion: not added
	{"f x{0}\nf {f {0}}y\n", "{f a}"},                 // …unless an earlier f exists
	{"a {b {0}}\nb {a {0}}\n", "{a 1}{b 2}"},          // mutual recursion: a rejected, then b too (a unknown)
	{"len <{0}>\nm {len {0}}\n", "{m abc} {len abc}"}, // shadowing a builtin: later definitions and the call site see it
	{"f {0}\nbroken\ng {f {0}}{f {0}}\n", "{g q}"}, {"f {nofn {0}}\ng {f {0}}\n", "{g q}"},
	{"f\xff {0}\ng {f\xff 1}\n", "{g 1}{f\xff 2}"}, // a name that is not UTF-8 can never be called
	{"f a\xffb{0}\n", "{f 1}"},                     // an invalid byte in a body is U+FFFD
	{"f {0}{1}\nf2 {f {1}}\nf3 {f2 {0} {0}}\nf4 {f3 {2}}\n", "{f4 a b c}"},
	{" f {0}\n\tg {f x}  \n", "{g}{g 1}"}, {"f  {0}\n", "{f a}"}, {"f\t{0}\n", "{f a}"}, // name/body split is at the first SPACE
	{"f {0} # {1}\n", "{f a b}"}, {"f {0}\\\n  {1}\\\n", "{f a b}"}, {"f {0}\\\n", "{f a b}"}, // continuation at end of file
}

// c10JoinCases: backslash continuations whose joint is VISIBLE in the function's value – the text before the
// `\` (trailing blanks included) and the continuation line (leading blanks stripped) are concatenated
// verbatim: the joint glued to literal text, preceded by 0, 1, 2 blanks or tabs, the continuation line indented
// or not, a comment or blanks after the `\`, CRLF line ends, Unicode blanks (which TrimSpace strips at the ends
// of a physical line but not inside), three-line continuations, a joint inside an argument list.
func c10JoinCases(r *Rand, tier string) []string {
	lefts := []string{"{0}/", "a", "x{0}", "{scheme}://{0}/", "[", "{sumi {0}", "{eq {0} \"a", "é"}
	rights := []string{"{1}", "b", "/{1}]", "{1}} tail", " b\"}", "世"}
	before := []string{"", " ", "  ", "\t", " \t ", "\u00a0", "\u3000 "}
	lead := []string{"", " ", "    ", "\t", "\u00a0 ", "\u2003"}
	after := []string{"", "  ", " # why", "\r", "\t# c \\"}
	var out []string
	add := func(file string) {
		out = append(out, fmt.Sprintf("funcs %d %s %s %s %s", r.Intn(2), HexS(file), HexS("{mk A B}|{mk {0} {1}}"),
			HexListS([]string{"e0", "e 1"}), HexListS([]string{"scheme", "http"})))
	}
	for _, l := range lefts {
		for _, rt := range rights {
			braceL, braceR := strings.HasPrefix(l, "{sumi") || strings.HasPrefix(l, "{eq"), strings.HasSuffix(rt, "} tail") || strings.HasSuffix(rt, "\"}")
			if braceL != braceR { // keep the definitions well formed: an open call is closed by the continuation
				continue
			}
			if strings.HasPrefix(l, "{eq") != strings.HasSuffix(rt, "\"}") {
				continue
			}
			for _, b := range before {
				for _, ld := range lead {
					if tier != "thorough" && r.Intn(4) != 0 {
						continue
					}
					a := Pick(r, after)
					add("mk " + l + b + "\\" + a + "\n" + ld + rt + Pick(r, []string{"\n", "\r\n", "", "  \n"}))
				}
			}
		}
	}
	// three physical lines, blank and comment lines in between, a line that is only a backslash
	for _, f := range []string{
		"mk a\\\n\\\nb\n", "mk a \\\n  \\\n  b\n", "mk a\\\n\n# c\n  b\\\n c\n", "mk {0}\\\n   -\\\n   {1}\n",
		"mk a\\\\\nb\n", "mk a\\ \\\nb\n", "mk\\\n x{0}\n", "mk \\\nx{0}\n", "mk  \\\n x{0}\n", "\\\nmk x{0}\n", "  \\  \n  mk x\\\n{0}\n",
		"mk x # c \\\ny\n", "mk x\\ # c\n y # d\n", "mk x\\\n", "mk x\\", "mk x \\\n\n\n",
	} {
		add(f)
	}
	return out
}

func c10NestCases(r *Rand, tier string) []string {
	g := &c10g{r}
	n, nt := 120, 700
	if tier == "thorough" {
		n, nt = 4000, 30000
	}
	var out []string
	for _, ft := range c10RejectFiles {
		for _, o := range []int{0, 1} {
			out = append(out, fmt.Sprintf("funcs %d %s %s %s %s", o, HexS(ft[0]), HexS(ft[1]), HexListS([]string{"e0", "e1"}), HexListS([]string{"src", "f.log"})))
		}
	}
	for i := 0; i < n; i++ {
		fam := Pick(r, c10NestFams)
		atoms := make([]string, fam.nargs)
		for k := range atoms {
			atoms[k] = g.atom(true)
			if atoms[k] == "\"\"" || atoms[k] == "{@}" { // an empty quoted constant vanishes outside braces; {@} is a key look-up
				atoms[k] = "x"
			}
		}
		file := c10Layout(r, fam.defs)
		el, ks := g.ctx()
		call, inl := fam.call(atoms), fam.inlined(atoms)
		out = append(out, fmt.Sprintf("inline %s %s %s %s %s", HexS(file), HexS(call), HexS(inl), HexListS(el), HexListS(ks)))
		out = append(out, fmt.Sprintf("funcs %d %s %s %s %s", r.Intn(2), HexS(file), HexS(call), HexListS(el), HexListS(ks)))
		if i%10 == 0 {
			out = append(out, fmt.Sprintf("parf %d %s %s %s %s", Pick(r, []int{2, 4}), HexS(file), HexS(call), HexListS(el), HexListS(ks)))
		}
	}
	for i := 0; i < nt; i++ {
		out = append(out, c10FtreeCase(r))
	}
	out = append(out, c10JoinCases(r, tier)...)
	return out
}
