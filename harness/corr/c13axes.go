//go:build c13

package main

import (
	"fmt"
	"strconv"
	"strings"

	"rare/pkg/aggregation"
	"rare/pkg/aggregation/sorting"
)

// Round 4b: the two axes of `rare table | heatmap | spark` and the render loop (Rare/Model/C13Axes.lean).
// cmd/tabulate.go, heatmap.go, spark.go call helpers.BuildSorterOrFail twice (rows, then columns) BEFORE the
// aggregation loop and hand both sorters to every render: columns first, then rows.  The captured variables of the
// contextual / date closures live as long as the command and must belong to one axis.
//
//   axes    <rname> <cname> <rowkeys> <colkeys> <renders> <rdl> <cdl>
//   axesagg <rname> <cname> <rowkeys> <colkeys> <renders> <rdl> <cdl>
//
//   <renders>  `.` or renders separated by `/`; a render is `<col idx list>:<row idx list>` (`.` = none): the keys
//              present at that render in the order the map hands them over
//   <rdl>/<cdl> per key the layout dateparse.ParseFormat inferred (as in the d-ops)
//
// `axes`: both sorters from helpers.BuildSorter (rows first, as the commands do); every render sorts the given
// arrangement with sorting.SortBy; the model threads the two closures' variables through Go's insertion sort
// (any keys, n <= 12).  `axesagg`: the same data through the real TableAggregator (renders are cumulative: render i
// samples every column x row pair of its index lists with increment 1, then OrderedColumns / OrderedRows run in map
// order); the model answers the specified order of each axis when that axis is uniform (`unmodelled` otherwise).
// Answer: renders separated by `/`, each `<cols>:<rows>` (hex lists).

type c13Render struct{ cols, rows []int }

func c13ParseRenders(f string) []c13Render {
	if f == "." {
		return nil
	}
	var out []c13Render
	for _, w := range strings.Split(f, "/") {
		cr := strings.SplitN(w, ":", 2)
		out = append(out, c13Render{c13Ints(cr[0]), c13Ints(cr[1])})
	}
	return out
}

func c13RendersField(rs []c13Render) string {
	if len(rs) == 0 {
		return "."
	}
	parts := make([]string, len(rs))
	for i, r := range rs {
		parts[i] = c13IntsField(r.cols) + ":" + c13IntsField(r.rows)
	}
	return strings.Join(parts, "/")
}

func c13RunAxes(f []string) string {
	rname, cname := string(UnHex(f[1])), string(UnHex(f[2]))
	rowKeys, colKeys := UnHexListS(f[3]), UnHexListS(f[4])
	renders := c13ParseRenders(f[5])
	// the order of the commands: rowSorter := BuildSorterOrFail(sortRows); colSorter := BuildSorterOrFail(sortCols)
	rowSorter, e := c13Build(rname)
	if rowSorter == nil {
		return e
	}
	colSorter, e := c13Build(cname)
	if colSorter == nil {
		return e
	}
	var out []string
	if f[0] == "axes" {
		id := func(x sorting.NameValuePair) sorting.NameValuePair { return x }
		for _, rd := range renders {
			var cols, rows []sorting.NameValuePair
			for _, i := range rd.cols {
				cols = append(cols, sorting.NameValuePair{Name: colKeys[i]})
			}
			for _, i := range rd.rows {
				rows = append(rows, sorting.NameValuePair{Name: rowKeys[i]})
			}
			sorting.SortBy(cols, colSorter, id) // WriteTable: OrderedColumns first …
			sorting.SortBy(rows, rowSorter, id) // … then OrderedRows
			out = append(out, c13Names(cols)+":"+c13Names(rows))
		}
	} else {
		table := aggregation.NewTable("\x00")
		for _, rd := range renders {
			for _, c := range rd.cols {
				for _, r := range rd.rows {
					table.SampleItem(colKeys[c], rowKeys[r], 1)
				}
			}
			cols := table.OrderedColumns(colSorter)
			var rows []string
			for _, r := range table.OrderedRows(rowSorter) {
				rows = append(rows, r.Name())
			}
			out = append(out, HexListS(cols)+":"+HexListS(rows))
		}
	}
	if len(out) == 0 {
		return "ok ."
	}
	return "ok " + strings.Join(out, "/")
}

// topn <name> <keys> <values> <n> <dl>: MatchCounter.ItemsSortedBy(n, sorter) through the real counter (map order), three
// rounds with fresh counters and sorters; the model answers the first n rows of the specified order.
func c13RunTopN(f []string) (ans string) {
	name := string(UnHex(f[1]))
	keys := UnHexListS(f[2])
	vals := c13Values(f[3], len(keys))
	n, _ := strconv.Atoi(f[4])
	if _, e := c13Build(name); e != "" {
		return e
	}
	defer func() {
		if r := recover(); r != nil {
			ans = "panic"
		}
	}()
	first := ""
	for round := 0; round < 3; round++ {
		counter := aggregation.NewCounter()
		for i := range keys {
			j := (i + round) % len(keys)
			counter.SampleValue(keys[j], vals[j])
		}
		s, _ := c13Build(name)
		var got []string
		for _, p := range counter.ItemsSortedBy(n, s) {
			got = append(got, p.Name)
		}
		h := HexListS(got)
		if round == 0 {
			first = h
		} else if h != first {
			return "ok-unstable " + first + " " + h
		}
	}
	return "ok " + first
}

func c13TopNCases(r *Rand, n int) []string {
	var out []string
	for i := 0; i < n; i++ {
		class := Pick(r, []int{0, 0, 1, 2, 3, 4, 6, 8, 10, 11})
		size := r.Range(0, 9)
		if r.Chance(1, 10) {
			size = r.Range(10, 30)
		}
		var ks []string
		switch class {
		case 8:
			ks = c13ZonePool(r, size)
		case 10:
			ks = c13NumTiePool(r, size)
		case 11:
			ks = c13CtxTiePool(r, size)
		default:
			ks = c13KeySet(r, class, size)
		}
		set := c13MakeSet(r, ks)
		if r.Chance(1, 3) {
			set.values = c13TieValues(r, len(ks))
		}
		name := c13SortName(r)
		if r.Chance(1, 3) {
			name = "value" + Pick(r, c13Mods)
		}
		cnt := Pick(r, []int{0, 1, 2, 3, len(ks) - 1, len(ks), len(ks) + 1, 20, r.Intn(len(ks) + 2)})
		if r.Chance(1, 25) {
			cnt = Pick(r, []int{-1, -5})
		}
		out = append(out, set.dline("topn", name, strconv.Itoa(cnt)))
	}
	return out
}

// ---------------------------------------------------------------- generator

// one axis: keys of one kind (so that each axis alone is mostly uniform) – the two axes mostly of DIFFERENT kinds
func c13AxisKeys(r *Rand, kind, n int) []string {
	switch kind {
	case 0:
		return c13KeySet(r, 2, n) // weekdays
	case 1:
		return c13KeySet(r, 3, n) // months
	case 2:
		return c13KeySet(r, 0, n) // numbers
	case 3:
		return c13KeySet(r, 1, n) // words
	case 4:
		return c13KeySet(r, 4, n) // dates, one layout
	case 5:
		return c13ZonePool(r, n)
	case 6:
		return c13CtxTiePool(r, n)
	}
	return c13KeySet(r, 7, n) // mostly one class with a stranger or two (F19 territory: `axes` still exact)
}

func c13Subset(r *Rand, n int) []int {
	p := c13Perm(r, n)
	if n == 0 {
		return p
	}
	return p[:r.Range(0, n)]
}

func c13AxesCases(r *Rand, n int) []string {
	var out []string
	stateful := []string{"contextual", "context", "date"}
	for i := 0; i < n; i++ {
		rk, ck := r.Intn(8), r.Intn(8)
		if r.Chance(1, 6) {
			ck = rk
		}
		nr, nc := r.Range(0, 7), r.Range(0, 7)
		if r.Chance(1, 10) {
			nr = r.Range(8, 12)
		}
		rows, cols := c13AxisKeys(r, rk, nr), c13AxisKeys(r, ck, nc)
		var rname, cname string
		switch r.Intn(10) {
		case 0:
			rname, cname = c13SortName(r), c13SortName(r)
		case 1, 2:
			rname, cname = Pick(r, stateful)+Pick(r, c13Mods), c13SortName(r)
		default: // the same stateful mode on both axes, modifiers free
			m := Pick(r, stateful)
			rname, cname = m+Pick(r, c13Mods), m+Pick(r, c13Mods)
			if r.Chance(1, 5) {
				cname = Pick(r, stateful) + Pick(r, c13Mods)
			}
		}
		if r.Chance(1, 8) {
			rname = c13Case(r, rname)
		}
		tail := HexListS(rows) + " " + HexListS(cols)
		dl := c13Layouts(rows) + " " + c13Layouts(cols)
		// axes: 1-3 renders, arbitrary parts in arbitrary order, the last one complete
		var rs []c13Render
		for k := r.Intn(3); k > 0; k-- {
			rs = append(rs, c13Render{c13Subset(r, len(cols)), c13Subset(r, len(rows))})
		}
		rs = append(rs, c13Render{c13Perm(r, len(cols)), c13Perm(r, len(rows))})
		out = append(out, fmt.Sprintf("axes %s %s %s %s %s", HexS(rname), HexS(cname), tail, c13RendersField(rs), dl))
		// axesagg: a growing screen; every render adds at least one column and one row (SampleItem needs both)
		if len(rows) > 0 && len(cols) > 0 && r.Chance(2, 3) {
			pc, pr := c13Perm(r, len(cols)), c13Perm(r, len(rows))
			var grow []c13Render
			ic, ir := 0, 0
			for ic < len(pc) || ir < len(pr) {
				jc, jr := ic+r.Range(0, 3), ir+r.Range(0, 3)
				if jc > len(pc) || len(grow) >= 3 {
					jc = len(pc)
				}
				if jr > len(pr) || len(grow) >= 3 {
					jr = len(pr)
				}
				cpart, rpart := append([]int{}, pc[ic:jc]...), append([]int{}, pr[ir:jr]...)
				if len(cpart) == 0 { // a column seen before joins again
					cpart = []int{pc[r.Intn(max(jc, 1))%len(pc)]}
				}
				if len(rpart) == 0 {
					rpart = []int{pr[r.Intn(max(jr, 1))%len(pr)]}
				}
				grow = append(grow, c13Render{cpart, rpart})
				ic, ir = jc, jr
			}
			out = append(out, fmt.Sprintf("axesagg %s %s %s %s %s", HexS(rname), HexS(cname), tail, c13RendersField(grow), dl))
		}
	}
	return out
}

// c13AxesCorpus: weekday rows x month columns with the same stateful sort name on both axes (what a sorter shared per
// sort name gets wrong), numbers x weekdays, dates in two layouts, every stateful name, one and two renders.
func c13AxesCorpus() []string {
	var out []string
	days := []string{"Thu", "Mon", "Fri", "Tue", "Wed"}
	months := []string{"Jan", "Feb", "Mar", "Apr"}
	nums := []string{"10", "9", "100", "1.5"}
	d1 := []string{"2022-09-03", "2021-09-01", "2022-01-15"}
	d2 := []string{"01/02/2022", "12/31/2021", "03/04/2020"}
	line := func(op, rn, cn string, rows, cols []string, rs string) string {
		return fmt.Sprintf("%s %s %s %s %s %s %s %s", op, HexS(rn), HexS(cn), HexListS(rows), HexListS(cols), rs, c13Layouts(rows), c13Layouts(cols))
	}
	for _, nm := range []string{"contextual", "context", "date", "contextual:desc", "date:reverse"} {
		out = append(out, line("axes", nm, nm, days, months, "0,1,2,3:0,1,2,3,4"))
		out = append(out, line("axes", nm, nm, days, months, "0,1,2,3:0,1,2,3,4/2,0,3,1:4,3,2,1,0"))
		out = append(out, line("axes", nm, nm, months, days, "4,3,2,1,0:3,2,1,0"))
		out = append(out, line("axes", nm, nm, days, nums, "0,1,2,3:0,1,2,3,4"))
		out = append(out, line("axesagg", nm, nm, days, months, "0,1:0,1/2,3:2,3,4"))
		out = append(out, line("axesagg", nm, nm, days, nums, "3,2,1,0:4,3,2,1,0"))
	}
	out = append(out, line("axes", "date", "date", d1, d2, "0,1,2:0,1,2"), line("axes", "date", "date", d2, d1, "2,1,0:1,0,2/0,1,2:0,1,2"))
	out = append(out, line("axesagg", "date", "date:desc", d1, d2, "0,1,2:0,1,2"))
	top := c13MakeSet(NewRand(5), []string{"e", "d", "c", "b", "a", "10", "9"})
	top.values = "5,5,9,1,1,7,7"
	for _, nm := range []string{"value", "value:asc", "text", "numeric:desc"} {
		for _, k := range []string{"0", "1", "3", "7", "8", "-1"} {
			out = append(out, top.dline("topn", nm, k))
		}
	}
	out = append(out, line("axes", "contextual", "date", days, months, "0,1,2,3:0,1,2,3,4"), line("axes", "bla", "contextual", days, months, "0:0"),
		line("axes", "contextual", "text:x", days, months, "0:0"), line("axes", "value", "numeric", days, nums, "0,1,2,3:4,3,2,1,0"),
		line("axes", "contextual", "contextual", nil, nil, "."), line("axes", "contextual", "contextual", days, months, ".:."))
	return out
}
