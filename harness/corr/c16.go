//go:build c16

package main

import (
	"bytes"
	"encoding/json"
	"fmt"
	"math/big"
	"regexp"
	"sort"
	"strconv"
	"strings"
	"unicode/utf8"

	"rare/cmd"
	"rare/pkg/extractor"
	"rare/pkg/matchers/dissect"
	"rare/pkg/matchers/fastregex"
)

// ---- protocol
//
//	json <named 0|1> <numbered 0|1> <name table> <indices> <line>
//	    name table: `;`-joined `<hex name>:<group index>` entries, `.` when empty
//	    indices:    `,`-joined decimal ints (FindSubmatchIndex result), `.` when empty
//	key <hex key> <name table> <indices> <line>                    GetKey(key) for ".", "#", ".#", "#."
//	special <matches hexlist> <keys hexlist> <values hexlist>      (cmd.buildSpecialKeyJson)
//	nt regex <SubexpNames hexlist>          the table fastregex builds for an expression with these groups
//	nt dissect <token names hexlist> <skipped 0|1,...>   the table dissect.CompileEx builds (or `conflict`)
//	san <hex bytes>                         U+FFFD substitution as Go's own decoder does it
//
// answer:  ok <hex text> v=<0|1> u=<0|1> m=<members>
//
//	    v: the text is one valid JSON value (encoding/json on this side, the RFC 8259 parser of
//	       Rare.Spec.C16 on the Lean side)
//	    u: the text is well-formed UTF-8 (utf8.Valid here, the RFC 3629 DFA there)
//	    m: decoded members, hexlist of key,value,key,value...; value = tag byte + payload
//	       (s<string>  n<mantissa>e<exp10>  t  f  z); `x` when v=0.  When u=0 the members are those
//	       encoding/json decodes (it substitutes U+FFFD for every ill-formed byte); the Lean side
//	       parses the text after its own `sanitize`
//	nondeterministic   the same call gave two different texts (map iteration order leaked)
//	panic
const c16Repeats = 32

func c16ParseNT(s string) map[string]int {
	m := map[string]int{}
	if s == "." {
		return m
	}
	for _, e := range strings.Split(s, ";") {
		kv := strings.Split(e, ":")
		n, _ := strconv.Atoi(kv[1])
		m[string(UnHex(kv[0]))] = n
	}
	return m
}

func c16ParseInts(s string) []int {
	if s == "." {
		return nil
	}
	var out []int
	for _, p := range strings.Split(s, ",") {
		n, _ := strconv.Atoi(p)
		out = append(out, n)
	}
	return out
}

// canonical number: mantissa (all digits, sign applied) and decimal exponent
func c16Num(lit string) string {
	s := lit
	neg := false
	if strings.HasPrefix(s, "-") {
		neg = true
		s = s[1:]
	}
	exp := new(big.Int)
	if i := strings.IndexAny(s, "eE"); i >= 0 {
		exp.SetString(strings.TrimPrefix(s[i+1:], "+"), 10)
		s = s[:i]
	}
	frac := ""
	if i := strings.IndexByte(s, '.'); i >= 0 {
		frac = s[i+1:]
		s = s[:i]
	}
	mant := new(big.Int)
	mant.SetString(s+frac, 10)
	if neg {
		mant.Neg(mant)
	}
	exp.Sub(exp, big.NewInt(int64(len(frac))))
	return "n" + mant.String() + "e" + exp.String()
}

// c16Describe decodes text with encoding/json (independent validity / decoding oracle).
func c16Describe(text string) string {
	if !json.Valid([]byte(text)) {
		return fmt.Sprintf("ok %s v=0 u=x m=x", HexS(text))
	}
	u := 1
	if !utf8.ValidString(text) {
		u = 0
	}
	dec := json.NewDecoder(bytes.NewReader([]byte(text)))
	dec.UseNumber()
	tok, err := dec.Token()
	if d, ok := tok.(json.Delim); err != nil || !ok || d != '{' {
		return fmt.Sprintf("ok %s v=1 u=%d m=notobject", HexS(text), u)
	}
	var mem []string
	for dec.More() {
		k, err := dec.Token()
		if err != nil {
			return fmt.Sprintf("ok %s v=1 u=%d m=tokerr", HexS(text), u)
		}
		v, err := dec.Token()
		if err != nil {
			return fmt.Sprintf("ok %s v=1 u=%d m=tokerr", HexS(text), u)
		}
		mem = append(mem, k.(string))
		switch x := v.(type) {
		case string:
			mem = append(mem, "s"+x)
		case json.Number:
			mem = append(mem, c16Num(string(x)))
		case bool:
			if x {
				mem = append(mem, "t")
			} else {
				mem = append(mem, "f")
			}
		case nil:
			mem = append(mem, "z")
		default:
			return fmt.Sprintf("ok %s v=1 u=%d m=nested", HexS(text), u)
		}
	}
	return fmt.Sprintf("ok %s v=1 u=%d m=%s", HexS(text), u, HexListS(mem))
}

func c16Repeat(f func() string) (res string) {
	defer func() {
		if e := recover(); e != nil {
			res = "panic"
		}
	}()
	first := f()
	for i := 1; i < c16Repeats; i++ {
		if f() != first {
			return "nondeterministic"
		}
	}
	return c16Describe(first)
}

func c16Run(f []string) string {
	switch f[0] {
	case "json":
		if len(f) != 6 {
			return "bad-args"
		}
		key := ""
		switch f[1] + f[2] {
		case "10":
			key = "."
		case "01":
			key = "#"
		case "11":
			key = ".#"
		default:
			return "bad-args"
		}
		nt := c16ParseNT(f[3])
		idx := c16ParseInts(f[4])
		line := string(UnHex(f[5]))
		n := 0
		return c16Repeat(func() string {
			n++
			k := key
			if k == ".#" && n%2 == 0 {
				k = "#." // documented alias
			}
			return extractor.VerifContext(line, idx, nt).GetKey(k)
		})
	case "key":
		if len(f) != 5 {
			return "bad-args"
		}
		key := string(UnHex(f[1]))
		switch key {
		case ".", "#", ".#", "#.":
		default:
			return "notjson" // the generator only sends the four JSON keys
		}
		nt := c16ParseNT(f[2])
		idx := c16ParseInts(f[3])
		line := string(UnHex(f[4]))
		return c16Repeat(func() string { return extractor.VerifContext(line, idx, nt).GetKey(key) })
	case "nt":
		return c16RunNT(f)
	case "san":
		if len(f) != 2 {
			return "bad-args"
		}
		b := string(UnHex(f[1]))
		u := 0
		if utf8.ValidString(b) {
			u = 1
		}
		// conversion to runes and back: Go's decoder yields U+FFFD for every byte that does not begin a
		// well-formed sequence, exactly as `for range` and encoding/json do
		viaRunes := string([]rune(b))
		var sb strings.Builder
		for i := 0; i < len(b); {
			r, size := utf8.DecodeRuneInString(b[i:])
			if r == utf8.RuneError && size == 1 {
				sb.WriteString("\xef\xbf\xbd")
			} else {
				sb.WriteString(b[i : i+size])
			}
			i += size
		}
		if sb.String() != viaRunes {
			return "oracle-disagree"
		}
		return fmt.Sprintf("ok %s u=%d", HexS(viaRunes), u)
	case "special":
		if len(f) != 4 {
			return "bad-args"
		}
		matches := UnHexListS(f[1])
		keys, vals := UnHexListS(f[2]), UnHexListS(f[3])
		if len(keys) != len(vals) {
			return "bad-args"
		}
		var m map[string]string
		if len(keys) > 0 {
			m = map[string]string{}
			for i := range keys {
				m[keys[i]] = vals[i]
			}
		}
		return c16Repeat(func() string { return cmd.VerifBuildSpecialKeyJson(matches, m) })
	}
	if res, ok := c16RunR4b(f); ok {
		return res
	}
	if res, ok := c16RunR4c(f); ok {
		return res
	}
	return c16RunR4(f)
}

func c16ShowTable(t map[string]int) string {
	if len(t) == 0 {
		return "ok ."
	}
	var names []string
	for k := range t {
		names = append(names, k)
	}
	sort.Strings(names)
	parts := make([]string, len(names))
	for i, n := range names {
		parts[i] = fmt.Sprintf("%s:%d", HexS(n), t[n])
	}
	return "ok " + strings.Join(parts, ";")
}

// c16RegexFor builds an expression whose SubexpNames() is exactly names (names[0] = whole match).
func c16RegexFor(names []string) string {
	var sb strings.Builder
	for i, n := range names {
		if i == 0 {
			continue
		}
		switch {
		case n == "":
			sb.WriteString("(x?)")
		case i%3 == 1:
			sb.WriteString("(?<" + n + ">x?)") // the Perl/.NET spelling (Go >= 1.22)
		case i%3 == 2:
			sb.WriteString("(?:y(?P<" + n + ">x))?") // inside an optional non-capturing group
		default:
			sb.WriteString("(?P<" + n + ">x?)")
		}
	}
	return sb.String()
}

func c16RunNT(f []string) string {
	switch {
	case len(f) == 3 && f[1] == "regex":
		names := UnHexListS(f[2])
		if len(names) == 0 || names[0] != "" {
			return "bad-case"
		}
		pat := c16RegexFor(names)
		ref, err := regexp.Compile(pat)
		if err != nil {
			return "bad-case"
		}
		got := ref.SubexpNames()
		if len(got) != len(names) {
			return "bad-case"
		}
		for i := range got {
			if got[i] != names[i] {
				return "bad-case"
			}
		}
		re, err := fastregex.CompileEx(pat, false)
		if err != nil {
			return "bad-case"
		}
		return c16ShowTable(re.CreateInstance().SubexpNameTable())
	case len(f) == 4 && f[1] == "dissect":
		names := UnHexListS(f[2])
		var skips []bool
		if f[3] != "." {
			for _, p := range strings.Split(f[3], ",") {
				skips = append(skips, p == "1")
			}
		}
		if len(skips) != len(names) {
			return "bad-args"
		}
		var pat strings.Builder
		for i, n := range names {
			if strings.ContainsAny(n, "}%") || (!skips[i] && (n == "" || n[0] == '?')) {
				return "bad-case"
			}
			if skips[i] {
				if n == "" {
					pat.WriteString("%{}")
				} else {
					pat.WriteString("%{?" + n + "}")
				}
			} else {
				pat.WriteString("%{" + n + "}")
			}
			pat.WriteString(" | ")
		}
		d, err := dissect.CompileEx(pat.String(), false)
		if err == dissect.ErrorKeyConflict {
			return "conflict"
		}
		if err != nil {
			return "bad-case"
		}
		return c16ShowTable(d.SubexpNameTable())
	}
	return "bad-args"
}

// ---- generator

var c16Texts = []string{
	"", "a", "abc", "hello world", "0", "1", "7", "42", "007", "00", "0.5", "00.5", "1.", ".5", "1.5", "10.25", "1.2.3",
	"-1", "+1", "1e5", "1E5", "0x10", "1_000", "12345678901234567890123", "0.000", "1.50",
	"true", "TRUE", "True", "tRuE", "false", "FALSE", "False", "null", "truex", " true", "NaN", "Infinity",
	"\"", "\\", "\"\"", "a\"b", "a\\b", "\\n", "\\u0041", "\\\"", "say \"hi\"", "C:\\dir\\file",
	"\x00", "\x01", "\x07", "\b", "\t", "\n", "\v", "\f", "\r", "\x1b", "\x1f", "\x7f", "a\x01b", "line1\nline2", "tab\there",
	"\x1b[31mred\x1b[0m", "é", "héllo", "日本語", "😀", "\u2028", "\ufffd", "\u00a0",
	"\xff", "\xc3", "a\xffb", "\xc3\x28", "\xed\xa0\x80", "\xf4\x90\x80\x80", "\xc0\x80", "\"\xff", "\xff\"", "\n\xff\xfe", "é\"\xe9",
	"\xe0\xa0\x80", "\xe0\x9f\xbf", "\xed\x9f\xbf", "\xee\x80\x80", "\xf0\x90\x80\x80", "\xf0\x8f\xbf\xbf", "\xf4\x8f\xbf\xbf",
	"\xf5\x80\x80\x80", "\xc2\x80", "\xc1\xbf", "\xdf\xbf", "\xe2\x82", "\xe2\x82\xac", "\x80", "\xbf", "fal\u017fe", "\u212a",
	"{", "}", "{\"a\": 1}", "[1,2]", ",", ":", ", ", "\": \"", "/", "</script>", "'", "1 2", " 1", "1 ", "１",
	// number shapes a decimal reader might accept but the writer must keep as strings (or not)
	"+0", "-0", "-0.0", "+1.5", "1e400", "1E400", "1e-400", "1e+5", "1E+5", "0e0", "5.", ".5", "0.", "0.0", "00.0", "0.00", "000",
	"1.e5", "1e", "e5", "1e5.5", "0x", "1,5", "1.5.", "..", ".", "-", "+", "-.5", "1.-5", "٣", "1\x00", "1\n", "\t1",
	"9007199254740993", "18446744073709551616", "0.1000000000000000055511151231257827",
	// booleans: near misses
	"tru", "truee", "TRUE ", "tr\u00fce", "fa\u017fe", "fal\u017f", "\u212a", "t\x00ue", "yes", "True\n", "fALSe", "tRUe",
	// code points JSON readers treat specially, DEL, escapes written out as text, surrogates as raw bytes
	"\u2028", "\u2029", "a\u2028b", "\u0085", "\ufeff", "\ufffe", "\uffff", "\x7f", "\x7f\x7f", "\\ud800", "\\udc00\\ud800", "\\u0000", "\\u12", "\\x41",
	"\xed\xa0\x80\xed\xb0\x80", "\xed\xbf\xbf", "\xf0\x9f\x98", "\xf0\x9f", "\xf8\x88\x80\x80\x80", "\xfe", "\xe2\x28\xa1", "\xc2", "a\xc2", "\xc2\"", "\xe2\x82\"",
}

// c16Long: digit strings far beyond any machine number, for the numeric path
func c16Long(r *Rand) string {
	n := Pick(r, []int{20, 40, 310, 400, 1000})
	b := make([]byte, n)
	for i := range b {
		b[i] = byte('0' + r.Intn(10))
	}
	if r.Chance(1, 2) && b[0] == '0' {
		b[0] = '7'
	}
	s := string(b)
	switch r.Intn(5) {
	case 0:
		return s + "." + s
	case 1:
		return "0." + s
	case 2:
		return s + "e400"
	case 3:
		return "-" + s
	}
	return s
}

var c16Names = []string{
	"a", "b", "c", "name", "val", "ip", "status", "x_1", "A", "Key", "0", "1", "2", "01", "", " ", "a b",
	"\"", "q\"q", "\\", "b\\s", "\\\"", "n\nl", "\x01", "t\tb", "é", "日本", "\xff", "a\xffb", "\"\xff", ".", "#", ",", ": ", "}",
}

func c16RandBytes(r *Rand) string {
	n := r.Intn(6)
	b := make([]byte, n)
	for i := range b {
		switch r.Intn(6) {
		case 0:
			b[i] = byte(r.Intn(0x20))
		case 1:
			b[i] = Pick(r, []byte{'"', '\\', '/', 'u', 'n', '0', '.', '1', '9', 'e', '-'})
		case 2:
			b[i] = byte(0x80 + r.Intn(0x80))
		default:
			b[i] = byte(r.Intn(256))
		}
	}
	return string(b)
}

func c16RandDigits(r *Rand) string {
	var sb strings.Builder
	n := 1 + r.Intn(4)
	for i := 0; i < n; i++ {
		sb.WriteByte(Pick(r, []byte("0012345679")))
	}
	if r.Chance(1, 2) {
		sb.WriteByte('.')
		n = r.Intn(4)
		for i := 0; i < n; i++ {
			sb.WriteByte(Pick(r, []byte("0012345679")))
		}
	}
	if r.Chance(1, 8) {
		sb.WriteString(Pick(r, []string{"e5", "E-2", ".", "a", " ", "-"}))
	}
	return sb.String()
}

func c16Text(r *Rand) string {
	switch r.Intn(10) {
	case 0, 1:
		return c16RandBytes(r)
	case 2, 3:
		return c16RandDigits(r)
	case 4:
		return Pick(r, c16Texts) + Pick(r, c16Texts)
	case 5:
		if r.Chance(1, 6) {
			return c16Long(r)
		}
		return Pick(r, c16Texts)
	default:
		return Pick(r, c16Texts)
	}
}

func c16Name(r *Rand) string {
	if r.Chance(1, 8) {
		return c16RandBytes(r)
	}
	if r.Chance(1, 10) {
		return Pick(r, c16Texts)
	}
	return Pick(r, c16Names)
}

func c16NT(names []string, idx []int) string {
	if len(names) == 0 {
		return "."
	}
	parts := make([]string, len(names))
	for i := range names {
		parts[i] = fmt.Sprintf("%s:%d", HexS(names[i]), idx[i])
	}
	return strings.Join(parts, ";")
}

func c16Ints(xs []int) string {
	if len(xs) == 0 {
		return "."
	}
	p := make([]string, len(xs))
	for i, x := range xs {
		p[i] = strconv.Itoa(x)
	}
	return strings.Join(p, ",")
}

func c16Flags(r *Rand) string { return Pick(r, []string{"1 0", "1 0", "0 1", "1 1", "1 1"}) }

// one structured case: a line made of group texts, index slice as a regex would return it
func c16GenJSON(r *Rand) string {
	ngroups := r.Intn(5) // groups 1..ngroups (group 0 = whole match)
	var line strings.Builder
	line.WriteString(Pick(r, []string{"", "", "> ", "x"}))
	start0 := line.Len()
	idx := []int{0, 0}
	for g := 0; g < ngroups; g++ {
		if g > 0 {
			line.WriteString(Pick(r, []string{" ", ",", "", "|"}))
		}
		if r.Chance(1, 8) { // group did not participate
			idx = append(idx, -1, -1)
			continue
		}
		t := c16Text(r)
		idx = append(idx, line.Len(), line.Len()+len(t))
		line.WriteString(t)
	}
	idx[0], idx[1] = start0, line.Len()
	line.WriteString(Pick(r, []string{"", "", " tail"}))
	if ngroups == 0 && r.Chance(1, 2) { // whole-match only: make group 0 interesting
		t := c16Text(r)
		line.Reset()
		line.WriteString(t)
		idx = []int{0, len(t)}
	}
	// name table
	nn := r.Intn(5)
	seen := map[string]bool{}
	var names []string
	var nidx []int
	for len(names) < nn {
		n := c16Name(r)
		if seen[n] {
			if r.Chance(1, 4) {
				nn--
			}
			continue
		}
		seen[n] = true
		names = append(names, n)
		g := 1 + r.Intn(ngroups+1)
		if r.Chance(1, 8) {
			// group numbers no matcher produces, up to the ends of int: idx*2 wraps from 2^62 on
			g = Pick(r, []int{0, -1, ngroups + 1, ngroups + 5, 1000, 1 << 31, 1<<62 - 1, 1 << 62, 1<<62 + 1, 1<<62 + 1<<61,
				1<<63 - 1, -1 << 63, -1<<63 + 1, -1 << 62, 3 << 61})
		}
		nidx = append(nidx, g)
	}
	ix := idx
	// malformed stream
	if r.Chance(1, 25) {
		switch r.Intn(5) {
		case 0:
			ix = ix[:len(ix)-1] // odd length
		case 1:
			ix = nil
		case 2:
			ix = append(append([]int{}, ix...), line.Len()+1, line.Len()+3) // beyond the line: slice panic
		case 3:
			ix = append(append([]int{}, ix...), line.Len(), 0) // start > end
		case 4:
			ix = append(append([]int{}, ix...), -1, 2)
		}
	}
	return fmt.Sprintf("json %s %s %s %s", c16Flags(r), c16NT(names, nidx), c16Ints(ix), HexS(line.String()))
}

// a case whose name table and index slice come from the real dissect matcher
func c16GenDissect(r *Rand) (string, bool) {
	n := 1 + r.Intn(4)
	var pat, line strings.Builder
	seen := map[string]bool{}
	for i := 0; i < n; i++ {
		name := strings.NewReplacer("}", "", "%", "", "{", "").Replace(c16Name(r))
		name = strings.TrimLeft(name, "?")
		if seen[name] {
			name += strconv.Itoa(i)
		}
		seen[name] = true
		sep := Pick(r, []string{" ", ";", " - ", "|"})
		pat.WriteString("%{" + name + "}" + sep)
		t := strings.ReplaceAll(c16Text(r), sep, "_")
		line.WriteString(t + sep)
	}
	d, err := dissect.Compile(pat.String())
	if err != nil {
		return "", false
	}
	ix := d.CreateInstance().FindSubmatchIndex([]byte(line.String()))
	if ix == nil {
		return "", false
	}
	var names []string
	var nidx []int
	for k, v := range d.SubexpNameTable() {
		names = append(names, k)
		nidx = append(nidx, v)
	}
	sort.Sort(&c16ByName{names, nidx})
	return fmt.Sprintf("json %s %s %s %s", c16Flags(r), c16NT(names, nidx), c16Ints(ix), HexS(line.String())), true
}

type c16ByName struct {
	n []string
	i []int
}

func (s *c16ByName) Len() int           { return len(s.n) }
func (s *c16ByName) Less(a, b int) bool { return s.n[a] < s.n[b] }
func (s *c16ByName) Swap(a, b int) {
	s.n[a], s.n[b] = s.n[b], s.n[a]
	s.i[a], s.i[b] = s.i[b], s.i[a]
}

func c16GenSpecial(r *Rand) string {
	nm := r.Intn(4)
	var matches []string
	for i := 0; i < nm; i++ {
		matches = append(matches, c16Text(r))
	}
	nk := r.Intn(5)
	seen := map[string]bool{}
	var keys, vals []string
	for i := 0; i < nk; i++ {
		k := c16Name(r)
		if seen[k] {
			continue
		}
		seen[k] = true
		keys = append(keys, k)
		vals = append(vals, c16Text(r))
	}
	return fmt.Sprintf("special %s %s %s", HexListS(matches), HexListS(keys), HexListS(vals))
}

// a case whose name table and index slice come from the real regex wrapper: named groups with
// numeric names (collide with the numbered members), repeated names, optional groups
func c16GenRegex(r *Rand) (string, bool) {
	n := 1 + r.Intn(4)
	var pat, line strings.Builder
	for i := 0; i < n; i++ {
		name := Pick(r, []string{"", "a", "b", "a", "n1", "0", "1", "2", "3", "x_1", "Z", "01"})
		body := Pick(r, []string{`\w+`, `\d+`, `[^|]*`, `\S*`, `[0-9.]+`})
		opt := Pick(r, []string{"", "", "?"})
		if name == "" {
			pat.WriteString("(" + body + ")" + opt)
		} else {
			pat.WriteString("(?P<" + name + ">" + body + ")" + opt)
		}
		pat.WriteString(`\|?`)
		if r.Chance(4, 5) {
			line.WriteString(strings.ReplaceAll(strings.ReplaceAll(c16Text(r), "|", "_"), "\n", "_"))
		}
		line.WriteString("|")
	}
	re, err := fastregex.CompileEx(pat.String(), false)
	if err != nil {
		return "", false
	}
	inst := re.CreateInstance()
	ix := inst.FindSubmatchIndex([]byte(line.String()))
	if ix == nil {
		return "", false
	}
	var names []string
	var nidx []int
	for k, v := range inst.SubexpNameTable() {
		names = append(names, k)
		nidx = append(nidx, v)
	}
	sort.Sort(&c16ByName{names, nidx})
	key := Pick(r, []string{".", "#", ".#", "#."})
	return fmt.Sprintf("key %s %s %s %s", HexS(key), c16NT(names, nidx), c16Ints(ix), HexS(line.String())), true
}

func c16GenNT(r *Rand) string {
	if r.Bool() {
		names := []string{""}
		for i := r.Intn(6); i > 0; i-- {
			names = append(names, Pick(r, []string{"", "", "a", "b", "c", "a", "1", "0", "x_1", "A", "a1"}))
		}
		return "nt regex " + HexListS(names)
	}
	var names, skips []string
	for i := r.Intn(6); i > 0; i-- {
		n := strings.NewReplacer("}", "", "%", "", "{", "").Replace(c16Name(r))
		if r.Chance(1, 3) {
			n = Pick(r, []string{"a", "b", "a", "?a", "", "1"}) // repeated keys: ErrorKeyConflict unless skipped
		}
		skip := r.Chance(1, 4)
		if !skip && (n == "" || n[0] == '?') {
			n = "k" + n
		}
		names = append(names, n)
		if skip {
			skips = append(skips, "1")
		} else {
			skips = append(skips, "0")
		}
	}
	sk := "."
	if len(skips) > 0 {
		sk = strings.Join(skips, ",")
	}
	return fmt.Sprintf("nt dissect %s %s", HexListS(names), sk)
}

// the same structured case through GetKey with one of the four key spellings
func c16AsKey(r *Rand, c string) string {
	f := strings.Fields(c)
	if len(f) != 6 || f[0] != "json" {
		return c
	}
	key := "."
	switch f[1] + f[2] {
	case "01":
		key = "#"
	case "11":
		key = Pick(r, []string{".#", "#."})
	}
	return fmt.Sprintf("key %s %s %s %s", HexS(key), f[3], f[4], f[5])
}

func c16Gen(r *Rand, tier string) []string {
	n := 4000
	if tier == "thorough" {
		n = 400000
	}
	var out []string
	for i := 0; i < n; i++ {
		switch {
		case i%8 == 7:
			out = append(out, c16GenSpecial(r))
		case i%8 == 6:
			if c, ok := c16GenDissect(r); ok {
				out = append(out, c)
			} else {
				out = append(out, c16GenJSON(r))
			}
		case i%8 == 5:
			if c, ok := c16GenRegex(r); ok {
				out = append(out, c)
			} else {
				out = append(out, c16AsKey(r, c16GenJSON(r)))
			}
		case i%16 == 4:
			out = append(out, c16GenNT(r))
		case i%16 == 12:
			out = append(out, "san "+HexS(c16Text(r)+c16RandBytes(r)))
		case i%8 == 3:
			out = append(out, c16AsKey(r, c16GenJSON(r)))
		default:
			out = append(out, c16GenJSON(r))
		}
	}
	// every single byte as a whole-match capture, and as a one-byte group name
	for b := 0; b < 256; b++ {
		s := string([]byte{byte(b)})
		out = append(out, fmt.Sprintf("json 0 1 . 0,1 %s", HexS(s)))
		out = append(out, fmt.Sprintf("json 1 0 %s:0 0,1 61", HexS(s)))
		out = append(out, fmt.Sprintf("special %s %s %s", HexS(s), HexS(s), HexS(s)))
		out = append(out, fmt.Sprintf("san %s", HexS("a"+s+"\xa9")))
	}
	if tier == "thorough" {
		// exhaustive: all strings over a numeric-shape alphabet up to length 5 as the only capture
		alpha := []byte{'0', '1', '.', '-', 'e'}
		var rec func(cur []byte)
		rec = func(cur []byte) {
			if len(cur) > 0 {
				out = append(out, fmt.Sprintf("json 1 1 6e:0 0,%d %s", len(cur), Hex(cur)))
			}
			if len(cur) < 5 {
				for _, c := range alpha {
					rec(append(append([]byte{}, cur...), c))
				}
			}
		}
		rec(nil)
		// every 2-byte string; 3- and 4-byte UTF-8 boundary sequences (escape table + UTF-8 DFA vs utf8.Valid)
		for a := 0; a < 256; a++ {
			for b := 0; b < 256; b++ {
				out = append(out, fmt.Sprintf("json 0 1 . 0,2 %s", Hex([]byte{byte(a), byte(b)})))
				if a >= 0x80 {
					out = append(out, fmt.Sprintf("san %s", Hex([]byte{byte(a), byte(b), 0x80, 0x41})))
				}
			}
		}
		for _, a := range []byte{0xe0, 0xe1, 0xec, 0xed, 0xee, 0xef, 0xf0, 0xf1, 0xf3, 0xf4, 0xf5} {
			for b := 0x70; b < 0xd0; b++ {
				for _, c := range []byte{0x7f, 0x80, 0xbf, 0xc0} {
					out = append(out, fmt.Sprintf("json 0 1 . 0,3 %s", Hex([]byte{a, byte(b), c})))
					out = append(out, fmt.Sprintf("json 0 1 . 0,4 %s", Hex([]byte{a, byte(b), c, 0x80})))
					out = append(out, fmt.Sprintf("san %s", Hex([]byte{a, byte(b), c, 0x80, a})))
				}
			}
		}
		// all pairs of bytes from a set of structurally dangerous ones, as capture and as name
		danger := []byte{0x00, 0x01, 0x08, 0x0a, 0x1f, 0x20, '"', '\\', '/', 'u', '0', 0x7f, 0x80, 0xc3, 0xa9, 0xff}
		for _, a := range danger {
			for _, b := range danger {
				for _, c := range danger {
					s := []byte{a, b, c}
					out = append(out, fmt.Sprintf("json 1 1 %s:0;62:0 0,3 %s", Hex(s), Hex(s)))
				}
			}
		}
	}
	out = append(out, c16GenR4(r, tier)...)
	out = append(out, c16GenR4b(r, tier)...)
	out = append(out, c16GenR4c(r, tier)...)
	return out
}

var (
	c16reNum     = regexp.MustCompile(`^[0-9]+(\.[0-9]+)?$`)
	c16reLead0   = regexp.MustCompile(`^0[0-9]`)
	c16reNumLike = regexp.MustCompile(`^[-+.0-9eE]+$`)
)

func c16Stats(cases []string) map[string]int {
	st := map[string]int{}
	for _, c := range cases {
		f := strings.Fields(c)
		st["op."+f[0]]++
		if f[0] == "nt" && len(f) > 1 {
			st["nt."+f[1]]++
		}
		if f[0] == "key" && len(f) == 5 {
			k := string(UnHex(f[1]))
			st["key."+k]++
			f = []string{"json", "k", k, f[2], f[3], f[4]}
		}
		if f[0] != "json" || len(f) != 6 {
			continue
		}
		st["json.flags."+f[1]+f[2]]++
		nt := c16ParseNT(f[3])
		for k, v := range nt {
			if v >= 1<<62 || v < 0 {
				st["name.groupNumberHugeOrNegative"]++
			}
			if _, err := strconv.Atoi(k); err == nil {
				st["name.isNumeral"]++
			}
		}
		st[fmt.Sprintf("json.named=%d", len(nt))]++
		for k := range nt {
			if strings.ContainsAny(k, "\"\\") {
				st["name.quoteOrBackslash"]++
			}
			if !utf8.ValidString(k) {
				st["name.invalidUtf8"]++
			}
		}
		line := string(UnHex(f[5]))
		if !utf8.ValidString(line) {
			st["line.invalidUtf8"]++
		}
		if strings.ContainsAny(line, "\"\\") {
			st["line.quoteOrBackslash"]++
		}
		for i := 0; i < len(line); i++ {
			if line[i] < 0x20 {
				st["line.controlByte"]++
				break
			}
		}
		for i := 0; i < len(line); i++ {
			if line[i] >= 0x80 {
				st["line.nonAscii"]++
				break
			}
		}
		ix := c16ParseInts(f[4])
		for i := 0; i+1 < len(ix); i += 2 {
			if ix[i] < 0 || ix[i+1] > len(line) || ix[i] > ix[i+1] {
				continue
			}
			g := line[ix[i]:ix[i+1]]
			switch {
			case g == "":
				st["capture.empty"]++
			case c16reNum.MatchString(g) && c16reLead0.MatchString(g):
				st["capture.leadingZeroNumeral"]++
			case c16reNum.MatchString(g):
				st["capture.jsonNumber"]++
			case strings.EqualFold(g, "true") || strings.EqualFold(g, "false"):
				st["capture.boolWord"]++
			case len(g) >= 20 && c16reNumLike.MatchString(g):
				st["capture.longNumberLike"]++
			case c16reNumLike.MatchString(g):
				st["capture.numberLikeButString"]++
			}
		}
		if len(ix)%2 == 1 {
			st["indices.odd"]++
		}
		for i := 0; i+1 < len(ix); i += 2 {
			if ix[i] < 0 {
				st["indices.unmatchedGroup"]++
				break
			}
		}
	}
	c16StatsR4(cases, st)
	c16StatsR4b(cases, st)
	c16StatsR4c(cases, st)
	return st
}

func init() {
	Register("C16", &Prop{Gen: c16Gen, Run: c16Run, Stats: c16Stats})
}
