//go:build c16

package main

import (
	"bytes"
	"encoding/json"
	"fmt"
	"math/big"
	"regexp"
	"sort"
	"strconv"
	"strings"
	"unicode/utf8"

	"rare/cmd"
	"rare/pkg/extractor"
	"rare/pkg/matchers/dissect"
)

// ---- protocol
//
//	json <named 0|1> <numbered 0|1> <name table> <indices> <line>
//	    name table: `;`-joined `<hex name>:<group index>` entries, `.` when empty
//	    indices:    `,`-joined decimal ints (FindSubmatchIndex result), `.` when empty
//	special <matches hexlist> <keys hexlist> <values hexlist>      (cmd.buildSpecialKeyJson)
//
// answer:  ok <hex text> v=<0|1> m=<members>
//
//	    v: the text is one valid JSON value (encoding/json on this side, the RFC 8259 parser of
//	       Rare.Spec.C16 on the Lean side)
//	    m: decoded members, hexlist of key,value,key,value...; value = tag byte + payload
//	       (s<string>  n<mantissa>e<exp10>  t  f  z);  `nonutf8` when the text is not valid UTF-8
//	       (encoding/json substitutes U+FFFD there, the byte-level Lean parser does not), `x` when v=0
//	nondeterministic   the same call gave two different texts (map iteration order leaked)
//	panic
const c16Repeats = 32

func c16ParseNT(s string) map[string]int {
	m := map[string]int{}
	if s == "." {
		return m
	}
	for _, e := range strings.Split(s, ";") {
		kv := strings.Split(e, ":")
		n, _ := strconv.Atoi(kv[1])
		m[string(UnHex(kv[0]))] = n
	}
	return m
}

func c16ParseInts(s string) []int {
	if s == "." {
		return nil
	}
	var out []int
	for _, p := range strings.Split(s, ",") {
		n, _ := strconv.Atoi(p)
		out = append(out, n)
	}
	return out
}

// canonical number: mantissa (all digits, sign applied) and decimal exponent
func c16Num(lit string) string {
	s := lit
	neg := false
	if strings.HasPrefix(s, "-") {
		neg = true
		s = s[1:]
	}
	exp := new(big.Int)
	if i := strings.IndexAny(s, "eE"); i >= 0 {
		exp.SetString(strings.TrimPrefix(s[i+1:], "+"), 10)
		s = s[:i]
	}
	frac := ""
	if i := strings.IndexByte(s, '.'); i >= 0 {
		frac = s[i+1:]
		s = s[:i]
	}
	mant := new(big.Int)
	mant.SetString(s+frac, 10)
	if neg {
		mant.Neg(mant)
	}
	exp.Sub(exp, big.NewInt(int64(len(frac))))
	return "n" + mant.String() + "e" + exp.String()
}

// c16Describe decodes text with encoding/json (independent validity / decoding oracle).
func c16Describe(text string) string {
	if !json.Valid([]byte(text)) {
		return fmt.Sprintf("ok %s v=0 m=x", HexS(text))
	}
	if !utf8.ValidString(text) {
		return fmt.Sprintf("ok %s v=1 m=nonutf8", HexS(text))
	}
	dec := json.NewDecoder(bytes.NewReader([]byte(text)))
	dec.UseNumber()
	tok, err := dec.Token()
	if d, ok := tok.(json.Delim); err != nil || !ok || d != '{' {
		return fmt.Sprintf("ok %s v=1 m=notobject", HexS(text))
	}
	var mem []string
	for dec.More() {
		k, err := dec.Token()
		if err != nil {
			return fmt.Sprintf("ok %s v=1 m=tokerr", HexS(text))
		}
		v, err := dec.Token()
		if err != nil {
			return fmt.Sprintf("ok %s v=1 m=tokerr", HexS(text))
		}
		mem = append(mem, k.(string))
		switch x := v.(type) {
		case string:
			mem = append(mem, "s"+x)
		case json.Number:
			mem = append(mem, c16Num(string(x)))
		case bool:
			if x {
				mem = append(mem, "t")
			} else {
				mem = append(mem, "f")
			}
		case nil:
			mem = append(mem, "z")
		default:
			return fmt.Sprintf("ok %s v=1 m=nested", HexS(text))
		}
	}
	return fmt.Sprintf("ok %s v=1 m=%s", HexS(text), HexListS(mem))
}

func c16Repeat(f func() string) (res string) {
	defer func() {
		if e := recover(); e != nil {
			res = "panic"
		}
	}()
	first := f()
	for i := 1; i < c16Repeats; i++ {
		if f() != first {
			return "nondeterministic"
		}
	}
	return c16Describe(first)
}

func c16Run(f []string) string {
	switch f[0] {
	case "json":
		if len(f) != 6 {
			return "bad-args"
		}
		key := ""
		switch f[1] + f[2] {
		case "10":
			key = "."
		case "01":
			key = "#"
		case "11":
			key = ".#"
		default:
			return "bad-args"
		}
		nt := c16ParseNT(f[3])
		idx := c16ParseInts(f[4])
		line := string(UnHex(f[5]))
		n := 0
		return c16Repeat(func() string {
			n++
			k := key
			if k == ".#" && n%2 == 0 {
				k = "#." // documented alias
			}
			return extractor.VerifContext(line, idx, nt).GetKey(k)
		})
	case "special":
		if len(f) != 4 {
			return "bad-args"
		}
		matches := UnHexListS(f[1])
		keys, vals := UnHexListS(f[2]), UnHexListS(f[3])
		if len(keys) != len(vals) {
			return "bad-args"
		}
		var m map[string]string
		if len(keys) > 0 {
			m = map[string]string{}
			for i := range keys {
				m[keys[i]] = vals[i]
			}
		}
		return c16Repeat(func() string { return cmd.VerifBuildSpecialKeyJson(matches, m) })
	}
	return "bad-op"
}

// ---- generator

var c16Texts = []string{
	"", "a", "abc", "hello world", "0", "1", "7", "42", "007", "00", "0.5", "00.5", "1.", ".5", "1.5", "10.25", "1.2.3",
	"-1", "+1", "1e5", "1E5", "0x10", "1_000", "12345678901234567890123", "0.000", "1.50",
	"true", "TRUE", "True", "tRuE", "false", "FALSE", "False", "null", "truex", " true", "NaN", "Infinity",
	"\"", "\\", "\"\"", "a\"b", "a\\b", "\\n", "\\u0041", "\\\"", "say \"hi\"", "C:\\dir\\file",
	"\x00", "\x01", "\x07", "\b", "\t", "\n", "\v", "\f", "\r", "\x1b", "\x1f", "\x7f", "a\x01b", "line1\nline2", "tab\there",
	"\x1b[31mred\x1b[0m", "é", "héllo", "日本語", "😀", "\u2028", "\ufffd", "\u00a0",
	"\xff", "\xc3", "a\xffb", "\xc3\x28", "\xed\xa0\x80", "\xf4\x90\x80\x80", "\xc0\x80", "\"\xff", "\xff\"", "\n\xff\xfe", "é\"\xe9",
	"\xe0\xa0\x80", "\xe0\x9f\xbf", "\xed\x9f\xbf", "\xee\x80\x80", "\xf0\x90\x80\x80", "\xf0\x8f\xbf\xbf", "\xf4\x8f\xbf\xbf",
	"\xf5\x80\x80\x80", "\xc2\x80", "\xc1\xbf", "\xdf\xbf", "\xe2\x82", "\xe2\x82\xac", "\x80", "\xbf", "fal\u017fe", "\u212a",
	"{", "}", "{\"a\": 1}", "[1,2]", ",", ":", ", ", "\": \"", "/", "</script>", "'", "1 2", " 1", "1 ", "１",
}

var c16Names = []string{
	"a", "b", "c", "name", "val", "ip", "status", "x_1", "A", "Key", "0", "1", "2", "01", "", " ", "a b",
	"\"", "q\"q", "\\", "b\\s", "\\\"", "n\nl", "\x01", "t\tb", "é", "日本", "\xff", "a\xffb", "\"\xff", ".", "#", ",", ": ", "}",
}

func c16RandBytes(r *Rand) string {
	n := r.Intn(6)
	b := make([]byte, n)
	for i := range b {
		switch r.Intn(6) {
		case 0:
			b[i] = byte(r.Intn(0x20))
		case 1:
			b[i] = Pick(r, []byte{'"', '\\', '/', 'u', 'n', '0', '.', '1', '9', 'e', '-'})
		case 2:
			b[i] = byte(0x80 + r.Intn(0x80))
		default:
			b[i] = byte(r.Intn(256))
		}
	}
	return string(b)
}

func c16RandDigits(r *Rand) string {
	var sb strings.Builder
	n := 1 + r.Intn(4)
	for i := 0; i < n; i++ {
		sb.WriteByte(Pick(r, []byte("0012345679")))
	}
	if r.Chance(1, 2) {
		sb.WriteByte('.')
		n = r.Intn(4)
		for i := 0; i < n; i++ {
			sb.WriteByte(Pick(r, []byte("0012345679")))
		}
	}
	if r.Chance(1, 8) {
		sb.WriteString(Pick(r, []string{"e5", "E-2", ".", "a", " ", "-"}))
	}
	return sb.String()
}

func c16Text(r *Rand) string {
	switch r.Intn(10) {
	case 0, 1:
		return c16RandBytes(r)
	case 2, 3:
		return c16RandDigits(r)
	case 4:
		return Pick(r, c16Texts) + Pick(r, c16Texts)
	default:
		return Pick(r, c16Texts)
	}
}

func c16Name(r *Rand) string {
	if r.Chance(1, 8) {
		return c16RandBytes(r)
	}
	if r.Chance(1, 10) {
		return Pick(r, c16Texts)
	}
	return Pick(r, c16Names)
}

func c16NT(names []string, idx []int) string {
	if len(names) == 0 {
		return "."
	}
	parts := make([]string, len(names))
	for i := range names {
		parts[i] = fmt.Sprintf("%s:%d", HexS(names[i]), idx[i])
	}
	return strings.Join(parts, ";")
}

func c16Ints(xs []int) string {
	if len(xs) == 0 {
		return "."
	}
	p := make([]string, len(xs))
	for i, x := range xs {
		p[i] = strconv.Itoa(x)
	}
	return strings.Join(p, ",")
}

func c16Flags(r *Rand) string { return Pick(r, []string{"1 0", "1 0", "0 1", "1 1", "1 1"}) }

// one structured case: a line made of group texts, index slice as a regex would return it
func c16GenJSON(r *Rand) string {
	ngroups := r.Intn(5) // groups 1..ngroups (group 0 = whole match)
	var line strings.Builder
	line.WriteString(Pick(r, []string{"", "", "> ", "x"}))
	start0 := line.Len()
	idx := []int{0, 0}
	for g := 0; g < ngroups; g++ {
		if g > 0 {
			line.WriteString(Pick(r, []string{" ", ",", "", "|"}))
		}
		if r.Chance(1, 8) { // group did not participate
			idx = append(idx, -1, -1)
			continue
		}
		t := c16Text(r)
		idx = append(idx, line.Len(), line.Len()+len(t))
		line.WriteString(t)
	}
	idx[0], idx[1] = start0, line.Len()
	line.WriteString(Pick(r, []string{"", "", " tail"}))
	if ngroups == 0 && r.Chance(1, 2) { // whole-match only: make group 0 interesting
		t := c16Text(r)
		line.Reset()
		line.WriteString(t)
		idx = []int{0, len(t)}
	}
	// name table
	nn := r.Intn(5)
	seen := map[string]bool{}
	var names []string
	var nidx []int
	for len(names) < nn {
		n := c16Name(r)
		if seen[n] {
			if r.Chance(1, 4) {
				nn--
			}
			continue
		}
		seen[n] = true
		names = append(names, n)
		g := 1 + r.Intn(ngroups+1)
		if r.Chance(1, 10) {
			g = Pick(r, []int{0, -1, ngroups + 1, ngroups + 5, 1000})
		}
		nidx = append(nidx, g)
	}
	ix := idx
	// malformed stream
	if r.Chance(1, 25) {
		switch r.Intn(5) {
		case 0:
			ix = ix[:len(ix)-1] // odd length
		case 1:
			ix = nil
		case 2:
			ix = append(append([]int{}, ix...), line.Len()+1, line.Len()+3) // beyond the line: slice panic
		case 3:
			ix = append(append([]int{}, ix...), line.Len(), 0) // start > end
		case 4:
			ix = append(append([]int{}, ix...), -1, 2)
		}
	}
	return fmt.Sprintf("json %s %s %s %s", c16Flags(r), c16NT(names, nidx), c16Ints(ix), HexS(line.String()))
}

// a case whose name table and index slice come from the real dissect matcher
func c16GenDissect(r *Rand) (string, bool) {
	n := 1 + r.Intn(4)
	var pat, line strings.Builder
	seen := map[string]bool{}
	for i := 0; i < n; i++ {
		name := strings.NewReplacer("}", "", "%", "", "{", "").Replace(c16Name(r))
		name = strings.TrimLeft(name, "?")
		if seen[name] {
			name += strconv.Itoa(i)
		}
		seen[name] = true
		sep := Pick(r, []string{" ", ";", " - ", "|"})
		pat.WriteString("%{" + name + "}" + sep)
		t := strings.ReplaceAll(c16Text(r), sep, "_")
		line.WriteString(t + sep)
	}
	d, err := dissect.Compile(pat.String())
	if err != nil {
		return "", false
	}
	ix := d.CreateInstance().FindSubmatchIndex([]byte(line.String()))
	if ix == nil {
		return "", false
	}
	var names []string
	var nidx []int
	for k, v := range d.SubexpNameTable() {
		names = append(names, k)
		nidx = append(nidx, v)
	}
	sort.Sort(&c16ByName{names, nidx})
	return fmt.Sprintf("json %s %s %s %s", c16Flags(r), c16NT(names, nidx), c16Ints(ix), HexS(line.String())), true
}

type c16ByName struct {
	n []string
	i []int
}

func (s *c16ByName) Len() int           { return len(s.n) }
func (s *c16ByName) Less(a, b int) bool { return s.n[a] < s.n[b] }
func (s *c16ByName) Swap(a, b int) {
	s.n[a], s.n[b] = s.n[b], s.n[a]
	s.i[a], s.i[b] = s.i[b], s.i[a]
}

func c16GenSpecial(r *Rand) string {
	nm := r.Intn(4)
	var matches []string
	for i := 0; i < nm; i++ {
		matches = append(matches, c16Text(r))
	}
	nk := r.Intn(5)
	seen := map[string]bool{}
	var keys, vals []string
	for i := 0; i < nk; i++ {
		k := c16Name(r)
		if seen[k] {
			continue
		}
		seen[k] = true
		keys = append(keys, k)
		vals = append(vals, c16Text(r))
	}
	return fmt.Sprintf("special %s %s %s", HexListS(matches), HexListS(keys), HexListS(vals))
}

func c16Gen(r *Rand, tier string) []string {
	n := 4000
	if tier == "thorough" {
		n = 400000
	}
	var out []string
	for i := 0; i < n; i++ {
		switch {
		case i%8 == 7:
			out = append(out, c16GenSpecial(r))
		case i%8 == 6:
			if c, ok := c16GenDissect(r); ok {
				out = append(out, c)
			} else {
				out = append(out, c16GenJSON(r))
			}
		default:
			out = append(out, c16GenJSON(r))
		}
	}
	// every single byte as a whole-match capture, and as a one-byte group name
	for b := 0; b < 256; b++ {
		s := string([]byte{byte(b)})
		out = append(out, fmt.Sprintf("json 0 1 . 0,1 %s", HexS(s)))
		out = append(out, fmt.Sprintf("json 1 0 %s:0 0,1 61", HexS(s)))
		out = append(out, fmt.Sprintf("special %s %s %s", HexS(s), HexS(s), HexS(s)))
	}
	if tier == "thorough" {
		// exhaustive: all strings over a numeric-shape alphabet up to length 5 as the only capture
		alpha := []byte{'0', '1', '.', '-', 'e'}
		var rec func(cur []byte)
		rec = func(cur []byte) {
			if len(cur) > 0 {
				out = append(out, fmt.Sprintf("json 1 1 6e:0 0,%d %s", len(cur), Hex(cur)))
			}
			if len(cur) < 5 {
				for _, c := range alpha {
					rec(append(append([]byte{}, cur...), c))
				}
			}
		}
		rec(nil)
		// every 2-byte string; 3- and 4-byte UTF-8 boundary sequences (escape table + UTF-8 DFA vs utf8.Valid)
		for a := 0; a < 256; a++ {
			for b := 0; b < 256; b++ {
				out = append(out, fmt.Sprintf("json 0 1 . 0,2 %s", Hex([]byte{byte(a), byte(b)})))
			}
		}
		for _, a := range []byte{0xe0, 0xe1, 0xec, 0xed, 0xee, 0xef, 0xf0, 0xf1, 0xf3, 0xf4, 0xf5} {
			for b := 0x70; b < 0xd0; b++ {
				for _, c := range []byte{0x7f, 0x80, 0xbf, 0xc0} {
					out = append(out, fmt.Sprintf("json 0 1 . 0,3 %s", Hex([]byte{a, byte(b), c})))
					out = append(out, fmt.Sprintf("json 0 1 . 0,4 %s", Hex([]byte{a, byte(b), c, 0x80})))
				}
			}
		}
		// all pairs of bytes from a set of structurally dangerous ones, as capture and as name
		danger := []byte{0x00, 0x01, 0x08, 0x0a, 0x1f, 0x20, '"', '\\', '/', 'u', '0', 0x7f, 0x80, 0xc3, 0xa9, 0xff}
		for _, a := range danger {
			for _, b := range danger {
				for _, c := range danger {
					s := []byte{a, b, c}
					out = append(out, fmt.Sprintf("json 1 1 %s:0;62:0 0,3 %s", Hex(s), Hex(s)))
				}
			}
		}
	}
	return out
}

var (
	c16reNum     = regexp.MustCompile(`^[0-9]+(\.[0-9]+)?$`)
	c16reLead0   = regexp.MustCompile(`^0[0-9]`)
	c16reNumLike = regexp.MustCompile(`^[-+.0-9eE]+$`)
)

func c16Stats(cases []string) map[string]int {
	st := map[string]int{}
	for _, c := range cases {
		f := strings.Fields(c)
		st["op."+f[0]]++
		if f[0] != "json" || len(f) != 6 {
			continue
		}
		st["json.flags."+f[1]+f[2]]++
		nt := c16ParseNT(f[3])
		st[fmt.Sprintf("json.named=%d", len(nt))]++
		for k := range nt {
			if strings.ContainsAny(k, "\"\\") {
				st["name.quoteOrBackslash"]++
			}
			if !utf8.ValidString(k) {
				st["name.invalidUtf8"]++
			}
		}
		line := string(UnHex(f[5]))
		if !utf8.ValidString(line) {
			st["line.invalidUtf8"]++
		}
		if strings.ContainsAny(line, "\"\\") {
			st["line.quoteOrBackslash"]++
		}
		for i := 0; i < len(line); i++ {
			if line[i] < 0x20 {
				st["line.controlByte"]++
				break
			}
		}
		for i := 0; i < len(line); i++ {
			if line[i] >= 0x80 {
				st["line.nonAscii"]++
				break
			}
		}
		ix := c16ParseInts(f[4])
		for i := 0; i+1 < len(ix); i += 2 {
			if ix[i] < 0 || ix[i+1] > len(line) || ix[i] > ix[i+1] {
				continue
			}
			g := line[ix[i]:ix[i+1]]
			switch {
			case g == "":
				st["capture.empty"]++
			case c16reNum.MatchString(g) && c16reLead0.MatchString(g):
				st["capture.leadingZeroNumeral"]++
			case c16reNum.MatchString(g):
				st["capture.jsonNumber"]++
			case strings.EqualFold(g, "true") || strings.EqualFold(g, "false"):
				st["capture.boolWord"]++
			case c16reNumLike.MatchString(g):
				st["capture.numberLikeButString"]++
			}
		}
		if len(ix)%2 == 1 {
			st["indices.odd"]++
		}
		for i := 0; i+1 < len(ix); i += 2 {
			if ix[i] < 0 {
				st["indices.unmatchedGroup"]++
				break
			}
		}
	}
	return st
}

func init() {
	Register("C16", &Prop{Gen: c16Gen, Run: c16Run, Stats: c16Stats})
}
