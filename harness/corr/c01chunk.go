//go:build c01

package main

import (
	"fmt"
	"os"
	"path/filepath"
	"sort"
	"strconv"
	"strings"
	"syscall"
	"time"

	"rare/cmd/helpers"
	"rare/pkg/extractor"
	"rare/pkg/extractor/batchers"

	"github.com/urfave/cli/v2"
)

// pipex <mode> <batch> <workers> <readers> <buffer> <flushms> <sources> <matcher> <ignores> <extract>
//
// The REAL batcher + extractor over sources that are not all well-behaved files, the exit state the REAL
// helpers.DetermineErrorState computes from them and the REAL summary line with the error count
// (Model/C01Chunk.lean: scanSrc / readErrors / determineErrorState; theorems pipeline_final_chunked, cli_exit_code).
//
// <sources> = ';'-joined items kind/hexdata/script (empty list = "."):
//
//	d  a regular file                      (files mode)
//	m  a file that does not exist          (files mode: os.Open fails -> logged, counted, skipped)
//	D  a directory given as a file         (files mode: os.Open succeeds, the first Read fails with EISDIR)
//	p  a FIFO that a writer goroutine feeds in the chunks of the script, pausing between them, while the other
//	   readers run (files mode: chunked delivery under real concurrency)
//	r  a scripted reader (reader mode, exactly one source): per Read call how many bytes at most and
//	   n | e (io.EOF alongside) | f (another error alongside), C04's scripted reader
type xSource struct {
	kind   byte
	data   []byte
	script string
}

func parseXSources(s string) []xSource {
	if s == "." {
		return nil
	}
	var out []xSource
	for _, it := range strings.Split(s, ";") {
		p := strings.Split(it, "/")
		if len(p) != 3 || len(p[0]) != 1 {
			return nil
		}
		out = append(out, xSource{kind: p[0][0], data: UnHex(p[1]), script: p[2]})
	}
	return out
}

var pipexSeq int

func pipexRun(f []string) string {
	if len(f) != 11 {
		return "bad-args"
	}
	atoi := func(s string) int { n, _ := strconv.Atoi(s); return n }
	mode, batch, workers, readers, buffer, flushMs := f[1], atoi(f[2]), atoi(f[3]), atoi(f[4]), atoi(f[5]), atoi(f[6])
	srcs := parseXSources(f[7])
	cls := parseClsSpec(f[8], f[9], f[10])
	ecfg, cerr := extractorConfig(cls, workers)
	if cerr != nil {
		return "compile-error"
	}

	var b *batchers.Batcher
	var writers []chan struct{}
	if mode == "reader" {
		if len(srcs) != 1 || srcs[0].kind != 'r' {
			return "bad-args"
		}
		rd := &scriptedReader{rest: append([]byte{}, srcs[0].data...), script: parseScript(srcs[0].script)}
		if flushMs > 0 {
			b = batchers.VerifOpenReaderToChan("s0", rd, batch, buffer, time.Duration(flushMs)*time.Millisecond)
		} else {
			b = batchers.OpenReaderToChan("s0", rd, batch, buffer)
		}
	} else {
		pipexSeq++
		dir := filepath.Join(workDir(), fmt.Sprintf("pipex-%d-%d", os.Getpid(), pipexSeq))
		os.MkdirAll(dir, 0o755)
		defer os.RemoveAll(dir)
		defer inDir(dir)()
		names := make(chan string, len(srcs)+1)
		for i, s := range srcs {
			name := srcName(mode, i)
			p := filepath.Join(dir, name)
			switch s.kind {
			case 'd':
				os.WriteFile(p, s.data, 0o644)
			case 'm':
			case 'D':
				os.Mkdir(p, 0o755)
			case 'p':
				if err := syscall.Mkfifo(p, 0o644); err != nil {
					return "unmodelled mkfifo " + err.Error()
				}
				done := make(chan struct{})
				writers = append(writers, done)
				go func(p string, s xSource) {
					defer close(done)
					w, err := os.OpenFile(p, os.O_WRONLY, 0)
					if err != nil {
						return
					}
					defer w.Close()
					rest := s.data
					for _, st := range parseScript(s.script) {
						n := st.want
						if n > len(rest) {
							n = len(rest)
						}
						if n > 0 {
							w.Write(rest[:n])
							rest = rest[n:]
						}
						time.Sleep(200 * time.Microsecond)
					}
					w.Write(rest)
				}(p, s)
			default:
				return "bad-args"
			}
			names <- name
		}
		close(names)
		b = batchers.OpenFilesToChan(names, false, readers, batch, buffer)
	}

	ext, err := extractor.New(b.BatchChan(), ecfg)
	if err != nil {
		go func() {
			for range b.BatchChan() {
			}
		}()
		return "compile-error"
	}
	var matches []extractor.Match
	for mb := range ext.ReadChan() {
		matches = append(matches, mb...)
	}
	for _, w := range writers {
		<-w
	}

	exit, msg := 0, ""
	if e := helpers.DetermineErrorState(b, ext, nil); e != nil {
		if ec, ok := e.(cli.ExitCoder); ok {
			exit, msg = ec.ExitCode(), ec.Error()
		} else {
			exit, msg = -1, e.Error()
		}
	}
	var summary string
	withFormat(true, false, func() { summary = helpers.FWriteExtractorSummary(ext, uint64(b.ReadErrors())) })

	type row struct {
		src, num int
		s        string
	}
	rows := make([]row, len(matches))
	for i, m := range matches {
		src := srcIndex(m.Source)
		if m.Source != srcName(mode, src) {
			src = -1
		}
		rows[i] = row{src, int(m.LineNumber), fmt.Sprintf("%d:%d:%s:%s", src, m.LineNumber, HexS(m.Line), HexS(m.Extracted))}
	}
	sort.Slice(rows, func(i, j int) bool {
		if rows[i].src != rows[j].src {
			return rows[i].src < rows[j].src
		}
		return rows[i].num < rows[j].num
	})
	parts := make([]string, len(rows))
	for i, r := range rows {
		parts[i] = r.s
	}
	body := "."
	if len(parts) > 0 {
		body = strings.Join(parts, ",")
	}
	return fmt.Sprintf("ok read=%d matched=%d ignored=%d errors=%d exit=%d msg=%s summary=%s matches=%s",
		ext.ReadLines(), ext.MatchedLines(), ext.IgnoredLines(), b.ReadErrors(), exit, HexS(msg), HexS(summary), body)
}

func pipexGen(r *Rand, tier string) []string {
	n := 90
	if tier == "thorough" {
		n = 1500
	}
	var out []string
	chunkScript := func(total int, faults bool) string {
		var steps []string
		for pos := 0; pos <= total && len(steps) < 30; {
			w := Pick(r, []int{0, 1, 1, 2, 3, 5, 8, 13, 50})
			e := "n"
			if faults && r.Chance(1, 7) {
				e = Pick(r, []string{"f", "f", "e"})
			}
			steps = append(steps, fmt.Sprintf("%d:%s", w, e))
			pos += w
			if e != "n" && r.Chance(2, 3) {
				break
			}
		}
		if len(steps) == 0 {
			return "."
		}
		return strings.Join(steps, ",")
	}
	for i := 0; i < n; i++ {
		mode := "files"
		if r.Chance(1, 3) {
			mode = "reader"
		}
		var items []string
		nsrc := 1
		if mode == "files" {
			nsrc = Pick(r, []int{0, 1, 2, 3, 4, 6})
		}
		for k := 0; k < nsrc; k++ {
			data := genLines(r, Pick(r, []int{0, 1, 2, 3, 7, 20}))
			if r.Chance(1, 10) {
				data = []byte(strings.Repeat("x\n", r.Intn(4))) // nothing matches: exit code 1
			}
			if mode == "reader" {
				items = append(items, fmt.Sprintf("r/%s/%s", Hex(data), chunkScript(len(data), r.Chance(2, 3))))
				continue
			}
			switch Pick(r, []string{"d", "d", "d", "m", "D", "p", "p"}) {
			case "d":
				items = append(items, fmt.Sprintf("d/%s/.", Hex(data)))
			case "m":
				items = append(items, "m/-/.")
			case "D":
				items = append(items, "D/-/0:f")
			default:
				items = append(items, fmt.Sprintf("p/%s/%s", Hex(data), chunkScript(len(data), false)))
			}
		}
		srcs := "."
		if len(items) > 0 {
			srcs = strings.Join(items, ";")
		}
		flush := 0
		if mode == "reader" && r.Chance(1, 3) {
			flush = 1
		}
		cls := genClsSpec(r, mode, nsrc)
		if r.Chance(1, 6) { // a configuration under which nothing is matched: exit code 1 unless an error wins
			cls = &clsSpec{matcher: "h", ignores: []string{"1"}, extract: "{0}"}
		}
		out = append(out, fmt.Sprintf("pipex %s %d %d %d %d %d %s %s", mode, Pick(r, []int{1, 1, 2, 3, 7, 1000}), Pick(r, []int{1, 2, 3, 4}),
			Pick(r, []int{1, 1, 2, 3, 4}), Pick(r, []int{0, 1, 2, 4}), flush, srcs, strings.Join(cls.fields(), " ")))
	}
	return out
}

func pipexStats(st map[string]int, c string) {
	f := strings.Fields(c)
	st["pipex.cases"]++
	st["pipex.mode."+f[1]]++
	for _, s := range parseXSources(f[7]) {
		st["pipex.source."+string(s.kind)]++
		if strings.Contains(s.script, ":f") {
			st["pipex.script.fail"]++
		}
		if strings.Contains(s.script, ":e") {
			st["pipex.script.early-eof"]++
		}
	}
}
