//go:build c12

package main

// Round 4 ops of C12: direct correspondence for functions that `dissect`/`specp` reach only
// indirectly.
//
//	index <hay> <needle>     strings.Index / bytes.Index / IndexByte as Go runs them, and case.go's
//	                         indexIgnoreCase / lowerASCII (through the verif hooks), against goIndex,
//	                         goIndexByte, indexIgnoreCase, lowerASCII of the model
//	pool <size> <n,n,…>      slicepool.IntPool: views (start:len) of a sequence of Get calls, whether
//	                         every slice still holds what was written right after its Get, the panic
//	must <pattern>           Compile / MustCompile
//	field <ic> <pat> <line>  named-field view: {0} and every named capture cut out of the line, on the
//	                         Go side ALSO through the extractor's real context (GetKey by name)

import (
	"bytes"
	"fmt"
	"sort"
	"strconv"
	"strings"
	"sync"
	"unicode/utf8"

	"rare/pkg/extractor"
	"rare/pkg/matchers"
	"rare/pkg/matchers/dissect"
	"rare/pkg/slicepool"
)

func c12Index(hay, needle []byte) string {
	si := strings.Index(string(hay), string(needle))
	if bi := bytes.Index(hay, needle); bi != si {
		return fmt.Sprintf("impl-disagree strings.Index=%d bytes.Index=%d", si, bi)
	}
	ib := -1
	if len(needle) > 0 {
		ib = strings.IndexByte(string(hay), needle[0])
		if b2 := bytes.IndexByte(hay, needle[0]); b2 != ib {
			return fmt.Sprintf("impl-disagree strings.IndexByte=%d bytes.IndexByte=%d", ib, b2)
		}
	}
	low := dissect.VerifLowerASCII(string(needle))
	for i := 0; i < len(needle); i++ {
		if dissect.VerifLowerByte(needle[i]) != low[i] {
			return "impl-disagree lowerByte/lowerASCII"
		}
	}
	ic := dissect.VerifIndexIgnoreCase(string(hay), low)
	icraw := dissect.VerifIndexIgnoreCase(string(hay), string(needle))
	return fmt.Sprintf("ok si=%d ib=%d ic=%d icraw=%d low=%s lowhay=%s", si, ib, ic, icraw, HexS(low),
		HexS(dissect.VerifLowerASCII(string(hay))))
}

func c12Pool(size int, ns []int) string {
	p := slicepool.NewIntPool(size)
	var held [][]int
	var views []string
	for k, n := range ns {
		r := p.Get(n) // may panic ("pool not large enough"): canonicalised to `panic` by c12RunExt
		for i := range r {
			r[i] = k + 1
		}
		held = append(held, r)
		views = append(views, fmt.Sprintf("%d:%d", size-cap(r), len(r)))
	}
	intact := 1
	for k, r := range held {
		for _, v := range r {
			if v != k+1 {
				intact = 0
			}
		}
	}
	v := "."
	if len(views) > 0 {
		v = strings.Join(views, ",")
	}
	return fmt.Sprintf("ok v=%s intact=%d", v, intact)
}

func c12Must(pat string) (res string) {
	_, err := dissect.Compile(pat)
	_, errEx := dissect.CompileEx(pat, false)
	if (err == nil) != (errEx == nil) {
		return "impl-disagree Compile/CompileEx"
	}
	defer func() {
		if e := recover(); e != nil {
			if err == nil {
				res = "impl-disagree MustCompile panicked, Compile did not fail"
			} else {
				res = "panic"
			}
		}
	}()
	d := dissect.MustCompile(pat)
	if d == nil || err != nil {
		return "impl-disagree MustCompile returned although Compile failed"
	}
	return "ok"
}

var c12SpecialKeys = map[string]bool{"src": true, "line": true, ".": true, "#": true, ".#": true, "#.": true, "@": true}

func c12Field(ic bool, pat string, line []byte) string {
	d, err := dissect.CompileEx(pat, ic)
	if err != nil {
		return "err " + c12ErrClass(err)
	}
	// through the factory wrapper of pkg/matchers/factory.go, as the CLI wires it
	m := matchers.ToFactory(d).CreateInstance()
	r := m.FindSubmatchIndex(line)
	if r == nil {
		return "ok nomatch"
	}
	ctx := extractor.VerifContext(string(line), r, m.SubexpNameTable())
	whole := string(line[r[0]:r[1]])
	if g := ctx.GetMatch(0); g != whole {
		return fmt.Sprintf("seam-disagree GetMatch(0)=%q slice=%q", g, whole)
	}
	// offsets_on_char_boundaries / captures_are_utf8, with Go's own utf8.Valid as the oracle: valid
	// UTF-8 pattern and line => {0} and every capture are valid UTF-8 (no character is cut)
	allValid := utf8.ValidString(pat) && utf8.Valid(line)
	if allValid && !utf8.ValidString(whole) {
		return fmt.Sprintf("impl-cuts-character {0}=%q", whole)
	}
	var fs []string
	for name, i := range d.SubexpNameTable() {
		t := string(line[r[2*i]:r[2*i+1]])
		if allValid && !utf8.ValidString(t) {
			return fmt.Sprintf("impl-cuts-character %q=%q", name, t)
		}
		if g := ctx.GetMatch(i); g != t {
			return fmt.Sprintf("seam-disagree GetMatch(%d)=%q slice=%q", i, g, t)
		}
		if !c12SpecialKeys[name] {
			// the seam to the match context: {name} reads the slot the name table points to
			if g := ctx.GetKey(name); g != t {
				return fmt.Sprintf("seam-disagree GetKey(%q)=%q slice=%q", name, g, t)
			}
		}
		fs = append(fs, HexS(name)+"="+HexS(t))
	}
	sort.Strings(fs)
	f := "."
	if len(fs) > 0 {
		f = strings.Join(fs, ",")
	}
	return fmt.Sprintf("ok len=%d 0=%s f=%s", len(r), HexS(whole), f)
}

// c12Par: k goroutines, each with its own instance (matchers.ToFactory(d).CreateInstance(), as
// extractor.asyncWorker does) of ONE compiled pattern, match the lines concurrently, keep the slices
// and render them after all goroutines are done.  All must give the single-instance answer.
func c12Par(ic bool, pat string, lines [][]byte, rep, k int) string {
	single := c12Match(ic, pat, lines, rep)
	if !strings.HasPrefix(single, "ok") {
		return single
	}
	d, _ := dissect.CompileEx(pat, ic)
	fac := matchers.ToFactory(d)
	// the factory hands out a NEW instance per call (one per worker): two calls, two objects
	if m1, m2 := fac.CreateInstance(), fac.CreateInstance(); m1 == m2 {
		return "factory-returned-same-instance"
	}
	held := make([][][]int, k)
	var wg sync.WaitGroup
	for g := 0; g < k; g++ {
		wg.Add(1)
		go func(g int) {
			defer wg.Done()
			m := fac.CreateInstance()
			for j := 0; j < rep; j++ {
				for _, l := range lines {
					held[g] = append(held[g], m.FindSubmatchIndex(l))
				}
			}
		}(g)
	}
	wg.Wait()
	want := single[strings.Index(single, " r=")+3:]
	for g := 0; g < k; g++ {
		parts := make([]string, len(held[g]))
		for i, r := range held[g] {
			parts[i] = c12Ints(r)
		}
		got := "."
		if len(parts) > 0 {
			got = strings.Join(parts, "|")
		}
		if got != want {
			return fmt.Sprintf("instances-disagree goroutine=%d", g)
		}
	}
	return single
}

func c12RunExt(f []string) (string, bool) {
	if res, ok := c12RunHist(f); ok {
		return res, true
	}
	switch f[0] {
	case "par":
		rep, _ := strconv.Atoi(f[4])
		k, _ := strconv.Atoi(f[5])
		return c12Par(f[1] == "1", string(UnHex(f[2])), UnHexList(f[3]), rep, k), true
	case "index":
		return c12Index(UnHex(f[1]), UnHex(f[2])), true
	case "pool":
		size, _ := strconv.Atoi(f[1])
		var ns []int
		if f[2] != "." {
			for _, x := range strings.Split(f[2], ",") {
				n, _ := strconv.Atoi(x)
				ns = append(ns, n)
			}
		}
		return c12safe(func() string { return c12Pool(size, ns) }), true
	case "must":
		return c12Must(string(UnHex(f[1]))), true
	case "field":
		return c12safe(func() string { return c12Field(f[1] == "1", string(UnHex(f[2])), UnHex(f[3])) }), true
	}
	return "", false
}

// ---------------------------------------------------------------- generators

// a periodic text: a short unit repeated, optionally with one byte changed and random case flips
func c12Periodic(r *Rand, n int) []byte {
	alpha := Pick(r, [][]byte{{'a'}, {'a', 'b'}, {'a', 'b'}, {'a', 'A', 'b'}, {'a', 'b', 'c', 0xc3, 0xa9}, {0, 0xff, 'Z', 'z', '@', '['}})
	period := 1 + r.Intn(8)
	unit := make([]byte, period)
	for i := range unit {
		unit[i] = Pick(r, alpha)
	}
	out := make([]byte, n)
	for i := range out {
		out[i] = unit[i%period]
	}
	if n > 0 && r.Chance(1, 2) {
		out[r.Intn(n)] = Pick(r, alpha)
	}
	if n > 0 && r.Chance(1, 3) {
		out[n-1] = Pick(r, alpha)
	}
	return out
}

var c12Lens = []int{0, 1, 2, 3, 5, 8, 31, 32, 33, 62, 63, 64, 65, 66, 100, 130, 257, 400}

func c12GenIndex(r *Rand) string {
	n := Pick(r, c12Lens)
	if r.Chance(1, 2) {
		n = r.Intn(12)
	}
	hay := c12Periodic(r, n)
	var needle []byte
	switch r.Intn(7) {
	case 0: // a slice of the hay (occurs; overlapping partial matches before it in periodic text)
		if n > 0 {
			a := r.Intn(n)
			b := a + r.Intn(n-a+1)
			needle = append([]byte{}, hay[a:b]...)
		}
	case 1: // the tail of the hay, possibly with a changed last byte
		k := r.Intn(n + 1)
		needle = append([]byte{}, hay[n-k:]...)
		if len(needle) > 0 && r.Bool() {
			needle[len(needle)-1] ^= byte(1 + r.Intn(3))
		}
	case 2: // another periodic text
		needle = c12Periodic(r, Pick(r, []int{0, 1, 2, 3, 4, 7, 31, 32, 33, 63, 64, 65, 70}))
	case 3: // the hay itself, or longer than the hay
		needle = append([]byte{}, hay...)
		if r.Bool() {
			needle = append(needle, hay[:r.Intn(n+1)]...)
			needle = append(needle, 'a')
		}
	case 4: // a long slice of the hay with one byte changed (many IndexByte false positives)
		if n >= 2 {
			k := n/2 + r.Intn(n/2)
			a := r.Intn(n - k + 1)
			needle = append([]byte{}, hay[a:a+k]...)
			needle[r.Intn(k)] ^= 1
		}
	case 5:
		needle = nil
	default:
		needle = c12Periodic(r, 1+r.Intn(4))
	}
	if r.Chance(1, 3) {
		needle = []byte(c12FlipCase(r, string(needle)))
	}
	if r.Chance(1, 4) {
		hay = []byte(c12FlipCase(r, string(hay)))
	}
	return fmt.Sprintf("index %s %s", Hex(hay), Hex(needle))
}

func c12GenPool(r *Rand) string {
	size := Pick(r, []int{0, 1, 2, 3, 4, 6, 8, 10, 16, 4096})
	k := r.Intn(14)
	ns := make([]string, k)
	for i := range ns {
		n := r.Intn(size + 1)
		switch {
		case r.Chance(1, 3):
			n = r.Intn(3)
		case r.Chance(1, 25):
			n = size + 1 + r.Intn(2) // panics
		case r.Chance(1, 10):
			n = size
		}
		ns[i] = strconv.Itoa(n)
	}
	s := "."
	if k > 0 {
		s = strings.Join(ns, ",")
	}
	return fmt.Sprintf("pool %d %s", size, s)
}

var c12FieldKeys = []string{"a", "b", "src", "line", ".", "#", "@", "?src", "é", "a b", "A", "a\"b", "0", "1"}

func c12GenField(r *Rand) string {
	p := c12GenPat(r)
	if r.Chance(1, 3) {
		for i := range p.keys {
			if r.Bool() {
				p.keys[i] = Pick(r, c12FieldKeys)
			}
		}
	}
	ic := r.Bool()
	icS := "0"
	if ic {
		icS = "1"
	}
	return fmt.Sprintf("field %s %s %s", icS, HexS(p.render()), Hex(c12GenLine(r, p, ic)))
}

// dissect on periodic material: literals that are short periodic words (`aab`, `abab`, `-->`), now
// and then longer than 63 bytes (the Rabin-Karp arm of the real strings.Index), and lines that are
// long periodic runs containing the literals at late offsets after many partial matches
func c12GenPeriodicDissect(r *Rand) string {
	word := func() string {
		w := c12Periodic(r, 1+r.Intn(4))
		if r.Chance(1, 12) {
			w = c12Periodic(r, 64+r.Intn(8))
		}
		s := strings.ReplaceAll(string(w), "%{", "%")
		if s == "" {
			s = "a"
		}
		return s
	}
	var p c12Pat
	if r.Chance(2, 3) {
		p.pre = word()
	}
	nt := 1 + r.Intn(3)
	for i := 0; i < nt; i++ {
		p.keys = append(p.keys, Pick(r, []string{"x" + strconv.Itoa(i), "", "?s"}))
		lit := word()
		if i == nt-1 && r.Bool() {
			lit = ""
		}
		p.lits = append(p.lits, lit)
	}
	ic := r.Bool()
	nl := 1 + r.Intn(4)
	var lines [][]byte
	for j := 0; j < nl; j++ {
		var sb bytes.Buffer
		sb.Write(c12Periodic(r, Pick(r, []int{0, 1, 3, 9, 40, 70, 130})))
		sb.WriteString(p.pre)
		for i := range p.lits {
			sb.Write(c12Periodic(r, Pick(r, []int{0, 1, 2, 5, 17, 66})))
			if !r.Chance(1, 10) {
				sb.WriteString(p.lits[i])
			}
		}
		sb.Write(c12Periodic(r, r.Intn(4)))
		l := sb.Bytes()
		if ic {
			l = []byte(c12FlipCase(r, string(l)))
		}
		lines = append(lines, l)
	}
	icS := "0"
	if ic {
		icS = "1"
	}
	if r.Bool() {
		return fmt.Sprintf("specp %s %s %s %s %s 1", icS, HexS(p.pre), HexListS(p.keys), HexListS(p.lits), HexList(lines))
	}
	return fmt.Sprintf("dissect %s %s %s 1", icS, HexS(p.render()), HexList(lines))
}

func c12GenExt(r *Rand, tier string) []string {
	n := 1500
	if tier == "thorough" {
		n = 40000
	}
	var out []string
	for i := 0; i < n; i++ {
		out = append(out, c12GenIndex(r))
	}
	for i := 0; i < n/3; i++ {
		out = append(out, c12GenPool(r))
	}
	for i := 0; i < n/3; i++ {
		out = append(out, c12GenPeriodicDissect(r))
	}
	for i := 0; i < n/2; i++ {
		out = append(out, c12GenField(r))
	}
	for i := 0; i < n/50; i++ {
		p := c12GenPat(r)
		ic := r.Bool()
		icS := "0"
		if ic {
			icS = "1"
		}
		nl := 2 + r.Intn(5)
		var lines [][]byte
		for j := 0; j < nl; j++ {
			lines = append(lines, c12GenLine(r, p, ic))
		}
		rep := 1 + r.Intn(3)
		if tier == "thorough" && r.Chance(1, 50) {
			rep = 1100/nl + 1 // every goroutine's pool is refilled (quick: the corpus case does that)
		}
		out = append(out, fmt.Sprintf("par %s %s %s %d %d", icS, HexS(p.render()), HexList(lines), rep, 2+r.Intn(4)))
	}
	for i := 0; i < n/6; i++ {
		pat := c12GenRawPattern(r)
		if r.Bool() {
			pat = c12GenDupPat(r)
		}
		out = append(out, "must "+HexS(pat))
	}
	out = append(out, c12GenHistAll(r, tier)...)
	if tier == "thorough" {
		// exhaustive: every hay over {a,b,A} up to length 6 x every needle over {a,b} up to length 3
		var hays, needles [][]byte
		var rec func(cur []byte, alpha []byte, max int, acc *[][]byte)
		rec = func(cur []byte, alpha []byte, max int, acc *[][]byte) {
			*acc = append(*acc, append([]byte{}, cur...))
			if len(cur) < max {
				for _, c := range alpha {
					rec(append(cur, c), alpha, max, acc)
				}
			}
		}
		rec(nil, []byte{'a', 'b', 'A'}, 6, &hays)
		rec(nil, []byte{'a', 'b'}, 3, &needles)
		for _, h := range hays {
			for _, nd := range needles {
				out = append(out, fmt.Sprintf("index %s %s", Hex(h), Hex(nd)))
			}
		}
		// exhaustive: pools of size 0..4, up to 4 requests of 0..5
		var prec func(size int, cur []string)
		prec = func(size int, cur []string) {
			s := "."
			if len(cur) > 0 {
				s = strings.Join(cur, ",")
			}
			out = append(out, fmt.Sprintf("pool %d %s", size, s))
			if len(cur) < 4 {
				for k := 0; k <= 5; k++ {
					prec(size, append(append([]string{}, cur...), strconv.Itoa(k)))
				}
			}
		}
		for size := 0; size <= 4; size++ {
			prec(size, nil)
		}
	}
	return out
}

func c12StatsExt(f []string, st map[string]int) bool {
	if c12StatsHist(f, st) {
		return true
	}
	switch f[0] {
	case "index":
		st["op.index"]++
		hay, needle := UnHex(f[1]), UnHex(f[2])
		switch {
		case len(needle) == 0:
			st["index.emptyNeedle"]++
		case len(needle) > len(hay):
			st["index.needleLonger"]++
		case len(needle) == len(hay):
			st["index.sameLength"]++
		case len(needle) == 1:
			st["index.oneByte"]++
		case len(needle) > 63:
			st["index.needleOver63"]++
		}
		if len(hay) > 64 {
			st["index.hayOver64"]++
		}
		if bytes.Contains(hay, needle) {
			st["index.found"]++
		} else {
			st["index.notFound"]++
		}
		if !bytes.Contains(hay, needle) && bytes.Contains(bytes.ToLower(hay), bytes.ToLower(needle)) {
			st["index.foundOnlyIgnoreCase"]++
		}
		return true
	case "pool":
		st["op.pool"]++
		if strings.HasPrefix(c12safe(func() string { return c12RunExtS(f) }), "panic") {
			st["pool.panic"]++
		}
		return true
	case "par":
		st["op.par"]++
		return true
	case "must":
		st["op.must"]++
		if c12Must(string(UnHex(f[1]))) == "panic" {
			st["must.panic"]++
		}
		return true
	case "field":
		st["op.field"]++
		res := c12safe(func() string { return c12RunExtS(f) })
		switch {
		case strings.HasPrefix(res, "ok nomatch"):
			st["field.nomatch"]++
		case strings.HasPrefix(res, "ok"):
			st["field.match"]++
			if pat, line := UnHex(f[2]), UnHex(f[3]); utf8.Valid(pat) && utf8.Valid(line) {
				st["field.match.validUtf8"]++
				if len(line) != utf8.RuneCount(line) {
					st["field.match.validUtf8.multibyte"]++
				}
			}
		case strings.HasPrefix(res, "err"):
			st["field.compileError"]++
		}
		return true
	}
	return false
}

func c12RunExtS(f []string) string { s, _ := c12RunExt(f); return s }

func c12safe(fn func() string) (res string) {
	defer func() {
		if e := recover(); e != nil {
			res = "panic"
		}
	}()
	return fn()
}

func c12CorpusExt() []string {
	ix := func(hay, needle string) string { return fmt.Sprintf("index %s %s", HexS(hay), HexS(needle)) }
	fd := func(ic int, pat, line string) string { return fmt.Sprintf("field %d %s %s", ic, HexS(pat), HexS(line)) }
	long := strings.Repeat("aaaaaab", 40)
	return append(c12CorpusHist(), []string{
		ix("", ""), ix("abc", ""), ix("", "a"), ix("abc", "abcd"), ix("abc", "abc"), ix("abc", "abd"),
		ix("aaaaaaab", "aab"), ix("abababac", "abac"), ix("ABABABAC", "abac"), ix("aAbB", "AB"), ix("É=1", "é"), ix("K", "k"),
		ix(long+"aaaaaaa", "aaaaaaa"), ix(long, strings.Repeat("aaaaaab", 10)+"b"), ix(long+"x", long[3:]+"x"),
		ix(strings.Repeat("ab", 200)+"aa", strings.Repeat("ab", 40)+"aa"),
		"pool 4 2,2,2", "pool 4 4,4,0,0,4", "pool 4 5", "pool 0 0,0", "pool 0 1", "pool 3 1,3,1,1,1,1", "pool 2 .",
		fmt.Sprintf("par 1 %s %s 400 4", HexS("K=%{x} %{?s};%{y}"), HexListS([]string{"ak=1 2;3", "", "Ak=x y;z"})),
		"must " + HexS("%{a} %{b}"), "must " + HexS("%{a}%{b}"), "must " + HexS("%{a"), "must " + HexS("%{a} %{a}"), "must -",
		fd(0, "k=%{x} %{?s};%{y}", "ak=1 2;3"), fd(1, "K=%{x} %{?s};%{y}", "ak=1 2;3"), fd(0, "%{src} %{line} %{.}", "1 2 3"),
		fd(0, "%{a} %{?a} %{}", "1 2 3"), fd(0, "%{a}=", "x"), fd(1, "é%{v}É", "aé1É"), fd(0, "%{}", ""),
	}...)
}
