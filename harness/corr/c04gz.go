//go:build c04

package main

// Round 4c: the seam with C06 (file open / gzip) – the real scanners over the real compress/gzip reader.
//
//	gz <imm|buf> <size> <hex file> <caps>   gzip.NewReader(file) (on error: the file itself, as openFileToReader falls
//	                                         back) under a reader that caps / stalls the first Reads (`caps`: `k,k,..`,
//	                                         0 = a (0,nil) read, `.` = none), scanned by the real scanner of that size
//	gz file <batchSize> <hex file> .        the file written to disk and read by the real batchers.OpenFilesToChan with
//	                                         gunzip=true (real openFileToReader, 128 KiB buffer, syncReaderToBatcher)
//
// Answer `ok mode=<gz|plain> errs=<n> t=<lines at hand-out> r=<the held slices re-read at the end>`.  The model answers
// from the DECODER MODEL of C06 (`Gz.gunzip` of the file's bytes): the lines of what it delivers, one error iff it ends
// with a failure – which is what `scanner_over_opened_file` / `scanner_over_gzip_members` prove the scanner hands on for
// every chunking, so the op checks that theorem's reading of the real gzip reader (its chunk sizes, `(n>0, err)` on a
// cut stream, member boundaries) against the code.

import (
	"bytes"
	"compress/gzip"
	"fmt"
	"io"
	"os"
	"path/filepath"
	"strconv"
	"strings"

	"rare/pkg/extractor"
	"rare/pkg/extractor/batchers"
	"rare/pkg/readahead"
)

type c04CapReader struct {
	r    io.Reader
	caps []int
}

func (c *c04CapReader) Read(p []byte) (int, error) {
	if len(c.caps) > 0 {
		k := c.caps[0]
		c.caps = c.caps[1:]
		if k == 0 {
			return 0, nil
		}
		if k < len(p) {
			p = p[:k]
		}
	}
	return c.r.Read(p)
}

// scratch directory of the `gz file` cases: $VERIF_WORK/c04gz (the check's work/tmp), one file per process
func c04GzTempDir() string {
	base := os.Getenv("VERIF_WORK")
	if base == "" {
		base = os.TempDir()
	}
	d := filepath.Join(base, "c04gz")
	if err := os.MkdirAll(d, 0o700); err != nil {
		panic(err)
	}
	return d
}

func c04RunGz(f []string) string {
	size, _ := strconv.Atoi(f[2])
	file := append([]byte{}, UnHex(f[3])...)
	mode := "gz"
	if _, err := gzip.NewReader(bytes.NewReader(file)); err != nil {
		mode = "plain"
	}
	var held, atReturn [][]byte
	errs := 0
	if f[1] == "file" {
		dir := c04GzTempDir()
		name := filepath.Join(dir, fmt.Sprintf("in.%d.gz", os.Getpid()))
		if err := os.WriteFile(name, file, 0o600); err != nil {
			return "bad-write " + err.Error()
		}
		defer os.Remove(name)
		ch := make(chan string, 1)
		ch <- name
		close(ch)
		b := batchers.OpenFilesToChan(ch, true, 1, size, 2)
		var batches []extractor.InputBatch
		for ib := range b.BatchChan() {
			batches = append(batches, ib)
			for _, l := range ib.Batch {
				atReturn = append(atReturn, append([]byte{}, l...))
			}
		}
		for _, ib := range batches {
			for _, l := range ib.Batch {
				held = append(held, l)
			}
		}
		errs = b.ReadErrors()
	} else {
		var src io.Reader
		if zr, err := gzip.NewReader(bytes.NewReader(file)); err != nil {
			src = bytes.NewReader(file) // openFileToReader: Seek(0) and read as a plain file
		} else {
			src = zr
		}
		var caps []int
		if f[4] != "." {
			for _, c := range strings.Split(f[4], ",") {
				k, _ := strconv.Atoi(c)
				caps = append(caps, k)
			}
		}
		rd := &c04CapReader{r: src, caps: caps}
		var sc readahead.Scanner
		if f[1] == "imm" {
			sc = readahead.NewImmediate(rd, size)
		} else {
			sc = readahead.NewBuffered(rd, size)
		}
		sc.OnError(func(error) { errs++ })
		for sc.Scan() {
			b := sc.Bytes()
			held = append(held, b)
			atReturn = append(atReturn, append([]byte{}, b...))
		}
	}
	return fmt.Sprintf("ok mode=%s errs=%d t=%s r=%s", mode, errs, HexList(atReturn), HexList(held))
}

// c04GzFile builds one gzip file: 1–3 members, each written in pieces with Flush() between them (block boundaries at
// arbitrary places, also inside a line and between '\r' and '\n'), any compression level (NoCompression = stored blocks,
// HuffmanOnly, fixed / dynamic Huffman), optional header fields.
func c04GzFile(r *Rand) []byte {
	var out bytes.Buffer
	members := Pick(r, []int{1, 1, 1, 2, 3})
	alpha := []byte{'a', 'b', 'a', ' ', '\n', '\r', '\n', 'z'}
	for m := 0; m < members; m++ {
		level := Pick(r, []int{gzip.NoCompression, gzip.NoCompression, gzip.BestSpeed, gzip.DefaultCompression, gzip.HuffmanOnly, gzip.BestCompression})
		w, _ := gzip.NewWriterLevel(&out, level)
		if r.Chance(1, 4) {
			w.Name = "log.txt"
		}
		if r.Chance(1, 6) {
			w.Comment = "c"
		}
		if r.Chance(1, 6) {
			w.Extra = []byte{1, 2, 3}
		}
		pieces := r.Range(0, 4)
		for p := 0; p < pieces; p++ {
			ln := r.Intn(40)
			if r.Chance(1, 5) {
				ln = r.Range(100, 400)
			}
			d := make([]byte, ln)
			switch r.Intn(4) {
			case 0: // log-like, compressible
				line := []byte("GET /index.html 200\r\n")
				for j := range d {
					d[j] = line[j%len(line)]
				}
			case 1: // one long run (a line longer than small buffers)
				for j := range d {
					d[j] = 'x'
				}
			default:
				for j := range d {
					if r.Chance(1, 14) {
						d[j] = byte(r.Intn(256))
					} else {
						d[j] = Pick(r, alpha)
					}
				}
			}
			w.Write(d)
			if r.Chance(1, 2) {
				w.Flush()
			}
		}
		w.Close()
	}
	return out.Bytes()
}

func c04GenGz(r *Rand, tier string) []string {
	n := 90
	if tier == "thorough" {
		n = 2500
	}
	if tier == "race" {
		return nil
	}
	var out []string
	caps := func() string {
		if r.Chance(1, 3) {
			return "."
		}
		k := r.Range(1, 12)
		var cs []string
		for i := 0; i < k; i++ {
			cs = append(cs, strconv.Itoa(Pick(r, []int{0, 1, 1, 2, 3, 7, 64})))
		}
		return strings.Join(cs, ",")
	}
	emit := func(z []byte) {
		switch r.Intn(6) {
		case 0:
			out = append(out, fmt.Sprintf("gz file %d %s .", Pick(r, []int{1, 2, 3, 1000}), Hex(z)))
		case 1:
			out = append(out, fmt.Sprintf("gz buf %d %s %s", Pick(r, []int{2, 3, 5, 16, 4096}), Hex(z), caps()))
		default:
			out = append(out, fmt.Sprintf("gz imm %d %s %s", Pick(r, []int{1, 2, 3, 4, 7, 16, 64, 4096}), Hex(z), caps()))
		}
	}
	// fixed cases: not gzip at all / empty / a header only / the magic bytes only
	for _, z := range [][]byte{[]byte("plain\r\ntext\nno newline"), {}, {0x1f, 0x8b}, {0x1f, 0x8b, 8, 0, 0, 0, 0, 0, 0, 3}} {
		out = append(out, fmt.Sprintf("gz imm 4 %s .", Hex(z)), fmt.Sprintf("gz file 2 %s .", Hex(z)))
	}
	// real size: more decoded data than the batcher's 128 KiB buffer (the scanner refills / regrows under the real gzip
	// reader, through the real OpenFilesToChan), two members, a '\r\n' line layout that puts line ends on both sides
	// of the 131072-byte boundary; cut in the second member: read error after > 128 KiB of delivered lines
	{
		var big bytes.Buffer
		for m := 0; m < 2; m++ {
			w, _ := gzip.NewWriterLevel(&big, gzip.DefaultCompression)
			for j := 0; j < 3300+r.Intn(40); j++ {
				fmt.Fprintf(w, "GET /index.html %d\r\n", 200+j%7)
				if j%1000 == 999 {
					w.Flush()
				}
			}
			w.Close()
		}
		z := big.Bytes()
		out = append(out, fmt.Sprintf("gz file 1000 %s .", Hex(z)), fmt.Sprintf("gz file 7 %s .", Hex(z[:len(z)-r.Range(1, 40)])))
		if tier == "thorough" {
			out = append(out, fmt.Sprintf("gz imm 4096 %s 1,0,64", Hex(z)), fmt.Sprintf("gz buf 4096 %s .", Hex(z)))
		}
	}
	for i := 0; i < n; i++ {
		z := c04GzFile(r)
		switch r.Intn(8) {
		case 0, 1, 2, 3: // intact
			emit(z)
		case 4, 5: // cut anywhere: inside the header (plain fallback), a block, a line, the trailer
			emit(z[:r.Intn(len(z)+1)])
		case 6: // bytes after the last member
			emit(append(append([]byte{}, z...), Pick(r, [][]byte{{0}, []byte("tail\n"), {0x1f, 0x8b, 8}})...))
		case 7: // one byte of the trailer changed (checksum / size mismatch after all data was delivered)
			c := append([]byte{}, z...)
			c[len(c)-1-r.Intn(8)] ^= byte(1 << uint(r.Intn(8)))
			emit(c)
		}
	}
	return out
}

// c04GzClass describes one `gz` input for the statistics: how compress/gzip itself judges the file.
func c04GzClass(file []byte) []string {
	zr, err := gzip.NewReader(bytes.NewReader(file))
	if err != nil {
		return []string{"notGzip(plainFallback)"}
	}
	var out []string
	d, err := io.ReadAll(zr)
	if err != nil {
		out = append(out, "streamFails")
		if len(d) > 0 {
			out = append(out, "streamFailsAfterData")
		}
		if len(d) > 0 && d[len(d)-1] != '\n' {
			out = append(out, "failsInsideLine")
		}
	} else {
		out = append(out, "streamClean")
	}
	if len(d) > batchers.ReadAheadBufferSize {
		out = append(out, "decodedOver128KiB")
	}
	if bytes.Count(file, []byte{0x1f, 0x8b, 8}) > 1 {
		out = append(out, "multiMember")
	}
	if bytes.Contains(d, []byte("\r\n")) {
		out = append(out, "crlf")
	}
	return out
}
