//go:build c12

package main

import (
	"errors"
	"fmt"
	"sort"
	"strconv"
	"strings"

	"rare/pkg/matchers/dissect"
)

// c12Match compiles the pattern, creates ONE instance, matches every line (the list repeated
// rep times), keeps every returned index slice WITHOUT copying, and renders them only after
// the last call (so a recycled pool slice shows up as a wrong answer, and a= reports whether
// any earlier result changed between its return and the end).
func c12Match(ic bool, pat string, lines [][]byte, rep int) string {
	d, err := dissect.CompileEx(pat, ic)
	if err != nil {
		switch {
		case errors.Is(err, dissect.ErrorUnclosedToken):
			return "err unclosed"
		case errors.Is(err, dissect.ErrorSequentialToken):
			return "err sequential"
		case errors.Is(err, dissect.ErrorKeyConflict):
			return "err conflict"
		}
		return "err other " + err.Error()
	}
	inst := d.CreateInstance()
	var held [][]int
	var atReturn []string
	for k := 0; k < rep; k++ {
		for _, l := range lines {
			r := inst.FindSubmatchIndex(l)
			held = append(held, r)
			atReturn = append(atReturn, c12Ints(r))
		}
	}
	same := 1
	final := make([]string, len(held))
	for i, r := range held {
		final[i] = c12Ints(r)
		if final[i] != atReturn[i] {
			same = 0
		}
	}
	var names []string
	for k, v := range d.SubexpNameTable() {
		names = append(names, fmt.Sprintf("%s:%d", HexS(k), v))
	}
	sort.Strings(names)
	n := "."
	if len(names) > 0 {
		n = strings.Join(names, ",")
	}
	rs := "."
	if len(final) > 0 {
		rs = strings.Join(final, "|")
	}
	return fmt.Sprintf("ok n=%s a=%d r=%s", n, same, rs)
}

func c12Ints(r []int) string {
	if r == nil {
		return "-"
	}
	p := make([]string, len(r))
	for i, v := range r {
		p[i] = strconv.Itoa(v)
	}
	return strings.Join(p, ",")
}

func c12Render(pre []byte, keys, lits [][]byte) string {
	var sb strings.Builder
	sb.Write(pre)
	for i := range keys {
		sb.WriteString("%{")
		sb.Write(keys[i])
		sb.WriteString("}")
		sb.Write(lits[i])
	}
	return sb.String()
}

func c12ErrClass(err error) string {
	switch {
	case err == nil:
		return "none"
	case errors.Is(err, dissect.ErrorUnclosedToken):
		return "unclosed"
	case errors.Is(err, dissect.ErrorSequentialToken):
		return "sequential"
	case errors.Is(err, dissect.ErrorKeyConflict):
		return "conflict"
	}
	return "other " + err.Error()
}

// c12Grammar: does the real CompileEx accept the text (both modes must agree), and with which error.
func c12Grammar(pat string) string {
	_, e0 := dissect.CompileEx(pat, false)
	_, e1 := dissect.CompileEx(pat, true)
	if c12ErrClass(e0) != c12ErrClass(e1) {
		return "impl-modes-disagree " + c12ErrClass(e0) + " " + c12ErrClass(e1)
	}
	acc := 0
	if e0 == nil {
		acc = 1
	}
	return fmt.Sprintf("ok accept=%d err=%s", acc, c12ErrClass(e0))
}

// c12NameTab: the real SubexpNameTable of a compiled pattern.
func c12NameTab(ic bool, pat string) string {
	d, err := dissect.CompileEx(pat, ic)
	if err != nil {
		return "err " + c12ErrClass(err)
	}
	var names []string
	for k, v := range d.SubexpNameTable() {
		names = append(names, fmt.Sprintf("%s:%d", HexS(k), v))
	}
	sort.Strings(names)
	n := "."
	if len(names) > 0 {
		n = strings.Join(names, ",")
	}
	return fmt.Sprintf("ok n=%s count=%d", n, len(names))
}

func c12Run(f []string) string {
	if res, ok := c12RunExt(f); ok {
		return res
	}
	switch f[0] {
	case "grammar":
		return c12Grammar(string(UnHex(f[1])))
	case "nametab":
		return c12NameTab(f[1] == "1", string(UnHex(f[2])))
	case "dissect":
		rep, _ := strconv.Atoi(f[4])
		return c12Match(f[1] == "1", string(UnHex(f[2])), UnHexList(f[3]), rep)
	case "specp":
		keys, lits := UnHexList(f[3]), UnHexList(f[4])
		if len(keys) != len(lits) {
			return "bad-args"
		}
		rep, _ := strconv.Atoi(f[6])
		return c12Match(f[1] == "1", c12Render(UnHex(f[2]), keys, lits), UnHexList(f[5]), rep)
	}
	return "bad-op"
}

// ---------------------------------------------------------------- generator

var c12Atoms = []string{"a", "b", "A", "B", " ", "=", ":", "%", "é", "É", "世", "ab", "aB", "a", "b", "{", "%%", "-"}

func c12Lit(r *Rand, minLen int) string {
	n := minLen + r.Intn(3)
	if r.Chance(1, 6) {
		n += r.Intn(4)
	}
	var sb strings.Builder
	for i := 0; i < n; i++ {
		if r.Chance(1, 25) {
			sb.WriteByte(byte(r.Intn(256)))
		} else {
			sb.WriteString(Pick(r, c12Atoms))
		}
	}
	s := sb.String()
	if r.Chance(9, 10) {
		// the grammar forbids "%{" inside a literal (it would start a token); mostly avoid it
		s = strings.ReplaceAll(s, "%{", "%")
	}
	return s
}

var c12Keys = []string{"a", "b", "c", "A", "k1", "", "?x", "?", "?a", "v", "é", "a b", "%{", "{"}

type c12Pat struct {
	pre        string
	keys, lits []string
}

func (p c12Pat) render() string {
	k, l := make([][]byte, len(p.keys)), make([][]byte, len(p.lits))
	for i := range p.keys {
		k[i], l[i] = []byte(p.keys[i]), []byte(p.lits[i])
	}
	return c12Render([]byte(p.pre), k, l)
}

func c12GenPat(r *Rand) c12Pat {
	var p c12Pat
	if r.Chance(3, 5) {
		p.pre = c12Lit(r, 1)
	}
	nt := r.Intn(5)
	if r.Chance(1, 10) {
		nt = 5 + r.Intn(4)
	}
	used := map[string]bool{}
	for i := 0; i < nt; i++ {
		k := Pick(r, c12Keys)
		if !strings.HasPrefix(k, "?") && k != "" && used[k] && r.Chance(9, 10) {
			k = k + strconv.Itoa(i) // mostly avoid duplicate keys
		}
		used[k] = true
		lit := c12Lit(r, 1)
		if lit == "" {
			lit = " "
		}
		switch {
		case p.pre != "" && r.Chance(1, 6):
			lit = p.pre // delimiter equal to the prefix
		case p.pre != "" && r.Chance(1, 6):
			lit = p.pre[r.Intn(len(p.pre)):] // delimiter overlapping the prefix
			if strings.Contains(lit, "%{") || lit == "" {
				lit = "="
			}
		case i > 0 && r.Chance(1, 6):
			lit = p.lits[i-1] // same delimiter twice
		}
		if i == nt-1 && r.Chance(1, 2) {
			lit = "" // no trailing literal: to end of line
		}
		if i < nt-1 && r.Chance(1, 25) {
			lit = "" // adjacent tokens: error
		}
		p.keys = append(p.keys, k)
		p.lits = append(p.lits, lit)
	}
	return p
}

func c12FlipCase(r *Rand, s string) string {
	b := []byte(s)
	for i, c := range b {
		if r.Chance(1, 3) {
			if c >= 'a' && c <= 'z' {
				b[i] = c - 32
			} else if c >= 'A' && c <= 'Z' {
				b[i] = c + 32
			}
		}
	}
	return string(b)
}

var c12ValAtoms = []string{"x", "y", "1", "a", "b", "A", " ", "=", "é", "É", "世", "%", "", "xy", "ab"}

func c12Value(r *Rand) string {
	n := r.Intn(4)
	var sb strings.Builder
	for i := 0; i < n; i++ {
		sb.WriteString(Pick(r, c12ValAtoms))
	}
	return sb.String()
}

// a line built from the pattern (mostly matching), with optional junk, case flips and mutations
func c12GenLine(r *Rand, p c12Pat, ic bool) []byte {
	if r.Chance(1, 12) {
		n := r.Intn(12)
		b := make([]byte, n)
		for i := range b {
			b[i] = byte(r.Intn(256))
		}
		return b
	}
	var sb strings.Builder
	if r.Chance(1, 3) {
		sb.WriteString(c12Value(r))
	}
	if r.Chance(1, 10) && len(p.pre) > 0 {
		sb.WriteString(p.pre[:r.Intn(len(p.pre))]) // partial prefix before the real one
	}
	sb.WriteString(p.pre)
	for i := range p.keys {
		sb.WriteString(c12Value(r))
		if r.Chance(1, 12) {
			continue // delimiter missing
		}
		sb.WriteString(p.lits[i])
	}
	if r.Chance(1, 3) {
		sb.WriteString(c12Value(r))
	}
	s := sb.String()
	if ic || r.Chance(1, 8) {
		s = c12FlipCase(r, s)
	}
	b := []byte(s)
	if len(b) > 0 && r.Chance(1, 10) {
		k := r.Intn(len(b))
		b = append(b[:k:k], b[k+1:]...) // drop one byte (may cut a UTF-8 sequence)
	}
	if r.Chance(1, 20) && len(b) > 0 {
		b = b[:r.Intn(len(b))]
	}
	return b
}

var c12RawAtoms = []string{"%{", "}", "%", "{", "a", "b", "?", " ", "=", "%{a}", "%{b}", "%{}", "%{?x}", "é", "A"}

func c12GenRawPattern(r *Rand) string {
	n := r.Intn(8)
	var sb strings.Builder
	for i := 0; i < n; i++ {
		sb.WriteString(Pick(r, c12RawAtoms))
	}
	return sb.String()
}

// a pattern whose names are drawn from a tiny set, so that duplicates among captured names, among
// skipped names and between the two kinds are frequent; delimiters sometimes contain a bare '%'
func c12GenDupPat(r *Rand) string {
	var sb strings.Builder
	if r.Bool() {
		sb.WriteString(Pick(r, []string{"k=", "%", "% ", "{", "}", "%%"}))
	}
	nt := 1 + r.Intn(5)
	for i := 0; i < nt; i++ {
		sb.WriteString("%{")
		sb.WriteString(Pick(r, []string{"a", "b", "?a", "?b", "", "?", "a", "c", "??a", "a?"}))
		sb.WriteString("}")
		if i < nt-1 || r.Bool() {
			sb.WriteString(Pick(r, []string{" ", ";", "%", " 100% ", "{", "}", "%}", " ", "="}))
		}
	}
	return sb.String()
}

func c12Gen(r *Rand, tier string) []string {
	n, big := 2500, 3
	if tier == "thorough" {
		n, big = 60000, 40
	}
	var out []string
	for i := 0; i < n; i++ {
		ic := r.Bool()
		icS := "0"
		if ic {
			icS = "1"
		}
		p := c12GenPat(r)
		nl := r.Intn(5)
		var lines [][]byte
		for j := 0; j < nl; j++ {
			lines = append(lines, c12GenLine(r, p, ic))
		}
		rep := 1
		if r.Chance(1, 10) {
			rep = 1 + r.Intn(3)
		}
		switch {
		case r.Chance(1, 8):
			// malformed / arbitrary pattern text
			pat := c12GenRawPattern(r)
			if r.Chance(1, 3) {
				pat = p.render() + Pick(r, []string{"%{", "%{abc", "%", "%{a", "}", "%{}%{x"})
			}
			out = append(out, fmt.Sprintf("dissect %s %s %s %d", icS, HexS(pat), HexList(lines), rep))
		case r.Chance(1, 2):
			out = append(out, fmt.Sprintf("specp %s %s %s %s %s %d", icS, HexS(p.pre), HexListS(p.keys), HexListS(p.lits), HexList(lines), rep))
		default:
			out = append(out, fmt.Sprintf("dissect %s %s %s %d", icS, HexS(p.render()), HexList(lines), rep))
		}
	}
	// the grammar recogniser and the C16 name-table seam: raw texts (dense in %, {, }), rendered
	// patterns with duplicate / skipped / flagged names, and rendered patterns damaged by one edit
	ng := n / 2
	for i := 0; i < ng; i++ {
		var pat string
		switch r.Intn(4) {
		case 0:
			pat = c12GenRawPattern(r)
		case 1:
			pat = c12GenPat(r).render()
		case 2:
			pat = c12GenDupPat(r)
		default:
			b := []byte(c12GenPat(r).render())
			if len(b) > 0 {
				k := r.Intn(len(b))
				switch r.Intn(3) {
				case 0:
					b = append(b[:k:k], b[k+1:]...)
				case 1:
					b[k] = Pick(r, []byte{'%', '{', '}', '?', 'a'})
				default:
					b = append(b[:k:k], append([]byte{Pick(r, []byte{'%', '{', '}'})}, b[k:]...)...)
				}
			}
			pat = string(b)
		}
		if r.Bool() {
			out = append(out, "grammar "+HexS(pat))
		} else {
			out = append(out, fmt.Sprintf("nametab %d %s", r.Intn(2), HexS(pat)))
		}
	}
	// more than 1024 pool slices handed out by one instance (crosses the IntPool refill)
	for i := 0; i < big; i++ {
		ic := r.Bool()
		icS := "0"
		if ic {
			icS = "1"
		}
		p := c12GenPat(r)
		nl := 2 + r.Intn(6)
		var lines [][]byte
		for j := 0; j < nl; j++ {
			lines = append(lines, c12GenLine(r, p, ic))
		}
		rep := 1100/nl + 1 + r.Intn(40)
		if r.Chance(1, 4) {
			rep = 2200/nl + 1
		}
		op := "dissect"
		if r.Bool() {
			out = append(out, fmt.Sprintf("specp %s %s %s %s %s %d", icS, HexS(p.pre), HexListS(p.keys), HexListS(p.lits), HexList(lines), rep))
		} else {
			out = append(out, fmt.Sprintf("%s %s %s %s %d", op, icS, HexS(p.render()), HexList(lines), rep))
		}
	}
	out = append(out, c12GenExt(r, tier)...)
	if tier == "thorough" {
		// exhaustive: every pattern text over {%,{,},a,?} up to length 6, both modes, fixed lines
		lines := HexListS([]string{"a", "aa", "", "%a}", "a?a{a"})
		alpha := []byte{'%', '{', '}', 'a', '?'}
		var rec func(cur []byte)
		rec = func(cur []byte) {
			out = append(out, fmt.Sprintf("dissect 0 %s %s 1", Hex(cur), lines))
			if len(cur) >= 3 {
				out = append(out, fmt.Sprintf("dissect 1 %s %s 1", Hex(cur), lines))
			}
			if len(cur) < 6 {
				for _, c := range alpha {
					rec(append(append([]byte{}, cur...), c))
				}
			}
		}
		rec(nil)
		// exhaustive: the grammar on every text over {%,{,},a,?,b} up to length 7 (335 923 texts, in
		// chunks) is too many lines; up to length 6 (55 987) for grammar, up to 5 for nametab
		alpha6 := []byte{'%', '{', '}', 'a', '?', 'b'}
		var grec func(cur []byte)
		grec = func(cur []byte) {
			out = append(out, "grammar "+Hex(cur))
			if len(cur) <= 5 && len(cur) >= 3 {
				out = append(out, "nametab 0 "+Hex(cur))
			}
			if len(cur) < 6 {
				for _, c := range alpha6 {
					grec(append(append([]byte{}, cur...), c))
				}
			}
		}
		grec(nil)
		// exhaustive: pattern "ab%{x}b%{y}" style against every line over {a,b,A} up to length 7
		pats := []string{"ab%{x}b%{y}", "%{x}ab%{?s}a", "a%{x}aa%{y}a", "%{}B%{x}"}
		var lrec func(cur []byte, acc *[][]byte)
		lrec = func(cur []byte, acc *[][]byte) {
			*acc = append(*acc, append([]byte{}, cur...))
			if len(cur) < 7 {
				for _, c := range []byte{'a', 'b', 'A'} {
					lrec(append(cur, c), acc)
				}
			}
		}
		var all [][]byte
		lrec(nil, &all)
		for _, pt := range pats {
			for k := 0; k < len(all); k += 41 {
				hi := k + 41
				if hi > len(all) {
					hi = len(all)
				}
				for _, icS := range []string{"0", "1"} {
					out = append(out, fmt.Sprintf("dissect %s %s %s 1", icS, HexS(pt), HexList(all[k:hi])))
				}
			}
		}
	}
	return out
}

func c12Stats(cases []string) map[string]int {
	st := map[string]int{}
	for _, c := range cases {
		f := strings.Fields(c)
		if c12StatsExt(f, st) {
			continue
		}
		st["op."+f[0]]++
		if f[0] == "grammar" || f[0] == "nametab" {
			pat := string(UnHex(f[len(f)-1]))
			res := c12Grammar(pat)
			st["grammar."+res[strings.Index(res, "err=")+4:]]++
			if strings.Contains(strings.ReplaceAll(pat, "%{", ""), "%") {
				st["grammar.barePercent"]++
			}
			continue
		}
		st["ic."+f[1]]++
		var pat string
		var lines [][]byte
		var rep int
		if f[0] == "dissect" {
			pat = string(UnHex(f[2]))
			lines = UnHexList(f[3])
			rep, _ = strconv.Atoi(f[4])
		} else {
			pat = c12Render(UnHex(f[2]), UnHexList(f[3]), UnHexList(f[4]))
			lines = UnHexList(f[5])
			rep, _ = strconv.Atoi(f[6])
		}
		res := c12Match(f[1] == "1", pat, lines, rep)
		switch {
		case strings.HasPrefix(res, "err"):
			st["compile."+strings.Fields(res)[1]]++
		default:
			st["compile.ok"]++
			rs := res[strings.Index(res, " r=")+3:]
			m, nm := 0, 0
			if rs != "." {
				for _, x := range strings.Split(rs, "|") {
					if x == "-" {
						nm++
					} else {
						m++
					}
				}
			}
			st["lines.matched"] += m
			st["lines.unmatched"] += nm
			if m > 1024 {
				st["instance.over1024matches"]++
			}
		}
		if !strings.HasPrefix(pat, "%{") && strings.Contains(pat, "%{") {
			st["pat.prefix"]++
		}
		if strings.HasPrefix(pat, "%{") {
			st["pat.emptyPrefix"]++
		}
		if !strings.Contains(pat, "%{") {
			st["pat.noTokens"]++
		}
		if strings.HasSuffix(pat, "}") {
			st["pat.emptySuffix"]++
		}
		if strings.Contains(pat, "%{}") || strings.Contains(pat, "%{?") {
			st["pat.skipToken"]++
		}
		if strings.Contains(strings.ReplaceAll(pat, "%{", ""), "%") {
			st["pat.percentInLiteral"]++
		}
		for i := 0; i < len(pat); i++ {
			if pat[i] >= 0x80 {
				st["pat.nonAscii"]++
				break
			}
		}
	}
	return st
}

// c12Corpus: the witnesses of the repaired defects F16/F17 (also in corpus/C12/fixed.case) and a
// few hand-picked boundary inputs; always run first.
func c12Corpus() []string {
	d := func(ic int, pat string, lines ...string) string {
		return fmt.Sprintf("dissect %d %s %s 1", ic, HexS(pat), HexListS(lines))
	}
	g := func(pat string) string { return "grammar " + HexS(pat) }
	nt := func(ic int, pat string) string { return fmt.Sprintf("nametab %d %s", ic, HexS(pat)) }
	return []string{
		// F16: ignore-case with a non-ASCII literal
		d(0, "héllo=%{v}", "héllo=1", "HÉLLO=2", "hÉllo=3"),
		d(1, "héllo=%{v}", "héllo=1", "HÉLLO=2", "hÉllo=3", "HéLLO=4"),
		d(1, "É=%{v}é", "É=1é", "é=1é", "É=1É"),
		// F17: '%' inside a literal
		d(0, "%{a} 100% done %{b}", "x 100% done y", "x 100y"),
		d(0, "%{a} 100%", "x 100% done y", "x 100y"),
		d(0, "%%{a}%%%{b}%", "%1%%2%", "1%2"),
		fmt.Sprintf("specp 0 - %s %s %s 1", HexListS([]string{"a", "b"}), HexListS([]string{" 100% done ", ""}), HexListS([]string{"x 100% done y", "x 100y"})),
		// boundaries: empty pattern, no tokens, only a token, delimiter equal to the prefix
		d(0, "", "", "abc"),
		d(1, "TeSt1", "test1", "ATest123", "asdf"),
		d(0, "%{}", "", "abc"),
		d(0, "ab%{x}ab%{y}ab", "ababab", "abab", "abxabyab", "aabbab"),
		d(0, "%{a}%{b}", "x"), d(0, "%{a", "x"), d(0, "%{a} %{a}", "x"), d(0, "%{a} %{?a} %{}", "1 2 3"),
		// grammar: bare '%' in every position (F17), '%' directly before a token, unclosed, adjacency
		// after an empty delimiter only, duplicates between skipped and captured names
		g("%{a} 100% done %{b}"), g("%{a}%"), g("%%{a}%"), g("%{a}%%{b}"), g("%{a}% %{b}"), g("%"), g("%{"), g("%{}"),
		g("%{a}{%{b}"), g("%{a}}%{b}"), g("%{?a} %{a} %{?a}"), g("%{a} %{?a} %{a}"), g("%{} %{} %{}"), g("%{a}%{"),
		g("%{a} %{b"), g("}%{a}"), g("%{?}%{x}"), g("%{a}x%{a"), g("%{a} %{a} %{b"),
		nt(0, "k=%{x} %{?s};%{y}"), nt(1, "%{B} %{a} %{?B} %{}"), nt(0, "%{a} %{a}"), nt(0, "%{a} 5% %{é}"),
	}
}

func init() {
	Register("C12", &Prop{Gen: c12Gen, Run: c12Run, Stats: c12Stats, Corpus: append(c12Corpus(), c12CorpusExt()...)})
}
