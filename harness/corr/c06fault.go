//go:build c06

package main

// C06, read faults and the order "count the error, THEN signal the end of the inputs".
//
//	rdfault <data> <script> <batch>
//	    batchers.OpenReaderToChan over a scripted reader (per Read call: a byte count and n|e|f = no error / io.EOF /
//	    a failure – possibly TOGETHER with data, the case gzip produces for a stream cut inside a line): ReadErrors()
//	    and every line handed on, in order.
//	errsched <gunzip> <names> <files> <readers> <batch>
//	    batchers.OpenFilesToChan under a forced schedule: the logger writes to a pipe that is full, so a reader
//	    goroutine that logs a failure is held up exactly there.  The answer is ReadErrors() at the moment the batch
//	    channel is closed (when DetermineErrorState looks).  Code that counts the failure after wg.Done() closes the
//	    channel while the goroutine is still stuck in its log line and answers 0.
//	errtrace <blob>
//	    the event log (verif hooks) of a real OpenFilesToChan run over generated files (missing, directory given as
//	    a file, truncated/corrupt gzip …).  The Lean side checks the happens-before rule on the log (no src.err of a
//	    goroutine after its sema.rel; every sema.rel before c.wait; c.wait before c.close) and answers with the
//	    model's error count; the implementation's answer is ReadErrors() after the channel closed.
//	    blob = gz/names/files/trace  (`_` for `;`, `~` for `,`: one opaque field for the shrinker)

import (
	"fmt"
	"io"
	"os"
	"strconv"
	"strings"
	"sync"
	"time"

	"rare/pkg/extractor"
	"rare/pkg/extractor/batchers"
	"rare/pkg/logger"
)

var c06TraceKinds = map[string]string{
	"sema.acq": "aq", "rd.start": "rs", "src.open": "so", "src.err": "se", "sema.rel": "rl",
	"src.close": "sc", "rd.end": "re", "c.wait": "cw", "c.close": "cc",
}

var c06TraceMu sync.Mutex

// c06FilesTree: the tree spec (existing entries) of a <files> table.
func c06FilesTree(files string) string {
	var spec []string
	if files != "." {
		for _, e := range strings.Split(files, ",") {
			p := strings.Split(e, ":")
			if p[1] != "1" {
				continue
			}
			if p[2] == "1" {
				spec = append(spec, p[0]+":d")
			} else {
				spec = append(spec, p[0]+":f:"+p[3])
			}
		}
	}
	if len(spec) == 0 {
		return "."
	}
	return strings.Join(spec, ",")
}

func c06EncodeTrace(evs []extractor.VerifEvent, names []string) string {
	idx := map[string]int{}
	for i, n := range names {
		if _, ok := idx[n]; !ok {
			idx[n] = i
		}
	}
	gs := map[uint64]int{}
	var parts []string
	for _, e := range evs {
		k, ok := c06TraceKinds[e.Ev]
		if !ok {
			continue // flushes, sends: not part of this rule
		}
		g, ok := gs[e.G]
		if !ok {
			g = len(gs)
			gs[e.G] = g
		}
		src := "x"
		if e.S != "" {
			if i, ok := idx[e.S]; ok {
				src = strconv.Itoa(i)
			}
		}
		parts = append(parts, fmt.Sprintf("%d.%s.%s", g, k, src))
	}
	if len(parts) == 0 {
		return "."
	}
	return strings.Join(parts, "_")
}

// c06WaitReaders waits until every reader goroutine has logged rd.end (they do so after wg.Done()).
func c06WaitReaders(n int) {
	deadline := time.Now().Add(2 * time.Second)
	for time.Now().Before(deadline) {
		k := 0
		for _, e := range extractor.VerifTracePeek() {
			if e.Ev == "rd.end" {
				k++
			}
		}
		if k >= n {
			return
		}
		time.Sleep(100 * time.Microsecond)
	}
}

// c06TracedOpen runs OpenFilesToChan with the event log on; errs = ReadErrors() right after the channel closed.
func c06TracedOpen(gunzip bool, names []string, files string, readers, batch int) (errs int, trace string) {
	c06TraceMu.Lock()
	defer c06TraceMu.Unlock()
	c06InTree(c06FilesTree(files), func() {
		ch := make(chan string, len(names)+1)
		for _, n := range names {
			ch <- n
		}
		close(ch)
		extractor.VerifTraceStart()
		b := batchers.OpenFilesToChan(ch, gunzip, readers, batch, 2)
		for range b.BatchChan() {
		}
		errs = b.ReadErrors()
		c06WaitReaders(len(names))
		trace = c06EncodeTrace(extractor.VerifTraceStop(), names)
	})
	return
}

var c06TraceAnswers = map[string]string{}

func c06Blob(gz, names, files, trace string) string {
	return gz + "/" + strings.ReplaceAll(names, ";", "_") + "/" + strings.ReplaceAll(files, ",", "~") + "/" + trace
}

func c06ErrTraceCase(open string) string {
	f := strings.Fields(open) // open <gz> <names> <files> <readers> <batch>
	readers, _ := strconv.Atoi(f[4])
	batch, _ := strconv.Atoi(f[5])
	errs, trace := c06TracedOpen(f[1] == "1", UnHexListS(f[2]), f[3], readers, batch)
	cs := "errtrace " + c06Blob(f[1], f[2], f[3], trace)
	c06TraceAnswers[cs] = fmt.Sprintf("ok errs=%d", errs)
	return cs
}

// c06ForcedSchedule: OpenFilesToChan with the logger pointed at a full pipe.
func c06ForcedSchedule(gunzip bool, names []string, files string, readers, batch int) (errs int) {
	c06TraceMu.Lock()
	defer c06TraceMu.Unlock()
	oldStderr := os.Stderr
	devnull, err := os.OpenFile(os.DevNull, os.O_WRONLY, 0)
	if err != nil {
		panic(err)
	}
	defer devnull.Close()
	pr, pw, err := os.Pipe()
	if err != nil {
		panic(err)
	}
	// the harness keeps the real code's log lines in the logger's buffer: flush them away first, then put the
	// logger on the pipe
	os.Stderr = devnull
	logger.ImmediateLogs()
	os.Stderr = pw
	logger.DeferLogs()
	logger.ImmediateLogs()
	chunk := make([]byte, 4096)
	for {
		pw.SetWriteDeadline(time.Now().Add(5 * time.Millisecond))
		if _, err := pw.Write(chunk); err != nil {
			break // full: the next write blocks until somebody reads
		}
	}
	pw.SetWriteDeadline(time.Time{})
	drained := make(chan struct{})
	drainStarted := false
	drain := func() {
		if !drainStarted {
			drainStarted = true
			go func() {
				io.Copy(io.Discard, pr)
				close(drained)
			}()
		}
	}
	c06InTree(c06FilesTree(files), func() {
		ch := make(chan string, len(names)+1)
		for _, n := range names {
			ch <- n
		}
		close(ch)
		extractor.VerifTraceStart()
		b := batchers.OpenFilesToChan(ch, gunzip, readers, batch, 4)
		closed := make(chan struct{})
		go func() {
			for range b.BatchChan() {
			}
			close(closed)
		}()
		select {
		case <-closed: // the inputs ended while a failing reader may still be held up in its log line
		case <-time.After(120 * time.Millisecond):
			drain() // the end of the inputs waits for the held-up reader (as it should): let it go on
			select {
			case <-closed:
			case <-time.After(4 * time.Second):
			}
		}
		errs = b.ReadErrors() // the moment DetermineErrorState looks at the batcher
		drain()
		c06WaitReaders(len(names))
		extractor.VerifTraceStop()
	})
	drain()
	os.Stderr = oldStderr
	logger.DeferLogs()
	pw.Close()
	<-drained
	pr.Close()
	return errs
}

func c06RunFault(f []string) (string, bool) {
	switch f[0] {
	case "rdfault":
		data := UnHex(f[1])
		batch, _ := strconv.Atoi(f[3])
		rd := &scriptedReader{rest: append([]byte{}, data...), script: parseScript(f[2])}
		b := batchers.OpenReaderToChan("s0", rd, batch, 2)
		var lines [][]byte
		for ib := range b.BatchChan() {
			for _, l := range ib.Batch {
				lines = append(lines, append([]byte{}, l...))
			}
		}
		return fmt.Sprintf("ok errs=%d lines=%s", b.ReadErrors(), HexList(lines)), true
	case "errsched":
		readers, _ := strconv.Atoi(f[4])
		batch, _ := strconv.Atoi(f[5])
		return fmt.Sprintf("ok errs=%d", c06ForcedSchedule(f[1] == "1", UnHexListS(f[2]), f[3], readers, batch)), true
	case "errtrace":
		if a, ok := c06TraceAnswers[strings.Join(f, " ")]; ok {
			return a, true
		}
		// replay: the log of that run is in the case line; the implementation's answer is a fresh run
		p := strings.Split(f[1], "/")
		if len(p) != 4 {
			return "bad-args", true
		}
		names := UnHexListS(strings.ReplaceAll(p[1], "_", ";"))
		errs, _ := c06TracedOpen(p[0] == "1", names, strings.ReplaceAll(p[2], "~", ","), 2, 2)
		return fmt.Sprintf("ok errs=%d", errs), true
	}
	return "", false
}

// ---------------------------------------------------------------- generators

// a script in which some Read fails, with or without data, before or after the data is exhausted
func c06GenRdfault(r *Rand) string {
	text := c06Text(r)
	if len(text) > 4000 {
		text = text[:4000]
	}
	if r.Chance(1, 5) {
		text = []byte(Pick(r, []string{"k", "no newline at all", "a\nb", "a\n", "\n", "", "x\r", "a\n\nb\n"}))
	}
	var steps []string
	left := len(text)
	n := Pick(r, []int{0, 1, 2, 3, 6})
	for i := 0; i < n; i++ {
		w := Pick(r, []int{0, 1, 2, 3, 5, 8, 64, 5000})
		if r.Chance(1, 4) && left > 0 {
			w = left // exactly the rest: the error comes with the last bytes
		}
		e := "n"
		if i == n-1 || r.Chance(1, 8) {
			e = Pick(r, []string{"f", "f", "f", "e", "n"})
		}
		steps = append(steps, fmt.Sprintf("%d:%s", w, e))
		if w > left {
			w = left
		}
		left -= w
	}
	script := "."
	if len(steps) > 0 {
		script = strings.Join(steps, ",")
	}
	return fmt.Sprintf("rdfault %s %s %d", Hex(text), script, Pick(r, []int{1, 2, 3, 1000}))
}

// c06GenFailing: an `open` case line in which at least one input fails
func c06GenFailing(r *Rand) string {
	for {
		c := c06GenOpen(r)
		f := strings.Fields(c)
		names := UnHexListS(f[2])
		present := map[string]bool{}
		failing := false
		if f[3] != "." {
			for _, e := range strings.Split(f[3], ",") {
				p := strings.Split(e, ":")
				present[string(UnHex(p[0]))] = true
				if p[2] == "1" || (f[1] == "1" && p[4] == "1" && p[7] == "1") {
					failing = true
				}
			}
		}
		for _, n := range names {
			if !present[n] {
				failing = true
			}
		}
		if failing {
			return c
		}
	}
}

// the schedules of the forced-schedule op: a good file and an input that cannot be opened / is a directory, the
// failing one last or in the middle
func c06GenSched(r *Rand, i int) string {
	good := fmt.Sprintf("%s:1:0:%s:0:0:-:0", HexS("good"), HexS("a\nb\nc\n"))
	dir := fmt.Sprintf("%s:1:1:-:0:0:-:0", HexS("adir"))
	var names []string
	switch i % 4 {
	case 0:
		names = []string{"good", "missing"}
	case 1:
		names = []string{"missing"}
	case 2:
		names = []string{"good", "adir", "missing"}
	default:
		names = []string{"missing", "good", "missing2"}
	}
	readers := 1
	if i%4 == 3 {
		readers = Pick(r, []int{1, 2})
	}
	return fmt.Sprintf("errsched 0 %s %s %d %d", HexListS(names), good+","+dir, readers, Pick(r, []int{1, 10}))
}

func c06FaultGenCases(r *Rand, tier string) []string {
	nRd, nTr, nSched := 400, 60, 3
	if tier == "thorough" {
		nRd, nTr, nSched = 8000, 700, 24
	}
	var out []string
	for i := 0; i < nRd; i++ {
		out = append(out, c06GenRdfault(r))
	}
	for i := 0; i < nTr; i++ {
		out = append(out, c06ErrTraceCase(c06GenFailing(r)))
	}
	for i := 0; i < nSched; i++ {
		out = append(out, c06GenSched(r, i+r.Intn(4)))
	}
	return out
}

func c06FaultStats(st map[string]int, f []string) {
	switch f[0] {
	case "rdfault":
		sc := f[2]
		if strings.Contains(sc, ":f") {
			st["rdfault:failing-read"]++
			for _, s := range strings.Split(sc, ",") {
				if strings.HasSuffix(s, ":f") && !strings.HasPrefix(s, "0:") {
					st["rdfault:failure-with-data"]++
					break
				}
			}
		}
	case "errtrace":
		p := strings.Split(f[1], "/")
		if len(p) == 4 {
			st["errtrace:events"] += strings.Count(p[3], "_") + 1
			st["errtrace:errors-logged"] += strings.Count(p[3], ".se.")
		}
	}
}
