//go:build c03

package main

// Correspondence for C03, the five counting commands end to end IN PROCESS (runner: c03reduce.go c03RunCLI):
//
//	cmd <name> <W,R,B,K> <flags> <n> <atleast> <ncols> <sort> <delim> <nomatch> <files>
//
// name: histo | table | heatmap | spark | bars.  The REAL command function (cmd/histo.go, tabulate.go, heatmap.go,
// spark.go, bargraph.go through urfave/cli) runs on generated log files with `--workers W --readers R --batch B
// --batch-buffer K` – real batcher, real extractor, real aggregator, real render callback (spark: with its trim
// block), real TryWriteCSV, real DetermineErrorState.  These aggregators are order-insensitive, so the tuning and
// the number of files are FREE: the model answers the sequential reference of the concatenated samples and every
// schedule of the real process has to land on it.
//
// flags: bit 0 = --all (histo), bit 1 = --notruncate (spark), bit 2 = `--csv -` (CSV on stdout, NullTerm).
// n = --num, atleast = histo --atleast, ncols = --cols, sort = hex of --sort (histo, bars) / --sort-cols (the
// table commands), delim = hex of --delim, nomatch = lines that do not match, files = `|`-joined hex lists of
// samples (a sample `s` is the line `=s`; extraction `-m '^=(.*)$' -e '{1}'`).
// Answer: `ok <exit> <csv hex> <text hex>`; text = for histo the whole snapshot (and the `--all` table) without the
// batcher's byte/rate line, runs of spaces squashed; for the others the footer line `Matched: …` of the final render.

import (
	"fmt"
	"os"
	"path/filepath"
	"regexp"
	"strconv"
	"strings"
)

// ` [40.0%] ████…` / ` ████…` at the end of a line of the `--all` histogram
var c03HistoDecor = regexp.MustCompile(`( \[[ \-0-9.]*%\])?( [\x{2580}-\x{259F}]*)?$`)

var c03CmdNames = map[string]string{"histo": "histo", "table": "table", "heatmap": "heatmap", "spark": "spark", "bars": "bars"}

func c03CmdRun(f []string) string {
	name, ok := c03CmdNames[f[1]]
	if !ok {
		return "bad-op"
	}
	tune := strings.Split(f[2], ",")
	if len(tune) != 4 {
		return "bad-args"
	}
	flags, _ := strconv.Atoi(f[3])
	n, _ := strconv.Atoi(f[4])
	sortName := string(UnHex(f[7]))
	delim := string(UnHex(f[8]))
	nomatch, _ := strconv.Atoi(f[9])
	files := c03DecRows(f[10])
	dir := c03TempDir()
	old, _ := filepath.Glob(filepath.Join(dir, "cmd-*.log"))
	for _, o := range old {
		os.Remove(o)
	}
	var paths []string
	for i, samples := range files {
		var sb strings.Builder
		if i == 0 {
			for j := 0; j < nomatch; j++ {
				sb.WriteString("nothing\n")
			}
		}
		for _, s := range samples {
			sb.WriteString("=" + s + "\n")
		}
		p := filepath.Join(dir, fmt.Sprintf("cmd-%d.log", i))
		if err := os.WriteFile(p, []byte(sb.String()), 0o644); err != nil {
			return "err " + err.Error()
		}
		paths = append(paths, p)
	}
	out := filepath.Join(dir, "cmd-out.csv")
	os.Remove(out)
	csvStdout := flags&4 != 0
	args := []string{name, "-m", "^=(.*)$", "-e", "{1}", "--snapshot", "--workers", tune[0], "--readers", tune[1],
		"--batch", tune[2], "--batch-buffer", tune[3]}
	if name != "bars" {
		args = append(args, "-n", strconv.Itoa(n))
	}
	if csvStdout {
		args = append(args, "--csv", "-")
	} else {
		args = append(args, "--csv", out)
	}
	switch name {
	case "histo":
		args = append(args, "--atleast", f[5], "--sort", sortName)
		if flags&1 != 0 {
			args = append(args, "--all")
		}
	case "bars":
		args = append(args, "--sort", sortName)
	default:
		args = append(args, "--cols", f[6], "--sort-cols", sortName, "--delim", delim)
		if name == "spark" && flags&2 != 0 {
			args = append(args, "--notruncate")
		}
	}
	args = append(args, paths...)
	code, stdout, fatal := c03RunCLI(args)
	if fatal {
		return fmt.Sprintf("fatal %d", code)
	}
	if csvStdout {
		return fmt.Sprintf("ok %d %s -", code, HexS(stdout))
	}
	csvText, _ := os.ReadFile(out)
	lines := strings.Split(strings.TrimSuffix(stdout, "\n"), "\n")
	var keep []string
	if name == "histo" {
		full := false
		for i, l := range lines {
			if i == n+1 { // footer 1: the batcher's byte / rate status
				continue
			}
			if full { // the `--all` table is drawn with percentages and bars (C14's business): keep `key    count`
				l = c03HistoDecor.ReplaceAllString(l, "")
			}
			if i > n+1 && l == "Full Table:" {
				full = true
			}
			keep = append(keep, l)
		}
	} else {
		for _, l := range lines {
			if strings.HasPrefix(l, "Matched: ") {
				keep = append(keep, l)
			}
		}
	}
	return fmt.Sprintf("ok %d %s %s", code, Hex(csvText), HexS(c03Squash(strings.Join(keep, "\n"))))
}

// ---------------------------------------------------------------- generator

// a key that can stand in a line: no LF, no CR at the very end (that one belongs to the line terminator: C04)
func c03LineKey(r *Rand) string {
	k := c03Key(r)
	k = strings.ReplaceAll(k, "\n", "\v")
	if strings.HasSuffix(k, "\r") {
		k += "."
	}
	return k
}

func c03CmdCase(r *Rand) string {
	name := Pick(r, []string{"histo", "histo", "table", "heatmap", "spark", "spark", "bars"})
	delim := "\x00"
	parts := 2
	sortName := "value"
	flags := 0
	n := Pick(r, []int{0, 1, 2, 3, 5, 20})
	atLeast := 0
	ncols := Pick(r, []int{0, 1, 1, 2, 3, 10})
	switch name {
	case "histo":
		parts = 1
		sortName = Pick(r, []string{"value", "value", "value", "text", "value:asc", "TEXT:rev", "value:reverse", "text:desc", "Value:DESC",
			"numeric", "numeric", "NUMERIC:desc", "Numeric:rev", "numeric:asc"})
		if r.Chance(1, 3) {
			atLeast = r.Range(-1, 4)
		}
		if r.Chance(1, 4) {
			flags |= 1
		}
	case "bars":
		sortName = Pick(r, []string{"text", "value", "numeric", "text:rev"})
	default:
		delim = Pick(r, []string{"\x00", "\x00", "\x00", ",", "::", "\t"})
		sortName = Pick(r, []string{"text", "text", "value", "value:asc", "VALUE:rev", "Text", "VALUE", "Value:desc", "vAlUe:ASC", "TEXT:asc"})
		if name == "spark" && r.Chance(1, 3) { // spark's default column order and the reversed ones: the trim keeps the last --cols of THAT order
			sortName = Pick(r, []string{"numeric", "numeric", "NUMERIC:desc", "text:desc", "Text:REV", "numeric:rev", "numeric:asc"})
		}
		if name == "spark" && r.Chance(1, 6) {
			flags |= 2
		}
	}
	if flags&1 == 0 && r.Chance(1, 8) {
		flags |= 4
	}
	// samples
	ns := r.Intn(10)
	if r.Chance(1, 6) {
		ns = r.Range(10, 60)
	}
	keys := make([]string, r.Range(1, 5))
	for i := range keys {
		keys[i] = c03LineKey(r)
	}
	if name == "histo" && strings.HasPrefix(strings.ToLower(sortName), "numeric") && !r.Chance(1, 5) {
		// `--sort numeric` (ByNameSmart): numbers by magnitude ahead of text, equal numbers spelled differently by text
		pool := []string{"10", "9", "1", "1.0", "1e0", "+1", "-3", "-0", "0", "0x10", "16", "1_0", "1e400", "inf", "-Inf", "nan", "NaN",
			"abc", "", " 1", "१", "2.50", "2.5", "007", "7", ".5", "5.", "1e-400", "9223372036854775808", "-9223372036854775809"}
		keys = make([]string, r.Range(1, 8))
		for i := range keys {
			keys[i] = Pick(r, pool)
		}
	}
	subs := make([]string, r.Range(1, 4))
	for i := range subs {
		subs[i] = c03LineKey(r)
	}
	if name == "spark" || name == "table" || name == "heatmap" {
		// keys of a table must not contain the delimiter by accident more often than wanted
		if r.Chance(1, 2) {
			keys = []string{"a", "b", "c", "d", "e"}[:r.Range(1, 5)]
		} else if name == "spark" && strings.HasPrefix(strings.ToLower(sortName), "numeric") {
			keys = []string{"10", "9", "1e2", "-1", "1.0", "1", "x"}[:r.Range(2, 7)]
		}
	}
	samples := make([]string, ns)
	for i := range samples {
		p := []string{Pick(r, keys)}
		if parts > 1 && !r.Chance(1, 8) {
			p = append(p, Pick(r, subs))
		}
		if len(p) == parts && r.Chance(1, 3) {
			if r.Chance(1, 6) {
				p = append(p, c03Inc(r))
			} else {
				p = append(p, strconv.Itoa(r.Range(-2, 9)))
			}
			if r.Chance(1, 12) {
				p = append(p, "junk")
			}
		}
		samples[i] = strings.Join(p, delim)
	}
	// cut into files
	nf := Pick(r, []int{1, 1, 2, 3, 4})
	files := make([][]string, nf)
	for i := range files {
		files[i] = []string{}
	}
	if r.Chance(1, 2) { // contiguous cuts
		for i, s := range samples {
			k := i * nf / (len(samples) + 1)
			files[k] = append(files[k], s)
		}
	} else {
		for _, s := range samples {
			k := r.Intn(nf)
			files[k] = append(files[k], s)
		}
	}
	nomatch := 0
	if r.Chance(1, 3) {
		nomatch = r.Range(1, 3)
	}
	tune := fmt.Sprintf("%d,%d,%d,%d", Pick(r, []int{1, 1, 2, 3, 4}), Pick(r, []int{1, 2, 3}), Pick(r, []int{1, 1, 2, 3, 7, 1000}), Pick(r, []int{0, 1, 2, 1000}))
	return fmt.Sprintf("cmd %s %s %d %d %d %d %s %s %d %s", name, tune, flags, n, atLeast, ncols, HexS(sortName), HexS(delim), nomatch, c03EncFiles(files))
}

func c03EncFiles(files [][]string) string {
	p := make([]string, len(files))
	for i, f := range files {
		p[i] = HexListS(f)
	}
	return strings.Join(p, "|")
}

func c03CmdStats(f []string, st map[string]int) {
	st["op.cmd"]++
	st["cmd."+f[1]]++
	tune := strings.Split(f[2], ",")
	if tune[0] != "1" {
		st["cmd.workers>1"]++
	}
	if tune[1] != "1" {
		st["cmd.readers>1"]++
	}
	files := c03DecRows(f[10])
	if len(files) > 1 {
		st["cmd.files>1"]++
	}
	for _, x := range files {
		st["cmd.samples"] += len(x)
	}
	if f[1] == "histo" && strings.HasPrefix(strings.ToLower(string(UnHex(f[7]))), "numeric") {
		st["cmd.histo.sortNumeric"]++
	}
	if sn := string(UnHex(f[7])); f[1] == "spark" && sn != strings.ToLower(sn) && strings.HasPrefix(strings.ToLower(sn), "value") {
		st["cmd.spark.valueUpperCase"]++
	}
	if sn := strings.ToLower(string(UnHex(f[7]))); f[1] == "spark" && (strings.HasPrefix(sn, "numeric") || strings.HasPrefix(sn, "text:desc") || strings.HasPrefix(sn, "text:rev")) {
		st["cmd.spark.numericOrReversedCols"]++
	}
	flags, _ := strconv.Atoi(f[3])
	if flags&1 != 0 {
		st["cmd.histo.all"]++
	}
	if flags&2 != 0 {
		st["cmd.spark.notruncate"]++
	}
	if flags&4 != 0 {
		st["cmd.csvStdout"]++
	}
}

var c03CmdCorpus = []string{
	// histo: ties in the count come out by DESCENDING name on the screen (Reverse(ValueSorterEx(ByName))) and ascending in the CSV
	"cmd histo 2,2,1,0 1 2 0 0 76616c7565 00 1 61;62|62;61;63",
	// --atleast filters AFTER the top-n cut
	"cmd histo 1,1,1,0 0 2 2 0 76616c7565 00 0 61;61;61;62;63;63",
	// spark, name-ordered columns, --cols 1, four workers over three files
	"cmd spark 4,3,1,0 0 20 0 1 74657874 00 0 61007a;62007a|63007a;61007a|62007900",
	// spark, value-ordered columns: never trimmed (b216f7d)
	"cmd spark 2,1,2,1 0 20 0 1 76616c7565 00 0 61007a;61007a;61007a;62007a|62007a;62007a;62007a;62007a;63007a",
	// a parse error in the increment: exit status 2, (Errors: 1)
	"cmd table 1,1,1,0 0 20 0 10 74657874 2c 0 612c622c78;612c62",
	"cmd bars 3,2,2,0 0 5 0 0 74657874 00 2 6100780035;620079|61007900;63",
	// nothing matches: exit status 1, header-only CSV
	"cmd heatmap 1,1,1,0 0 20 0 10 74657874 00 3 .",
	"cmd histo 1,1,1,0 4 5 0 0 76616c7565 00 0 2c;22;0d2e",
	// spark --sort-cols VALUE / Value:desc --cols 2 (seeded/C03-sortsbyvalue-case): an upper-case spelling of the value order is
	// value-ordered for the trim guard too – nothing is trimmed, `,a,b,c / r,11,5,7`
	"cmd spark 1,1,1,0 0 20 0 2 56414c5545 00 0 610072003131;6200720035;630072;6300720036",
	"cmd spark 2,2,1,1 0 20 0 2 56616c75653a64657363 00 0 610072003131;6200720035|630072;6300720036",
	"cmd spark 1,1,1,0 0 20 0 1 54455854 00 0 610072;620072",
	// spark --sort-cols numeric (the default) --cols 1 keeps column 10 (9 < 10); text keeps 9; numeric:desc keeps 9; text:desc keeps 10
	"cmd spark 2,1,1,0 0 20 0 1 6e756d65726963 00 0 31300072;3900720035|31300072",
	"cmd spark 1,1,1,0 0 20 0 1 74657874 00 0 31300072;3900720035|31300072",
	"cmd spark 1,2,1,1 0 20 0 1 6e756d657269633a64657363 00 0 31300072;3900720035|31300072",
	"cmd spark 3,1,2,0 0 20 0 1 746578743a64657363 00 0 31300072;3900720035|31300072",
	// histo --sort numeric: 9 < 10 < 1e400 (+Inf) ahead of text; 1 / 1.0 / 1e0 tie in value and come out by text
	"cmd histo 2,1,1,0 0 20 0 0 6e756d65726963 00 0 3130;39;616263;312e30;31;316530;6e616e;3165343030;2d33",
	"cmd histo 1,1,1,0 1 3 0 0 4e554d455249433a64657363 00 0 3130;39;616263;312e30;31",
}
