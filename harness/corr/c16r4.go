//go:build c16

package main

import (
	"encoding/json"
	"fmt"
	"regexp"
	"sort"
	"strconv"
	"strings"
	"unicode/utf8"

	"rare/cmd"
	"rare/pkg/minijson"
)

// Round 4: direct ops for the helpers behind the JSON views.
//
//	num <hex>                  minijson.isNumeric directly (n=) and "is a complete RFC 8259 number" (j=):
//	                           Go side: an independent regular expression of the RFC grammar AND encoding/json
//	                           (json.Valid on exactly these bytes, first byte a digit or '-'); they must agree
//	esc <hex>                  minijson.escape directly; r=1: the escaped text between quotes is a JSON string that
//	                           encoding/json decodes to the input (valid UTF-8 input) / to its U+FFFD substitution
//	wint <hex key> <int>       WriteInt + KeyCount
//	msm <keys> <values>        MarshalStringMapInferred: valid, members (sorted by name) – 16 evaluations
//	kv <hex>                   cmd.parseKeyValue
//	kvmap <hexlist>            cmd.parseKeyValuesIntoMap, entries sorted by name
//	xkey <hex key> <data> <kvs>  the value `rare expression -d … -k …` gives to {.} {#} {.#} {#.}
var c16reJSONNumber = regexp.MustCompile(`^-?(0|[1-9][0-9]*)(\.[0-9]+)?([eE][+-]?[0-9]+)?$`)

func c16RunR4(f []string) (res string) {
	defer func() {
		if e := recover(); e != nil {
			res = "panic"
		}
	}()
	switch f[0] {
	case "num":
		if len(f) != 2 {
			return "bad-args"
		}
		s := string(UnHex(f[1]))
		n := 0
		if minijson.VerifIsNumeric(s) {
			n = 1
		}
		j := 0
		if c16reJSONNumber.MatchString(s) && !strings.ContainsAny(s, "\n") {
			j = 1
		}
		j2 := 0
		if len(s) > 0 && (s[0] == '-' || (s[0] >= '0' && s[0] <= '9')) && s[len(s)-1] > ' ' && json.Valid([]byte(s)) {
			j2 = 1
		}
		if j != j2 {
			return "oracle-disagree"
		}
		return fmt.Sprintf("ok n=%d j=%d", n, j)
	case "esc":
		if len(f) != 2 {
			return "bad-args"
		}
		s := string(UnHex(f[1]))
		e := minijson.VerifEscape(s)
		var back string
		r := 0
		if err := json.Unmarshal([]byte("\""+e+"\""), &back); err == nil && back == string([]rune(s)) {
			r = 1
		}
		return fmt.Sprintf("ok %s r=%d", HexS(e), r)
	case "wint":
		if len(f) != 3 {
			return "bad-args"
		}
		n, err := strconv.Atoi(f[2])
		if err != nil {
			return "bad-args"
		}
		var jb minijson.JsonObjectBuilder
		jb.Open()
		jb.WriteInt(string(UnHex(f[1])), n)
		jb.Close()
		return fmt.Sprintf("%s c=%d", c16Describe(jb.String()), jb.KeyCount())
	case "msm":
		if len(f) != 3 {
			return "bad-args"
		}
		keys, vals := UnHexListS(f[1]), UnHexListS(f[2])
		if len(keys) != len(vals) {
			return "bad-args"
		}
		m := map[string]string{}
		for i := range keys {
			m[keys[i]] = vals[i]
		}
		first := ""
		for rep := 0; rep < 16; rep++ {
			d := c16Describe(minijson.MarshalStringMapInferred(m))
			if !strings.Contains(d, " v=1 ") {
				return "ok v=0 m=x"
			}
			mem := UnHexListS(d[strings.Index(d, " m=")+3:])
			type kvp struct{ k, v string }
			var ps []kvp
			for i := 0; i+1 < len(mem); i += 2 {
				ps = append(ps, kvp{mem[i], mem[i+1]})
			}
			sort.SliceStable(ps, func(a, b int) bool { return ps[a].k < ps[b].k })
			var flat []string
			for _, p := range ps {
				flat = append(flat, p.k, p.v)
			}
			c := HexListS(flat)
			if rep == 0 {
				first = c
			} else if c != first {
				return "ok v=1 m=differs"
			}
		}
		return "ok v=1 m=" + first
	case "kv":
		if len(f) != 2 {
			return "bad-args"
		}
		k, v := cmd.VerifParseKeyValue(string(UnHex(f[1])))
		return fmt.Sprintf("ok %s %s", HexS(k), HexS(v))
	case "kvmap":
		if len(f) != 2 {
			return "bad-args"
		}
		m := cmd.VerifParseKeyValuesIntoMap(UnHexListS(f[1])...)
		if len(m) == 0 {
			return "ok ."
		}
		var names []string
		for k := range m {
			names = append(names, k)
		}
		sort.Strings(names)
		parts := make([]string, len(names))
		for i, k := range names {
			parts[i] = HexS(k) + "=" + HexS(m[k])
		}
		return "ok " + strings.Join(parts, ";")
	case "xkey":
		if len(f) != 4 {
			return "bad-args"
		}
		key := string(UnHex(f[1]))
		data, kvs := UnHexListS(f[2]), UnHexListS(f[3])
		// the "Emulate special keys" block of cmd/expressions.go (checked end to end by extra/C16.py)
		return c16Repeat(func() string {
			keys := cmd.VerifParseKeyValuesIntoMap(kvs...)
			switch key {
			case ".":
				return cmd.VerifBuildSpecialKeyJson(nil, keys)
			case "#":
				return cmd.VerifBuildSpecialKeyJson(data, nil)
			case ".#", "#.":
				return cmd.VerifBuildSpecialKeyJson(data, keys)
			}
			panic("notjson")
		})
	}
	return "bad-op"
}

// ---- generators

var c16NumAlphabet = []byte("0123456789.-+eE x")

var c16NumWords = []string{
	"0", "-0", "0.0", "0.", ".0", "00", "007", "-007", "00.5", "0.50", "1", "-1", "+1", "1.", ".5", "1.5", "-1.5", "1e5",
	"1E5", "1e+5", "1E-5", "1e", "1e+", "1.e5", "1.5e5", "0e0", "0.0e-0", "Infinity", "-Infinity", "NaN", "nan", "inf",
	"0x10", "0b1", "0o7", "1_000", "1,000", "1 ", " 1", "1\n", "\n1", "1\t", "1.2.3", "1..2", "-", ".", "", "--1", "-.5",
	"١", "１", "1\x00", "\x001", "9223372036854775807", "9223372036854775808", "18446744073709551616",
	"null", "true", "false", "NULL", "Null", "True", "tRuE", "FALSE", "falſe", "ＴＲＵＥ", "tru", "truee", "true ", " false",
}

func c16NumText(r *Rand) string {
	switch r.Intn(6) {
	case 0:
		return Pick(r, c16NumWords)
	case 1:
		return c16Long(r)
	case 2:
		return c16RandDigits(r)
	case 3:
		// a numeral of boundary size: exactly at and around int64 / float64 precision limits
		return Pick(r, []string{"9007199254740992", "9007199254740993", "0.1", "0.30000000000000004",
			"179769313486231570000000000000000000000", "4.9406564584124654", strings.Repeat("9", 19), strings.Repeat("0", 1) + "." + strings.Repeat("0", 30) + "1"})
	default:
		n := r.Intn(7)
		b := make([]byte, n)
		for i := range b {
			b[i] = Pick(r, c16NumAlphabet)
		}
		return string(b)
	}
}

func c16ValidName(r *Rand) string {
	for {
		n := c16Name(r)
		if utf8.ValidString(n) {
			return n
		}
	}
}

func c16KVArg(r *Rand) string {
	switch r.Intn(8) {
	case 0:
		return c16Name(r) // no '=' (unless the name has one)
	case 1:
		return "=" + c16Text(r) // empty name
	case 2:
		return c16Name(r) + "=" // empty value
	case 3:
		return c16Name(r) + "=" + c16Text(r) + "=" + c16Text(r)
	case 4:
		return strconv.Itoa(r.Intn(4)) + "=" + c16Text(r) // collides with a -d numeral
	default:
		return Pick(r, []string{"a", "b", "c", "k", "a", "b"}) + "=" + c16Text(r) // repeated names are likely
	}
}

func c16GenR4(r *Rand, tier string) []string {
	n := 1500
	if tier == "thorough" {
		n = 60000
	}
	var out []string
	for i := 0; i < n; i++ {
		switch i % 10 {
		case 0, 1, 2:
			out = append(out, "num "+HexS(c16NumText(r)))
		case 3:
			out = append(out, "esc "+HexS(c16Text(r)+c16RandBytes(r)))
		case 4:
			v := Pick(r, []int{0, 1, -1, 9, 10, -10, 99, 100, 1 << 31, -(1 << 31), 1<<63 - 1, -1 << 63, r.Intn(1 << 30), -r.Intn(1 << 30)})
			out = append(out, fmt.Sprintf("wint %s %d", HexS(c16Name(r)), v))
		case 5:
			nk := r.Intn(6)
			var ks, vs []string
			for j := 0; j < nk; j++ {
				ks = append(ks, c16ValidName(r))
				vs = append(vs, c16Text(r))
			}
			out = append(out, fmt.Sprintf("msm %s %s", HexListS(ks), HexListS(vs)))
		case 6:
			out = append(out, "kv "+HexS(c16KVArg(r)))
		default:
			nk := r.Intn(6)
			var kvs []string
			for j := 0; j < nk; j++ {
				kvs = append(kvs, c16KVArg(r))
			}
			nd := r.Intn(4)
			var data []string
			for j := 0; j < nd; j++ {
				data = append(data, c16Text(r))
			}
			if i%10 == 7 {
				out = append(out, "kvmap "+HexListS(kvs))
			} else {
				out = append(out, fmt.Sprintf("xkey %s %s %s", HexS(Pick(r, []string{".", "#", ".#", "#."})), HexListS(data), HexListS(kvs)))
			}
		}
	}
	// long sequences and large values (the model mirrors the builder with list appends, i.e. quadratically, so the
	// sizes here are moderate; megabyte values and 10^4 arguments go through the real CLI in extra/C16.py)
	big := 4000
	members := 600
	if tier == "thorough" {
		big = 16000
		members = 1600
	}
	{
		var sb strings.Builder
		for sb.Len() < big {
			sb.WriteString(Pick(r, []string{"abc", "\"", "\\", "\x01", "é", "\xff", "0123456789", "\n"}))
		}
		out = append(out, "esc "+HexS(sb.String()))
		out = append(out, fmt.Sprintf("json 0 1 . 0,%d %s", sb.Len(), HexS(sb.String())))
		out = append(out, "num "+HexS(strings.Repeat("7", big)))
		out = append(out, "num "+HexS("1."+strings.Repeat("0", big)))
		// many groups: a line of `members` one-byte groups
		line := strings.Repeat("ab1\"", members/4)
		idx := make([]string, 0, 2*len(line)+2)
		idx = append(idx, "0", strconv.Itoa(len(line)))
		for k := 0; k < len(line); k++ {
			idx = append(idx, strconv.Itoa(k), strconv.Itoa(k+1))
		}
		out = append(out, fmt.Sprintf("json 0 1 . %s %s", strings.Join(idx, ","), HexS(line)))
		var kvs []string
		for k := 0; k < members/10; k++ {
			kvs = append(kvs, fmt.Sprintf("k%d=%d", k%(members/20+1), k))
		}
		out = append(out, fmt.Sprintf("xkey %s . %s", HexS(".#"), HexListS(kvs)))
	}
	// exhaustive: every single byte through isNumeric / escape / parseKeyValue, every pair over the numeric alphabet
	for b := 0; b < 256; b++ {
		s := string([]byte{byte(b)})
		out = append(out, "num "+HexS(s), "num "+HexS("1"+s), "num "+HexS(s+"1"), "num "+HexS("1"+s+"1"), "esc "+HexS(s), "kv "+HexS("a"+s+"b"))
	}
	if tier == "thorough" {
		alpha := []byte("01.-+eE9")
		var rec func(cur []byte)
		rec = func(cur []byte) {
			if len(cur) > 0 {
				out = append(out, "num "+Hex(cur))
			}
			if len(cur) < 6 {
				for _, c := range alpha {
					rec(append(append([]byte{}, cur...), c))
				}
			}
		}
		rec(nil)
	}
	return out
}

func c16StatsR4(cases []string, st map[string]int) {
	for _, c := range cases {
		f := strings.Fields(c)
		switch f[0] {
		case "num":
			if len(f) != 2 {
				continue
			}
			s := string(UnHex(f[1]))
			switch {
			case c16reNum.MatchString(s) && !c16reLead0.MatchString(s):
				st["num.plainJsonNumber"]++
			case c16reJSONNumber.MatchString(s):
				st["num.jsonNumberWithSignOrExponent"]++
			case c16reNumLike.MatchString(s):
				st["num.numberLikeNotJson"]++
			default:
				st["num.other"]++
			}
			if len(s) > 400 {
				st["num.longerThan400"]++
			}
		case "kv":
			s := string(UnHex(f[1]))
			switch strings.Count(s, "=") {
			case 0:
				st["kv.noEquals"]++
			case 1:
				st["kv.oneEquals"]++
			default:
				st["kv.severalEquals"]++
			}
			if strings.HasPrefix(s, "=") {
				st["kv.emptyName"]++
			}
		case "xkey", "kvmap":
			kvs := UnHexListS(f[len(f)-1])
			seen := map[string]bool{}
			dup := false
			for _, a := range kvs {
				k := a
				if i := strings.IndexByte(a, '='); i >= 0 {
					k = a[:i]
				}
				if seen[k] {
					dup = true
				}
				seen[k] = true
			}
			if dup {
				st[f[0]+".repeatedName"]++
			}
			if len(kvs) > 1000 {
				st[f[0]+".moreThan1000Args"]++
			}
		}
	}
}
