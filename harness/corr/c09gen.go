//go:build c09 || c08 || c10

package main

import (
	"fmt"
	"strings"
	"unicode"
	"unicode/utf8"
)

// ---------------------------------------------------------------- white space

// c09SpaceRunes: the 25 White_Space runes, in the order of Rare.C09.spaceRunes (tree tokens name them a…y).
var c09SpaceRunes = []rune{' ', '\t', '\n', '\v', '\f', '\r', 0x85, 0xA0, 0x1680,
	0x2000, 0x2001, 0x2002, 0x2003, 0x2004, 0x2005, 0x2006, 0x2007, 0x2008, 0x2009, 0x200A,
	0x2028, 0x2029, 0x202F, 0x205F, 0x3000}

// look-alikes that are NOT separators for unicode.IsSpace (zero width space, BOM, Mongolian vowel separator,
// word joiner, the ASCII information separators, NUL, DEL, soft hyphen, Braille blank, Hangul filler)
var c09NotSpaces = []rune{0x200B, 0xFEFF, 0x180E, 0x2060, 0x1C, 0x1D, 0x1E, 0x1F, 0x0, 0x7F, 0xAD, 0x2800, 0x3164, 0x200C, 0x200D, 0x8, 0x84, 0x86}

func c09WsIndex(c rune) int {
	for i, s := range c09SpaceRunes {
		if s == c {
			return i
		}
	}
	panic("not a space rune")
}

// ---------------------------------------------------------------- grammar-driven templates (mostly well formed)

type c09G struct {
	r      *Rand
	broken bool // allow unterminated statements / quotes and stray specials
}

func (g c09G) wsRune() rune {
	switch k := g.r.Intn(20); {
	case k < 10:
		return ' '
	case k < 13:
		return '\t'
	case k < 15:
		return '\n'
	default:
		return Pick(g.r, c09SpaceRunes)
	}
}

func (g c09G) ws(min int) string {
	n := min
	if g.r.Chance(1, 3) {
		n += g.r.Intn(3)
	}
	var sb strings.Builder
	for i := 0; i < n; i++ {
		sb.WriteRune(g.wsRune())
	}
	return sb.String()
}

// an escape: backslash + (almost) any rune
func (g c09G) escape() string {
	var c rune
	switch g.r.Intn(8) {
	case 0, 1:
		c = Pick(g.r, c09Specials)
	case 2:
		c = Pick(g.r, []rune{'n', 't', 'r'})
	case 3:
		c = g.wsRune()
	case 4:
		c = Pick(g.r, []rune{'é', 'ß', '世', '😀', 0x0301, 0xFFFD, 0x10FFFF, 0x80, 0x7FF, 0x800, 0xFFFF, 0x10000})
	case 5:
		c = c09AnyRune(g.r)
	default:
		c = Pick(g.r, []rune{'x', 'a', '0', '1', 'N', 'T', '-', '.', '\'', 'u', 'U'})
	}
	bs := 1
	if g.r.Chance(1, 5) {
		bs = 1 + g.r.Intn(4) // several levels of protection (each pass eats one)
	}
	return strings.Repeat(`\`, bs) + string(c)
}

func (g c09G) plainRune() rune {
	c := Pick(g.r, c09Runes)
	if g.r.Chance(1, 10) {
		c = c09AnyRune(g.r)
	}
	if g.r.Chance(1, 25) {
		c = Pick(g.r, c09NotSpaces)
	}
	if c09Special(c) || unicode.IsSpace(c) {
		c = 'w'
	}
	return c
}

func (g c09G) head() string {
	switch k := g.r.Intn(12); {
	case k < 6:
		return Pick(g.r, c09ProbeNames)
	case k < 7:
		return Pick(g.r, []string{"bad", "nil"})
	case k < 8:
		return Pick(g.r, []string{"nofn", "A", "F", "é", "cat2", "a\\ b"})
	case k < 9:
		return g.bareWord(0)
	default:
		return Pick(g.r, c09KeyPool)
	}
}

// an unquoted word: plain runes and escapes, sometimes glued to a quoted segment or a statement
func (g c09G) bareWord(depth int) string {
	var sb strings.Builder
	for n := 1 + g.r.Intn(3); n > 0; n-- {
		switch k := g.r.Intn(12); {
		case k < 7:
			sb.WriteRune(g.plainRune())
		case k < 10:
			sb.WriteString(g.escape())
		case k < 11:
			sb.WriteString(g.quoted(depth)) // a"b c"d
		default:
			if depth > 0 {
				sb.WriteString(g.stmt(depth - 1)) // x{0}y
			} else {
				sb.WriteString("{0}")
			}
		}
	}
	return sb.String()
}

func (g c09G) quoted(depth int) string {
	var sb strings.Builder
	sb.WriteByte('"')
	for n := g.r.Intn(5); n > 0; n-- {
		switch k := g.r.Intn(14); {
		case k < 5:
			sb.WriteRune(g.plainRune())
		case k < 7:
			sb.WriteRune(g.wsRune())
		case k < 10:
			sb.WriteString(g.escape())
		case k < 11:
			sb.WriteRune(Pick(g.r, []rune{'{', '}'})) // braces inside quotes: part of the text for the splitter, not for the scanner
		case k < 13:
			if depth > 0 {
				sb.WriteString(g.stmt(depth - 1)) // "{0} {1}": a quoted sub-template
			} else {
				sb.WriteString("{1}")
			}
		default:
			sb.WriteString(`""`) // "a""b"
		}
	}
	if !(g.broken && g.r.Chance(1, 25)) {
		sb.WriteByte('"')
	}
	return sb.String()
}

func (g c09G) arg(depth int) string {
	switch k := g.r.Intn(10); {
	case k < 3:
		return g.bareWord(depth)
	case k < 6:
		return g.quoted(depth)
	case k < 9:
		if depth > 0 {
			return g.stmt(depth - 1)
		}
		return Pick(g.r, []string{"{0}", "{1}", "{k}", "{ 2 }", "{}"})
	default: // adjacency without white space
		return g.arg(depth) + g.arg(depth)
	}
}

func (g c09G) stmt(depth int) string {
	if g.r.Chance(1, 20) {
		return "{" + g.ws(0) + "}" // empty statement at this depth
	}
	var sb strings.Builder
	sb.WriteString("{" + g.ws(0))
	sb.WriteString(g.head())
	argc := g.r.Intn(4)
	if g.r.Chance(1, 12) {
		argc = g.r.Intn(8)
	}
	for i := 0; i < argc; i++ {
		sb.WriteString(g.ws(1))
		sb.WriteString(g.arg(depth))
	}
	sb.WriteString(g.ws(0))
	if !(g.broken && g.r.Chance(1, 15)) {
		sb.WriteByte('}')
	}
	return sb.String()
}

func (g c09G) topText() string {
	var sb strings.Builder
	for n := g.r.Intn(5); n > 0; n-- {
		switch k := g.r.Intn(12); {
		case k < 5:
			sb.WriteRune(g.plainRune())
		case k < 7:
			sb.WriteRune(g.wsRune())
		case k < 10:
			sb.WriteString(g.escape())
		case k < 11:
			sb.WriteRune(Pick(g.r, []rune{'}', '"', '"'})) // ordinary text outside a statement
		default:
			if g.broken {
				sb.WriteRune(Pick(g.r, []rune{'{', '\\'}))
			} else {
				sb.WriteString("x")
			}
		}
	}
	return sb.String()
}

func (g c09G) template(depth int) string {
	var sb strings.Builder
	for n := 1 + g.r.Intn(3); n > 0; n-- {
		if g.r.Chance(2, 5) {
			sb.WriteString(g.topText())
		} else {
			sb.WriteString(g.stmt(depth))
		}
	}
	return sb.String()
}

// ---------------------------------------------------------------- systematic families

// wrap nests a text d levels deep as the (last) argument of probe calls: {a {f {g <inner>}}}
func c09Wrap(inner string, d int) string {
	names := []string{"a", "f", "g", "cat"}
	s := inner
	for i := 0; i < d; i++ {
		s = "{" + names[i%len(names)] + " " + s + "}"
	}
	return s
}

// c09Systematic: escapes × backslash count × depth × position; adjacent quotes; empty / unterminated
// statements at every depth; every white-space kind (and look-alike) in every position.
func c09Systematic(tier string) []string {
	var ts []string
	maxD := 3
	if tier == "thorough" {
		maxD = 6
	}
	escs := []string{"{", "}", `"`, `\`, "n", "t", "r", " ", "\t", "\u00a0", "\u3000", "x", "0", "é", "世", "😀", "\u0301", "\xff", "\xc3"}
	for _, x := range escs {
		for nb := 1; nb <= 5; nb++ {
			e := strings.Repeat(`\`, nb) + x
			ts = append(ts, "p"+e+"q", e, e+e)
			for d := 1; d <= maxD; d++ {
				ts = append(ts, c09Wrap("p"+e+"q", d), c09Wrap(`"p `+e+` q"`, d), c09Wrap(e, d), c09Wrap(`"`+e+`"`, d),
					c09Wrap(`"{a `+e+`}"`, d))
			}
		}
	}
	for _, a := range []string{`"a""b"`, `a"b c"d`, `"a"b`, `a"b"`, `""""`, `""`, `"" ""`, `"a" "b"`, `"a""b" c`, `x"y`, `"`, `""x""`, `{0}"a"`, `"a"{0}`, `{0}{1}`,
		`a{0}"b c"{1}d`, `"a b"{0}`, `"{0}""{1}"`, `"{a "x y"}"`, `"{a \"x y\"}"`, `a""`, `""a`, `" "`, `"\""`, `"\\"`, `"}"`, `"{"`, `"{" "}"`} {
		ts = append(ts, a)
		for d := 1; d <= maxD; d++ {
			ts = append(ts, c09Wrap(a, d), c09Wrap("z "+a+" z", d))
		}
	}
	for d := 0; d <= maxD+2; d++ {
		for _, e := range []string{"{}", "{ }", "{\t\n}", "{\u00a0}", "{\u200b}", `{""}`, `{"" ""}`, `{\ }`} {
			ts = append(ts, c09Wrap(e, d), c09Wrap("x "+e+" y", d), "pre"+c09Wrap(e, d)+"post")
		}
		// unterminated at every depth: drop the closing brace of one level, or cut right after a head
		full := c09Wrap("{0}", d+1)
		for k := 0; k <= d+1; k++ {
			cut := len(full) - k
			ts = append(ts, full[:cut], full[:cut]+" tail", strings.Repeat("{a ", d+1)+strings.Repeat("}", k))
			if cut > 0 {
				ts = append(ts, full[:cut-1]+`\}`+full[cut:]) // an escaped brace does not close
			}
		}
		ts = append(ts, c09Wrap(`"unterminated quote`, d), c09Wrap(`x\`, d), c09Wrap("{0}", d)+"}", c09Wrap("{0}", d)+"}}{")
	}
	// deep nesting
	for _, d := range []int{8, 16, 40, 100} {
		ts = append(ts, c09Wrap("{0}", d), c09Wrap(`"a b"`, d), c09Wrap("{0", d), strings.Repeat("{", d)+strings.Repeat("}", d),
			strings.Repeat("{a ", d)+"x"+strings.Repeat(" }", d))
	}
	for _, w := range append(append([]rune{}, c09SpaceRunes...), c09NotSpaces...) {
		s := string(w)
		ts = append(ts, "{a"+s+"b}", "{a b"+s+"}", "{"+s+"a b}", `{a "x`+s+`y"}`, "{a {a"+s+"b}}", s, "{"+s+"}", "{"+s+"0"+s+"}",
			"{a"+s+s+"b"+s+"c}", `{a \`+s+`b}`, "{a x"+s+`"y"}`, "{a"+s+"{0}"+s+"{1}}")
	}
	return ts
}

// c09SystematicSplit: splitter inputs with every white-space kind and look-alike.
func c09SystematicSplit() []string {
	var ts []string
	for _, w := range append(append([]rune{}, c09SpaceRunes...), c09NotSpaces...) {
		s := string(w)
		ts = append(ts, "a"+s+"b", s+"a"+s, `"a`+s+`b"`, "{a"+s+"b}", "a"+s+s+"b", `a\`+s+"b", `a"`+s+`"b`)
	}
	for _, a := range []string{`"a""b"`, `a"b c"d`, `"a"b`, `a"b"`, `""""`, `"" ""`, `x"y`, `""x""`, `{0}"a"`, `"a"{0}`, `{0}{1}`, `{a "b c"}"d e"`, `{"}"}`, `"{" x "}"`, `}{`, `}a b{`,
		`\"a b\"`, `a\\ b`, `a\\\ b`, `\{a b\}`, `{a \} b}`, `{a "\"" b} c`} {
		ts = append(ts, a)
	}
	return ts
}

// ---------------------------------------------------------------- UTF-8

// c09Utf8Samples: byte strings around every boundary of table 3-7 plus random malformed streams.
func c09Utf8Samples(r *Rand, n int) []string {
	out := []string{"", "a", "\x7f", "\x80", "\xbf", "\xc0\x80", "\xc1\xbf", "\xc2\x7f", "\xc2\x80", "\xdf\xbf", "\xdf\xc0", "\xe0\x9f\xbf", "\xe0\xa0\x80",
		"\xe0\x80\x80", "\xed\x9f\xbf", "\xed\xa0\x80", "\xed\xbf\xbf", "\xee\x80\x80", "\xef\xbf\xbd", "\xef\xbf\xbf", "\xf0\x8f\xbf\xbf", "\xf0\x90\x80\x80",
		"\xf4\x8f\xbf\xbf", "\xf4\x90\x80\x80", "\xf5\x80\x80\x80", "\xf8\x88\x80\x80\x80", "\xff", "\xfe", "\xe2\x82", "\xe2", "\xf0\x9f\x98", "\xf0\x9f", "\xf0",
		"\xe2\x82\xac", "\xe2\x82\x41", "\xe2\x41\xac", "\xf0\x9f\x98\x41", "\xf0\x9f\x41\x80", "\xf0\x41\x98\x80", "\xc3\xa9\xc3", "a\xc3", "\xc3a", "\x80\x80\x80",
		"\xe2\x82\xac\xe2\x82", "\xf0\x9f\x98\x80\xf0\x9f\x98", "\xed\xa0\x80\xed\xb0\x80", "\xc0\xaf", "\xe0\x80\xaf", "\xf0\x80\x80\xaf", "\x00", "a\x00b"}
	leads := []byte{0x00, 0x41, 0x7f, 0x80, 0x8f, 0x90, 0x9f, 0xa0, 0xbf, 0xc0, 0xc1, 0xc2, 0xdf, 0xe0, 0xe1, 0xec, 0xed, 0xee, 0xef, 0xf0, 0xf1, 0xf3, 0xf4, 0xf5, 0xf7, 0xf8, 0xff}
	for i := 0; i < n; i++ {
		var b []byte
		switch r.Intn(4) {
		case 0: // boundary bytes only
			for k := r.Intn(7); k > 0; k-- {
				b = append(b, Pick(r, leads))
			}
		case 1: // valid text, corrupted
			b = []byte(c09Corrupt(r, c09LitText(r)+"x"))
		case 2: // valid text, truncated inside a sequence
			s := c09LitText(r) + string(c09AnyRune(r))
			b = []byte(s)[:r.Intn(len(s)+1)]
		default: // valid
			b = []byte(c09LitText(r))
		}
		out = append(out, string(b))
	}
	return out
}

func c09RunesAnswer(s string) string {
	rs := []rune(s)
	// `for range` (what the argument splitter uses) must agree with []rune (what Compile uses)
	i := 0
	for _, c := range s {
		if i >= len(rs) || rs[i] != c {
			return "DIFF range-vs-slice"
		}
		i++
	}
	if i != len(rs) {
		return "DIFF range-vs-slice"
	}
	parts := make([]string, len(rs))
	for k, c := range rs {
		parts[k] = fmt.Sprint(int(c))
	}
	cps := "."
	if len(parts) > 0 {
		cps = strings.Join(parts, ",")
	}
	wf := 0
	if utf8.ValidString(s) {
		wf = 1
	}
	// re = string([]rune(s)); chars = the same text written rune by rune with strings.Builder.WriteRune
	var sb strings.Builder
	for _, c := range rs {
		sb.WriteRune(c)
	}
	return fmt.Sprintf("ok %s wf=%d re=%s chars=%s", cps, wf, HexS(string(rs)), HexS(sb.String()))
}
