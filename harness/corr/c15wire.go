//go:build c15

package main

// C15 – the wiring from the command line down to the follow reader (lean/Rare/Model/C15Wiring.lean).
//
//	new <reopen 0|1> <poll 0|1> <exists 0|1>
//	    the real followreader.New(path, reopen, poll) on a file that exists / does not exist; the answer is the
//	    dynamic type of the reader and its option fields:  ok kind=notify reopen=1 | ok kind=poll reopen=0 attempts=5
//	    delayms=250 | ok err
//	cli <flag>+<flag>+…        (flags: -f --follow -F --reopen --poll -t --tail;  `-` for none)
//	    the real helpers.BuildBatcherFromArguments inside a urfave/cli command adapted with
//	    helpers.AdaptCommandForExtractor, on a real file; what the flags did is OBSERVED:
//	      usage   logger.Fatalf(ExitCodeInvalidUsage, …) was reached (logger.OsExit is intercepted)
//	      files   the batch channel was closed after the existing content although the file is still there
//	      follow  kind   = notify iff an inotify instance of this process watches the file's directory (fdinfo)
//	              tail   = the content the file had at the start was not delivered, a later append was
//	              reopen = a second run on a path that does not exist keeps following (re-open) instead of
//	                       counting a read error and closing the channel (plain)
//	    answer:  ok usage | ok files | ok follow kind=<notify|poll> reopen=<0|1> tail=<0|1>

import (
	"fmt"
	"io"
	"os"
	"path/filepath"
	"strings"
	"sync"
	"syscall"
	"time"

	"rare/cmd/helpers"
	"rare/pkg/extractor/batchers"
	"rare/pkg/followreader"
	"rare/pkg/logger"

	"github.com/urfave/cli/v2"
)

func c15WireDir() (string, error) {
	root := os.Getenv("VERIF_WORK")
	if root == "" {
		root = "/verif/work/tmp"
	}
	os.MkdirAll(root, 0o755)
	return os.MkdirTemp(root, "c15w-")
}

func c15New(f []string) string {
	if len(f) < 4 {
		return "bad-op"
	}
	reopen, poll, exists := f[1] == "1", f[2] == "1", f[3] == "1"
	dir, err := c15WireDir()
	if err != nil {
		return "harness-error " + err.Error()
	}
	defer os.RemoveAll(dir)
	path := filepath.Join(dir, "followed.log")
	if exists {
		os.WriteFile(path, []byte("x\n"), 0o644)
	}
	r, err := followreader.New(path, reopen, poll)
	if err != nil {
		return "ok err"
	}
	defer r.Close()
	b := func(v bool) int {
		if v {
			return 1
		}
		return 0
	}
	switch v := r.(type) {
	case *followreader.NotifyFollowReader:
		return fmt.Sprintf("ok kind=notify reopen=%d", b(v.ReOpen))
	case *followreader.PollingFollowReader:
		return fmt.Sprintf("ok kind=poll reopen=%d attempts=%d delayms=%d", b(v.Reopen), v.ReadAttempts, v.PollDelay.Milliseconds())
	}
	return fmt.Sprintf("ok kind=%T", r)
}

// an inotify instance of this process watches `dir`
func c15HasInotifyWatch(dir string) bool {
	var st syscall.Stat_t
	if syscall.Stat(dir, &st) != nil {
		return false
	}
	want := fmt.Sprintf("ino:%x ", st.Ino)
	ents, _ := os.ReadDir("/proc/self/fd")
	for _, e := range ents {
		link, err := os.Readlink("/proc/self/fd/" + e.Name())
		if err != nil || link != "anon_inode:inotify" {
			continue
		}
		data, _ := os.ReadFile("/proc/self/fdinfo/" + e.Name())
		for _, ln := range strings.Split(string(data), "\n") {
			if strings.HasPrefix(ln, "inotify ") && strings.Contains(ln+" ", want) {
				return true
			}
		}
	}
	return false
}

type c15Exit struct{ code int }

var c15ExitMu sync.Mutex

// runs BuildBatcherFromArguments under the real flag parser; exit code >= 0 when logger.Fatal* was reached
func c15BuildBatcher(flags []string, path string) (b *batchers.Batcher, exit int, err error) {
	exit = -1
	c15ExitMu.Lock()
	old := logger.OsExit
	logger.OsExit = func(code int) { panic(c15Exit{code}) }
	defer func() {
		logger.OsExit = old
		c15ExitMu.Unlock()
	}()
	app := cli.NewApp()
	app.Writer, app.ErrWriter = io.Discard, io.Discard
	app.ExitErrHandler = func(*cli.Context, error) {}
	app.Commands = []*cli.Command{helpers.AdaptCommandForExtractor(cli.Command{
		Name: "x",
		Action: func(c *cli.Context) (e error) {
			defer func() {
				if r := recover(); r != nil {
					if x, ok := r.(c15Exit); ok {
						exit = x.code
						return
					}
					panic(r)
				}
			}()
			b = helpers.BuildBatcherFromArguments(c)
			return nil
		},
	})}
	args := append([]string{"rare", "x", "--batch", "1"}, flags...)
	args = append(args, path)
	err = app.Run(args)
	return
}

type c15Sink struct {
	mu     sync.Mutex
	lines  []string
	closed bool
}

func c15Collect(b *batchers.Batcher) *c15Sink {
	s := &c15Sink{}
	go func() {
		for batch := range b.BatchChan() {
			s.mu.Lock()
			for _, l := range batch.Batch {
				s.lines = append(s.lines, string(l))
			}
			s.mu.Unlock()
		}
		s.mu.Lock()
		s.closed = true
		s.mu.Unlock()
	}()
	return s
}

func (s *c15Sink) has(line string) bool {
	s.mu.Lock()
	defer s.mu.Unlock()
	for _, l := range s.lines {
		if l == line {
			return true
		}
	}
	return false
}

func (s *c15Sink) isClosed() bool {
	s.mu.Lock()
	defer s.mu.Unlock()
	return s.closed
}

func c15Until(max time.Duration, pred func() bool) bool {
	deadline := time.Now().Add(max)
	for !pred() {
		if time.Now().After(deadline) {
			return false
		}
		time.Sleep(2 * time.Millisecond)
	}
	return true
}

func c15Cli(f []string) string {
	if len(f) < 2 {
		return "bad-op"
	}
	var flags []string
	if f[1] != "-" {
		flags = strings.Split(f[1], "+")
	}
	dir, err := c15WireDir()
	if err != nil {
		return "harness-error " + err.Error()
	}
	defer os.RemoveAll(dir)
	path := filepath.Join(dir, "followed.log")
	os.WriteFile(path, []byte("old\n"), 0o644)

	b, exit, err := c15BuildBatcher(flags, path)
	if err != nil {
		return "ok parse-error"
	}
	if exit >= 0 {
		if exit == helpers.ExitCodeInvalidUsage {
			return "ok usage"
		}
		return fmt.Sprintf("ok exit=%d", exit)
	}
	if b == nil {
		return "harness-error no batcher"
	}
	sink := c15Collect(b)
	if !c15Until(2*time.Second, func() bool { return b.ActiveFileCount() == 1 || sink.isClosed() }) {
		return "harness-error follower did not start"
	}
	// not following: the content is read once and the channel is closed while the file is still there
	if c15Until(120*time.Millisecond, sink.isClosed) {
		if sink.has("old") {
			return "ok files"
		}
		return "ok closed-without-content"
	}
	kind := "poll"
	if c15HasInotifyWatch(dir) {
		kind = "notify"
	}
	time.Sleep(10 * time.Millisecond)
	if fh, err := os.OpenFile(path, os.O_WRONLY|os.O_APPEND, 0); err == nil {
		fh.WriteString("new\n")
		fh.Close()
	}
	if !c15Until(3*time.Second, func() bool { return sink.has("new") }) {
		return "ok follow-but-append-not-delivered"
	}
	tail := 1
	if sink.has("old") {
		tail = 0
	}
	os.Remove(path) // plain follow ends by itself now

	// second run: the path does not exist
	dir2, err := c15WireDir()
	if err != nil {
		return "harness-error " + err.Error()
	}
	defer os.RemoveAll(dir2)
	path2 := filepath.Join(dir2, "absent.log")
	b2, exit2, err := c15BuildBatcher(flags, path2)
	if err != nil || exit2 >= 0 || b2 == nil {
		return "harness-error second run"
	}
	sink2 := c15Collect(b2)
	if !c15Until(2*time.Second, func() bool { return b2.ActiveFileCount() == 1 || sink2.isClosed() }) {
		return "harness-error second follower did not start"
	}
	reopen := 0
	if b2.ActiveFileCount() == 1 && !sink2.isClosed() {
		reopen = 1
		kind2 := "poll"
		if c15HasInotifyWatch(dir2) {
			kind2 = "notify"
		}
		if kind2 != kind {
			return fmt.Sprintf("ok follow kind=%s/%s", kind, kind2)
		}
	} else if b2.ReadErrors() != 1 {
		return fmt.Sprintf("ok plain-missing-file-errors=%d", b2.ReadErrors())
	}
	c15Counters["cli.follow."+kind]++
	return fmt.Sprintf("ok follow kind=%s reopen=%d tail=%d", kind, reopen, tail)
}

// ---------------------------------------------------------------- generator

var c15Spellings = [][]string{{"-f", "--follow"}, {"-F", "--reopen"}, {"--poll"}, {"-t", "--tail"}}

func c15CliCase(r *Rand, mask int) string {
	var toks []string
	for i := 0; i < 4; i++ {
		if mask&(1<<i) != 0 {
			toks = append(toks, Pick(r, c15Spellings[i]))
		}
	}
	// the order of flags on the command line does not matter
	for i := len(toks) - 1; i > 0; i-- {
		j := r.Intn(i + 1)
		toks[i], toks[j] = toks[j], toks[i]
	}
	if len(toks) == 0 {
		return "cli -"
	}
	return "cli " + strings.Join(toks, "+")
}

func c15ApiCase(r *Rand) string {
	mode := Pick(r, []string{"notify", "poll"})
	content := []byte{}
	for i, n := 0, Pick(r, []int{0, 1, 5, 20, 200}); i < n; i++ {
		content = append(content, Pick(r, c15Alpha))
	}
	size, pos, closed := len(content), 0, false
	var calls []string
	for i, n := 0, r.Range(2, 12); i < n; i++ {
		switch k := r.Intn(10); {
		case k < 5: // Read – only when it cannot block (bytes unread, or closed)
			if closed || pos < size {
				n := Pick(r, []int{1, 2, 3, 7, 64, 4096})
				calls = append(calls, fmt.Sprintf("R%d", n))
				if !closed {
					if size-pos < n {
						n = size - pos
					}
					pos += n
				}
			}
		case k < 7:
			b := make([]byte, r.Range(1, 9))
			for j := range b {
				b[j] = Pick(r, c15Alpha)
			}
			calls = append(calls, "A"+Hex(b))
			size += len(b)
		case k < 9:
			calls = append(calls, "D")
			if !closed {
				pos = size
			}
		default:
			calls = append(calls, "C")
			closed = true
		}
	}
	if r.Chance(1, 3) { // Read after Close answers EOF, also with bytes unread
		calls = append(calls, "A"+Hex([]byte("late")), "C", "R8", "D", "R1", "C")
	}
	if len(calls) == 0 {
		calls = append(calls, "D")
	}
	return fmt.Sprintf("api %s %d %s %s", mode, r.Intn(2), Hex(content), strings.Join(calls, ","))
}

func c15WireGenAll(r *Rand, tier string) []string {
	var out []string
	na := 30
	if tier == "thorough" {
		na = 400
	}
	for i := 0; i < na; i++ {
		out = append(out, c15ApiCase(r))
	}
	for reopen := 0; reopen < 2; reopen++ {
		for poll := 0; poll < 2; poll++ {
			for exists := 0; exists < 2; exists++ {
				out = append(out, fmt.Sprintf("new %d %d %d", reopen, poll, exists))
			}
		}
	}
	if tier == "thorough" {
		for rep := 0; rep < 2; rep++ {
			for mask := 0; mask < 16; mask++ {
				out = append(out, c15CliCase(r, mask))
			}
		}
		return out
	}
	// quick: the four usage/no-follow combinations are cheap, six of the twelve follow combinations
	for _, mask := range []int{0, 4, 8, 12} {
		out = append(out, c15CliCase(r, mask))
	}
	follow := []int{1, 2, 3, 5, 6, 7, 9, 10, 11, 13, 14, 15}
	start := r.Intn(2)
	for i := start; i < len(follow); i += 2 {
		out = append(out, c15CliCase(r, follow[i]))
	}
	return out
}

// ---------------------------------------------------------------- api: Read / Drain / Close from one goroutine
//
//	api <notify|poll> <reopen 0|1> <content hex> <call>,<call>,…      calls: R<n> Read(buf[:n])  D Drain()  C Close()  A<hex> append
//
// answer: ok <r<hex>|eof|ok|block>,… delivered=<bytes returned since the last Drain>.  A Read that does not come back
// within 300 ms is `block` and ends the run (the model stops there too).
func c15Api(f []string) string {
	if len(f) < 5 {
		return "bad-op"
	}
	poll, reopen := f[1] == "poll", f[2] == "1"
	dir, err := c15WireDir()
	if err != nil {
		return "harness-error " + err.Error()
	}
	defer os.RemoveAll(dir)
	path := filepath.Join(dir, "followed.log")
	if err := os.WriteFile(path, UnHex(f[3]), 0o644); err != nil {
		return "harness-error " + err.Error()
	}
	r, err := followreader.New(path, reopen, poll)
	if err != nil {
		return "ok newerr"
	}
	if pr, ok := r.(*followreader.PollingFollowReader); ok {
		pr.PollDelay = time.Millisecond
	}
	var res []string
	delivered := 0
	blocked, closed := false, false
	for _, c := range strings.Split(f[4], ",") {
		if c == "" {
			continue
		}
		switch c[0] {
		case 'R':
			n := 0
			fmt.Sscanf(c[1:], "%d", &n)
			type rr struct {
				b   []byte
				err error
			}
			ch := make(chan rr, 1)
			go func() {
				buf := make([]byte, n)
				k, err := r.Read(buf)
				ch <- rr{buf[:k], err}
			}()
			select {
			case x := <-ch:
				switch {
				case x.err == io.EOF && len(x.b) == 0:
					res = append(res, "eof")
				case x.err != nil:
					res = append(res, "err:"+x.err.Error())
				default:
					res = append(res, "r"+Hex(x.b))
					delivered += len(x.b)
				}
			case <-time.After(300 * time.Millisecond):
				res = append(res, "block")
				blocked = true
			}
		case 'D':
			if err := r.Drain(); err != nil {
				res = append(res, "err:"+err.Error())
			} else {
				res = append(res, "ok")
				if !closed { // Drain of a closed reader has no file to seek in
					delivered = 0
				}
			}
		case 'C':
			if err := r.Close(); err != nil {
				res = append(res, "err:"+err.Error())
			} else {
				res = append(res, "ok")
				closed = true
			}
		case 'A':
			fh, err := os.OpenFile(path, os.O_WRONLY|os.O_APPEND, 0)
			if err != nil {
				return "harness-error " + err.Error()
			}
			fh.Write(UnHex(c[1:]))
			fh.Close()
			res = append(res, "ok")
		default:
			return "bad-op"
		}
		if blocked {
			break
		}
	}
	if !blocked {
		r.Close()
	}
	return fmt.Sprintf("ok %s delivered=%d", strings.Join(res, ","), delivered)
}
