//go:build c19

package main

import (
	"fmt"
	"math"
	"strconv"
	"strings"

	"rare/pkg/expressions/stdmath"
)

// C19, further ops (Lean side: Drv/C19.lean):
//
//	gram <formula>                      is the text a formula?  real: stdmath.Compile succeeds; Lean: the token
//	                                    grammar of Spec/C19Grammar.lean (`accepts`)
//	lit <base> <prefix|-> <digits>      value of the literal 0<prefix><digits>; Lean: positional value (`baseVal`)
//	impl <implied> <explicit> <ms> <ks> the same formula with implied multiplications and with `*` written out:
//	                                    both evaluated by the real code, must agree bit for bit
//	meta <f1> <f2> <ms> <ks>            metamorphic: f2 is f1 with numeric constants replaced by variables that
//	                                    <ks> binds to the same values; both evaluated by the real code, must
//	                                    agree bit for bit ("constants equal bound variables")

func init() {
	c19Extra = func(f []string) (string, bool) {
		if s, ok := c19HistRun(f); ok { // c19hist.go: one stage, many evaluations (pool state), docs examples
			return s, true
		}
		if s, ok := c19LookRun(f); ok { // c19look.go: the look-ups Eval makes, in order
			return s, true
		}
		return c19GramRun(f)
	}
	c19ExtraGen = func(r *Rand, tier string) []string {
		out := append(c19GramGen(r, tier), c19F64Gen(r, tier)...) // c19f64.go: the IEEE instance
		out = append(out, c19HistGen(r, tier)...)   // c19hist.go
		out = append(out, c19LookGen(r, tier)...)   // c19look.go
		return append(out, c19EmptyGen(r, tier)...) // c19empty.go: empty / blank-only groups at every position
	}
}

func c19Pair(f1, f2 string, ctx *c19Ctx, tag string) string {
	v1, e1 := c19Impl(f1, ctx)
	v2, e2 := c19Impl(f2, ctx)
	if e1 != "" {
		return e1
	}
	if e2 != "" {
		return e2
	}
	if c19Bits(v1) != c19Bits(v2) {
		return fmt.Sprintf("%s-value-differs %s %s", tag, c19Bits(v1), c19Bits(v2))
	}
	return "ok " + c19Bits(v1)
}

func c19GramRun(f []string) (string, bool) {
	switch f[0] {
	case "gram":
		if _, err := stdmath.Compile(string(UnHex(f[1]))); err != nil {
			return "ok reject", true
		}
		return "ok accept", true
	case "lit":
		text := string(UnHex(f[3]))
		if f[1] != "10" {
			text = "0" + string(UnHex(f[2])) + text
		}
		v, e := c19Impl(text, &c19Ctx{k: map[string]float64{}})
		if e != "" {
			return e, true
		}
		return "ok " + c19Bits(v), true
	case "impl":
		return c19Pair(string(UnHex(f[1])), string(UnHex(f[2])), c19ParseBinding(f[3], f[4]), "explicit"), true
	case "meta":
		return c19Pair(string(UnHex(f[1])), string(UnHex(f[2])), c19ParseBinding(f[3], f[4]), "meta"), true
	}
	return "", false
}

// ---------------------------------------------------------------- generators

func c19KeyFields(names []string, vals []float64) string {
	if len(names) == 0 {
		return "."
	}
	parts := make([]string, len(names))
	for i := range names {
		parts[i] = fmt.Sprintf("%s=%016x", HexS(names[i]), math.Float64bits(vals[i]))
	}
	return strings.Join(parts, ",")
}

// values where float64 + and * are visibly non-associative, overflow, underflow or absorb
var c19EdgeValues = []float64{9007199254740992, 9007199254740994, 9007199254740991, -9007199254740992, 1e-300, 1e300, -1e300, 0,
	math.Copysign(0, -1), math.NaN(), math.Inf(1), math.Inf(-1), 2, 3, -2, 0.1, -0.1, 0.5, 1e100, 1e-100, 5e-324, 1e16, 1.0 / 3.0, 4503599627370496.5, 1e200, 1e-200, 7}

var c19AddConsts = []string{"0.1", "0.2", "0.3", "3.3", "0.7", "1", "2", "1e16", "0.3333333333333333", "1e-200", "1e200", "1e308", "0.05", "1.1", "9007199254740993", "0.5", "1e-17", "100"}
var c19MulConsts = []string{"1e200", "1e-200", "0.1", "3.3", "3", "1e308", "0.3333333333333333", "1.1", "10", "0.7", "1e-308", "1e154", "1e-162", "7", "0.5", "1e300"}

// a chain `V op c1 op c2 …` (two or more constants after a non-constant part, same + or * level),
// the same chain with the constants replaced by variables, and the binding of those variables
func c19Chain(r *Rand) (f1, f2 string, names []string, vals []float64) {
	g := &c19Gen{r: r, exact: true}
	op := Pick(r, []string{"+", "*"})
	pool := c19AddConsts
	if op == "*" {
		pool = c19MulConsts
	}
	names = []string{"x", "y", "abc"}
	vals = []float64{Pick(r, c19EdgeValues), Pick(r, c19EdgeValues), Pick(r, c19EdgeValues)}
	if r.Chance(1, 4) {
		vals[0] = float64(r.Range(-5, 5)) + Pick(r, []float64{0, 0.1, 0.25, 1.0 / 3.0})
	}
	other := "+"
	if op == "+" {
		other = "*"
	}
	v := Pick(r, []string{"x", "x", "x", "[0]", "[x]", "y", "(x)", "-x", "abs(x)", "x" + op + "y", "(x" + other + "y)", "(x" + op + Pick(r, pool) + ")", "2" + op + "x", "x" + other + "2", "2(x)", "(x)(y)"})
	n := r.Range(2, 4)
	consts := make([]string, n)
	for i := range consts {
		consts[i] = Pick(r, pool)
	}
	build := func(cs []string) string {
		sp := func() string { return g.sp() }
		paren := func(s string) string {
			if r.Chance(1, 5) {
				return "(" + s + ")"
			}
			return s
		}
		switch r.Intn(7) {
		case 0: // (V op c1) op c2 …
			s := "(" + v + sp() + op + sp() + cs[0] + ")"
			for _, c := range cs[1:] {
				s += sp() + op + sp() + c
			}
			return s
		case 1: // ((V op c1) op c2) op c3
			s := v
			for _, c := range cs {
				s = "(" + s + sp() + op + sp() + c + ")"
			}
			return s
		case 2: // constant in front as well
			s := cs[0] + sp() + op + sp() + v
			for _, c := range cs {
				s += sp() + op + sp() + c
			}
			return s
		case 3: // followed by something on another level
			s := v
			for _, c := range cs {
				s += sp() + op + sp() + c
			}
			return s + sp() + Pick(r, []string{"<", "==", "-", "/", "&&"}) + sp() + cs[0]
		case 4: // legitimately grouped to the right
			return v + sp() + op + sp() + "(" + strings.Join(cs, sp()+op+sp()) + ")"
		}
		s := v
		for _, c := range cs {
			s += sp() + op + sp() + paren(c)
		}
		return s
	}
	// same shape for both texts: replay the random choices
	save := *r
	f1 = build(consts)
	*r = save
	vn := []string{"ka", "kb", "kc", "kd"}[:n]
	f2 = build(vn)
	for i, c := range consts {
		fv, _ := strconv.ParseFloat(c, 64)
		names = append(names, vn[i])
		vals = append(vals, fv)
	}
	return
}

func c19ImplPair(r *Rand) (implied, explicit string) {
	g := &c19Gen{r: r, exact: true}
	const star = "\x01" // an implied multiplication at nesting depth 0: "" in one text, "*" in the other
	grp := func() string { return "(" + g.sp() + g.expr(r.Intn(2)) + g.sp() + ")" }
	lit := func() string { // a word that is a function name followed by "(" is an application, not a product
		for {
			if l := g.literal(); l != "sin" {
				return l
			}
		}
	}
	term := func() string {
		switch r.Intn(8) {
		case 0, 1:
			return lit() + g.sp() + star + grp()
		case 2:
			return grp() + g.sp() + star + grp()
		case 3:
			return lit() + star + grp() + star + grp()
		case 4:
			return "-" + lit() + star + grp()
		case 5:
			return Pick(r, c19ExactFuncs) + grp() + star + grp()
		case 6:
			return grp()
		}
		return g.literal()
	}
	s := term()
	for i, n := 0, r.Intn(4); i < n; i++ {
		s += g.sp() + Pick(r, c19BinOps) + g.sp() + term()
	}
	return strings.ReplaceAll(s, star, ""), strings.ReplaceAll(s, star, "*")
}

func c19GramGen(r *Rand, tier string) []string {
	n := 400
	if tier == "thorough" {
		n = 12000
	}
	var out []string
	// fixed witnesses of re-association (seeded change C19-reassoc) and of the literal theorems
	for _, w := range []struct {
		f string
		x float64
	}{{"x + 0.1 + 0.2", 2}, {"x + 1 + 1", 9007199254740992}, {"x * 1e200 * 1e200", 1e-300}, {"x * 1e200 * 1e200", 0},
		{"(x+0.1)+0.2", 2}, {"x*0.1*3", 1}, {"x + 1e16 + 1 + 1", 1}} {
		out = append(out, fmt.Sprintf("math %s . %s", HexS(w.f), c19KeyFields([]string{"x"}, []float64{w.x})))
		out = append(out, fmt.Sprintf("ref %s . %s", HexS(w.f), c19KeyFields([]string{"x"}, []float64{w.x})))
	}
	out = append(out, "lit 16 78 "+HexS("7fffffffffffffff"), "lit 16 58 "+HexS("fF"), "lit 2 62 "+HexS("101"), "lit 8 6f "+HexS("17"), "lit 10 - "+HexS("9223372036854775807"))
	for i := 0; i < n; i++ {
		// the grammar: valid and malformed texts
		g := &c19Gen{r: r, exact: true}
		var f string
		if r.Chance(1, 2) {
			f = c19Malformed(r, g)
		} else {
			f = g.expr(r.Intn(4))
		}
		out = append(out, "gram "+HexS(f))
		// chains of constants after a variable part
		f1, f2, names, vals := c19Chain(r)
		ms := []float64{vals[0], Pick(r, c19EdgeValues)}
		mf, _ := c19BindingFields(ms, nil)
		kf := c19KeyFields(names, vals)
		out = append(out, fmt.Sprintf("math %s %s %s", HexS(f1), mf, kf))
		out = append(out, fmt.Sprintf("ref %s %s %s", HexS(f1), mf, kf))
		out = append(out, fmt.Sprintf("meta %s %s %s %s", HexS(f1), HexS(f2), mf, kf))
		if i%4 == 0 {
			elems := []string{strconv.FormatFloat(ms[0], 'g', -1, 64), strconv.FormatFloat(ms[1], 'g', -1, 64)}
			var keys []string
			for j, nm := range names {
				keys = append(keys, nm, strconv.FormatFloat(vals[j], 'g', -1, 64))
			}
			out = append(out, ExprCase(r.Bool(), "{! "+f1+"}", elems, keys))
		}
		// implied multiplication written out
		a, b := c19ImplPair(r)
		bm, bk := c19Binding(r)
		mf2, kf2 := c19BindingFields(bm, bk)
		out = append(out, fmt.Sprintf("impl %s %s %s %s", HexS(a), HexS(b), mf2, kf2))
		// literals in base 2, 8, 16, 10
		if i%2 == 0 {
			base := Pick(r, []int{2, 8, 16, 16, 10})
			digits := "0123456789abcdefABCDEF"
			switch base {
			case 2:
				digits = "01"
			case 8:
				digits = "01234567"
			case 10:
				digits = "0123456789"
			}
			maxLen := map[int]int{2: 63, 8: 20, 10: 18, 16: 15}[base]
			ln := r.Range(1, maxLen)
			b := make([]byte, ln)
			for j := range b {
				b[j] = digits[r.Intn(len(digits))]
			}
			if base == 10 && b[0] == '0' {
				b[0] = '7'
			}
			pre := map[int]string{2: "b", 8: "o", 16: "x", 10: ""}[base]
			if r.Bool() {
				pre = strings.ToUpper(pre)
			}
			out = append(out, fmt.Sprintf("lit %d %s %s", base, HexS(pre), Hex(b)))
		}
	}
	return out
}
