//go:build c05

package main

// C05, pkg/logger: shared log state while the terminal is live.
//
//   logger <goroutines> <msgs> <ctl>       <goroutines> goroutines print <msgs> messages each through the real
//                                          logger.Printf/Println/Print while another goroutine walks through <ctl>
//                                          (D = DeferLogs, I = ImmediateLogs, in that order, spread over the run);
//                                          a last ImmediateLogs ends the run.  stderr (a pipe) must hold every
//                                          message exactly once, whole ("[Log] " + text, one per line), each
//                                          goroutine's messages in its order.  Model: Model/C05Logger.lean run on a
//                                          schedule of its own – the answer does not depend on the schedule
//                                          (Props: logger_final_flush_complete).
//   logerr <readers> <missing> <present>   --readers N with errors from several readers: the real
//                                          batchers.OpenFilesToChan over <present> small files and <missing>
//                                          names that do not exist, logs deferred; afterwards ImmediateLogs.
//                                          Every failed open is counted (ReadErrors) and logged exactly once.
//                                          <readers> = 0: batchers.TailFilesToChan (one goroutine per file) over
//                                          missing names only.

import (
	"bufio"
	"fmt"
	"io"
	"os"
	"path/filepath"
	"strconv"
	"strings"
	"sync"
	"sync/atomic"
	"time"

	"rare/pkg/extractor/batchers"
	"rare/pkg/logger"
)

var c05LogMu sync.Mutex

// captureStderr points os.Stderr (and, through Defer/ImmediateLogs, the logger) at a pipe while f runs.
func captureStderr(f func()) []string {
	c05LogMu.Lock()
	defer c05LogMu.Unlock()
	r, w, err := os.Pipe()
	if err != nil {
		panic(err)
	}
	saved := os.Stderr
	os.Stderr = w
	logger.DeferLogs()
	logger.ImmediateLogs() // resetLogger: the logger now writes to the pipe
	var lines []string
	done := make(chan struct{})
	go func() {
		sc := bufio.NewScanner(r)
		sc.Buffer(make([]byte, 1<<16), 1<<24)
		for sc.Scan() {
			lines = append(lines, sc.Text())
		}
		close(done)
	}()
	func() {
		defer func() {
			logger.ImmediateLogs()
			os.Stderr = saved
			logger.DeferLogs()
			logger.ImmediateLogs() // back to the real stderr
			w.Close()
		}()
		f()
	}()
	<-done
	r.Close()
	return lines
}

var c05LogLines int

func c05Logger(f []string) string {
	if len(f) < 4 {
		return "bad-args"
	}
	g, _ := strconv.Atoi(f[1])
	m, _ := strconv.Atoi(f[2])
	ctl := f[3]
	if ctl == "." {
		ctl = ""
	}
	var exits int64
	savedExit := logger.OsExit
	logger.OsExit = func(code int) { atomic.AddInt64(&exits, 1) }
	defer func() { logger.OsExit = savedExit }()
	lines := captureStderr(func() {
		var wg sync.WaitGroup
		start := make(chan struct{})
		for i := 0; i < g; i++ {
			wg.Add(1)
			go func(i int) {
				defer wg.Done()
				<-start
				for k := 0; k < m; k++ {
					if k == m-1 && i%2 == 1 { // the last message of every other goroutine goes through Fatal* (OsExit is a recorder)
						switch i % 3 {
						case 0:
							logger.Fatalf(3, "g%d-m%d", i, k)
						case 1:
							logger.Fatalln(4, fmt.Sprintf("g%d-m%d", i, k))
						default:
							logger.Fatal(5, "g", i, "-m", k)
						}
						continue
					}
					switch (i + k) % 3 {
					case 0:
						logger.Printf("g%d-m%d", i, k)
					case 1:
						logger.Println(fmt.Sprintf("g%d-m%d", i, k))
					default:
						logger.Print("g", i, "-m", k)
					}
				}
			}(i)
		}
		close(start)
		for _, c := range ctl {
			time.Sleep(time.Duration(20+10*g) * time.Microsecond)
			if c == 'D' {
				logger.DeferLogs()
			} else {
				logger.ImmediateLogs()
			}
		}
		wg.Wait()
	})
	whole, once, ordered := 1, 1, 1
	next := make([]int, g)
	for _, l := range lines {
		var i, k int
		if n, err := fmt.Sscanf(l, "[Log] g%d-m%d", &i, &k); n != 2 || err != nil || l != fmt.Sprintf("[Log] g%d-m%d", i, k) || i < 0 || i >= g {
			whole = 0
			continue
		}
		if k != next[i] {
			ordered = 0
		}
		next[i] = k + 1
	}
	for i := range next {
		if next[i] != m {
			once = 0
		}
	}
	if len(lines) != g*m {
		once = 0
	}
	if m > 0 && int(exits) != g/2 { // every Fatal* call reached OsExit exactly once
		once = 0
	}
	c05LogLines += len(lines)
	return fmt.Sprintf("ok lines=%d whole=%d once=%d ordered=%d", len(lines), whole, once, ordered)
}

func c05LogErr(f []string) string {
	if len(f) < 4 {
		return "bad-args"
	}
	readers, _ := strconv.Atoi(f[1])
	missing, _ := strconv.Atoi(f[2])
	present, _ := strconv.Atoi(f[3])
	dir, err := os.MkdirTemp(os.Getenv("VERIF_WORK"), "c05logerr")
	if err != nil {
		dir, err = os.MkdirTemp("", "c05logerr")
		if err != nil {
			panic(err)
		}
	}
	defer os.RemoveAll(dir)
	var names []string
	for i := 0; i < present; i++ {
		p := filepath.Join(dir, fmt.Sprintf("ok%03d", i))
		os.WriteFile(p, []byte("a\nb\n"), 0o644)
		names = append(names, p)
	}
	for i := 0; i < missing; i++ {
		names = append(names, filepath.Join(dir, fmt.Sprintf("missing%03d", i)))
	}
	// interleave: a missing file after every few present ones
	for i := range names {
		j := (i*7 + 3) % len(names)
		names[i], names[j] = names[j], names[i]
	}
	gotLines, readErrors := 0, 0
	lines := captureStderr(func() {
		logger.DeferLogs()
		ch := make(chan string, len(names))
		for _, n := range names {
			ch <- n
		}
		close(ch)
		var b *batchers.Batcher
		if readers == 0 { // follow mode (one goroutine per file): only names that do not exist, so it ends
			b = batchers.TailFilesToChan(ch, 10, 2, false, true, false)
		} else {
			b = batchers.OpenFilesToChan(ch, false, readers, 10, 2)
		}
		for batch := range b.BatchChan() {
			gotLines += len(batch.Batch)
			_ = b.StatusString()
		}
		readErrors = b.ReadErrors()
	})
	seen := map[string]int{}
	whole := 1
	for _, l := range lines {
		pre := "[Log] Error opening file "
		if readers == 0 {
			pre = "[Log] Unable to open file: "
		}
		if !strings.HasPrefix(l, pre) {
			whole = 0
			continue
		}
		rest := l[len(pre):]
		if readers == 0 { // "open <path>: no such file or directory"
			rest = strings.TrimPrefix(rest, "open ")
			if j := strings.Index(rest, "missing"); j >= 0 {
				rest = rest[j:]
			}
		}
		i := strings.Index(rest, ": ")
		if i < 0 {
			whole = 0
			continue
		}
		seen[filepath.Base(rest[:i])]++
	}
	once := 1
	for i := 0; i < missing; i++ {
		if seen[fmt.Sprintf("missing%03d", i)] != 1 {
			once = 0
		}
	}
	if len(seen) != missing {
		once = 0
	}
	c05LogLines += len(lines)
	return fmt.Sprintf("ok errors=%d logged=%d whole=%d once=%d lines=%d", readErrors, len(lines), whole, once, gotLines)
}

// closelag <files> <readers> <tries>: the real OpenFilesToChan over <files> one-line files, <tries> times; right after
// the batch channel was closed (every reader has called wg.Done()) the status must show no active file and
// files/files read (Props: close_status_complete).  Until /repo 7025f4b the source called stopFileReading AFTER
// wg.Done(), so once in a few hundred runs it did not (finding "closelag", fixed; Props:
// close_status_lag_counterexample about the old order).  The long search runs from the corpus
// (corpus/C05/closelag.case); the generator adds a short one per round.
func c05CloseLag(f []string) string {
	if len(f) < 4 {
		return "bad-args"
	}
	files, _ := strconv.Atoi(f[1])
	readers, _ := strconv.Atoi(f[2])
	tries, _ := strconv.Atoi(f[3])
	dir, err := os.MkdirTemp(os.Getenv("VERIF_WORK"), "c05lag")
	if err != nil {
		dir, err = os.MkdirTemp("", "c05lag")
		if err != nil {
			panic(err)
		}
	}
	defer os.RemoveAll(dir)
	var names []string
	for i := 0; i < files; i++ {
		p := filepath.Join(dir, fmt.Sprintf("f%d", i))
		os.WriteFile(p, []byte("a\n"), 0o644)
		names = append(names, p)
	}
	for k := 0; k < tries; k++ {
		ch := make(chan string, len(names))
		for _, n := range names {
			ch <- n
		}
		close(ch)
		b := batchers.OpenFilesToChan(ch, false, readers, 10, 2)
		for range b.BatchChan() {
		}
		if b.ActiveFileCount() != 0 {
			return "ok lag=1"
		}
	}
	return "ok lag=0"
}

func c05LoggerGen(r *Rand, tier string) []string {
	n := 3
	if tier == "thorough" {
		n = 25
	}
	var out []string
	if tier == "thorough" {
		out = append(out, fmt.Sprintf("closelag %d %d 3000", Pick(r, []int{2, 6, 12}), Pick(r, []int{1, 3, 6})))
	} else {
		out = append(out, fmt.Sprintf("closelag %d %d 400", Pick(r, []int{2, 6, 12}), Pick(r, []int{1, 3, 6})))
	}
	for i := 0; i < n; i++ {
		ctl := Pick(r, []string{".", "D", "DI", "DID", "DIDIDI", "I", "DD", "IDI"})
		out = append(out, fmt.Sprintf("logger %d %d %s", Pick(r, []int{1, 2, 4, 8, 16}), Pick(r, []int{1, 5, 20}), ctl))
	}
	for i := 0; i < (n+1)/2; i++ {
		out = append(out, fmt.Sprintf("logerr %d %d %d", Pick(r, []int{1, 2, 3, 8}), Pick(r, []int{0, 1, 5, 40}), Pick(r, []int{0, 1, 6, 30})))
		if i == 0 {
			out = append(out, fmt.Sprintf("logerr 0 %d 0", Pick(r, []int{1, 3, 12})))
		}
	}
	return out
}

var _ = io.EOF
