//go:build c02

package main

import (
	"fmt"
	"regexp"
	"strconv"
	"strings"

	"rare/pkg/extractor"
	"rare/pkg/extractor/batchers"
	"rare/pkg/matchers"
	"rare/pkg/matchers/fastregex"
)

// named <pattern> <line> <SubexpNames> <indices> <key>
//
// `{key}` through the REAL regex wrapper and the real extractor: fastregex.CompileEx builds the matcher and
// its name table, the extractor hands that table (matcher.SubexpNameTable()) to the expression context.
// The SubexpNames list and the index list in the case are the engine's own data (Go's regexp asked
// directly, not through rare's table); the model builds the table from the list.
func c02NamedRun(f []string) string {
	if len(f) != 6 {
		return "bad-args"
	}
	pat, line, key := string(UnHex(f[1])), UnHex(f[2]), string(UnHex(f[5]))
	ref, err := regexp.Compile(pat)
	if err != nil {
		return "bad-case"
	}
	if HexListS(ref.SubexpNames()) != f[3] || c02IntsStr(ref.FindSubmatchIndex(line)) != f[4] || len(ref.FindSubmatchIndex(line)) == 0 {
		return "bad-case"
	}
	re, err := fastregex.CompileEx(pat, false)
	if err != nil {
		return "bad-case"
	}
	data := append(append([]byte{}, line...), '\n')
	b := batchers.OpenReaderToChan("s0", &scriptedReader{rest: data}, 3, 1)
	ext, err := extractor.New(b.BatchChan(), &extractor.Config{Matcher: matchers.ToFactory(re), Extract: "[{" + key + "}]", Workers: 1})
	if err != nil {
		return "compile-error " + HexS(err.Error())
	}
	var got []extractor.Match
	for mb := range ext.ReadChan() {
		got = append(got, mb...)
	}
	if len(got) != 1 {
		return fmt.Sprintf("matches=%d", len(got))
	}
	v := got[0].Extracted
	if got[0].LineNumber != 1 || got[0].Source != "s0" || got[0].Line != string(line) {
		return "wrong-provenance"
	}
	return "ok " + HexS(v[1:len(v)-1])
}

// ---- generator: regexes in which unnamed groups precede, follow, enclose and are enclosed by named groups,
// optional groups that do not participate, alternations, repeated names; the line is built along with the
// expression so that it matches.

var c02GroupNames = []string{"a", "b", "a", "path", "id", "status", "n1", "_x", "A", "line", "src", "b", "1", "x2"}

type c02gen struct {
	r      *Rand
	groups int
}

func (g *c02gen) atom() (string, string) {
	switch g.r.Intn(6) {
	case 0:
		return `[a-z]+`, Pick(g.r, []string{"get", "x", "abc", "post", "zz"})
	case 1:
		return `\d+`, Pick(g.r, []string{"7", "200", "42", "0"})
	case 2:
		return `=`, "="
	case 3:
		return ` `, " "
	case 4:
		return `;`, ";"
	}
	return `/\S*`, Pick(g.r, []string{"/", "/x", "/a/b"})
}

// seq returns (regex, text it matches)
func (g *c02gen) seq(depth int) (string, string) {
	var re, tx strings.Builder
	n := 1 + g.r.Intn(3)
	for i := 0; i < n; i++ {
		if depth < 3 && g.groups < 7 && g.r.Chance(3, 5) {
			a, b := g.group(depth)
			re.WriteString(a)
			tx.WriteString(b)
		} else {
			a, b := g.atom()
			re.WriteString(a)
			tx.WriteString(b)
		}
	}
	return re.String(), tx.String()
}

func (g *c02gen) group(depth int) (string, string) {
	g.groups++
	open := "("
	if g.r.Chance(1, 2) {
		open = "(?P<" + Pick(g.r, c02GroupNames) + ">"
	}
	if g.r.Chance(1, 6) {
		// alternation of two groups: only one side participates
		l, lt := g.group(depth + 1)
		rr, rt := g.group(depth + 1)
		if g.r.Bool() {
			return open + l + "|" + rr + ")", lt
		}
		return open + l + "|" + rr + ")", rt
	}
	inner, text := g.seq(depth + 1)
	switch g.r.Intn(5) {
	case 0: // optional, does not participate
		return open + inner + ")?", ""
	case 1: // optional, participates
		return open + inner + ")?", text
	}
	return open + inner + ")", text
}

func c02NamedGen(r *Rand, tier string) []string {
	n := 220
	if tier == "thorough" {
		n = 6000
	}
	var out []string
	fixed := []struct{ pat, line string }{
		{`(\w+) (?P<path>\S+) (?P<status>\d+)`, "GET /x 200"},
		{`(x)?(id=(?P<id>\d+));`, "id=42;"},
		{`(?P<a>\w)(\w)(?P<a>\w)`, "xyz"},
		{`((?P<in>\d+)-(\d+)) (?P<out>(\w)(?P<deep>\w))`, "1-2 ab"},
		{`(?P<first>\w+) (\w+)`, "named first"},
	}
	emit := func(pat, line string) {
		ref, err := regexp.Compile(pat)
		if err != nil {
			return
		}
		ix := ref.FindSubmatchIndex([]byte(line))
		if len(ix) == 0 {
			return
		}
		names := ref.SubexpNames()
		keys := []string{"nope"}
		for i, nm := range names {
			if nm != "" {
				keys = append(keys, nm)
			}
			if i > 0 && r.Chance(1, 4) {
				keys = append(keys, strconv.Itoa(i))
			}
		}
		for _, k := range keys {
			out = append(out, fmt.Sprintf("named %s %s %s %s %s", HexS(pat), HexS(line), HexListS(names), c02IntsStr(ix), HexS(k)))
		}
	}
	for _, f := range fixed {
		emit(f.pat, f.line)
	}
	for i := 0; i < n; i++ {
		g := &c02gen{r: r}
		pat, line := g.seq(0)
		if g.groups == 0 {
			continue
		}
		line = Pick(r, []string{"", "", "> "}) + line + Pick(r, []string{"", "", " tail"})
		emit(pat, line)
	}
	return out
}

func c02NamedStats(cases []string, st map[string]int) {
	for _, c := range cases {
		f := strings.Fields(c)
		if f[0] != "named" || len(f) != 6 {
			continue
		}
		names := UnHexListS(f[3])
		key := string(UnHex(f[5]))
		firstNamed, unnamedBefore, dup := -1, false, false
		seen := map[string]bool{}
		for i, nm := range names {
			if i == 0 {
				continue
			}
			if nm == "" && firstNamed < 0 {
				unnamedBefore = true
			}
			if nm != "" {
				if firstNamed < 0 {
					firstNamed = i
				}
				if seen[nm] {
					dup = true
				}
				seen[nm] = true
			}
		}
		switch {
		case key == "nope":
			st["named.key.missing"]++
		case seen[key]:
			st["named.key.name"]++
			if unnamedBefore {
				st["named.key.name.unnamedGroupBefore"]++
			}
			if dup {
				st["named.key.name.repeatedNames"]++
			}
		default:
			st["named.key.number"]++
		}
		ix := parseInts(f[4])
		for k := 2; k+1 < len(ix); k += 2 {
			if ix[k] < 0 {
				st["named.absentGroup"]++
				break
			}
		}
	}
}
