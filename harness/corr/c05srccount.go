//go:build c05

package main

// C05, the spawner side of the status line: `[read/total]`.
//
//   srccount <n> <missing> <ahead> <readers> [gz]
//     The real OpenFilesToChan over n names (the first <missing> of them do not exist), fed through an unbuffered
//     channel <ahead> names at a time with a short pause in between, so that `len(bufferedFilenames)` differs from
//     iteration to iteration of the spawner's loop.  A sampler goroutine calls StatusString in a tight loop while
//     the consumer drains the batch channel and checks on every sample that shows the prefix: total never
//     decreases (mono), read <= total <= n (bounded).  final = the prefix after the channel was closed.
//     With `gz` the files are opened with gunzip on: every second one IS gzip-compressed, the others are plain (the
//     "Gunzip error … Reading as plain file" fallback of openFileToReader); the bookkeeping must not notice.
//     Model: Model/C05Spawner.lean; Props status_read_le_total, status_total_monotone, status_total_complete.

import (
	"bytes"
	"compress/gzip"
	"fmt"
	"os"
	"path/filepath"
	"runtime"
	"strconv"
	"strings"
	"time"

	"rare/pkg/extractor/batchers"
	"rare/pkg/logger"
)

var c05SrcCountSamples int

func c05StatusPrefix(st string) (read, total int, ok bool) {
	if !strings.HasPrefix(st, "[") {
		return 0, 0, false
	}
	end := strings.Index(st, "]")
	if end < 0 {
		return 0, 0, false
	}
	parts := strings.Split(st[1:end], "/")
	if len(parts) != 2 {
		return 0, 0, false
	}
	r, e1 := strconv.Atoi(parts[0])
	t, e2 := strconv.Atoi(parts[1])
	return r, t, e1 == nil && e2 == nil
}

func c05SrcCount(f []string) string {
	if len(f) < 5 {
		return "bad-args"
	}
	atoi := func(s string) int { n, _ := strconv.Atoi(s); return n }
	n, missing, ahead, readers := atoi(f[1]), atoi(f[2]), atoi(f[3]), atoi(f[4])
	if missing > n {
		missing = n
	}
	if readers < 1 {
		readers = 1
	}
	gz := len(f) > 5 && f[5] == "gz"
	dir, err := os.MkdirTemp(os.Getenv("VERIF_WORK"), "c05src")
	if err != nil {
		dir, err = os.MkdirTemp("", "c05src")
		if err != nil {
			panic(err)
		}
	}
	defer os.RemoveAll(dir)
	var names []string
	for i := 0; i < n; i++ {
		p := filepath.Join(dir, fmt.Sprintf("f%03d", i))
		if i >= missing {
			body := []byte(strings.Repeat("line\n", 1+i%3))
			if gz && i%2 == 0 {
				var zb bytes.Buffer
				zw := gzip.NewWriter(&zb)
				zw.Write(body)
				zw.Close()
				body = zb.Bytes()
			}
			os.WriteFile(p, body, 0o644)
		}
		names = append(names, p)
	}
	logger.DeferLogs() // the missing names are reported through the logger: keep them off the harness' stderr
	defer func() {
		captureStderr(func() {})
	}()

	ch := make(chan string)
	go func() {
		for i, nm := range names {
			ch <- nm
			if ahead > 0 && (i+1)%ahead == 0 {
				time.Sleep(100 * time.Microsecond)
			}
		}
		close(ch)
	}()
	b := batchers.OpenFilesToChan(ch, gz, readers, 10, 2)

	stop := make(chan struct{})
	samplerDone := make(chan struct{})
	mono, bounded, samples, lastTotal := 1, 1, 0, 0
	go func() {
		defer close(samplerDone)
		for {
			r, t, ok := c05StatusPrefix(b.StatusString())
			if ok {
				if t < lastTotal {
					mono = 0
				}
				if r > t || t > n {
					bounded = 0
				}
				lastTotal = t
			}
			samples++
			select {
			case <-stop:
				return
			default:
			}
			runtime.Gosched()
		}
	}()
	timeout := time.After(10 * time.Second)
	hung := false
DRAIN:
	for {
		select {
		case _, ok := <-b.BatchChan():
			if !ok {
				break DRAIN
			}
		case <-timeout:
			hung = true
			break DRAIN
		}
	}
	close(stop)
	<-samplerDone
	c05SrcCountSamples += samples
	if hung {
		return "hang"
	}
	final := "-"
	if r, t, ok := c05StatusPrefix(b.StatusString()); ok {
		final = fmt.Sprintf("%d/%d", r, t)
	}
	return fmt.Sprintf("ok mono=%d bounded=%d final=%s", mono, bounded, final)
}

func c05SrcCountGen(r *Rand, tier string) []string {
	k := 2
	if tier == "thorough" {
		k = 20
	}
	out := []string{"srccount 6 1 2 3", "srccount 1 0 1 1", "srccount 2 2 1 1", "srccount 5 1 2 2 gz"}
	for i := 0; i < k; i++ {
		n := Pick(r, []int{0, 1, 2, 3, 7, 16, 40})
		out = append(out, fmt.Sprintf("srccount %d %d %d %d", n, r.Intn(n+1)/2, Pick(r, []int{0, 1, 2, 5}), Pick(r, []int{1, 2, 3, 8})))
	}
	return out
}
