//go:build c07

package main

// Correspondence for C07, numerical aggregator against the software binary64 model
// (lean/Rare/Model/C07NumF64.lean, driver lean/Rare/Drv/C07NumF64.lean):
//
//	agg numf  <keep> <rev> <hist> <qs>    MatchNumerical.Sample per raw string; every ParseFloat spelling
//	                                      (decimal, exponent, hex, inf, nan, underscores, range errors)
//	agg numfv <keep> <rev> <bits> <ps>    MatchNumerical.Samplef per float64 bit pattern (16 hex digits,
//	                                      ';'-joined; any double incl. subnormals, ±Inf, NaN, ±0);
//	                                      quantile arguments as bit patterns (','-joined)
//
// After every sample the exact bit patterns of Mean/Variance/StdDev/Min/Max are printed ("nan" for any NaN,
// the sign of zero included); Median/Mode/Quantile print both zeros alike (Go's sort does not order them).

import (
	"fmt"
	"math"
	"strconv"
	"strings"

	"rare/pkg/aggregation"
)

func c07ShowF(f float64) string {
	if math.IsNaN(f) {
		return "nan"
	}
	return fmt.Sprintf("%016x", math.Float64bits(f))
}

func c07ShowZ(f float64) string {
	if f == 0 {
		return "0000000000000000"
	}
	return c07ShowF(f)
}

func c07NumFState(n *aggregation.MatchNumerical) string {
	return fmt.Sprintf("n=%d e=%d mean=%s var=%s sd=%s min=%s max=%s", n.Count(), n.ParseErrors(),
		c07ShowF(n.Mean()), c07ShowF(n.Variance()), c07ShowF(n.StdDev()), c07ShowF(n.Min()), c07ShowF(n.Max()))
}

func c07NumFTail(n *aggregation.MatchNumerical, ps []float64) string {
	a := n.Analyze()
	qparts := make([]string, len(ps))
	for i, p := range ps {
		qparts[i] = c07ShowZ(a.Quantile(p))
	}
	return fmt.Sprintf("median=%s mode=%s q[%s]", c07ShowZ(a.Median()), c07ShowZ(a.Mode()), strings.Join(qparts, ","))
}

func c07RunNumF(f []string) string {
	n := aggregation.NewNumericalAggregator(&aggregation.NumericalConfig{Reverse: f[3] == "1", KeepValuesForAnalysis: f[2] == "1"})
	var out []string
	var ps []float64
	if f[1] == "numf" {
		if f[5] != "." {
			for _, q := range strings.Split(f[5], ",") {
				p, err := strconv.ParseFloat(q, 64)
				if err != nil {
					return "bad-args"
				}
				ps = append(ps, p)
			}
		}
		for _, h := range UnHexListS(f[4]) {
			n.Sample(h)
			out = append(out, c07NumFState(n))
		}
	} else {
		if f[5] != "." {
			for _, q := range strings.Split(f[5], ",") {
				b, _ := strconv.ParseUint(q, 16, 64)
				ps = append(ps, math.Float64frombits(b))
			}
		}
		if f[4] != "." {
			for _, h := range strings.Split(f[4], ";") {
				b, _ := strconv.ParseUint(h, 16, 64)
				n.Samplef(math.Float64frombits(b))
				out = append(out, c07NumFState(n))
			}
		}
	}
	out = append(out, c07NumFTail(n, ps))
	return "ok " + strings.Join(out, " | ")
}

// ---------------------------------------------------------------- generator

var c07FSpell = []string{"inf", "+Inf", "-inf", "Infinity", "-INFINITY", "nan", "NaN", "infi", "-nan", "+nan", "1e3", "1E-3", "2.5e+2",
	"1e308", "1.7976931348623157e308", "1.7976931348623159e308", "1e309", "-1e400", "4.9e-324", "2.4e-324", "2.5e-324", "1e-400", "-1e-400",
	"0x10", "0x1p-2", "0x1.8p1", "-0X.8P+3", "0x1p1024", "0x1p-1075", "0x", "0x1", "1_000", "1__0", "_1", "1_", "0x_1p0", "1e1_0", "1p3",
	"-0", "+0", "-0.0", "0e0", "-0e-400", ".5", "5.", ".", "e5", "1e", "1e+", "+.e1", "9007199254740993", "9007199254740992.5",
	"0.1", "0.2", "0.30000000000000004", "123456789012345678901234567890", "1.00000000000000011102230246251565404236316680908203125",
	"1.00000000000000011102230246251565404236316680908203126", "179769313486231580793728971405303415079934132710037826936173778980444968292764750946649017977587207096330286416692887910946555547851940402630657488671505820681908902000708383676273854845817711531764475730270069855571366959622842914819860834936475292719074168444365510704342711559699508093042880177904174497791",
	"179769313486231580793728971405303415079934132710037826936173778980444968292764750946649017977587207096330286416692887910946555547851940402630657488671505820681908902000708383676273854845817711531764475730270069855571366959622842914819860834936475292719074168444365510704342711559699508093042880177904174497792"}

func c07FNumStr(r *Rand) string {
	switch r.Intn(8) {
	case 0:
		return Pick(r, c07FSpell)
	case 1:
		return fmt.Sprintf("%de%d", r.Range(-999, 999), r.Range(-330, 310))
	case 2:
		return fmt.Sprintf("%d.%de%d", r.Range(-9, 9), r.Intn(100000), r.Range(-20, 20))
	case 3:
		return strconv.FormatFloat(math.Float64frombits(r.U64()), 'g', -1, 64)
	default:
		return c07NumStr(r)
	}
}

var c07QSpell = []string{"0", "0.5", "0.25", "0.75", "0.9", "0.99", "1", "0.999", "0.1", "0.3", "0.7", "0.33", "-0.5", "2", "1e300", "-1e300",
	"inf", "-inf", "nan", "0.9999999999999999", "1.0000000000000002", "4.9e-324", "-0", "1e19", "9.3e18", "0.5000000000000001"}

func c07FNumCase(r *Rand) string {
	n := r.Intn(10)
	if r.Chance(1, 8) {
		n = r.Range(10, 40)
	}
	h := make([]string, n)
	for i := range h {
		h[i] = c07FNumStr(r)
	}
	switch r.Intn(8) {
	case 0: // near-constant series (variance cancellation)
		base := r.Range(1000000, 100000000)
		for i := range h {
			h[i] = fmt.Sprintf("%d.%d", base, r.Intn(10))
		}
	case 1: // constant series: mean exactly x, variance exactly 0
		x := c07NumStr(r)
		for i := range h {
			h[i] = x
		}
	case 2: // large offsets
		for i := range h {
			h[i] = fmt.Sprintf("1%de%d", r.Intn(1000), 9+r.Intn(4))
		}
	}
	qs := []string{}
	for i := r.Intn(5); i > 0; i-- {
		qs = append(qs, Pick(r, c07QSpell))
	}
	q := "."
	if len(qs) > 0 {
		q = strings.Join(qs, ",")
	}
	keep, rev := 1, 0
	if r.Chance(1, 10) {
		keep = 0
	}
	if r.Chance(1, 4) {
		rev = 1
	}
	return fmt.Sprintf("agg numf %d %d %s %s", keep, rev, HexListS(h), q)
}

var c07FBits = []uint64{0, 0x8000000000000000, 1, 0x8000000000000001, 0x000fffffffffffff, 0x0010000000000000, 0x3ff0000000000000,
	0xbff0000000000000, 0x3ff0000000000001, 0x3fefffffffffffff, 0x4340000000000000, 0x433fffffffffffff, 0x7fefffffffffffff, 0xffefffffffffffff,
	0x7ff0000000000000, 0xfff0000000000000, 0x7ff8000000000001, 0xfff8000000000000, 0x7ff0000000000001, 0x7fe0000000000000, 0xffe0000000000000,
	0x3fe0000000000000, 0x4000000000000000, 0x3fb999999999999a, 0x43e0000000000000, 0xc3e0000000000000, 0x43dfffffffffffff}

func c07FBitsVal(r *Rand) uint64 {
	switch r.Intn(8) {
	case 0, 1:
		return Pick(r, c07FBits)
	case 2: // any pattern
		return r.U64()
	case 3: // small integers (ties, modes)
		return math.Float64bits(float64(r.Range(-3, 4)))
	case 4: // same binade, low bits differ
		return 0x4090000000000000 + uint64(r.Intn(16))
	case 5: // huge magnitudes: overflow of differences and products
		return math.Float64bits(math.Ldexp(float64(r.Range(-9, 9)), r.Range(1000, 1023)))
	case 6: // tiny magnitudes: underflow
		return math.Float64bits(math.Ldexp(float64(r.Range(-9, 9)), r.Range(-1080, -1000)))
	default:
		return math.Float64bits(float64(r.Range(-1000000, 1000000)) / float64(r.Range(1, 1000)))
	}
}

func c07FvCase(r *Rand) string {
	n := r.Intn(10)
	if r.Chance(1, 10) {
		n = r.Range(10, 30)
	}
	h := make([]string, n)
	for i := range h {
		h[i] = fmt.Sprintf("%016x", c07FBitsVal(r))
	}
	if n > 0 && r.Chance(1, 8) {
		for i := range h {
			h[i] = h[0]
		}
	}
	hs := "."
	if n > 0 {
		hs = strings.Join(h, ";")
	}
	ps := []string{}
	for i := r.Intn(4); i > 0; i-- {
		if r.Chance(1, 2) {
			ps = append(ps, fmt.Sprintf("%016x", math.Float64bits(float64(r.Intn(101))/100)))
		} else {
			ps = append(ps, fmt.Sprintf("%016x", c07FBitsVal(r)))
		}
	}
	p := "."
	if len(ps) > 0 {
		p = strings.Join(ps, ",")
	}
	keep, rev := 1, 0
	if r.Chance(1, 10) {
		keep = 0
	}
	if r.Chance(1, 4) {
		rev = 1
	}
	return fmt.Sprintf("agg numfv %d %d %s %s", keep, rev, hs, p)
}

func c07NumFGen(r *Rand, tier string) []string {
	n := 400
	if tier == "thorough" {
		n = 12000
	}
	var out []string
	for i := 0; i < n; i++ {
		out = append(out, c07FNumCase(r), c07FvCase(r))
	}
	// long runs (150-400 samples of moderate magnitude): the regime of the accumulated-error theorems, bit for bit
	nl := 3
	if tier == "thorough" {
		nl = 30
	}
	for i := 0; i < nl; i++ {
		m := r.Range(150, 400)
		h := make([]string, m)
		fam := r.Intn(3)
		base := float64(r.Range(1000000, 100000000))
		for j := range h {
			var v float64
			switch fam {
			case 0: // near-constant, large offset
				v = base + float64(r.Intn(1000))/1000
			case 1: // decimal fractions of both signs, a few repeated values (modes)
				v = float64(r.Range(-50, 50)) / 10
			default:
				v = float64(r.Range(-1000000, 1000000)) / float64(r.Range(1, 1000))
			}
			h[j] = fmt.Sprintf("%016x", math.Float64bits(v))
		}
		out = append(out, fmt.Sprintf("agg numfv 1 %d %s 3fe0000000000000,3fef5c28f5c28f5c", i%2, strings.Join(h, ";")))
	}
	// every special spelling alone and next to an ordinary number
	for _, s := range c07FSpell {
		out = append(out, "agg numf 1 0 "+HexListS([]string{s})+" 0.5")
		out = append(out, "agg numf 1 1 "+HexListS([]string{"1.5", s, "-2"})+" 0,1")
	}
	return out
}

// c07NumFCorpus: past observations worth keeping (always run first).
var c07NumFCorpus = []string{
	// all samples +Inf: Min() is +Inf (it stayed at the old sentinel MaxFloat64 before fix bda1842); mean goes NaN at the 2nd sample
	"agg numfv 1 0 fff0000000000000 .",
	"agg numfv 1 0 7ff0000000000000;7ff0000000000000 3fe0000000000000",
	// NaN samples never reach min/max, sort first (last when reversed), and each starts a new run in Mode
	"agg numfv 1 0 7ff8000000000001;3ff0000000000000;7ff8000000000001;3ff0000000000000 0000000000000000,3fe0000000000000",
	"agg numfv 1 1 7ff8000000000001;3ff0000000000000;7ff8000000000001;4000000000000000 0000000000000000,3fe0000000000000",
	// overflow of val - oldMean: mean leaves [min, max]
	"agg numfv 1 0 ffefffffffffffff;7fefffffffffffff .",
	// -0 / +0: mean of [-0] is +0 (0 + -0), min keeps the first zero
	"agg numfv 1 0 8000000000000000;0000000000000000 3fe0000000000000",
	// catastrophic cancellation witness of seeded/C07-variance-sumsq
	"agg numf 1 0 " + "313030303030303030302e31;313030303030303030302e32;313030303030303030302e33;313030303030303030302e34" + " 0.5",
	// quantile argument NaN / huge / negative: int() of it is MinInt64 or out of range, clamped
	"agg numfv 1 0 3ff0000000000000;4000000000000000;4008000000000000 7ff8000000000001,7ff0000000000000,fff0000000000000,43e0000000000000,bff0000000000000",
}

func c07NumFStats(f []string, st map[string]int) {
	if f[2] == "0" {
		st[f[1]+".noKeep"]++
	}
	if f[3] == "1" {
		st[f[1]+".reverse"]++
	}
	if f[1] == "numf" {
		for _, e := range UnHexListS(f[4]) {
			v, err := strconv.ParseFloat(e, 64)
			switch {
			case err != nil && strings.Contains(err.Error(), "range"):
				st["numf.sample.rangeError"]++
			case err != nil:
				st["numf.sample.syntaxError"]++
			case math.IsNaN(v):
				st["numf.sample.nan"]++
			case math.IsInf(v, 0):
				st["numf.sample.inf"]++
			case v == 0:
				st["numf.sample.zero"]++
			case math.Abs(v) < 2.2250738585072014e-308:
				st["numf.sample.subnormal"]++
			case strings.ContainsAny(e, "eExXpP_"):
				st["numf.sample.exponentOrHexSpelling"]++
			default:
				st["numf.sample.decimal"]++
			}
		}
		return
	}
	if f[4] == "." {
		st["numfv.empty"]++
		return
	}
	for _, h := range strings.Split(f[4], ";") {
		b, _ := strconv.ParseUint(h, 16, 64)
		v := math.Float64frombits(b)
		switch {
		case math.IsNaN(v):
			st["numfv.sample.nan"]++
		case math.IsInf(v, 0):
			st["numfv.sample.inf"]++
		case v == 0:
			st["numfv.sample.zero"]++
		case math.Abs(v) < 2.2250738585072014e-308:
			st["numfv.sample.subnormal"]++
		case math.Abs(v) > 1e300:
			st["numfv.sample.huge"]++
		default:
			st["numfv.sample.normal"]++
		}
	}
}
