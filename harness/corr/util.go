package main

import (
	"encoding/hex"
	"strings"
)

// Rand is a splitmix64 generator: every random choice of a run derives from one seed.
type Rand struct{ s uint64 }

func NewRand(seed uint64) *Rand { return &Rand{seed} }

func (r *Rand) U64() uint64 {
	r.s += 0x9E3779B97F4A7C15
	z := r.s
	z = (z ^ (z >> 30)) * 0xBF58476D1CE4E5B9
	z = (z ^ (z >> 27)) * 0x94D049BB133111EB
	return z ^ (z >> 31)
}

// Intn returns a value in [0,n).
func (r *Rand) Intn(n int) int {
	if n <= 0 {
		return 0
	}
	return int(r.U64() % uint64(n))
}

// Range returns a value in [lo,hi].
func (r *Rand) Range(lo, hi int) int { return lo + r.Intn(hi-lo+1) }

func (r *Rand) Bool() bool { return r.U64()&1 == 1 }

// Chance returns true with probability num/den.
func (r *Rand) Chance(num, den int) bool { return r.Intn(den) < num }

func Pick[T any](r *Rand, xs []T) T { return xs[r.Intn(len(xs))] }

func hashStr(s string) uint64 {
	var h uint64 = 1469598103934665603
	for i := 0; i < len(s); i++ {
		h ^= uint64(s[i])
		h *= 1099511628211
	}
	return h
}

// Hex encodes a byte string as a protocol field ("-" for the empty string).
func Hex(b []byte) string {
	if len(b) == 0 {
		return "-"
	}
	return hex.EncodeToString(b)
}

func HexS(s string) string { return Hex([]byte(s)) }

func UnHex(s string) []byte {
	if s == "-" {
		return nil
	}
	b, err := hex.DecodeString(s)
	if err != nil {
		panic("bad hex field " + s)
	}
	return b
}

// HexList encodes a list of byte strings ("." for the empty list).
func HexList(l [][]byte) string {
	if len(l) == 0 {
		return "."
	}
	parts := make([]string, len(l))
	for i, b := range l {
		parts[i] = Hex(b)
	}
	return strings.Join(parts, ";")
}

func HexListS(l []string) string {
	bs := make([][]byte, len(l))
	for i, s := range l {
		bs[i] = []byte(s)
	}
	return HexList(bs)
}

func UnHexList(s string) [][]byte {
	if s == "." {
		return nil
	}
	parts := strings.Split(s, ";")
	out := make([][]byte, len(parts))
	for i, p := range parts {
		out[i] = UnHex(p)
	}
	return out
}

func UnHexListS(s string) []string {
	bs := UnHexList(s)
	out := make([]string, len(bs))
	for i, b := range bs {
		out[i] = string(b)
	}
	return out
}
