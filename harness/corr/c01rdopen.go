//go:build c01

package main

import (
	"fmt"
	"io"
	"os"
	"path/filepath"
	"strconv"
	"strings"
	"sync"
	"sync/atomic"
	"syscall"
	"time"

	"rare/cmd/helpers"

	"github.com/urfave/cli/v2"
)

// rdopen <readers> <nfiles>: the real command-line plumbing (`--readers`, helpers.BuildBatcherFromArguments ->
// batchers.OpenFilesToChan) over nfiles FIFOs whose writers hold their data back until the harness releases them:
// how many files the pipeline holds open for reading at the same time once it has settled.  A FIFO's writer gets
// past its open exactly when a reader goroutine has opened the file, so the count is the number of reader
// goroutines running concurrently: min(readers, nfiles) – one more or one less than `--readers` is a mismatch
// (theorems pipeline_reader_bound / pipeline_readers_saturate; Model/C01Flags.configure gives R).
func rdopenRun(f []string) string {
	if len(f) != 3 {
		return "bad-args"
	}
	n, _ := strconv.Atoi(f[2])
	dir := cliDir()
	defer os.RemoveAll(dir)
	defer inDir(dir)()
	args := []string{"app", "test", "--batch", "1", "--batch-buffer", "1", "--workers", "1", "--readers", f[1]}
	var opened int32
	release := make(chan struct{})
	var wg sync.WaitGroup
	for i := 0; i < n; i++ {
		name := fmt.Sprintf("f%04d", i)
		p := filepath.Join(dir, name)
		if err := syscall.Mkfifo(p, 0o644); err != nil {
			return "unmodelled mkfifo " + err.Error()
		}
		args = append(args, name)
		wg.Add(1)
		go func() {
			defer wg.Done()
			w, err := os.OpenFile(p, os.O_WRONLY, 0)
			if err != nil {
				return
			}
			atomic.AddInt32(&opened, 1)
			<-release
			w.Write([]byte("a\n"))
			w.Close()
		}()
	}
	settled := -1
	var read uint64
	ran := false
	action := func(c *cli.Context) error {
		b := helpers.BuildBatcherFromArguments(c)
		ext := helpers.BuildExtractorFromArgumentsEx(c, b, "\t")
		// settled = the count has not changed for 250 ms (and is positive when there are files)
		last, since, deadline := int32(-1), time.Now(), time.Now().Add(8*time.Second)
		for time.Now().Before(deadline) {
			cur := atomic.LoadInt32(&opened)
			if cur != last {
				last, since = cur, time.Now()
			} else if time.Since(since) > 250*time.Millisecond && (cur > 0 || n == 0) {
				break
			}
			time.Sleep(2 * time.Millisecond)
		}
		settled = int(last)
		close(release)
		for range ext.ReadChan() {
		}
		read = ext.ReadLines()
		ran = true
		return nil
	}
	command := helpers.AdaptCommandForExtractor(cli.Command{Name: "test", Action: action})
	command.After = nil
	app := cli.NewApp()
	app.Commands = []*cli.Command{command}
	app.ExitErrHandler = func(*cli.Context, error) {}
	app.Writer, app.ErrWriter = io.Discard, io.Discard
	code, logged := captureFatal(func() { app.Run(args) })
	if !ran {
		// nobody will open the FIFOs: let the writers go
		select {
		case <-release:
		default:
			close(release)
		}
		for i := 0; i < n; i++ {
			if r, err := os.OpenFile(filepath.Join(dir, fmt.Sprintf("f%04d", i)), os.O_RDONLY|syscall.O_NONBLOCK, 0); err == nil {
				defer r.Close()
			}
		}
	}
	wg.Wait()
	if code >= 0 {
		return fmt.Sprintf("usage %d %s", code, HexS(strings.TrimSuffix(strings.TrimPrefix(logged, "[Log] "), "\n")))
	}
	if !ran {
		return "notrun"
	}
	return fmt.Sprintf("ok open=%d read=%d", settled, read)
}

func rdopenGen(r *Rand, tier string) []string {
	combos := [][2]int{{1, 3}, {2, 4}, {3, 2}}
	if tier == "thorough" {
		combos = nil
		for _, rd := range []int{1, 2, 3, 5} {
			for _, n := range []int{0, 1, 2, 3, 4, 6} {
				combos = append(combos, [2]int{rd, n})
			}
		}
	} else {
		combos = append(combos, [2]int{Pick(r, []int{1, 2, 3, 4, 5}), Pick(r, []int{1, 3, 5, 6})})
	}
	var out []string
	for _, c := range combos {
		out = append(out, fmt.Sprintf("rdopen %d %d", c[0], c[1]))
	}
	return out
}
