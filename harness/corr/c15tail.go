//go:build c15

package main

// C15, observation point (b): the batches of batchers.TailFilesToChan.
//
//	tailb <blob>        blob = cfg/history/lens        (ONE field without `,` `;`: the generic shrinker
//	                                                    of `check` leaves it alone – the observed batch
//	                                                    lengths belong to the run that produced them)
//
//	cfg     = via.mode.reopen.tail.batch.buffer.flushms.consumer.cdelay.attempts
//	          via      T  the real batchers.TailFilesToChan(names, batch, buffer, reopen, poll, tail)
//	                      (real AutoFlushTimeout = 250ms, real poll delay): few, slow cases
//	                   V  the real followreader.New(...) [+ Drain] handed to the real
//	                      batchers.VerifOpenReaderToChan(name, r, batch, buffer, flushms) – the same
//	                      syncReaderToBatcherWithTimeFlush with a short flush timeout
//	          consumer f  receives at once          s  sleeps cdelay ms after every batch (lags behind)
//	                   l  does not receive anything before the writer has finished (late)
//	          every consumer copies a batch when it receives it ("recv"), keeps the batch itself
//	          (uncopied) and re-reads ALL batches when everything is over ("late")
//	history = steps joined by `_`
//	          i<hex> | n      (first) the file exists with this content / does not exist
//	          a<hex>          append            p<ms>  pause
//	          w               wait until the follower has delivered everything appended so far
//	          d               w, then remove the file (plain follow: then wait for the end of the stream)
//	          c               create a new empty file
//	          Z<hex>          sentinel: pause > flush timeout, append, wait until the consumer has the line
//	lens    = l1_l2_…  (`.` none)  the lengths of the batches the consumer received in the recorded run:
//	          they are the flush-timer oracle the Lean model is run with.
//
// End of a run: V – the reader handed to the batcher is wrapped; when the follower has delivered every
// appended byte the wrapper answers io.EOF (the stream "ends"), the remainder is flushed and the channel
// is closed.  T, plain follow – the history ends with `d` (the file is removed, the stream ends by itself);
// T, re-open follow – the goroutine cannot be ended (it is left blocked in Read; eof=0, the lines still
// waiting in `batch` are not sent: the model answers with its `live` state).
//
// Answer: ok eof=<follow reader ended by itself> errs=<ReadErrors()> recv=<batches> late=<batches> read=<hex|->
//	batches = start:line,line|start:line   (lines hex)       read = bytes the follower delivered (V only)
// A difference between recv and late is a batch that changed after it was sent.

import (
	"bytes"
	"fmt"
	"io"
	"os"
	"path/filepath"
	"strconv"
	"strings"
	"sync"
	"time"

	"rare/pkg/extractor"
	"rare/pkg/extractor/batchers"
	"rare/pkg/followreader"
)

type c15TailCfg struct {
	via      string
	mode     string
	reopen   bool
	tail     bool
	batch    int
	buffer   int
	flushMs  int
	consumer string
	cdelay   int
	attempts int
}

func (c c15TailCfg) String() string {
	b := func(x bool) int {
		if x {
			return 1
		}
		return 0
	}
	return fmt.Sprintf("%s.%s.%d.%d.%d.%d.%d.%s.%d.%d", c.via, c.mode, b(c.reopen), b(c.tail), c.batch, c.buffer,
		c.flushMs, c.consumer, c.cdelay, c.attempts)
}

func parseC15TailCfg(s string) (c15TailCfg, bool) {
	f := strings.Split(s, ".")
	if len(f) != 10 {
		return c15TailCfg{}, false
	}
	atoi := func(s string) int { n, _ := strconv.Atoi(s); return n }
	return c15TailCfg{via: f[0], mode: f[1], reopen: f[2] == "1", tail: f[3] == "1", batch: atoi(f[4]), buffer: atoi(f[5]),
		flushMs: atoi(f[6]), consumer: f[7], cdelay: atoi(f[8]), attempts: atoi(f[9])}, true
}

// c15Wrap is the io.ReadCloser handed to VerifOpenReaderToChan: it forwards to the real follow reader,
// records what was delivered and can be told to end the stream.
type c15Wrap struct {
	inner     followreader.FollowReader
	mu        sync.Mutex
	cond      *sync.Cond
	delivered []byte
	eof       bool // the follow reader itself reported EOF
	readErr   string
	req       chan []byte
	res       chan c15ReadRes
	stop      chan struct{}
	stopOnce  sync.Once
	closeOnce sync.Once
	beforeEnd func()
}

type c15ReadRes struct {
	n   int
	err error
}

func newC15Wrap(inner followreader.FollowReader) *c15Wrap {
	w := &c15Wrap{inner: inner, req: make(chan []byte), res: make(chan c15ReadRes, 1), stop: make(chan struct{})}
	w.cond = sync.NewCond(&w.mu)
	go func() {
		defer func() { recover() }()
		for p := range w.req {
			n, err := inner.Read(p)
			w.res <- c15ReadRes{n, err}
		}
	}()
	return w
}

func (w *c15Wrap) Read(p []byte) (int, error) {
	select {
	case <-w.stop:
		return 0, io.EOF
	default:
	}
	select {
	case w.req <- p:
	case <-w.stop:
		return 0, io.EOF
	}
	select {
	case r := <-w.res:
		w.mu.Lock()
		if r.n > 0 {
			w.delivered = append(w.delivered, p[:r.n]...)
		}
		if r.err == io.EOF {
			w.eof = true
		} else if r.err != nil {
			w.readErr = r.err.Error()
		}
		w.cond.Broadcast()
		w.mu.Unlock()
		return r.n, r.err
	case <-w.stop:
		return 0, io.EOF
	}
}

func (w *c15Wrap) Close() error {
	w.closeOnce.Do(func() {
		if w.beforeEnd != nil {
			w.beforeEnd()
		}
		w.inner.Close()
	})
	return nil
}

func (w *c15Wrap) end() { w.stopOnce.Do(func() { close(w.stop) }) }

func (w *c15Wrap) waitFor(pred func() bool, max time.Duration) bool {
	deadline := time.Now().Add(max)
	w.mu.Lock()
	defer w.mu.Unlock()
	for !pred() {
		left := time.Until(deadline)
		if left <= 0 {
			return false
		}
		t := time.AfterFunc(left, func() { w.mu.Lock(); w.cond.Broadcast(); w.mu.Unlock() })
		w.cond.Wait()
		t.Stop()
	}
	return true
}

type c15Held struct {
	ref  extractor.InputBatch // exactly as received: never copied
	recv [][]byte             // copy of the lines at the moment of the receive
}

type c15Consumer struct {
	mu     sync.Mutex
	cond   *sync.Cond
	held   []c15Held
	closed bool
	start  chan struct{}
	once   sync.Once
}

func (c *c15Consumer) begin() { c.once.Do(func() { close(c.start) }) }

func (c *c15Consumer) run(ch <-chan extractor.InputBatch, mode string, delay time.Duration) {
	if mode == "l" {
		<-c.start
	}
	for b := range ch {
		cp := make([][]byte, len(b.Batch))
		for i, l := range b.Batch {
			cp[i] = append([]byte{}, l...)
		}
		c.mu.Lock()
		c.held = append(c.held, c15Held{ref: b, recv: cp})
		c.cond.Broadcast()
		c.mu.Unlock()
		if mode == "s" && delay > 0 {
			time.Sleep(delay)
		}
	}
	c.mu.Lock()
	c.closed = true
	c.cond.Broadcast()
	c.mu.Unlock()
}

func (c *c15Consumer) waitFor(pred func() bool, max time.Duration) bool {
	deadline := time.Now().Add(max)
	c.mu.Lock()
	defer c.mu.Unlock()
	for !pred() {
		left := time.Until(deadline)
		if left <= 0 {
			return false
		}
		t := time.AfterFunc(left, func() { c.mu.Lock(); c.cond.Broadcast(); c.mu.Unlock() })
		c.cond.Wait()
		t.Stop()
	}
	return true
}

func (c *c15Consumer) hasLine(line []byte) bool {
	for _, h := range c.held {
		for _, l := range h.recv {
			if bytes.Equal(l, line) {
				return true
			}
		}
	}
	return false
}

type c15TailObs struct {
	eof    bool
	errs   int
	starts []uint64
	srcOK  bool
	recv   [][][]byte
	late   [][][]byte
	read   []byte
	hasRd  bool
	note   string
}

func (o c15TailObs) lens() string {
	if len(o.recv) == 0 {
		return "."
	}
	p := make([]string, len(o.recv))
	for i, b := range o.recv {
		p[i] = strconv.Itoa(len(b))
	}
	return strings.Join(p, "_")
}

func c15RenderBatches(starts []uint64, bs [][][]byte) string {
	if len(bs) == 0 {
		return "."
	}
	p := make([]string, len(bs))
	for i, b := range bs {
		ls := make([]string, len(b))
		for j, l := range b {
			ls[j] = Hex(l)
		}
		p[i] = fmt.Sprintf("%d:%s", starts[i], strings.Join(ls, ","))
	}
	return strings.Join(p, "|")
}

func (o c15TailObs) answer() string {
	if o.note != "" {
		return o.note
	}
	e := 0
	if o.eof {
		e = 1
	}
	rd := "-"
	if o.hasRd {
		rd = Hex(o.read)
	}
	src := ""
	if !o.srcOK {
		src = " source=WRONG"
	}
	return fmt.Sprintf("ok eof=%d errs=%d recv=%s late=%s read=%s%s", e, o.errs, c15RenderBatches(o.starts, o.recv),
		c15RenderBatches(o.starts, o.late), rd, src)
}

// rechunk presents the observation of a re-run (a replay) in the batch boundaries of the recorded run:
// the boundaries depend on the timer, the lines do not.
func (o c15TailObs) rechunk(lens []int) c15TailObs {
	flat := func(bs [][][]byte) [][]byte {
		var out [][]byte
		for _, b := range bs {
			out = append(out, b...)
		}
		return out
	}
	cut := func(ls [][]byte) ([][][]byte, []uint64) {
		var out [][][]byte
		var st []uint64
		pos := 0
		for _, n := range lens {
			if pos >= len(ls) {
				break
			}
			end := pos + n
			if end > len(ls) {
				end = len(ls)
			}
			out = append(out, ls[pos:end])
			st = append(st, uint64(pos+1))
			pos = end
		}
		if pos < len(ls) {
			out = append(out, ls[pos:])
			st = append(st, uint64(pos+1))
		}
		return out, st
	}
	r := o
	r.recv, r.starts = cut(flat(o.recv))
	r.late, _ = cut(flat(o.late))
	return r
}

const c15MaxWait = 1500 * time.Millisecond

var c15TailSeq int

func c15TailRun(cfg c15TailCfg, steps []string) (obs c15TailObs) {
	defer func() {
		if e := recover(); e != nil {
			obs = c15TailObs{note: "panic " + strings.ReplaceAll(fmt.Sprint(e), "\n", " ")}
		}
	}()
	root := os.Getenv("VERIF_WORK")
	if root == "" {
		root = "/verif/work/tmp"
	}
	os.MkdirAll(root, 0o755)
	dir, err := os.MkdirTemp(root, "c15t-")
	if err != nil {
		return c15TailObs{note: "harness-error " + err.Error()}
	}
	defer os.RemoveAll(dir)
	path := filepath.Join(dir, "followed.log")
	if len(steps) > 0 && strings.HasPrefix(steps[0], "i") {
		if err := os.WriteFile(path, UnHex(steps[0][1:]), 0o644); err != nil {
			return c15TailObs{note: "harness-error " + err.Error()}
		}
	}
	poll := cfg.mode == "poll"

	var b *batchers.Batcher
	var w *c15Wrap
	if cfg.via == "V" {
		r, err := followreader.New(path, cfg.reopen, poll)
		if err != nil {
			return c15TailObs{note: "ok newerr"}
		}
		if pr, ok := r.(*followreader.PollingFollowReader); ok {
			pr.PollDelay = time.Millisecond
			pr.ReadAttempts = cfg.attempts
		}
		if cfg.tail {
			if err := r.Drain(); err != nil {
				r.Close()
				return c15TailObs{note: "ok drainerr"}
			}
		}
		w = newC15Wrap(r)
		w.beforeEnd = func() {
			if pr, ok := r.(*followreader.PollingFollowReader); ok {
				pr.PollDelay = time.Hour // the abandoned Read must not keep spinning
			}
		}
		b = batchers.VerifOpenReaderToChan(path, w, cfg.batch, cfg.buffer, time.Duration(cfg.flushMs)*time.Millisecond)
	} else {
		names := make(chan string, 1)
		names <- path
		close(names)
		b = batchers.TailFilesToChan(names, cfg.batch, cfg.buffer, cfg.reopen, poll, cfg.tail)
		// the goroutine opens the file, starts the watcher and drains asynchronously: wait until it follows
		deadline := time.Now().Add(c15MaxWait)
		for b.ActiveFileCount() == 0 && b.ReadErrors() == 0 && time.Now().Before(deadline) {
			time.Sleep(200 * time.Microsecond)
		}
	}

	cons := &c15Consumer{start: make(chan struct{})}
	cons.cond = sync.NewCond(&cons.mu)
	go cons.run(b.BatchChan(), cfg.consumer, time.Duration(cfg.cdelay)*time.Millisecond)

	var last []byte
	expect := 0 // bytes the follower must have delivered when it has caught up
	if len(steps) > 0 && strings.HasPrefix(steps[0], "i") && !cfg.tail {
		expect = len(UnHex(steps[0][1:]))
	}
	exists := func() bool { _, err := os.Lstat(path); return err == nil }
	appendBytes := func(bs []byte) {
		fh, err := os.OpenFile(path, os.O_WRONLY|os.O_APPEND, 0)
		if err != nil {
			return
		}
		if len(bs) > 0 {
			fh.Write(bs)
			last = bs
			expect += len(bs)
		}
		fh.Close()
	}
	settle := 20 * time.Millisecond
	if poll {
		settle = 320 * time.Millisecond
	}
	drain := func() {
		cons.begin()
		if last == nil {
			return
		}
		if w != nil {
			want := expect
			if !w.waitFor(func() bool { return w.eof || len(w.delivered) >= want }, c15MaxWait) {
				c15Counters["tail.wait.expired"]++
			}
			return
		}
		time.Sleep(settle)
	}
	ended := func() bool {
		if w != nil {
			w.mu.Lock()
			defer w.mu.Unlock()
			return w.eof
		}
		cons.mu.Lock()
		defer cons.mu.Unlock()
		return cons.closed
	}
	waitEnd := func(max time.Duration) {
		if w != nil {
			w.waitFor(func() bool { return w.eof }, max)
			return
		}
		cons.waitFor(func() bool { return cons.closed }, max)
	}
	endWait := c15MaxWait
	if poll && cfg.via == "T" {
		endWait = 3 * time.Second // ReadAttempts x PollDelay = 1.25s before the poller looks
	}
	for i, st := range steps {
		if st == "" || (i == 0 && (st == "n" || st[0] == 'i')) {
			continue
		}
		arg := st[1:]
		switch st[0] {
		case 'a':
			appendBytes(UnHex(arg))
		case 'p':
			ms, _ := strconv.Atoi(arg)
			time.Sleep(time.Duration(ms) * time.Millisecond)
		case 'w':
			drain()
		case 'd':
			drain()
			if exists() {
				os.Remove(path)
				if !cfg.reopen {
					waitEnd(endWait)
				}
			}
		case 'c':
			if fh, err := os.OpenFile(path, os.O_WRONLY|os.O_CREATE|os.O_EXCL, 0o644); err == nil {
				fh.Close()
			}
		case 'Z':
			cons.begin()
			line := UnHex(arg)
			flush := time.Duration(cfg.flushMs) * time.Millisecond
			if cfg.via == "T" {
				flush = batchers.AutoFlushTimeout
			}
			time.Sleep(flush + flush/4 + 2*time.Millisecond)
			appendBytes(append(append([]byte{}, line...), '\n'))
			if !cons.waitFor(func() bool { return cons.closed || cons.hasLine(line) }, c15MaxWait) {
				c15Counters["tail.sentinel.expired"]++
			}
		}
	}
	cons.begin()
	// end of the history
	natural := ended()
	if w != nil {
		if !natural && last != nil {
			want := expect
			if !w.waitFor(func() bool { return w.eof || len(w.delivered) >= want }, c15MaxWait) {
				c15Counters["tail.final.expired"]++
			}
		}
		// a grace period in which a duplicate delivery would show up
		grace := 3 * time.Millisecond
		if poll {
			grace = time.Duration(4*(cfg.attempts+2)) * time.Millisecond
		}
		time.Sleep(grace)
		w.mu.Lock()
		natural = w.eof
		w.mu.Unlock()
		w.end()
		if !cons.waitFor(func() bool { return cons.closed }, 2*c15MaxWait) {
			c15Counters["tail.close.expired"]++
		}
	} else {
		if !cfg.reopen && !exists() {
			// plain follow through TailFilesToChan: the stream ends when the file has gone away (step `d`)
			if !cons.waitFor(func() bool { return cons.closed }, endWait) {
				c15Counters["tail.close.expired"]++
			}
		} else {
			time.Sleep(settle)
		}
		natural = ended()
	}
	// late consumption: everything is over, re-read every batch that was received
	cons.mu.Lock()
	obs = c15TailObs{eof: natural, errs: b.ReadErrors(), srcOK: true}
	for _, h := range cons.held {
		obs.starts = append(obs.starts, h.ref.BatchStart)
		if h.ref.Source != path {
			obs.srcOK = false
		}
		obs.recv = append(obs.recv, h.recv)
		lt := make([][]byte, len(h.ref.Batch))
		for i, l := range h.ref.Batch {
			lt[i] = append([]byte{}, l...)
		}
		obs.late = append(obs.late, lt)
	}
	cons.mu.Unlock()
	if w != nil {
		w.mu.Lock()
		obs.read = append([]byte{}, w.delivered...)
		obs.hasRd = true
		if w.readErr != "" {
			obs.note = "readerr " + w.readErr
		}
		w.mu.Unlock()
	}
	return obs
}

var c15TailAnswers = map[string]string{}

func c15SplitBlob(blob string) (c15TailCfg, []string, []int, bool) {
	parts := strings.Split(blob, "/")
	if len(parts) != 3 {
		return c15TailCfg{}, nil, nil, false
	}
	cfg, ok := parseC15TailCfg(parts[0])
	if !ok {
		return cfg, nil, nil, false
	}
	steps := strings.Split(parts[1], "_")
	var lens []int
	if parts[2] != "." {
		for _, l := range strings.Split(parts[2], "_") {
			n, err := strconv.Atoi(l)
			if err != nil {
				return cfg, nil, nil, false
			}
			lens = append(lens, n)
		}
	}
	return cfg, steps, lens, true
}

// c15TailCase runs the real code once and returns the case line whose `lens` are the observed ones.
func c15TailCase(cfg c15TailCfg, steps []string) string {
	obs := c15TailRun(cfg, steps)
	cs := "tailb " + cfg.String() + "/" + strings.Join(steps, "_") + "/" + obs.lens()
	c15TailAnswers[cs] = obs.answer()
	return cs
}

// c15TailReplay: a case that was not produced by this process (corpus, replay): the real code runs again;
// its batches are shown in the recorded boundaries.
func c15TailReplay(f []string) string {
	if a, ok := c15TailAnswers[strings.Join(f, " ")]; ok {
		return a
	}
	cfg, steps, lens, ok := c15SplitBlob(f[1])
	if !ok {
		return "bad-blob"
	}
	obs := c15TailRun(cfg, steps)
	if obs.note != "" {
		return obs.note
	}
	same := len(lens) == len(obs.recv)
	for i := 0; same && i < len(lens); i++ {
		same = lens[i] == len(obs.recv[i])
	}
	if !same {
		obs = obs.rechunk(lens)
	}
	return obs.answer()
}

// ---------------------------------------------------------------- generator

type c15TailGen struct {
	r     *Rand
	k     int
	steps []string
}

func (g *c15TailGen) add(s string) { g.steps = append(g.steps, s) }

var c15LineAlpha = []byte{'a', 'b', 'z', ' ', 0x00, 0xff, 0xc3, 0xa9, '"', '\r', 'q'}

// text produces n line-ish pieces: numbered lines, CRLF lines, empty lines; `open` leaves the last one unterminated
func (g *c15TailGen) text(lines int, open bool) []byte {
	var b []byte
	for i := 0; i < lines; i++ {
		g.k++
		switch g.r.Intn(8) {
		case 0: // empty line
		case 1:
			b = append(b, []byte(fmt.Sprintf("L%03d", g.k%1000))...)
			b = append(b, '\r')
		default:
			b = append(b, []byte(fmt.Sprintf("L%03d:", g.k%1000))...)
			n := g.r.Range(0, 9)
			if g.r.Chance(1, 40) {
				n = 3000
			}
			for j := 0; j < n; j++ {
				b = append(b, Pick(g.r, c15LineAlpha))
			}
		}
		if !(open && i == lines-1) {
			b = append(b, '\n')
		}
	}
	return b
}

// trickle: appends with the timing the batching loop is sensitive to
func (g *c15TailGen) trickle(n int, longPause func() int) {
	for i := 0; i < n; i++ {
		switch g.r.Intn(6) {
		case 0: // burst of complete lines
			g.add("a" + Hex(g.text(g.r.Range(2, 6), false)))
		case 1: // a line in two pieces, completed later
			g.add("a" + Hex(g.text(1, true)))
			if g.r.Bool() {
				g.add(fmt.Sprintf("p%d", longPause()))
			}
			g.add("a" + Hex(append(g.text(1, true), '\n')))
		default: // single line
			g.add("a" + Hex(g.text(1, false)))
		}
		switch g.r.Intn(4) {
		case 0: // no pause: the next line arrives while the batch that was just flushed is still queued
		case 1:
			g.add("p0")
		default:
			g.add(fmt.Sprintf("p%d", longPause()))
		}
	}
}

func c15GenTailV(r *Rand) (c15TailCfg, []string) {
	g := &c15TailGen{r: r}
	cfg := c15TailCfg{via: "V", mode: Pick(r, []string{"notify", "notify", "poll"}), reopen: r.Bool(), tail: r.Chance(1, 3),
		batch: Pick(r, []int{1, 2, 2, 3, 5, 1000}), buffer: Pick(r, []int{0, 1, 2, 8, 64}), flushMs: Pick(r, []int{2, 3}),
		consumer: Pick(r, []string{"f", "s", "s", "l"}), cdelay: Pick(r, []int{1, 3, 8}), attempts: Pick(r, []int{1, 2, 3})}
	if cfg.consumer == "l" {
		cfg.buffer = Pick(r, []int{8, 64, 64})
	}
	long := func() int { return cfg.flushMs + r.Range(1, 4) }
	absent := cfg.reopen && r.Chance(1, 8)
	switch {
	case absent:
		g.add("n")
	case r.Chance(1, 4):
		g.add("i-")
	default:
		g.add("i" + Hex(g.text(r.Range(1, 3), r.Chance(1, 4))))
	}
	if absent {
		g.add("c")
		g.k++
		g.add("a" + HexS(fmt.Sprintf("%03d!", g.k%1000)))
		g.add("w")
	}
	g.trickle(r.Range(2, 7), long)
	shape := r.Intn(10)
	switch {
	case shape < 6: // in place
	case shape < 8: // ends with an unterminated line
		g.add("a" + Hex(g.text(1, true)))
	default: // removal after drain; re-open: rotation
		g.add("a" + Hex(g.text(1, false)))
		g.add("d")
		if cfg.reopen {
			if r.Bool() {
				g.add(fmt.Sprintf("p%d", r.Range(0, 6)))
			}
			g.add("c")
			g.k++
			g.add("a" + HexS(fmt.Sprintf("%03d!", g.k%1000)))
			g.add("w")
			g.trickle(r.Range(1, 3), long)
		}
	}
	return cfg, g.steps
}

func c15GenTailT(r *Rand, poll bool, reopen bool) (c15TailCfg, []string) {
	g := &c15TailGen{r: r, k: 500}
	cfg := c15TailCfg{via: "T", mode: "notify", reopen: reopen, tail: r.Chance(1, 3), batch: Pick(r, []int{2, 5, 1000}),
		buffer: Pick(r, []int{2, 8}), flushMs: 250, consumer: Pick(r, []string{"f", "s", "l"}), cdelay: 40, attempts: 5}
	if poll {
		cfg.mode = "poll"
	}
	if r.Chance(1, 4) {
		g.add("i-")
	} else {
		g.add("i" + Hex(g.text(r.Range(1, 3), false)))
	}
	long := func() int { return 255 + r.Range(5, 40) }
	n := 2
	if poll {
		n = 1
	}
	for i := 0; i < n; i++ {
		if r.Bool() {
			g.add("a" + Hex(g.text(r.Range(1, 3), false)))
		}
		g.add(fmt.Sprintf("p%d", long()))
		g.add("a" + Hex(g.text(1, false))) // arrives after the timer has expired: flushed short …
		if !poll {
			g.add("a" + Hex(g.text(r.Range(1, 2), r.Chance(1, 3)))) // … and more lines right behind it
			if r.Chance(1, 2) {
				g.add("p1")
				g.add("a" + Hex(g.text(1, false)))
			}
		}
	}
	if !strings.HasSuffix(g.steps[len(g.steps)-1], "0a") {
		g.add("a0a")
	}
	g.k++
	g.add("Z" + HexS(fmt.Sprintf("END%03d", g.k%1000)))
	if !reopen {
		g.add("d") // plain follow: the stream ends with the removal of the (drained) file
	}
	return cfg, g.steps
}

func c15TailGenAll(r *Rand, tier string) []string {
	nV, nTn, nTp := 110, 4, 2
	if tier == "thorough" {
		nV, nTn, nTp = 1600, 36, 12
	}
	var out []string
	for i := 0; i < nTn; i++ {
		cfg, steps := c15GenTailT(r, false, i%3 == 2) // re-open runs leave a goroutine and an inotify instance behind
		out = append(out, c15TailCase(cfg, steps))
	}
	for i := 0; i < nTp; i++ {
		cfg, steps := c15GenTailT(r, true, i%2 == 1)
		out = append(out, c15TailCase(cfg, steps))
	}
	for i := 0; i < nV; i++ {
		cfg, steps := c15GenTailV(r)
		out = append(out, c15TailCase(cfg, steps))
	}
	return out
}

func c15TailStats(st map[string]int, c string) {
	f := strings.Fields(c)
	if len(f) < 2 {
		return
	}
	cfg, steps, lens, ok := c15SplitBlob(f[1])
	if !ok {
		return
	}
	st["tailb.cases"]++
	st["tailb.via."+cfg.via]++
	st["tailb.mode."+cfg.mode]++
	st["tailb.consumer."+cfg.consumer]++
	st["tailb.batch."+strconv.Itoa(cfg.batch)]++
	if cfg.reopen {
		st["tailb.reopen"]++
	}
	if cfg.tail {
		st["tailb.tail"]++
	}
	st["tailb.batches"] += len(lens)
	for i, l := range lens {
		if l < cfg.batch && i < len(lens)-1 {
			st["tailb.short_batches_by_timer"]++
		}
	}
	for _, s := range steps {
		switch {
		case s == "d":
			st["tailb.history.remove_after_drain"]++
		case strings.HasPrefix(s, "a"):
			st["tailb.appends"]++
		}
	}
}
