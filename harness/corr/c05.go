//go:build c05

package main

import (
	"fmt"
	"os"
	"sort"
	"strconv"
	"strings"
	"sync"
	"sync/atomic"
	"time"

	"rare/cmd/helpers"
	"rare/pkg/aggregation"
	"rare/pkg/extractor"
	"rare/pkg/extractor/batchers"
)

// watchedCounter wraps the real MatchCounter: it flags the time spent inside Sample so that the
// render callback can detect an overlap (and the other way round).
type watchedCounter struct {
	*aggregation.MatchCounter
	inSample, inRender int32
	overlap            int32
	delayEvery         int
	n                  int
}

func (w *watchedCounter) Sample(ele string) {
	atomic.StoreInt32(&w.inSample, 1)
	if atomic.LoadInt32(&w.inRender) != 0 {
		atomic.StoreInt32(&w.overlap, 1)
	}
	w.n++
	if w.delayEvery > 0 && w.n%w.delayEvery == 0 {
		time.Sleep(50 * time.Microsecond)
	}
	w.MatchCounter.Sample(ele)
	if atomic.LoadInt32(&w.inRender) != 0 {
		atomic.StoreInt32(&w.overlap, 1)
	}
	atomic.StoreInt32(&w.inSample, 0)
}

func c05Run(f []string) string {
	if f[0] == "atrace" {
		return aggTraceRun(f)
	}
	if ans, ok := c05LocksetRun(f); ok {
		return ans
	}
	if ans, ok := c05StageRun(f); ok {
		return ans
	}
	if f[0] == "sigagg" {
		return c05SigAgg(f)
	}
	if f[0] == "logger" {
		return c05Logger(f)
	}
	if f[0] == "logerr" {
		return c05LogErr(f)
	}
	if f[0] == "closelag" {
		return c05CloseLag(f)
	}
	if f[0] == "closeord" {
		return c05CloseOrd(f)
	}
	if f[0] == "srccount" {
		return c05SrcCount(f)
	}
	if f[0] == "strace" {
		return c05SigTraceRun(f)
	}
	if f[0] != "agg" {
		return "bad-op"
	}
	// agg <inputs> <workers> <batch> <buffer> <script> <delayEvery>
	atoi := func(s string) int { n, _ := strconv.Atoi(s); return n }
	inputs := UnHexList(f[1])
	var data []byte
	if len(inputs) > 0 {
		data = append(data, inputs[0]...)
	}
	rd := &scriptedReader{rest: data, script: parseScript(f[5])}
	b := batchers.VerifOpenReaderToChan("s0", rd, atoi(f[3]), atoi(f[4]), 2*time.Millisecond)
	ig, _ := extractor.NewIgnoreExpressions("{1}")
	ext, err := extractor.New(b.BatchChan(), &extractor.Config{Matcher: harnessMatcher{}, Extract: "{0}", Workers: atoi(f[2]), Ignore: ig})
	if err != nil {
		panic(err)
	}
	w := &watchedCounter{MatchCounter: aggregation.NewCounter(), delayEvery: atoi(f[6])}
	renderDelay := 200 * time.Microsecond
	if len(f) > 7 {
		renderDelay = time.Duration(atoi(f[7])) * time.Millisecond
	}
	var rendersInFlight int32
	type snap struct {
		counts  map[string]int64
		matched uint64
	}
	var mu sync.Mutex
	var snaps []snap
	render := func() {
		if atomic.AddInt32(&rendersInFlight, 1) > 1 {
			atomic.StoreInt32(&w.overlap, 1) // two writeOutput calls at the same time
		}
		defer atomic.AddInt32(&rendersInFlight, -1)
		atomic.StoreInt32(&w.inRender, 1)
		if atomic.LoadInt32(&w.inSample) != 0 {
			atomic.StoreInt32(&w.overlap, 1)
		}
		// matched total is read first, as the renderers' status line may be computed at any point of the render
		s := snap{counts: map[string]int64{}}
		for _, it := range w.MatchCounter.Items() {
			s.counts[it.Name] = it.Item.Count()
		}
		s.matched = ext.MatchedLines()
		time.Sleep(renderDelay)
		if atomic.LoadInt32(&w.inSample) != 0 {
			atomic.StoreInt32(&w.overlap, 1)
		}
		atomic.StoreInt32(&w.inRender, 0)
		mu.Lock()
		snaps = append(snaps, s)
		mu.Unlock()
	}
	helpers.RunAggregationLoop(ext, w, render)
	if len(snaps) == 0 {
		return "no-final-render"
	}
	final := snaps[len(snaps)-1]
	rendersOK := 1
	for _, s := range snaps {
		var sum int64
		for k, v := range s.counts {
			sum += v
			if v > final.counts[k] {
				rendersOK = 0
			}
		}
		if uint64(sum) > s.matched {
			rendersOK = 0
		}
	}
	keys := make([]string, 0, len(final.counts))
	for k := range final.counts {
		keys = append(keys, k)
	}
	sort.Strings(keys)
	parts := make([]string, len(keys))
	for i, k := range keys {
		parts[i] = fmt.Sprintf("%s=%d", HexS(k), final.counts[k])
	}
	body := "."
	if len(parts) > 0 {
		body = strings.Join(parts, ",")
	}
	c05Renders += len(snaps)
	return fmt.Sprintf("ok final=%s matched=%d renders_ok=%d excl_ok=%d", body, ext.MatchedLines(), rendersOK, 1-int(atomic.LoadInt32(&w.overlap)))
}

var c05Renders int

func c05Gen(r *Rand, tier string) []string {
	if os.Getenv("VERIF_C05_ONLY") == "trace" { // stress runs of the trace tie alone
		return aggTraceGen(r, tier)
	}
	if os.Getenv("VERIF_C05_ONLY") == "strace" { // the signal-path trace tie and the forced close schedule alone
		return append(c05SigTraceGen(r, tier), c05CloseOrdGen(r, tier)...)
	}
	if os.Getenv("VERIF_C05_ONLY") == "stages" { // the schedule search alone
		return append(c05StageCases(r, "search", []string{"d"}), c05LocksetGen(r, tier)...)
	}
	n := 14
	if tier == "thorough" {
		n = 150
	}
	var out []string
	for i := 0; i < n; i++ {
		lines := Pick(r, []int{0, 1, 5, 40, 200, 600})
		data := genLinesSmallKeys(r, lines)
		var steps []string
		// slow reader: spread the input over ~0–350ms so that the 100ms ticker renders in between
		chunks := Pick(r, []int{1, 3, 8, 20})
		slow := r.Chance(2, 3)
		per := len(data)/chunks + 1
		for k := 0; k < chunks; k++ {
			st := fmt.Sprintf("%d:n", per)
			if slow {
				st += fmt.Sprintf(":%d", Pick(r, []int{5, 20, 40, 120}))
			}
			steps = append(steps, st)
		}
		out = append(out, fmt.Sprintf("agg %s %d %d %d %s %d", HexList([][]byte{data}), Pick(r, []int{1, 2, 4, 8, 0}), // 0 = the default of Config.getWorkerCount (2)
			Pick(r, []int{1, 2, 7, 1000}), Pick(r, []int{1, 2, 4}), strings.Join(steps, ","), Pick(r, []int{0, 1, 5})))
	}
	// slow renders with the input ending while the periodic render is still running: the final render
	// must wait for it (the unbuffered outputDone hand-shake)
	ns := 3
	if tier == "thorough" {
		ns = 25
	}
	for i := 0; i < ns; i++ {
		data := genLinesSmallKeys(r, Pick(r, []int{3, 20}))
		// everything is delivered at once; the reader then stalls and reports EOF while the 100ms render runs
		script := fmt.Sprintf("%d:n,0:n:%d", len(data)+1, Pick(r, []int{103, 108, 115, 125}))
		out = append(out, fmt.Sprintf("agg %s %d %d %d %s %d %d", HexList([][]byte{data}), Pick(r, []int{1, 2}), 1, 1, script, 0, Pick(r, []int{50, 70})))
	}
	out = append(out, c05LocksetGen(r, tier)...)
	out = append(out, c05StageCases(r, tier, []string{"d"})...)
	out = append(out, c05SigGen(r, tier)...)
	out = append(out, c05LoggerGen(r, tier)...)
	out = append(out, c05CloseOrdGen(r, tier)...)
	out = append(out, c05SrcCountGen(r, tier)...)
	out = append(out, c05SigTraceGen(r, tier)...)
	return append(out, aggTraceGen(r, tier)...)
}

func genLinesSmallKeys(r *Rand, n int) []byte {
	var sb strings.Builder
	keys := []string{"a", "b", "cc", "x", "k:v", "", "dd d"}
	for i := 0; i < n; i++ {
		sb.WriteString(Pick(r, keys))
		sb.WriteString("\n")
	}
	return []byte(sb.String())
}

func c05Stats(cases []string) map[string]int {
	st := map[string]int{"renders.total": c05Renders}
	for _, c := range cases {
		f := strings.Fields(c)
		if f[0] == "atrace" {
			traceStats(st, c)
			continue
		}
		if c05LocksetStats(st, c) {
			continue
		}
		if f[0] == "closelag" {
			st["closelag.cases"]++
			continue
		}
		if f[0] == "atrace" {
			st["atrace.jittered_runs.total"] = c05JitterRuns
		}
		if f[0] == "strace" {
			st["strace.cases"]++
			if len(f) > 2 && strings.HasPrefix(f[2], "1.") {
				st["strace.signalled"]++
			}
			st["strace.events.total"] = c05SigTraceEvents
			continue
		}
		if f[0] == "srccount" {
			st["srccount.cases"]++
			st["srccount.status_samples.total"] = c05SrcCountSamples
			continue
		}
		if f[0] == "closeord" {
			st["closeord.cases"]++
			if f[3] == "0" {
				st["closeord.follow"]++
			}
			st["closeord.readers_held.total"] = c05CloseOrdHeld
			continue
		}
		if f[0] == "logger" || f[0] == "logerr" {
			st[f[0]+".cases"]++
			st["logger.lines.total"] = c05LogLines
			continue
		}
		if f[0] == "sigagg" {
			st["sigagg.cases"]++
			st["sigagg.sampled_before_return.total"] = c05SigSampled
			continue
		}
		if f[0] == "stages" {
			st["stages.cases"]++
			st["stages.workers."+f[2]]++
			st["stages.evaluations.total"] = int(c05StageEvals)
			continue
		}
		st["workers."+f[2]]++
		if strings.Contains(f[5], ":n:") {
			st["slowReader"]++
		}
	}
	return st
}

func init() {
	Register("C05", &Prop{Gen: c05Gen, Run: c05Run, Stats: c05Stats, Timeout: 60 * time.Second})
}
