//go:build c08

package main

// C08, the time helpers inside the shared expression model (`exprt` op):
//
//	exprt <time world> <opt> <template> <elems> <keys>
//
// The real side compiles and evaluates the template as `expr` does.  The model (Funcs/TimeW.lean) needs what
// Go's zone database and the dateparse library answer; the generator asks the real libraries and passes the
// answers in the first field (format: lean/Rare/Drv/C08Time.lean): for every zone name of the template whether
// time.LoadLocation accepts it, the location's zone list and the periods of Location.lookup around the
// instants the case is about; dateparse.ParseFormat / ParseIn for the strings the date argument evaluates
// to.  Whatever the model asks beside these tables it answers `unmodelled …`.

import (
	"fmt"
	"reflect"
	"sort"
	"strconv"
	"strings"
	"time"
	_ "time/tzdata"

	"github.com/araddon/dateparse"
)

var c08tZoneNames = []string{
	"", "utc", "UTC", "Utc", "local", "Local", "LOCAL",
	"Etc/GMT+5", "Etc/GMT-14", "Asia/Kolkata", "Asia/Kathmandu", "Asia/Tokyo",
	"America/New_York", "Europe/Berlin", "Europe/London", "Europe/Dublin", "Australia/Sydney", "Australia/Lord_Howe",
	"America/Sao_Paulo", "America/St_Johns", "Pacific/Apia", "Africa/Casablanca", "Asia/Tehran", "Africa/Monrovia", "Europe/Moscow",
	// not accepted by LoadLocation
	"america/new_york ", "Mars/Olympus", "asdf", "+02:00", "EST5", "utc ", "Europe",
}

type c08tZone struct {
	arg string
	loc *time.Location
	ok  bool
}

func c08tLoad(arg string) c08tZone {
	switch strings.ToUpper(arg) {
	case "", "UTC":
		return c08tZone{arg, time.UTC, true}
	case "LOCAL":
		return c08tZone{arg, time.Local, true}
	}
	loc, err := time.LoadLocation(arg)
	if err != nil {
		return c08tZone{arg, time.UTC, false}
	}
	return c08tZone{arg, loc, true}
}

// c08tZoneList: the zone list of a *time.Location in its internal order (Location.lookupName walks it) – read
// through reflection, the public API does not expose it.
func c08tZoneList(loc *time.Location) string {
	time.Unix(0, 0).In(loc).Zone() // forces time.Local to load
	v := reflect.ValueOf(loc).Elem().FieldByName("zone")
	if !v.IsValid() || v.Len() == 0 {
		return "."
	}
	var parts []string
	for i := 0; i < v.Len(); i++ {
		z := v.Index(i)
		parts = append(parts, fmt.Sprintf("%s:%d", HexS(z.FieldByName("name").String()), z.FieldByName("offset").Int()))
	}
	return strings.Join(parts, "|")
}

const c08tYear = int64(366 * 86400)

// c08tPeriods: the periods of Location.lookup that meet [u-2y, u+2y] for the given instants (all of them for a
// location with few periods).
func c08tPeriods(loc *time.Location, instants []int64) string {
	type per struct {
		s, e string
		name string
		off  int
	}
	seen := map[string]bool{}
	var out []string
	scan := func(from, to int64) {
		t := time.Unix(from, 0).In(loc)
		for i := 0; i < 64; i++ {
			s, e := t.ZoneBounds()
			name, off := t.Zone()
			ss, es := "a", "o"
			if !s.IsZero() {
				ss = strconv.FormatInt(s.Unix(), 10)
			}
			if !e.IsZero() {
				es = strconv.FormatInt(e.Unix(), 10)
			}
			rec := fmt.Sprintf("%s:%s:%s:%d", ss, es, HexS(name), off)
			if !seen[rec] {
				seen[rec] = true
				out = append(out, rec)
			}
			if e.IsZero() || e.Unix() > to {
				break
			}
			if e.Unix() > t.Unix() {
				t = e
			} else {
				// Location.lookup at the first second of a year beyond the last transition reports the
				// previous period (end == sec): step over it
				t = t.Add(24 * time.Hour)
			}
		}
	}
	for _, u := range instants {
		if u < -(1<<55) || u > 1<<55 {
			scan(u, u)
			continue
		}
		scan(u-2*c08tYear, u+2*c08tYear)
	}
	if len(out) == 0 {
		scan(0, 0)
	}
	return strings.Join(out, "|")
}

// a case under construction
type c08tCase struct {
	tmpl     string
	el       []string
	zones    map[string]bool // zone arguments written in the template
	instants []int64
	strs     []string // values of date arguments: dateparse is asked about them
	reliable bool
}

func c08tNew() *c08tCase { return &c08tCase{zones: map[string]bool{}, reliable: true} }

func (c *c08tCase) arg(r *Rand, v string, constOnly bool) string {
	return c08Arg(r, v, &c.el, constOnly)
}

func (c *c08tCase) zone(r *Rand, z c08tZone, constOnly bool) string {
	c.zones[z.arg] = true
	return c08Arg(r, z.arg, &c.el, constOnly)
}

// bareZone: the zone as an unquoted token (inside a quoted sub-template)
func (c *c08tCase) bareZone(z c08tZone) string {
	if z.arg == "" || strings.ContainsAny(z.arg, " \"\\{}") {
		c.zones["utc"] = true
		return "utc"
	}
	c.zones[z.arg] = true
	return z.arg
}

func (c *c08tCase) blob() string {
	var recs []string
	names := []string{}
	for z := range c.zones {
		names = append(names, z)
	}
	sort.Strings(names)
	needLocal := false
	for _, n := range names {
		switch strings.ToUpper(n) {
		case "", "UTC":
			continue
		case "LOCAL":
			needLocal = true
			continue
		}
		z := c08tLoad(n)
		if !z.ok {
			recs = append(recs, fmt.Sprintf("Z,%s,0,.,.", HexS(n)))
			continue
		}
		recs = append(recs, fmt.Sprintf("Z,%s,1,%s,%s", HexS(n), c08tZoneList(z.loc), c08tPeriods(z.loc, c.instants)))
	}
	if needLocal {
		recs = append(recs, fmt.Sprintf("L,%s,%s", c08tZoneList(time.Local), c08tPeriods(time.Local, c.instants)))
	}
	seenD := map[string]bool{}
	for _, s := range c.strs {
		if seenD[s] {
			continue
		}
		seenD[s] = true
		if l, err := dateparse.ParseFormat(s); err == nil {
			recs = append(recs, fmt.Sprintf("D,%s,%s", HexS(s), HexS(l)))
		} else {
			recs = append(recs, fmt.Sprintf("D,%s,!", HexS(s)))
		}
		keys := map[string]*time.Location{"": time.UTC}
		for _, n := range names {
			switch strings.ToUpper(n) {
			case "", "UTC":
			case "LOCAL":
				keys["Local"] = time.Local
			default:
				if z := c08tLoad(n); z.ok {
					keys[n] = z.loc
				}
			}
		}
		ks := []string{}
		for k := range keys {
			ks = append(ks, k)
		}
		sort.Strings(ks)
		for _, k := range ks {
			if t, err := dateparse.ParseIn(s, keys[k]); err == nil {
				_, off := t.Zone()
				recs = append(recs, fmt.Sprintf("A,%s,%s,%d:%d:%d", HexS(k), HexS(s), t.Unix(), t.Nanosecond(), off))
			} else {
				recs = append(recs, fmt.Sprintf("A,%s,%s,!", HexS(k), HexS(s)))
			}
		}
	}
	if !c.reliable {
		recs = append(recs, "R,0")
	}
	if len(recs) == 0 {
		return "-"
	}
	return strings.Join(recs, "/")
}

func (c *c08tCase) line(r *Rand) string {
	return fmt.Sprintf("exprt %s %d %s %s .", c.blob(), r.Intn(2), HexS(normTemplate(c.tmpl)), HexListS(c.el))
}

// ---------------------------------------------------------------- values

var c08tNamed = []string{"", "ANSIC", "UNIX", "RUBY", "RFC822", "RFC822Z", "RFC1123", "RFC1123Z", "RFC3339", "RFC3339N", "NGINX",
	"MONTH", "MONTHNAME", "MNTH", "DAY", "YEAR", "HOUR", "MINUTE", "SECOND", "TIMEZONE", "NTIMEZONE", "NTZ", "WEEKDAY", "WDAY"}

var c08tLayouts = map[string]string{"": time.RFC3339, "ANSIC": time.ANSIC, "UNIX": time.UnixDate, "RUBY": time.RubyDate, "RFC822": time.RFC822,
	"RFC822Z": time.RFC822Z, "RFC1123": time.RFC1123, "RFC1123Z": time.RFC1123Z, "RFC3339": time.RFC3339, "RFC3339N": time.RFC3339Nano,
	"NGINX": "_2/Jan/2006:15:04:05 -0700", "MONTH": "01", "MONTHNAME": "January", "MNTH": "Jan", "DAY": "02", "YEAR": "2006", "HOUR": "15",
	"MINUTE": "04", "SECOND": "05", "TIMEZONE": "MST", "NTIMEZONE": "-0700", "NTZ": "-0700", "WEEKDAY": "Monday", "WDAY": "Mon"}

var c08tCustom = []string{"2006-01-02 15:04:05", "02/Jan/2006 15:04:05 -0700", "Jan _2 2006 3:04pm", "Monday, January 2 2006 15:04 MST", "06.1.2 15h04", "2006-01-02T15:04:05.000Z07:00",
	"15:04:05.999999 2006/01/02", "2006 002 15", "Mon Jan 2 15:04:05 -07:00:00 2006", "%Y-%m-%d", "kitchen", "rfc3339 ", "2006é01"}

var c08tBuckets = []string{"nanos", "n", "seconds", "s", "sec", "minutes", "m", "min", "hours", "h", "hour", "days", "d", "day", "months", "mo", "month", "years", "y", "year",
	"YEAR", "Day", "", "x", "secondss", "ms", "dayz", "hr"}

var c08tAttrs = []string{"weekday", "week", "yearweek", "quarter", "WEEKDAY", "Week", "YearWeek", "QUARTER", "month", "", "day", "quarters", "wéek"}

var c08tDeltas = []int64{-86401, -86400, -3601, -3600, -61, -1, 0, 1, 59, 60, 3599, 3600, 43200, 86399, 86400, 86401}

func c08tRandCase(r *Rand, s string) string {
	switch r.Intn(4) {
	case 0:
		return strings.ToLower(s)
	case 1:
		b := []byte(s)
		for i := range b {
			if r.Bool() && b[i] < 0x80 {
				b[i] = strings.ToLower(string(b[i]))[0]
			}
		}
		return string(b)
	}
	return s
}

func c08tPickFormat(r *Rand) string {
	switch {
	case r.Chance(6, 10):
		return c08tRandCase(r, Pick(r, c08tNamed))
	case r.Chance(1, 8):
		return Pick(r, []string{"auto", "cache", "Auto", "CACHE", "epoch"})
	}
	return Pick(r, c08tCustom)
}

// c08tInstant: unix seconds, dense around month / year / ISO-week / DST boundaries of the zone, plus uniform
// draws, the int64 boundaries and the edges of Go's absolute time.
func c08tInstant(r *Rand, z c08tZone) int64 {
	k := r.Intn(100)
	year := r.Range(1970, 2099)
	local := func(t time.Time) int64 {
		return time.Date(t.Year(), t.Month(), t.Day(), t.Hour(), t.Minute(), t.Second(), 0, z.loc).Unix()
	}
	d := Pick(r, c08tDeltas)
	switch {
	case k < 20:
		return local(time.Date(year, time.Month(r.Range(1, 12)), 1, 0, 0, 0, 0, time.UTC)) + d
	case k < 32:
		return local(time.Date(year, 12, 26+r.Intn(14), 0, 0, 0, 0, time.UTC)) + d
	case k < 40:
		return local(time.Date(year, 2, 27+r.Intn(4), 0, 0, 0, 0, time.UTC)) + d
	case k < 58: // around a transition of the zone
		t := time.Date(year, time.Month(r.Range(1, 12)), 15, 0, 0, 0, 0, z.loc)
		if _, e := t.ZoneBounds(); !e.IsZero() {
			return e.Unix() + d
		}
		return t.Unix() + d
	case k < 64:
		return Pick(r, []int64{0, 1, 86399, 86400, 951782400, 2147483647, 2147483648, 4102444799, 4102444800, 1460653945, 1000000000, 1234567890})
	case k < 86:
		return int64(r.U64() % 4102444800)
	case k < 92: // before 1970 / after 2100, four-digit years
		return Pick(r, []int64{-1, -86400, -2208988800, -62135596800, -62167219200, 4102444801, 32503680000, 253402300799, 16725225600}) + int64(r.Intn(3)) - 1
	case k < 96: // five-digit and negative years
		return Pick(r, []int64{253402300800, -62167219201, 1 << 40, -(1 << 40), 1 << 50, -(1 << 50), 67767976233532799, 67768036191676800, -67768100567971200})
	default: // the ends of int64 and of Go's absolute time (year -292277022399)
		return Pick(r, []int64{1<<63 - 1, -1 << 63, 1<<63 - 2, -1<<63 + 1, 1<<63 - 86400, -9223372028715321600, -9223372028715321601, -9223372028715321600 + 345600, -9223372028715321600 + 345599,
			-9223372028715321600 + 86400*365, 9223372036854775807 - 50400, -9223372028715321600 + 50400})
	}
}

var c08tBadInts = []string{"", " ", "x", "1.5", "1e3", "0x10", "12a", " 5", "5 ", "+", "-", "--1", "9223372036854775808", "-9223372036854775809", "١", "1_000", "now", "+5", "007"}

func c08tIntArg(r *Rand, u int64) string {
	if r.Chance(1, 25) {
		return Pick(r, c08tBadInts)
	}
	return strconv.FormatInt(u, 10)
}

func c08tMutate(r *Rand, s string) string {
	b := []byte(s)
	switch r.Intn(8) {
	case 0:
		return ""
	case 1:
		if len(b) > 0 {
			return string(b[:r.Intn(len(b))])
		}
	case 2:
		return s + Pick(r, []string{" ", "x", "0", ".5", ",123", " UTC", "Z", " EST", " GMT+3", " CEST"})
	case 3:
		if len(b) > 0 {
			i := r.Intn(len(b))
			b[i] = Pick(r, []byte{'0', '9', ' ', 'x', 'Z', '+', '-', ':', '.', ',', '3', '6'})
			return string(b)
		}
	case 4:
		return " " + s
	case 5:
		return strings.Replace(s, " ", "  ", 1)
	case 6:
		return strings.ToUpper(s)
	case 7:
		if len(b) > 1 {
			i := r.Intn(len(b))
			return string(b[:i]) + string(b[i+1:])
		}
	}
	return s
}

var c08tHandStrings = []string{
	"14/Apr/2016:19:12:25 +0200", "14/Apr/2016:19:12:25.123 +0200", "2016-02-30T00:00:00Z", "2016-02-29T00:00:00Z", "2015-02-29T00:00:00Z", "2016-04-14T24:00:00Z", "2016-04-14T23:59:60Z",
	"2016-04-14T23:59:59.999999999Z", "2016-04-14T23:59:59+24:00", "2016-04-14T23:59:59-00:00:01", "Thu, 14 Apr 2016 17:12:25 UTC", "Thu, 14 Apr 2016 17:12:25 EST", "Thu, 14 Apr 2016 17:12:25 GMT+3",
	"Thu, 14 Apr 2016 17:12:25 GMT", "Thu, 14 Apr 2016 17:12:25 CEST", "Thu, 14 Apr 2016 17:12:25 CET", "Thu, 14 Apr 2016 17:12:25 EDT", "Thu, 14 Apr 2016 17:12:25 BST", "Thu, 14 Apr 2016 17:12:25 IST",
	"14 Apr 16 17:12 +0000", "14 Apr 69 17:12 +0000", "14 Apr 68 17:12 +0000", "Thu Apr 14 17:12:25 2016", "Thu Apr 14 17:12:25 CEST 2016", "Thu Apr 14 17:12:25 ChST 2016", "Thu Apr 14 17:12:25 ABCD 2016",
	"2016-03-27 02:30:00", "2016-10-30 02:30:00", "2016-03-13 02:30:00", "2016-11-06 01:30:00", "2011-12-30 12:00:00", "1972-05-01 00:30:00", "04", "April", "2016", "oauef888", "a", "12", "", " ",
}

// what dateparse understands, for auto / cache
var c08tAutoLayouts = []string{time.RFC3339, "_2/Jan/2006:15:04:05 -0700", time.RFC1123Z, "2006-01-02 15:04:05", "02/Jan/2006 15:04:05", "2006-01-02", time.ANSIC, time.RFC1123, "Jan 2, 2006", "01/02/2006", "2006/01/02 15:04",
	"2006-01-02T15:04:05.000Z", "Mon Jan _2 15:04:05 MST 2006", "2006-01-02 15:04:05.000000 -0700"}

func c08tValidZone(r *Rand) c08tZone {
	for {
		z := c08tLoad(Pick(r, c08tZoneNames))
		if z.ok {
			return z
		}
	}
}

func c08tPickZone(r *Rand) c08tZone {
	if r.Chance(1, 8) {
		return c08tLoad(Pick(r, c08tZoneNames))
	}
	return c08tValidZone(r)
}

// ---------------------------------------------------------------- families

func c08tGen(r *Rand, tier string) []string {
	n := 900
	if tier == "thorough" {
		n = 40000
	}
	var out []string
	add := func(c *c08tCase) { out = append(out, c.line(r)) }
	layoutOf := func(f string) string {
		if l, ok := c08tLayouts[strings.ToUpper(f)]; ok {
			return l
		}
		return f
	}
	// optional trailing arguments: how many of `rest` are written (sometimes one too many)
	argc := func(lo, hi int) int {
		if r.Chance(1, 30) {
			return hi + 1
		}
		if r.Chance(3, 4) {
			return hi
		}
		return r.Range(lo, hi)
	}
	for i := 0; i < n; i++ {
		c := c08tNew()
		z := c08tPickZone(r)
		u := c08tInstant(r, z)
		c.instants = []int64{u}
		switch k := r.Intn(100); {
		case k < 20: // timeformat
			f := c08tPickFormat(r)
			arg := c08tIntArg(r, u)
			if v, err := strconv.ParseInt(arg, 10, 64); err == nil {
				c.instants = []int64{v}
			}
			parts := []string{c.arg(r, arg, false), c.arg(r, f, r.Chance(9, 10)), c.zone(r, z, r.Chance(9, 10)), "x"}
			c.tmpl = "{timeformat " + strings.Join(parts[:argc(1, 3)], " ") + "}"
		case k < 32: // timeattr
			a := Pick(r, c08tAttrs)
			arg := c08tIntArg(r, u)
			if v, err := strconv.ParseInt(arg, 10, 64); err == nil {
				c.instants = []int64{v}
			}
			parts := []string{c.arg(r, arg, false), c.arg(r, a, r.Chance(9, 10)), c.zone(r, z, r.Chance(9, 10)), "x"}
			c.tmpl = "{timeattr " + strings.Join(parts[:argc(2, 3)], " ") + "}"
		case k < 50: // time / buckettime with an explicit format
			f := c08tPickFormat(r)
			if r.Chance(1, 2) {
				f = c08tRandCase(r, Pick(r, []string{"RFC3339", "RFC3339N", "RFC1123Z", "RFC822Z", "RUBY", "NGINX", "ANSIC", "UNIX", "RFC1123"}))
			}
			layout := layoutOf(f)
			t := time.Unix(u, 0).In(z.loc)
			if r.Chance(1, 4) {
				t = t.Add(time.Duration(Pick(r, []int64{1, 999999999, 123000000, 500000000})))
			}
			s := t.Format(layout)
			if r.Chance(1, 6) {
				s = c08tMutate(r, s)
			} else if r.Chance(1, 10) {
				s = Pick(r, c08tHandStrings)
			}
			c.strs = []string{s}
			if r.Chance(1, 2) {
				parts := []string{c.arg(r, s, false), c.arg(r, f, r.Chance(9, 10)), c.zone(r, z, r.Chance(9, 10)), "x"}
				c.tmpl = "{time " + strings.Join(parts[:argc(2, 3)], " ") + "}"
			} else {
				parts := []string{c.arg(r, s, false), c.arg(r, Pick(r, c08tBuckets), r.Chance(9, 10)), c.arg(r, f, r.Chance(9, 10)), c.zone(r, z, r.Chance(9, 10)), "x"}
				c.tmpl = "{buckettime " + strings.Join(parts[:argc(3, 4)], " ") + "}"
			}
		case k < 66: // time / buckettime with auto / cache / no format
			f := Pick(r, []string{"", "cache", "CACHE", "auto", "AUTO", "Auto", "Cache"})
			s := time.Unix(u, 0).In(z.loc).Format(Pick(r, c08tAutoLayouts))
			if r.Chance(1, 8) {
				s = c08tMutate(r, s)
			} else if r.Chance(1, 10) {
				s = Pick(r, c08tHandStrings)
			}
			c.strs = []string{s}
			if r.Chance(1, 2) {
				parts := []string{c.arg(r, s, false), c.arg(r, f, true), c.zone(r, z, true), "x"}
				c.tmpl = "{time " + strings.Join(parts[:argc(1, 3)], " ") + "}"
			} else {
				parts := []string{c.arg(r, s, false), c.arg(r, Pick(r, c08tBuckets[:20]), true), c.arg(r, f, true), c.zone(r, z, true), "x"}
				c.tmpl = "{buckettime " + strings.Join(parts[:argc(2, 4)], " ") + "}"
			}
		case k < 72: // duration / durationformat
			if r.Bool() {
				c.tmpl = "{duration " + c.arg(r, c08tDurString(r), false) + Pick(r, []string{"", "", "", " x"}) + "}"
			} else {
				c.tmpl = "{durationformat " + c.arg(r, c08tDurSecs(r), false) + Pick(r, []string{"", "", "", " x"}) + "}"
			}
		case k < 78: // the wall clock key words, constant and not
			kw := c08tRandCase(r, Pick(r, []string{"now", "live", "delta", "NOW", "Live", "nowx", " now"}))
			parts := []string{c.arg(r, kw, r.Chance(4, 5)), c.arg(r, c08tPickFormat(r), true), c.zone(r, z, true), "x"}
			c.strs = []string{kw}
			c.tmpl = "{time " + strings.Join(parts[:argc(1, 3)], " ") + "}"
			if r.Chance(1, 4) {
				c.tmpl = "{timeformat " + c.tmpl + " YEAR}"
			}
		case k < 90: // compositions
			f := Pick(r, []string{"RFC3339", "RFC1123Z", "NGINX", "RUBY", "2006-01-02 15:04:05 -0700"})
			z2 := c08tValidZone(r)
			c.instants = []int64{u, u + 86400, u - 86400, u + 3600, u + 86400*31}
			us := strconv.FormatInt(u, 10)
			switch r.Intn(7) {
			case 0: // parse what timeformat printed
				c.tmpl = "{time {timeformat " + c.arg(r, us, false) + " " + f + " " + c.zone(r, z, true) + "} " + f + " " + c.zone(r, z2, true) + "}"
			case 1: // print what time parsed
				s := time.Unix(u, 0).In(z.loc).Format(layoutOf(f))
				c.tmpl = "{timeformat {time " + c.arg(r, s, false) + " " + f + " " + c.zone(r, z, true) + "} " + c.arg(r, c08tPickFormat(r), true) + " " + c.zone(r, z2, true) + "}"
			case 2:
				c.tmpl = "{timeformat {sumi " + c.arg(r, us, false) + " " + Pick(r, []string{"86400", "-86400", "3600", "2678400"}) + "} " + c.arg(r, c08tPickFormat(r), true) + " " + c.zone(r, z, true) + "}"
			case 3:
				c.tmpl = "{buckettime {timeformat " + c.arg(r, us, false) + " " + f + " " + c.zone(r, z, true) + "} " + Pick(r, c08tBuckets[:20]) + " " + f + " " + c.zone(r, z2, true) + "}"
			case 4: // an array of instants through @map
				arr := []string{us, strconv.FormatInt(u+86400, 10), "x", strconv.FormatInt(u+3600, 10)}
				c.el = append(c.el, strings.Join(arr[:r.Range(1, 4)], "\x00"))
				c.tmpl = fmt.Sprintf("{@map {%d} \"{timeformat {0} %s %s}\"}", len(c.el)-1, Pick(r, []string{"DAY", "RFC3339", "WEEKDAY", "MNTH"}), c.bareZone(z))
			case 5: // a cache stage evaluated on every element of an array: the cell keeps the first layout it met
				l1, l2 := Pick(r, c08tAutoLayouts), Pick(r, c08tAutoLayouts)
				var items []string
				for j := r.Range(1, 3); j > 0; j-- {
					l := l1
					if r.Chance(1, 3) {
						l = l2
					}
					items = append(items, time.Unix(u+int64(j)*3600, 0).In(z.loc).Format(l))
				}
				if r.Chance(1, 6) {
					items = append(items, Pick(r, []string{"", "junk", "12"}))
				}
				c.strs = items
				first := ""
				for _, it := range items {
					if it == "" {
						continue
					}
					l, err := dateparse.ParseFormat(it)
					if err != nil || (first != "" && l != first) {
						c.reliable = false
					}
					if first == "" && err == nil {
						first = l
					}
				}
				c.el = append(c.el, strings.Join(items, "\x00"))
				c.tmpl = fmt.Sprintf("{@map {%d} \"{time {0} %s %s}\"}", len(c.el)-1, Pick(r, []string{"cache", "CACHE", "auto"}), c.bareZone(z))
			default:
				c.tmpl = "{if " + c.arg(r, Pick(r, []string{"1", "", us}), false) + " {timeattr " + c.arg(r, us, false) + " " + Pick(r, c08tAttrs[:8]) + " " + c.zone(r, z, true) + "} {duration 90m}}"
			}
		default: // hostile arguments in every position
			name := Pick(r, []string{"time", "timeformat", "timeattr", "buckettime", "duration", "durationformat"})
			ar := r.Range(1, 5)
			var parts []string
			for j := 0; j < ar; j++ {
				v := Pick(r, c08Boundary)
				if r.Chance(1, 3) {
					v = Pick(r, []string{"utc", "UTC", "local", "weekday", "quarter", "hour", "d", "RFC3339", "auto", "cache", "1609556645", "2021-01-02T03:04:05Z", "1h2m3s"})
				}
				if len(v) > 200 {
					v = v[:200]
				}
				c.zones[v] = true // whatever lands in a zone position must have a record
				c.strs = append(c.strs, v)
				if v2, err := strconv.ParseInt(v, 10, 64); err == nil {
					c.instants = append(c.instants, v2)
				}
				parts = append(parts, c.arg(r, v, false))
			}
			if len(c.strs) > 3 {
				c.strs = c.strs[:3]
			}
			c.tmpl = "{" + name + " " + strings.Join(parts, " ") + "}"
		}
		add(c)
	}
	// zone abbreviations in the parsed text (GMT±h, the location's own, unknown ones)
	out = append(out, c08tAbbrGen(r, tier, layoutOf)...)
	return out
}

// ---------------------------------------------------------------- zone abbreviations in the parsed text

// layouts with an `MST` token (the last ones carry a numeric offset too: the offset wins over the name)
var c08tAbbrLayouts = []string{"RFC1123", "RFC822", "UNIX", "rfc1123", "Monday, 02-Jan-06 15:04:05 MST", "2006-01-02 15:04:05 MST", "MST 2006-01-02 15:04",
	"Mon Jan 2 15:04:05 MST 2006", "2006-01-02 15:04:05 -0700 MST", "2006-01-02T15:04:05Z07:00 MST", "2006-01-02 15:04:05.000 MST"}

// abbreviations no location knows, the `GMT±h` fall-back of time.parse at and beyond its ends (parseGMT accepts
// 0..23 hours, any number of digits), abbreviations of the usual zones, the shapes parseTimeZone accepts (3, 4 or
// 5 letters, `ChST`, `MeST`, `±hh`) and does not.  A `GMT+` number of MORE than 19 digits with leading zeros is accepted by
// Go - leadingInt overflows by value, not by length (this family found `Rare.C18.parseSignedOffset` counting digits;
// repaired by C18 r4d, 3048276).
var c08tAbbrs = []string{"GMT", "UTC", "GMT+0", "GMT-0", "GMT+1", "GMT-1", "GMT+3", "GMT-3", "GMT+9", "GMT+10", "GMT-11", "GMT+12", "GMT-12", "GMT+14", "GMT+23", "GMT-23",
	"GMT+24", "GMT-24", "GMT+25", "GMT+99", "GMT+03", "GMT-003", "GMT+0000000000000000007", "GMT+0000000000000000000007", "GMT-00000000000000000000000023", "GMT+", "GMT-", "GMT+x", "GMT+3x", "GMT+5:30", "GMT +3", "gmt+3", "UTC+3", "UTC-3", "UT", "Z",
	"EST", "EDT", "CET", "CEST", "BST", "IST", "MSK", "JST", "AEST", "AEDT", "NZDT", "NST", "NDT", "LMT", "WET", "WEST", "EWT", "EPT", "PST", "PDT", "ChST", "MeST", "WITA", "ABCD", "ABCDE", "ABCDEF",
	"AB", "abc", "Est", "+03", "-03", "+0330", "-0330", "+0545", "+1030", "+11", "+13", "-05", "+14", "+00", "-00", "+0", "", "MST", "XYZ"}

// c08tAbbrText: the instant u shown in z with the layout of format argument f, the zone abbreviation replaced
func c08tAbbrText(f string, layoutOf func(string) string, u int64, z c08tZone, abbr string) string {
	layout := layoutOf(f)
	t := time.Unix(u, 0).In(z.loc)
	i := strings.Index(layout, "MST")
	if i < 0 {
		return t.Format(layout) + " " + abbr
	}
	return t.Format(layout[:i]) + abbr + t.Format(layout[i+3:])
}

// c08tAbbrGen: {time} / {buckettime} (and what {timeformat} shows of it) on texts whose zone is an ABBREVIATION:
// one the location knows (at that instant, at another instant, never), `GMT±h` (Go fabricates a zone of that
// offset but does NOT shift the instant: the wall clock is read as UTC), unknown ones (offset 0, not shifted).
func c08tAbbrGen(r *Rand, tier string, layoutOf func(string) string) []string {
	var out []string
	emit := func(c *c08tCase) { out = append(out, c.line(r)) }
	mk := func(z c08tZone, u int64, f, abbr string, kind int) {
		c := c08tNew()
		_, off := time.Unix(u, 0).In(z.loc).Zone()
		// the parser reads the wall clock as UTC first (lookupName around it), then shifts by a zone's offset
		c.instants = []int64{u, u + int64(off), u + 2*int64(off)}
		s := c08tAbbrText(f, layoutOf, u, z, abbr)
		c.strs = []string{s}
		switch kind {
		case 0:
			c.tmpl = "{time " + c.arg(r, s, false) + " " + c.arg(r, f, true) + " " + c.zone(r, z, true) + "}"
		case 1:
			c.tmpl = "{buckettime " + c.arg(r, s, false) + " " + Pick(r, []string{"hour", "seconds", "day", "min", "nanos"}) + " " + c.arg(r, f, true) + " " + c.zone(r, z, true) + "}"
		default:
			z2 := c08tValidZone(r)
			c.tmpl = "{timeformat {time " + c.arg(r, s, false) + " " + c.arg(r, f, true) + " " + c.zone(r, z, true) + "} \"2006-01-02 15:04:05 -0700 MST\" " + c.zone(r, z2, true) + "}"
		}
		emit(c)
	}
	utc := c08tLoad("")
	// every GMT±h at one fixed wall clock (the witness of the repaired model slip is h = +3 in UTC)
	sysZones := []c08tZone{utc, c08tLoad("America/New_York"), c08tLoad("Europe/London")}
	if tier == "thorough" {
		sysZones = nil
		for _, n := range c08tZoneNames {
			if z := c08tLoad(n); z.ok {
				sysZones = append(sysZones, z)
			}
		}
	}
	for _, z := range sysZones {
		for h := -25; h <= 25; h++ {
			if tier != "thorough" && z != utc && h%3 != 0 {
				continue
			}
			mk(z, 1460653945, "RFC1123", fmt.Sprintf("GMT%+d", h), (h+25)%3)
		}
	}
	n := 220
	if tier == "thorough" {
		n = 9000
	}
	for i := 0; i < n; i++ {
		z := c08tValidZone(r)
		u := c08tInstant(r, z)
		if u < -62135596800 || u > 253402300799 { // four-digit years: the text must parse for the abbreviation to matter
			u = int64(r.U64() % 4102444800)
		}
		f := Pick(r, c08tAbbrLayouts)
		var abbr string
		switch k := r.Intn(10); {
		case k < 4: // GMT±h, dense at the ends of parseGMT's range
			h := r.Range(-25, 25)
			abbr = fmt.Sprintf("GMT%+d", h)
			if r.Chance(1, 8) {
				abbr = fmt.Sprintf("GMT%+03d", h)
			}
		case k < 6: // an abbreviation of the location itself (any period of it, the current one included)
			names := strings.Split(c08tZoneList(z.loc), "|")
			e := Pick(r, names)
			if j := strings.IndexByte(e, ':'); j > 0 {
				abbr = string(UnHex(e[:j]))
			} else {
				abbr = "UTC"
			}
		default:
			abbr = Pick(r, c08tAbbrs)
		}
		mk(z, u, f, abbr, r.Intn(3))
	}
	return out
}

var c08tDurHand =[]string{"24h", "1h30m", "90s", "1.5h", "1e3s", "", "0", "-0", "+0", "+5s", "5", "5 s", " 5s", "5s ", "1h-5m", "9223372036s", "9223372037s", "-9223372037s",
	"2562047h47m16s", "2562047h47m17s", "2562048h", "1000000000ns", "1500ms", "-1500ms", "999999999ns", "1000000µs", "1000000μs", "1000000us", "1µ", "1d", "1H", "h", ".s", "1.s", "1.0s", ".0s",
	"1.000000000s", "0.5s", "1..s", "1s1", "00001s", "1h1h", "9223372036854775807ns", "9223372036854775808ns", "-9223372036854775808ns", "92233720368547758070ns", "4611686018427387904ns4611686018427387904ns",
	"2097151999999999ns", "2097152999999999ns", "0s", "-0s", "+-1s", "1ss", "3600s", "-1m30s"}

func c08tDurSecs(r *Rand) string {
	switch r.Intn(8) {
	case 0:
		return Pick(r, c08tBadInts)
	case 1, 2:
		return strconv.FormatInt(Pick(r, []int64{0, 1, -1, 59, 60, 61, -60, 3599, 3600, 3601, 86399, 86400, 359999, 360000, 9223372035, 9223372036, -9223372036, 123456789, 5400}), 10)
	case 3: // beyond the int64-nanosecond range: the product wraps
		return strconv.FormatInt(Pick(r, []int64{9223372037, -9223372037, 18446744074, 1 << 62, -(1 << 62), 1<<63 - 1, -1 << 63, 10000000000, 27670116110, 9223372036854775}), 10)
	}
	v := int64(r.U64() % 9223372036)
	if r.Bool() {
		v = -v
	}
	return strconv.FormatInt(v, 10)
}

func c08tDurString(r *Rand) string {
	switch r.Intn(6) {
	case 0, 1:
		return Pick(r, c08tDurHand)
	case 2:
		return c08tMutate(r, (time.Duration(r.Intn(1000000)) * time.Second).String())
	case 3:
		var sb strings.Builder
		if r.Chance(1, 4) {
			sb.WriteString(Pick(r, []string{"-", "+"}))
		}
		for i := r.Range(1, 4); i > 0; i-- {
			sb.WriteString(strconv.Itoa(r.Intn(5000)))
			if r.Chance(1, 10) {
				sb.WriteString("." + strings.Repeat("0", r.Intn(3)))
			}
			sb.WriteString(Pick(r, []string{"h", "m", "s", "ms", "us", "ns", "µs"}))
		}
		return sb.String()
	}
	s := c08tDurSecs(r)
	if v, err := strconv.ParseInt(s, 10, 64); err == nil {
		return (time.Duration(v) * time.Second).String()
	}
	return s
}

func c08tStats(cases []string, st map[string]int) {
	for _, c := range cases {
		f := strings.Fields(c)
		if len(f) != 6 || f[0] != "exprt" {
			continue
		}
		t := string(UnHex(f[3]))
		for _, name := range []string{"timeformat", "timeattr", "buckettime", "durationformat", "duration", "time"} {
			if strings.Contains(t, "{"+name+" ") {
				st["time."+name]++
				break
			}
		}
		if all := t + "\x00" + strings.Join(UnHexListS(f[4]), "\x00"); strings.Contains(all, "GMT+") || strings.Contains(all, "GMT-") {
			st["time.gmt-offset-abbr"]++
		}
		st["timeworld.zone-records"] += strings.Count(f[1], "Z,") + strings.Count(f[1], "L,")
		st["timeworld.dateparse-records"] += strings.Count(f[1], "D,")
		if strings.Contains(f[1], "R,0") {
			st["timeworld.cache-unreliable"]++
		}
	}
}
