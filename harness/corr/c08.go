//go:build c08

package main

import (
	"fmt"
	"math/big"
	"strings"
	"time"
)

// C08: no template and no input line can crash compilation or evaluation.
// Every case is the shared `expr` op; the answer is compared with the model where the model covers the
// functions used, and otherwise the only oracle is "the real code returned" (a Go panic or a hang is
// always reported).

func c08Run(f []string) string {
	if a, ok := exprRun(f); ok {
		return a
	}
	return "bad-op"
}

var c08Boundary = []string{"", " ", "0", "-0", "+0", "1", "-1", "007", "9223372036854775807", "-9223372036854775808",
	"9223372036854775808", "-9223372036854775809", "18446744073709551615", "1e308", "-1e308", "1e-320", "NaN", "Inf", "-Inf",
	"0x10", "1_000", "3.5", ".5", "5.", "abc", "a b c", "a\x00b\x00c", "\x00", "\x00\x00", "\xff\xfe", "é", " ", "\t\n",
	strings.Repeat("9", 40), strings.Repeat("a", 5000), "%s%d%!", "{", "}", "\\", "\"", "2021-01-02T03:04:05Z", "1h2m3s", "/a/b/c.txt", "{\"a\":1}"}

func c08Gen(r *Rand, tier string) []string {
	g := &c10g{r}
	var out []string
	add := func(opt bool, t string, el, ks []string) {
		out = append(out, ExprCase(opt, t, el, ks))
	}
	n := 2500
	if tier == "thorough" {
		n = 120000
	}
	// 1. every helper at every small arity with boundary arguments, as constants and as match groups
	for _, fn := range c10Fns {
		for ar := 0; ar <= fn.max+1 && ar <= 5; ar++ {
			reps := 2
			if tier == "thorough" {
				reps = 12
			}
			for k := 0; k < reps; k++ {
				var parts []string
				var el []string
				for i := 0; i < ar; i++ {
					v := Pick(r, c08Boundary)
					if fn.name == "repeat" && i == 1 {
						v = Pick(r, []string{"0", "3", "-1", "1048577", "9223372036854775807", "abc"})
					}
					if (fn.name == "round" || fn.name == "percent" || fn.name == "bytesize" || fn.name == "bytesizesi" || fn.name == "downscale") && i >= 1 {
						v = Pick(r, []string{"0", "2", "-1", "1024", "1025", "50000000000", "x"})
					}
					if fn.name == "@range" || fn.name == "@for" || fn.name == "@reduce" {
						v = Pick(r, []string{"0", "5", "-3", "x", "", "9223372036854775800", "9223372036854775807", "{0}"})
					}
					if r.Bool() {
						el = append(el, v)
						parts = append(parts, fmt.Sprintf("{%d}", len(el)-1))
					} else {
						parts = append(parts, quoteArg(v))
					}
				}
				t := "{" + fn.name + " " + strings.Join(parts, " ") + "}"
				if ar == 0 {
					t = "{" + fn.name + " }"
				}
				add(r.Bool(), t, el, []string{"src", "f", "line", "3"})
			}
		}
	}
	// 2. random well-formed trees over all helpers
	for i := 0; i < n; i++ {
		el, ks := g.ctx()
		add(r.Bool(), g.expr(3, true), el, ks)
	}
	// 3. malformed templates: stray braces, quotes, trailing backslash, mutations of well-formed ones
	soup := []string{"{", "}", "\"", "\\", " ", "a", "1", "{0}", "{sumi", "{@map", "{!", "\x00", "é", "\xff"}
	m := n / 2
	for i := 0; i < m; i++ {
		var sb strings.Builder
		if r.Chance(1, 2) {
			k := r.Range(1, 9)
			for j := 0; j < k; j++ {
				sb.WriteString(Pick(r, soup))
			}
		} else {
			t := g.expr(2, true)
			b := []byte(t)
			for j := 0; j < r.Range(1, 3) && len(b) > 0; j++ {
				p := r.Intn(len(b))
				switch r.Intn(3) {
				case 0:
					b = append(b[:p], b[p+1:]...)
				case 1:
					b[p] = Pick(r, []byte("{}\"\\ "))
				default:
					b = append(b[:p], append([]byte{Pick(r, []byte("{}\"\\"))}, b[p:]...)...)
				}
			}
			sb.Write(b)
		}
		el, ks := g.ctx()
		add(r.Bool(), sb.String(), el, ks)
	}
	// 3b. size guards: helpers that multiply or add a length and a count/index (repeat, substr, @slice, tab …)
	// get patterns of every small length with counts at the wrap-around points of the int64 product/sum
	// (2^63/len, 2^64/len, the cap/len, each ±1), as constants and as match groups
	for plen := 1; plen <= 9; plen++ {
		pat := strings.Repeat("a", plen)
		if plen == 3 {
			pat = "\xe2\x82\xac" // one 3-byte rune
		}
		two63 := new(big.Int).Lsh(big.NewInt(1), 63)
		two64 := new(big.Int).Lsh(big.NewInt(1), 64)
		var counts []string
		for _, base := range []*big.Int{two63, two64, big.NewInt(1048576), new(big.Int).Lsh(big.NewInt(1), 62)} {
			q := new(big.Int).Div(base, big.NewInt(int64(plen)))
			for d := int64(-1); d <= 1; d++ {
				v := new(big.Int).Add(q, big.NewInt(d))
				if v.IsInt64() {
					counts = append(counts, v.String())
				}
			}
		}
		counts = append(counts, "9223372036854775807", "4611686018427387904")
		for _, cnt := range counts {
			for _, fn := range []string{"repeat"} {
				if r.Bool() {
					add(r.Bool(), "{"+fn+" "+quoteArg(pat)+" "+cnt+"}", nil, nil)
				} else {
					add(r.Bool(), "{"+fn+" {0} {1}}", []string{pat, cnt}, nil)
				}
			}
		}
		if tier == "thorough" || plen%3 == 1 {
			for _, cnt := range counts {
				add(r.Bool(), "{substr {0} 1 "+cnt+"}", []string{pat + pat}, nil)
				add(r.Bool(), "{substr {0} "+cnt+" 2}", []string{pat + pat}, nil)
				add(r.Bool(), "{@slice {@ a b c} 1 "+cnt+"}", nil, nil)
				add(r.Bool(), "{@slice {@ a b c} "+cnt+"}", nil, nil)
				add(r.Bool(), "{@select {@ a b c} "+cnt+"}", nil, nil)
				add(r.Bool(), "{select {0} "+cnt+"}", []string{"a b c"}, nil)
			}
		}
	}
	// 4. the family generators (boundary values per helper)
	for _, gen := range exprGens {
		cases := gen(NewRand(r.U64()), "quick")
		for i, c := range cases {
			if !strings.HasPrefix(c, "expr ") {
				continue
			}
			if tier != "thorough" && i%4 != 0 {
				continue
			}
			out = append(out, c)
		}
	}
	return out
}

func quoteArg(v string) string {
	var sb strings.Builder
	sb.WriteByte('"')
	for i := 0; i < len(v); i++ {
		switch v[i] {
		case '"', '\\', '{', '}':
			sb.WriteByte('\\')
		}
		sb.WriteByte(v[i])
	}
	sb.WriteByte('"')
	return sb.String()
}

func c08Stats(cases []string) map[string]int {
	st := map[string]int{}
	for _, c := range cases {
		f := strings.Fields(c)
		if len(f) < 3 {
			continue
		}
		t := string(UnHex(f[2]))
		if i := strings.IndexByte(t, '{'); i >= 0 {
			rest := t[i+1:]
			if j := strings.IndexAny(rest, " }"); j > 0 {
				st["fn."+rest[:j]]++
			}
		}
		if f[1] == "1" {
			st["opt.on"]++
		} else {
			st["opt.off"]++
		}
	}
	return st
}

func init() {
	Register("C08", &Prop{Gen: c08Gen, Run: c08Run, Stats: c08Stats, Timeout: 10 * time.Second})
}
