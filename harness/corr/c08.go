//go:build c08

package main

import (
	"bufio"
	"fmt"
	"math/big"
	"os"
	"os/exec"
	"path/filepath"
	"runtime"
	"sort"
	"strconv"
	"strings"
	"syscall"
	"time"

	"rare/pkg/color"
	"rare/pkg/expressions"
	"rare/pkg/expressions/stdlib"
	"rare/pkg/extractor"
	"rare/pkg/multiterm/termunicode"
)

// C08: no template and no input line can crash compilation or evaluation.
// Every case is the shared `expr` op; the answer is compared with the model where the model covers the
// functions used, and otherwise the only oracle is "the real code returned" (a Go panic or a hang is
// always reported).

// c08LoadDir is where the `exprw` op materialises the one readable file of its world.
var c08LoadDir = filepath.Join(os.TempDir(), "verif-c08-load")

func c08Run(f []string) string {
	if a, ok := exprRun(f); ok {
		return a
	}
	if a, ok := fmtRun(f); ok {
		return a
	}
	switch f[0] {
	case "exprt":
		// exprt <time world> <opt> <template> <elems> <keys>: the time world is for the model only
		if len(f) != 6 {
			return "bad-op"
		}
		a, _ := exprRun([]string{"expr", f[2], f[3], f[4], f[5]})
		return a
	case "exprw":
		// exprw <color> <unicode> <noload> <path> <content|x> <opt> <template> <elems> <keys>
		if len(f) != 10 {
			return "bad-op"
		}
		oc, ou, ol := color.Enabled, termunicode.UnicodeEnabled, stdlib.DisableLoad
		defer func() { color.Enabled, termunicode.UnicodeEnabled, stdlib.DisableLoad = oc, ou, ol }()
		color.Enabled, termunicode.UnicodeEnabled, stdlib.DisableLoad = f[1] == "1", f[2] == "1", f[3] == "1"
		path := string(UnHex(f[4]))
		if strings.HasPrefix(path, c08LoadDir+string(os.PathSeparator)) {
			os.MkdirAll(c08LoadDir, 0o755)
			// the file name is derived from the content (c08LoadFile), so concurrent runs never disagree
			// about what a name holds; the absent file is never created
			if f[5] != "x" {
				if old, err := os.ReadFile(path); err != nil || string(old) != string(UnHex(f[5])) {
					if err := os.WriteFile(path, UnHex(f[5]), 0o644); err != nil {
						return "bad-setup " + err.Error()
					}
				}
			}
		}
		a, _ := exprRun([]string{"expr", f[6], f[7], f[8], f[9]})
		return a
	case "gm":
		// gm <line> <indices> <idx>: SliceSpaceExpressionContext.GetMatch on a prescribed index slice
		if len(f) != 4 {
			return "bad-op"
		}
		var idxs []int
		if f[2] != "." {
			for _, p := range strings.Split(f[2], ",") {
				v, err := strconv.Atoi(p)
				if err != nil {
					return "bad-args"
				}
				idxs = append(idxs, v)
			}
		}
		i, err := strconv.Atoi(f[3])
		if err != nil {
			return "bad-args"
		}
		return "ok " + HexS(extractor.VerifContext(string(UnHex(f[1])), idxs, nil).GetMatch(i))
	case "funcs":
		if len(f) != 6 {
			return "bad-op"
		}
		return c10Run(f)
	case "build":
		// build <name> <n> <elems>: StandardFunctions[name] called directly with n constant arguments "1"
		if len(f) != 4 {
			return "bad-op"
		}
		n, err := strconv.Atoi(f[2])
		if err != nil || n < 0 || n > 64 {
			return "bad-args"
		}
		oc, ou, ol := color.Enabled, termunicode.UnicodeEnabled, stdlib.DisableLoad
		defer func() { color.Enabled, termunicode.UnicodeEnabled, stdlib.DisableLoad = oc, ou, ol }()
		color.Enabled, termunicode.UnicodeEnabled, stdlib.DisableLoad = false, false, false
		fn := stdlib.StandardFunctions[string(UnHex(f[1]))]
		if fn == nil {
			return "ok missing"
		}
		var args []expressions.KeyBuilderStage
		if n > 0 {
			one, _ := stdlib.NewStdKeyBuilderEx(true).Compile("1")
			for i := 0; i < n; i++ {
				args = append(args, func(ctx expressions.KeyBuilderContext) string { return one.BuildKey(ctx) })
			}
		}
		stage, berr := fn(args)
		e := "."
		if berr != nil {
			e = errKind(berr)
		}
		if stage == nil {
			return "ok stage=0 err=" + e + " val=-"
		}
		return "ok stage=1 err=" + e + " val=" + HexS(stage(mkContext(f[3], ".")))
	}
	return "bad-op"
}

// c08Idx: the boundary indices / counts for a table (string, array) of n entries: both ends of int64,
// the table ends ±1 from both sides, and the points where `i + n` or `MaxInt64 - n` wrap.
func c08Idx(n int) []string {
	var out []string
	seen := map[string]bool{}
	add := func(v *big.Int) {
		if v.IsInt64() && !seen[v.String()] {
			seen[v.String()] = true
			out = append(out, v.String())
		}
	}
	min64 := new(big.Int).Neg(new(big.Int).Lsh(big.NewInt(1), 63))
	max64 := new(big.Int).Sub(new(big.Int).Lsh(big.NewInt(1), 63), big.NewInt(1))
	for _, base := range []*big.Int{min64, big.NewInt(int64(-n)), big.NewInt(0), big.NewInt(int64(n)), new(big.Int).Sub(max64, big.NewInt(int64(n))), max64} {
		for d := int64(-1); d <= 1; d++ {
			add(new(big.Int).Add(base, big.NewInt(d)))
		}
	}
	return out
}

// c08Arg renders a value as a quoted constant or as a match group (appending to el).
func c08Arg(r *Rand, v string, el *[]string, constOnly bool) string {
	if constOnly || r.Bool() {
		return quoteArg(v)
	}
	*el = append(*el, v)
	return fmt.Sprintf("{%d}", len(*el)-1)
}

var c08Boundary = []string{"", " ", "0", "-0", "+0", "1", "-1", "007", "9223372036854775807", "-9223372036854775808",
	"9223372036854775808", "-9223372036854775809", "18446744073709551615", "1e308", "-1e308", "1e-320", "NaN", "Inf", "-Inf",
	"0x10", "1_000", "3.5", ".5", "5.", "abc", "a b c", "a\x00b\x00c", "\x00", "\x00\x00", "\xff\xfe", "é", " ", "\t\n",
	strings.Repeat("9", 40), strings.Repeat("a", 5000), "%s%d%!", "{", "}", "\\", "\"", "2021-01-02T03:04:05Z", "1h2m3s", "/a/b/c.txt", "{\"a\":1}"}

// c08Bad: the classes of hostile argument values (non-numeric text, empty, beyond int64, MaxInt64, negative,
// float, NUL-containing, marker-looking).
var c08Bad = []string{"abc", "", "9223372036854775808", "9223372036854775807", "-7", "3.5", "a\x00b", "<BAD-TYPE>"}

// c08Helpers: every helper of stdlib.StandardFunctions with the arities it accepts and a valid typical
// argument per position (raw template fragments; the last one repeats for variadic helpers).
type c08Helper struct {
	name     string
	min, max int
	valid    []string
}

var c08Helpers = []c08Helper{
	{"coalesce", 1, 3, []string{"\"\"", "b", "c"}}, {"bucket", 2, 2, []string{"17", "5"}}, {"bucketrange", 2, 2, []string{"17", "5"}},
	{"clamp", 3, 3, []string{"5", "1", "9"}}, {"expbucket", 1, 1, []string{"1234"}}, {"isint", 1, 1, []string{"12"}}, {"isnum", 1, 1, []string{"1.5"}},
	{"sumi", 2, 3, []string{"4", "2", "1"}}, {"subi", 2, 3, []string{"4", "2", "1"}}, {"multi", 2, 3, []string{"4", "2", "3"}},
	{"divi", 2, 3, []string{"9", "2", "2"}}, {"modi", 2, 3, []string{"9", "4", "2"}}, {"maxi", 2, 3, []string{"4", "2", "7"}}, {"mini", 2, 3, []string{"4", "2", "7"}},
	{"sumf", 2, 3, []string{"1.5", "2", "0.25"}}, {"subf", 2, 3, []string{"1.5", "2", "0.25"}}, {"multf", 2, 3, []string{"1.5", "2", "0.25"}},
	{"divf", 2, 3, []string{"1.5", "2", "0.25"}}, {"pow", 2, 3, []string{"2", "3", "2"}},
	{"ceil", 1, 1, []string{"1.5"}}, {"floor", 1, 1, []string{"1.5"}}, {"log10", 1, 1, []string{"100"}}, {"log2", 1, 1, []string{"8"}},
	{"ln", 1, 1, []string{"2"}}, {"sqrt", 1, 1, []string{"16"}}, {"round", 1, 2, []string{"1.25", "1"}}, {"!", 1, 3, []string{"\"[0]*2+x\"", "21", "2"}},
	{"if", 2, 3, []string{"1", "a", "b"}}, {"switch", 2, 5, []string{"1", "a", "\"\"", "b", "c"}}, {"unless", 2, 2, []string{"\"\"", "a"}},
	{"eq", 2, 3, []string{"a", "a", "a"}}, {"neq", 2, 3, []string{"a", "b", "c"}}, {"not", 1, 1, []string{"1"}},
	{"lt", 2, 2, []string{"1", "2"}}, {"gt", 2, 2, []string{"1", "2"}}, {"lte", 2, 2, []string{"1", "2"}}, {"gte", 2, 2, []string{"1", "2"}},
	{"and", 1, 3, []string{"1", "1", "1"}}, {"or", 1, 3, []string{"\"\"", "1", "1"}},
	{"len", 1, 1, []string{"abc"}}, {"like", 2, 2, []string{"abc", "b"}}, {"prefix", 2, 2, []string{"abc", "a"}}, {"suffix", 2, 2, []string{"abc", "c"}},
	{"format", 1, 3, []string{"\"%s-%s\"", "a", "b"}}, {"substr", 3, 3, []string{"abcdef", "1", "3"}}, {"select", 2, 2, []string{"\"a b c\"", "1"}},
	{"upper", 1, 1, []string{"abc"}}, {"lower", 1, 1, []string{"ABC"}}, {"tab", 1, 3, []string{"a", "b", "c"}}, {"$", 1, 3, []string{"a", "b", "c"}}, {"@", 1, 3, []string{"a", "b", "c"}},
	{"@len", 1, 1, []string{"{@ a b c}"}}, {"@map", 2, 2, []string{"{@ a b c}", "\"[{0}]\""}}, {"@split", 1, 2, []string{"\"a,b,c\"", "\",\""}},
	{"@select", 2, 2, []string{"{@ a b c}", "1"}}, {"@join", 1, 2, []string{"{@ a b c}", "\"-\""}}, {"@reduce", 2, 3, []string{"{@ 1 2 3}", "\"{sumi {0} {1}}\"", "0"}},
	{"@filter", 2, 2, []string{"{@ a b c}", "\"{neq {0} b}\""}}, {"@slice", 2, 3, []string{"{@ a b c d}", "1", "2"}}, {"@in", 2, 2, []string{"b", "{@ a b c}"}},
	{"@range", 1, 3, []string{"1", "5", "2"}}, {"@for", 3, 3, []string{"1", "\"{lt {1} 3}\"", "\"{sumi {0} 1}\""}},
	{"basename", 1, 1, []string{"/a/b/c.txt"}}, {"dirname", 1, 1, []string{"/a/b/c.txt"}}, {"extname", 1, 1, []string{"/a/b/c.txt"}},
	{"load", 1, 1, []string{"/nonexistent/zz"}}, {"lookup", 2, 3, []string{"a", "\"a 1\\nb 2\"", "\"#\""}}, {"haskey", 2, 3, []string{"a", "\"a 1\\nb 2\"", "\"#\""}},
	{"hi", 1, 1, []string{"12345"}}, {"hf", 1, 1, []string{"12345.5"}}, {"bytesize", 1, 2, []string{"1536", "1"}}, {"bytesizesi", 1, 2, []string{"1536", "1"}},
	{"downscale", 1, 2, []string{"1536", "1"}}, {"percent", 1, 4, []string{"0.5", "1", "0", "2"}}, {"json", 1, 2, []string{"\"\\{\\\"a\\\":1\\}\"", "a"}},
	{"csv", 1, 3, []string{"a", "\"b,c\"", "d"}}, {"time", 1, 3, []string{"\"2021-01-02T03:04:05Z\"", "RFC3339", "utc"}},
	{"timeformat", 1, 3, []string{"1609556645", "RFC3339", "utc"}}, {"timeattr", 2, 3, []string{"1609556645", "weekday", "utc"}},
	{"buckettime", 2, 4, []string{"\"2021-01-02T03:04:05Z\"", "hour", "RFC3339", "utc"}}, {"duration", 1, 1, []string{"1h2m3s"}}, {"durationformat", 1, 1, []string{"3723"}},
	{"color", 2, 2, []string{"red", "txt"}}, {"repeat", 2, 2, []string{"ab", "3"}}, {"bar", 3, 4, []string{"5", "10", "8", "linear"}},
}

func c08Gen(r *Rand, tier string) []string {
	// Sub-generators of the later sections are seeded from a scrambled copy of the ENTRY state: all seeds walk
	// one splitmix lattice (state = h + (seed+draws)*golden), and sections with a varying number of draws per
	// round make the streams of different seeds coincide from some point on.
	entry := r.s
	sub := func(tag uint64) *Rand {
		z := (entry ^ tag) * 0xBF58476D1CE4E5B9
		z ^= z >> 29
		z *= 0x94D049BB133111EB
		z ^= z >> 32
		return NewRand(z)
	}
	g := &c10g{r}
	var out []string
	add := func(opt bool, t string, el, ks []string) {
		out = append(out, ExprCase(opt, t, el, ks))
	}
	n := 2500
	if tier == "thorough" {
		n = 80000
	}
	// 1. every helper at every small arity with boundary arguments, as constants and as match groups
	for _, fn := range c10Fns {
		for ar := 0; ar <= fn.max+1 && ar <= 5; ar++ {
			reps := 2
			if tier == "thorough" {
				reps = 12
			}
			for k := 0; k < reps; k++ {
				var parts []string
				var el []string
				for i := 0; i < ar; i++ {
					v := Pick(r, c08Boundary)
					if fn.name == "repeat" && i == 1 {
						v = Pick(r, []string{"0", "3", "-1", "1048577", "9223372036854775807", "abc"})
					}
					if (fn.name == "round" || fn.name == "percent" || fn.name == "bytesize" || fn.name == "bytesizesi" || fn.name == "downscale") && i >= 1 {
						v = Pick(r, []string{"0", "2", "-1", "1024", "1025", "50000000000", "x"})
					}
					if fn.name == "@range" || fn.name == "@for" || fn.name == "@reduce" {
						v = Pick(r, []string{"0", "5", "-3", "x", "", "9223372036854775800", "9223372036854775807", "{0}"})
					}
					if r.Bool() {
						el = append(el, v)
						parts = append(parts, fmt.Sprintf("{%d}", len(el)-1))
					} else {
						parts = append(parts, quoteArg(v))
					}
				}
				t := "{" + fn.name + " " + strings.Join(parts, " ") + "}"
				if ar == 0 {
					t = "{" + fn.name + " }"
				}
				add(r.Bool(), t, el, []string{"src", "f", "line", "3"})
			}
		}
	}
	// 1b. systematic: for every helper, every arity it accepts (and one beyond), every argument position i and
	// every class of bad value, that value at position i - as a constant and as a match group - while all
	// other positions hold valid typical values of the helper (thorough: also every pair of positions)
	for _, h := range c08Helpers {
		for ar := h.min; ar <= h.max+1 && ar <= len(h.valid)+1; ar++ {
			if ar == 0 {
				continue
			}
			emit := func(bad map[int]string, asGroup bool) {
				var parts []string
				var el []string
				for i := 0; i < ar; i++ {
					v, isBad := bad[i]
					switch {
					case isBad && asGroup:
						el = append(el, v)
						parts = append(parts, fmt.Sprintf("{%d}", len(el)-1))
					case isBad:
						parts = append(parts, quoteArg(v))
					case i < len(h.valid):
						parts = append(parts, h.valid[i])
					default:
						parts = append(parts, h.valid[len(h.valid)-1])
					}
				}
				add(r.Bool(), "{"+h.name+" "+strings.Join(parts, " ")+"}", el, []string{"src", "f", "line", "3"})
			}
			for i := 0; i < ar; i++ {
				for _, b := range c08Bad {
					emit(map[int]string{i: b}, false)
					emit(map[int]string{i: b}, true)
				}
			}
			if tier == "thorough" {
				for i := 0; i < ar; i++ {
					for j := i + 1; j < ar; j++ {
						for _, b1 := range c08Bad {
							for _, b2 := range c08Bad {
								emit(map[int]string{i: b1, j: b2}, r.Bool())
							}
						}
					}
				}
			}
		}
	}
	// 2. random well-formed trees over all helpers
	for i := 0; i < n; i++ {
		el, ks := g.ctx()
		add(r.Bool(), g.expr(3, true), el, ks)
	}
	// 3. malformed templates: stray braces, quotes, trailing backslash, mutations of well-formed ones
	soup := []string{"{", "}", "\"", "\\", " ", "a", "1", "{0}", "{sumi", "{@map", "{!", "\x00", "é", "\xff"}
	m := n / 2
	for i := 0; i < m; i++ {
		var sb strings.Builder
		if r.Chance(1, 2) {
			k := r.Range(1, 9)
			for j := 0; j < k; j++ {
				sb.WriteString(Pick(r, soup))
			}
		} else {
			t := g.expr(2, true)
			b := []byte(t)
			for j := 0; j < r.Range(1, 3) && len(b) > 0; j++ {
				p := r.Intn(len(b))
				switch r.Intn(3) {
				case 0:
					b = append(b[:p], b[p+1:]...)
				case 1:
					b[p] = Pick(r, []byte("{}\"\\ "))
				default:
					b = append(b[:p], append([]byte{Pick(r, []byte("{}\"\\"))}, b[p:]...)...)
				}
			}
			sb.Write(b)
		}
		el, ks := g.ctx()
		add(r.Bool(), sb.String(), el, ks)
	}
	// 3b. size guards: helpers that multiply or add a length and a count/index (repeat, substr, @slice, tab …)
	// get patterns of every small length with counts at the wrap-around points of the int64 product/sum
	// (2^63/len, 2^64/len, the cap/len, each ±1), as constants and as match groups
	for plen := 1; plen <= 9; plen++ {
		pat := strings.Repeat("a", plen)
		if plen == 3 {
			pat = "\xe2\x82\xac" // one 3-byte rune
		}
		two63 := new(big.Int).Lsh(big.NewInt(1), 63)
		two64 := new(big.Int).Lsh(big.NewInt(1), 64)
		var counts []string
		for _, base := range []*big.Int{two63, two64, big.NewInt(1048576), new(big.Int).Lsh(big.NewInt(1), 62)} {
			q := new(big.Int).Div(base, big.NewInt(int64(plen)))
			for d := int64(-1); d <= 1; d++ {
				v := new(big.Int).Add(q, big.NewInt(d))
				if v.IsInt64() {
					counts = append(counts, v.String())
				}
			}
		}
		counts = append(counts, "9223372036854775807", "4611686018427387904")
		for _, cnt := range counts {
			for _, fn := range []string{"repeat"} {
				if r.Bool() {
					add(r.Bool(), "{"+fn+" "+quoteArg(pat)+" "+cnt+"}", nil, nil)
				} else {
					add(r.Bool(), "{"+fn+" {0} {1}}", []string{pat, cnt}, nil)
				}
			}
		}
		if tier == "thorough" || plen%3 == 1 {
			for _, cnt := range counts {
				add(r.Bool(), "{substr {0} 1 "+cnt+"}", []string{pat + pat}, nil)
				add(r.Bool(), "{substr {0} "+cnt+" 2}", []string{pat + pat}, nil)
				add(r.Bool(), "{@slice {@ a b c} 1 "+cnt+"}", nil, nil)
				add(r.Bool(), "{@slice {@ a b c} "+cnt+"}", nil, nil)
				add(r.Bool(), "{@select {@ a b c} "+cnt+"}", nil, nil)
				add(r.Bool(), "{select {0} "+cnt+"}", []string{"a b c"}, nil)
			}
		}
	}
	// 3c. index / size guards (every guard regenerated into Gen/C08.lean): indices MinInt64, -n-1 … n+1,
	// MaxInt64-n … MaxInt64 against tables of n entries, as constants and as match groups
	for _, n := range []int{1, 3} {
		str := "abcdefgh"[:n]
		arr := strings.Join(strings.Split("abcdefgh"[:n], ""), "\x00")
		flds := strings.Join(strings.Split("abcdefgh"[:n], ""), " ")
		I := c08Idx(n)
		for _, a := range I {
			for _, b := range I {
				if tier != "thorough" && r.Chance(1, 2) {
					continue
				}
				var el []string
				s0 := c08Arg(r, str, &el, false)
				add(r.Bool(), "{substr "+s0+" "+c08Arg(r, a, &el, false)+" "+c08Arg(r, b, &el, false)+"}", el, nil)
				add(r.Bool(), "{@slice {0} "+a+" "+b+"}", []string{arr}, nil)
			}
			var el []string
			add(r.Bool(), "{select "+c08Arg(r, flds, &el, false)+" "+c08Arg(r, a, &el, false)+"}", el, nil)
			add(r.Bool(), "{@select {0} "+a+"}", []string{arr}, nil)
			add(r.Bool(), "{@slice {0} "+a+"}", []string{arr}, nil)
			// top-level {k}: KeyBuilderContextArray.GetMatch with n elements
			add(r.Bool(), "{"+a+"}", strings.Split("abcdefgh"[:n], ""), nil)
			// sub-contexts (subContext.GetMatch): {k} inside @map / @filter / @reduce / @for
			add(r.Bool(), "{@map {0} \"[{"+a+"}]\"}", []string{arr}, nil)
			add(r.Bool(), "{@filter {0} \"{"+a+"}\"}", []string{arr}, nil)
			add(r.Bool(), "{@reduce {0} \"{"+a+"}.{1}\"}", []string{arr}, nil)
			add(r.Bool(), "{@for x \"{lt {1} 2}\" \"{"+a+"}\"}", []string{arr}, nil)
			// user functions (lazySubContext.GetMatch) called with n arguments
			call := "{fa"
			for k := 0; k < n; k++ {
				call += " " + string("abcdefgh"[k])
			}
			out = append(out, fmt.Sprintf("funcs %d %s %s %s %s", r.Intn(2), HexS("fa [{"+a+"}]\n"), HexS(call+"}"), HexListS([]string{"e0", "e1"}), "."))
		}
	}
	// divisor / dividend boundaries of divi and modi
	D := []string{"-9223372036854775808", "-9223372036854775807", "-2", "-1", "0", "1", "2", "9223372036854775806", "9223372036854775807"}
	for _, fn := range []string{"divi", "modi"} {
		for _, a := range D {
			for _, b := range D {
				var el []string
				add(r.Bool(), "{"+fn+" "+c08Arg(r, a, &el, false)+" "+c08Arg(r, b, &el, false)+"}", el, nil)
			}
			var el []string
			add(r.Bool(), "{"+fn+" "+c08Arg(r, a, &el, false)+" "+c08Arg(r, Pick(r, D), &el, false)+" "+c08Arg(r, Pick(r, D), &el, false)+"}", el, nil)
		}
	}
	// the constant divisor of bucket / bucketrange
	for _, fn := range []string{"bucket", "bucketrange"} {
		for _, size := range []string{"-9223372036854775808", "-1", "0", "1", "2", "9223372036854775807", "x"} {
			for _, v := range []string{"-9223372036854775808", "-1", "0", "7", "9223372036854775807"} {
				var el []string
				add(r.Bool(), "{"+fn+" "+c08Arg(r, v, &el, false)+" "+size+"}", el, nil)
			}
		}
	}
	// precision caps
	for _, fn := range []string{"round", "percent", "bytesize", "bytesizesi", "downscale"} {
		for _, p := range []string{"-9223372036854775808", "-1", "0", "1", "1023", "1024", "1025", "2147483647", "2147483648", "4294967296", "9223372036854775807"} {
			var el []string
			add(r.Bool(), "{"+fn+" "+c08Arg(r, Pick(r, []string{"1536", "1.5", "0", "123456789"}), &el, false)+" "+p+"}", el, nil)
		}
	}
	// the escape look-ahead of Compile: a backslash as the last rune, at every nesting level
	for _, t := range []string{"\\", "a\\", "{\\", "{a \\", "{sumi 1 2}\\", "\\\\", "{sumi 1 \\", "{sumi \"1\\\" 2}", "{sumi {0}\\ 2}", "é\\", "{@map {0} \"\\\"}"} {
		add(r.Bool(), t, []string{"1"}, nil)
	}
	// SliceSpaceExpressionContext.GetMatch: group indices at the wrap-around points of idx*2 and around len/2
	{
		line := "abcdefghij"
		for _, ix := range [][]int{{}, {0}, {0, 3}, {0, 3, 1}, {0, 10, 2, 5}, {0, 10, -1, -1, 4, 4}, {2, 8, 2, 3, -1, 5, 5, -1}} {
			var parts []string
			for _, v := range ix {
				parts = append(parts, strconv.Itoa(v))
			}
			is := "."
			if len(parts) > 0 {
				is = strings.Join(parts, ",")
			}
			h := len(ix) / 2
			for _, idx := range []string{"-9223372036854775808", "-9223372036854775807", "-4611686018427387904", "-1", "0", "1", "2", strconv.Itoa(h - 1), strconv.Itoa(h), strconv.Itoa(h + 1),
				"4611686018427387903", "4611686018427387904", "4611686018427387905", "9223372036854775806", "9223372036854775807"} {
				out = append(out, fmt.Sprintf("gm %s %s %s", HexS(line), is, idx))
			}
		}
	}
	// 3d. color / bar / load / json in every world (exprw): both values of the colour and unicode switches,
	// loading enabled / disabled, the file present / absent
	{
		os.MkdirAll(c08LoadDir, 0o755)
		colors := []string{"red", "RED", "Blue", "black", "white", "magenta", "cyan", "green", "yellow", "", "pink", "blac\u212a", "wh\u0130te", "r\u00e9d", "red\xff", " red"}
		lens := []string{"0", "1", "7", "40", "-1", "-9223372036854775808", "65536", "65537", "9223372036854775807", "x", ""}
		vals := []string{"0", "1", "5", "10", "11", "-3", "9223372036854775807", "-9223372036854775808", "x", "", "3.5"}
		maxs := []string{"10", "0", "-5", "1", "9223372036854775807", "-9223372036854775808", "x"}
		scalers := []string{"", "linear", "LIN", "log10", "log", "log2", "Log2", "l\u0130n", "exp", "{0}"}
		contents := []string{"x", "", "a 1\nb 2\n", "hello", "\x00\xff{}\\", strings.Repeat("k v\n", 50)}
		nw := 260
		if tier == "thorough" {
			nw = 6000
		}
		for i := 0; i < nw; i++ {
			var el []string
			var t string
			content := Pick(r, contents)
			file := c08LoadFile(content)
			switch r.Intn(7) {
			case 0, 1:
				t = "{color " + c08Arg(r, Pick(r, colors), &el, r.Chance(3, 4)) + " " + c08Arg(r, Pick(r, []string{"txt", "", "a\x1b[0m", "\x1b[0m", "é"}), &el, false) + "}"
			case 2, 3:
				t = "{bar " + c08Arg(r, Pick(r, vals), &el, false) + " " + c08Arg(r, Pick(r, maxs), &el, r.Chance(3, 4)) + " " + c08Arg(r, Pick(r, lens), &el, r.Chance(3, 4))
				if r.Bool() {
					sc := Pick(r, scalers)
					if sc == "{0}" {
						el = append(el, "log2")
						t += fmt.Sprintf(" {%d}", len(el)-1)
					} else {
						t += " " + quoteArg(sc)
					}
				}
				t += "}"
			case 4:
				name := Pick(r, []string{file, file, "/nonexistent/zz", os.TempDir(), "", "{0}"})
				if name == "{0}" {
					el = append(el, file)
					t = "{load {0}}"
				} else {
					t = "{load " + quoteArg(name) + "}"
				}
				if r.Chance(1, 3) {
					t = "{lookup " + c08Arg(r, Pick(r, []string{"a", "b", "k", "zz"}), &el, false) + " " + t + "}"
				}
				if r.Chance(1, 8) {
					t = "{load " + quoteArg(file) + " extra}"
				}
			case 5:
				switch r.Intn(4) {
				case 0:
					t = "{json " + c08Arg(r, Pick(r, []string{"a", "a.b", "#", ""}), &el, false) + "}"
				case 1:
					t = "{json " + c08Arg(r, Pick(r, []string{"{\"a\":1}", "", "[1,2]", "{"}), &el, false) + " " + c08Arg(r, Pick(r, []string{"a", "0", "@this", "a.#(b==1)"}), &el, false) + "}"
				case 2:
					t = "{json }"
				default:
					t = "{json a b c}"
				}
			default:
				t = "{color " + quoteArg(Pick(r, colors)) + " {bar " + c08Arg(r, Pick(r, vals), &el, false) + " 10 " + Pick(r, []string{"5", "12"}) + "}}"
			}
			out = append(out, fmt.Sprintf("exprw %d %d %d %s %s %d %s %s %s", r.Intn(2), r.Intn(2), map[bool]int{false: 0, true: 1}[r.Chance(1, 6)], HexS(file), c08Content(content),
				r.Intn(2), HexS(normTemplate(t)), HexListS(el), "."))
		}
	}
	// 3e. {format}: fmt.Sprintf on string operands - the `fmt` op (systematic verb specifications, verb soup,
	// parsenum boundaries) and {format …} inside templates (format and operands as constants and as match
	// groups, optimiser on and off) through `exprw`
	{
		r := sub(0x666d74)
		cases := fmtGenCases(sub(0x666d7431), tier)
		for i, c := range cases {
			if tier != "thorough" && i%2 != 0 && i > 60 {
				continue
			}
			out = append(out, c)
		}
		nt := 300
		if tier == "thorough" {
			nt = 6000
		}
		for i := 0; i < nt; i++ {
			var el []string
			var fs strings.Builder
			for k := r.Range(1, 3); k > 0; k-- {
				if r.Chance(1, 4) {
					fs.WriteString(Pick(r, fmtSoup))
				} else {
					fs.WriteString(fmtVerbSpec(r))
				}
				fs.WriteString(Pick(r, []string{"", "|", " "}))
			}
			t := "{format " + c08Arg(r, fs.String(), &el, false)
			for k := r.Intn(4); k > 0; k-- {
				t += " " + c08Arg(r, Pick(r, fmtOperands), &el, false)
			}
			t += "}"
			switch r.Intn(8) {
			case 0:
				t = "{len " + t + "}"
			case 1:
				t = "{format \"%s|%5s\" " + t + " " + t + "}"
			case 2:
				t = "a" + t + "b"
			case 3:
				t = "{format }"
			}
			out = append(out, fmt.Sprintf("exprw 0 0 0 %s x %d %s %s %s", HexS(c08LoadFile("x")), r.Intn(2), HexS(normTemplate(t)), HexListS(el), "."))
		}
	}
	// 3f. the time helpers in a time world (`exprt`, c08time.go): zone tables and dateparse answers in the case
	out = append(out, c08tGen(sub(0x74696d65), tier)...)
	// 3g. span wrap: every helper that computes a difference / sum / product / quotient of TWO user integers
	// gets pairs whose difference (sum, product) is not an int64
	wide, wideInf := c08SpanGen(sub(0x7370616e), tier)
	out = append(out, wide...)
	// 3h. deep and long templates (the recursion of Compile, of the formula parser and of the evaluation), NUL and
	// invalid UTF-8 at every level; 3i. adversarial JSON through the real {json} (gjson is outside the model)
	// 3j. every builder called directly with 0..5 constant arguments (0 arguments cannot be written as a template)
	{
		var names []string
		for nm := range stdlib.StandardFunctions {
			names = append(names, nm)
		}
		sort.Strings(names)
		names = append(names, "nofn")
		for _, nm := range names {
			for k := 0; k <= 5; k++ {
				out = append(out, fmt.Sprintf("build %s %d %s", HexS(nm), k, HexListS([]string{"e0", "7"})))
			}
		}
	}
	out = append(out, c08DeepGen(sub(0x64656570), tier)...)
	out = append(out, c08JsonGen(sub(0x6a736f6e), tier)...)
	// 4. the family generators (boundary values per helper)
	for _, gen := range exprGens {
		cases := c08SafeGen(gen, NewRand(r.U64()))
		for i, c := range cases {
			if !strings.HasPrefix(c, "expr ") {
				continue
			}
			if tier != "thorough" && i%4 != 0 {
				continue
			}
			out = append(out, c)
		}
	}
	// Loops that run to MAX_ITERATIONS (answer `<INF>`) cost the Lean model a million interpreted rounds
	// each: keep a few per run (all of them would take the quick tier beyond its budget).
	infCap := 3
	if tier == "thorough" {
		infCap = 8
	}
	// the wide {@range}s that run to the cap are a family of their own (not competing with the random ones
	// for the budget above)
	return append(c08CapInf(out, infCap), wideInf...)
}

// c08Wide: integers whose pairwise differences, sums and products leave int64 (both ends, ±2^62 and its
// neighbours, ±5·10^18 - twice that is beyond 2^63 -, the small values)
var c08Wide = []string{"-9223372036854775808", "-9223372036854775807", "-5000000000000000000", "-4611686018427387905", "-4611686018427387904",
	"-1", "0", "1", "4611686018427387903", "4611686018427387904", "5000000000000000000", "9223372036854775806", "9223372036854775807"}

// c08SpanGen: see 3g.  The second result holds the {@range}s of a span beyond 2^63 with a small step: they run
// to MAX_ITERATIONS (`<INF>`), a million interpreted rounds for the model each, so there are only a few.
func c08SpanGen(r *Rand, tier string) (out, inf []string) {
	add := func(t string, el []string) {
		out = append(out, ExprCase(r.Bool(), t, el, nil))
	}
	bi := func(s string) *big.Int { v, _ := new(big.Int).SetString(s, 10); return v }
	min64, max64 := bi("-9223372036854775808"), bi("9223372036854775807")
	// {@range a b incr}: the step is chosen so that the loop makes k rounds (k = 1, 2, 5, 9) however wide the
	// span is - a pre-computed count `(stop-start)/incr` wraps exactly here -, in both directions
	for i, a := range c08Wide {
		for _, b := range c08Wide[i+1:] {
			span := new(big.Int).Sub(bi(b), bi(a))
			for _, k := range []int64{1, 2, 5, 9} {
				step := new(big.Int).Div(new(big.Int).Add(span, new(big.Int).SetInt64(k-1)), new(big.Int).SetInt64(k)) // ceil(span/k)
				if step.Cmp(max64) > 0 {
					step = new(big.Int).Set(max64)
				}
				if step.Sign() == 0 {
					continue
				}
				if tier != "thorough" && r.Chance(1, 3) {
					continue
				}
				var el []string
				add("{@range "+c08Arg(r, a, &el, false)+" "+c08Arg(r, b, &el, false)+" "+c08Arg(r, step.String(), &el, false)+"}", el)
				el = nil
				add("{@range "+c08Arg(r, b, &el, false)+" "+c08Arg(r, a, &el, false)+" "+c08Arg(r, new(big.Int).Neg(step).String(), &el, false)+"}", el)
				if k == 1 { // the other end of int64 as the step
					add("{@range "+a+" "+b+" 9223372036854775807}", nil)
					add("{@range "+b+" "+a+" -9223372036854775808}", nil)
					add("{@len {@range "+a+" "+b+" "+step.String()+"}}", nil)
				}
			}
		}
	}
	// short ranges that touch the ends of int64 (the overflow `break` in front of `i += incr`)
	for _, d := range []int64{0, 1, 2, 5} {
		for _, inc := range []string{"", "1", "2", "3", "4611686018427387904", "9223372036854775807"} {
			lo, hi := new(big.Int).Sub(max64, new(big.Int).SetInt64(d)).String(), max64.String()
			add("{@range "+lo+" "+hi+" "+inc+"}", nil)
			lo, hi = min64.String(), new(big.Int).Add(min64, new(big.Int).SetInt64(d)).String()
			add("{@range "+lo+" "+hi+" "+inc+"}", nil)
			if inc != "" {
				var el []string
				add("{@range "+c08Arg(r, hi, &el, false)+" "+c08Arg(r, lo, &el, false)+" -"+inc+"}", el)
			}
		}
	}
	// two-operand integer helpers over every pair; three operands by draws
	n3 := 120
	if tier == "thorough" {
		n3 = 1500
	}
	for _, fn := range []string{"sumi", "subi", "multi", "divi", "modi", "maxi", "mini", "bucket", "bucketrange", "lt", "gte", "eq", "pow", "sumf", "subf", "multf"} {
		for _, a := range c08Wide {
			for _, b := range c08Wide {
				if tier != "thorough" && r.Chance(1, 2) {
					continue
				}
				var el []string
				if fn == "bucket" || fn == "bucketrange" { // the size is a constant of the template
					add("{"+fn+" "+c08Arg(r, a, &el, false)+" "+b+"}", el)
				} else {
					add("{"+fn+" "+c08Arg(r, a, &el, false)+" "+c08Arg(r, b, &el, false)+"}", el)
				}
			}
		}
	}
	for i := 0; i < n3; i++ {
		var el []string
		a, b, c := c08Arg(r, Pick(r, c08Wide), &el, false), c08Arg(r, Pick(r, c08Wide), &el, false), c08Arg(r, Pick(r, c08Wide), &el, false)
		switch r.Intn(8) {
		case 0:
			add("{"+Pick(r, []string{"sumi", "subi", "multi", "divi", "modi", "maxi", "mini"})+" "+a+" "+b+" "+c+"}", el)
		case 1:
			add("{clamp "+a+" "+b+" "+c+"}", el)
		case 2:
			add("{substr "+quoteArg(Pick(r, []string{"", "a", "abcdef", "\xe2\x82\xac\xe2\x82\xac"}))+" "+a+" "+b+"}", el)
		case 3:
			add("{@slice {@ a b c d} "+a+" "+b+"}", el)
		case 4:
			add("{percent "+a+" 1 "+b+" "+c+"}", el)
		case 5:
			add("{bar "+a+" "+Pick(r, c08Wide)+" "+Pick(r, []string{"0", "1", "10", "65536"})+"}", el)
		case 6:
			add("{! \"[0] "+Pick(r, []string{"+", "-", "*", "/", "%", "<<", ">>", "&", "|", "^"})+" [1]\" "+a+" "+b+"}", el)
		default:
			add("{"+Pick(r, []string{"expbucket", "hi", "durationformat", "bytesize", "@range", "isint", "ceil"})+" "+a+"}", el)
		}
	}
	// the wide spans with the default step / a small step
	infT := [][]string{{"{@range -9223372036854775808 9223372036854775807}"}, {"{@range -5000000000000000000 5000000000000000000}"},
		{"{@range {0} {1}}", "-9223372036854775808", "9223372036854775807"}, {"{@range 9223372036854775807 -9223372036854775808 -1}"},
		{"{@range {0} {1} 3}", "-5000000000000000000", "5000000000000000000"}, {"{@range -9223372036854775808 1}"},
		{"{@range 4611686018427387904 -4611686018427387905 -2}"}, {"{@range -1 9223372036854775807}"}}
	keep := 3
	if tier == "thorough" {
		keep = len(infT)
	}
	pick := 2 + r.Intn(len(infT)-2)
	for i, c := range infT {
		if (i < 2 || i == pick || tier == "thorough") && keep > 0 {
			inf = append(inf, ExprCase(r.Bool(), c[0], c[1:], nil))
			keep--
		}
	}
	return out, inf
}

// c08SafeGen runs a family generator of another property; some of them evaluate real code while
// generating, so a defect in /repo can make them panic: that must not take the whole run down (the
// families of this file then find the failing input).
func c08SafeGen(gen func(r *Rand, tier string) []string, r *Rand) (cases []string) {
	defer func() {
		if e := recover(); e != nil {
			cases = nil
		}
	}()
	return gen(r, "quick")
}

// ---- loops that run to MAX_ITERATIONS, and loops whose value grows while they do
//
// A {@for} / {@reduce} whose value grows every round does not return in practice: a million rounds of
// a growing string are ~10^11 bytes (the recorded known finding "resource exhaustion").  Evaluated inside
// the harness process such a case cannot be stopped (the watchdog answers `hang`, the goroutine goes on
// allocating) and takes the whole run down, so every candidate is first probed in a CHILD process
// (`corr run C08` with an address-space limit and a short watchdog) that can be killed:
//   * child died / `hang` with a large heap  -> the known resource-exhaustion class: dropped from the set
//     (counted in stats as dropped.resource);
//   * `hang` with a small heap (a loop that spins without allocating: a genuine "fails to return")
//     -> kept, so that the in-process run reports it;
//   * answers containing `<INF>` (the case or one of its {@for}/{@range} sub-templates on its own)
//     -> kept for the first `max` only: each costs the Lean model a million interpreted rounds.

const c08InfHex = "3c494e463e"

var c08Dropped int

// c08Template: the template text of an expression case (for `funcs`: definitions + template).
func c08Template(f []string) (t, el, ks string) {
	switch {
	case f[0] == "expr" && len(f) == 5:
		return string(UnHex(f[2])), f[3], f[4]
	case f[0] == "exprw" && len(f) == 10:
		return string(UnHex(f[7])), f[8], f[9]
	case f[0] == "funcs" && len(f) == 6:
		return string(UnHex(f[2])) + string(UnHex(f[3])), f[4], f[5]
	}
	return "", ".", "."
}

// c08SubLoops: the {@for …} / {@range …} sub-templates of t as `expr` cases over the same context.
func c08SubLoops(t, el, ks string) []string {
	var out []string
	for _, head := range []string{"{@for", "{@range"} {
		for from := 0; ; {
			i := strings.Index(t[from:], head)
			if i < 0 {
				break
			}
			i += from
			depth, j := 0, i
			for ; j < len(t); j++ {
				if t[j] == '\\' {
					j++
					continue
				}
				if t[j] == '{' {
					depth++
				} else if t[j] == '}' {
					depth--
					if depth == 0 {
						break
					}
				}
			}
			if j < len(t) {
				sub := strings.ReplaceAll(t[i:j+1], "\\\"", "\"")
				out = append(out, fmt.Sprintf("expr 0 %s %s %s", HexS(normTemplate(sub)), el, ks))
			}
			from = i + 1
		}
	}
	return out
}

// c08Probe evaluates case lines in child processes; a child is restarted after every line it does not
// survive (answer "died") or answers `hang…` to.
func c08Probe(lines []string) []string {
	ans := make([]string, len(lines))
	for next := 0; next < len(lines); {
		cmd := exec.Command(os.Args[0], "run", "C08")
		cmd.Env = append(os.Environ(), "VERIF_C08_CHILD=1")
		stdin, err1 := cmd.StdinPipe()
		stdout, err2 := cmd.StdoutPipe()
		if err1 != nil || err2 != nil || cmd.Start() != nil {
			for ; next < len(lines); next++ {
				ans[next] = "probe-failed"
			}
			break
		}
		go func(from int) {
			w := bufio.NewWriter(stdin)
			for _, l := range lines[from:] {
				fmt.Fprintln(w, "C08 "+l)
			}
			w.Flush()
			stdin.Close()
		}(next)
		sc := bufio.NewScanner(stdout)
		sc.Buffer(make([]byte, 1<<20), 1<<28)
		restart := false
		for next < len(lines) && sc.Scan() {
			ans[next] = sc.Text()
			next++
			if strings.HasPrefix(ans[next-1], "hang") {
				restart = true
				break
			}
		}
		if !restart && next < len(lines) { // the child died on lines[next]
			ans[next] = "died"
			next++
		}
		cmd.Process.Kill()
		cmd.Wait()
	}
	return ans
}

// c08CapInf: see the comment above.
func c08CapInf(cases []string, max int) []string {
	type cand struct{ first, n int }
	var lines []string
	cands := map[int]cand{}
	for k, c := range cases {
		f := strings.Fields(c)
		if len(f) < 3 {
			continue
		}
		t, el, ks := c08Template(f)
		if !strings.Contains(t, "@for") && !strings.Contains(t, "@range") && !strings.Contains(t, "@reduce") {
			continue
		}
		subs := c08SubLoops(t, el, ks)
		cands[k] = cand{len(lines), 1 + len(subs)}
		lines = append(lines, c)
		lines = append(lines, subs...)
	}
	ans := c08Probe(lines)
	seen := 0
	out := cases[:0:0]
	for k, c := range cases {
		cd, is := cands[k]
		if !is {
			out = append(out, c)
			continue
		}
		own := ans[cd.first]
		if own == "died" || own == "hang-grow" || own == "probe-failed" {
			c08Dropped++
			continue
		}
		long := false
		for _, a := range ans[cd.first : cd.first+cd.n] {
			if strings.Contains(a, c08InfHex) {
				long = true
			}
		}
		if long {
			seen++
			if seen > max {
				continue
			}
		}
		out = append(out, c)
	}
	return out
}

// c08ChildRun is c08Run inside a probe child: an inner watchdog (shorter than the harness one) classifies a
// case that does not return by the heap it builds up.
func c08ChildRun(f []string) string {
	ch := make(chan string, 1)
	go func() {
		defer func() {
			if e := recover(); e != nil {
				ch <- "panic " + strings.ReplaceAll(fmt.Sprint(e), "\n", " ")
			}
		}()
		ch <- c08Run(f)
	}()
	// A legitimate MAX_ITERATIONS loop finishes well inside the deadline even on a loaded machine; a growing
	// accumulator shows in the heap long before it; whatever is left spins without allocating.
	deadline := time.After(6 * time.Second)
	tick := time.NewTicker(100 * time.Millisecond)
	defer tick.Stop()
	for {
		select {
		case a := <-ch:
			return a
		case <-tick.C:
			var ms runtime.MemStats
			runtime.ReadMemStats(&ms)
			if ms.HeapAlloc > 200<<20 {
				return "hang-grow"
			}
		case <-deadline:
			return "hang-spin"
		}
	}
}

// c08LoadFile: the path of the one file of an `exprw` world, named after its content.
func c08LoadFile(content string) string {
	if content == "x" {
		return filepath.Join(c08LoadDir, "absent.txt")
	}
	h := uint32(2166136261)
	for i := 0; i < len(content); i++ {
		h = (h ^ uint32(content[i])) * 16777619
	}
	return filepath.Join(c08LoadDir, fmt.Sprintf("t-%08x.txt", h))
}

func c08Content(c string) string {
	if c == "x" {
		return "x"
	}
	return HexS(c)
}

func quoteArg(v string) string {
	var sb strings.Builder
	sb.WriteByte('"')
	for i := 0; i < len(v); i++ {
		switch v[i] {
		case '"', '\\', '{', '}':
			sb.WriteByte('\\')
		}
		sb.WriteByte(v[i])
	}
	sb.WriteByte('"')
	return sb.String()
}

func c08Stats(cases []string) map[string]int {
	st := map[string]int{}
	fmtStats(cases, st)
	delete(st, "op.fmt")
	c08tStats(cases, st)
	if c08Dropped > 0 {
		st["dropped.resource"] = c08Dropped
	}
	for _, c := range cases {
		f := strings.Fields(c)
		if len(f) < 3 {
			continue
		}
		st["op."+f[0]]++
		if f[0] == "gm" || f[0] == "fmt" {
			continue
		}
		if f[0] == "exprw" && len(f) == 10 {
			st[fmt.Sprintf("world.color%s.unicode%s.noload%s", f[1], f[2], f[3])]++
			f = []string{"expr", f[6], f[7], f[8], f[9]}
		}
		if f[0] == "funcs" && len(f) == 6 {
			f = []string{"expr", f[1], f[3], f[4], f[5]}
		}
		if f[0] == "exprt" && len(f) == 6 {
			f = []string{"expr", f[2], f[3], f[4], f[5]}
		}
		if len(f) != 5 {
			continue
		}
		t := string(UnHex(f[2]))
		if i := strings.IndexByte(t, '{'); i >= 0 {
			rest := t[i+1:]
			if j := strings.IndexAny(rest, " }"); j > 0 {
				name := rest[:j]
				for k := 0; k < len(name); k++ {
					if name[k] < 0x21 || name[k] > 0x7e { // keep the stats file printable ASCII
						name = "(other)"
						break
					}
				}
				st["fn."+name]++
			}
		}
		if f[1] == "1" {
			st["opt.on"]++
		} else {
			st["opt.off"]++
		}
	}
	return st
}

func init() {
	if os.Getenv("VERIF_C08_CHILD") != "" {
		// a probe child (c08Probe): bounded address space, inner watchdog
		lim := syscall.Rlimit{Cur: 4 << 30, Max: 4 << 30}
		syscall.Setrlimit(syscall.RLIMIT_AS, &lim)
		Register("C08", &Prop{Gen: c08Gen, Run: c08ChildRun, Stats: c08Stats, Timeout: 10 * time.Second})
		return
	}
	Register("C08", &Prop{Gen: c08Gen, Run: c08Run, Stats: c08Stats, Timeout: 10 * time.Second})
}

// c08DeepGen: templates whose nesting depth / length / argument count is large (the cost of Compile is quadratic in
// the depth - known finding `quadratic-nesting` -, so the depths stay where a run takes milliseconds), with NUL
// bytes and invalid UTF-8 at the innermost and at every level.
func c08DeepGen(r *Rand, tier string) []string {
	var out []string
	add := func(t string, el []string) {
		out = append(out, ExprCase(r.Bool(), t, el, []string{"k", "v"}))
	}
	rep := strings.Repeat
	depths := []int{2, 10, 40, 120}
	longs := []int{100, 3000}
	if tier == "thorough" { // the model costs about depth^3: 120 is a third of a second per case, 300 four seconds
		depths = append(depths, 160)
		longs = append(longs, 8000) // the model is quadratic in the template length as well
	}
	inner := []string{"x", "{0}", "{k}", "\x00", "\xff\xfe", "\"\x00\"", "{\x00}", "{9223372036854775807}", "\\", "{", ""}
	for _, d := range depths {
		for _, in := range inner {
			if tier != "thorough" && d > 10 && r.Chance(1, 2) {
				continue
			}
			el := []string{Pick(r, []string{"v", "", "\x00", "\xff"})}
			add(rep("{coalesce ", d)+in+rep("}", d), el)
			if d > 120 { // one shape is enough at the largest depth
				continue
			}
			add(rep("{if 1 ", d)+in+rep("}", d), el)
			add(rep("{@len ", d)+in+rep("}", d), el)
			add(rep("{sumi 1 ", d)+in+rep("}", d), el)
			add(rep("{"+Pick(r, []string{"upper", "not", "@", "$", "hi", "\x00", "\xff"})+" ", d)+in+rep("}", d), el)
			add("{! "+rep("(", d)+"[0]+"+in+rep(")", d)+"}", []string{"3"})
			add("{! "+rep(Pick(r, []string{"-", "!", "abs(", "-("}), d)+"1}", nil)
			add(rep("{coalesce \x00 ", d)+in+rep("}", d), el)
			add(rep("{@map {@ a b} \"", 1)+rep("{coalesce ", d)+"{0}"+rep("}", d)+"\"}", el)
		}
	}
	for _, n := range longs {
		el := []string{"v"}
		add(rep("{", n)+"0"+rep("}", n), el)
		add(rep("{", n), el)
		add(rep("}", n), el)
		add(rep("{}", n), el)
		add(rep("a{0}", n), el)
		add(rep("\x00", n), el)
		add(rep("\xff", n), el)
		add(rep("\\", n), el)
		add(rep("\\", n+1), el)
		add("{coalesce "+rep("\"", n)+"}", el)
		add("{coalesce "+rep("\"", n+1)+"}", el)
		add("{coalesce"+rep(" {0}", n)+"}", el)
		add("{sumi"+rep(" 1", n)+"}", el)
		add("{sumi 1 "+rep("9", n)+"}", el)
		add("{"+rep("9", n)+"}", el)
		add("{-"+rep("9", n)+"}", el)
		add("{"+rep("k", n)+"}", el)
		add("{! 1"+rep("+1", n)+"}", el)
		add("{! "+rep("9", n)+"}", el)
		add("{! ["+rep("9", n)+"]}", el)
		add("{@ "+rep("a ", n)+"}", el)
		add("{@len {@split {0} \"\"}}", []string{rep("ab", n)})
		add("{len {0}}", []string{rep("\x00\xff", n)})
		add("{"+rep("f", n)+" 1}", el)
	}
	return out
}

// c08JsonGen: documents and paths gjson has to survive (deep nesting, open containers, huge numbers, invalid
// UTF-8, truncated strings and escapes, NUL, many keys; queries, modifiers, wildcards, runs of separators).  The
// model answers `unmodelled json`, so the oracle is "the real code returned" within the harness timeout.
// (`@pretty` on deep nesting is left out: its output is quadratic in the depth by definition.)
func c08JsonGen(r *Rand, tier string) []string {
	rep := strings.Repeat
	deep, many := 1500, 3000
	docs := []string{
		rep("[", deep) + rep("]", deep), rep("[", deep), rep(`{"a":`, deep) + "1" + rep("}", deep), rep(`{"a":`, deep),
		`{"a":` + rep("9", 4000) + `}`, `{"a":1e999999999}`, `{"a":-1e-999999999,"b":-0,"c":0x10,"d":NaN}`,
		"{\"a\":\"\xff\xfe\xc0\x80\",\"\xff\":1}", `{"a":"abc`, `{"a":[1,2,`, `{"a":"\u12`, `{"a":"\`, `{"a":"` + rep(`\ud800`, 500) + `"}`,
		"{\"a\":\"x\x00y\"}", "{" + rep(`"k":1,`, many) + `"a":2}`, `{"a":[` + rep("1,", many) + `1]}`, `{"a":[{"b":1},{"b":2,"c":[1,2]},{"b":"1"}]}`,
		"", rep(" ", 5000), rep(`"`, 3001), `{"a":"` + rep(`\`, 3001) + `"}`, `{"` + rep("a", 3000) + `":1}`, "null", "tru", "[,]", "{,}", `{"a"}`, `{"a":}`, "\x00", "]", "}",
	}
	paths := []string{"a", "a.a.a.a", rep("a.", 2000) + "a", "#", "a.#", "a.#.#", "a.0", "a.-1", "a.99999999999999999999", "@reverse", "@this", "@ugly", "@flatten",
		"@valid", "@keys", "@values", "@join", "a|@reverse|@flatten", "a.#(b==1)", "a.#(b==1)#", "a.#(b==1)#.c.#", "a.#(#(#(", "a.#(", "#(", "@", "@x:", "@pretty:{", "*", rep("*a", 30) + "*b",
		rep("?", 2000), `\`, rep(`\`, 2001), "..", "..a", "a..", ".", "", "{a,b}", "[a,b]", "{", "[", rep("{", 2000), rep("[", 2000), `{"x":a}`, "!a", "a.@tostr", "a.@fromstr", "@fromstr",
		"@group", "@dig:a", "a.#(>1)#", `a.#(%"*")#`, `a.#(!%"` + rep("*a", 30) + `")#`, "\xff", "a\x00", "a.#(b=\"1\")#", "a.#(b>=1)#.b", "a.1.c.-1", "@pretty", "a.@pretty"}
	n := 300
	if tier == "thorough" {
		n = len(docs) * len(paths)
	}
	var out []string
	for i := 0; i < n; i++ {
		d, p := Pick(r, docs), Pick(r, paths)
		if tier == "thorough" {
			d, p = docs[i/len(paths)], paths[i%len(paths)]
		}
		if strings.Contains(p, "@pretty") && len(d) > 2000 {
			continue
		}
		var t string
		el := []string{d, p}
		switch r.Intn(4) {
		case 0:
			t = "{json {1}}"
		case 1:
			t = "{json {0} " + quoteArg(p) + "}"
		case 2:
			t = "{len {json {0} {1}}}"
		default:
			t = "{json {0} {1}}"
		}
		out = append(out, fmt.Sprintf("exprw 0 0 0 %s x %d %s %s %s", HexS(c08LoadFile("x")), r.Intn(2), HexS(t), HexListS(el), "."))
	}
	return out
}
