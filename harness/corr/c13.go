//go:build c13

package main

import (
	"fmt"
	"math"
	"math/big"
	"strconv"
	"strings"
	"time"
	"unicode"
	"unicode/utf8"

	"rare/cmd/helpers"
	"rare/pkg/aggregation"
	"rare/pkg/aggregation/sorting"

	"github.com/araddon/dateparse"
)

// ---------------------------------------------------------------- library oracles
// dateparse.ParseFormat / time.Parse are still handed to the model as data (df, dp fields).
// strconv.ParseFloat and strings.ToLower are NOT: the Lean driver computes them with the model
// (F64.parseFloat, lowerK); ops pf / smart / lower / fold / lowtab compare the models with Go directly.

// floatOrd is an order embedding of the non-NaN float64s into int64 (-0 and +0 coincide).
func floatOrd(v float64) int64 {
	if v == 0 {
		return 0
	}
	b := math.Float64bits(v)
	if b>>63 == 1 {
		return -int64(b & 0x7fffffffffffffff)
	}
	return int64(b)
}

func c13PF(keys []string) string {
	if len(keys) == 0 {
		return "."
	}
	out := make([]string, len(keys))
	for i, k := range keys {
		v, err := strconv.ParseFloat(k, 64)
		switch {
		case err != nil:
			out[i] = "e"
		case v != v:
			out[i] = "n"
		default:
			out[i] = strconv.FormatInt(floatOrd(v), 10)
		}
	}
	return strings.Join(out, ",")
}

func instant(t time.Time) string {
	x := new(big.Int).Mul(big.NewInt(t.Unix()), big.NewInt(1000000000))
	x.Add(x, big.NewInt(int64(t.Nanosecond())))
	return x.String()
}

// c13Dates returns the df and dp fields and the layouts (id -> layout string).
func c13Dates(keys []string) (string, string, []string) {
	if len(keys) == 0 {
		return ".", ".", nil
	}
	var layouts []string
	ids := map[string]int{}
	df := make([]string, len(keys))
	for i, k := range keys {
		f, err := dateparse.ParseFormat(k)
		if err != nil || f == "" {
			df[i] = "x"
			continue
		}
		id, ok := ids[f]
		if !ok {
			id = len(layouts)
			ids[f] = id
			layouts = append(layouts, f)
		}
		df[i] = strconv.Itoa(id)
	}
	if len(layouts) == 0 {
		return strings.Join(df, ","), ".", nil
	}
	rows := make([]string, len(layouts))
	for r, f := range layouts {
		cells := make([]string, len(keys))
		for i, k := range keys {
			t, err := time.Parse(f, k)
			if err != nil {
				cells[i] = "x"
			} else {
				cells[i] = instant(t)
			}
		}
		rows[r] = strings.Join(cells, ",")
	}
	return strings.Join(df, ","), strings.Join(rows, "/"), layouts
}

// ---------------------------------------------------------------- Run

type c13Item struct {
	sorting.NameValuePair
}

func c13Build(name string) (sorting.NameValueSorter, string) {
	s, err := helpers.BuildSorter(name)
	if err != nil {
		if strings.Contains(err.Error(), "invalid sort modifier") {
			return nil, "err modifier"
		}
		if strings.Contains(err.Error(), "unknown sort") {
			return nil, "err unknown"
		}
		return nil, "err " + err.Error()
	}
	return s, ""
}

func c13Values(f string, n int) []int64 {
	out := make([]int64, n)
	if f == "." {
		return out
	}
	for i, p := range strings.Split(f, ",") {
		if i < n {
			out[i], _ = strconv.ParseInt(p, 10, 64)
		}
	}
	return out
}

func c13Ints(f string) []int {
	if f == "." {
		return nil
	}
	var out []int
	for _, p := range strings.Split(f, ",") {
		v, _ := strconv.Atoi(p)
		out = append(out, v)
	}
	return out
}

func c13Names(items []sorting.NameValuePair) string {
	l := make([]string, len(items))
	for i, it := range items {
		l[i] = it.Name
	}
	return HexListS(l)
}

func c13LowerIsASCII(s string) bool {
	for i := 0; i < len(s); i++ {
		if s[i] >= utf8.RuneSelf {
			return false
		}
	}
	return true
}

func c13RunLib(f []string) (string, bool) {
	switch f[0] {
	case "pf":
		return "ok " + c13PF(UnHexListS(f[1])), true
	case "smart":
		keys := UnHexListS(f[1])
		n := len(keys)
		m := make([][]bool, n)
		var sb strings.Builder
		for i := 0; i < n; i++ {
			m[i] = make([]bool, n)
			for j := 0; j < n; j++ {
				m[i][j] = sorting.ByNameSmart(keys[i], keys[j])
				if m[i][j] {
					sb.WriteByte('1')
				} else {
					sb.WriteByte('0')
				}
			}
		}
		mat := sb.String()
		if n == 0 {
			mat = "-"
		}
		return "ok m=" + mat + " v=" + c13Verdict(n, m), true
	case "lower":
		return "ok " + HexS(strings.ToLower(string(UnHex(f[1])))), true
	case "fold":
		l := strings.ToLower(string(UnHex(f[1])))
		if c13LowerIsASCII(l) {
			return "ok " + HexS(l), true
		}
		return "ok none", true
	case "lowtab":
		var parts []string
		for r := rune(0); r <= unicode.MaxRune; r++ {
			l := unicode.ToLower(r)
			if r < 0x80 {
				want := r
				if 'A' <= r && r <= 'Z' {
					want = r + 32
				}
				if l != want {
					parts = append(parts, fmt.Sprintf("ascii-mismatch-%d", r))
				}
			} else if l < 0x80 {
				parts = append(parts, fmt.Sprintf("%d:%d", r, l))
			}
			if l < 0 || l == 0x130 || l == 0x212A {
				parts = append(parts, fmt.Sprintf("bad-image-%d", r))
			}
		}
		return "ok " + strings.Join(parts, ","), true
	}
	return "", false
}

func c13Run(f []string) string {
	if ans, ok := c13RunLib(f); ok {
		return ans
	}
	op := f[0]
	if op == "groups" {
		return c13RunGroups(f)
	}
	if op == "axes" || op == "axesagg" {
		return c13RunAxes(f)
	}
	if op == "topn" {
		return c13RunTopN(f)
	}
	if op == "sbv" {
		if helpers.SortsByValue(string(UnHex(f[1]))) {
			return "ok 1"
		}
		return "ok 0"
	}
	if op == "tparse" {
		return c13TParse(string(UnHex(f[1])), UnHexListS(f[2]))
	}
	switch op { // the d-ops differ only in what the MODEL is told (layouts instead of instants)
	case "dsort", "dsortspec", "dagg", "dcmpseq", "daxioms":
		op = op[1:]
	}
	name := string(UnHex(f[1]))
	keys := UnHexListS(f[2])
	vals := c13Values(f[3], len(keys))
	all := make([]sorting.NameValuePair, len(keys))
	for i := range keys {
		all[i] = sorting.NameValuePair{Name: keys[i], Value: vals[i]}
	}
	switch op {
	case "sort", "sortspec":
		sorter, e := c13Build(name)
		if sorter == nil {
			return e
		}
		var items []sorting.NameValuePair
		for _, i := range c13Ints(f[4]) {
			items = append(items, all[i])
		}
		sorting.SortBy(items, sorter, func(x sorting.NameValuePair) sorting.NameValuePair { return x })
		return "ok " + c13Names(items)
	case "agg":
		// the same rows through the real aggregators (items arrive in Go map order)
		if _, e := c13Build(name); e != "" {
			return e
		}
		var first string
		for round := 0; round < 3; round++ {
			counter := aggregation.NewCounter()
			cols := aggregation.NewTable("\x00")
			rows := aggregation.NewTable("\x00")
			for _, it := range all {
				counter.SampleValue(it.Name, it.Value)
				cols.SampleItem(it.Name, "r", it.Value)
				rows.SampleItem("c", it.Name, it.Value)
			}
			s1, _ := c13Build(name)
			s2, _ := c13Build(name)
			s3, _ := c13Build(name)
			var a, b, c []string
			for _, p := range counter.ItemsSortedBy(len(all)+1, s1) {
				a = append(a, p.Name)
			}
			b = cols.OrderedColumns(s2)
			for _, r := range rows.OrderedRows(s3) {
				c = append(c, r.Name())
			}
			ra, rb, rc := HexListS(a), HexListS(b), HexListS(c)
			if ra != rb || ra != rc {
				return fmt.Sprintf("ok-disagree counter=%s cols=%s rows=%s", ra, rb, rc)
			}
			if round == 0 {
				first = ra
			} else if ra != first {
				return fmt.Sprintf("ok-unstable %s %s", first, ra)
			}
		}
		return "ok " + first
	case "cmpseq":
		sorter, e := c13Build(name)
		if sorter == nil {
			return e
		}
		var sb strings.Builder
		sb.WriteString("ok ")
		if f[4] != "." {
			for _, p := range strings.Split(f[4], ",") {
				ij := strings.Split(p, "-")
				i, _ := strconv.Atoi(ij[0])
				j, _ := strconv.Atoi(ij[1])
				if sorter(all[i], all[j]) {
					sb.WriteByte('1')
				} else {
					sb.WriteByte('0')
				}
			}
		}
		return sb.String()
	case "axioms":
		if _, e := c13Build(name); e != "" {
			return e
		}
		n := len(all)
		m := make([][]bool, n)
		var sb strings.Builder
		for i := 0; i < n; i++ {
			m[i] = make([]bool, n)
			for j := 0; j < n; j++ {
				fresh, _ := c13Build(name)
				m[i][j] = fresh(all[i], all[j])
				if m[i][j] {
					sb.WriteByte('1')
				} else {
					sb.WriteByte('0')
				}
			}
		}
		mat := sb.String()
		if n == 0 {
			mat = "-"
		}
		return "ok m=" + mat + " v=" + c13Verdict(n, m)
	}
	return "bad-op"
}

func c13Verdict(n int, m [][]bool) string {
	for i := 0; i < n; i++ {
		for j := i + 1; j < n; j++ {
			if m[i][j] == m[j][i] {
				return fmt.Sprintf("asym:%d,%d", i, j)
			}
		}
	}
	for i := 0; i < n; i++ {
		for j := 0; j < n; j++ {
			for k := 0; k < n; k++ {
				if i != j && j != k && i != k && m[i][j] && m[j][k] && !m[i][k] {
					return fmt.Sprintf("trans:%d,%d,%d", i, j, k)
				}
			}
		}
	}
	return "total"
}

// ---------------------------------------------------------------- generator

var c13Weekdays = []string{"sunday", "monday", "tuesday", "wednesday", "thursday", "friday", "saturday",
	"sun", "mon", "tue", "tues", "wed", "thu", "thur", "thurs", "fri", "sat"}
var c13Months = []string{"january", "jan", "february", "feb", "march", "mar", "april", "apr", "may", "june", "jun",
	"july", "jul", "august", "aug", "september", "sep", "sept", "october", "oct", "november", "nov", "december", "dec"}
var c13Numbers = []string{"1", "1.0", "01", "1e3", "-2", "+3", "0x10", "inf", "nan", "-inf", "+Inf", "NaN", "Infinity",
	"1_000", "0x1p4", "1e400", "-1e400", "1e-400", ".5", "5.", "0", "-0", "0.0", "1E3", "1000", "10", "2", "9", "100",
	"1.5", "-1.5", "00", "007", "3.14", "9007199254740993", "9007199254740992", "1e", "--1", "0x", "+", "-", ".", "1.0.0",
	"0b11", "0o7", "1e+2", "2.50", "2.5"}
var c13NearNumbers = []string{"1a", "a1", "", " 1", "1 ", "10x", "2 apples", "1,000", "١"}
var c13Words = []string{"abc", "qef", "egf", "zac", "bbb", "a", "ab", "b", "B", "Abc", "ABC", "z", "g", "error", "warn", "info",
	"GET", "POST", "/index.html", "/", "404", "200", "500", "fri13", "monk", "marble", "ma", "su", "decade", "julia",
	"é", "\xff", "a\x00b", "frİday", "İ", "K"}
var c13DateLayouts = []string{"2006-01-02", "2006-01-02 15:04:05", "01/02/2006", "02 Jan 2006", "Jan 2, 2006",
	"2006-01-02T15:04:05Z", "2006-01-02 15:04:05.000", "2006/01/02", "Mon Jan 2 15:04:05 2006", "1/2/2006", "2006-01-02T15:04:05-07:00",
	"January 2, 2006", "20060102", "15:04:05", "2006-01"}

func c13Case(r *Rand, s string) string {
	switch r.Intn(5) {
	case 0:
		return strings.ToUpper(s)
	case 1:
		if len(s) > 0 {
			return strings.ToUpper(s[:1]) + s[1:]
		}
	case 2:
		b := []byte(s)
		for i := range b {
			if r.Bool() && b[i] >= 'a' && b[i] <= 'z' {
				b[i] -= 32
			}
		}
		return string(b)
	}
	return s
}

// c13Dot: now and then spell an i as U+0130 (strings.ToLower maps it to 'i': still a weekday/month name)
// or as dotless U+0131 (not a name any more).
func c13Dot(r *Rand, s string) string {
	if !r.Chance(1, 12) {
		return s
	}
	for i := 0; i < len(s); i++ {
		if s[i] == 'i' || s[i] == 'I' {
			return s[:i] + Pick(r, []string{"İ", "İ", "ı"}) + s[i+1:]
		}
	}
	return s
}

func c13Date(r *Rand, layout string) string {
	t := time.Date(r.Range(1999, 2030), time.Month(r.Range(1, 12)), r.Range(1, 28), r.Intn(24), r.Intn(60), r.Intn(60), r.Intn(3)*500000000, time.UTC)
	if r.Chance(1, 6) {
		t = time.Date(2022, time.Month(r.Range(8, 9)), r.Range(1, 3), 10, 0, r.Intn(2), 0, time.UTC)
	}
	return t.Format(layout)
}

// ---------------------------------------------------------------- generators for the modelled library calls

// c13FloatText: structure-aware spellings around strconv.ParseFloat's grammar (mostly valid, some broken).
func c13FloatText(r *Rand) string {
	digits := func(n int) string {
		b := make([]byte, n)
		for i := range b {
			b[i] = byte('0' + r.Intn(10))
		}
		return string(b)
	}
	var sb strings.Builder
	switch r.Intn(8) {
	case 0:
		sb.WriteString("+")
	case 1, 2:
		sb.WriteString("-")
	}
	switch r.Intn(14) {
	case 0: // specials
		sb.WriteString(c13Case(r, Pick(r, []string{"inf", "infinity", "nan", "in", "infin", "infinit", "infinityy", "na", "nann"})))
		return sb.String()
	case 1, 2: // hex floats
		sb.WriteString(Pick(r, []string{"0x", "0X"}))
		hx := func(n int) string {
			b := make([]byte, n)
			for i := range b {
				b[i] = Pick(r, []byte("0123456789abcdefABCDEF"))
			}
			return string(b)
		}
		sb.WriteString(hx(r.Range(0, 4)))
		if r.Bool() {
			sb.WriteString(".")
			sb.WriteString(hx(r.Range(0, 3)))
		}
		if !r.Chance(1, 6) {
			sb.WriteString(Pick(r, []string{"p", "P"}))
			sb.WriteString(Pick(r, []string{"", "+", "-"}))
			sb.WriteString(Pick(r, []string{"0", "1", "4", "10", "52", "1023", "1024", "1074", "1075", "2000", "99999", ""}))
		}
		return sb.String()
	case 3: // near the representable limits / subnormals / ties
		sb.WriteString(Pick(r, []string{"1.7976931348623157e308", "1.7976931348623158e308", "1.7976931348623159e308", "1.797693134862315807e308",
			"4.9e-324", "2.4703282292062327e-324", "2.4703282292062328e-324", "2.5e-324", "2.2250738585072014e-308", "2.2250738585072011e-308",
			"9007199254740993", "9007199254740992", "9007199254740991", "9007199254740994.5", "18014398509481985", "1e23", "8.41e21", "1e22",
			"0.1", "0.30000000000000004", "123456789012345678901234567890", "1e309", "1e308", "1e-323", "1e-324", "0.000000000000000000000000000001"}))
		return sb.String()
	}
	// decimal: int part, optional underscores, fraction, exponent
	ip := digits(r.Range(0, 4))
	if r.Chance(1, 10) {
		ip = "00" + ip
	}
	if r.Chance(1, 10) && len(ip) > 1 {
		ip = ip[:1] + "_" + ip[1:]
	}
	if r.Chance(1, 40) {
		ip = "_" + ip
	}
	sb.WriteString(ip)
	if r.Chance(1, 2) {
		sb.WriteString(".")
		sb.WriteString(digits(r.Range(0, 4)))
	}
	if r.Chance(1, 3) {
		sb.WriteString(Pick(r, []string{"e", "E"}))
		sb.WriteString(Pick(r, []string{"", "+", "-"}))
		sb.WriteString(Pick(r, []string{"0", "1", "2", "3", "10", "22", "23", "300", "308", "309", "310", "323", "324", "330", "400", "9999", "10001", "99999999999", "", "1_0"}))
	}
	if r.Chance(1, 25) {
		sb.WriteString(Pick(r, []string{" ", "x", "f", "d", "_", ".", "e"}))
	}
	return sb.String()
}

func c13NumKey(r *Rand) string {
	switch r.Intn(6) {
	case 0:
		return Pick(r, c13Numbers)
	case 1:
		return Pick(r, c13NearNumbers)
	case 2:
		return strconv.Itoa(r.Range(-30, 130))
	case 3:
		return c13Word(r)
	}
	return c13FloatText(r)
}

// c13LowerKey: weekday/month/sort names with random case, the two runes that lower-case into ASCII
// (U+0130, U+212A), look-alikes, other runes, invalid UTF-8.
func c13LowerKey(r *Rand) string {
	base := Pick(r, append(append(append([]string{}, c13Weekdays...), c13Months...), "numeric", "value", "contextual", "text", "date", "weekly", "kilo", "ki", ""))
	if r.Chance(1, 6) {
		base = c13Word(r)
	}
	var sb strings.Builder
	for _, c := range []byte(base) {
		switch {
		case c == 'i' && r.Chance(1, 3):
			sb.WriteString(Pick(r, []string{"İ", "İ", "ı", "I", "Í"}))
		case c == 'k' && r.Chance(1, 2):
			sb.WriteString(Pick(r, []string{"K", "K", "Å"}))
		case r.Chance(1, 3) && c >= 'a' && c <= 'z':
			sb.WriteByte(c - 32)
		default:
			sb.WriteByte(c)
		}
		if r.Chance(1, 30) {
			sb.WriteString(Pick(r, []string{"\xff", "\xc4", "\xb0", "\xe2\x84", "\xc1\x81", "\xed\xa0\x80", "\xf4\x90\x80\x80", "é", "É", "ß", "ẞ", "Σ", "ς", "Ǆ", "ǅ", "Ⅷ", "𐐀", "\U0010ffff", "�", "\x00", "ſ", "Ω"}))
		}
	}
	if r.Chance(1, 20) {
		n := r.Range(1, 4)
		for i := 0; i < n; i++ {
			sb.WriteByte(byte(r.Intn(256)))
		}
	}
	if r.Chance(1, 20) {
		sb.WriteString(string(rune(r.Intn(0x110000))))
	}
	return sb.String()
}

// c13RuneMap: unicode.ToLower on the non-ASCII runes of s that it changes (the per-rune oracle of op lower).
func c13RuneMap(s string) string {
	seen := map[rune]bool{}
	var parts []string
	for _, c := range s {
		if c < utf8.RuneSelf || seen[c] {
			continue
		}
		seen[c] = true
		if l := unicode.ToLower(c); l != c {
			parts = append(parts, fmt.Sprintf("%d:%d", c, l))
		}
	}
	if len(parts) == 0 {
		return "."
	}
	return strings.Join(parts, ",")
}

func c13LibCases(r *Rand, n int) []string {
	var out []string
	out = append(out, "lowtab")
	for i := 0; i < n; i++ {
		// ParseFloat per key
		var ks []string
		for k := r.Range(1, 8); k > 0; k-- {
			ks = append(ks, c13NumKey(r))
		}
		out = append(out, "pf "+HexListS(ks))
		// the comparator itself on a small pool (distinct keys; spellings of equal values wanted)
		seen := map[string]bool{}
		var pool []string
		for k := r.Range(2, 7); k > 0; k-- {
			x := c13NumKey(r)
			if r.Chance(1, 3) && len(pool) > 0 { // another spelling of an earlier value
				if v, err := strconv.ParseFloat(pool[r.Intn(len(pool))], 64); err == nil {
					x = strconv.FormatFloat(v, Pick(r, []byte("feg")), Pick(r, []int{-1, 1, 3}), 64)
				}
			}
			if !seen[x] {
				seen[x] = true
				pool = append(pool, x)
			}
		}
		out = append(out, "smart "+HexListS(pool))
		// ToLower
		for k := 0; k < 3; k++ {
			key := c13LowerKey(r)
			out = append(out, "lower "+HexS(key)+" "+c13RuneMap(key))
			out = append(out, "fold "+HexS(key))
		}
	}
	return out
}

func c13Word(r *Rand) string {
	if r.Chance(2, 3) {
		return Pick(r, c13Words)
	}
	n := r.Range(1, 5)
	b := make([]byte, n)
	for i := range b {
		if r.Chance(1, 12) {
			b[i] = byte(r.Intn(256))
		} else {
			b[i] = Pick(r, []byte("abcxyzABZ019 -_./:"))
		}
	}
	return string(b)
}

// key classes: 0 numbers, 1 words, 2 weekdays, 3 months, 4 dates (one layout), 5 dates (mixed layouts), 6 mixture
func c13Key(r *Rand, class int, layout string) string {
	switch class {
	case 0:
		if r.Chance(1, 8) {
			return Pick(r, c13NearNumbers)
		}
		if r.Chance(1, 4) {
			return strconv.Itoa(r.Range(-20, 120))
		}
		if r.Chance(1, 8) {
			return strconv.FormatFloat(float64(r.Range(-50, 50))/4, 'f', r.Intn(3), 64)
		}
		if r.Chance(1, 5) {
			return c13FloatText(r)
		}
		return Pick(r, c13Numbers)
	case 1:
		return c13Word(r)
	case 2:
		return c13Dot(r, c13Case(r, Pick(r, c13Weekdays)))
	case 3:
		return c13Dot(r, c13Case(r, Pick(r, c13Months)))
	case 4:
		return c13Date(r, layout)
	case 5:
		return c13Date(r, Pick(r, c13DateLayouts))
	}
	return c13Key(r, r.Intn(6), layout)
}

func c13KeySet(r *Rand, class, n int) []string {
	layout := Pick(r, c13DateLayouts)
	seen := map[string]bool{}
	var keys []string
	for tries := 0; len(keys) < n && tries < 20*n+20; tries++ {
		c := class
		if class == 7 { // mostly one class, one stranger or two
			c = 2 + r.Intn(3)
			if r.Chance(1, 4) {
				c = r.Intn(2)
			}
		}
		k := c13Key(r, c, layout)
		if !seen[k] {
			seen[k] = true
			keys = append(keys, k)
		}
	}
	return keys
}

var c13Names0 = []string{"text", "numeric", "contextual", "context", "date", "value", ""}
var c13Mods = []string{"", "", "", ":asc", ":desc", ":reverse", ":rev"}
var c13BadNames = []string{"bla", "numeric:bla", "text:", ":asc", "value:asc:desc", "a:b:c", "text::desc", "valué", "numerİc", "value:",
	"date:REV", "Value:Desc", "NUMERIC", "Context:Reverse", ":", "::", "numeric :asc", "text:asc ", "sort", "values", "num", "text:ascending",
	"contextual:rev:x", "\xff", "date:\xff", "TEXT:ASC:", "value:reverse:reverse",
	"numerİc:desc", "contextual:descendİng", "NUMERİC", "date:rev\xc4", "teKt", "numer\xc4\xb0c:REVERSE", "numerıc", "context\xc4\xb0al"}

func c13SortName(r *Rand) string {
	if r.Chance(1, 12) {
		return Pick(r, c13BadNames)
	}
	n := Pick(r, c13Names0) + Pick(r, c13Mods)
	if r.Chance(1, 6) {
		n = c13Case(r, n)
	}
	return n
}

func c13ValuesField(r *Rand, n int) string {
	if n == 0 {
		return "."
	}
	out := make([]string, n)
	kind := r.Intn(4)
	for i := range out {
		switch kind {
		case 0:
			out[i] = strconv.Itoa(r.Intn(3))
		case 1:
			out[i] = strconv.Itoa(r.Range(-5, 60))
		case 2:
			out[i] = "7"
		default:
			out[i] = strconv.FormatInt(Pick(r, []int64{0, 1, -1, 52, 52, 5, 12, 3, math.MaxInt64, math.MinInt64, 1 << 40}), 10)
		}
	}
	return strings.Join(out, ",")
}

func c13Perm(r *Rand, n int) []int {
	p := make([]int, n)
	for i := range p {
		p[i] = i
	}
	for i := n - 1; i > 0; i-- {
		j := r.Intn(i + 1)
		p[i], p[j] = p[j], p[i]
	}
	return p
}

func c13IntsField(p []int) string {
	if len(p) == 0 {
		return "."
	}
	s := make([]string, len(p))
	for i, v := range p {
		s[i] = strconv.Itoa(v)
	}
	return strings.Join(s, ",")
}

func c13IsName(k string, list []string) bool {
	k = strings.ToLower(k)
	for _, w := range list {
		if w == k {
			return true
		}
	}
	return false
}

func c13Ascii(s string) bool {
	for i := 0; i < len(s); i++ {
		if s[i] >= 0x80 {
			return false
		}
	}
	return true
}

// c13Uniform mirrors Rare.C13.ctxUniform / dateUniform: when are the inferring closures a function of the pair.
func c13Uniform(mode string, keys []string) bool {
	ctx := func() bool {
		allW, allM, none := true, true, true
		for _, k := range keys {
			w, m := c13IsName(k, c13Weekdays), c13IsName(k, c13Months)
			allW = allW && w
			allM = allM && m
			none = none && !w && !m
		}
		return allW || allM || none
	}
	switch mode {
	case "contextual", "context":
		return ctx()
	case "date":
		if len(keys) == 0 {
			return true
		}
		f0, err := dateparse.ParseFormat(keys[0])
		if err == nil && f0 != "" {
			for _, k := range keys {
				f, err := dateparse.ParseFormat(k)
				if err != nil || f != f0 {
					return false
				}
				if _, err := time.Parse(f0, k); err != nil {
					return false
				}
			}
			return true
		}
		for _, k := range keys {
			if f, err := dateparse.ParseFormat(k); err == nil && f != "" {
				return false
			}
		}
		return ctx()
	}
	return true
}

func c13BaseMode(name string) string {
	return strings.ToLower(strings.SplitN(name, ":", 2)[0])
}

type c13Set struct {
	keys   []string
	values string
	tail   string
}

func c13MakeSet(r *Rand, keys []string) c13Set {
	df, dp, _ := c13Dates(keys)
	return c13Set{keys, c13ValuesField(r, len(keys)), df + " " + dp}
}

func (s c13Set) line(op, name, extra string) string {
	if extra == "" {
		return fmt.Sprintf("%s %s %s %s %s", op, HexS(name), HexListS(s.keys), s.values, s.tail)
	}
	return fmt.Sprintf("%s %s %s %s %s %s", op, HexS(name), HexListS(s.keys), s.values, extra, s.tail)
}

// specOK: may the spec-level ops be emitted for this set and sort name (the model then answers the set-level order)
func c13SpecOK(name string, keys []string) bool {
	return c13Uniform(c13BaseMode(name), keys)
}

func c13Record(name string, set c13Set, perm []int) string {
	// the comparison sequence of a real sort.Sort run, replayed later against ONE fresh closure
	sorter, _ := c13Build(name)
	if sorter == nil {
		return "."
	}
	vals := c13Values(set.values, len(set.keys))
	type it struct {
		sorting.NameValuePair
		idx int
	}
	var items []it
	for _, i := range perm {
		items = append(items, it{sorting.NameValuePair{Name: set.keys[i], Value: vals[i]}, i})
	}
	var pairs []string
	// recorder: compare by index wrapper; the sorter itself is consulted to make the run realistic
	rec := func(a, b it) bool {
		pairs = append(pairs, fmt.Sprintf("%d-%d", a.idx, b.idx))
		return sorter(a.NameValuePair, b.NameValuePair)
	}
	sorting.Sort(items, rec)
	if len(pairs) == 0 {
		return "."
	}
	if len(pairs) > 400 {
		pairs = pairs[:400]
	}
	return strings.Join(pairs, ",")
}

func c13Gen(r *Rand, tier string) []string {
	n := 900
	if tier == "thorough" {
		n = 30000
	}
	var out []string
	for i := 0; i < n; i++ {
		class := Pick(r, []int{0, 0, 1, 2, 3, 4, 5, 6, 6, 7, 7, 8, 8, 8, 9, 10, 11})
		size := r.Range(0, 7)
		if r.Chance(1, 8) {
			size = r.Range(8, 12)
		}
		if r.Chance(1, 25) {
			size = r.Range(13, 40)
		}
		var ks []string
		switch class {
		case 8: // one layout with a zone, the same instants written in several zones
			ks = c13ZonePool(r, size)
		case 9: // respellings of the same instant that one layout accepts
			ks = c13RespellPool(r, size)
		case 10: // numbers that are the same float64 in several spellings
			ks = c13NumTiePool(r, size)
		case 11: // case spellings of the same weekday / month
			ks = c13CtxTiePool(r, size)
		default:
			ks = c13KeySet(r, class, size)
		}
		set := c13MakeSet(r, ks)
		if r.Chance(1, 4) {
			set.values = c13TieValues(r, len(ks))
		}
		size = len(set.keys)
		name := c13SortName(r)
		if r.Chance(1, 3) || (class >= 8 && r.Chance(1, 2)) { // aim the mode at the data
			switch class {
			case 0, 10:
				name = "numeric" + Pick(r, c13Mods)
			case 2, 3, 7, 11:
				name = Pick(r, []string{"contextual", "context", "date"}) + Pick(r, c13Mods)
			case 4, 5, 8, 9:
				name = "date" + Pick(r, c13Mods)
			}
		}
		dateMode := c13BaseMode(name) == "date"
		perms := [][]int{c13Perm(r, size), c13Perm(r, size)}
		for _, p := range perms {
			out = append(out, set.line("sort", name, c13IntsField(p)))
		}
		if c13SpecOK(name, set.keys) {
			out = append(out, set.line("sortspec", name, c13IntsField(perms[0])))
			if r.Chance(1, 3) {
				out = append(out, set.line("agg", name, c13IntsField(perms[0])))
			}
		}
		if size > 0 {
			// one closure along a random comparison sequence and along a recorded real run
			var pairs []string
			for k := r.Range(1, 16); k > 0; k-- {
				pairs = append(pairs, fmt.Sprintf("%d-%d", r.Intn(size), r.Intn(size)))
			}
			out = append(out, set.line("cmpseq", name, strings.Join(pairs, ",")))
			if r.Chance(1, 2) {
				out = append(out, set.line("cmpseq", name, c13Record(name, set, perms[1])))
			}
		}
		if size <= 9 && r.Chance(1, 2) {
			out = append(out, set.line("axioms", name, ""))
		}
		if dateMode || (class == 8 || class == 9 || class == 4 || class == 5) && r.Chance(1, 2) {
			// the same questions with time.Parse computed by the model (layouts instead of instants)
			dname := name
			if !dateMode {
				dname = "date" + Pick(r, c13Mods)
			}
			out = append(out, set.dline("dsort", dname, c13IntsField(perms[0])), set.dline("dsort", dname, c13IntsField(perms[1])))
			if c13SpecOK(dname, set.keys) {
				out = append(out, set.dline("dsortspec", dname, c13IntsField(perms[1])))
			}
			if size > 0 {
				out = append(out, set.dline("dcmpseq", dname, c13Record(dname, set, perms[0])))
			}
			if size <= 9 {
				out = append(out, set.dline("daxioms", dname, ""))
			}
			if r.Chance(1, 2) {
				out = append(out, c13TParseCases(r, set.keys)...)
			}
		}
	}
	// row order of `rare reduce` through the real AccumulatingGroup.Groups
	if tier == "thorough" {
		out = append(out, c13GroupsCases(r, 6000)...)
	} else {
		out = append(out, c13GroupsCases(r, 400)...)
	}
	// two sorters (rows, columns) and the render loop of table / heatmap / spark
	if tier == "thorough" {
		out = append(out, c13AxesCases(r, 8000)...)
		out = append(out, c13TopNCases(r, 6000)...)
	} else {
		out = append(out, c13AxesCases(r, 500)...)
		out = append(out, c13TopNCases(r, 300)...)
	}
	// the modelled library calls against the real ones
	if tier == "thorough" {
		out = append(out, c13LibCases(r, 6000)...)
	} else {
		out = append(out, c13LibCases(r, 500)...)
	}
	// sort-name table: every name x modifier (and spellings) on a fixed probe set
	probe := c13MakeSet(NewRand(7), []string{"10", "9", "mon", "fri", "01/02/2022", "12/31/2021", "b", "B"})
	probe.values = "3,3,1,2,0,5,5,-1"
	for _, nm := range append(append([]string{}, c13Names0...), "bla", "VALUE", "Date", "tExT") {
		for _, md := range []string{"", ":asc", ":desc", ":rev", ":reverse", ":bla", ":", ":ASC", ":Reverse", ":asc:x", ":x:asc"} {
			out = append(out, probe.line("sort", nm+md, "0,1,2,3,4,5,6,7"))
			out = append(out, probe.line("axioms", nm+md, ""))
		}
	}
	for _, nm := range c13BadNames {
		out = append(out, probe.line("sort", nm, "7,6,5,4,3,2,1,0"))
		out = append(out, "sbv "+HexS(nm))
	}
	for _, nm := range append(append([]string{}, c13Names0...), "bla", "VALUE", "Value", "valu\xc4\x97", "VAL\xe2\x84\xaaE", "value ", " value", "values") {
		for _, md := range []string{"", ":asc", ":desc", ":rev", ":reverse", ":bla", ":", ":ASC", ":asc:x", "::", ":value"} {
			out = append(out, "sbv "+HexS(nm+md))
		}
	}
	for i := 0; i < 60; i++ {
		out = append(out, "sbv "+HexS(c13SortName(r)), "sbv "+HexS(c13LowerKey(r)+Pick(r, c13Mods)))
	}
	if tier == "thorough" {
		// exhaustive small enumerations: every 3-subset of a mixed pool x every permutation x every mode
		pool := []string{"10", "1a", "2", "1", "1.0", "nan", "inf", "-2", "mon", "fri", "Tue", "tues", "jan", "may", "abc", "g",
			"2022-09-03", "2021-09-01", "01/02/2022", "12/31/2021", ""}
		perms3 := [][]int{{0, 1, 2}, {0, 2, 1}, {1, 0, 2}, {1, 2, 0}, {2, 0, 1}, {2, 1, 0}}
		rr := NewRand(99)
		for a := 0; a < len(pool); a++ {
			for b := a + 1; b < len(pool); b++ {
				for c := b + 1; c < len(pool); c++ {
					set := c13MakeSet(rr, []string{pool[a], pool[b], pool[c]})
					for _, nm := range []string{"text", "numeric", "contextual", "date", "value", "numeric:desc", "contextual:rev", "value:asc"} {
						for _, p := range perms3 {
							out = append(out, set.line("sort", nm, c13IntsField(p)))
						}
						if c13SpecOK(nm, set.keys) {
							out = append(out, set.line("sortspec", nm, "0,1,2"))
						}
					}
				}
			}
		}
		// all 120 permutations of selected 5-sets
		for _, ks := range [][]string{{"10", "1a", "2", "1.0", "1"}, {"wed", "Tues", "mon", "thurs", "tue"}, {"mon", "fri", "abc", "jan", "2"},
			{"2022-09-03", "2022-09-02", "notadate", "2021-09-01", "2022-09-2"}, {"qef", "abc", "egf", "zac", "bbb"}} {
			set := c13MakeSet(rr, ks)
			set.values = "5,12,52,52,3"
			var rec func(cur []int, used int)
			rec = func(cur []int, used int) {
				if len(cur) == 5 {
					for _, nm := range []string{"text", "numeric", "contextual", "date", "value", "value:asc", "text:desc"} {
						out = append(out, set.line("sort", nm, c13IntsField(cur)))
					}
					return
				}
				for i := 0; i < 5; i++ {
					if used&(1<<i) == 0 {
						rec(append(append([]int{}, cur...), i), used|1<<i)
					}
				}
			}
			rec(nil, 0)
		}
	}
	return out
}

func c13Stats(cases []string) map[string]int {
	st := map[string]int{}
	for _, c := range cases {
		f := strings.Fields(c)
		st["op."+f[0]]++
		switch f[0] {
		case "lowtab":
			continue
		case "groups":
			if f[3] == "." {
				st["groups.noSortExpr"]++
			} else {
				ks := UnHexListS(f[3])
				cnt := map[string]int{}
				for _, k := range ks {
					cnt[k]++
				}
				tie := false
				for _, c := range cnt {
					tie = tie || c > 1
				}
				if tie && len(cnt) > 1 {
					st["groups.tieAndNonTie"]++
				} else if tie {
					st["groups.onlyTies"]++
				}
				if !c13Uniform("contextual", ks) {
					st["groups.nonUniformSortKeys"]++
				}
			}
			named := false
			for _, g := range UnHexListS(f[2]) {
				named = named || c13IsName(g, c13Weekdays) || c13IsName(g, c13Months)
			}
			if named {
				st["groups.weekdayMonthGroupNames"]++
			}
			if f[1] == "1" {
				st["groups.reversed"]++
			}
			continue
		case "sbv":
			if helpers.SortsByValue(string(UnHex(f[1]))) {
				st["sbv.true"]++
			} else {
				st["sbv.false"]++
			}
			continue
		case "topn":
			n, _ := strconv.Atoi(f[4])
			k := len(UnHexListS(f[2]))
			switch {
			case n < 0:
				st["topn.negative"]++
			case n == 0:
				st["topn.zero"]++
			case n < k:
				st["topn.cuts"]++
			default:
				st["topn.keepsAll"]++
			}
			continue
		case "axes", "axesagg":
			rn, cn := c13BaseMode(string(UnHex(f[1]))), c13BaseMode(string(UnHex(f[2])))
			isStateful := func(m string) bool { return m == "contextual" || m == "context" || m == "date" }
			rows, cols := UnHexListS(f[3]), UnHexListS(f[4])
			if isStateful(rn) && isStateful(cn) {
				st["axes.bothStateful"]++
				if (rn == "date") == (cn == "date") {
					st["axes.sameStatefulMode"]++
					all := append(append([]string{}, rows...), cols...)
					if len(rows) > 1 && len(cols) > 1 && c13Uniform(rn, rows) && c13Uniform(cn, cols) && !c13Uniform(rn, all) {
						st["axes.sameModeDifferentKindsEachUniform"]++
					}
				}
			}
			if !c13Uniform(rn, rows) || !c13Uniform(cn, cols) {
				st["axes.someAxisNonUniform"]++
			}
			if n := len(c13ParseRenders(f[5])); n > 1 {
				st["axes.severalRenders"]++
			}
			continue
		case "tparse":
			lay := string(UnHex(f[1]))
			for _, k := range UnHexListS(f[2]) {
				if _, err := time.Parse(lay, k); err != nil {
					st["tparse.error"]++
				} else {
					st["tparse.ok"]++
				}
			}
			if strings.Contains(lay, "-07") || strings.Contains(lay, "Z07") {
				st["tparse.layoutNumericZone"]++
			}
			if strings.Contains(lay, "MST") {
				st["tparse.layoutZoneAbbr"]++
			}
			continue
		case "pf", "smart":
			for _, k := range UnHexListS(f[1]) {
				v, err := strconv.ParseFloat(k, 64)
				switch {
				case err != nil && strings.Contains(err.Error(), "range"):
					st["float.rangeError"]++
				case err != nil:
					st["float.syntaxError"]++
				case v != v:
					st["float.nan"]++
				case math.IsInf(v, 0):
					st["float.inf"]++
				case v == 0:
					st["float.zero"]++
				case math.Abs(v) < 2.2250738585072014e-308:
					st["float.subnormal"]++
				default:
					st["float.normal"]++
				}
				if strings.ContainsAny(k, "xX") && err == nil {
					st["float.hexSpelling"]++
				}
				if strings.Contains(k, "_") {
					st["float.withUnderscore"]++
				}
			}
			continue
		case "lower", "fold":
			k := string(UnHex(f[1]))
			switch {
			case c13Ascii(k):
				st["lower.asciiKey"]++
			case !utf8.ValidString(k):
				st["lower.invalidUtf8"]++
			default:
				st["lower.nonAsciiValid"]++
			}
			if strings.Contains(k, "İ") || strings.Contains(k, "K") {
				st["lower.withDotIOrKelvin"]++
			}
			if l := strings.ToLower(k); !c13Ascii(k) && c13Ascii(l) {
				st["lower.nonAsciiToAscii"]++
				if c13IsName(k, c13Weekdays) || c13IsName(k, c13Months) {
					st["lower.nonAsciiDayMonthName"]++
				}
			}
			continue
		}
		name := string(UnHex(f[1]))
		if !c13Ascii(name) {
			st["name.nonAscii"]++
		}
		mode := c13BaseMode(name)
		switch mode {
		case "text", "numeric", "contextual", "context", "date", "value", "":
			st["mode."+mode]++
		default:
			st["mode.other"]++
		}
		if strings.Contains(name, ":") {
			st["name.withModifier"]++
		}
		keys := UnHexListS(f[2])
		for _, k := range keys {
			if !c13Ascii(k) {
				st["keys.withNonAscii"]++
				break
			}
		}
		switch {
		case len(keys) == 0:
			st["size.0"]++
		case len(keys) <= 2:
			st["size.1-2"]++
		case len(keys) <= 12:
			st["size.3-12"]++
		default:
			st["size.13+"]++
		}
		nums, names, dates, other, spell := 0, 0, 0, 0, map[float64]int{}
		for _, k := range keys {
			if v, err := strconv.ParseFloat(k, 64); err == nil {
				nums++
				spell[v]++
			} else if c13IsName(k, c13Weekdays) || c13IsName(k, c13Months) {
				names++
			} else if _, err := dateparse.ParseFormat(k); err == nil {
				dates++
			} else {
				other++
			}
		}
		for _, c := range spell {
			if c > 1 {
				st["keys.sameNumberTwoSpellings"]++
				break
			}
		}
		kinds := 0
		for _, v := range []int{nums, names, dates, other} {
			if v > 0 {
				kinds++
			}
		}
		if kinds > 1 {
			st["keys.mixture"]++
		}
		if nums > 0 {
			st["keys.withNumbers"]++
		}
		if names > 0 {
			st["keys.withDayMonthNames"]++
		}
		if dates > 0 {
			st["keys.withDates"]++
		}
		if (mode == "contextual" || mode == "context" || mode == "date") && !c13Uniform(mode, keys) {
			st["stateful.nonUniformSet"]++
		}
		// keys denoting one instant: in different zones / in the same zone spelled differently
		if dates > 1 {
			type inst struct {
				at  string
				off int
			}
			byLayout := map[string]map[string][]int{}
			for _, k := range keys {
				lay, err := dateparse.ParseFormat(k)
				if err != nil || lay == "" {
					continue
				}
				for _, k2 := range keys {
					if t, err := time.Parse(lay, k2); err == nil {
						if byLayout[lay] == nil {
							byLayout[lay] = map[string][]int{}
						}
						_, off := t.Zone()
						byLayout[lay][instant(t)] = append(byLayout[lay][instant(t)], off)
					}
				}
			}
			zones, same := false, false
			for _, m := range byLayout {
				for _, offs := range m {
					for _, o := range offs[1:] {
						if o != offs[0] {
							zones = true
						} else {
							same = true
						}
					}
				}
			}
			if zones {
				st["keys.sameInstantDifferentZones"]++
			}
			if same {
				st["keys.sameInstantSameZoneRespelled"]++
			}
		}
		if f[3] != "." {
			vs := strings.Split(f[3], ",")
			cnt := map[string]int{}
			for _, v := range vs {
				cnt[v]++
			}
			for _, c := range cnt {
				if c > 1 {
					st["values.withTies"]++
					break
				}
			}
		}
	}
	return st
}

// c13Corpus: the inputs of the confirmed defects (F18 and the calendar/instant ties, fixed; F19 known),
// every arrival order each.  The two `sortspec` lines are the known-finding witnesses.
func c13Corpus() []string {
	var out []string
	// first, so that they run in a process that has built no sorter yet: each of these cases is a self-contained failing
	// input for closures shared between BuildSorter calls (later cases would also see state left behind by earlier ones)
	out = append(out, c13AxesCorpus()...)
	rr := NewRand(13)
	all := func(name string, keys []string) {
		set := c13MakeSet(rr, keys)
		set.values = strings.TrimSuffix(strings.Repeat("0,", len(keys)), ",")
		var rec func(cur []int, used int)
		rec = func(cur []int, used int) {
			if len(cur) == len(keys) {
				out = append(out, set.line("sort", name, c13IntsField(cur)))
				return
			}
			for i := range keys {
				if used&(1<<i) == 0 {
					rec(append(append([]int{}, cur...), i), used|1<<i)
				}
			}
		}
		rec(nil, 0)
		if c13SpecOK(name, keys) {
			out = append(out, set.line("sortspec", name, c13IntsField(c13Perm(rr, len(keys)))))
			out = append(out, set.line("agg", name, c13IntsField(c13Perm(rr, len(keys)))))
		}
		out = append(out, set.line("axioms", name, ""))
	}
	all("numeric", []string{"10", "1a", "2"})
	all("numeric", []string{"1", "1.0"})
	all("numeric", []string{"nan", "1", "2"})
	all("numeric:desc", []string{"10", "1a", "2", "1.0", "1"})
	all("contextual", []string{"tue", "tues"})
	all("contextual", []string{"mon", "Mon", "MON"})
	all("date", []string{"2022-01-02 10:00:00", "2022-01-02 10:00:00.0"})
	all("contextual", []string{"wed", "abc", "00"})
	all("contextual", []string{"mon", "fri", "abc"})
	all("date", []string{"01/02/2022", "12/31/2021", "abc"})
	// round 2: ParseFloat / ToLower modelled – spellings of one value, signed zero, NaN/Inf spellings, range
	// errors, hex floats, underscores; non-ASCII spellings of weekday/month/sort names
	all("numeric", []string{"1", "1.0", "1e0", "+1", "01"})
	all("numeric", []string{"-0", "0", "0.0", "1e-400"})
	all("numeric", []string{"nan", "inf", "-inf", "1e400"})
	all("numeric:desc", []string{"0x1p4", "16", "0x10", "1_6"})
	all("numeric", []string{"Infinity", "+Inf", "1.7976931348623157e308", "1.7976931348623159e308"})
	all("contextual", []string{"frİday", "MON", "tue"})
	all("contextual", []string{"frıday", "mon", "tue"})
	all("contextual", []string{"aprİl", "MAY", "jun"})
	all("date", []string{"frİ", "sat", "SUN"})
	all("numerİc", []string{"10", "9", "1a"})
	all("valué", []string{"a", "b"})
	all("contextual", []string{"mon\xff", "mon", "tue"})
	// value: ties (equal totals) and negative totals, every direction, every arrival order
	for _, nm := range []string{"value", "value:asc", "value:desc", "value:reverse", "value:rev", "VALUE:ASC", "text:desc", "numeric:reverse"} {
		vs := c13MakeSet(rr, []string{"a", "b", "c", "d", "e"})
		vs.values = "-3,0,5,0,-3"
		for i := 0; i < 12; i++ {
			out = append(out, vs.line("sort", nm, c13IntsField(c13Perm(rr, 5))))
		}
		out = append(out, vs.line("sortspec", nm, "0,1,2,3,4"), vs.line("agg", nm, "4,3,2,1,0"), vs.line("axioms", nm, ""))
	}
	out = append(out, "lowtab")
	for _, k := range []string{"frİday", "FRİDAY", "K", "weeK", "İ", "ı", "\xc4", "\xb0\xc4", "\xe2\x84", "\xe2\x84\xaa\xe2\x84\xaa", "É", "é", "\xff", "a\xffB",
		"\xc1\x81", "\xed\xa0\x80", "\xf4\x90\x80\x80", "ẞ", "Σ", "ǅ", "𐐀", "MONDAY", "monday", "", "\x00A", "�"} {
		out = append(out, "lower "+HexS(k)+" "+c13RuneMap(k), "fold "+HexS(k))
	}
	out = append(out, "pf "+HexListS([]string{"1", "1.0", "1e0", "+1", "-0", "0", "nan", "NaN", "+nan", "inf", "-inf", "+Inf", "Infinity", "infin", "1e400", "-1e400",
		"1e-400", "0x1p4", "0x10", "1_000", "1_0", "0x_1p0", "1__0", "_1", "1_", "0b11", "0o7", ".5", "5.", ".", "1e", "0x", "0x1", "0x1p", "0X1P+2",
		"1e5000000000", "0x1p99999999", "1e-99999999999", "00", "007", "1E3", "iNfInItY", "1.7976931348623159e308", "1.7976931348623158e308",
		"4.9e-324", "2.4703282292062327e-324", "2.4703282292062328e-324", "9007199254740993", "0x1.fffffffffffff8p1023", "0x1.fffffffffffff7p1023",
		"0x.8p1", "0x1.p0", "0x.p0", "1e+", "1e-", "", " 1", "1 ", "١"}))
	out = append(out, "smart "+HexListS([]string{"1", "1.0", "1e0", "+1", "-0", "0", "nan", "inf", "-inf", "1e400", "0x1p4", "16", "abc", ""}))
	w1 := c13MakeSet(rr, []string{"mon", "fri", "abc"})
	w1.values = "0,0,0"
	out = append(out, w1.line("sortspec", "contextual", "0,1,2"))
	w2 := c13MakeSet(rr, []string{"01/02/2022", "12/31/2021", "abc"})
	w2.values = "0,0,0"
	out = append(out, w2.line("sortspec", "date", "0,1,2"))
	// F19, third witness: no stranger at all – the layout is taken from whichever key is seen first, and the layout
	// of 2022-9-3 (2006-1-2) also parses the zero-padded dates while 2006-01-02 does not parse 2022-9-3
	all("date", []string{"2022-10-01", "2022-9-3", "2022-09-02"})
	w3 := c13MakeSet(rr, []string{"2022-10-01", "2022-9-3", "2022-09-02"})
	w3.values = "0,0,0"
	out = append(out, w3.line("sortspec", "date", "0,1,2"))
	// round 4: keys denoting ONE instant in different zones (time.Time == also compares the zone pointer; Equal does not):
	// every arrival order, both with the instants as data (sort/axioms) and with time.Parse computed by the model (d-ops)
	zoneKeys := []string{"2022-09-03T09:30:00+0000", "2022-09-03T10:00:00+0000", "2022-09-03T12:00:00+0200", "2022-09-03T05:00:00-0500", "2022-09-03T11:15:00+0000"}
	all("date", zoneKeys)
	all("date:desc", zoneKeys[1:4])
	all("date", []string{"2022-09-03 10:00:00 MST", "2022-09-03 10:00:00 PST", "2022-09-03 10:00:00 UTC", "2022-09-03 09:59:59 CEST"})
	all("date", []string{"03/Sep/2022:12:00:00 +0200", "03/Sep/2022:10:00:00 +0000", "03/Sep/2022:15:30:00 +0530", "03/Sep/2022:11:00:00 +0200"})
	for _, ks := range [][]string{zoneKeys, {"2022-09-03 10:00:00 MST", "2022-09-03 10:00:00 PST", "2022-09-03 12:00:00 GMT+2", "2022-09-03 10:00:00 UTC"},
		{"2022-09-03T12:00:00+02:00", "2022-09-03T10:00:00Z", "2022-09-03T10:00:00+00:00", "2022-09-03T04:15:00-05:45"},
		{"2022-09-03 10:00:00", "2022-09-03 10:00:00.0", "2022-09-03 10:00:00.000", "2022-09-03 10:00:00,000", "2022-09-03 10:00:01"},
		{"Sep 3, 2022", "sep 3, 2022", "SEP 3, 2022", "Sep 03, 2022", "Sep 4, 2022"}} {
		set := c13MakeSet(rr, ks)
		set.values = strings.TrimSuffix(strings.Repeat("1,", len(ks)), ",")
		for _, nm := range []string{"date", "date:desc"} {
			for i := 0; i < 8; i++ {
				out = append(out, set.dline("dsort", nm, c13IntsField(c13Perm(rr, len(ks)))))
			}
			if c13SpecOK(nm, ks) {
				out = append(out, set.dline("dsortspec", nm, c13IntsField(c13Perm(rr, len(ks)))), set.dline("dagg", nm, c13IntsField(c13Perm(rr, len(ks)))))
			}
			out = append(out, set.dline("daxioms", nm, ""), set.dline("dcmpseq", nm, c13Record(nm, set, c13Perm(rr, len(ks)))))
		}
		out = append(out, c13TParseCases(rr, ks)...)
	}
	out = append(out, c13GroupsCorpus()...)
	out = append(out, "tparse "+HexS("2006-01-02T15:04:05-0700")+" "+HexListS([]string{"2022-09-03T10:00:00+0000", "2022-09-03T12:00:00+0200", "2022-09-03T05:00:00-0500",
		"2022-09-03T10:00:00+2400", "2022-09-03T10:00:00+2500", "2022-09-03T10:00:00+0060", "2022-09-03T10:00:00+0061", "2022-09-03T10:00:00 0000", "2022-09-03T10:00:00Z",
		"2022-09-03T24:00:00+0000", "2022-02-29T10:00:00+0000", "2024-02-29T10:00:00+0000", "2022-09-03T10:00:00.5+0000", "2022-09-03T10:00:00,25+0000", "2022-09-03T10:00:60+0000",
		"0000-01-01T00:00:00+0000", "9999-12-31T23:59:59-2359", "2022-9-3T10:00:00+0000", "", "2022-09-03T10:00:00+000", "2022-09-03T10:00:00+00000"}))
	return out
}

func init() {
	Register("C13", &Prop{Gen: c13Gen, Run: c13Run, Stats: c13Stats, Corpus: c13Corpus()})
}
